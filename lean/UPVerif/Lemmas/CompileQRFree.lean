import UPVerif.Lemmas.CompileQRDen
/-!
QuantifiersRemover, part 3: the result of `remove_quantifiers` contains no quantifier.
-/
namespace UPVerif.Compile
open UPVerif UPVerif.Expr UPVerif.Sim UPVerif.Spec UPVerif.Simp

mutual
/-- no `Exists` / `Forall` node -/
def qfree : Expr → Bool
  | .leaf _ => true
  | .app _ args => qfreeList args
  | .quant _ _ _ => false
def qfreeList : List Expr → Bool
  | [] => true
  | e :: es => qfree e && qfreeList es
end

theorem qfreeList_iff {es : List Expr} : qfreeList es = true ↔ ∀ e ∈ es, qfree e = true := by
  induction es with
  | nil => simp [qfreeList]
  | cons x xs ih => simp [qfreeList, ih]

theorem qfree_qNodup : (∀ e, qfree e = true → qNodup e = true) ∧ (∀ es, qfreeList es = true → qNodupList es = true) := by
  have key : ∀ n, (∀ e, e.size ≤ n → qfree e = true → qNodup e = true) ∧
      (∀ es, Expr.sizeList es ≤ n → qfreeList es = true → qNodupList es = true) := by
    intro n
    induction n with
    | zero =>
      constructor
      · intro e he; cases e <;> simp [Expr.size] at he
      · intro es he _
        cases es with
        | nil => rfl
        | cons x xs =>
          simp [Expr.sizeList] at he
          cases x <;> simp [Expr.size] at he
    | succ n ih =>
      have hexpr : ∀ e, e.size ≤ n + 1 → qfree e = true → qNodup e = true := by
        intro e he h
        cases e with
        | leaf l => rfl
        | app op args =>
          simp only [Expr.size] at he
          simp only [qfree] at h
          simp only [qNodup]
          exact ih.2 args (by omega) h
        | quant q vs b => simp [qfree] at h
      refine ⟨hexpr, ?_⟩
      intro es he h
      cases es with
      | nil => rfl
      | cons x xs =>
        simp only [Expr.sizeList] at he
        simp only [qfreeList, Bool.and_eq_true] at h
        have hx : 1 ≤ x.size := by cases x <;> simp [Expr.size] <;> omega
        simp only [qNodupList, Bool.and_eq_true]
        exact ⟨hexpr x (by omega) h.1, ih.2 xs (by omega) h.2⟩
  exact ⟨fun e => (key e.size).1 e (Nat.le_refl _), fun es => (key (Expr.sizeList es)).2 es (Nat.le_refl _)⟩

theorem qfree_mkAnd {es : List Expr} (h : qfreeList es = true) : qfree (mkAnd es) = true := by
  match es, h with
  | [], _ => rfl
  | [x], h => simpa [mkAnd, qfreeList] using h
  | x :: y :: r, h => simpa [mkAnd, qfree] using h

theorem qfree_mkOr {es : List Expr} (h : qfreeList es = true) : qfree (mkOr es) = true := by
  match es, h with
  | [], _ => rfl
  | [x], h => simpa [mkOr, qfreeList] using h
  | x :: y :: r, h => simpa [mkOr, qfree] using h

theorem qfree_mkPlus {es : List Expr} (h : qfreeList es = true) : qfree (mkPlus es) = true := by
  match es, h with
  | [], _ => rfl
  | [x], h => simpa [mkPlus, qfreeList] using h
  | x :: y :: r, h => simpa [mkPlus, qfree] using h

theorem qfree_mkTimes {es : List Expr} (h : qfreeList es = true) : qfree (mkTimes es) = true := by
  match es, h with
  | [], _ => rfl
  | [x], h => simpa [mkTimes, qfreeList] using h
  | x :: y :: r, h => simpa [mkTimes, qfree] using h

theorem qfree_mkNot {x : Expr} (h : qfree x = true) : qfree (mkNot x) = true := by
  unfold mkNot
  split
  · rename_i y
    simpa [qfree, qfreeList] using h
  · simpa [qfree, qfreeList] using h

theorem qfree_rebuild {op : Op} {args : List Expr} (h : qfreeList args = true) : qfree (rebuild op args) = true := by
  unfold rebuild
  split
  · exact qfree_mkAnd h
  · exact qfree_mkOr h
  · rename_i x
    exact qfree_mkNot (by simpa [qfreeList] using h)
  · exact qfree_mkPlus h
  · exact qfree_mkTimes h
  · simpa [qfree] using h

/-- substituting object constants for variables introduces no quantifier -/
theorem qfree_subst_objs (τ : OSub) :
    (∀ e, qfree e = true → qfree (subst (osSubst τ) e) = true) ∧
    (∀ es, qfreeList es = true → qfreeList (substList (osSubst τ) es) = true) := by
  have key : ∀ n, (∀ e, e.size ≤ n → qfree e = true → qfree (subst (osSubst τ) e) = true) ∧
      (∀ es, Expr.sizeList es ≤ n → qfreeList es = true → qfreeList (substList (osSubst τ) es) = true) := by
    intro n
    induction n with
    | zero =>
      constructor
      · intro e he; cases e <;> simp [Expr.size] at he
      · intro es he _
        cases es with
        | nil => rw [substList_nil]; rfl
        | cons x xs =>
          simp [Expr.sizeList] at he
          cases x <;> simp [Expr.size] at he
    | succ n ih =>
      have hexpr : ∀ e, e.size ≤ n + 1 → qfree e = true → qfree (subst (osSubst τ) e) = true := by
        intro e he h
        cases e with
        | leaf l =>
          by_cases hl : ∃ x, l = .var x
          · obtain ⟨x, rfl⟩ := hl
            rcases osub_lookup_var x τ with ⟨h1, _⟩ | ⟨nm, ty, h1, _⟩
            · rw [subst_leaf_none _ _ h1]; rfl
            · rw [subst_of_lookup_some _ _ _ h1]; rfl
          · have hne : ∀ x, Expr.leaf l ≠ .leaf (.var x) := by
              intro x e; injection e with e; exact hl ⟨x, e⟩
            rw [subst_leaf_none _ _ (osub_lookup_other _ hne τ)]; rfl
        | app op args =>
          simp only [Expr.size] at he
          simp only [qfree] at h
          rw [subst_app_none _ _ _ (osub_lookup_other _ (by intro x e; cases e) τ)]
          exact qfree_rebuild (ih.2 args (by omega) h)
        | quant q vs b => simp [qfree] at h
      refine ⟨hexpr, ?_⟩
      intro es he h
      cases es with
      | nil => rw [substList_nil]; rfl
      | cons x xs =>
        simp only [Expr.sizeList] at he
        simp only [qfreeList, Bool.and_eq_true] at h
        have hx : 1 ≤ x.size := by cases x <;> simp [Expr.size] <;> omega
        rw [substList_cons]
        simp only [qfreeList, Bool.and_eq_true]
        exact ⟨hexpr x (by omega) h.1, ih.2 xs (by omega) h.2⟩
  exact ⟨fun e => (key e.size).1 e (Nat.le_refl _), fun es => (key (Expr.sizeList es)).2 es (Nat.le_refl _)⟩

/-- the result of `remove_quantifiers` is quantifier-free -/
theorem qfree_rq (P : Problem) :
    (∀ e, qfree (removeQuantifiers P e) = true) ∧ (∀ es, qfreeList (removeQuantifiersList P es) = true) := by
  have key : ∀ n, (∀ e, e.size ≤ n → qfree (removeQuantifiers P e) = true) ∧
      (∀ es, Expr.sizeList es ≤ n → qfreeList (removeQuantifiersList P es) = true) := by
    intro n
    induction n with
    | zero =>
      constructor
      · intro e he; cases e <;> simp [Expr.size] at he
      · intro es he
        cases es with
        | nil => rfl
        | cons x xs =>
          simp [Expr.sizeList] at he
          cases x <;> simp [Expr.size] at he
    | succ n ih =>
      have hexpr : ∀ e, e.size ≤ n + 1 → qfree (removeQuantifiers P e) = true := by
        intro e he
        cases e with
        | leaf l => rfl
        | app op args =>
          simp only [Expr.size] at he
          simp only [removeQuantifiers]
          exact qfree_rebuild (ih.2 args (by omega))
        | quant q vs b =>
          simp only [Expr.size] at he
          have hb := ih.1 b (by omega)
          have hinsts : qfreeList ((cartesian (vs.map (fun v => tyDomain P v.ty))).map (fun objs =>
              substE (((vs.zip objs).map (fun vo => (Expr.leaf (.var vo.1), objExpr P vo.2))).reverse)
                (removeQuantifiers P b))) = true := by
            rw [qfreeList_iff]
            intro x hx
            obtain ⟨objs, _, rfl⟩ := List.mem_map.1 hx
            rw [← tupleSub_subst]
            unfold substE
            split
            · exact hb
            · exact (qfree_subst_objs _).1 _ hb
          simp only [removeQuantifiers]
          cases q with
          | ex => exact qfree_mkOr hinsts
          | all => exact qfree_mkAnd hinsts
      refine ⟨hexpr, ?_⟩
      intro es he
      cases es with
      | nil => rfl
      | cons x xs =>
        simp only [Expr.sizeList] at he
        have hx : 1 ≤ x.size := by cases x <;> simp [Expr.size] <;> omega
        simp only [removeQuantifiersList, qfreeList, Bool.and_eq_true]
        exact ⟨hexpr x (by omega), ih.2 xs (by omega)⟩
  exact ⟨fun e => (key e.size).1 e (Nat.le_refl _), fun es => (key (Expr.sizeList es)).2 es (Nat.le_refl _)⟩

end UPVerif.Compile
