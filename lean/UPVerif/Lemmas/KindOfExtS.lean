import UPVerif.Lemmas.KindOfExtBase
/-! Helper lemmas for `Props/C10Ext.lean`: scheduling problems.  `SchedulingProblem.kind` runs the same
    `_KindFactory` statements as `Problem.kind` would on the reading `SProblem.toK`, spread
    differently; `kindProg_sProg` carries every certainly-executed `set` across. -/
namespace UPVerif.KindOf
open UPVerif UPVerif.Spec

variable {F : Facts} {X : SProblem} {S : SU} {u : List FluentDecl} {f : Feature}

/-! ### the static fluents -/

theorem mem_written_toK {g : FluentRef} : g ∈ written X.toK ↔ g ∈ sWritten X := by
  simp only [written, sWritten, SProblem.toK, Activity.toDAct, List.flatMap_nil, List.nil_append, List.append_nil,
    List.mem_append, List.mem_flatMap, List.mem_map, List.filterMap_nil]
  constructor
  · rintro (⟨a, ⟨b, hb, rfl⟩, h⟩ | h)
    · exact Or.inr ⟨b, hb, by simpa using h⟩
    · exact Or.inl h
  · rintro (h | ⟨b, hb, h⟩)
    · exact Or.inr h
    · exact Or.inl ⟨_, ⟨b, hb, rfl⟩, by simpa using h⟩

theorem soundSU_S (X : SProblem) : SoundSU X.toK (staticUnusedS X) := by
  refine ⟨?_, ?_, ?_⟩
  · intro g h
    obtain ⟨⟨d, hd, rfl⟩, hw⟩ := h
    simp only [staticUnusedS, List.contains_eq_mem, List.mem_filter, List.mem_map, decide_eq_true_eq]
    refine ⟨⟨d, hd, rfl⟩, ?_⟩
    simp only [Bool.not_eq_eq_eq_not, Bool.not_true, decide_eq_false_iff_not]
    exact fun hm => hw (Written_of_mem_written (mem_written_toK.2 hm))
  · intro g h
    have hm := mem_written_toK.1 (mem_written_of_Written h)
    simp only [staticUnusedS, List.contains_eq_mem, List.mem_filter, decide_eq_false_iff_not, not_and]
    intro _
    simp [hm]
  · intro g _
    rfl

/-! ### slots of `sProg` -/

theorem sProg_activity {a : Activity} (ha : a ∈ X.activities) (h : Sets f (updActivity F X S a)) :
    Sets f (sProg F X S u) := by
  unfold sProg
  iterate 12 apply Sets.tail
  exact Sets.head (Sets.map_of ha h)

theorem sProg_allConditions {c : Expr}
    (hc : c ∈ X.conds.map (·.2) ++ X.activities.flatMap (fun a => a.conds.map (·.2))) (h : Sets f (updExpr F c)) :
    Sets f (sProg F X S u) := by
  unfold sProg
  iterate 9 apply Sets.tail
  exact Sets.head (Sets.map_of hc h)

theorem sProg_constraint {c : Expr × List Expr} (hc : c ∈ X.constraints) (h : Sets f (updScoped F c)) :
    Sets f (sProg F X S u) := by
  unfold sProg
  iterate 10 apply Sets.tail
  exact Sets.head (Sets.map_of hc h)

theorem sProg_continuousTime : Sets "CONTINUOUS_TIME" (sProg F X S u) := by
  unfold sProg
  iterate 5 apply Sets.tail
  exact Sets.head .set

/-- an expression of a scoped constraint (the constraint or one of its scope expressions) is scanned -/
theorem updScoped_expr {c : Expr × List Expr} {e : Expr} (he : e ∈ c.1 :: c.2) (h : Sets f (updExpr F e)) :
    Sets f (updScoped F c) := by
  unfold updScoped
  rcases List.mem_cons.1 he with rfl | he'
  · exact Sets.head h
  · exact Sets.tail (Sets.tail (Sets.head (Sets.map_of he' h)))

theorem mem_scopedExprs {cs : List (Expr × List Expr)} {e : Expr} (h : e ∈ scopedExprs cs) :
    ∃ c, c ∈ cs ∧ e ∈ c.1 :: c.2 := by
  simpa [scopedExprs] using h

theorem updActivity_constraint {a : Activity} {c : Expr × List Expr} (hc : c ∈ a.constraints)
    (h : Sets f (updScoped F c)) : Sets f (updActivity F X S a) := by
  unfold updActivity
  iterate 5 apply Sets.tail
  exact Sets.head (Sets.map_of hc h)

/-! ### from `kindProg` on the reading to `sProg` -/

/-- the part of `updDAct` an activity has -/
theorem updDAct_updActivity {a : Activity} (h : Sets f (updDAct F X.toK S a.toDAct)) :
    Sets f (updActivity F X S a) ∨ f = "CONTINUOUS_TIME" := by
  unfold updDAct at h
  unfold updActivity
  rcases Sets.cons_inv h with h | h
  · exact Or.inl (Sets.tail (Sets.tail (Sets.head h)))
  rcases Sets.cons_inv h with h | h
  · exact Or.inl (Sets.tail (Sets.head h))
  rcases Sets.cons_inv h with h | h
  · exact Or.inl (Sets.tail (Sets.tail (Sets.tail (Sets.tail (Sets.head h)))))
  rcases Sets.cons_inv h with h | h
  · exact Or.inl (Sets.tail (Sets.tail (Sets.tail (Sets.head h))))
  rcases Sets.cons_inv h with h | h
  · obtain ⟨_, _, h⟩ := Sets.map_inv h
    cases ‹_ ∈ a.toDAct.ceffs›
  rcases Sets.cons_inv h with h | h
  · obtain ⟨hc, _⟩ := Sets.when_inv h
    simp [Activity.toDAct] at hc
  rcases Sets.cons_inv h with h | h
  · exact Or.inr (Sets.set_inv h)
  rcases Sets.cons_inv h with h | h
  · unfold contLoop at h
    rcases Sets.cons_inv h with h | h
    · obtain ⟨_, hm, _⟩ := Sets.map_inv h
      simp [Activity.toDAct] at hm
    rcases Sets.cons_inv h with h | h
    · obtain ⟨hc, _⟩ := Sets.when_inv h
      simp [Activity.toDAct] at hc
    · exact (Sets.nil_inv h).elim
  · exact (Sets.nil_inv h).elim

theorem kindProg_sProg (h : Sets f (kindProg F X.toK S u)) (hne : f ≠ "ACTION_BASED") : Sets f (sProg F X S u) := by
  unfold kindProg at h
  -- __init__
  rcases Sets.cons_inv h with h | h
  · exact absurd (Sets.set_inv h) hne
  rcases Sets.cons_inv h with h | h
  · unfold sProg; exact Sets.tail (Sets.head h)
  rcases Sets.cons_inv h with h | h
  · unfold sProg; exact Sets.tail (Sets.tail (Sets.head h))
  rcases Sets.cons_inv h with h | h
  · unfold sProg; exact Sets.tail (Sets.tail (Sets.tail (Sets.head h)))
  rcases Sets.cons_inv h with h | h
  · unfold sProg; exact Sets.tail (Sets.tail (Sets.tail (Sets.tail (Sets.head h))))
  -- instantaneous actions: none
  rcases Sets.cons_inv h with h | h
  · obtain ⟨_, hm, _⟩ := Sets.map_inv h
    simp [SProblem.toK] at hm
  -- activities
  rcases Sets.cons_inv h with h | h
  · obtain ⟨d, hm, hd⟩ := Sets.map_inv h
    obtain ⟨a, ha, rfl⟩ := List.mem_map.1 (show d ∈ X.activities.map Activity.toDAct from hm)
    rcases updDAct_updActivity hd with h' | rfl
    · exact sProg_activity ha h'
    · exact sProg_continuousTime
  -- timed effects
  rcases Sets.cons_inv h with h | h
  · obtain ⟨hc, h⟩ := Sets.when_inv h
    rcases Sets.cons_inv h with h | h
    · rw [Sets.set_inv h]; exact sProg_continuousTime
    rcases Sets.cons_inv h with h | h
    · unfold sProg
      iterate 7 apply Sets.tail
      exact Sets.head (.when' hc h)
    · exact (Sets.nil_inv h).elim
  rcases Sets.cons_inv h with h | h
  · obtain ⟨_, hm, _⟩ := Sets.map_inv h
    simp [SProblem.toK] at hm
  rcases Sets.cons_inv h with h | h
  · obtain ⟨_, hm, _⟩ := Sets.map_inv h
    simp [SProblem.toK] at hm
  rcases Sets.cons_inv h with h | h
  · unfold sProg
    iterate 11 apply Sets.tail
    exact Sets.head h
  -- timed goals
  rcases Sets.cons_inv h with h | h
  · obtain ⟨hc, h⟩ := Sets.when_inv h
    rcases Sets.cons_inv h with h | h
    · unfold sProg
      iterate 6 apply Sets.tail
      exact Sets.head (.when' hc h)
    rcases Sets.cons_inv h with h | h
    · rw [Sets.set_inv h]; exact sProg_continuousTime
    · exact (Sets.nil_inv h).elim
  rcases Sets.cons_inv h with h | h
  · obtain ⟨_, hm, _⟩ := Sets.map_inv h
    simp [SProblem.toK] at hm
  -- goal expressions: conditions of the base chronicle, constraints and scopes
  rcases Sets.cons_inv h with h | h
  · obtain ⟨c, hm, hc⟩ := Sets.map_inv h
    rcases List.mem_append.1 hm with hm | hm
    · exact sProg_allConditions (List.mem_append_left _ hm) hc
    · rcases List.mem_append.1 (show c ∈ scopedExprs X.constraints ++
          X.activities.flatMap (fun a => scopedExprs a.constraints) from hm) with hm | hm
      · obtain ⟨sc, hsc, he⟩ := mem_scopedExprs hm
        exact sProg_constraint hsc (updScoped_expr he hc)
      · obtain ⟨a, ha, hm'⟩ := List.mem_flatMap.1 hm
        obtain ⟨sc, hsc, he⟩ := mem_scopedExprs hm'
        exact sProg_activity ha (updActivity_constraint hsc (updScoped_expr he hc))
  rcases Sets.cons_inv h with h | h
  · unfold sProg
    iterate 13 apply Sets.tail
    exact Sets.head h
  rcases Sets.cons_inv h with h | h
  · obtain ⟨hc, _⟩ := Sets.when_inv h
    simp [SProblem.toK] at hc
  rcases Sets.cons_inv h with h | h
  · obtain ⟨hc, _⟩ := Sets.when_inv h
    simp [SProblem.toK] at hc
  · exact (Sets.nil_inv h).elim

/-! ### the rules of `UsesS` that are not inherited -/

theorem sProg_var {p : String × Ty} (hp : p ∈ X.vars) (h : Sets f (updParam X.toK p.2)) : Sets f (sProg F X S u) := by
  unfold sProg
  iterate 8 apply Sets.tail
  exact Sets.head (Sets.map_of hp h)

theorem usesS_sets (h : UsesS X f) : Uses X.toK f ∨ Sets f (sProg F X S u) := by
  cases h with
  | base hb => exact Or.inl hb
  | variableFlatTyping hv => exact Or.inr (sProg_var hv (updParam_type updType_flat))
  | variableHierarchicalTyping hv hf => exact Or.inr (sProg_var hv (updParam_type (updType_hier hf)))
  | boolVariable hv => exact Or.inr (sProg_var hv updParam_bool)
  | realVariable hv => exact Or.inr (sProg_var hv updParam_real)
  | boundedIntVariable hv => exact Or.inr (sProg_var hv updParam_bounded)
  | unboundedIntVariable hv hb => exact Or.inr (sProg_var hv (updParam_unbounded hb))
  | scheduling => exact Or.inr (by unfold sProg; exact Sets.head .set)
  | optionalActivities ha ho =>
    refine Or.inr (sProg_activity ha ?_)
    unfold updActivity
    exact Sets.head (.when' ho .set)
  | scopedConstraints hc hs =>
    refine Or.inr (sProg_constraint hc ?_)
    unfold updScoped
    exact Sets.tail (Sets.head (.when' (by simpa using hs) .set))
  | activityScopedConstraints ha hc hs =>
    refine Or.inr (sProg_activity ha (updActivity_constraint hc ?_))
    unfold updScoped
    exact Sets.tail (Sets.head (.when' (by simpa using hs) .set))

theorem usesS_feature (h : UsesS X f) : f ∈ statementFeatures ∨ f ∈ classFeatures := by
  cases h with
  | base hb => exact Or.inl (uses_statementFeature hb)
  | scheduling => exact Or.inr (by simp [classFeatures])
  | optionalActivities _ _ => exact Or.inr (by simp [classFeatures])
  | scopedConstraints _ _ => exact Or.inr (by simp [classFeatures])
  | activityScopedConstraints _ _ _ => exact Or.inr (by simp [classFeatures])
  | _ => exact Or.inl (by simp [statementFeatures])

end UPVerif.KindOf
