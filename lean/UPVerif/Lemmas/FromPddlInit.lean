import UPVerif.Lemmas.FromPddlInv
/-!
Helper lemmas for C21, the `:init` section: atoms and `(= (f o…) number)` items give the same dictionary of initial values
in both readers.
-/
namespace UPVerif.FromPddl
open UPVerif UPVerif.Expr UPVerif.Pddl

/-! ### tokens -/

theorem startsAlpha_of_not_reserved {s : String} (h : isReserved s = false) : startsAlpha s = true := by
  unfold isReserved at h
  simp only [Bool.or_eq_false_iff, Bool.not_eq_false'] at h
  exact h.2

theorem stripQ_alpha {s : String} (h : startsAlpha s = true) : stripQ s = none := by
  unfold startsAlpha at h
  unfold stripQ
  cases hs : s.toList with
  | nil => rfl
  | cons c r =>
    rw [hs] at h
    simp only at h
    have hge := alpha_ge c h
    have hq : c ≠ '?' := by intro e; subst e; revert hge; decide
    split
    · rename_i r' heq
      simp only [List.cons.injEq] at heq
      exact absurd heq.1 hq
    · rfl

theorem convFluent_shape {CE : CEnv} {ps : List (String × Ty)} {qv : List Var} {n : String} {ts : List Term} {a : Expr}
    (h : convFluent CE ps qv n ts = some a) : isFluentExp a = true := by
  unfold convFluent at h
  split at h
  · rw [Option.bind_eq_some_iff] at h
    obtain ⟨as, _, h⟩ := h
    split at h
    · cases h; rfl
    · cases h
  · cases h

theorem isFluentExp_numLeaf (q : Rat) : isFluentExp (numLeaf q) = false := by
  unfold numLeaf
  split <;> rfl

theorem mkOp_eqF_fn (n : String) (ts : List Term) (q : Rat) :
    mkOp .eqF [.fn n ts, .num q] = .op .eqF [.fn n ts, .num q] := by
  simp [mkOp, simplifyOperands, OpK.isMeta, OpK.idem, flatList, flat, dedup, dedupAcc]

theorem astFhead_fn {C : PCtx} {x : Sexp} {φ : Form} (h : astFhead C x = some φ) : ∃ n ts, φ = .fn n ts := by
  unfold astFhead at h
  split at h
  · split at h
    · cases h
    · cases h; exact ⟨_, _, rfl⟩
  · split at h
    · cases h
    · rw [Option.map_eq_some_iff] at h
      obtain ⟨ts, _, rfl⟩ := h
      exact ⟨_, _, rfl⟩
  · cases h

section
variable {E : REnv} {CE : CEnv} (ag : EnvAgree E CE []) (nm : NamesOK E)
include ag nm

/-- a number token, for the first reader -/
theorem readAtom_number {s : String} {q : Rat} (hn : numberTok s = some q) (sc : List Var) :
    readAtom E sc s = some (numLeaf q) := by
  simp only [readAtom, stripQ_of_numberTok hn, nm.num_fluent s q hn, nm.num_object s q hn,
    parseNumber_of_numberTok hn, Option.map_some]

/-- an item that is not an equation: an atom -/
theorem init_plain (xs : List Sexp) (hne : ∀ x y, xs = [.atom "=", x, y] → False) (e : Expr)
    (hU : readExpr E [] (.list xs) = some e) (φ : Form) (hA : astInitEl C0 (.list xs) = some φ) (φs : List Form)
    (acc : List (Expr × Expr)) (b0 : Bool) (r : List (Expr × Expr) × Bool)
    (hQ : convInit CE false (φ :: φs) acc b0 = some r) :
    isFluentExp e = true ∧ convInit CE false φs (setInit acc e Expr.tt) b0 = some r := by
  unfold astInitEl at hA
  split at hA
  · rename_i f v heq
    simp only [Sexp.list.injEq] at heq
    exact (hne _ _ heq).elim
  · -- a negative literal: refused by the converter
    rename_i n os heq
    split at hA
    · cases hA
    · rw [Option.map_eq_some_iff] at hA
      obtain ⟨ts, _, rfl⟩ := hA
      simp only [convInit, convExpr] at hQ
      cases hc : convFluent CE [] [] n ts with
      | none => simp [hc] at hQ
      | some a =>
        have hfa := convFluent_shape hc
        match a, hfa, hc with
        | .app (.fluent f) as, _, hc =>
          simp [hc, Expr.mkNot, isFluentExp] at hQ
  · -- an atom
    rename_i n os _ _ heq
    simp only [Sexp.list.injEq] at heq
    subst heq
    split at hA
    · cases hA
    · rename_i hres
      simp only [Bool.or_eq_true, not_or, Bool.not_eq_true] at hres
      rw [Option.map_eq_some_iff] at hA
      obtain ⟨ts, hts, rfl⟩ := hA
      simp only [convInit, convExpr] at hQ
      cases hc : convFluent CE [] [] n ts with
      | none => simp [hc] at hQ
      | some a =>
        rw [readExpr] at hU
        have hea := app_agree ag nm C0 (scope_refl []) n os ts e a hres.2 hts hU hc
        subst hea
        have hfa := convFluent_shape hc
        simp only [hc, hfa, if_true] at hQ
        exact ⟨hfa, hQ⟩
  · cases hA

/-- an equation `(= (f o…) number)` -/
theorem init_eq (x y : Sexp) (f v : Expr) (hf : readExpr E [] x = some f) (hv : readExpr E [] y = some v) (φ : Form)
    (hA : astInitEl C0 (.list [.atom "=", x, y]) = some φ) (φs : List Form)
    (acc : List (Expr × Expr)) (b0 : Bool) (r : List (Expr × Expr) × Bool)
    (hQ : convInit CE false (φ :: φs) acc b0 = some r) :
    isFluentExp f = true ∧ convInit CE false φs (setInit acc f v) b0 = some r := by
  unfold astInitEl at hA
  split at hA
  · rename_i f' v' heq
    simp only [Sexp.list.injEq, List.cons.injEq, and_true, true_and] at heq
    obtain ⟨rfl, rfl⟩ := heq
    split at hA
    · rename_i x' q hx hq
      cases hA
      -- the left side is an `f_head`
      have hfh : astFhead C0 x = some x' := by
        unfold astFhead
        split at hx
        · rename_i n
          split at hx
          · cases hx
          · rename_i hc
            simp only [Bool.or_eq_true, not_or, Bool.not_eq_true, Option.isSome_eq_false_iff,
              Option.isNone_iff_eq_none] at hc
            have hsq := stripQ_alpha (startsAlpha_of_not_reserved hc.1)
            simp only [hc.1, hc.2, hsq]
            exact hx
        · exact hx
        · cases hx
      obtain ⟨n, ts, rfl⟩ := astFhead_fn hfh
      rw [mkOp_eqF_fn] at hQ
      have hce : convExpr CE [] [] (.op .eqF [.fn n ts, .num q]) =
          (convFluent CE [] [] n ts).map (fun a => .app .eq [a, numLeaf q]) := by
        simp only [convExpr, convExprs]
        cases convFluent CE [] [] n ts <;> simp [convOp, Expr.mkEq]
      rw [convInit] at hQ
      simp only [isActionCost_false, Bool.false_eq_true, if_false, hce] at hQ
      cases hc : convFluent CE [] [] n ts with
      | none => simp [hc] at hQ
      | some a =>
        have hfa := convFluent_shape hc
        have hfe : f = a := fhead_agree ag nm C0 (scope_refl []) x (.fn n ts) f a hf hfh (by rw [convExpr]; exact hc)
        have hve : v = numLeaf q := by
          rw [readExpr, readAtom_number ag nm hq] at hv
          exact (Option.some.inj hv).symm
        subst hfe hve
        simp only [hc, Option.map_some, isFluentExp_numLeaf, Bool.false_eq_true, if_false, hfa, if_true] at hQ
        exact ⟨hfa, hQ⟩
    · cases hA
  · rename_i n os heq
    simp only [Sexp.list.injEq, List.cons.injEq, Sexp.atom.injEq] at heq
    exact absurd heq.1 (by decide)
  · rename_i n os _ _ heq
    simp only [Sexp.list.injEq, List.cons.injEq, Sexp.atom.injEq] at heq
    obtain ⟨rfl, rfl⟩ := heq
    simp at hA
  · cases hA

/-- **`:init`**: the two readers build the same dictionary of initial values -/
theorem init_agree (items : List Sexp) (acc : List (Expr × Expr)) : ∀ (φs : List Form) (b0 : Bool) (I : List (Expr × Expr))
    (r : List (Expr × Expr) × Bool), readInit E items acc = some I → astInit C0 items = some φs →
    convInit CE false φs acc b0 = some r → I = r.1 := by
  fun_induction readInit E items acc with
  | case1 acc =>
    intro φs b0 I r hU hA hQ
    simp only [astInit, Option.some.injEq] at hA
    subst hA
    simp only [convInit, Option.some.injEq] at hQ
    subst hQ
    exact (Option.some.inj hU).symm
  | case2 rest acc x y ih =>
    intro φs b0 I r hU hA hQ
    rw [astInit] at hA
    simp only [Option.bind_eq_bind, Option.bind_eq_some_iff, Option.some.injEq] at hA hU
    obtain ⟨φ, hφ, φs', hφs', rfl⟩ := hA
    obtain ⟨f, hf, v, hv, hU⟩ := hU
    obtain ⟨hfe, hQ'⟩ := init_eq ag nm x y f v hf hv φ hφ φs' acc b0 r hQ
    rw [if_pos hfe] at hU
    exact ih f v φs' b0 I r hU hφs' hQ'
  | case3 => intro φs b0 I r hU; cases hU
  | case4 => intro φs b0 I r hU; cases hU
  | case5 => intro φs b0 I r hU; cases hU
  | case6 => intro φs b0 I r hU; cases hU
  | case7 => intro φs b0 I r hU; cases hU
  | case8 rest acc t z hd ih2 ih1 =>
    intro φs b0 I r hU hA hQ
    rw [astInit] at hA
    simp only [Option.bind_eq_bind, Option.bind_eq_some_iff, Option.some.injEq] at hA
    obtain ⟨φ, hφ, φs', hφs', rfl⟩ := hA
    rw [Option.bind_eq_some_iff] at hU
    obtain ⟨e, he, hU⟩ := hU
    obtain ⟨hfe, hQ'⟩ := init_plain ag nm _ (by intro x y h; simp at h) e he φ hφ φs' acc b0 r hQ
    rw [if_pos hfe] at hU
    exact ih2 e φs' b0 I r hU hφs' hQ'
  | case9 rest acc xs h1 h2 h3 h4 h5 h6 ih2 ih1 =>
    intro φs b0 I r hU hA hQ
    rw [astInit] at hA
    simp only [Option.bind_eq_bind, Option.bind_eq_some_iff, Option.some.injEq] at hA
    obtain ⟨φ, hφ, φs', hφs', rfl⟩ := hA
    rw [Option.bind_eq_some_iff] at hU
    obtain ⟨e, he, hU⟩ := hU
    obtain ⟨hfe, hQ'⟩ := init_plain ag nm xs h1 e he φ hφ φs' acc b0 r hQ
    rw [if_pos hfe] at hU
    exact ih2 e φs' b0 I r hU hφs' hQ'
  | case10 => intro φs b0 I r hU; cases hU

end

end UPVerif.FromPddl
