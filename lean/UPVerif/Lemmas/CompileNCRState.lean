import UPVerif.Lemmas.CompileNCRFired
/-!
States of the problem compiled by NegativeConditionsRemover against states of the original problem (`StRel`), and
what one step does to the relation: when the fired effects of the compiled action are those of the original action
followed by their mirror images on the complementary fluents (`mirList`), consistency is the same (`cons_mirror`) and the
successors are related (`succGet_mirror`) — PROVIDED no ground instance of a fluent with a complementary fluent is
assigned both values (`FiredOK.noDouble`): this is where finding C06-ncr-add-after-delete lives.
-/
namespace UPVerif.Compile
open UPVerif UPVerif.Expr UPVerif.Sim UPVerif.Spec

/-- the relation of the simulation: the compiled state restricted to the original fluents is the original state, and
    every complementary fluent holds the negation of its fluent on every ground instance -/
structure StRel (M : NMap) (g' g : St) : Prop where
  agree : ∀ k : GKey, k.1 ∉ M.fresh → g' k = g k
  mirror : ∀ f nf, M.lookup f = some nf → ∀ vs, MirrorAt (g' (nf, vs)) (g (f, vs))

/-- what the proofs use of the final mapping: no fluent is mapped twice, no complementary fluent serves two fluents,
    both are Boolean -/
structure MapOK (M : NMap) : Prop where
  keys : (M.map (·.1)).Nodup
  vals : (M.map (·.2)).Nodup
  bool : ∀ kv ∈ M, kv.1.ty = .bool ∧ kv.2.ty = .bool

theorem nmap_lookup_mem : ∀ {M : NMap} {f nf : FluentRef}, M.lookup f = some nf → (f, nf) ∈ M
  | [], _, _, h => by cases h
  | (k, v) :: M, f, nf, h => by
    simp only [List.lookup] at h
    cases hk : f == k with
    | true =>
      rw [hk] at h
      have : f = k := by simpa using hk
      cases h; subst this
      exact List.mem_cons_self ..
    | false =>
      rw [hk] at h
      exact List.mem_cons_of_mem _ (nmap_lookup_mem h)

theorem nmap_mem_lookup : ∀ {M : NMap} {f nf : FluentRef}, (M.map (·.1)).Nodup → (f, nf) ∈ M → M.lookup f = some nf
  | [], _, _, _, h => by cases h
  | (k, v) :: M, f, nf, hn, h => by
    simp only [List.map_cons, List.nodup_cons] at hn
    simp only [List.lookup]
    rcases List.mem_cons.1 h with h1 | h2
    · cases h1; simp
    · have hne : (f == k) = false := by
        have : f ≠ k := by
          intro e
          have hmem : f ∈ List.map (fun x => x.1) M := List.mem_map.2 ⟨(f, nf), h2, rfl⟩
          rw [e] at hmem
          exact hn.1 hmem
        simpa using this
      rw [hne]
      exact nmap_mem_lookup hn.2 h2

theorem snd_inj_of_nodup : ∀ {M : NMap}, (M.map (·.2)).Nodup → ∀ {a b : FluentRef × FluentRef}, a ∈ M → b ∈ M → a.2 = b.2 → a = b
  | [], _, _, _, h, _, _ => by cases h
  | x :: M, hn, a, b, ha, hb, hab => by
    simp only [List.map_cons, List.nodup_cons] at hn
    rcases List.mem_cons.1 ha with ha1 | ha2 <;> rcases List.mem_cons.1 hb with hb1 | hb2
    · rw [ha1, hb1]
    · have hmem : b.2 ∈ List.map (fun x => x.2) M := List.mem_map.2 ⟨b, hb2, rfl⟩
      rw [← hab, ha1] at hmem
      exact absurd hmem hn.1
    · have hmem : a.2 ∈ List.map (fun x => x.2) M := List.mem_map.2 ⟨a, ha2, rfl⟩
      rw [hab, hb1] at hmem
      exact absurd hmem hn.1
    · exact snd_inj_of_nodup hn.2 ha2 hb2 hab

theorem MapOK.inj {M : NMap} (h : MapOK M) {f1 f2 nf : FluentRef} (h1 : M.lookup f1 = some nf) (h2 : M.lookup f2 = some nf) :
    f1 = f2 := by
  have := snd_inj_of_nodup h.vals (nmap_lookup_mem h1) (nmap_lookup_mem h2) rfl
  exact congrArg Prod.fst this

theorem MapOK.fresh_of_lookup {M : NMap} {f nf : FluentRef} (h1 : M.lookup f = some nf) : nf ∈ M.fresh :=
  List.mem_map.2 ⟨(f, nf), nmap_lookup_mem h1, rfl⟩

theorem MapOK.lookup_of_fresh {M : NMap} (h : MapOK M) {nf : FluentRef} (h1 : nf ∈ M.fresh) : ∃ f, M.lookup f = some nf := by
  obtain ⟨kv, hkv, rfl⟩ := List.mem_map.1 h1
  exact ⟨kv.1, nmap_mem_lookup h.keys hkv⟩

/-- the fired effect a complementary fluent receives for a fired effect: only Boolean assignments to fluents that have
    a complementary fluent are mirrored -/
def mirFired (M : NMap) : Fired → Option Fired
  | .setB k b => (M.lookup k.1).map (fun nf => .setB (nf, k.2) (!b))
  | _ => none

def mirList (M : NMap) (F : List Fired) : List Fired := F.filterMap (mirFired M)

/-- what the fired effects of the ORIGINAL action must satisfy -/
structure FiredOK (M : NMap) (F : List Fired) : Prop where
  /-- no original effect writes a complementary fluent -/
  notFresh : ∀ x ∈ F, x.key.1 ∉ M.fresh
  /-- a fluent with a complementary fluent is only written by Boolean assignments -/
  setB : ∀ x ∈ F, ∀ nf, M.lookup x.key.1 = some nf → ∃ b, x = .setB x.key b
  /-- NO GROUND INSTANCE OF A FLUENT WITH A COMPLEMENTARY FLUENT IS ASSIGNED BOTH VALUES -/
  noDouble : ∀ f nf vs, M.lookup f = some nf → ∀ b1 ∈ asgB F (f, vs), ∀ b2 ∈ asgB F (f, vs), b1 = b2

theorem asgB_append (A B : List Fired) (k : GKey) : asgB (A ++ B) k = asgB A k ++ asgB B k := by
  unfold asgB; rw [List.filterMap_append]
theorem asgV_append (A B : List Fired) (k : GKey) : asgV (A ++ B) k = asgV A k ++ asgV B k := by
  unfold asgV; rw [List.filterMap_append]
theorem deltas_append (A B : List Fired) (k : GKey) : deltas (A ++ B) k = deltas A k ++ deltas B k := by
  unfold deltas; rw [List.filterMap_append]

theorem mem_mirList {M : NMap} {F : List Fired} {y : Fired} (h : y ∈ mirList M F) :
    ∃ f nf vs b, M.lookup f = some nf ∧ .setB (f, vs) b ∈ F ∧ y = .setB (nf, vs) (!b) := by
  unfold mirList at h
  obtain ⟨x, hx, hxy⟩ := List.mem_filterMap.1 h
  cases x with
  | setB k b =>
    simp only [mirFired] at hxy
    cases hl : M.lookup k.1 with
    | none => rw [hl] at hxy; cases hxy
    | some nf =>
      rw [hl] at hxy
      simp only [Option.map_some, Option.some.injEq] at hxy
      exact ⟨k.1, nf, k.2, b, hl, hx, hxy.symm⟩
  | setV k v => cases hxy
  | delta k d => cases hxy

theorem asgV_mirList (M : NMap) (F : List Fired) (k : GKey) : asgV (mirList M F) k = [] := by
  unfold asgV
  rw [List.filterMap_eq_nil_iff]
  intro y hy
  obtain ⟨f, nf, vs, b, _, _, rfl⟩ := mem_mirList hy
  rfl

theorem deltas_mirList (M : NMap) (F : List Fired) (k : GKey) : deltas (mirList M F) k = [] := by
  unfold deltas
  rw [List.filterMap_eq_nil_iff]
  intro y hy
  obtain ⟨f, nf, vs, b, _, _, rfl⟩ := mem_mirList hy
  rfl

theorem asgB_mirList_other {M : NMap} (F : List Fired) {k : GKey} (hk : k.1 ∉ M.fresh) : asgB (mirList M F) k = [] := by
  unfold asgB
  rw [List.filterMap_eq_nil_iff]
  intro y hy
  obtain ⟨f, nf, vs, b, hl, _, rfl⟩ := mem_mirList hy
  simp only [selB]
  have : (nf, vs) ≠ k := by
    intro e; subst e
    exact hk (MapOK.fresh_of_lookup hl)
  simp [this]

theorem sel_nil_of_key {F : List Fired} {k : GKey} (h : ∀ x ∈ F, x.key ≠ k) :
    asgB F k = [] ∧ asgV F k = [] ∧ deltas F k = [] := by
  unfold asgB asgV deltas
  refine ⟨?_, ?_, ?_⟩ <;>
  · rw [List.filterMap_eq_nil_iff]
    intro x hx
    have := h x hx
    cases x <;> simp [selB, selV, selD, Fired.key] at this ⊢ <;> exact this

/-- the mirror images on `(nf, vs)` are the negated assignments to `(f, vs)` -/
theorem asgB_mirList_self {M : NMap} (hM : MapOK M) {f nf : FluentRef} (hl : M.lookup f = some nf) (vs : List Val) :
    ∀ (F : List Fired), asgB (mirList M F) (nf, vs) = (asgB F (f, vs)).map (!·)
  | [] => rfl
  | x :: F => by
    have ih := asgB_mirList_self hM hl vs F
    unfold mirList asgB at ih ⊢
    cases x with
    | setB k b =>
      cases hk : M.lookup k.1 with
      | none =>
        have h1 : mirFired M (.setB k b) = none := by simp [mirFired, hk]
        have hne : k ≠ (f, vs) := by
          intro e; subst e
          rw [hl] at hk; cases hk
        have h2 : selB (f, vs) (.setB k b) = none := by simp [selB, hne]
        rw [List.filterMap_cons_none h1, List.filterMap_cons_none h2]
        exact ih
      | some nf' =>
        have h1 : mirFired M (.setB k b) = some (.setB (nf', k.2) (!b)) := by simp [mirFired, hk]
        rw [List.filterMap_cons_some h1]
        by_cases hkk : k = (f, vs)
        · subst hkk
          rw [hl] at hk
          cases hk
          have h2 : selB (f, vs) (.setB (f, vs) b) = some b := by simp [selB]
          have h3 : selB (nf, vs) (.setB (nf, vs) (!b)) = some (!b) := by simp [selB]
          rw [List.filterMap_cons_some h2, List.filterMap_cons_some h3, List.map_cons, ih]
        · have hne : (nf', k.2) ≠ (nf, vs) := by
            intro e
            injection e with e1 e2
            subst e1
            have hf := hM.inj hk hl
            apply hkk
            cases k
            simp only at hf e2
            rw [hf, e2]
          have h2 : selB (f, vs) (.setB k b) = none := by simp [selB, hkk]
          have h3 : selB (nf, vs) (.setB (nf', k.2) (!b)) = none := by simp [selB, hne]
          rw [List.filterMap_cons_none h2, List.filterMap_cons_none h3]
          exact ih
    | setV k v =>
      have h1 : mirFired M (.setV k v) = none := rfl
      have h2 : selB (f, vs) (.setV k v) = none := rfl
      rw [List.filterMap_cons_none h1, List.filterMap_cons_none h2]
      exact ih
    | delta k d =>
      have h1 : mirFired M (.delta k d) = none := rfl
      have h2 : selB (f, vs) (.delta k d) = none := rfl
      rw [List.filterMap_cons_none h1, List.filterMap_cons_none h2]
      exact ih

theorem any_map_not_of_const : ∀ (bs : List Bool), bs ≠ [] → (∀ x ∈ bs, ∀ y ∈ bs, x = y) →
    (bs.map (!·)).any id = !(bs.any id)
  | [], h, _ => absurd rfl h
  | b :: bs, _, hc => by
    have hall : ∀ y ∈ bs, y = b := fun y hy => (hc b (List.mem_cons_self ..) y (List.mem_cons_of_mem _ hy)).symm
    cases b with
    | true =>
      have : (bs.map (!·)).any id = false := by
        rw [List.any_eq_false]
        intro x hx
        obtain ⟨y, hy, rfl⟩ := List.mem_map.1 hx
        simp [hall y hy]
      simp [this]
    | false =>
      simp
      intro h
      have := hall _ h
      cases this

variable {M : NMap} {g' g : St} {F : List Fired}

/-- the mirror images change nothing on the original fluents -/
theorem newVal_mirror_other (hR : StRel M g' g) {k : GKey} (hk : k.1 ∉ M.fresh) :
    newVal g' (F ++ mirList M F) k = newVal g F k := by
  unfold newVal
  rw [asgB_append, asgV_append, deltas_append, asgB_mirList_other F hk, asgV_mirList, deltas_mirList,
      List.append_nil, List.append_nil, List.append_nil, hR.agree k hk]

theorem consK_mirror_other (hR : StRel M g' g) {k : GKey} (hk : k.1 ∉ M.fresh) :
    ConsK g' (F ++ mirList M F) k ↔ ConsK g F k := by
  unfold ConsK
  rw [asgB_append, asgV_append, deltas_append, asgB_mirList_other F hk, asgV_mirList, deltas_mirList,
      List.append_nil, List.append_nil, List.append_nil, hR.agree k hk]

theorem consK_mirror_fresh (hF : FiredOK M F) {f nf : FluentRef} (hl : M.lookup f = some nf) (vs : List Val) :
    ConsK g' (F ++ mirList M F) (nf, vs) := by
  have hkey : ∀ x ∈ F, x.key ≠ (nf, vs) := by
    intro x hx e
    exact hF.notFresh x hx (by rw [e]; exact MapOK.fresh_of_lookup hl)
  obtain ⟨_, h2, h3⟩ := sel_nil_of_key hkey
  unfold ConsK
  rw [asgV_append, deltas_append, h2, h3, asgV_mirList, deltas_mirList]
  simp

/-- consistency of the fired effects is the same on both sides -/
theorem cons_mirror (hR : StRel M g' g) (hF : FiredOK M F) : Cons g' (F ++ mirList M F) ↔ Cons g F := by
  unfold Cons
  constructor
  · intro h x hx
    exact (consK_mirror_other hR (hF.notFresh x hx)).1 (h x (List.mem_append_left _ hx))
  · intro h y hy
    rcases List.mem_append.1 hy with hy | hy
    · exact (consK_mirror_other hR (hF.notFresh y hy)).2 (h y hy)
    · obtain ⟨f, nf, vs, b, hl, _, rfl⟩ := mem_mirList hy
      exact consK_mirror_fresh hF hl vs

/-- the successors are related -/
theorem succGet_mirror (hM : MapOK M) (hR : StRel M g' g) (hF : FiredOK M F) :
    StRel M (succGet g' (F ++ mirList M F)) (succGet g F) := by
  constructor
  · intro k hk
    unfold succGet
    rw [newVal_mirror_other hR hk, hR.agree k hk]
  · intro f nf hl vs
    have hkey : ∀ x ∈ F, x.key ≠ (nf, vs) := by
      intro x hx e
      exact hF.notFresh x hx (by rw [e]; exact MapOK.fresh_of_lookup hl)
    obtain ⟨h1, h2, h3⟩ := sel_nil_of_key hkey
    -- on `(f, vs)` only Boolean assignments fire
    have hV : asgV F (f, vs) = [] := by
      unfold asgV
      rw [List.filterMap_eq_nil_iff]
      intro x hx
      cases x with
      | setV k v =>
        simp only [selV]
        by_cases hk : k = (f, vs)
        · subst hk
          obtain ⟨b, hb⟩ := hF.setB _ hx nf hl
          cases hb
        · simp [hk]
      | _ => rfl
    have hD : deltas F (f, vs) = [] := by
      unfold deltas
      rw [List.filterMap_eq_nil_iff]
      intro x hx
      cases x with
      | delta k d =>
        simp only [selD]
        by_cases hk : k = (f, vs)
        · subst hk
          obtain ⟨b, hb⟩ := hF.setB _ hx nf hl
          cases hb
        · simp [hk]
      | _ => rfl
    unfold succGet newVal
    rw [asgB_append, asgV_append, deltas_append, h1, h2, h3, asgV_mirList, deltas_mirList,
        asgB_mirList_self hM hl vs F, hV, hD]
    simp only [List.nil_append, List.append_nil]
    by_cases hb : asgB F (f, vs) = []
    · simp only [hb, List.map_nil, ne_eq, not_true_eq_false, if_false]
      exact hR.mirror f nf hl vs
    · have hb' : (asgB F (f, vs)).map (!·) ≠ [] := by simpa using hb
      simp only [hb, hb', ne_eq, not_false_eq_true, if_true]
      right
      refine ⟨(asgB F (f, vs)).any id, rfl, ?_⟩
      rw [any_map_not_of_const _ hb (hF.noDouble f nf vs hl)]

end UPVerif.Compile
