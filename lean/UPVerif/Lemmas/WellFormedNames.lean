import UPVerif.Core.Compile.Named
import UPVerif.Lemmas.FreshLemmas
/-!
Helper lemmas for `Props/C08Models.lean`, part 2: the naming pass of the compilers (`assignNames`,
`Core/Compile/Named.lean`).  Names handed out by `get_fresh_name` against the problem under construction are new,
clones that are added before any fresh name keep the name space duplicate-free, and the two fixed bases of the
disjunctive-conditions remover (`dcrm_fake_goal`, `dcrm_fake_action`) never produce the same candidate.  No Mathlib.
-/
namespace UPVerif.Compile
open UPVerif UPVerif.Fresh UPVerif.WF

/-- same parameters, preconditions and effects (only the name may differ) -/
def SameBody (a a' : Action) : Prop := a'.params = a.params ∧ a'.pre = a.pre ∧ a'.effs = a.effs

theorem assignNames_length : ∀ (l : List (Action × Bool)) (cur : List String), (assignNames cur l).length = l.length
  | [], _ => rfl
  | (a, f) :: l, cur => by simp [assignNames, assignNames_length l]

/-- the pass changes names only, position by position -/
theorem assignNames_getElem? : ∀ (l : List (Action × Bool)) (cur : List String) (i : Nat) (a' : Action),
    (assignNames cur l)[i]? = some a' → ∃ a f, l[i]? = some (a, f) ∧ SameBody a a'
  | [], _, i, a', h => by simp [assignNames] at h
  | (a, f) :: l, cur, 0, a', h => by
    simp only [assignNames, List.getElem?_cons_zero, Option.some.injEq] at h
    subst h
    exact ⟨a, f, rfl, rfl, rfl, rfl⟩
  | (a, f) :: l, cur, i + 1, a', h => by
    simp only [assignNames, List.getElem?_cons_succ] at h
    obtain ⟨b, g, hb, hs⟩ := assignNames_getElem? l _ i a' h
    exact ⟨b, g, by simpa using hb, hs⟩

theorem assignNames_mem {l : List (Action × Bool)} {cur : List String} {a' : Action} (h : a' ∈ assignNames cur l) :
    ∃ a f, (a, f) ∈ l ∧ SameBody a a' := by
  obtain ⟨i, hi⟩ := List.mem_iff_getElem?.1 h
  obtain ⟨a, f, hl, hs⟩ := assignNames_getElem? l cur i a' hi
  exact ⟨a, f, List.mem_of_getElem? hl, hs⟩

/-- the name set after the pass: the assigned names (latest first) on top of the initial ones -/
theorem namesAfter_eq : ∀ (l : List (Action × Bool)) (cur : List String),
    namesAfter cur l = ((assignNames cur l).map (·.name)).reverse ++ cur
  | [], cur => by simp [namesAfter, assignNames]
  | (a, f) :: l, cur => by
    simp only [namesAfter, assignNames, List.map_cons, List.reverse_cons, List.append_assoc, List.singleton_append]
    rw [namesAfter_eq l]

theorem assignNames_append : ∀ (l m : List (Action × Bool)) (cur : List String),
    assignNames cur (l ++ m) = assignNames cur l ++ assignNames (namesAfter cur l) m
  | [], m, cur => rfl
  | (a, f) :: l, m, cur => by
    simp only [List.cons_append, assignNames, namesAfter]
    rw [assignNames_append l m]

theorem namesAfter_append : ∀ (l m : List (Action × Bool)) (cur : List String),
    namesAfter cur (l ++ m) = namesAfter (namesAfter cur l) m
  | [], m, cur => rfl
  | (a, f) :: l, m, cur => by
    simp only [List.cons_append, namesAfter]
    rw [namesAfter_append l m]

/-- clones keep their names -/
theorem assignNames_kept : ∀ (k : List Action) (cur : List String), assignNames cur (k.map (fun a => (a, false))) = k
  | [], _ => rfl
  | a :: k, cur => by
    simp only [List.map_cons, assignNames, Bool.false_eq_true, if_false]
    rw [assignNames_kept k]

/-- names handed out one after the other against the current name set are new and pairwise distinct -/
theorem namesAfter_fresh_nodup : ∀ (l : List (Action × Bool)) (cur : List String), cur.Nodup →
    (∀ x ∈ l, x.2 = true) → (namesAfter cur l).Nodup
  | [], cur, h, _ => h
  | (a, f) :: l, cur, h, hf => by
    have hf' : f = true := hf (a, f) (by simp)
    subst hf'
    simp only [namesAfter, if_true]
    exact namesAfter_fresh_nodup l _
      (List.nodup_cons.2 ⟨getFreshName_not_mem cur a.name [] none, h⟩)
      (fun x hx => hf x (List.mem_cons_of_mem _ hx))

/-- the declared names of the problem under construction, in declaration order -/
theorem nodup_append_assigned (cur : List String) (l : List (Action × Bool)) (h : (namesAfter cur l).Nodup) :
    (cur ++ (assignNames cur l).map (·.name)).Nodup := by
  rw [namesAfter_eq] at h
  refine (List.Perm.nodup_iff ?_).1 h
  exact List.perm_append_comm.trans (List.Perm.append_left _ (List.reverse_perm _))

/-- clones first, fresh names afterwards: the name space stays duplicate-free -/
theorem assignNames_kept_then_fresh_nodup (cur : List String) (k f : List Action)
    (h : (cur ++ k.map (·.name)).Nodup) :
    (cur ++ (assignNames cur (k.map (fun a => (a, false)) ++ f.map (fun a => (a, true)))).map (·.name)).Nodup := by
  apply nodup_append_assigned
  rw [namesAfter_append]
  apply namesAfter_fresh_nodup
  · rw [namesAfter_eq, assignNames_kept]
    refine (List.Perm.nodup_iff ?_).2 h
    exact List.perm_append_comm.trans (List.Perm.append_left _ (List.reverse_perm _))
  · intro x hx
    obtain ⟨a, _, rfl⟩ := List.mem_map.1 hx
    rfl

/-- every name the pass hands out afresh is a candidate of its base: `base`, `base_0`, `base_1`, … -/
theorem assignNames_fresh_candidate : ∀ (l : List (Action × Bool)) (cur : List String), (∀ x ∈ l, x.2 = true) →
    ∀ a' ∈ assignNames cur l, ∃ a k, (a, true) ∈ l ∧ a'.name = candidate a.name k
  | [], _, _, a', h => by simp [assignNames] at h
  | (a, f) :: l, cur, hf, a', h => by
    have hf' : f = true := hf (a, f) (by simp)
    subst hf'
    simp only [assignNames, if_true, List.mem_cons] at h
    rcases h with rfl | h
    · obtain ⟨k, hk, _⟩ := getFreshName_spec cur a.name [] none
      exact ⟨a, k, by simp, hk⟩
    · obtain ⟨b, k, hb, hk⟩ := assignNames_fresh_candidate l _ (fun x hx => hf x (List.mem_cons_of_mem _ hx)) a' h
      exact ⟨b, k, List.mem_cons_of_mem _ hb, hk⟩

/-! ### the two fixed bases of the disjunctive-conditions remover -/

theorem fake_action_candidate (k : Nat) : ∃ s, candidate "dcrm_fake_action" k = "dcrm_fake_" ++ ("action" ++ s) := by
  cases k with
  | zero => exact ⟨"", by decide⟩
  | succ k => exact ⟨"_" ++ toString k, by simp only [candidate, ← String.append_assoc]; congr 1⟩

theorem fake_goal_candidate (k : Nat) : ∃ s, candidate "dcrm_fake_goal" k = "dcrm_fake_" ++ ("goal" ++ s) := by
  cases k with
  | zero => exact ⟨"", by decide⟩
  | succ k => exact ⟨"_" ++ toString k, by simp only [candidate, ← String.append_assoc]; congr 1⟩

/-- the fake goal fluent is named before the fake actions exist and added after them (disjunctive_conditions_remover.py:
    299-318): its name still cannot be one of theirs -/
theorem fake_action_ne_fake_goal (k j : Nat) : candidate "dcrm_fake_action" k ≠ candidate "dcrm_fake_goal" j := by
  intro h
  obtain ⟨s1, h1⟩ := fake_action_candidate k
  obtain ⟨s2, h2⟩ := fake_goal_candidate j
  rw [h1, h2] at h
  have h3 := (String.append_right_inj _).1 h
  have h4 := congrArg String.toList h3
  simp only [String.toList_append] at h4
  have ha : ("action" : String).toList = ['a', 'c', 't', 'i', 'o', 'n'] := by decide
  have hg : ("goal" : String).toList = ['g', 'o', 'a', 'l'] := by decide
  rw [ha, hg] at h4
  simp at h4

end UPVerif.Compile
