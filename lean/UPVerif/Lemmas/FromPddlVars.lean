import UPVerif.Lemmas.FromPddlFexp
/-!
Helper lemmas for C21: quantified variables — the two readers declare the same variables for a typed `?`-list, and keep
the same innermost-binding-wins scope (`extendScope` prepends, the converter updates a dictionary keyed by name).
-/
namespace UPVerif.FromPddl
open UPVerif UPVerif.Expr UPVerif.Pddl

/-! ### the scope -/

theorem find_qvSet (qv : List Var) (v : Var) (n : String) :
    (qvSet qv v).find? (fun w => w.name == n) = if v.name == n then some v else qv.find? (fun w => w.name == n) := by
  unfold qvSet
  by_cases hany : qv.any (fun w => w.name == v.name) = true
  · rw [if_pos hany]
    induction qv with
    | nil => simp at hany
    | cons w r ih =>
      simp only [List.map_cons, List.find?_cons]
      by_cases hw : w.name = v.name
      · simp only [hw, beq_self_eq_true, if_true]
        by_cases hv : v.name = n
        · simp [hv]
        · have hv' : (v.name == n) = false := by simpa using hv
          simp only [hv', Bool.false_eq_true, if_false]
          by_cases hr : r.any (fun w => w.name == v.name) = true
          · rw [ih hr]; simp [hv']
          · -- no other variable of that name: the rest is unchanged
            have hmap : r.map (fun w => if (w.name == v.name) = true then v else w) = r := by
              have : r.map (fun w => if (w.name == v.name) = true then v else w) = r.map id := by
                apply List.map_congr_left
                intro w' hw'
                have : (w'.name == v.name) = false := by
                  cases hc : (w'.name == v.name) with
                  | false => rfl
                  | true => exact absurd (List.any_eq_true.2 ⟨w', hw', hc⟩) hr
                simp [this]
              rw [this, List.map_id]
            rw [hmap]
      · have hw' : (w.name == v.name) = false := by simpa using hw
        simp only [hw', Bool.false_eq_true, if_false]
        have hr : r.any (fun w => w.name == v.name) = true := by
          simpa [List.any_cons, hw'] using hany
        rw [ih hr]
        by_cases hv : v.name = n
        · have : (w.name == n) = false := by
            rw [← hv]; exact hw'
          simp [hv, this]
        · have hv' : (v.name == n) = false := by simpa using hv
          simp [hv']
  · rw [if_neg hany, List.find?_append]
    have hnone : ∀ w ∈ qv, (w.name == v.name) = false := by
      intro w hw
      cases hc : (w.name == v.name) with
      | false => rfl
      | true => exact absurd (List.any_eq_true.2 ⟨w, hw, hc⟩) hany
    by_cases hv : v.name = n
    · have : qv.find? (fun w => w.name == n) = none := by
        rw [List.find?_eq_none]
        intro w hw
        rw [← hv]
        simp [hnone w hw]
      simp [this, hv]
    · have hv' : (v.name == n) = false := by simpa using hv
      simp [hv']

theorem find_qvUpdate (n : String) : ∀ (vs qv : List Var), (vs.map (·.name)).Nodup →
    (qvUpdate qv vs).find? (fun w => w.name == n) =
      (match vs.find? (fun w => w.name == n) with
        | some w => some w
        | none => qv.find? (fun w => w.name == n))
  | [], qv, _ => rfl
  | v :: r, qv, hn => by
    have hn' := List.nodup_cons.1 (by simpa using hn : (v.name :: r.map (·.name)).Nodup)
    show (qvUpdate (qvSet qv v) r).find? _ = _
    rw [find_qvUpdate n r (qvSet qv v) hn'.2, find_qvSet, List.find?_cons]
    by_cases hv : v.name = n
    · have hr : r.find? (fun w => w.name == n) = none := by
        rw [List.find?_eq_none]
        intro w hw hc
        apply hn'.1
        rw [hv]
        exact List.mem_map.2 ⟨w, hw, by simpa using hc⟩
      simp [hv, hr]
    · have hv' : (v.name == n) = false := by simpa using hv
      simp [hv']

/-- the scope after a quantifier: the new variables shadow the old ones in both readers -/
theorem scope_extend {sc qv vs : List Var} (hs : ScopeAgree sc qv) (hn : (vs.map (·.name)).Nodup) :
    ScopeAgree (extendScope sc vs) (qvUpdate qv vs) := by
  intro n
  unfold extendScope
  rw [List.find?_append, find_qvUpdate n vs qv hn, hs n]
  cases vs.find? (fun w => w.name == n) <;> rfl

/-! ### the declared variables -/

theorem convertVariables_append (tab : TypeTab) : ∀ (l1 l2 : List TVar) (r : List Var),
    convertVariables tab (l1 ++ l2) = some r ↔
      ∃ r1 r2, convertVariables tab l1 = some r1 ∧ convertVariables tab l2 = some r2 ∧ r = r1 ++ r2
  | [], l2, r => by
    simp [convertVariables]
  | v :: l1, l2, r => by
    simp only [List.cons_append, convertVariables, Option.bind_eq_bind, Option.bind_eq_some_iff, Option.some.injEq]
    constructor
    · rintro ⟨x, hx, xs, hxs, rfl⟩
      obtain ⟨r1, r2, h1, h2, rfl⟩ := (convertVariables_append tab l1 l2 xs).1 hxs
      exact ⟨x :: r1, r2, ⟨x, hx, r1, h1, rfl⟩, h2, rfl⟩
    · rintro ⟨r1, r2, ⟨x, hx, xs, hxs, rfl⟩, h2, rfl⟩
      exact ⟨x, hx, xs ++ r2, (convertVariables_append tab l1 l2 _).2 ⟨xs, r2, hxs, h2, rfl⟩, rfl⟩

theorem convertVariables_group (tab : TypeTab) (hid : ∀ t n, (tab.lookup t).join = some n → n = t) (t : String) (ty : Ty)
    (hty : ty = .user t) : ∀ (ns : List String) (r : List Var),
    convertVariables tab (ns.map (fun n => ({ name := n, tags := [t] } : TVar))) = some r →
    r = ns.map (fun n => ({ name := n, ty := ty } : Var))
  | [], r, h => by simp [convertVariables] at h; cases h; rfl
  | n :: ns, r, h => by
    simp only [List.map_cons, convertVariables, Option.bind_eq_bind, Option.bind_eq_some_iff, Option.some.injEq] at h
    obtain ⟨x, hx, xs, hxs, rfl⟩ := h
    rw [convertVariables_group tab hid t ty hty ns xs hxs]
    unfold convertVariable at hx
    simp only [Option.map_eq_some_iff] at hx
    obtain ⟨m, hm, rfl⟩ := hx
    rw [hid t m hm, hty]
    rfl

/-- `declVars` (first reader) and `convertVariables ∘ astVars` (external parser + converter) on the groups of a typed
    `?`-list -/
theorem vars_agree_groups (E : REnv) (tab : TypeTab) (hid : ∀ t n, (tab.lookup t).join = some n → n = t) :
    ∀ (gs : List (List String × Option String)) (vs ups : List Var), declVars E gs = some vs →
    convertVariables tab (gs.flatMap (fun g => g.1.map (fun n => ({ name := n, tags := g.2.toList } : TVar)))) = some ups →
    vs = ups
  | [], vs, ups, hU, hQ => by
    rw [declVars] at hU
    simp [convertVariables] at hQ
    rw [← Option.some.inj hU, hQ]
  | (ns, t) :: gs, vs, ups, hU, hQ => by
    rw [declVars] at hU
    simp only [Option.bind_eq_bind, Option.bind_eq_some_iff, Option.some.injEq] at hU
    obtain ⟨ty, hty, rest, hrest, rfl⟩ := hU
    rw [List.flatMap_cons, convertVariables_append] at hQ
    obtain ⟨r1, r2, h1, h2, rfl⟩ := hQ
    rw [vars_agree_groups E tab hid gs rest r2 hrest h2]
    congr 1
    cases t with
    | some tn =>
      have htyu : ty = .user tn := by
        unfold REnv.tyOf at hty
        simp only [Option.getD_some] at hty
        split at hty
        · exact (Option.some.inj hty).symm
        · cases hty
      exact (convertVariables_group tab hid tn ty htyu ns r1 h1).symm
    | none =>
      -- untyped variables are refused by the converter
      cases ns with
      | nil =>
        simp [convertVariables] at h1
        rw [h1]; rfl
      | cons n ns =>
        simp [convertVariables, convertVariable] at h1

theorem convertVariables_names (tab : TypeTab) : ∀ (tvs : List TVar) (ups : List Var), convertVariables tab tvs = some ups →
    ups.map (·.name) = tvs.map (·.name)
  | [], ups, h => by simp [convertVariables] at h; rw [h]; rfl
  | v :: tvs, ups, h => by
    simp only [convertVariables, Option.bind_eq_bind, Option.bind_eq_some_iff, Option.some.injEq] at h
    obtain ⟨x, hx, xs, hxs, rfl⟩ := h
    have hn : x.name = v.name := by
      unfold convertVariable at hx
      split at hx
      · simp only [Option.map_eq_some_iff] at hx
        obtain ⟨m, _, rfl⟩ := hx
        rfl
      · cases hx
    simp [hn, convertVariables_names tab tvs xs hxs]

/-- a quantifier's typed list: the same variables in both readers, with pairwise different names -/
theorem vars_agree (E : REnv) (tab : TypeTab) (hid : ∀ t n, (tab.lookup t).join = some n → n = t) (vl : List Sexp)
    (vs : List Var) (tvs : List TVar) (ups : List Var)
    (hU : (typedList true vl).bind (declVars E) = some vs) (hA : astVars vl = some tvs)
    (hQ : convertVariables tab tvs = some ups) (hnd : varsNodup vl = true) :
    vs = ups ∧ (vs.map (·.name)).Nodup := by
  rw [Option.bind_eq_some_iff] at hU
  obtain ⟨gs, hgs, hd⟩ := hU
  unfold astVars at hA
  rw [hgs] at hA
  simp only [Option.map_some, Option.some.injEq] at hA
  subst hA
  have heq := vars_agree_groups E tab hid gs vs ups hd hQ
  refine ⟨heq, ?_⟩
  unfold varsNodup astVars at hnd
  rw [hgs] at hnd
  simp only [Option.map_some, decide_eq_true_eq] at hnd
  rw [heq, convertVariables_names tab _ ups hQ]
  exact hnd

end UPVerif.FromPddl
