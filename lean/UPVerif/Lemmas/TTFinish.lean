import UPVerif.Lemmas.TTInterval
import UPVerif.Lemmas.TTLoop
/-!
Helper lemmas for `Props/C05.lean` / `Props/C04.lean`: what `_validate` does after its main loop
(the loop over `durative_conditions` with `_states_in_interval`, then the goals) accepts exactly when
every condition is TRUE in the state in force at every time point of its interval and the goals are
TRUE in the last state; and the trace built by the loop is the time line of the specification.
-/
namespace UPVerif.TT
open UPVerif UPVerif.Expr UPVerif.Sim UPVerif.Spec UPVerif.Spec.Temporal

/-! ### the checks after the loop -/

theorem holds_true {W : World} {s : SimState} {e : Expr} :
    holds W s e = .ok true ↔ evalBool (ctx W s) e = .ok true := by
  unfold holds
  cases h : evalBool (ctx W s) e with
  | ok b => simp
  | error x => cases x <;> simp

theorem holdsAll_true {W : World} {e : Expr} : ∀ {sts : List (Rat × SimState)},
    holdsAll W e sts = .ok true ↔ ∀ x ∈ sts, evalBool (ctx W x.2) e = .ok true
  | [] => by simp [holdsAll]
  | (t, s) :: r => by
    simp only [holdsAll, List.mem_cons, forall_eq_or_imp]
    rw [← holds_true, ← holdsAll_true (sts := r)]
    cases h : holds W s e with
    | error x => simp
    | ok b => cases b <;> simp

theorem checkConds_none {W : World} {tr : Trace} : ∀ {cs : List DCond},
    checkConds W tr cs = .ok none ↔
      ∀ dc ∈ cs, ∃ sts, statesInInterval tr dc.start dc.end dc.lopen = some sts ∧
        ∀ x ∈ sts, evalBool (ctx W x.2) dc.cond = .ok true
  | [] => by simp [checkConds]
  | dc :: r => by
    simp only [checkConds, List.mem_cons, forall_eq_or_imp]
    rw [← checkConds_none (cs := r)]
    cases hs : statesInInterval tr dc.start dc.end dc.lopen with
    | none => simp
    | some sts =>
      simp only [Option.some.injEq, exists_eq_left']
      rw [← holdsAll_true]
      cases h : holdsAll W dc.cond sts with
      | error x => simp
      | ok b => cases b <;> simp

theorem checkGoals_true {W : World} {s : SimState} : ∀ {gs : List Expr},
    checkGoals W s gs = .ok true ↔ ∀ g ∈ gs, evalBool (ctx W s) g = .ok true
  | [] => by simp [checkGoals]
  | g :: r => by
    simp only [checkGoals, List.mem_cons, forall_eq_or_imp]
    rw [← holds_true, ← checkGoals_true (gs := r)]
    cases h : holds W s g with
    | error x => simp
    | ok b => cases b <;> simp

theorem checkConds_some_invalid {W : World} {tr : Trace} : ∀ {cs : List DCond} {v : Verdict},
    checkConds W tr cs = .ok (some v) → v ≠ .valid
  | [], v, h => by simp [checkConds] at h
  | dc :: r, v, h => by
    simp only [checkConds] at h
    split at h
    · cases h
    · split at h
      · cases h
      · simp only [Except.ok.injEq, Option.some.injEq] at h
        subst h
        split <;> simp
      · exact checkConds_some_invalid h

theorem finish_valid {W : World} {L : Loop} :
    finish W L = .ok .valid ↔ checkConds W L.trace L.conds = .ok none ∧ checkGoals W L.last W.P.goals = .ok true := by
  unfold finish
  cases h : checkConds W L.trace L.conds with
  | error x => simp
  | ok o =>
    cases o with
    | some v =>
      have := checkConds_some_invalid h
      simp only [Except.ok.injEq, reduceCtorEq, false_and, iff_false]
      exact this
    | none =>
      simp only [true_and]
      cases hg : checkGoals W L.last W.P.goals with
      | error x => simp
      | ok b => cases b <;> simp

/-! ### the trace is the time line -/

theorem set_fresh : ∀ {tr : Trace} {t : Rat} {s : SimState}, t ∉ tr.keys → tr.set t s = tr ++ [(t, s)]
  | [], _, _, _ => rfl
  | (t', s') :: r, t, s, h => by
    simp only [Trace.keys, List.map_cons, List.mem_cons, not_or] at h
    simp only [Trace.set]
    rw [if_neg (fun e => h.1 e.symm)]
    simp only [List.cons_append, List.cons.injEq, true_and]
    exact set_fresh h.2

theorem traceAfter_fresh : ∀ {tl : List (Rat × SimState)} {tr : Trace},
    (tl.map (·.1)).Nodup → (∀ t ∈ tl.map (·.1), t ∉ tr.keys) → traceAfter tr tl = tr ++ tl
  | [], tr, _, _ => by simp [traceAfter]
  | (t, s) :: r, tr, hnd, hfr => by
    simp only [List.map_cons, List.nodup_cons] at hnd
    simp only [traceAfter, List.foldl_cons]
    rw [set_fresh (hfr t (by simp))]
    have := traceAfter_fresh (tl := r) (tr := tr ++ [(t, s)]) hnd.2 (by
      intro t' ht'
      simp only [Trace.keys, List.map_append, List.map_cons, List.map_nil, List.mem_append, List.mem_singleton, not_or]
      refine ⟨hfr t' (by simp [ht']), ?_⟩
      intro e; subst e; exact hnd.1 ht')
    simp only [traceAfter] at this
    rw [this]; simp

theorem timelineS_keys {W : World} {E : List Sched} : ∀ {ts : List Rat} {s : SimState} {tl : List (Rat × SimState)},
    timelineS W E s ts = some tl → tl.map (·.1) = ts
  | [], _, tl, h => by simp [timelineS] at h; subst h; rfl
  | t :: ts, s, tl, h => by
    simp only [timelineS] at h
    split at h
    · rename_i s' _
      cases hr : timelineS W E s' ts with
      | none => rw [hr] at h; cases h
      | some r =>
        rw [hr] at h
        simp only [Option.map_some, Option.some.injEq] at h
        subst h
        simp [timelineS_keys hr]
    · cases h

/-- the states of the model's time line read as the states of the specification's -/
def readTl (W : World) (tl : List (Rat × SimState)) : List (Rat × SMap) := tl.map (fun x => (x.1, x.2.get W.P))

theorem timeline_of_timelineS {W : World} {E : List Sched} : ∀ {ts : List Rat} {s : SimState} {tl : List (Rat × SimState)},
    timelineS W E s ts = some tl → timeline W E (s.get W.P) ts = some (readTl W tl)
  | [], _, tl, h => by simp [timelineS] at h; subst h; rfl
  | t :: ts, s, tl, h => by
    simp only [timelineS] at h
    split at h
    · rename_i s' ha
      cases hr : timelineS W E s' ts with
      | none => rw [hr] at h; cases h
      | some r =>
        rw [hr] at h
        simp only [Option.map_some, Option.some.injEq] at h
        subst h
        simp only [timeline, applyEffects_ok ha, timeline_of_timelineS hr]
        rfl
    · cases h

theorem timelineS_of_timeline {W : World} {E : List Sched} : ∀ {ts : List Rat} {s : SimState} {tlσ : List (Rat × SMap)},
    timeline W E (s.get W.P) ts = some tlσ → ∃ tl, timelineS W E s ts = some tl ∧ readTl W tl = tlσ
  | [], _, tlσ, h => by simp [timeline] at h; subst h; exact ⟨[], rfl, rfl⟩
  | t :: ts, s, tlσ, h => by
    simp only [timeline] at h
    split at h
    · cases h
    · rename_i σ' hσ
      obtain ⟨s', ha, hs'⟩ := applyEffects_of_succ hσ
      subst hs'
      cases hr : timeline W E (s'.get W.P) ts with
      | none => rw [hr] at h; cases h
      | some r =>
        rw [hr] at h
        simp only [Option.map_some, Option.some.injEq] at h
        subst h
        obtain ⟨tl', h1, h2⟩ := timelineS_of_timeline hr
        refine ⟨(t, s') :: tl', by simp [timelineS, ha, h1], ?_⟩
        simp [readTl] at h2 ⊢
        exact h2

theorem lastAfter_read {W : World} : ∀ {tl : List (Rat × SimState)} {s : SimState},
    (lastAfter s tl).get W.P = lastState (s.get W.P) (readTl W tl)
  | [], _ => rfl
  | (_, s') :: r, _ => by
    simp only [lastAfter, readTl, List.map_cons, lastState]
    exact lastAfter_read (tl := r) (s := s')

/-! ### the state in force at a time point -/

theorem isPred_unique {ks : List Rat} {t t' p : Rat} (h : IsPred ks t p) (h' : IsPred ks t' p) : t = t' := by
  have a := h.2.2 t' h'.1 h'.2.1
  have b := h'.2.2 t h.1 h.2.1
  grind

/-- in an ascending trace the state recorded under the greatest key below `p` is the specification's
    state in force at `p` -/
theorem pred_stateAt {W : World} : ∀ {tl : List (Rat × SimState)} {t0 : Rat} {s0 : SimState} {p : Rat},
    StrictAsc (t0 :: tl.map (·.1)) → t0 < p →
    ∃ t st, IsPred (Trace.keys ((t0, s0) :: tl)) t p ∧ List.lookup t ((t0, s0) :: tl) = some st ∧
      st.get W.P = stateAt (s0.get W.P) (readTl W tl) p
  | [], t0, s0, p, _, hp => by
    refine ⟨t0, s0, ⟨by simp [Trace.keys], hp, ?_⟩, by simp [List.lookup], rfl⟩
    intro x hx _
    simp [Trace.keys] at hx
    subst hx; grind
  | (t1, s1) :: r, t0, s0, p, hasc, hp => by
    unfold StrictAsc at hasc
    simp only [List.map_cons] at hasc
    rw [List.pairwise_cons] at hasc
    have h01 : t0 < t1 := hasc.1 t1 (by simp)
    by_cases h1p : t1 < p
    · obtain ⟨t, st, hpred, hlk, hst⟩ := pred_stateAt (W := W) (tl := r) (t0 := t1) (s0 := s1) (p := p) hasc.2 h1p
      refine ⟨t, st, ⟨?_, hpred.2.1, ?_⟩, ?_, ?_⟩
      · have := hpred.1
        simp only [Trace.keys, List.map_cons, List.mem_cons] at this ⊢
        exact Or.inr this
      · intro x hx hxp
        simp only [Trace.keys, List.map_cons, List.mem_cons] at hx
        rcases hx with rfl | hx
        · have : t1 ≤ t := hpred.2.2 t1 (by simp [Trace.keys]) h1p
          grind
        · exact hpred.2.2 x (by simpa [Trace.keys] using hx) hxp
      · have htne : t ≠ t0 := by
          have : t1 ≤ t := hpred.2.2 t1 (by simp [Trace.keys]) h1p
          grind
        have : (t == t0) = false := by simpa using htne
        rw [List.lookup, this]
        exact hlk
      · rw [hst]
        simp only [readTl, List.map_cons, stateAt, if_pos h1p]
    · refine ⟨t0, s0, ⟨by simp [Trace.keys], hp, ?_⟩, by simp [List.lookup], ?_⟩
      · intro x hx hxp
        simp only [Trace.keys, List.map_cons, List.mem_cons] at hx
        rcases hx with rfl | rfl | hx
        · grind
        · exact absurd hxp h1p
        · have h1x : t1 < x := (List.pairwise_cons.1 hasc.2).1 x (by simpa using hx)
          grind
      · simp only [readTl, List.map_cons, stateAt, if_neg h1p]

end UPVerif.TT
