import UPVerif.Lemmas.WellFormedInv
/-!
Helper lemmas for `Props/C08Models.lean`, part 7: the model of `BoundedTypesRemover`.  Every bounded fluent is
re-declared under the same name and signature with the unbounded type, every expression is rebuilt over the new
fluents (`FluentsSubstituter`), and the bounds become conditions over all ground instances of the new fluents — all of
it declared in the compiled problem.  No Mathlib.
-/
namespace UPVerif.Compile
open UPVerif UPVerif.Expr UPVerif.Sim UPVerif.WF UPVerif.Declared

/-- the declarations of the compiled problem: every fluent re-declared with the unbounded type -/
def btrDecls (P : Problem) : Decls :=
  { types := (declsOf P).types, objects := (declsOf P).objects, fluents := (declsOf P).fluents.map unboundRef }

theorem tyDeclared_btr (P : Problem) (t : Ty) : tyDeclared (btrDecls P) t = tyDeclared (declsOf P) t := by
  cases t <;> rfl

theorem wfLeaf_btr (P : Problem) (ps : List (String × Ty)) (l : Leaf) :
    wfLeaf (btrDecls P) ps l = wfLeaf (declsOf P) ps l := by
  cases l <;> first | rfl | exact tyDeclared_btr P _

/-! ### `FluentsSubstituter.substitute_fluents` -/

theorem retype_leaf (l : Leaf) : retype (.leaf l) = .leaf l := by rw [retype]
theorem retype_fluent (f : FluentRef) (args : List Expr) :
    retype (.app (.fluent f) args) = .app (.fluent (unboundRef f)) (retypeList args) := by rw [retype]
theorem retype_app (op : Op) (args : List Expr) (h : ∀ f, op ≠ .fluent f) :
    retype (.app op args) = rebuild op (retypeList args) := by
  cases op <;> first | rfl | (exfalso; exact h _ rfl)
theorem retype_quant (q : Quant) (vs : List Var) (b : Expr) : retype (.quant q vs b) = .quant q vs (retype b) := by
  rw [retype]

theorem retypeList_length : ∀ es : List Expr, (retypeList es).length = es.length
  | [] => by rw [retypeList]
  | e :: es => by rw [retypeList, List.length_cons, List.length_cons, retypeList_length es]

theorem wfOp_nonfluent (D : Decls) (op : Op) (n : Nat) (h : ∀ f, op ≠ .fluent f) : wfOp D op n = true := by
  cases op <;> first | rfl | (exfalso; exact h _ rfl)

mutual
theorem retype_wf (P : Problem) (ps : List (String × Ty)) : ∀ e, wfExpr (declsOf P) ps e = true →
    wfExpr (btrDecls P) ps (retype e) = true
  | .leaf l, h => by
    rw [retype_leaf]
    unfold wfExpr at *
    rw [holds_leaf] at *
    show wfLeaf (btrDecls P) ps l = true
    rw [wfLeaf_btr]; exact h
  | .app op args, h => by
    unfold wfExpr at h
    rw [holds_app] at h
    have hargs := retypeList_wf P ps args h.2
    by_cases hf : ∃ f, op = .fluent f
    · obtain ⟨f, rfl⟩ := hf
      rw [retype_fluent]
      unfold wfExpr
      rw [holds_app]
      refine ⟨?_, hargs⟩
      have h1 : (declsOf P).fluents.contains f = true ∧ (args.length == f.sig.length) = true := by
        simpa [wfNode, wfOp] using h.1
      show ((btrDecls P).fluents.contains (unboundRef f) && ((retypeList args).length == (unboundRef f).sig.length)) = true
      rw [Bool.and_eq_true, retypeList_length]
      refine ⟨List.contains_iff_mem.2 ?_, h1.2⟩
      exact List.mem_map_of_mem (List.contains_iff_mem.1 h1.1)
    · have hf' : ∀ f, op ≠ .fluent f := fun f hop => hf ⟨f, hop⟩
      rw [retype_app op args hf']
      exact holds_rebuild (wfNode_consts _ _) (wfOp_nonfluent _ _ _ hf') hargs
  | .quant q vs b, h => by
    rw [retype_quant]
    unfold wfExpr at *
    rw [holds_quant] at *
    refine ⟨?_, retype_wf P ps b h.2⟩
    have h1 : vs.all (fun v => tyDeclared (declsOf P) v.ty) = true := h.1
    show vs.all (fun v => tyDeclared (btrDecls P) v.ty) = true
    simpa [tyDeclared_btr] using h1
theorem retypeList_wf (P : Problem) (ps : List (String × Ty)) : ∀ es, (∀ e ∈ es, wfExpr (declsOf P) ps e = true) →
    ∀ e' ∈ retypeList es, holds (wfNode (btrDecls P) ps) e' = true
  | [], _ => by rw [retypeList]; intro e' he'; cases he'
  | e :: es, h => by
    rw [retypeList]
    intro e' he'
    rcases List.mem_cons.1 he' with rfl | he'
    · exact retype_wf P ps e (h e (by simp))
    · exact retypeList_wf P ps es (fun x hx => h x (List.mem_cons_of_mem _ hx)) e' he'
end

theorem retype_FnWF (P : Problem) : FnWF retype (declsOf P) (btrDecls P) := fun ps e h => retype_wf P ps e h

/-! ### the bound conditions -/

theorem wfNode_objs_btr (P : Problem) (ps : List (String × Ty)) : (wfNode (btrDecls P) ps).Objs P := by
  intro ty o h
  have := wfNode_objs P ps ty o h
  obtain ⟨t, ht, _⟩ := objExpr_declared P h
  rw [ht, holds_leaf] at this ⊢
  exact this

theorem wf_const_int (D : Decls) (ps : List (String × Ty)) (z : Int) : wfExpr D ps (Expr.int z) = true := rfl
theorem wf_ratConst (D : Decls) (ps : List (String × Ty)) (q : Rat) : wfExpr D ps (ratConst q) = true := by
  unfold ratConst; split <;> rfl

theorem wf_boundConsts (D : Decls) (ps : List (String × Ty)) (ty : Ty) :
    (∀ l, (boundConsts ty).1 = some l → wfExpr D ps l = true) ∧
    (∀ u, (boundConsts ty).2 = some u → wfExpr D ps u = true) := by
  cases ty with
  | int lb ub =>
    constructor
    · intro l hl
      cases lb with
      | none => simp [boundConsts] at hl
      | some z => simp only [boundConsts, Option.map_some, Option.some.injEq] at hl; subst hl; rfl
    · intro u hu
      cases ub with
      | none => simp [boundConsts] at hu
      | some z => simp only [boundConsts, Option.map_some, Option.some.injEq] at hu; subst hu; rfl
  | real lb ub =>
    constructor
    · intro l hl
      cases lb with
      | none => simp [boundConsts] at hl
      | some z => simp only [boundConsts, Option.map_some, Option.some.injEq] at hl; subst hl; exact wf_ratConst _ _ _
    · intro u hu
      cases ub with
      | none => simp [boundConsts] at hu
      | some z => simp only [boundConsts, Option.map_some, Option.some.injEq] at hu; subst hu; exact wf_ratConst _ _ _
  | bool => exact ⟨fun l hl => by simp [boundConsts] at hl, fun u hu => by simp [boundConsts] at hu⟩
  | user n => exact ⟨fun l hl => by simp [boundConsts] at hl, fun u hu => by simp [boundConsts] at hu⟩
  | time => exact ⟨fun l hl => by simp [boundConsts] at hl, fun u hu => by simp [boundConsts] at hu⟩

/-- `get_all_fluent_exp`: every ground instance applies the fluent to as many declared objects as its signature has -/
theorem wf_allFluentExps (P : Problem) {f : FluentRef} (hf : f ∈ (btrDecls P).fluents) :
    ∀ fe ∈ allFluentExps P f, wfExpr (btrDecls P) [] fe = true := by
  intro fe hfe
  unfold allFluentExps at hfe
  obtain ⟨objs, hobjs, rfl⟩ := List.mem_map.1 hfe
  obtain ⟨hlen, hmem⟩ := mem_cartesian _ _ hobjs
  unfold wfExpr mkFluent
  rw [holds_app]
  constructor
  · show ((btrDecls P).fluents.contains f && ((objs.reverse.map (objExpr P)).length == f.sig.length)) = true
    rw [Bool.and_eq_true]
    refine ⟨List.contains_iff_mem.2 hf, ?_⟩
    simp only [List.length_map, List.length_reverse] at hlen ⊢
    simp [hlen]
  · intro e he
    obtain ⟨o, ho, rfl⟩ := List.mem_map.1 he
    obtain ⟨d, hd, hod⟩ := hmem o (List.mem_reverse.1 ho)
    obtain ⟨t, _, rfl⟩ := List.mem_map.1 hd
    exact wfNode_objs_btr P [] t o hod

theorem wf_mkLE {D : Decls} {ps : List (String × Ty)} {a b : Expr} (ha : wfExpr D ps a = true)
    (hb : wfExpr D ps b = true) : wfExpr D ps (mkLE a b) = true := by
  unfold wfExpr mkLE
  rw [holds_app]
  refine ⟨rfl, ?_⟩
  intro e he
  simp only [List.mem_cons, List.not_mem_nil, or_false] at he
  rcases he with rfl | rfl
  · exact ha
  · exact hb

theorem wf_btrConditions (P : Problem) : ∀ c ∈ btrConditions P, wfExpr (btrDecls P) [] c = true := by
  intro c hc
  unfold btrConditions at hc
  obtain ⟨d, hd, hcd⟩ := List.mem_flatMap.1 hc
  have hbc := wf_boundConsts (btrDecls P) [] d.ref.ty
  have hf : unboundRef d.ref ∈ (btrDecls P).fluents :=
    List.mem_map_of_mem (List.mem_map_of_mem (f := fun d : FluentDecl => d.ref) hd)
  have hcd' : c ∈ (if (boundConsts d.ref.ty).1.isNone && (boundConsts d.ref.ty).2.isNone then []
      else (allFluentExps P (unboundRef d.ref)).flatMap (fun fe =>
        (match (boundConsts d.ref.ty).1 with | some l => [mkLE l fe] | none => []) ++
        (match (boundConsts d.ref.ty).2 with | some u => [mkLE fe u] | none => []))) := hcd
  split at hcd'
  · cases hcd'
  · obtain ⟨fe, hfe, hcfe⟩ := List.mem_flatMap.1 hcd'
    have hwfe := wf_allFluentExps P hf fe hfe
    rcases List.mem_append.1 hcfe with h | h
    · split at h
      · rename_i l hl
        simp only [List.mem_singleton] at h
        subst h
        exact wf_mkLE (hbc.1 l hl) hwfe
      · cases h
    · split at h
      · rename_i u hu
        simp only [List.mem_singleton] at h
        subst h
        exact wf_mkLE hwfe (hbc.2 u hu)
      · cases h

/-! ### the compiled problem -/

theorem btrCompile_eq {simp : Expr → Expr} {P : Problem} {c : Compiled} (h : btrCompileN simp P = some c) :
    ∃ acts goals traj, addInvariantCondition simp retype (mkAnd (btrConditions P)) P = some (acts, goals, traj) ∧
      c = { prob := { P with fluents := P.fluents.map (fun d => { d with ref := unboundRef d.ref }),
                             init := P.init.map (fun kv => (retype kv.1, retype kv.2)),
                             actions := acts.map (·.1), goals := goals, traj := traj },
            back := acts.map (·.2) } := by
  unfold btrCompileN btrCompile at h
  simp only [] at h
  split at h
  · cases h
  · rename_i acts goals traj heq
    simp only [Option.some.injEq] at h
    exact ⟨acts, goals, traj, heq, h.symm⟩

/-- a constant mentions no fluent: it is declared in the compiled problem if it was in the original -/
theorem wf_constant_btr (P : Problem) {e : Expr} (hc : e.isConstant = true) (h : wfExpr (declsOf P) [] e = true) :
    wfExpr (btrDecls P) [] e = true := by
  unfold Expr.isConstant at hc
  split at hc
  · rfl
  · rfl
  · rfl
  · exact h
  · cases hc

/-- default initial values are constants (`Problem.add_fluent`'s `default_initial_value`) -/
def ConstDefaults (P : Problem) : Prop := ∀ d ∈ P.fluents, ∀ e, d.default = some e → e.isConstant = true

theorem btr_wellFormed {simp : Expr → Expr} (hs : SimpWF simp) {P : Problem} {c : Compiled} (hP : WellFormed P)
    (hm : P.metrics = []) (hd : ConstDefaults P) (h : btrCompileN simp P = some c) : WellFormed c.prob := by
  obtain ⟨acts, goals, traj, heq, rfl⟩ := btrCompile_eq h
  have hdecl : ∀ (acts : List Action) (goals traj : List Expr),
      declsOf { P with fluents := P.fluents.map (fun d => { d with ref := unboundRef d.ref }),
                       init := P.init.map (fun kv => (retype kv.1, retype kv.2)),
                       actions := acts, goals := goals, traj := traj } = btrDecls P := by
    intro acts goals traj
    simp only [declsOf, btrDecls, List.map_map]
    rfl
  have hc : wfExpr (btrDecls P) [] (mkAnd (btrConditions P)) = true := wfExpr_mkAnd (wf_btrConditions P)
  obtain ⟨ha, hg, ht⟩ := inv_actions_wf hs (retype_FnWF P) (fun t ht => by rw [tyDeclared_btr]; exact ht) hc hP heq
  refine ⟨?_, ?_, ?_, ?_, ?_, ?_, ?_, ?_⟩
  · show (((typeNames P ++ objectNames P) ++ (P.fluents.map (fun d => ({ d with ref := unboundRef d.ref } : FluentDecl))).map
        (·.ref.name)) ++ (acts.map (·.1)).map (·.name)).Nodup
    rw [List.map_map, List.map_map]
    exact (((addInvariantCondition_spec heq).1).append_left _).nodup hP.names
  · rw [hdecl]; exact hP.objects
  · rw [hdecl]
    intro d' hd'
    obtain ⟨d, hdm, rfl⟩ := List.mem_map.1 hd'
    have hw := hP.fluents d hdm
    unfold wfFluentDecl at hw ⊢
    simp only [Bool.and_eq_true, List.all_eq_true] at hw ⊢
    refine ⟨⟨?_, fun t ht => by rw [tyDeclared_btr]; exact hw.1.2 t ht⟩, ?_⟩
    · show tyDeclared (btrDecls P) (unboundTy d.ref.ty) = true
      have := hw.1.1
      cases hty : d.ref.ty with
      | user n =>
        rw [hty] at this
        show tyDeclared (btrDecls P) (Ty.user n) = true
        rw [tyDeclared_btr]; exact this
      | _ => rfl
    · show (match d.default with
        | some e => wfExpr (btrDecls P) [] e
        | none => true) = true
      have hw2 := hw.2
      cases hdef : d.default with
      | none => rfl
      | some e =>
        rw [hdef] at hw2
        exact wf_constant_btr P (hd d hdm e hdef) hw2
  · rw [hdecl]
    intro kv hkv
    obtain ⟨kv0, hkv0, rfl⟩ := List.mem_map.1 hkv
    exact ⟨retype_wf P [] _ (hP.init kv0 hkv0).1, retype_wf P [] _ (hP.init kv0 hkv0).2⟩
  · rw [hdecl]; exact ha
  · rw [hdecl]; exact hg
  · rw [hdecl]; exact ht
  · intro m hmm
    have : m ∈ P.metrics := hmm
    rw [hm] at this
    cases this

theorem btr_backOK {simp : Expr → Expr} {P : Problem} {c : Compiled} (h : btrCompileN simp P = some c) :
    backOK P.actions.length c.prob.actions c.back = true := by
  obtain ⟨acts, goals, traj, heq, rfl⟩ := btrCompile_eq h
  exact inv_backOK heq

theorem tyUnbounded_unboundTy (t : Ty) : tyUnbounded (unboundTy t) = true := by
  cases t <;> rfl

theorem btr_target {simp : Expr → Expr} {P : Problem} {c : Compiled} (h : btrCompileN simp P = some c) :
    noBoundedFluents c.prob = true := by
  obtain ⟨acts, goals, traj, heq, rfl⟩ := btrCompile_eq h
  simp only [noBoundedFluents, List.all_eq_true]
  intro d' hd'
  obtain ⟨d, _, rfl⟩ := List.mem_map.1 hd'
  exact tyUnbounded_unboundTy _

end UPVerif.Compile
