import UPVerif.Lemmas.FromPddlSem
import UPVerif.Lemmas.FromPddlAlg
/-!
Helper lemmas for C21: the value of a conjunction / disjunction / sum / product is a fold of the values of its operands
in a commutative monoid; conditions (`boolWF`) evaluate to a Boolean or fail; the relations `EqB`, `GdRel`, `FRel`
and their congruence laws.  No Mathlib.
-/
namespace UPVerif.FromPddl
open UPVerif UPVerif.Expr

/-! ### Boolean and numeric observations -/

def bvalR : Except EvalErr Val → Option Bool
  | .ok (.b b) => some b
  | _ => none

def nvalR : Except EvalErr Val → Option Rat
  | .ok (.n q) => some q
  | _ => none

def bval (c : EvalCtx) (ρ : VEnv) (e : Expr) : Option Bool := bvalR (eval c ρ e)
def nval (c : EvalCtx) (ρ : VEnv) (e : Expr) : Option Rat := nvalR (eval c ρ e)

def vB : Val → Option Bool
  | .b b => some b
  | _ => none
def vN : Val → Option Rat
  | .n q => some q
  | _ => none

theorem bvalR_obs (r : Except EvalErr Val) : bvalR r = (obs r).bind vB := by
  cases r with
  | error x => rfl
  | ok v => cases v <;> rfl

theorem nvalR_obs (r : Except EvalErr Val) : nvalR r = (obs r).bind vN := by
  cases r with
  | error x => rfl
  | ok v => cases v <;> rfl

def and2 : Option Bool → Option Bool → Option Bool
  | some a, some b => some (a && b)
  | _, _ => none
def or2 : Option Bool → Option Bool → Option Bool
  | some a, some b => some (a || b)
  | _, _ => none
def add2 : Option Rat → Option Rat → Option Rat
  | some a, some b => some (a + b)
  | _, _ => none
def mul2 : Option Rat → Option Rat → Option Rat
  | some a, some b => some (a * b)
  | _, _ => none

theorem cmon_and2 : CMon and2 (some true) where
  assoc := by intro a b c; cases a <;> cases b <;> cases c <;> simp [and2, Bool.and_assoc]
  comm := by intro a b; cases a <;> cases b <;> simp [and2, Bool.and_comm]
  unit := by intro a; cases a <;> simp [and2]
theorem idem_and2 : ∀ a, and2 a a = a := by intro a; cases a <;> simp [and2]

theorem cmon_or2 : CMon or2 (some false) where
  assoc := by intro a b c; cases a <;> cases b <;> cases c <;> simp [or2, Bool.or_assoc]
  comm := by intro a b; cases a <;> cases b <;> simp [or2, Bool.or_comm]
  unit := by intro a; cases a <;> simp [or2]
theorem idem_or2 : ∀ a, or2 a a = a := by intro a; cases a <;> simp [or2]

theorem cmon_add2 : CMon add2 (some 0) where
  assoc := by intro a b c; cases a <;> cases b <;> cases c <;> simp [add2, Rat.add_assoc]
  comm := by intro a b; cases a <;> cases b <;> simp [add2, Rat.add_comm]
  unit := by intro a; cases a <;> simp [add2, Rat.zero_add]

theorem cmon_mul2 : CMon mul2 (some 1) where
  assoc := by intro a b c; cases a <;> cases b <;> cases c <;> simp [mul2, Rat.mul_assoc]
  comm := by intro a b; cases a <;> cases b <;> simp [mul2, Rat.mul_comm]
  unit := by intro a; cases a <;> simp [mul2, Rat.one_mul]

/-! ### values of a list, seen as Booleans / numbers -/

theorem allBools_fold : ∀ vs : List Val,
    (allBools vs).map (fun bs => bs.all id) = foldO and2 (some true) (vs.map vB)
  | [] => rfl
  | v :: vs => by
    have ih := allBools_fold vs
    cases v with
    | b x =>
      simp only [allBools, List.map_cons, foldO_cons, vB, ← ih]
      cases allBools vs <;> simp [and2]
    | n q => simp [allBools, vB, and2]
    | o s => simp [allBools, vB, and2]

theorem anyBools_fold : ∀ vs : List Val,
    (allBools vs).map (fun bs => bs.any id) = foldO or2 (some false) (vs.map vB)
  | [] => rfl
  | v :: vs => by
    have ih := anyBools_fold vs
    cases v with
    | b x =>
      simp only [allBools, List.map_cons, foldO_cons, vB, ← ih]
      cases allBools vs <;> simp [or2]
    | n q => simp [allBools, vB, or2]
    | o s => simp [allBools, vB, or2]

theorem foldl_add (qs : List Rat) : ∀ a : Rat, qs.foldl (· + ·) a = a + qs.foldr (· + ·) 0 := by
  induction qs with
  | nil => intro a; simp [Rat.add_zero]
  | cons q qs ih => intro a; simp only [List.foldl_cons, List.foldr_cons, ih, Rat.add_assoc]

theorem foldl_mul (qs : List Rat) : ∀ a : Rat, qs.foldl (· * ·) a = a * qs.foldr (· * ·) 1 := by
  induction qs with
  | nil => intro a; simp [Rat.mul_one]
  | cons q qs ih => intro a; simp only [List.foldl_cons, List.foldr_cons, ih, Rat.mul_assoc]

theorem allNums_sum : ∀ vs : List Val,
    (allNums vs).map (fun qs => qs.foldr (· + ·) 0) = foldO add2 (some 0) (vs.map vN)
  | [] => rfl
  | v :: vs => by
    have ih := allNums_sum vs
    cases v with
    | n q =>
      simp only [allNums, List.map_cons, foldO_cons, vN, ← ih]
      cases allNums vs <;> simp [add2]
    | b x => simp [allNums, vN, add2]
    | o s => simp [allNums, vN, add2]

theorem allNums_prod : ∀ vs : List Val,
    (allNums vs).map (fun qs => qs.foldr (· * ·) 1) = foldO mul2 (some 1) (vs.map vN)
  | [] => rfl
  | v :: vs => by
    have ih := allNums_prod vs
    cases v with
    | n q =>
      simp only [allNums, List.map_cons, foldO_cons, vN, ← ih]
      cases allNums vs <;> simp [mul2]
    | b x => simp [allNums, vN, mul2]
    | o s => simp [allNums, vN, mul2]

/-- folding the observations of the elements: defined iff all are -/
theorem fold_obsList {M : Type} (c : EvalCtx) (ρ : VEnv) (op : Option M → Option M → Option M) (u : Option M) (g : Val → Option M)
    (hnone : ∀ a, op none a = none) (hnone' : ∀ a, op a none = none) : ∀ es : List Expr,
    (obsList c ρ es).bind (fun vs => foldO op u (vs.map g)) =
      foldO op u (es.map (fun e => (obs (eval c ρ e)).bind g)) ∨
    ((obsList c ρ es) = none ∧ foldO op u (es.map (fun e => (obs (eval c ρ e)).bind g)) = none)
  | [] => Or.inl rfl
  | e :: es => by
    simp only [obsList, List.map_cons, foldO_cons]
    cases h1 : obs (eval c ρ e) with
    | none => right; simp [hnone]
    | some v =>
      rcases fold_obsList c ρ op u g hnone hnone' es with ih | ⟨ih1, ih2⟩
      · cases h2 : obsList c ρ es with
        | none =>
          rw [h2] at ih
          right
          simp only [Option.bind_none] at ih
          simp [← ih, hnone']
        | some vs =>
          rw [h2] at ih
          left
          simp only [Option.bind_some] at ih ⊢
          simp [ih]
      · right
        simp [ih1, ih2, hnone']

theorem fold_obsList' {M : Type} (c : EvalCtx) (ρ : VEnv) (op : Option M → Option M → Option M) (u : Option M) (g : Val → Option M)
    (hnone : ∀ a, op none a = none) (hnone' : ∀ a, op a none = none) (es : List Expr) :
    (obsList c ρ es).bind (fun vs => foldO op u (vs.map g)) =
      foldO op u (es.map (fun e => (obs (eval c ρ e)).bind g)) := by
  rcases fold_obsList c ρ op u g hnone hnone' es with h | ⟨h1, h2⟩
  · exact h
  · rw [h1, h2]; rfl

theorem and2_none (a : Option Bool) : and2 none a = none := rfl
theorem and2_none' (a : Option Bool) : and2 a none = none := by cases a <;> rfl
theorem or2_none (a : Option Bool) : or2 none a = none := rfl
theorem or2_none' (a : Option Bool) : or2 a none = none := by cases a <;> rfl
theorem add2_none (a : Option Rat) : add2 none a = none := rfl
theorem add2_none' (a : Option Rat) : add2 a none = none := by cases a <;> rfl
theorem mul2_none (a : Option Rat) : mul2 none a = none := rfl
theorem mul2_none' (a : Option Rat) : mul2 a none = none := by cases a <;> rfl

/-! ### the four n-ary operators -/

theorem evalOp_and (c : EvalCtx) (vs : List Val) :
    obs (evalOp c .and vs) = ((allBools vs).map (fun bs => bs.all id)).map Val.b := by
  have : evalOp c .and vs = (match (allBools vs).map (fun bs => Val.b (bs.all id)) with
      | some v => .ok v | none => .error .other) := rfl
  rw [this]
  cases allBools vs <;> rfl

theorem evalOp_or (c : EvalCtx) (vs : List Val) :
    obs (evalOp c .or vs) = ((allBools vs).map (fun bs => bs.any id)).map Val.b := by
  have : evalOp c .or vs = (match (allBools vs).map (fun bs => Val.b (bs.any id)) with
      | some v => .ok v | none => .error .other) := rfl
  rw [this]
  cases allBools vs <;> rfl

theorem evalOp_plus (c : EvalCtx) (vs : List Val) :
    obs (evalOp c .plus vs) = ((allNums vs).map (fun qs => qs.foldr (· + ·) 0)).map Val.n := by
  have : evalOp c .plus vs = (match (allNums vs).map (fun qs => Val.n (qs.foldl (· + ·) 0)) with
      | some v => .ok v | none => .error .other) := rfl
  rw [this]
  cases allNums vs with
  | none => rfl
  | some qs => simp [obs, foldl_add, Rat.zero_add]

theorem evalOp_times (c : EvalCtx) (vs : List Val) :
    obs (evalOp c .times vs) = ((allNums vs).map (fun qs => qs.foldr (· * ·) 1)).map Val.n := by
  have : evalOp c .times vs = (match (allNums vs).map (fun qs => Val.n (qs.foldl (· * ·) 1)) with
      | some v => .ok v | none => .error .other) := rfl
  rw [this]
  cases allNums vs with
  | none => rfl
  | some qs => simp [obs, foldl_mul, Rat.one_mul]

theorem obs_and (c : EvalCtx) (ρ : VEnv) (xs : List Expr) :
    obs (eval c ρ (.app .and xs)) = (foldO and2 (some true) (xs.map (bval c ρ))).map Val.b := by
  rw [obs_eval_app]
  have h := fold_obsList' c ρ and2 (some true) vB and2_none and2_none' xs
  have e1 : (fun e => (obs (eval c ρ e)).bind vB) = bval c ρ := by
    funext e; exact (bvalR_obs _).symm
  rw [e1] at h
  rw [← h]
  cases obsList c ρ xs with
  | none => rfl
  | some vs => simp only [Option.bind_some, evalOp_and, allBools_fold]

theorem obs_or (c : EvalCtx) (ρ : VEnv) (xs : List Expr) :
    obs (eval c ρ (.app .or xs)) = (foldO or2 (some false) (xs.map (bval c ρ))).map Val.b := by
  rw [obs_eval_app]
  have h := fold_obsList' c ρ or2 (some false) vB or2_none or2_none' xs
  have e1 : (fun e => (obs (eval c ρ e)).bind vB) = bval c ρ := by
    funext e; exact (bvalR_obs _).symm
  rw [e1] at h
  rw [← h]
  cases obsList c ρ xs with
  | none => rfl
  | some vs => simp only [Option.bind_some, evalOp_or, anyBools_fold]

theorem obs_plus (c : EvalCtx) (ρ : VEnv) (xs : List Expr) :
    obs (eval c ρ (.app .plus xs)) = (foldO add2 (some 0) (xs.map (nval c ρ))).map Val.n := by
  rw [obs_eval_app]
  have h := fold_obsList' c ρ add2 (some 0) vN add2_none add2_none' xs
  have e1 : (fun e => (obs (eval c ρ e)).bind vN) = nval c ρ := by
    funext e; exact (nvalR_obs _).symm
  rw [e1] at h
  rw [← h]
  cases obsList c ρ xs with
  | none => rfl
  | some vs => simp only [Option.bind_some, evalOp_plus, allNums_sum]

theorem obs_times (c : EvalCtx) (ρ : VEnv) (xs : List Expr) :
    obs (eval c ρ (.app .times xs)) = (foldO mul2 (some 1) (xs.map (nval c ρ))).map Val.n := by
  rw [obs_eval_app]
  have h := fold_obsList' c ρ mul2 (some 1) vN mul2_none mul2_none' xs
  have e1 : (fun e => (obs (eval c ρ e)).bind vN) = nval c ρ := by
    funext e; exact (nvalR_obs _).symm
  rw [e1] at h
  rw [← h]
  cases obsList c ρ xs with
  | none => rfl
  | some vs => simp only [Option.bind_some, evalOp_times, allNums_prod]

theorem bval_of_obs {c : EvalCtx} {ρ : VEnv} {e : Expr} {o : Option Bool} (h : obs (eval c ρ e) = o.map Val.b) :
    bval c ρ e = o := by
  unfold bval
  rw [bvalR_obs, h]
  cases o <;> rfl

theorem nval_of_obs {c : EvalCtx} {ρ : VEnv} {e : Expr} {o : Option Rat} (h : obs (eval c ρ e) = o.map Val.n) :
    nval c ρ e = o := by
  unfold nval
  rw [nvalR_obs, h]
  cases o <;> rfl

theorem bval_and (c : EvalCtx) (ρ : VEnv) (xs : List Expr) :
    bval c ρ (.app .and xs) = foldO and2 (some true) (xs.map (bval c ρ)) := bval_of_obs (obs_and c ρ xs)
theorem bval_or (c : EvalCtx) (ρ : VEnv) (xs : List Expr) :
    bval c ρ (.app .or xs) = foldO or2 (some false) (xs.map (bval c ρ)) := bval_of_obs (obs_or c ρ xs)
theorem nval_plus (c : EvalCtx) (ρ : VEnv) (xs : List Expr) :
    nval c ρ (.app .plus xs) = foldO add2 (some 0) (xs.map (nval c ρ)) := nval_of_obs (obs_plus c ρ xs)
theorem nval_times (c : EvalCtx) (ρ : VEnv) (xs : List Expr) :
    nval c ρ (.app .times xs) = foldO mul2 (some 1) (xs.map (nval c ρ)) := nval_of_obs (obs_times c ρ xs)

theorem bval_tt (c : EvalCtx) (ρ : VEnv) : bval c ρ Expr.tt = some true := rfl
theorem bval_ff (c : EvalCtx) (ρ : VEnv) : bval c ρ Expr.ff = some false := rfl

/-- `manager.And(xs)` -/
theorem bval_mkAnd (c : EvalCtx) (ρ : VEnv) : ∀ xs : List Expr,
    bval c ρ (mkAnd xs) = foldO and2 (some true) (xs.map (bval c ρ))
  | [] => rfl
  | [x] => by simp [mkAnd, cmon_and2.unit']
  | x :: y :: r => bval_and c ρ _

theorem bval_mkOr (c : EvalCtx) (ρ : VEnv) : ∀ xs : List Expr,
    bval c ρ (mkOr xs) = foldO or2 (some false) (xs.map (bval c ρ))
  | [] => rfl
  | [x] => by simp [mkOr, cmon_or2.unit']
  | x :: y :: r => bval_or c ρ _

/-! ### instantiation of the manager's constructors -/

theorem instAll_tt (σs : List Subst) : instAll σs Expr.tt = Expr.tt :=
  instAll_leaf_const _ (by intro _ _ h; cases h) (by intro _ h; cases h) σs
theorem instAll_ff (σs : List Subst) : instAll σs Expr.ff = Expr.ff :=
  instAll_leaf_const _ (by intro _ _ h; cases h) (by intro _ h; cases h) σs

theorem instAll_mkAnd (σs : List Subst) : ∀ xs : List Expr, instAll σs (mkAnd xs) = mkAnd (xs.map (instAll σs))
  | [] => instAll_tt σs
  | [x] => rfl
  | x :: y :: r => by rw [show mkAnd (x :: y :: r) = .app .and (x :: y :: r) from rfl, instAll_app]; rfl

theorem instAll_mkOr (σs : List Subst) : ∀ xs : List Expr, instAll σs (mkOr xs) = mkOr (xs.map (instAll σs))
  | [] => instAll_ff σs
  | [x] => rfl
  | x :: y :: r => by rw [show mkOr (x :: y :: r) = .app .or (x :: y :: r) from rfl, instAll_app]; rfl

/-! ### conditions evaluate to a Boolean or fail -/

/-- a result that is a Boolean or an error -/
def isBoolR : Except EvalErr Val → Prop
  | .ok (.b _) => True
  | .error _ => True
  | .ok _ => False

theorem obs_of_isBoolR {r : Except EvalErr Val} (h : isBoolR r) : obs r = (bvalR r).map Val.b := by
  cases r with
  | error x => rfl
  | ok v =>
    cases v with
    | b b => rfl
    | n q => exact h.elim
    | o s => exact h.elim

theorem isBoolR_of_obs {r : Except EvalErr Val} {o : Option Bool} (h : obs r = o.map Val.b) : isBoolR r := by
  cases r with
  | error x => trivial
  | ok v =>
    cases v with
    | b b => trivial
    | n q => cases o <;> simp [obs] at h
    | o s => cases o <;> simp [obs] at h

theorem existsLoop_isBool (f : VEnv → Except EvalErr Val) : ∀ l : List VEnv, isBoolR (existsLoop f l)
  | [] => trivial
  | a :: as => by
    unfold existsLoop
    cases h : f a with
    | error x => trivial
    | ok v =>
      cases v with
      | b b => cases b with
        | true => trivial
        | false => exact existsLoop_isBool f as
      | n q => trivial
      | o s => trivial

theorem forallLoop_isBool (f : VEnv → Except EvalErr Val) : ∀ l : List VEnv, isBoolR (forallLoop f l)
  | [] => trivial
  | a :: as => by
    unfold forallLoop
    cases h : f a with
    | error x => trivial
    | ok v =>
      cases v with
      | b b => cases b with
        | false => trivial
        | true => exact forallLoop_isBool f as
      | n q => trivial
      | o s => trivial

/-- a unary / binary operator whose result is a Boolean or nothing -/
theorem isBoolR_app_of (c : EvalCtx) (ρ : VEnv) (op : Op) (as : List Expr)
    (h : ∀ vs, isBoolR (evalOp c op vs)) : isBoolR (eval c ρ (.app op as)) := by
  simp only [eval]
  cases evalList c ρ as with
  | error x => trivial
  | ok vs => exact h vs

theorem isBoolR_denOp (c : EvalCtx) (op : Op) (vs : List Val)
    (hop : ∀ f, op ≠ .fluent f) (hdiv : op ≠ .div)
    (h : ∀ ι v, denOp ι op vs = some v → ∃ b, v = .b b) : isBoolR (evalOp c op vs) := by
  have e : evalOp c op vs = (match denOp { fl := fun _ _ => none, fn := c.fn, par := fun _ => none, dom := fun _ => [] } op vs with
      | some v => .ok v | none => .error .other) := by
    cases op <;> first | rfl | exact absurd rfl (hop _) | exact absurd rfl hdiv
  rw [e]
  cases hd : denOp { fl := fun _ _ => none, fn := c.fn, par := fun _ => none, dom := fun _ => [] } op vs with
  | none => trivial
  | some v =>
    obtain ⟨b, rfl⟩ := h _ v hd
    trivial

theorem boolWF_isBool (c : EvalCtx) (w : WTCtx c) (ρ : VEnv) : ∀ e : Expr, boolWF e = true → isBoolR (eval c ρ e)
  | .leaf (.boolC b), _ => trivial
  | .leaf (.intC _), h | .leaf (.realC _), h | .leaf (.obj _ _), h | .leaf (.param _ _), h | .leaf (.var _), h
  | .leaf (.timing _), h | .leaf (.present _), h => by simp [boolWF] at h
  | .app .and as, _ => isBoolR_of_obs (obs_and c ρ as)
  | .app .or as, _ => isBoolR_of_obs (obs_or c ρ as)
  | .app (.fluent f) as, h => by
    apply isBoolR_app_of
    intro vs
    have e : evalOp c (.fluent f) vs = (match c.get (f, vs) with | some v => .ok v | none => .error .missing) := rfl
    rw [e]
    cases hg : c.get (f, vs) with
    | none => trivial
    | some v =>
      have hb : f.ty = .bool := by simpa [boolWF] using h
      obtain ⟨b, rfl⟩ := w f vs v hg hb
      trivial
  | .app .not as, _ => by
    apply isBoolR_app_of
    intro vs
    apply isBoolR_denOp c .not vs (by intro f h; cases h) (by intro h; cases h)
    intro ι v hv
    match vs, hv with
    | [.b x], hv => simp [denOp] at hv; exact ⟨_, hv.symm⟩
  | .app .implies as, _ => by
    apply isBoolR_app_of
    intro vs
    apply isBoolR_denOp c .implies vs (by intro f h; cases h) (by intro h; cases h)
    intro ι v hv
    match vs, hv with
    | [.b x, .b y], hv => simp [denOp] at hv; exact ⟨_, hv.symm⟩
  | .app .le as, _ => by
    apply isBoolR_app_of
    intro vs
    apply isBoolR_denOp c .le vs (by intro f h; cases h) (by intro h; cases h)
    intro ι v hv
    match vs, hv with
    | [.n x, .n y], hv => simp [denOp] at hv; exact ⟨_, hv.symm⟩
  | .app .lt as, _ => by
    apply isBoolR_app_of
    intro vs
    apply isBoolR_denOp c .lt vs (by intro f h; cases h) (by intro h; cases h)
    intro ι v hv
    match vs, hv with
    | [.n x, .n y], hv => simp [denOp] at hv; exact ⟨_, hv.symm⟩
  | .app .eq as, _ => by
    apply isBoolR_app_of
    intro vs
    apply isBoolR_denOp c .eq vs (by intro f h; cases h) (by intro h; cases h)
    intro ι v hv
    match vs, hv with
    | [.n x, .n y], hv => simp [denOp] at hv; exact ⟨_, hv.symm⟩
    | [.o x, .o y], hv => simp [denOp] at hv; exact ⟨_, hv.symm⟩
  | .app .iff _, h | .app (.ifun _) _, h | .app (.dot _) _, h | .app .plus _, h | .app .minus _, h | .app .times _, h
  | .app .div _, h | .app .always _, h | .app .sometime _, h | .app .sometimeBefore _, h | .app .sometimeAfter _, h
  | .app .atMostOnce _, h => by simp [boolWF] at h
  | .quant .ex vs b, _ => by simp only [eval]; exact existsLoop_isBool _ _
  | .quant .all vs b, _ => by simp only [eval]; exact forallLoop_isBool _ _

end UPVerif.FromPddl
