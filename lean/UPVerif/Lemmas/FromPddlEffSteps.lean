import UPVerif.Lemmas.FromPddlEffLeaf
/-!
Helper lemmas for C21, effects: the step functions of the two walks, branch by branch, and the inversion of the external
parser's effect grammar.
-/
namespace UPVerif.FromPddl
open UPVerif UPVerif.Expr UPVerif.Pddl

/-! ### inversion of the yield relations -/

theorem UYield.inv {E : REnv} {it : Pddl.EffItem} {rs : List Effect} (h : UYield E it rs) :
    ∃ es more r, Pddl.effStep E it = some (es, more) ∧ UYields E more r ∧ rs = es ++ r := by
  cases h with
  | mk h1 h2 => exact ⟨_, _, _, h1, h2, rfl⟩

theorem UYields.nil_inv {E : REnv} {rs : List Effect} (h : UYields E [] rs) : rs = [] := by
  cases h; rfl

theorem UYields.cons_inv {E : REnv} {it : Pddl.EffItem} {its : List Pddl.EffItem} {rs : List Effect}
    (h : UYields E (it :: its) rs) : ∃ r r2, UYield E it r ∧ UYields E its r2 ∧ rs = r ++ r2 := by
  cases h with
  | cons h1 h2 => exact ⟨_, _, h1, h2, rfl⟩

/-- a leaf of the first reader's walk -/
theorem UYield.leaf {E : REnv} {it : Pddl.EffItem} {rs es : List Effect} (h : UYield E it rs)
    (hs : Pddl.effStep E it = some (es, [])) : rs = es := by
  obtain ⟨es', more, r, h1, h2, rfl⟩ := h.inv
  rw [hs] at h1
  cases h1
  rw [h2.nil_inv]; simp

theorem UYield.node {E : REnv} {it : Pddl.EffItem} {rs : List Effect} {more : List Pddl.EffItem} (h : UYield E it rs)
    (hs : Pddl.effStep E it = some ([], more)) : UYields E more rs := by
  obtain ⟨es', more', r, h1, h2, rfl⟩ := h.inv
  rw [hs] at h1
  cases h1
  simpa using h2

section
variable {CE : CEnv} {hc : Bool} {ps : List (String × Ty)} {tc : Expr}

theorem AYield.inv_effect {it : EItem} {e : Effect} {rs : List Effect} (hs : effStep CE hc ps it = some (.effect e))
    (h : AYield CE hc ps tc it rs) : rs = [e] := by
  cases h with
  | effect h1 => rw [hs] at h1; cases h1; rfl
  | cost h1 => rw [hs] at h1; cases h1
  | push h1 _ => rw [hs] at h1; cases h1

theorem AYield.inv_cost {it : EItem} {c : Expr} {rs : List Effect} (hs : effStep CE hc ps it = some (.cost c))
    (h : AYield CE hc ps tc it rs) : rs = [costEff tc c] := by
  cases h with
  | effect h1 => rw [hs] at h1; cases h1
  | cost h1 => rw [hs] at h1; cases h1; rfl
  | push h1 _ => rw [hs] at h1; cases h1

theorem AYield.inv_push {it : EItem} {items : List EItem} {rs : List Effect} (hs : effStep CE hc ps it = some (.push items))
    (h : AYield CE hc ps tc it rs) : AYields CE hc ps tc items rs := by
  cases h with
  | effect h1 => rw [hs] at h1; cases h1
  | cost h1 => rw [hs] at h1; cases h1
  | push h1 h2 => rw [hs] at h1; cases h1; exact h2

theorem AYield.defined {it : EItem} {rs : List Effect} (h : AYield CE hc ps tc it rs) : ∃ o, effStep CE hc ps it = some o := by
  cases h with
  | effect h1 => exact ⟨_, h1⟩
  | cost h1 => exact ⟨_, h1⟩
  | push h1 _ => exact ⟨_, h1⟩

theorem AYields.nil_inv {rs : List Effect} (h : AYields CE hc ps tc [] rs) : rs = [] := by
  cases h; rfl

theorem AYields.cons_inv {it : EItem} {its : List EItem} {rs : List Effect} (h : AYields CE hc ps tc (it :: its) rs) :
    ∃ r r2, AYield CE hc ps tc it r ∧ AYields CE hc ps tc its r2 ∧ rs = r ++ r2 := by
  cases h with
  | cons h1 h2 => exact ⟨_, _, h1, h2, rfl⟩

end

/-! ### the first reader's step -/

theorem ustep_and (E : REnv) (rest : List Sexp) (c : Expr) (vs : List Var) :
    Pddl.effStep E ⟨.list (.atom "and" :: rest), c, vs⟩ = some ([], rest.map (fun s => ⟨s, c, vs⟩)) := by
  unfold Pddl.effStep; simp

theorem ustep_when (E : REnv) (cnd e : Sexp) (c : Expr) (vs : List Var) :
    Pddl.effStep E ⟨.list [.atom "when", cnd, e], c, vs⟩ =
      (readExpr E vs cnd).map (fun c' => (([] : List Effect), [(⟨e, c', vs⟩ : Pddl.EffItem)])) := by
  unfold Pddl.effStep; simp

theorem ustep_not (E : REnv) (x : Sexp) (c : Expr) (vs : List Var) :
    Pddl.effStep E ⟨.list [.atom "not", x], c, vs⟩ =
      (readExpr E vs x).bind (fun f => leafEffect ⟨.list [.atom "not", x], c, vs⟩ f Expr.ff .assign) := by
  unfold Pddl.effStep; simp

theorem ustep_forall (E : REnv) (vl : List Sexp) (e : Sexp) (c : Expr) (vs : List Var) :
    Pddl.effStep E ⟨.list [.atom "forall", .list vl, e], c, vs⟩ =
      if !vs.isEmpty then none
      else ((typedList true vl).bind (declVars E)).map (fun ws => (([] : List Effect), [(⟨e, c, ws⟩ : Pddl.EffItem)])) := by
  unfold Pddl.effStep
  simp only [String.reduceBEq, Bool.false_eq_true, if_false, beq_self_eq_true, if_true]
  split
  · rfl
  · cases (typedList true vl).bind (declVars E) <;> rfl

/-- the kinds of numeric effects -/
def assignKind? (h : String) : Option EffKind :=
  if h == "assign" then some .assign else if h == "increase" then some .increase
  else if h == "decrease" then some .decrease else none

theorem ustep_assign (E : REnv) (h : String) (k : EffKind) (hk : assignKind? h = some k) (rest : List Sexp) (c : Expr) (vs : List Var) :
    Pddl.effStep E ⟨.list (.atom h :: rest), c, vs⟩ = binEffect E ⟨.list (.atom h :: rest), c, vs⟩ k rest := by
  unfold assignKind? at hk
  unfold Pddl.effStep
  split at hk
  · rename_i h1
    have : h = "assign" := by simpa using h1
    subst this; cases hk; simp
  · split at hk
    · rename_i h1
      have : h = "increase" := by simpa using h1
      subst this; cases hk; simp
    · split at hk
      · rename_i h1
        have : h = "decrease" := by simpa using h1
        subst this; cases hk; simp
      · cases hk

/-- heads the first reader's step gives a meaning of their own -/
def isEffHead (h : String) : Bool :=
  h == "and" || h == "when" || h == "not" || h == "assign" || h == "increase" || h == "decrease" || h == "forall"

theorem ustep_atom (E : REnv) (h : String) (hh : isEffHead h = false) (rest : List Sexp) (c : Expr) (vs : List Var) :
    Pddl.effStep E ⟨.list (.atom h :: rest), c, vs⟩ =
      (readList E vs (.atom h :: rest)).bind (fun f => leafEffect ⟨.list (.atom h :: rest), c, vs⟩ f Expr.tt .assign) := by
  unfold isEffHead at hh
  simp only [Bool.or_eq_false_iff] at hh
  obtain ⟨⟨⟨⟨⟨⟨h1, h2⟩, h3⟩, h4⟩, h5⟩, h6⟩, h7⟩ := hh
  unfold Pddl.effStep
  simp [h1, h2, h3, h4, h5, h6, h7]

/-! ### the external parser's effect grammar -/

/-- the tree is an effect for one of the four effect non-terminals of the grammar -/
def AstEff (C : PCtx) (t : Sexp) (φ : Form) : Prop :=
  astEffect C t = some φ ∨ astCEffect C t = some φ ∨ astCondEffect C t = some φ ∨ astPEffect C t = some φ

theorem astPEffect_plain (C : PCtx) (h : String) (rest : List Sexp) (hk : assignOp? h = none) (hn : h ≠ "not") :
    astPEffect C (.list (.atom h :: rest)) = astAtom C (.list (.atom h :: rest)) := by
  unfold astPEffect
  split
  · rename_i a heq
    simp only [Sexp.list.injEq, List.cons.injEq, Sexp.atom.injEq] at heq
    exact absurd heq.1 hn
  · rename_i h' rest' heq
    simp only [Sexp.list.injEq, List.cons.injEq, Sexp.atom.injEq] at heq
    obtain ⟨rfl, rfl⟩ := heq
    simp [hk]
  · rename_i hno
    exact absurd rfl (hno h rest)

theorem assignOp_ne_not {h : String} {k : OpK} (hk : assignOp? h = some k) : h ≠ "not" := by
  intro e; subst e; simp [assignOp?] at hk

theorem astPEffect_assign (C : PCtx) (h : String) (k : OpK) (hk : assignOp? h = some k) (f v : Sexp) :
    astPEffect C (.list [.atom h, f, v]) = (astFhead C f).bind (fun x => (astFexp C v).map (fun y => .op k [x, y])) := by
  unfold astPEffect
  split
  · rename_i a heq
    simp only [Sexp.list.injEq, List.cons.injEq, Sexp.atom.injEq] at heq
    exact absurd heq.1 (assignOp_ne_not hk)
  · rename_i h' rest' heq
    simp only [Sexp.list.injEq, List.cons.injEq, Sexp.atom.injEq] at heq
    obtain ⟨rfl, rfl⟩ := heq
    simp only [hk]
    cases astFhead C f <;> cases astFexp C v <;> rfl
  · rename_i hno
    exact absurd rfl (hno h [f, v])

theorem astPEffect_assign_other (C : PCtx) (h : String) (k : OpK) (hk : assignOp? h = some k) (rest : List Sexp)
    (hl : rest.length ≠ 2) : astPEffect C (.list (.atom h :: rest)) = none := by
  unfold astPEffect
  split
  · rename_i a heq
    simp only [Sexp.list.injEq, List.cons.injEq, Sexp.atom.injEq] at heq
    exact absurd heq.1 (assignOp_ne_not hk)
  · rename_i h' rest' heq
    simp only [Sexp.list.injEq, List.cons.injEq, Sexp.atom.injEq] at heq
    obtain ⟨rfl, rfl⟩ := heq
    simp only [hk]
    match rest, hl with
    | [], _ => rfl
    | [_], _ => rfl
    | _ :: _ :: _ :: _, _ => rfl
  · rfl

theorem astPEffect_not (C : PCtx) (a : Sexp) : astPEffect C (.list [.atom "not", a]) = (astAtom C a).map Form.not := by
  unfold astPEffect; rfl

end UPVerif.FromPddl
