import UPVerif.Core.Compile.Common
import UPVerif.Lemmas.Simulation
import UPVerif.Lemmas.CompileBasic
/-!
The transition system of a problem (parameterless fragment, see Core/Compile/Common.lean) and the
bookkeeping lemmas about compiled action lists that every per-compiler instantiation of the simulation
frame needs.
-/
namespace UPVerif.Compile
open UPVerif UPVerif.Expr UPVerif.Sim UPVerif.Spec UPVerif.Simulation

/-- the transition system of the problem of `W`: actions are identified by their position -/
def tsOf (W : World) : TS St Nat where
  init := initOf W
  step g i := match W.P.actions[i]? with
    | some a => stepAct W g a
    | none => none
  goal g := goalOK W g = true

/-- the same world around another (compiled) problem -/
def withProblem (W : World) (Q : Problem) : World := { W with P := Q }

/-- map-back of compiled action positions -/
def backOf (c : Compiled) : Nat → Option Nat := fun i => (c.back[i]?).join

theorem tsOf_step {W : World} {g g' : St} {i : Nat} (h : (tsOf W).step g i = some g') :
    ∃ a, W.P.actions[i]? = some a ∧ stepAct W g a = some g' := by
  unfold tsOf at h
  dsimp only at h
  split at h
  · rename_i a ha; exact ⟨a, ha, h⟩
  · cases h

theorem tsOf_step_intro {W : World} {g : St} {i : Nat} {a : Action} (ha : W.P.actions[i]? = some a) :
    (tsOf W).step g i = stepAct W g a := by
  unfold tsOf
  dsimp only
  rw [ha]

theorem mem_zip_range {α : Type} : ∀ (l : List α) (k : Nat) (j : Nat) (a : α),
    (j, a) ∈ (List.range' k l.length).zip l → k ≤ j ∧ l[j - k]? = some a
  | [], k, j, a, h => by simp at h
  | x :: xs, k, j, a, h => by
    simp only [List.length_cons, List.range'_succ, List.zip_cons_cons, List.mem_cons, Prod.mk.injEq] at h
    rcases h with ⟨rfl, rfl⟩ | h
    · simp
    · obtain ⟨h1, h2⟩ := mem_zip_range xs (k + 1) j a h
      refine ⟨by omega, ?_⟩
      have : j - k = (j - (k + 1)) + 1 := by omega
      rw [this, List.getElem?_cons_succ]; exact h2

theorem mem_zip_range0 {α : Type} (l : List α) (j : Nat) (a : α) (h : (j, a) ∈ (List.range l.length).zip l) :
    l[j]? = some a := by
  rw [List.range_eq_range'] at h
  have := (mem_zip_range l 0 j a h).2
  simpa using this

theorem zip_range_mem {α : Type} : ∀ (l : List α) (k : Nat) (j : Nat) (a : α),
    l[j]? = some a → (j + k, a) ∈ (List.range' k l.length).zip l
  | [], k, j, a, h => by simp at h
  | x :: xs, k, 0, a, h => by
    simp only [List.getElem?_cons_zero, Option.some.injEq] at h
    subst h
    simp [List.range'_succ]
  | x :: xs, k, j + 1, a, h => by
    simp only [List.getElem?_cons_succ] at h
    have := zip_range_mem xs (k + 1) j a h
    simp only [List.length_cons, List.range'_succ, List.zip_cons_cons, List.mem_cons, Prod.mk.injEq]
    right
    have e : j + 1 + k = j + (k + 1) := by omega
    rw [e]; exact this

theorem zip_range_mem0 {α : Type} (l : List α) (j : Nat) (a : α) (h : l[j]? = some a) :
    (j, a) ∈ (List.range l.length).zip l := by
  rw [List.range_eq_range']
  simpa using zip_range_mem l 0 j a h

/-- position-wise reading of a compiled action list given as a list of (action, origin) pairs -/
theorem getElem?_pairs {out : List (Action × Option Nat)} {i : Nat} {a' : Action}
    (h : (out.map (·.1))[i]? = some a') : ∃ b, out[i]? = some (a', b) ∧ ((out.map (·.2))[i]?).join = b := by
  rw [List.getElem?_map] at h
  cases ho : out[i]? with
  | none => rw [ho] at h; cases h
  | some ab =>
    rw [ho] at h
    simp only [Option.map_some, Option.some.injEq] at h
    refine ⟨ab.2, ?_, ?_⟩
    · rw [← h]
    · rw [List.getElem?_map, ho]; rfl

theorem pairs_of_mem {out : List (Action × Option Nat)} {a' : Action} {b : Option Nat} (h : (a', b) ∈ out) :
    ∃ i : Nat, (out.map (·.1))[i]? = some a' ∧ ((out.map (·.2))[i]?).join = b := by
  obtain ⟨i, hi, he⟩ := List.getElem_of_mem h
  refine ⟨i, ?_, ?_⟩
  · rw [List.getElem?_map, List.getElem?_eq_getElem hi, he]; rfl
  · rw [List.getElem?_map, List.getElem?_eq_getElem hi, he]; rfl

end UPVerif.Compile

namespace UPVerif.Compile
open UPVerif UPVerif.Expr UPVerif.Sim UPVerif.Spec UPVerif.Simulation

/-! ### what the semantics reads of a problem

`succOf`, `initOf`, `goalOK` read the objects and types (quantifier / forall domains), the fluents
(defaults, bounded types), the explicit initial values, the trajectory constraints (invariants) and the
goals — not the action list. -/

theorem removeQuantifiers_congr {Q P : Problem} (h1 : tyDomain Q = tyDomain P) (h2 : objExpr Q = objExpr P) :
    (∀ e, removeQuantifiers Q e = removeQuantifiers P e) ∧
    (∀ es, removeQuantifiersList Q es = removeQuantifiersList P es) := by
  have key : ∀ n, (∀ e, e.size ≤ n → removeQuantifiers Q e = removeQuantifiers P e) ∧
      (∀ es, Expr.sizeList es ≤ n → removeQuantifiersList Q es = removeQuantifiersList P es) := by
    intro n
    induction n with
    | zero =>
      constructor
      · intro e he; cases e <;> simp [Expr.size] at he
      · intro es he
        cases es with
        | nil => rfl
        | cons x xs =>
          simp [Expr.sizeList] at he
          cases x <;> simp [Expr.size] at he
    | succ n ih =>
      constructor
      · intro e he
        cases e with
        | leaf l => rfl
        | app op args =>
          simp only [Expr.size] at he
          simp only [removeQuantifiers]
          rw [ih.2 args (by omega)]
        | quant q vs b =>
          simp only [Expr.size] at he
          simp only [removeQuantifiers]
          rw [ih.1 b (by omega), h1, h2]
      · intro es he
        cases es with
        | nil => rfl
        | cons x xs =>
          simp only [Expr.sizeList] at he
          have hx : 1 ≤ x.size := by cases x <;> simp [Expr.size] <;> omega
          simp only [removeQuantifiersList]
          have e1 : removeQuantifiers Q x = removeQuantifiers P x := by
            cases x with
            | leaf l => rfl
            | app op args =>
              simp only [Expr.size] at he
              simp only [removeQuantifiers]
              rw [ih.2 args (by omega)]
            | quant q vs b =>
              simp only [Expr.size] at he
              simp only [removeQuantifiers]
              rw [ih.1 b (by omega), h1, h2]
          rw [e1, ih.2 xs (by omega)]
  exact ⟨fun e => (key e.size).1 e (Nat.le_refl _), fun es => (key (Expr.sizeList es)).2 es (Nat.le_refl _)⟩

/-- `Q` has the signature of `P`: same types, objects, fluents -/
structure SameSig (Q P : Problem) : Prop where
  types : Q.types = P.types
  objects : Q.objects = P.objects
  fluents : Q.fluents = P.fluents

theorem SameSig.tyDomain {Q P : Problem} (h : SameSig Q P) : tyDomain Q = tyDomain P := by
  funext t
  cases t <;> simp [Sim.tyDomain, Problem.objectsOf, h.types, h.objects]

theorem SameSig.objExpr {Q P : Problem} (h : SameSig Q P) : objExpr Q = objExpr P := by
  funext o; simp [Sim.objExpr, h.objects]

theorem SameSig.objectsOf {Q P : Problem} (h : SameSig Q P) : Q.objectsOf = P.objectsOf := by
  funext t; simp [Problem.objectsOf, h.types, h.objects]

theorem SameSig.ctxOf {Q P : Problem} (h : SameSig Q P) (W : World) (hW : W.P = P) (g : St) :
    ctxOf (withProblem W Q) g = ctxOf W g := by
  unfold Compile.ctxOf withProblem
  simp [h.objectsOf, hW]

theorem SameSig.expandEffs {Q P : Problem} (h : SameSig Q P) (E : List Effect) : expandEffs Q E = expandEffs P E := by
  unfold Compile.expandEffs
  congr 1
  funext e
  unfold expandEffect
  rw [h.tyDomain, h.objExpr]

theorem SameSig.allFluentExps {Q P : Problem} (h : SameSig Q P) (f : FluentRef) :
    allFluentExps Q f = allFluentExps P f := by
  unfold Sim.allFluentExps
  rw [h.tyDomain, h.objExpr]

/-- same signature and same trajectory constraints ⇒ same invariants -/
theorem SameSig.invariants {Q P : Problem} (h : SameSig Q P) (W : World) (hW : W.P = P) (ht : Q.traj = P.traj) :
    invariants (withProblem W Q) = invariants W := by
  unfold Sim.invariants withProblem
  dsimp only
  rw [hW]
  have e1 : stateInvariants Q = stateInvariants P := by unfold Sim.stateInvariants; rw [ht]
  rw [e1, h.fluents]
  congr 1
  · apply List.map_congr_left
    intro si _
    rw [(removeQuantifiers_congr h.tyDomain h.objExpr).1 si]
  · congr 1
    funext d
    rw [h.allFluentExps]

theorem SameSig.invOK {Q P : Problem} (h : SameSig Q P) (W : World) (hW : W.P = P) (ht : Q.traj = P.traj)
    (c : EvalCtx) : invOK (withProblem W Q) c = invOK W c := by
  unfold Spec.invOK
  rw [h.invariants W hW ht]

theorem SameSig.succOf {Q P : Problem} (h : SameSig Q P) (W : World) (hW : W.P = P) (ht : Q.traj = P.traj)
    (g : St) (pre : List Expr) (E : List Effect) : succOf (withProblem W Q) g pre E = succOf W g pre E := by
  unfold Compile.succOf
  dsimp only
  rw [h.ctxOf W hW g]
  have : ∀ g', Compile.ctxOf (withProblem W Q) g' = Compile.ctxOf W g' := fun g' => h.ctxOf W hW g'
  simp only [this, h.invOK W hW ht]

theorem SameSig.stepAct {Q P : Problem} (h : SameSig Q P) (W : World) (hW : W.P = P) (ht : Q.traj = P.traj)
    (g : St) (a : Action) : stepAct (withProblem W Q) g a = stepAct W g a := by
  unfold Compile.stepAct
  rw [h.succOf W hW ht]
  have : (withProblem W Q).P = Q := rfl
  rw [this, h.expandEffs, ← hW]

theorem defaultOf_congr {Q P : Problem} (h : Q.fluents = P.fluents) (f : FluentRef) : defaultOf Q f = defaultOf P f := by
  unfold defaultOf; rw [h]

theorem SameSig.initOf {Q P : Problem} (h : SameSig Q P) (W : World) (hW : W.P = P) (ht : Q.traj = P.traj)
    (hi : Q.init = P.init) : initOf (withProblem W Q) = initOf W := by
  unfold Compile.initOf
  have e1 : initialState? (withProblem W Q).P = initialState? W.P := by
    unfold initialState?
    have : (withProblem W Q).P = Q := rfl
    rw [this, hi, hW]
  rw [e1]
  cases initialState? W.P with
  | none => rfl
  | some s0 =>
    dsimp only
    have e2 : s0.get (withProblem W Q).P = s0.get W.P := by
      funext k
      unfold SimState.get
      have : (withProblem W Q).P = Q := rfl
      rw [this, defaultOf_congr h.fluents, hW]
    rw [e2, h.ctxOf W hW, h.invOK W hW ht]

theorem SameSig.goalOK {Q P : Problem} (h : SameSig Q P) (W : World) (hW : W.P = P) (hg : Q.goals = P.goals)
    (g : St) : goalOK (withProblem W Q) g = goalOK W g := by
  unfold Compile.goalOK holdsG
  have : (withProblem W Q).P = Q := rfl
  rw [this, hg, hW]
  simp only [h.ctxOf W hW]

/-! ### executable validity (for the kernel-checked examples) -/

def validB (W : World) (π : List Nat) : Bool :=
  match initOf W with
  | none => false
  | some g =>
    match (tsOf W).run g π with
    | none => false
    | some gf => goalOK W gf

theorem validB_sound {W : World} {π : List Nat} (h : validB W π = true) : (tsOf W).Valid π := by
  unfold validB at h
  cases hi : initOf W with
  | none => rw [hi] at h; cases h
  | some g =>
    rw [hi] at h
    dsimp only at h
    cases hr : (tsOf W).run g π with
    | none => rw [hr] at h; cases h
    | some gf =>
      rw [hr] at h
      exact ⟨g, gf, hi, hr, h⟩

theorem validB_complete {W : World} {π : List Nat} (h : (tsOf W).Valid π) : validB W π = true := by
  obtain ⟨g, gf, hi, hr, hg⟩ := h
  unfold validB
  have : initOf W = some g := hi
  rw [this]
  dsimp only
  rw [hr]
  exact hg

/-- the transition system of ALL instances (lifted actions): used only to state the full properties -/
def tsLifted (W : World) : TS St (Nat × List String) where
  init := initOf W
  step g ia := match W.P.actions[ia.1]? with
    | some a => stepInst W g a ia.2
    | none => none
  goal g := goalOK W g = true

def backLifted (c : Compiled) : Nat × List String → Option (Nat × List String) :=
  fun ia => (backOf c ia.1).map (fun j => (j, ia.2))

end UPVerif.Compile
