import UPVerif.Core.D2PPlan
import Mathlib.Tactic.Linarith
import Mathlib.Algebra.Order.Field.Rat
/-! Helper lemmas for `Props/C29.lean` (durative-to-processes plan conversions). -/
namespace UPVerif.D2P

/-- the compiled start event of an original instance -/
def toStart (x : TA) : CA := ⟨x.t, .start x.act, x.ps⟩

/-- the duration `_back_plan_to_plan` attaches to a start event of action `a` (l. 1041-1056):
    `some none` for an instantaneous action, `some (some d)` for a durative one whose lower bound
    evaluates to `d`, `none` when the bound does not evaluate -/
def declDur (P : Problem) (a : ADecl) (ps : List PVal) : Option (Option Rat) :=
  match a.kind with
  | .inst => some none
  | .dur lo _ _ _ _ =>
    match evalD P.sfl ps lo with
    | some d => some (some d)
    | none => none

/-- the timed instance a group entry stands for -/
def mkTA (k : Key) (e : Entry) : TA := ⟨e.1, k.1, k.2, e.2⟩

/-- all entries of the groups, in the order of `chain(*new_actions.values())` -/
def flat : Groups → List TA
  | [] => []
  | (k, es) :: g => es.map (mkTA k) ++ flat g

/-! ### sorting -/

def insertTA (x : TA) : List TA → List TA
  | [] => [x]
  | y :: ys => if x.t ≤ y.t then x :: y :: ys else y :: insertTA x ys

def sortTA : List TA → List TA
  | [] => []
  | x :: xs => insertTA x (sortTA xs)

theorem insertTA_perm (x : TA) (l : List TA) : (insertTA x l).Perm (x :: l) := by
  induction l with
  | nil => exact List.Perm.refl _
  | cons y ys ih =>
    unfold insertTA
    split
    · exact List.Perm.refl _
    · exact ((List.Perm.cons y ih).trans (List.Perm.swap x y ys))

theorem sortTA_perm (l : List TA) : (sortTA l).Perm l := by
  induction l with
  | nil => exact List.Perm.refl _
  | cons x xs ih => exact (insertTA_perm x _).trans (List.Perm.cons x ih)

theorem insertSorted_perm (c : CA) (l : List CA) : (insertSorted c l).Perm (c :: l) := by
  induction l with
  | nil => exact List.Perm.refl _
  | cons y ys ih =>
    unfold insertSorted
    split
    · exact List.Perm.refl _
    · exact ((List.Perm.cons y ih).trans (List.Perm.swap c y ys))

theorem sortByTime_perm (l : List CA) : (sortByTime l).Perm l := by
  induction l with
  | nil => exact List.Perm.refl _
  | cons x xs ih => exact (insertSorted_perm x _).trans (List.Perm.cons x ih)

theorem insertSorted_map_toStart (x : TA) (l : List TA) :
    insertSorted (toStart x) (l.map toStart) = (insertTA x l).map toStart := by
  induction l with
  | nil => rfl
  | cons y ys ih =>
    simp only [List.map, insertSorted, insertTA]
    by_cases h : x.t ≤ y.t
    · simp [toStart, h]
    · have h' : ¬ (toStart x).t ≤ (toStart y).t := h
      simp only [h', h, if_false, List.map]
      rw [ih]

theorem sortByTime_map_toStart (l : List TA) :
    sortByTime (l.map toStart) = (sortTA l).map toStart := by
  induction l with
  | nil => rfl
  | cons x xs ih =>
    simp only [List.map, sortByTime, sortTA]
    rw [ih, insertSorted_map_toStart]

/-! ### groups -/

theorem flat_appendTo (k : Key) (e : Entry) (g : Groups) :
    (flat (appendTo k e g)).Perm (flat g ++ [mkTA k e]) := by
  induction g with
  | nil => simp [appendTo, flat]
  | cons h g ih =>
    obtain ⟨k', es⟩ := h
    unfold appendTo
    split
    · next hk =>
      subst hk
      simp only [flat, List.map_append, List.map, List.append_assoc]
      exact List.Perm.append_left _ List.perm_append_comm
    · simp only [flat, List.append_assoc]
      exact List.Perm.append_left _ ih

/-- every entry of every group carries a duration iff its action is durative -/
def GroupsOK (P : Problem) (g : Groups) : Prop :=
  ∀ k es, (k, es) ∈ g → ∃ a, P.lookup k.1 = some a ∧ ∀ e ∈ es, a.kind.isInst = e.2.isNone

theorem groupsOK_appendTo {P : Problem} {g : Groups} (k : Key) (e : Entry) (a : ADecl)
    (hg : GroupsOK P g) (ha : P.lookup k.1 = some a) (he : a.kind.isInst = e.2.isNone) :
    GroupsOK P (appendTo k e g) := by
  induction g with
  | nil =>
    intro k' es hmem
    simp only [appendTo, List.mem_singleton, Prod.mk.injEq] at hmem
    obtain ⟨rfl, rfl⟩ := hmem
    exact ⟨a, ha, by intro e' he'; simp only [List.mem_singleton] at he'; subst he'; exact he⟩
  | cons h g ih =>
    obtain ⟨k0, es0⟩ := h
    have hg' : GroupsOK P g := fun k' es' hm => hg k' es' (List.mem_cons_of_mem _ hm)
    intro k' es hmem
    unfold appendTo at hmem
    split at hmem
    · next hk =>
      rcases List.mem_cons.1 hmem with h1 | h1
      · simp only [Prod.mk.injEq] at h1
        obtain ⟨rfl, rfl⟩ := h1
        obtain ⟨a', ha', hall⟩ := hg _ _ (List.mem_cons_self ..)
        rw [hk, ha] at ha'
        cases ha'
        refine ⟨a, hk ▸ ha, ?_⟩
        intro e' he'
        rcases List.mem_append.1 he' with h2 | h2
        · exact hall e' h2
        · simp only [List.mem_singleton] at h2; subst h2; exact he
      · exact hg k' es (List.mem_cons_of_mem _ h1)
    · rcases List.mem_cons.1 hmem with h1 | h1
      · simp only [Prod.mk.injEq] at h1
        obtain ⟨rfl, rfl⟩ := h1
        exact hg _ _ (List.mem_cons_self ..)
      · exact ih hg' k' es h1

theorem finalizeEntries_ok (isInst : Bool) (n : String) (ps : List PVal) (es : List Entry)
    (h : ∀ e ∈ es, isInst = e.2.isNone) :
    finalizeEntries isInst n ps es = .ok (es.map (mkTA (n, ps))) := by
  induction es with
  | nil => rfl
  | cons e es ih =>
    obtain ⟨t, d⟩ := e
    have h1 : isInst = d.isNone := h (t, d) (List.mem_cons_self ..)
    have h2 := ih (fun e he => h e (List.mem_cons_of_mem _ he))
    unfold finalizeEntries
    rw [h2]
    have : (isInst == d.isSome) = false := by
      subst h1
      cases d <;> rfl
    simp [this, mkTA]

theorem finalize_ok {P : Problem} {g : Groups} (hg : GroupsOK P g) : finalize P g = .ok (flat g) := by
  induction g with
  | nil => rfl
  | cons h g ih =>
    obtain ⟨⟨n, ps⟩, es⟩ := h
    obtain ⟨a, ha, hall⟩ := hg (n, ps) es (List.mem_cons_self ..)
    have hg' : GroupsOK P g := fun k' es' hm => hg k' es' (List.mem_cons_of_mem _ hm)
    unfold finalize
    simp only at ha
    rw [ha]
    simp only
    rw [finalizeEntries_ok _ n ps es hall, ih hg']
    rfl

/-! ### forward on fixed-duration plans -/

theorem forwardStep_fixed {P : Problem} {x : TA} {a : ADecl}
    (ha : P.lookup x.act = some a) (he : endDelay a = none) :
    forwardStep P x = .ok [toStart x] := by
  simp [forwardStep, ha, he, toStart]

theorem forward_fixed {P : Problem} {π : List TA}
    (h : ∀ x ∈ π, ∃ a, P.lookup x.act = some a ∧ endDelay a = none) :
    forward P π = .ok (π.map toStart) := by
  induction π with
  | nil => rfl
  | cons x xs ih =>
    obtain ⟨a, ha, he⟩ := h x (List.mem_cons_self ..)
    have ih' := ih (fun y hy => h y (List.mem_cons_of_mem _ hy))
    simp [forward, forwardStep_fixed ha he, ih']

/-! ### back on start events of fixed-duration instances -/

theorem endDelay_none_not_variable {n : String} {lo hi : DExpr} {lopen ropen : Bool} {ts : List Timing}
    (he : endDelay ⟨n, .dur lo hi lopen ropen ts⟩ = none) : variableDuration lo hi lopen ropen = false := by
  unfold endDelay at he
  simp only at he
  cases hv : variableDuration lo hi lopen ropen
  · rfl
  · rw [hv] at he
    simp only [if_true] at he
    split at he <;> cases he

theorem backStep_start_fixed {P : Problem} {x : TA} {a : ADecl} (st : Groups)
    (ha : P.lookup x.act = some a) (he : endDelay a = none) (hd : declDur P a x.ps = some x.dur) :
    backStep P st (toStart x) = .ok (appendTo (x.act, x.ps) (x.t, x.dur) st) := by
  obtain ⟨n, kind⟩ := a
  cases kind with
  | inst =>
    simp only [declDur, Option.some.injEq] at hd
    simp [backStep, toStart, ha, ← hd]
  | dur lo hi lopen ropen ts =>
    have hv := endDelay_none_not_variable he
    simp only [declDur] at hd
    cases hev : evalD P.sfl x.ps lo with
    | none => rw [hev] at hd; cases hd
    | some d =>
      rw [hev] at hd
      simp only [Option.some.injEq] at hd
      simp [backStep, toStart, ha, hv, hev, ← hd]

theorem isInst_of_declDur {P : Problem} {a : ADecl} {ps : List PVal} {d : Option Rat}
    (hd : declDur P a ps = some d) : a.kind.isInst = d.isNone := by
  obtain ⟨n, kind⟩ := a
  cases kind with
  | inst =>
    simp only [declDur, Option.some.injEq] at hd
    subst hd; rfl
  | dur lo hi lopen ropen ts =>
    simp only [declDur] at hd
    split at hd
    · simp only [Option.some.injEq] at hd
      subst hd; rfl
    · cases hd

/-- the fold of `_back_plan_to_plan` over start events of fixed-duration instances never fails,
    keeps the groups well formed and adds exactly these instances -/
theorem backFold_fixed {P : Problem} (L : List TA) (st : Groups)
    (h : ∀ x ∈ L, ∃ a, P.lookup x.act = some a ∧ endDelay a = none ∧ declDur P a x.ps = some x.dur)
    (hst : GroupsOK P st) :
    ∃ st', backFold P st (L.map toStart) = .ok st' ∧ GroupsOK P st' ∧ (flat st').Perm (flat st ++ L) := by
  induction L generalizing st with
  | nil => exact ⟨st, rfl, hst, by simp⟩
  | cons x xs ih =>
    obtain ⟨a, ha, he, hd⟩ := h x (List.mem_cons_self ..)
    have hstep := backStep_start_fixed st ha he hd
    have hok : GroupsOK P (appendTo (x.act, x.ps) (x.t, x.dur) st) :=
      groupsOK_appendTo (x.act, x.ps) (x.t, x.dur) a hst ha (isInst_of_declDur hd)
    obtain ⟨st', h1, h2, h3⟩ := ih _ (fun y hy => h y (List.mem_cons_of_mem _ hy)) hok
    refine ⟨st', ?_, h2, ?_⟩
    · simp only [List.map, backFold, hstep]
      exact h1
    · refine h3.trans ?_
      have hp := flat_appendTo (x.act, x.ps) (x.t, x.dur) st
      have hx : mkTA (x.act, x.ps) (x.t, x.dur) = x := rfl
      rw [hx] at hp
      have := List.Perm.append_right xs hp
      simpa [List.append_assoc] using this

theorem inverse_fixed_raw {P : Problem} {π : List TA}
    (h : ∀ x ∈ π, ∃ a, P.lookup x.act = some a ∧ endDelay a = none ∧ declDur P a x.ps = some x.dur) :
    ∃ cs π', forward P π = .ok cs ∧ back P cs = .ok π' ∧ π'.Perm π := by
  have hf := forward_fixed (P := P) (π := π) (fun x hx => by
    obtain ⟨a, ha, he, _⟩ := h x hx; exact ⟨a, ha, he⟩)
  have hs : ∀ x ∈ sortTA π, ∃ a, P.lookup x.act = some a ∧ endDelay a = none ∧ declDur P a x.ps = some x.dur :=
    fun x hx => h x ((sortTA_perm π).mem_iff.1 hx)
  obtain ⟨st', h1, h2, h3⟩ := backFold_fixed (P := P) (sortTA π) [] hs (by intro k es hm; cases hm)
  refine ⟨π.map toStart, flat st', hf, ?_, ?_⟩
  · unfold back
    rw [sortByTime_map_toStart, h1]
    exact finalize_ok h2
  · simpa [flat] using h3.trans (by simpa [flat] using sortTA_perm π)

/-! ### end events of the forward plan -/

theorem forwardStep_mem {P : Problem} {x : TA} {h : List CA} (hs : forwardStep P x = .ok h) (c : CA)
    (hc : c ∈ h) :
    (c = toStart x) ∨
    (∃ a δ d, P.lookup x.act = some a ∧ endDelay a = some δ ∧ x.dur = some d ∧ 0 < d + δ ∧ d + δ ≤ d ∧
      c = ⟨x.t + (d + δ), .fend x.act, x.ps⟩) := by
  unfold forwardStep at hs
  split at hs
  · cases hs
  · next a ha =>
    split at hs
    · cases hs
      simp only [List.mem_singleton] at hc
      exact Or.inl hc
    · next δ hδ =>
      split at hs
      · cases hs
      · next d hd =>
        split at hs
        · next hcond =>
          cases hs
          simp only [List.mem_cons, List.not_mem_nil, or_false] at hc
          rcases hc with rfl | rfl
          · exact Or.inl rfl
          · exact Or.inr ⟨a, δ, d, ha, hδ, hd, hcond.1, hcond.2, rfl⟩
        · cases hs

theorem forward_cons_ok {P : Problem} {x : TA} {xs : List TA} {cs : List CA}
    (h : forward P (x :: xs) = .ok cs) :
    ∃ hd tl, forwardStep P x = .ok hd ∧ forward P xs = .ok tl ∧ cs = hd ++ tl := by
  unfold forward at h
  split at h
  · cases h
  · next hd hhd =>
    split at h
    · cases h
    · next tl htl =>
      cases h
      exact ⟨hd, tl, hhd, htl, rfl⟩

theorem forward_mem {P : Problem} {π : List TA} {cs : List CA} (h : forward P π = .ok cs) (c : CA)
    (hc : c ∈ cs) :
    ∃ x ∈ π, (c = toStart x) ∨
      (∃ a δ d, P.lookup x.act = some a ∧ endDelay a = some δ ∧ x.dur = some d ∧ 0 < d + δ ∧ d + δ ≤ d ∧
        c = ⟨x.t + (d + δ), .fend x.act, x.ps⟩) := by
  induction π generalizing cs with
  | nil =>
    simp only [forward] at h
    cases h
    cases hc
  | cons x xs ih =>
    obtain ⟨hd, tl, h1, h2, rfl⟩ := forward_cons_ok h
    rcases List.mem_append.1 hc with hc | hc
    · exact ⟨x, List.mem_cons_self .., forwardStep_mem h1 c hc⟩
    · obtain ⟨y, hy, hr⟩ := ih h2 hc
      exact ⟨y, List.mem_cons_of_mem _ hy, hr⟩

theorem end_inside_raw {P : Problem} {π : List TA} {cs : List CA} (h : forward P π = .ok cs) (c : CA)
    (hc : c ∈ cs) (n : String) (hn : c.act = .fend n) :
    ∃ x ∈ π, ∃ a d, x.act = n ∧ x.ps = c.ps ∧ x.dur = some d ∧ P.lookup n = some a ∧ (endDelay a).isSome ∧
      x.t < c.t ∧ c.t ≤ x.t + d := by
  obtain ⟨x, hx, hr⟩ := forward_mem h c hc
  rcases hr with rfl | ⟨a, δ, d, ha, hδ, hd, h1, h2, rfl⟩
  · simp [toStart] at hn
  · simp only [CAct.fend.injEq] at hn
    subst hn
    refine ⟨x, hx, a, d, rfl, rfl, hd, ha, by simp [hδ], ?_, ?_⟩
    · show x.t < x.t + (d + δ)
      linarith
    · show x.t + (d + δ) ≤ x.t + d
      linarith

theorem forward_starts_raw {P : Problem} {π : List TA} {cs : List CA} (h : forward P π = .ok cs) :
    cs.filter (fun c => match c.act with | .start _ => true | _ => false) = π.map toStart := by
  induction π generalizing cs with
  | nil =>
    simp only [forward] at h
    cases h
    rfl
  | cons x xs ih =>
    obtain ⟨hd, tl, h1, h2, rfl⟩ := forward_cons_ok h
    rw [List.filter_append, ih h2]
    have : hd.filter (fun c => match c.act with | .start _ => true | _ => false) = [toStart x] := by
      unfold forwardStep at h1
      split at h1
      · cases h1
      · split at h1
        · cases h1; rfl
        · split at h1
          · cases h1
          · split at h1
            · cases h1; rfl
            · cases h1
    rw [this]
    rfl

theorem forward_total_raw {P : Problem} {π : List TA}
    (h : ∀ x ∈ π, ∃ a, P.lookup x.act = some a ∧
      ∀ δ, endDelay a = some δ → ∃ d, x.dur = some d ∧ 0 < d + δ ∧ δ ≤ 0) :
    ∃ cs, forward P π = .ok cs := by
  induction π with
  | nil => exact ⟨[], rfl⟩
  | cons x xs ih =>
    obtain ⟨tl, htl⟩ := ih (fun y hy => h y (List.mem_cons_of_mem _ hy))
    obtain ⟨a, ha, hδ⟩ := h x (List.mem_cons_self ..)
    have : ∃ hd, forwardStep P x = .ok hd := by
      cases he : endDelay a with
      | none => exact ⟨_, forwardStep_fixed ha he⟩
      | some δ =>
        obtain ⟨d, hd, h1, h2⟩ := hδ δ he
        have hc : 0 < d + δ ∧ d + δ ≤ d := ⟨h1, by linarith⟩
        refine ⟨[⟨x.t, .start x.act, x.ps⟩, ⟨x.t + (d + δ), .fend x.act, x.ps⟩], ?_⟩
        simp only [forwardStep, ha, he, hd]
        rw [if_pos hc]
    obtain ⟨hd, hhd⟩ := this
    exact ⟨hd ++ tl, by simp [forward, hhd, htl]⟩

/-- the first end-relative timing is not after the end when no timing is -/
theorem firstEndTiming_nonpos (ts : List Timing) (acc : Option Rat)
    (hts : ∀ t ∈ ts, t.fromEnd = true → t.delay ≤ 0) (hacc : ∀ d, acc = some d → d ≤ 0) :
    ∀ d, firstEndTiming ts acc = some d → d ≤ 0 := by
  induction ts generalizing acc with
  | nil => simpa [firstEndTiming] using hacc
  | cons t ts ih =>
    have hts' : ∀ t' ∈ ts, t'.fromEnd = true → t'.delay ≤ 0 := fun t' ht' => hts t' (List.mem_cons_of_mem _ ht')
    have ht := hts t (List.mem_cons_self ..)
    unfold firstEndTiming
    split
    · next hfe =>
      split
      · exact ih _ hts' (by intro d hd; cases hd; exact ht hfe)
      · next d0 =>
        split
        · exact ih _ hts' (by intro d hd; cases hd; exact ht hfe)
        · exact ih _ hts' (by intro d hd; cases hd; exact hacc d0 rfl)
    · exact ih _ hts' hacc

end UPVerif.D2P
