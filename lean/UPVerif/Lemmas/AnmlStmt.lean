import UPVerif.Lemmas.AnmlParse
/-! stage 1 on statements: timings, intervals, effects, conditions, action bodies, declarations, the whole text -/
namespace UPVerif.Anml
open Tok

/-! ### timings and intervals -/

def uTiming (t : Timing) : UTiming := ⟨t.tp.fromStart, t.delay⟩

def uInterval (i : Interval) : UInterval :=
  if i.lo == i.hi then .point (uTiming i.lo) else .range i.lopen (uTiming i.lo) (uTiming i.hi) i.ropen

/-- what follows a timing inside an interval -/
def Closer (r : List Tok) : Prop := ∃ c r', r = c :: r' ∧ (c = sym "]" ∨ c = sym ")" ∨ c = sym ",")

theorem Closer.not_slash {r : List Tok} (h : Closer r) : ∀ r', r ≠ sym "/" :: r' := by
  obtain ⟨c, r', rfl, hc⟩ := h
  intro r'' he
  simp only [List.cons.injEq] at he
  rcases hc with rfl | rfl | rfl <;> simp at he

theorem pTiming_print (glob : Bool) (t : Timing) (hwf : wfTiming glob t = true) (r : List Tok) (hr : Closer r) :
    pTiming (printTiming t ++ r) = some (uTiming t, r) := by
  simp only [wfTiming, Bool.and_eq_true] at hwf
  have hw := hwf.2
  obtain ⟨c, r', rfl, hc⟩ := id hr
  unfold printTiming uTiming
  cases hfs : t.tp.fromStart
  · -- `end`
    simp only [hfs, Bool.false_eq_true, if_false, decide_eq_true_eq] at hw ⊢
    by_cases hpos : t.delay > 0
    · exact absurd hw (by linarith)
    · rw [if_neg hpos]
      by_cases hz : t.delay = 0
      · simp only [hz, beq_self_eq_true, if_true]
        rcases hc with rfl | rfl | rfl <;> simp [pTiming]
      · have hne : (t.delay == 0) = false := by simpa using hz
        rw [hne]
        have hnn : (0 : Rat) ≤ -t.delay := by linarith
        have := pRatLit_ratToks (-t.delay) hnn (c :: r') hr.not_slash
        simp [pTiming, this]
  · simp only [hfs, if_true, decide_eq_true_eq] at hw ⊢
    by_cases hpos : t.delay > 0
    · rw [if_pos hpos]
      have := pRatLit_ratToks t.delay hw (c :: r') hr.not_slash
      simp [pTiming, this]
    · rw [if_neg hpos]
      have hz : t.delay = 0 := le_antisymm (not_lt.1 hpos) hw
      simp only [hz, beq_self_eq_true, if_true]
      rcases hc with rfl | rfl | rfl <;> simp [pTiming]

theorem printTiming_head (t : Timing) :
    ∃ s rest, printTiming t = kw s :: rest ∧ (s = "start" ∨ s = "end") := by
  unfold printTiming
  cases t.tp.fromStart <;> simp only [Bool.false_eq_true, if_false, if_true] <;> (split <;> [skip; split]) <;> simp

theorem pInterval_print (glob : Bool) (i : Interval) (hwf : wfInterval glob i = true) (r : List Tok) :
    pInterval (printInterval i ++ r) = some (uInterval i, r) := by
  simp only [wfInterval, Bool.and_eq_true, Bool.or_eq_true, bne_iff_ne, ne_eq, Bool.not_eq_true'] at hwf
  obtain ⟨⟨hlo, hhi⟩, hpt⟩ := hwf
  unfold printInterval uInterval
  obtain ⟨s, rest, hs, hs'⟩ := printTiming_head i.lo
  by_cases heq : i.lo = i.hi
  · have hb : (i.lo == i.hi) = true := by simpa using heq
    rcases hpt with hpt | hpt
    · exact absurd heq hpt
    · obtain ⟨hl, hr⟩ := hpt
      have h1 := pTiming_print glob i.lo hlo (sym "]" :: r) ⟨_, _, rfl, Or.inl rfl⟩
      simp only [hb, if_true, hl, hr, Bool.false_eq_true, if_false, List.cons_append, List.append_assoc, List.nil_append]
      rw [hs] at h1 ⊢
      simp only [List.cons_append] at h1
      rcases hs' with rfl | rfl <;> simp [pInterval, pOpen, pClose, h1]
  · have hb : (i.lo == i.hi) = false := by simpa using heq
    have h2 := pTiming_print glob i.hi hhi (sym (if i.ropen then ")" else "]") :: r)
      ⟨_, _, rfl, by cases i.ropen <;> simp⟩
    have h1 := pTiming_print glob i.lo hlo (sym "," :: (printTiming i.hi ++ sym (if i.ropen then ")" else "]") :: r))
      ⟨_, _, rfl, Or.inr (Or.inr rfl)⟩
    simp only [hb, Bool.false_eq_true, if_false, List.cons_append, List.append_assoc, List.nil_append]
    rw [hs] at h1 ⊢
    simp only [List.cons_append] at h1
    rcases hs' with rfl | rfl <;> cases i.lopen <;> cases hro : i.ropen <;>
      simp_all [pInterval, pOpen, pClose]

end UPVerif.Anml

namespace UPVerif.Anml
open Tok

/-! ### timed statements -/

def uEffect (ρ : Ren) (e : Effect) : UEffect :=
  { vars := renDecls ρ ρ.var (varDecls e.forall_),
    when_ := if e.isConditional then some (toU ρ e.cond) else none,
    target := toU ρ e.fluent, kind := e.kind, value := toU ρ e.value }

theorem pAssignOp_kindTok (k : EffKind) : pAssignOp (kindTok k) = some k := by
  cases k <;> simp [kindTok, pAssignOp]

theorem kindTok_ne_lp (k : EffKind) : kindTok k ≠ sym "(" := by
  cases k <;> simp [kindTok]

/-- the third alternative of `pTimedRest`: a condition or an unconditional assignment -/
def pPlain (f : Nat) (iv : Option UInterval) (ts : List Tok) : Option (UBody × List Tok) :=
  match pOperand f ts with
  | some (a, op :: r) =>
    match pAssignOp op with
    | some k =>
      match pOperand f r with
      | some (v, r') => some (.eff iv { vars := [], when_ := none, target := a, kind := k, value := v }, r')
      | none => none
    | none => some (.cond iv a, op :: r)
  | _ => none

theorem pTimedRest_operand (f : Nat) (iv : Option UInterval) (ts : List Tok) (h : startsOperand ts = true) :
    pTimedRest f iv ts = pPlain f iv ts := by
  cases ts with
  | nil => simp [startsOperand] at h
  | cons t r =>
    cases t with
    | kw s =>
      simp only [startsOperand, Bool.or_eq_true, beq_iff_eq] at h
      rcases h with rfl | rfl <;> simp [pTimedRest, pPlain] <;> rfl
    | sym s => simp [pTimedRest, pPlain] <;> rfl
    | num n => simp [pTimedRest, pPlain] <;> rfl
    | id x => simp [pTimedRest, pPlain] <;> rfl
    | dec _ _ _ => simp [startsOperand] at h
    | str _ => simp [startsOperand] at h

theorem printInterval_head (i : Interval) :
    ∃ l rest, printInterval i = sym l :: rest ∧ (l = "[" ∨ l = "(") := by
  unfold printInterval
  cases i.lopen <;> simp only [Bool.false_eq_true, if_false, if_true] <;> split <;> exact ⟨_, _, rfl, by simp⟩

theorem pTimed_interval (glob : Bool) (i : Interval) (hwf : wfInterval glob i = true) (f : Nat) (X : List Tok) :
    pTimed f (printInterval i ++ X) = pTimedRest f (some (uInterval i)) X := by
  have h := pInterval_print glob i hwf X
  obtain ⟨l, rest, hl, hl'⟩ := printInterval_head i
  rw [hl] at h ⊢
  simp only [List.cons_append] at h ⊢
  rcases hl' with rfl | rfl <;> simp [pTimed, h]

/-- a condition `interval expression` (a precondition, a durative condition, a goal, an invariant body) -/
theorem pTimed_cond (ρ : Ren) (P : AProblem) (glob : Bool) (i : Interval) (hwf : wfInterval glob i = true)
    (params : List (String × Ty)) (e : Expr) (he : wfE P params [] e = true) (f : Nat) (r : List Tok)
    (hf : (printE ρ e).length ≤ f) :
    pTimed f (printInterval i ++ printE ρ e ++ sym ";" :: r)
      = some (.cond (some (uInterval i)) (toU ρ e), sym ";" :: r) := by
  rw [List.append_assoc, pTimed_interval glob i hwf,
    pTimedRest_operand _ _ _ (printE_starts ρ P params [] e he _)]
  unfold pPlain
  rw [pOperand_printE ρ P e params [] he f _ hf (NoLp_cons (by simp))]
  simp [pAssignOp]

theorem fluent_print_head (ρ : Ren) (e : Expr) (h : (match e with | .app (.fluent _) _ => true | _ => false) = true) :
    ∃ x rest, printE ρ e = Tok.id x :: rest := by
  cases e with
  | app op args =>
    cases op with
    | fluent f0 =>
      rw [printE]
      simp only [appToks]
      split <;> exact ⟨_, _, rfl⟩
    | _ => simp at h
  | _ => simp at h

theorem pAssign_print (ρ : Ren) (P : AProblem) (params : List (String × Ty)) (e : Effect)
    (h1 : wfE P params e.forall_ e.fluent = true) (h2 : wfE P params e.forall_ e.value = true)
    (f : Nat) (r : List Tok) (hf : (printAssign ρ e).length ≤ f) (hr : NoLp r) :
    pAssign f (printAssign ρ e ++ r) = some ((toU ρ e.fluent, e.kind, toU ρ e.value), r) := by
  unfold printAssign at hf ⊢
  simp only [List.length_append, List.length_cons] at hf
  unfold pAssign
  rw [List.append_assoc, List.cons_append,
    pOperand_printE ρ P e.fluent params e.forall_ h1 f _ (by omega) (NoLp_cons (kindTok_ne_lp _))]
  simp only [pAssignOp_kindTok]
  rw [pOperand_printE ρ P e.value params e.forall_ h2 f _ (by omega) hr]

theorem pPlain_assign (ρ : Ren) (P : AProblem) (params : List (String × Ty)) (e : Effect)
    (h1 : wfE P params e.forall_ e.fluent = true) (h2 : wfE P params e.forall_ e.value = true)
    (iv : Option UInterval) (f : Nat) (r : List Tok) (hf : (printAssign ρ e).length ≤ f) (hr : NoLp r) :
    pPlain f iv (printAssign ρ e ++ r)
      = some (.eff iv { vars := [], when_ := none, target := toU ρ e.fluent, kind := e.kind, value := toU ρ e.value }, r) := by
  unfold printAssign at hf ⊢
  simp only [List.length_append, List.length_cons] at hf
  unfold pPlain
  rw [List.append_assoc, List.cons_append,
    pOperand_printE ρ P e.fluent params e.forall_ h1 f _ (by omega) (NoLp_cons (kindTok_ne_lp _))]
  simp only [pAssignOp_kindTok]
  rw [pOperand_printE ρ P e.value params e.forall_ h2 f _ (by omega) hr]

theorem printAssign_head (ρ : Ren) (e : Effect)
    (h : (match e.fluent with | .app (.fluent _) _ => true | _ => false) = true) :
    ∃ x rest, printAssign ρ e = Tok.id x :: rest := by
  obtain ⟨x, rest, hx⟩ := fluent_print_head ρ e.fluent h
  exact ⟨x, rest ++ kindTok e.kind :: printE ρ e.value, by simp [printAssign, hx]⟩

/-- the assignment with its optional `when` block, followed by `;` -/
theorem pWhenOrAssign_print (ρ : Ren) (P : AProblem) (params : List (String × Ty)) (e : Effect)
    (hfl : (match e.fluent with | .app (.fluent _) _ => true | _ => false) = true)
    (h1 : wfE P params e.forall_ e.fluent = true) (h2 : wfE P params e.forall_ e.value = true)
    (h3 : wfE P params e.forall_ e.cond = true)
    (f : Nat) (r : List Tok) (hf : (printWhen ρ e).length ≤ f) :
    pWhenOrAssign f (printWhen ρ e ++ sym ";" :: r)
      = some ((if e.isConditional then some (toU ρ e.cond) else none, toU ρ e.fluent, e.kind, toU ρ e.value), sym ";" :: r) := by
  unfold printWhen at hf ⊢
  split
  · rename_i hc
    simp only [hc, if_true, List.length_cons, List.length_append, List.length_nil] at hf
    simp only [List.cons_append, List.append_assoc, List.nil_append, pWhenOrAssign]
    rw [pOperand_printE ρ P e.cond params e.forall_ h3 f _ (by omega) (NoLp_cons (by simp))]
    simp only
    rw [pAssign_print ρ P params e h1 h2 f _ (by omega) (NoLp_cons (by simp))]
    simp [hc]
  · rename_i hc
    simp only [hc] at hf
    obtain ⟨x, rest, hx⟩ := printAssign_head ρ e hfl
    have := pAssign_print ρ P params e h1 h2 f (sym ";" :: r) hf (NoLp_cons (by simp))
    rw [hx] at this ⊢
    simp only [List.cons_append] at this ⊢
    simp [pWhenOrAssign, this, hc]

theorem printWhen_starts (ρ : Ren) (e : Effect)
    (hfl : (match e.fluent with | .app (.fluent _) _ => true | _ => false) = true) (r : List Tok) :
    (∃ rest, printWhen ρ e ++ r = kw "when" :: rest ∧ e.isConditional = true)
    ∨ (∃ x rest, printWhen ρ e ++ r = Tok.id x :: rest ∧ e.isConditional = false) := by
  unfold printWhen
  cases hc : e.isConditional
  · obtain ⟨x, rest, hx⟩ := printAssign_head ρ e hfl
    exact Or.inr ⟨x, rest ++ r, by simp [hx], rfl⟩
  · exact Or.inl ⟨printE ρ e.cond ++ sym "{" :: (printAssign ρ e ++ [sym ";", sym "}"]) ++ r, by simp, rfl⟩

/-- an effect, up to its last `;` -/
theorem pTimed_effect (ρ : Ren) (P : AProblem) (glob : Bool) (params : List (String × Ty)) (t : Option Timing)
    (ht : wfTiming glob (t.getD ⟨.start, 0⟩) = true) (e : Effect) (hwf : wfEff P params e = true)
    (f : Nat) (r : List Tok) (hf : (printEffectBody ρ t e).length ≤ f) :
    pTimed f (printEffectBody ρ t e ++ sym ";" :: r)
      = some (.eff (some (.point (uTiming (t.getD ⟨.start, 0⟩)))) (uEffect ρ e), sym ";" :: r) := by
  simp only [wfEff, Bool.and_eq_true, List.all_eq_true] at hwf
  obtain ⟨⟨⟨⟨⟨htys, _⟩, hfl⟩, h1⟩, h2⟩, h3⟩ := hwf
  have hiv : wfInterval glob (pointIv (t.getD ⟨.start, 0⟩)) = true := by
    simp [wfInterval, pointIv, ht]
  have hu : uInterval (pointIv (t.getD ⟨.start, 0⟩)) = .point (uTiming (t.getD ⟨.start, 0⟩)) := by
    simp [uInterval, pointIv]
  unfold printEffectBody at hf ⊢
  simp only [List.length_append] at hf
  rw [List.append_assoc, pTimed_interval glob _ hiv, hu]
  by_cases hfa : e.forall_.isEmpty = true
  · have hnil : e.forall_ = [] := by simpa using hfa
    simp only [hfa, if_true] at hf ⊢
    rcases printWhen_starts ρ e hfl (sym ";" :: r) with ⟨rest, hw, hc⟩ | ⟨x, rest, hw, hc⟩
    · have := pWhenOrAssign_print ρ P params e hfl h1 h2 h3 f r (by omega)
      rw [hw] at this ⊢
      simp [pTimedRest, this, uEffect, hc, hnil, renDecls, varDecls]
    · have hst : startsOperand (printWhen ρ e ++ sym ";" :: r) = true := by rw [hw]; simp [startsOperand]
      rw [pTimedRest_operand _ _ _ hst]
      have hpw : printWhen ρ e = printAssign ρ e := by simp [printWhen, hc]
      rw [hpw] at hf ⊢
      rw [pPlain_assign ρ P params e h1 h2 _ f _ (by omega) (NoLp_cons (by simp))]
      simp [uEffect, hc, hnil, renDecls, varDecls]
  · simp only [hfa, if_false, Bool.false_eq_true, List.length_cons, List.length_append, List.length_nil] at hf ⊢
    have hne : varDecls e.forall_ ≠ [] := by
      cases hv : e.forall_ with
      | nil => simp [hv] at hfa
      | cons v vs => simp [varDecls]
    have hdl := printDecls_length ρ ρ.var (varDecls e.forall_)
    have hdecl := pDecls_printDecls ρ ρ.var (varDecls e.forall_) hne (by
      intro d hd
      simp only [varDecls, List.mem_map] at hd
      obtain ⟨v, hv, rfl⟩ := hd
      exact wfTy_ne_time (htys v hv)) f (sym "{" :: (printWhen ρ e ++ sym ";" :: sym "}" :: sym ";" :: r)) (by omega)
    have hw := pWhenOrAssign_print ρ P params e hfl h1 h2 h3 f (sym "}" :: sym ";" :: r) (by omega)
    simp only [List.cons_append, List.append_assoc, List.nil_append, pTimedRest, hdecl, hw]
    simp [uEffect]

/-- the duration statement of a durative action -/
theorem pDuration_print (ρ : Ren) (P : AProblem) (params : List (String × Ty)) (lo hi : Expr) (lopen ropen : Bool)
    (h1 : wfE P params [] lo = true) (h2 : wfE P params [] hi = true) (f : Nat) (r : List Tok)
    (hf : (printE ρ lo).length + (printE ρ hi).length ≤ f) :
    pDuration f (kw "duration" :: sym (if lopen then ">" else ">=") :: printE ρ lo
        ++ kw "and" :: kw "duration" :: sym (if ropen then "<" else "<=") :: printE ρ hi ++ sym ";" :: r)
      = some (.duration lopen (toU ρ lo) ropen (toU ρ hi), sym ";" :: r) := by
  have e1 := pOperand_printE ρ P lo params [] h1 f
    (kw "and" :: kw "duration" :: sym (if ropen then "<" else "<=") :: (printE ρ hi ++ sym ";" :: r))
    (by omega) (NoLp_cons (by simp))
  have e2 := pOperand_printE ρ P hi params [] h2 f (sym ";" :: r) (by omega) (NoLp_cons (by simp))
  simp only [List.cons_append, List.append_assoc]
  cases lopen <;> cases ropen <;> simp_all [pDuration]

end UPVerif.Anml

namespace UPVerif.Anml
open Tok

/-! ### action bodies -/

/-- a body statement (without its `;`) and its tree -/
def ItemOK (toks : List Tok) (u : UBody) : Prop :=
  (∃ t tl, toks = t :: tl ∧ t ≠ sym "}") ∧
  ∀ f r, toks.length ≤ f → pItem f (toks ++ sym ";" :: r) = some (u, sym ";" :: r)

def itemToks (items : List (List Tok × UBody)) : List Tok := items.flatMap (fun it => it.1 ++ [sym ";"])

theorem itemToks_cons (it : List Tok × UBody) (items : List (List Tok × UBody)) :
    itemToks (it :: items) = it.1 ++ sym ";" :: itemToks items := by
  simp [itemToks]

theorem pBody_step (f : Nat) (t : Tok) (X : List Tok) (hne : t ≠ sym "}") :
    pBody (f + 1) (t :: X) = (match pItem f (t :: X) with
      | some (b, sym ";" :: r1) =>
        (match pBody f r1 with
        | some (bs, r2) => some (b :: bs, r2)
        | none => none)
      | _ => none) := by
  rw [pBody]
  · rfl
  · intro r he
    simp only [List.cons.injEq] at he
    exact hne he.1

theorem pBody_items : ∀ (items : List (List Tok × UBody)), (∀ it ∈ items, ItemOK it.1 it.2) →
    ∀ (f : Nat) (r : List Tok), (itemToks items).length + 1 ≤ f →
    pBody f (itemToks items ++ sym "}" :: r) = some (items.map (·.2), r)
  | [], _, f, r, hf => by
    obtain ⟨f', rfl⟩ : ∃ f', f = f' + 1 := ⟨f - 1, by omega⟩
    simp [itemToks, pBody]
  | it :: items, h, f, r, hf => by
    obtain ⟨⟨t, tl, ht, hne⟩, hp⟩ := h it (by simp)
    have ih := pBody_items items (fun x hx => h x (by simp [hx]))
    obtain ⟨f', rfl⟩ : ∃ f', f = f' + 1 := ⟨f - 1, by omega⟩
    rw [itemToks_cons] at hf ⊢
    simp only [List.length_append, List.length_cons] at hf
    have h1 := hp f' (itemToks items ++ sym "}" :: r) (by omega)
    rw [List.append_assoc, List.cons_append]
    rw [ht] at h1 ⊢
    simp only [List.cons_append] at h1 ⊢
    rw [pBody_step _ _ _ hne, h1]
    simp only
    rw [ih f' r (by omega)]
    simp

theorem pItem_interval (i : Interval) (f : Nat) (X : List Tok) :
    pItem f (printInterval i ++ X) = pTimed f (printInterval i ++ X) := by
  obtain ⟨l, rest, hl, hl'⟩ := printInterval_head i
  rw [hl]
  simp [pItem]

theorem interval_ne_rbrace (i : Interval) : ∃ t tl, ∀ X, printInterval i ++ X = t :: (tl ++ X) ∧ t ≠ sym "}" := by
  obtain ⟨l, rest, hl, hl'⟩ := printInterval_head i
  refine ⟨sym l, rest, fun X => ⟨by simp [hl], ?_⟩⟩
  rcases hl' with rfl | rfl <;> simp

theorem itemOK_cond (ρ : Ren) (P : AProblem) (glob : Bool) (i : Interval) (hwf : wfInterval glob i = true)
    (params : List (String × Ty)) (e : Expr) (he : wfE P params [] e = true) :
    ItemOK (printInterval i ++ printE ρ e) (.cond (some (uInterval i)) (toU ρ e)) := by
  obtain ⟨t, tl, h⟩ := interval_ne_rbrace i
  refine ⟨⟨t, tl ++ printE ρ e, (h _).1, (h []).2⟩, ?_⟩
  intro f r hf
  simp only [List.length_append] at hf
  rw [List.append_assoc, pItem_interval, ← List.append_assoc]
  exact pTimed_cond ρ P glob i hwf params e he f r (by omega)

theorem itemOK_effect (ρ : Ren) (P : AProblem) (glob : Bool) (params : List (String × Ty)) (t : Option Timing)
    (ht : wfTiming glob (t.getD ⟨.start, 0⟩) = true) (e : Effect) (hwf : wfEff P params e = true) :
    ItemOK (printEffectBody ρ t e) (.eff (some (.point (uTiming (t.getD ⟨.start, 0⟩)))) (uEffect ρ e)) := by
  obtain ⟨t', tl, h⟩ := interval_ne_rbrace (pointIv (t.getD ⟨.start, 0⟩))
  refine ⟨⟨t', _, (h _).1, (h []).2⟩, ?_⟩
  intro f r hf
  have := pTimed_effect ρ P glob params t ht e hwf f r hf
  unfold printEffectBody at this ⊢
  rw [List.append_assoc] at this ⊢
  rw [pItem_interval]; exact this

theorem itemOK_duration (ρ : Ren) (P : AProblem) (params : List (String × Ty)) (d : Duration)
    (h1 : wfE P params [] d.lo = true) (h2 : wfE P params [] d.hi = true) :
    ItemOK (kw "duration" :: sym (if d.lopen then ">" else ">=") :: printE ρ d.lo
        ++ kw "and" :: kw "duration" :: sym (if d.ropen then "<" else "<=") :: printE ρ d.hi)
      (.duration d.lopen (toU ρ d.lo) d.ropen (toU ρ d.hi)) := by
  refine ⟨⟨_, _, rfl, by simp⟩, ?_⟩
  intro f r hf
  simp only [List.length_cons, List.length_append] at hf
  have := pDuration_print ρ P params d.lo d.hi d.lopen d.ropen h1 h2 f r (by omega)
  simp only [List.cons_append, List.append_assoc] at this ⊢
  simp only [pItem]
  exact this

end UPVerif.Anml

namespace UPVerif.Anml
open Tok

/-! ### statements -/

def StmtOK (toks : List Tok) (u : UStmt) : Prop :=
  toks ≠ [] ∧ ∀ f r, toks.length ≤ f → pStmt f (toks ++ r) = some (u, r)

def stmtToks (items : List (List Tok × UStmt)) : List Tok := items.flatMap (·.1)

theorem pStmts_items : ∀ (items : List (List Tok × UStmt)), (∀ it ∈ items, StmtOK it.1 it.2) →
    ∀ (f : Nat), (stmtToks items).length + 1 ≤ f → pStmts f (stmtToks items) = some (items.map (·.2))
  | [], _, f, hf => by
    obtain ⟨f', rfl⟩ : ∃ f', f = f' + 1 := ⟨f - 1, by omega⟩
    simp [stmtToks, pStmts]
  | it :: items, h, f, hf => by
    obtain ⟨hne, hp⟩ := h it (by simp)
    have ih := pStmts_items items (fun x hx => h x (by simp [hx]))
    obtain ⟨f', rfl⟩ : ∃ f', f = f' + 1 := ⟨f - 1, by omega⟩
    have hc : stmtToks (it :: items) = it.1 ++ stmtToks items := by simp [stmtToks]
    rw [hc] at hf ⊢
    simp only [List.length_append] at hf
    have h1 := hp f' (stmtToks items) (by omega)
    obtain ⟨t, tl, ht⟩ : ∃ t tl, it.1 = t :: tl := by
      cases hx : it.1 with
      | nil => exact absurd hx hne
      | cons t tl => exact ⟨t, tl, rfl⟩
    have hlen : 1 ≤ it.1.length := by rw [ht]; simp
    rw [ht] at h1 ⊢
    simp only [List.cons_append] at h1 ⊢
    rw [pStmts]
    · simp only [h1]
      rw [ih f' (by omega)]
      simp
    · intro he; cases he

theorem printDecls_head (ρ : Ren) (nm : String → Ty → String) (ds : List (String × Ty)) (hne : ds ≠ []) :
    ∃ t tl, printDecls ρ nm ds = t :: tl ∧ t ≠ sym ")" := by
  have hty : ∀ ty : Ty, ∃ t tl, printTy ρ ty = t :: tl ∧ t ≠ sym ")" := by
    intro ty; cases ty <;> simp [printTy]
  cases ds with
  | nil => exact absurd rfl hne
  | cons d ds =>
    obtain ⟨t, tl, h1, h2⟩ := hty d.2
    cases ds with
    | nil => exact ⟨t, _, by rw [printDecls, h1]; rfl, h2⟩
    | cons d' ds' => exact ⟨t, _, by rw [printDecls, h1]; rfl, h2⟩

theorem pParams_print (ρ : Ren) (nm : String → Ty → String) (ds : List (String × Ty))
    (hty : ∀ d ∈ ds, d.2 ≠ .time) (f : Nat) (r : List Tok) (hf : ds.length ≤ f) :
    pParams f (printDecls ρ nm ds ++ sym ")" :: r) = some (renDecls ρ nm ds, r) := by
  by_cases hne : ds = []
  · subst hne; simp [printDecls, pParams, renDecls]
  · obtain ⟨t, tl, h1, h2⟩ := printDecls_head ρ nm ds hne
    have := pDecls_printDecls ρ nm ds hne hty f r hf
    rw [h1] at this ⊢
    simp only [List.cons_append] at this ⊢
    rw [pParams]
    · exact this
    · intro r' he
      simp only [List.cons.injEq] at he
      exact h2 he.1

def startIv : Interval := pointIv ⟨.start, 0⟩

theorem printInterval_startIv : printInterval startIv = [sym "[", kw "start", sym "]"] := by
  decide

theorem uInterval_startIv : uInterval startIv = .point ⟨true, 0⟩ := by
  decide

def instItems (ρ : Ren) (pre : List Expr) (effs : List Effect) : List (List Tok × UBody) :=
  pre.map (fun p => (printInterval startIv ++ printE ρ p, .cond (some (.point ⟨true, 0⟩)) (toU ρ p)))
  ++ effs.map (fun e => (printEffectBody ρ none e, .eff (some (.point ⟨true, 0⟩)) (uEffect ρ e)))

def durItems (ρ : Ren) (d : Duration) (conds : List (Interval × Expr)) (effs : List (Timing × Effect)) :
    List (List Tok × UBody) :=
  (kw "duration" :: sym (if d.lopen then ">" else ">=") :: printE ρ d.lo
      ++ kw "and" :: kw "duration" :: sym (if d.ropen then "<" else "<=") :: printE ρ d.hi,
    .duration d.lopen (toU ρ d.lo) d.ropen (toU ρ d.hi))
  :: (conds.map (fun c => (printInterval c.1 ++ printE ρ c.2, .cond (some (uInterval c.1)) (toU ρ c.2)))
  ++ effs.map (fun e => (printEffectBody ρ (some e.1) e.2, .eff (some (.point (uTiming e.1))) (uEffect ρ e.2))))

def actionItems (ρ : Ren) : AAction → List (List Tok × UBody)
  | .inst _ _ pre effs => instItems ρ pre effs
  | .dur _ _ d conds effs => durItems ρ d conds effs

def isInstA : AAction → Bool
  | .inst _ _ _ _ => true
  | .dur _ _ _ _ _ => false

def uAction (ρ : Ren) (a : AAction) : UStmt :=
  .action (ρ.act a.name) (renDecls ρ ρ.par a.params) (isInstA a) ((actionItems ρ a).map (·.2))

theorem printEffect_fun (ρ : Ren) (t : Option Timing) :
    printEffect ρ t = fun e => printEffectBody ρ t e ++ [sym ";"] := by
  funext e; rfl

theorem printAction_eq (ρ : Ren) (a : AAction) :
    printAction ρ a = kw "action" :: Tok.id (ρ.act a.name) :: sym "(" :: printDecls ρ ρ.par a.params ++ sym ")"
      :: (match a with
          | .inst _ _ _ _ => [sym "::", sym "(", str "InstantaneousAction", sym ")", sym "{"]
          | .dur _ _ _ _ _ => [sym "{"])
      ++ itemToks (actionItems ρ a) ++ [sym "}", sym ";"] := by
  cases a with
  | inst n ps pre effs =>
    simp [printAction, printParams, AAction.name, AAction.params, actionItems, instItems, itemToks,
      List.flatMap_append, List.flatMap_map, printEffect_fun, printInterval_startIv]
  | dur n ps d conds effs =>
    simp [printAction, printParams, AAction.name, AAction.params, actionItems, durItems, itemToks,
      List.flatMap_append, List.flatMap_map, printEffect]

theorem actionItems_ok (ρ : Ren) (P : AProblem) (a : AAction) (hwf : wfAction P a = true) :
    ∀ it ∈ actionItems ρ a, ItemOK it.1 it.2 := by
  have hst : wfInterval false startIv = true := by decide
  cases a with
  | inst n ps pre effs =>
    simp only [wfAction, Bool.and_eq_true, List.all_eq_true] at hwf
    obtain ⟨⟨_, hpre⟩, heff⟩ := hwf
    intro it hit
    simp only [actionItems, instItems, List.mem_append, List.mem_map] at hit
    rcases hit with ⟨p, hp, rfl⟩ | ⟨e, he, rfl⟩
    · have := itemOK_cond ρ P false startIv hst ps p (hpre p hp)
      rwa [uInterval_startIv] at this
    · exact itemOK_effect ρ P false ps none (by decide) e (heff e he)
  | dur n ps d conds effs =>
    simp only [wfAction, Bool.and_eq_true, List.all_eq_true] at hwf
    obtain ⟨⟨⟨⟨_, hlo⟩, hhi⟩, hconds⟩, heffs⟩ := hwf
    intro it hit
    simp only [actionItems, durItems, List.mem_cons, List.mem_append, List.mem_map] at hit
    rcases hit with rfl | ⟨c, hc, rfl⟩ | ⟨e, he, rfl⟩
    · exact itemOK_duration ρ P ps d hlo hhi
    · exact itemOK_cond ρ P false c.1 (hconds c hc).1 ps c.2 (hconds c hc).2
    · exact itemOK_effect ρ P false ps (some e.1) (heffs e he).1 e.2 (heffs e he).2

theorem stmtOK_action (ρ : Ren) (P : AProblem) (a : AAction) (hwf : wfAction P a = true) :
    StmtOK (printAction ρ a) (uAction ρ a) := by
  have hitems := actionItems_ok ρ P a hwf
  have hps : ∀ d ∈ a.params, d.2 ≠ .time := by
    intro d hd
    cases a <;> simp only [wfAction, Bool.and_eq_true, List.all_eq_true] at hwf
    · exact wfTy_ne_time (hwf.1.1 d hd)
    · exact wfTy_ne_time (hwf.1.1.1.1 d hd)
  rw [printAction_eq]
  refine ⟨by simp, ?_⟩
  intro f r hf
  have hdl := printDecls_length ρ ρ.par a.params
  cases a with
  | inst n ps pre effs =>
    simp only [List.length_cons, List.length_append, List.length_nil, AAction.params] at hf hdl
    have h1 := pParams_print ρ ρ.par ps hps f
      (sym "::" :: sym "(" :: str "InstantaneousAction" :: sym ")" :: sym "{"
        :: (itemToks (actionItems ρ (.inst n ps pre effs)) ++ sym "}" :: sym ";" :: r)) (by omega)
    have h2 := pBody_items _ hitems f (sym ";" :: r) (by omega)
    simp only [AAction.params, AAction.name, List.cons_append, List.append_assoc, List.nil_append, pStmt] at h1 h2 ⊢
    rw [h1]
    simp only
    rw [h2]
    simp [uAction, isInstA, AAction.name, AAction.params]
  | dur n ps d conds effs =>
    simp only [List.length_cons, List.length_append, List.length_nil, AAction.params] at hf hdl
    have h1 := pParams_print ρ ρ.par ps hps f
      (sym "{" :: (itemToks (actionItems ρ (.dur n ps d conds effs)) ++ sym "}" :: sym ";" :: r))
      (by omega)
    have h2 := pBody_items _ hitems f (sym ";" :: r) (by omega)
    simp only [AAction.params, AAction.name, List.cons_append, List.append_assoc, List.nil_append, pStmt] at h1 h2 ⊢
    rw [h1]
    simp only
    rw [h2]
    simp [uAction, isInstA, AAction.name, AAction.params]

end UPVerif.Anml

namespace UPVerif.Anml
open Tok

/-! ### the other statements and the whole text -/

def isTopTok : Tok → Bool
  | sym _ => true
  | Tok.id _ => true
  | _ => false

theorem pStmt_top (f : Nat) (t : Tok) (X : List Tok) (h : isTopTok t = true) :
    pStmt f (t :: X) = (match pTimed f (t :: X) with
      | some (b, sym ";" :: r) => some (.top b, r)
      | _ => none) := by
  cases t <;> simp [isTopTok] at h <;> simp [pStmt] <;> rfl

def gstartIv : Interval := pointIv ⟨.gstart, 0⟩
def gendIv : Interval := pointIv ⟨.gend, 0⟩

def typeStmt (ρ : Ren) (t : String × Option String) : List Tok × UStmt :=
  (kw "type" :: Tok.id (ρ.ty t.1) :: (match t.2 with
      | none => [sym ";"]
      | some f => [sym "<", Tok.id (ρ.ty f), sym ";"]),
   .typeDecl (ρ.ty t.1) (t.2.map ρ.ty))

def fluentStmt (ρ : Ren) (P : AProblem) (f : AFluent) : List Tok × UStmt :=
  (printFluent ρ P f,
   .fluentDecl (P.isStatic f.ref) (ρ.renTy f.ref.ty) (ρ.fl f.ref.name) (renDecls ρ ρ.par (f.pnames.zip f.ref.sig)))

def instanceStmts (ρ : Ren) (P : AProblem) : List (List Tok × UStmt) :=
  P.types.flatMap (fun t =>
    let os := (P.objects.filter (fun o => o.2 == t.1)).map (fun o => ρ.obj o.1)
    if os.isEmpty then [] else [(kw "instance" :: Tok.id (ρ.ty t.1) :: printNames os ++ [sym ";"], .instance_ (.user (ρ.ty t.1)) os)])

def initEff (i : Expr × Expr) : Effect :=
  { fluent := i.1, value := i.2, cond := Expr.tt, kind := .assign, forall_ := [] }

/-- is the initial value written without `[ start ]` (a `constant`)? -/
def initStatic (P : AProblem) (i : Expr × Expr) : Bool :=
  match effTarget (initEff i) with
  | some f => P.isStatic f
  | none => false

def initStmt (ρ : Ren) (P : AProblem) (i : Expr × Expr) : List Tok × UStmt :=
  ((if initStatic P i then [] else printInterval gstartIv) ++ printAssign ρ (initEff i) ++ [sym ";"],
   .top (.eff (if initStatic P i then none else some (.point ⟨true, 0⟩))
      { vars := [], when_ := none, target := toU ρ i.1, kind := .assign, value := toU ρ i.2 }))

def timedEffStmt (ρ : Ren) (e : Timing × Effect) : List Tok × UStmt :=
  (printEffect ρ (some e.1) e.2, .top (.eff (some (.point (uTiming e.1))) (uEffect ρ e.2)))

def goalStmt (ρ : Ren) (g : Expr) : List Tok × UStmt :=
  (printInterval gendIv ++ printE ρ g ++ [sym ";"], .top (.cond (some (.point ⟨false, 0⟩)) (toU ρ g)))

def timedGoalStmt (ρ : Ren) (g : Interval × Expr) : List Tok × UStmt :=
  (printInterval g.1 ++ printE ρ g.2 ++ [sym ";"], .top (.cond (some (uInterval g.1)) (toU ρ g.2)))

def invStmt (ρ : Ren) (i : Expr) : List Tok × UStmt :=
  (sym "[" :: kw "all" :: sym "]" :: printE ρ i ++ [sym ";"], .top (.cond (some (.all false false)) (toU ρ i)))

/-- the statements of the text of `P`, with their trees -/
def stmtsOf (ρ : Ren) (P : AProblem) : List (List Tok × UStmt) :=
  P.types.map (typeStmt ρ) ++ P.fluents.map (fluentStmt ρ P)
  ++ P.actions.map (fun a => (printAction ρ a, uAction ρ a))
  ++ instanceStmts ρ P ++ P.init.map (initStmt ρ P) ++ P.timedEffects.map (timedEffStmt ρ)
  ++ P.goals.map (goalStmt ρ) ++ P.timedGoals.map (timedGoalStmt ρ) ++ P.invariants.map (invStmt ρ)

theorem flatMap_ext {α β} (f g : α → List β) (l : List α) (h : ∀ a, f a = g a) : l.flatMap f = l.flatMap g := by
  rw [show f = g from funext h]

theorem anmlPrint_eq (ρ : Ren) (P : AProblem) : anmlPrint ρ P = stmtToks (stmtsOf ρ P) := by
  have h1 : printInterval gstartIv = [sym "[", kw "start", sym "]"] := by decide
  have h2 : printInterval gendIv = [sym "[", kw "end", sym "]"] := by decide
  unfold anmlPrint stmtsOf stmtToks
  simp only [List.flatMap_append, List.flatMap_map]
  have e1 : ∀ t : String × Option String, (typeStmt ρ t).1 = kw "type" :: Tok.id (ρ.ty t.1) :: (match t.2 with
      | none => [sym ";"]
      | some f => [sym "<", Tok.id (ρ.ty f), sym ";"]) := fun _ => rfl
  have e4 : List.flatMap (fun x => x.1) (instanceStmts ρ P) = P.types.flatMap (fun t =>
      let os := (P.objects.filter (fun o => o.2 == t.1)).map (fun o => ρ.obj o.1)
      if os.isEmpty then [] else kw "instance" :: Tok.id (ρ.ty t.1) :: printNames os ++ [sym ";"]) := by
    unfold instanceStmts
    rw [List.flatMap_assoc]
    apply flatMap_ext
    intro t
    simp only
    split <;> simp
  have e5 : ∀ i : Expr × Expr, (initStmt ρ P i).1 =
      (match effTarget { fluent := i.1, value := i.2, cond := Expr.tt, kind := .assign, forall_ := [] } with
       | some f => if P.isStatic f then [] else [sym "[", kw "start", sym "]"]
       | none => [sym "[", kw "start", sym "]"])
      ++ printE ρ i.1 ++ sym ":=" :: printE ρ i.2 ++ [sym ";"] := by
    intro i
    simp only [initStmt, initStatic, initEff, h1, printAssign, kindTok]
    generalize effTarget _ = o
    cases o <;> simp
  have e7 : ∀ g : Expr, (goalStmt ρ g).1 = sym "[" :: kw "end" :: sym "]" :: printE ρ g ++ [sym ";"] := by
    intro g; simp [goalStmt, h2]
  rw [e4]
  simp only [e1, e5, e7, fluentStmt, timedEffStmt, timedGoalStmt, invStmt]
  rfl

theorem stmtOK_type (ρ : Ren) (t : String × Option String) : StmtOK (typeStmt ρ t).1 (typeStmt ρ t).2 := by
  refine ⟨by simp [typeStmt], ?_⟩
  intro f r _
  obtain ⟨n, fa⟩ := t
  cases fa <;> simp [typeStmt, pStmt]

theorem pNames_print : ∀ (ns : List String), ns ≠ [] → ∀ (f : Nat) (r : List Tok), ns.length ≤ f →
    pNames f (printNames ns ++ sym ";" :: r) = some (ns, r)
  | [], h, _, _, _ => absurd rfl h
  | [n], _, f, r, hf => by
    obtain ⟨f', rfl⟩ : ∃ f', f = f' + 1 := ⟨f - 1, by simp at hf; omega⟩
    simp [printNames, pNames]
  | n :: n' :: ns, _, f, r, hf => by
    obtain ⟨f', rfl⟩ : ∃ f', f = f' + 1 := ⟨f - 1, by simp at hf; omega⟩
    have ih := pNames_print (n' :: ns) (by simp) f' r (by simp at hf ⊢; omega)
    simp only [printNames, List.cons_append, pNames, ih]

theorem printNames_length : ∀ (ns : List String), ns.length ≤ (printNames ns).length
  | [] => by simp [printNames]
  | [n] => by simp [printNames]
  | n :: n' :: ns => by
    have := printNames_length (n' :: ns)
    simp only [printNames, List.length_cons] at this ⊢
    omega

theorem stmtOK_instance (ρ : Ren) (tn : String) (os : List String) (hne : os ≠ []) :
    StmtOK (kw "instance" :: Tok.id (ρ.ty tn) :: printNames os ++ [sym ";"]) (.instance_ (.user (ρ.ty tn)) os) := by
  refine ⟨by simp, ?_⟩
  intro f r hf
  have := printNames_length os
  simp only [List.length_cons, List.length_append, List.length_nil] at hf
  have h := pNames_print os hne f r (by omega)
  simp [pStmt, pTy, h]

theorem stmtOK_fluent (ρ : Ren) (P : AProblem) (fl : AFluent) (hwf : wfFluent P fl = true) :
    StmtOK (fluentStmt ρ P fl).1 (fluentStmt ρ P fl).2 := by
  simp only [wfFluent, Bool.and_eq_true, List.all_eq_true, beq_iff_eq] at hwf
  obtain ⟨⟨hty, hsig⟩, hlen⟩ := hwf
  refine ⟨by simp [fluentStmt, printFluent], ?_⟩
  intro f r hf
  simp only [fluentStmt, printFluent, List.length_cons, List.length_append, List.length_nil] at hf ⊢
  by_cases hs : fl.ref.sig.isEmpty = true
  · have hnil : fl.ref.sig = [] := by simpa using hs
    have h1 := pTy_printTy ρ fl.ref.ty (wfTy_ne_time hty) (ρ.fl fl.ref.name) (sym ";" :: r)
    simp only [hs, if_true, List.cons_append, List.append_assoc, List.nil_append] at hf ⊢
    cases P.isStatic fl.ref <;> simp [pStmt, h1, hnil, renDecls]
  · simp only [hs, if_false, Bool.false_eq_true, printParams, List.length_cons, List.length_append, List.length_nil] at hf ⊢
    have hdl := printDecls_length ρ ρ.par (fl.pnames.zip fl.ref.sig)
    have h1 := pTy_printTy ρ fl.ref.ty (wfTy_ne_time hty) (ρ.fl fl.ref.name)
      (sym "(" :: (printDecls ρ ρ.par (fl.pnames.zip fl.ref.sig) ++ sym ")" :: sym ";" :: r))
    have h2 := pParams_print ρ ρ.par (fl.pnames.zip fl.ref.sig) (by
      intro d hd
      exact wfTy_ne_time (hsig d.2 (List.of_mem_zip hd).2)) f (sym ";" :: r) (by omega)
    simp only [List.cons_append, List.append_assoc, List.nil_append]
    cases P.isStatic fl.ref <;> simp [pStmt, h1, h2]

end UPVerif.Anml

namespace UPVerif.Anml
open Tok

theorem top_of_timed {toks : List Tok} {b : UBody} (t : Tok) (tl : List Tok) (ht : toks = t :: tl)
    (htop : isTopTok t = true) (f : Nat) (r : List Tok)
    (h : pTimed f (toks ++ sym ";" :: r) = some (b, sym ";" :: r)) :
    pStmt f ((toks ++ [sym ";"]) ++ r) = some (.top b, r) := by
  rw [List.append_assoc, List.singleton_append]
  rw [ht] at h ⊢
  simp only [List.cons_append] at h ⊢
  rw [pStmt_top _ _ _ htop, h]
  rfl

theorem stmtOK_cond (ρ : Ren) (P : AProblem) (i : Interval) (hwf : wfInterval true i = true) (e : Expr)
    (he : wfE P [] [] e = true) :
    StmtOK (printInterval i ++ printE ρ e ++ [sym ";"]) (.top (.cond (some (uInterval i)) (toU ρ e))) := by
  refine ⟨by simp, ?_⟩
  intro f r hf
  simp only [List.length_append, List.length_cons, List.length_nil] at hf
  obtain ⟨l, rest, hl, hl'⟩ := printInterval_head i
  refine top_of_timed (sym l) (rest ++ printE ρ e) (by simp [hl]) rfl f r ?_
  exact pTimed_cond ρ P true i hwf [] e he f r (by omega)

theorem stmtOK_inv (ρ : Ren) (P : AProblem) (e : Expr) (he : wfE P [] [] e = true) :
    StmtOK (invStmt ρ e).1 (invStmt ρ e).2 := by
  refine ⟨by simp [invStmt], ?_⟩
  intro f r hf
  simp only [invStmt, List.length_append, List.length_cons, List.length_nil] at hf ⊢
  have h : pTimed f (sym "[" :: kw "all" :: sym "]" :: (printE ρ e ++ sym ";" :: r))
      = some (.cond (some (.all false false)) (toU ρ e), sym ";" :: r) := by
    simp only [pTimed, pInterval, pOpen, pClose]
    rw [pTimedRest_operand _ _ _ (printE_starts ρ P [] [] e he _)]
    unfold pPlain
    rw [pOperand_printE ρ P e [] [] he f _ (by omega) (NoLp_cons (by simp))]
    simp [pAssignOp]
  have := top_of_timed (toks := sym "[" :: kw "all" :: sym "]" :: printE ρ e) (sym "[") _ rfl rfl f r
    (by simpa using h)
  simpa using this

theorem stmtOK_timedEff (ρ : Ren) (P : AProblem) (e : Timing × Effect) (ht : wfTiming true e.1 = true)
    (hwf : wfEff P [] e.2 = true) : StmtOK (timedEffStmt ρ e).1 (timedEffStmt ρ e).2 := by
  refine ⟨by simp [timedEffStmt, printEffect], ?_⟩
  intro f r hf
  simp only [timedEffStmt, printEffect, List.length_append, List.length_cons, List.length_nil] at hf ⊢
  obtain ⟨l, rest, hl, hl'⟩ := printInterval_head (pointIv e.1)
  have hb : ∃ tl, printEffectBody ρ (some e.1) e.2 = sym l :: tl := by
    unfold printEffectBody
    simp only [Option.getD_some, hl]
    exact ⟨_, rfl⟩
  obtain ⟨tl, htl⟩ := hb
  exact top_of_timed (sym l) tl htl rfl f r (pTimed_effect ρ P true [] (some e.1) ht e.2 hwf f r (by omega))

theorem stmtOK_init (ρ : Ren) (P : AProblem) (i : Expr × Expr)
    (hfl : (match i.1 with | .app (.fluent _) _ => true | _ => false) = true)
    (h1 : wfE P [] [] i.1 = true) (h2 : wfE P [] [] i.2 = true) :
    StmtOK (initStmt ρ P i).1 (initStmt ρ P i).2 := by
  have hgs : wfInterval true gstartIv = true := by decide
  have hu : uInterval gstartIv = .point ⟨true, 0⟩ := by decide
  obtain ⟨x, rest, hx⟩ := printAssign_head ρ (initEff i) hfl
  refine ⟨by simp [initStmt], ?_⟩
  intro f r hf
  simp only [initStmt, List.length_append, List.length_cons, List.length_nil] at hf ⊢
  have hpl := fun iv => pPlain_assign ρ P [] (initEff i) h1 h2 iv f (sym ";" :: r) (by omega) (NoLp_cons (by simp))
  have hst : startsOperand (printAssign ρ (initEff i) ++ sym ";" :: r) = true := by
    rw [hx]; simp [startsOperand]
  by_cases hs : initStatic P i = true
  · simp only [hs, if_true, List.nil_append] at hf ⊢
    refine top_of_timed (Tok.id x) rest hx rfl f r ?_
    have : pTimed f (printAssign ρ (initEff i) ++ sym ";" :: r)
        = pTimedRest f none (printAssign ρ (initEff i) ++ sym ";" :: r) := by
      rw [hx]; simp [pTimed]
    rw [this, pTimedRest_operand _ _ _ hst, hpl]
    simp [initEff]
  · simp only [hs, if_false, Bool.false_eq_true] at hf ⊢
    obtain ⟨l, rest', hl, hl'⟩ := printInterval_head gstartIv
    refine top_of_timed (sym l) (rest' ++ printAssign ρ (initEff i)) (by simp [hl]) rfl f r ?_
    rw [List.append_assoc, pTimed_interval true gstartIv hgs, hu, pTimedRest_operand _ _ _ hst, hpl]
    simp [initEff]

/-- every statement of the text of a problem of the fragment parses to its tree -/
theorem stmtsOf_ok (ρ : Ren) (P : AProblem) (hP : inFragment P = true) :
    ∀ it ∈ stmtsOf ρ P, StmtOK it.1 it.2 := by
  simp only [inFragment, Bool.and_eq_true, List.all_eq_true] at hP
  obtain ⟨⟨⟨⟨⟨⟨⟨⟨⟨⟨⟨_, hfl⟩, _⟩, _⟩, _⟩, _⟩, hinit⟩, hact⟩, hte⟩, hgoals⟩, htg⟩, hinv⟩ := hP
  intro it hit
  simp only [stmtsOf, List.mem_append, List.mem_map] at hit
  rcases hit with (((((((⟨t, _, rfl⟩ | ⟨f, hf, rfl⟩) | ⟨a, ha, rfl⟩) | hi) | ⟨i, hi, rfl⟩) | ⟨e, he, rfl⟩) | ⟨g, hg, rfl⟩) | ⟨g, hg, rfl⟩) | ⟨i, hi, rfl⟩
  · exact stmtOK_type ρ t
  · exact stmtOK_fluent ρ P f (hfl f hf)
  · exact stmtOK_action ρ P a (hact a ha)
  · simp only [instanceStmts, List.mem_flatMap] at hi
    obtain ⟨t, _, ht⟩ := hi
    split at ht
    · cases ht
    · rename_i hne
      simp only [List.mem_singleton] at ht
      subst ht
      exact stmtOK_instance ρ t.1 _ (by intro h; apply hne; rw [h]; rfl)
  · have := hinit i hi
    exact stmtOK_init ρ P i this.1.1 this.1.2 this.2
  · have := hte e he
    exact stmtOK_timedEff ρ P e this.1.1 this.2
  · have hge : wfInterval true gendIv = true := by decide
    have hu : uInterval gendIv = .point ⟨false, 0⟩ := by decide
    have := stmtOK_cond ρ P gendIv hge g (hgoals g hg)
    rw [hu] at this
    exact this
  · have := htg g hg
    exact stmtOK_cond ρ P g.1 this.1.1 g.2 this.2
  · exact stmtOK_inv ρ P i (hinv i hi)

/-- stage 1 inverts the writer on whole problems -/
theorem pStmts_anmlPrint (ρ : Ren) (P : AProblem) (hP : inFragment P = true) :
    pStmts ((anmlPrint ρ P).length + 1) (anmlPrint ρ P) = some ((stmtsOf ρ P).map (·.2)) := by
  rw [anmlPrint_eq]
  exact pStmts_items _ (stmtsOf_ok ρ P hP) _ (Nat.le_refl _)

end UPVerif.Anml
