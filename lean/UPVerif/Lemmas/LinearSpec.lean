import UPVerif.Core.Walkers.Linear
import UPVerif.Lemmas.SimplifySpec
/-!
Definitions used to STATE the theorems of `Props/C17.lean`.  Everything here is short and meant to be
read.  No Mathlib.
-/
namespace UPVerif.Lin
open Expr

/-! ### the domain of the property: arithmetic expressions over ground fluents -/

mutual
/-- expressions over `+ − × /`, arbitrary leaves (constants, parameters) and fluent applications whose
    arguments are constants (DESIGN §2.11: no interpreted functions, no Boolean operators, no
    quantifiers) -/
def arith : Expr → Bool
  | .leaf _ => true
  | .app .plus as => arithList as
  | .app .minus as => arithList as
  | .app .times as => arithList as
  | .app .div as => arithList as
  | .app (.fluent _) as => as.all isConstant
  | _ => false
def arithList : List Expr → Bool
  | [] => true
  | e :: es => arith e && arithList es
end

/-! ### ground fluents and the order "differs only in giving one ground fluent a larger value" -/

/-- a ground fluent: the fluent and the values of its arguments -/
abbrev GFluent := FluentRef × List Val

/-- the ground fluent a reported fluent expression denotes (its arguments are constants) -/
def key? : Expr → Option GFluent
  | .app (.fluent f) args => (constVals? args).map (fun vs => (f, vs))
  | _ => none

/-- some member of the reported set denotes the ground fluent `k` -/
def hasKey (k : GFluent) (l : List Expr) : Bool := l.any (fun h => key? h == some k)

/-- `ι ≤_k ι'`: the two interpretations agree on parameters, functions, domains and on every ground
    fluent other than `k`, and `ι'` gives `k` a value at least as large -/
structure Bump (k : GFluent) (ι ι' : Interp) : Prop where
  par : ι'.par = ι.par
  fn : ι'.fn = ι.fn
  dom : ι'.dom = ι.dom
  others : ∀ f vs, (f, vs) ≠ k → ι'.fl f vs = ι.fl f vs
  up : ∀ q q', ι.fl k.1 k.2 = some (.n q) → ι'.fl k.1 k.2 = some (.n q') → q ≤ q'

/-- what the pair of flags (reported among the positive fluents, reported among the negative fluents)
    claims about the values `q` (under `ι`) and `q'` (under `ι'`, `ι ≤_k ι'`):
    only positive → non-decreasing, only negative → non-increasing, neither → equal, both → nothing -/
def Claim (inPos inNeg : Bool) (q q' : Rat) : Prop :=
  (inNeg = false → q ≤ q') ∧ (inPos = false → q' ≤ q)

/-! ### typing hypotheses (C15's) on all leaves of an expression -/

/-- every leaf is within its declared type (C15's `LeafOK`: a parameter's value inhabits the type
    written on it, an object leaf carries the object's declared type) -/
def LeavesOK (E : TypeEnv) (O : String → Option String) (ι : Interp) (e : Expr) : Prop :=
  ∀ l, l ∈ e.leaves → LeafOK E O ι l

/-- the expressions a simplifier with configuration `cfg` can insert: initial values, defaults,
    function results -/
def tableValues (cfg : SimpCfg) : List Expr :=
  cfg.init.map (·.2) ++ cfg.defaults.map (·.2) ++ cfg.funs.map (·.2.2)

/-- "`ι` (with the variable environment `ρ`) is within the declared types of the problem `cfg` for
    the expression `e`": the hypotheses of C11 (`Respects`: user-typed values inside their types,
    static fluents fixed to their initial values; `WF`; `EnvOK`) and of C15 (`InterpOK`: every fluent
    takes values of its declared type; `VEnvOK`; every parameter leaf of `e` and of the problem's
    tables has a value of the type written on it). `oty` / `O` give the declared type of an object. -/
structure Within (cfg : SimpCfg) (oty O : String → Option String) (ι : Interp) (ρ : VEnv) (e : Expr) :
    Prop where
  respects : Simp.Respects cfg ι oty
  wf : Simp.WF ι oty e
  env : Simp.EnvOK ι ρ
  interp : InterpOK cfg.tenv O ι
  venv : VEnvOK cfg.tenv O ρ
  leaves : LeavesOK cfg.tenv O ι e
  tables : ∀ v, v ∈ tableValues cfg → LeavesOK cfg.tenv O ι v

/-! ### fluent dependence (syntactic) and sub-expressions, for the product / quotient clause -/

mutual
/-- the expression contains a fluent application -/
def hasFluent : Expr → Bool
  | .leaf _ => false
  | .app (.fluent _) _ => true
  | .app _ args => hasFluentList args
  | .quant _ _ b => hasFluent b
def hasFluentList : List Expr → Bool
  | [] => false
  | e :: es => hasFluent e || hasFluentList es
end

/-- `Sub s e`: `s` occurs in `e` (reflexive) -/
inductive Sub : Expr → Expr → Prop
  | refl (e : Expr) : Sub e e
  | app {s a : Expr} {op : Op} {args : List Expr} : a ∈ args → Sub s a → Sub s (.app op args)
  | quant {s b : Expr} {q : Quant} {vs : List Var} : Sub s b → Sub s (.quant q vs b)

end UPVerif.Lin
