import UPVerif.Lemmas.FromPddlAction
import UPVerif.Lemmas.CompileBasic
/-!
C21: what the relations between the two readers' results MEAN for the successor semantics of C01 (`Spec.successorOf`,
Spec/Successor.lean).  Two actions related by `ActRel` have, under every instantiation of their parameters and
universally quantified variables, the same documented successor in every well-typed state.
-/
namespace UPVerif.FromPddl
open UPVerif UPVerif.Expr UPVerif.Sim UPVerif.Spec

/-- an effect instance: the expressions instantiated, no quantified variable left -/
def instEff (σs : List Subst) (e : Effect) : Effect :=
  { fluent := instAll σs e.fluent, value := instAll σs e.value, cond := instAll σs e.cond, kind := e.kind, forall_ := [] }

def obsE : Except EvalErr (Option Fired) → Option (Option Fired)
  | .ok x => some x
  | .error _ => none

/-- what an effect instance does, as a function of the observations of its condition and value -/
def firedOf (f : FluentRef) (vs : List Val) (k : EffKind) (v : Val) : Option (Option Fired) :=
  match k with
  | .assign =>
    if f.ty == .bool then
      match v with
      | .b b => some (some (.setB (f, vs) b))
      | _ => none
    else some (some (.setV (f, vs) v))
  | .increase => (match v with
    | .n d => some (some (.delta (f, vs) d))
    | _ => none)
  | .decrease => (match v with
    | .n d => some (some (.delta (f, vs) (-d)))
    | _ => none)

def evalEffO (c : EvalCtx) (e : Effect) : Option (Option Fired) :=
  match e.fluent with
  | .app (.fluent f) args =>
    match evalArgs c args with
    | .error _ => none
    | .ok vs =>
      match obs (eval c [] e.cond) with
      | none => none
      | some cv =>
        if cv == .b true then
          match obs (eval c [] e.value) with
          | none => none
          | some v => firedOf f vs e.kind v
        else some none
  | _ => none

theorem isTrue_eq_tt {e : Expr} (h : e.isTrue = true) : e = Expr.tt := by
  cases e with
  | leaf l =>
    cases l with
    | boolC b => cases b <;> simp [Expr.isTrue] at h ⊢; rfl
    | intC _ => simp [Expr.isTrue] at h
    | realC _ => simp [Expr.isTrue] at h
    | obj _ _ => simp [Expr.isTrue] at h
    | param _ _ => simp [Expr.isTrue] at h
    | var _ => simp [Expr.isTrue] at h
    | timing _ => simp [Expr.isTrue] at h
    | present _ => simp [Expr.isTrue] at h
  | app _ _ => simp [Expr.isTrue] at h
  | quant _ _ _ => simp [Expr.isTrue] at h

theorem obsE_evalEff (c : EvalCtx) (e : Effect) : obsE (evalEff c e) = evalEffO c e := by
  obtain ⟨fl, v, cnd, k, fa⟩ := e
  cases fl with
  | leaf _ => rfl
  | quant _ _ _ => rfl
  | app op args =>
    cases op <;> first | rfl | skip
    rename_i f
    simp only [evalEff, evalEffO]
    cases evalArgs c args with
    | error x => rfl
    | ok vs =>
      simp only
      have hval : ∀ r : Except EvalErr Val,
          obsE (match r with
            | .error x => .error x
            | .ok vv =>
              match k with
              | .assign =>
                if f.ty == .bool then
                  match vv with
                  | .b b => .ok (some (.setB (f, vs) b))
                  | _ => .error .other
                else .ok (some (.setV (f, vs) vv))
              | .increase => (match vv with
                | .n d => .ok (some (.delta (f, vs) d))
                | _ => .error .other)
              | .decrease => (match vv with
                | .n d => .ok (some (.delta (f, vs) (-d)))
                | _ => .error .other)) =
          (match obs r with
            | none => none
            | some vv => firedOf f vs k vv) := by
        intro r
        cases r with
        | error x => rfl
        | ok vv =>
          simp only [obs, firedOf]
          cases k with
          | assign =>
            cases hb : (f.ty == Ty.bool) with
            | true => cases vv <;> rfl
            | false => rfl
          | increase => cases vv <;> rfl
          | decrease => cases vv <;> rfl
      by_cases hcond : cnd.isTrue = true
      · -- unconditional: the condition is the constant `true`
        have htt := isTrue_eq_tt hcond
        subst htt
        have h1 : obs (eval c [] Expr.tt) = some (Val.b true) := rfl
        simp only [Effect.isConditional, hcond, Bool.not_true, Bool.false_eq_true, if_false, h1, beq_self_eq_true, if_true]
        exact hval _
      · have hnc : cnd.isTrue = false := by simpa using hcond
        simp only [Effect.isConditional, hnc, Bool.not_false, if_true]
        cases hc : eval c [] cnd with
        | error x => rfl
        | ok cv =>
          simp only [obs]
          cases hcv : (cv == Val.b true) with
          | false => rfl
          | true =>
            simp only [if_true]
            exact hval _

/-- related effects do the same thing in every well-typed state, under every instantiation -/
theorem evalEff_congr {r r' : Effect} (h : EffRel r r') (σs : List Subst) (c : EvalCtx) (w : WTCtx c) :
    obsE (evalEff c (instEff σs r)) = obsE (evalEff c (instEff σs r')) := by
  rw [obsE_evalEff, obsE_evalEff]
  unfold evalEffO instEff
  simp only [h.fluent, h.kind, h.value.eq σs c [] w, h.cond.eqW σs c [] w]

theorem fired_eq_of_obs (c : EvalCtx) : ∀ {E E' : List Effect}, All2 (fun a b => obsE (evalEff c a) = obsE (evalEff c b)) E E' →
    fired c E = fired c E'
  | [], [], _ => rfl
  | a :: E, b :: E', h => by
    have ih := fired_eq_of_obs c h.2
    have h1 : obsE (evalEff c a) = obsE (evalEff c b) := h.1
    simp only [fired, ih]
    cases ha : evalEff c a with
    | error x =>
      cases hb : evalEff c b with
      | error y => rfl
      | ok o => rw [ha, hb] at h1; simp [obsE] at h1
    | ok o =>
      cases hb : evalEff c b with
      | error y => rw [ha, hb] at h1; simp [obsE] at h1
      | ok o' =>
        rw [ha, hb] at h1
        simp only [obsE, Option.some.injEq] at h1
        rw [h1]
  | [], _ :: _, h => h.elim
  | _ :: _, [], h => h.elim

theorem all2_instEff {l l' : List Effect} (h : All2 EffRel l l') (σs : List Subst) (c : EvalCtx) (w : WTCtx c) :
    All2 (fun a b => obsE (evalEff c a) = obsE (evalEff c b)) (l.map (instEff σs)) (l'.map (instEff σs)) :=
  All2.map (S := fun a b => obsE (evalEff c a) = obsE (evalEff c b)) (instEff σs) (instEff σs)
    (fun _ _ hr => evalEff_congr hr σs c w) h

/-- the preconditions: a conjunction is TRUE iff all conjuncts are; related conjunctions are TRUE together -/
theorem preOK_congr {pre pre' : List Expr} (h : GdRel (mkAnd pre) (mkAnd pre')) (σs : List Subst) (c : EvalCtx) (w : WTCtx c) :
    preOK c (pre.map (instAll σs)) = preOK c (pre'.map (instAll σs)) := by
  rw [← Compile.isTrue_mkAnd, ← Compile.isTrue_mkAnd, ← instAll_mkAnd, ← instAll_mkAnd]
  have := h.eqW σs c [] w
  cases h1 : eval c [] (instAll σs (mkAnd pre)) with
  | error x =>
    cases h2 : eval c [] (instAll σs (mkAnd pre')) with
    | error y => rfl
    | ok v => rw [h1, h2] at this; simp [obs] at this
  | ok v =>
    cases h2 : eval c [] (instAll σs (mkAnd pre')) with
    | error y => rw [h1, h2] at this; simp [obs] at this
    | ok v' =>
      rw [h1, h2] at this
      simp only [obs, Option.some.injEq] at this
      rw [this]

/-- **Semantics of the relation.**  Preconditions related as conjunctions and effects related up to order: the same
    documented successor (C01) from every well-typed state, under every instantiation. -/
theorem successorOf_congr (W : World) (s : SimState) (w : WTCtx (ctx W s)) {pre pre' : List Expr} {E E' : List Effect}
    (hp : GdRel (mkAnd pre) (mkAnd pre')) (he : EffsRel E E') (σs : List Subst) :
    successorOf W s (pre.map (instAll σs)) (E.map (instEff σs)) =
      successorOf W s (pre'.map (instAll σs)) (E'.map (instEff σs)) := by
  obtain ⟨l, l', p, p', r⟩ := he
  rw [successorOf_perm W s _ (p.map (instEff σs)), successorOf_perm W s _ (p'.map (instEff σs))]
  rw [Compile.successorOf_eq_succOf, Compile.successorOf_eq_succOf]
  exact Compile.succOf_congr W _ (preOK_congr hp σs _ w) (fired_eq_of_obs _ (all2_instEff r σs _ w))

end UPVerif.FromPddl
