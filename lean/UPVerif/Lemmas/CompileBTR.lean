import UPVerif.Lemmas.CompileBTRInit
import UPVerif.Lemmas.CompileBTRForall
/-!
`BoundedTypesRemover` as a forward simulation up to viability (soundness) and a backward simulation (completeness,
same plan length).

The original problem checks the bounds of its numeric fluents as invariants of the simulator (`invOK`: a step whose
successor violates a bound is not applicable).  The compiled problem has unbounded copies of the fluents and the
conjunction of the bound conditions in every precondition and in the goal; a compiled step may leave the bounds,
but such a state is a dead end.  States are related by `Rel`: the original state reads, on every declared fluent,
the value of its unbounded copy; viability of a compiled state = the bound conditions hold in it.
-/
namespace UPVerif.Compile
open UPVerif UPVerif.Expr UPVerif.Sim UPVerif.Spec UPVerif.Simulation

/-- hypotheses of the BoundedTypesRemover theorems on the problem (all decidable except those on the simplifiers) -/
structure BtrOK (simp : Expr → Expr) (W : World) (c : Compiled) : Prop where
  /-- the compile-time simplifier keeps the truth of preconditions, goals and invariants -/
  simpOK : SimpTruth simp
  /-- two declared fluents with the same unbounded copy (same name and signature) are the same fluent -/
  inj : Inj (declared W.P)
  /-- preconditions: in the expression manager's normal form (every real `FNode` is), over declared fluents -/
  pre : ∀ a ∈ W.P.actions, ∀ p ∈ a.pre, normal p = true ∧ refsIn (declared W.P) p = true
  /-- effects (forall effects included): normal form, declared fluents, well-formed (`Effect.__init__` rebuilds them
      unchanged) -/
  effs : ∀ a ∈ W.P.actions, ∀ e ∈ a.effs,
    (normal e.fluent = true ∧ normal e.value = true ∧ normal e.cond = true) ∧
    effRefsIn (declared W.P) e = true ∧ applyFnEffect id e = some e
  goals : ∀ g ∈ W.P.goals, normal g = true ∧ refsIn (declared W.P) g = true
  init : ∀ fv ∈ W.P.init, normal fv.1 = true ∧ normal fv.2 = true ∧ refsIn (declared W.P) fv.1 = true
  /-- the `Always` constraints (they stay in the compiled problem): quantifier-free bodies in normal form over
      declared fluents … -/
  invs : ∀ si ∈ stateInvariants W.P, removeQuantifiers W.P si = si ∧ normal si = true ∧
    refsIn (declared W.P) si = true
  /-- … which the compiled problem keeps, renamed and simplified, and which stay quantifier-free -/
  invsC : stateInvariants c.prob = (stateInvariants W.P).map (fun si => simp (retype si))
  invsCq : ∀ si ∈ stateInvariants c.prob, removeQuantifiers c.prob si = si
  /-- the simulator's own simplifier keeps the truth of the invariants it is applied to (vacuous without `Always`) -/
  wsimp : SimpTruthOn W.simp (stateInvariants W.P)
  wsimpC : SimpTruthOn W.simp (stateInvariants c.prob)

/-- viability of a compiled state: the bound conditions hold -/
def btrV (W : World) (c : Compiled) (gB : St) : Prop :=
  Spec.isTrue (eval (ctxOf (withProblem W c.prob) gB) [] (mkAnd (btrConditions W.P))) = true

section
variable {simp : Expr → Expr} {W : World} {c : Compiled}

theorem btr_heff (hok : BtrOK simp W c) {a : Action} (ha : a ∈ W.P.actions) :
    ∀ e ∈ a.effs, applyFnEffect retype e = some (rnEff e) :=
  fun e he => applyFnEffect_retype (hok.effs a ha e he).1 (hok.effs a ha e he).2.2

theorem btr_expand (_hok : BtrOK simp W c) (ht : c.prob.types = W.P.types) (ho : c.prob.objects = W.P.objects)
    (a : Action) : expandEffs c.prob (a.effs.map rnEff) = (expandEffs W.P a.effs).map rnEff :=
  expandEffs_rn ht ho a.effs

theorem btr_hrefs (hok : BtrOK simp W c) {a : Action} (ha : a ∈ W.P.actions) :
    ∀ x ∈ expandEffs W.P a.effs, effRefsIn (declared W.P) x = true :=
  effRefsIn_expand W.P (fun e he => (hok.effs a ha e he).2.1)

/-- the `Always` invariants of the compiled problem, read in a related original state -/
theorem btr_invA (hok : BtrOK simp W c) (ht : c.prob.types = W.P.types) (ho : c.prob.objects = W.P.objects)
    (hfl : c.prob.fluents = W.P.fluents.map (fun d => { d with ref := unboundRef d.ref })) {gB gA : St}
    (hR : Rel (declared W.P) gB gA) :
    invOK (withProblem W c.prob) (ctxOf (withProblem W c.prob) gB) = invA W gA := by
  rw [invOK_btr' hfl hok.wsimpC hok.invsCq, hok.invsC, preOK_map_simp hok.simpOK _ retype,
    retype_map_eq (fun si hsi => (hok.invs si hsi).2.1),
    preOK_rn (relCtx_of ht ho hR) (fun si hsi => (hok.invs si hsi).2.2)]
  rfl

theorem btr_invOK_orig (hok : BtrOK simp W c) (g : St) :
    invOK W (ctxOf W g) = (invA W g && invB W (ctxOf W g)) :=
  invOK_split' hok.wsimp (fun si hsi => (hok.invs si hsi).1) _

/-- the compiled preconditions in a compiled state: the original ones in a related state, and the bounds -/
theorem btr_pre (hok : BtrOK simp W c) (ht : c.prob.types = W.P.types) (ho : c.prob.objects = W.P.objects)
    {a a' : Action} (ha : a ∈ W.P.actions)
    (hinv : invAction simp retype (mkAnd (btrConditions W.P)) a = some (some a')) {gB gA : St}
    (hR : Rel (declared W.P) gB gA) :
    preOK (ctxOf (withProblem W c.prob) gB) a'.pre =
      (preOK (ctxOf W gA) a.pre && invB W (ctxOf W gA)) := by
  obtain ⟨_, rfl⟩ := invAction_some_fn (btr_heff hok ha) hinv
  have hrc := relCtx_of ht ho hR
  dsimp only
  rw [invAction_pre_fn hok.simpOK, retype_map_eq (fun p hp => (hok.pre a ha p hp).1),
    preOK_rn hrc (fun p hp => (hok.pre a ha p hp).2), btr_cond_true W.P hrc]
  rfl

/-- … whatever the original state: the bound conditions are among the compiled preconditions -/
theorem btr_pre_V (hok : BtrOK simp W c) {a a' : Action} (ha : a ∈ W.P.actions)
    (hinv : invAction simp retype (mkAnd (btrConditions W.P)) a = some (some a')) {gB : St}
    (hp : preOK (ctxOf (withProblem W c.prob) gB) a'.pre = true) : btrV W c gB := by
  obtain ⟨_, rfl⟩ := invAction_some_fn (btr_heff hok ha) hinv
  dsimp only at hp
  rw [invAction_pre_fn hok.simpOK, Bool.and_eq_true] at hp
  exact hp.2

/-- one compiled step, read in a related original state -/
theorem btr_step_iff (hok : BtrOK simp W c) (ht : c.prob.types = W.P.types) (ho : c.prob.objects = W.P.objects)
    (hfl : c.prob.fluents = W.P.fluents.map (fun d => { d with ref := unboundRef d.ref }))
    {a a' : Action} (ha : a ∈ W.P.actions)
    (hinv : invAction simp retype (mkAnd (btrConditions W.P)) a = some (some a')) {gB gA : St}
    (hR : Rel (declared W.P) gB gA) (gB' : St) :
    stepAct (withProblem W c.prob) gB a' = some gB' ↔
      (a.params.isEmpty = true ∧ preOK (ctxOf W gA) a.pre = true ∧ invB W (ctxOf W gA) = true ∧
        ∃ F, fired (ctxOf W gA) (expandEffs W.P a.effs) = some F ∧ Cons gA F ∧
          invA W (succGet gA F) = true ∧ gB' = succGet gB (F.map rnFired)) := by
  have hpre := btr_pre hok ht ho ha hinv hR
  obtain ⟨_, ha'⟩ := invAction_some_fn (btr_heff hok ha) hinv
  have hparams : a'.params = a.params := by rw [ha']
  have heffs : a'.effs = a.effs.map rnEff := by rw [ha']
  have hrc := relCtx_of ht ho hR
  have hx := btr_expand hok ht ho a
  have hrefs := btr_hrefs hok ha
  have hfired := fired_rn hrc (expandEffs W.P a.effs) hrefs
  unfold stepAct
  rw [hparams]
  by_cases hp : a.params.isEmpty = true
  · simp only [hp, if_true, true_and]
    have hQ : (withProblem W c.prob).P = c.prob := rfl
    rw [succOf_iff, hpre, Bool.and_eq_true, hQ, heffs, hx, hfired]
    constructor
    · rintro ⟨⟨h1, h2⟩, FB, hFB, hcons, hi, rfl⟩
      cases hFA : fired (ctxOf W gA) (expandEffs W.P a.effs) with
      | none => rw [hFA] at hFB; cases hFB
      | some F =>
        rw [hFA] at hFB
        simp only [Option.map_some, Option.some.injEq] at hFB
        subst hFB
        have hkeys := fired_keysIn hrefs hFA
        rw [btr_invA hok ht ho hfl (succGet_rn hok.inj hR hkeys)] at hi
        exact ⟨h1, h2, F, rfl, (cons_rn hok.inj hR hkeys).1 hcons, hi, rfl⟩
    · rintro ⟨h1, h2, F, hFA, hcons, hi, rfl⟩
      have hkeys := fired_keysIn hrefs hFA
      refine ⟨⟨h1, h2⟩, F.map rnFired, by rw [hFA]; rfl, (cons_rn hok.inj hR hkeys).2 hcons, ?_, rfl⟩
      rw [btr_invA hok ht ho hfl (succGet_rn hok.inj hR hkeys)]
      exact hi
  · simp [hp]

/-- one original step -/
theorem btr_orig_step_iff (hok : BtrOK simp W c) (a : Action) (g g' : St) :
    stepAct W g a = some g' ↔
      (a.params.isEmpty = true ∧ preOK (ctxOf W g) a.pre = true ∧
        ∃ F, fired (ctxOf W g) (expandEffs W.P a.effs) = some F ∧ Cons g F ∧
          invA W (succGet g F) = true ∧ invB W (ctxOf W (succGet g F)) = true ∧ g' = succGet g F) := by
  unfold stepAct
  by_cases hp : a.params.isEmpty = true
  · simp only [hp, if_true, true_and]
    rw [succOf_iff]
    constructor
    · rintro ⟨h1, F, hF, hc, hi, rfl⟩
      rw [btr_invOK_orig hok, Bool.and_eq_true] at hi
      exact ⟨h1, F, hF, hc, hi.1, hi.2, rfl⟩
    · rintro ⟨h1, F, hF, hc, hi1, hi2, rfl⟩
      refine ⟨h1, F, hF, hc, ?_, rfl⟩
      rw [btr_invOK_orig hok, hi1, hi2]; rfl
  · simp [hp]

/-- the compiled goal test: original goals and bounds -/
theorem btr_goal (hok : BtrOK simp W c) (ht : c.prob.types = W.P.types) (ho : c.prob.objects = W.P.objects)
    (hg : c.prob.goals = invGoals simp retype (mkAnd (btrConditions W.P)) W.P.goals) {gB gA : St}
    (hR : Rel (declared W.P) gB gA) :
    goalOK (withProblem W c.prob) gB = (goalOK W gA && invB W (ctxOf W gA)) := by
  have hrc := relCtx_of ht ho hR
  unfold goalOK
  have hQ : (withProblem W c.prob).P = c.prob := rfl
  rw [hQ, hg]
  have e1 : ∀ e, holdsG (withProblem W c.prob) gB e = Spec.isTrue (eval (ctxOf (withProblem W c.prob) gB) [] e) := by
    intro e; unfold holdsG; rw [isTrueB_evalBool]
  have e2 : ∀ e, holdsG W gA e = Spec.isTrue (eval (ctxOf W gA) [] e) := by
    intro e; unfold holdsG; rw [isTrueB_evalBool]
  rw [List.all_congr rfl e1, List.all_congr rfl e2, invGoals_all hok.simpOK,
    retype_map_eq (fun g hg => (hok.goals g hg).1), preOK_rn hrc (fun g hg => (hok.goals g hg).2),
    btr_cond_true W.P hrc]
  rfl

theorem btr_goal_V (hok : BtrOK simp W c)
    (hg : c.prob.goals = invGoals simp retype (mkAnd (btrConditions W.P)) W.P.goals) {gB : St}
    (h : goalOK (withProblem W c.prob) gB = true) : btrV W c gB := by
  unfold goalOK at h
  have hQ : (withProblem W c.prob).P = c.prob := rfl
  rw [hQ, hg] at h
  have e1 : ∀ e, holdsG (withProblem W c.prob) gB e = Spec.isTrue (eval (ctxOf (withProblem W c.prob) gB) [] e) := by
    intro e; unfold holdsG; rw [isTrueB_evalBool]
  rw [List.all_congr rfl e1, invGoals_all hok.simpOK, Bool.and_eq_true] at h
  exact h.2

/-- BoundedTypesRemover is a FORWARD simulation up to viability (= the bounds hold): soundness -/
theorem btr_fwd (W : World) {c : Compiled} (hc : btrCompile simp W.P = some c) (hok : BtrOK simp W c) :
    Fwd (tsOf W) (tsOf (withProblem W c.prob)) (backOf c) (Rel (declared W.P)) (btrV W c) := by
  obtain ⟨ht, ho, hfl, hinit, hgoals, hfw, _⟩ := btrCompile_some hc
  have hQ : (withProblem W c.prob).P = c.prob := rfl
  refine ⟨?_, ?_, ?_, ?_, ?_, ?_⟩
  · intro sB hB hV
    obtain ⟨s0B, hs0B, hgB, hiB⟩ := initOf_eq hB
    rw [hQ, initialState_btr hinit (fun fv hfv => ⟨(hok.init fv hfv).1, (hok.init fv hfv).2.1⟩)] at hs0B
    cases hs0 : initialState? W.P with
    | none => rw [hs0] at hs0B; cases hs0B
    | some s0 =>
      rw [hs0] at hs0B
      simp only [Option.map_some, Option.some.injEq] at hs0B
      subst hs0B
      have hR : Rel (declared W.P) sB (s0.get W.P) := by
        rw [hgB, hQ]
        exact rel_init hfl hok.inj (initKeys_declared (fun fv hfv => (hok.init fv hfv).2.2) hs0)
      refine ⟨s0.get W.P, ?_, hR⟩
      show initOf W = some (s0.get W.P)
      unfold initOf
      rw [hs0]
      dsimp only
      have hV' : btrV W c sB := hV
      unfold btrV at hV'
      rw [btr_cond_true W.P (relCtx_of ht ho hR)] at hV'
      rw [btr_invA hok ht ho hfl hR] at hiB
      rw [btr_invOK_orig hok, hiB]
      unfold invB
      rw [hV']
      rfl
  · intro sB hg
    exact btr_goal_V hok hgoals hg
  · intro sB b sB' hstep
    obtain ⟨a', ha', hst⟩ := tsOf_step hstep
    obtain ⟨j, a, _, hao, hinv⟩ := hfw b a' ha'
    unfold stepAct at hst
    split at hst
    · exact btr_pre_V hok (List.mem_of_getElem? hao) hinv (succOf_some_pre hst)
    · cases hst
  · intro sB sA b sB' ao hR hstep hV hb
    obtain ⟨a', ha', hst⟩ := tsOf_step hstep
    obtain ⟨j, a, hbj, hao, hinv⟩ := hfw b a' ha'
    rw [hb] at hbj; cases hbj
    have hmem := List.mem_of_getElem? hao
    obtain ⟨h1, h2, _, F, hF, hcons, hia, rfl⟩ := (btr_step_iff hok ht ho hfl hmem hinv hR sB').1 hst
    have hkeys := fired_keysIn (btr_hrefs hok hmem) hF
    have hR' := succGet_rn hok.inj hR hkeys
    refine ⟨succGet sA F, ?_, hR'⟩
    rw [tsOf_step_intro hao]
    refine (btr_orig_step_iff hok a sA _).2 ⟨h1, h2, F, hF, hcons, hia, ?_, rfl⟩
    have hV' : btrV W c (succGet sB (F.map rnFired)) := hV
    unfold btrV at hV'
    rw [btr_cond_true W.P (relCtx_of ht ho hR')] at hV'
    exact hV'
  · intro sB sA b sB' hR hstep _ hb
    obtain ⟨a', ha', _⟩ := tsOf_step hstep
    obtain ⟨j, a, hbj, _⟩ := hfw b a' ha'
    rw [hb] at hbj; cases hbj
  · intro sB sA hR hg
    have : goalOK (withProblem W c.prob) sB = true := hg
    rw [btr_goal hok ht ho hgoals hR, Bool.and_eq_true] at this
    exact this.1

/-- BoundedTypesRemover is a BACKWARD simulation: completeness with the same plan length -/
theorem btr_bwd (W : World) {c : Compiled} (hc : btrCompile simp W.P = some c) (hok : BtrOK simp W c) :
    Bwd (tsOf W) (tsOf (withProblem W c.prob)) (backOf c)
      (fun gB gA => Rel (declared W.P) gB gA ∧ invB W (ctxOf W gA) = true) 0 := by
  obtain ⟨ht, ho, hfl, hinit, hgoals, _, hbw⟩ := btrCompile_some hc
  have hQ : (withProblem W c.prob).P = c.prob := rfl
  refine ⟨?_, ?_, ?_⟩
  · intro sA hA
    obtain ⟨s0, hs0, hg, hi⟩ := initOf_eq hA
    rw [btr_invOK_orig hok, Bool.and_eq_true] at hi
    have hR : Rel (declared W.P) ((rnState s0).get c.prob) sA := by
      rw [hg]
      exact rel_init hfl hok.inj (initKeys_declared (fun fv hfv => (hok.init fv hfv).2.2) hs0)
    refine ⟨(rnState s0).get c.prob, ?_, hR, hi.2⟩
    show initOf (withProblem W c.prob) = some ((rnState s0).get c.prob)
    unfold initOf
    rw [hQ, initialState_btr hinit (fun fv hfv => ⟨(hok.init fv hfv).1, (hok.init fv hfv).2.1⟩), hs0]
    dsimp only [Option.map_some]
    rw [btr_invA hok ht ho hfl hR, hi.1]
    rfl
  · intro sB sA j sA' hR hstep
    obtain ⟨hR, hV⟩ := hR
    obtain ⟨a, ha, hst⟩ := tsOf_step hstep
    have hmem := List.mem_of_getElem? ha
    obtain ⟨h1, h2, F, hF, hcons, hia, hib, rfl⟩ := (btr_orig_step_iff hok a sA sA').1 hst
    have hrc := relCtx_of ht ho hR
    -- the action is not dropped: its compiled condition is true here
    have hkept : ∃ a', invAction simp retype (mkAnd (btrConditions W.P)) a = some (some a') := by
      apply invAction_kept (c := ctxOf (withProblem W c.prob) sB) (btr_heff hok hmem)
      rw [hok.simpOK, isTrue_mkAnd, preOK_append, retype_map_eq (fun p hp => (hok.pre a hmem p hp).1),
        preOK_rn hrc (fun p hp => (hok.pre a hmem p hp).2), h2]
      have := btr_cond_true W.P hrc
      unfold invB at hV
      rw [hV] at this
      simp [preOK, this]
    obtain ⟨a', hinv⟩ := hkept
    obtain ⟨i, hi, hbi⟩ := hbw j a a' ha hinv
    have hkeys := fired_keysIn (btr_hrefs hok hmem) hF
    refine ⟨i, succGet sB (F.map rnFired), hbi, ?_, succGet_rn hok.inj hR hkeys, hib⟩
    rw [tsOf_step_intro hi]
    exact (btr_step_iff hok ht ho hfl hmem hinv hR _).2 ⟨h1, h2, hV, F, hF, hcons, hia, rfl⟩
  · intro sB sA hR hg
    obtain ⟨hR, hV⟩ := hR
    refine ⟨[], sB, Nat.le_refl _, rfl, rfl, ?_⟩
    show goalOK (withProblem W c.prob) sB = true
    have hg' : goalOK W sA = true := hg
    rw [btr_goal hok ht ho hgoals hR, hg', hV]
    rfl

end

end UPVerif.Compile
