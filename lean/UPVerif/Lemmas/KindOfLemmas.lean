import UPVerif.Core.KindOf
import UPVerif.Spec.Uses
/-! Helper lemmas for `Props/C10.lean`. -/
namespace UPVerif.KindOf
open UPVerif UPVerif.Spec

/-- membership in a literal list, by position -/
syntax "mem_lit" : tactic
macro_rules
  | `(tactic| mem_lit) => `(tactic| first | exact List.mem_cons_self | (apply List.mem_cons_of_mem; mem_lit))

/-! ### programs only ever remove SIMPLE_NUMERIC_PLANNING -/

/-- a feature no program removes -/
def Stable (f : Feature) : Prop := f ≠ SNP

mutual
theorem run_mono {f : Feature} (hf : Stable f) : ∀ (p : Prog) (k : KS), f ∈ k → f ∈ run p k
  | .set g, k, h => by simp [run, h]
  | .unsetSNP, k, h => by
    simp only [run, List.mem_filter]
    exact ⟨h, by simpa [Stable] using hf⟩
  | .when c p, k, h => by
    simp only [run]
    split
    · exact run_mono hf p k h
    · exact h
  | .seq ps, k, h => by
    simp only [run]
    exact runList_mono hf ps k h
theorem runList_mono {f : Feature} (hf : Stable f) : ∀ (ps : List Prog) (k : KS), f ∈ k → f ∈ runList ps k
  | [], k, h => by simpa [runList] using h
  | p :: ps, k, h => by
    simp only [runList]
    exact runList_mono hf ps _ (run_mono hf p k h)
end

/-- `Sets f p`: running `p` certainly executes a `set f` (all guards on the way are true) -/
inductive Sets (f : Feature) : Prog → Prop where
  | set : Sets f (.set f)
  | when {p : Prog} : Sets f p → Sets f (.when true p)
  | seq {ps : List Prog} {p : Prog} : p ∈ ps → Sets f p → Sets f (.seq ps)

theorem Sets.when' {f : Feature} {c : Bool} {p : Prog} (hc : c = true) (h : Sets f p) : Sets f (.when c p) := by
  subst hc; exact .when h

theorem Sets.ite {f : Feature} {c : Prop} [Decidable c] {p q : Prog} (hp : c → Sets f p) (hq : ¬c → Sets f q) :
    Sets f (if c then p else q) := by
  split
  · exact hp ‹_›
  · exact hq ‹_›

theorem runList_of_mem {f : Feature} (hf : Stable f) {p : Prog} (hp : ∀ k, f ∈ run p k) :
    ∀ (ps : List Prog) (k : KS), p ∈ ps → f ∈ runList ps k
  | [], _, h => by cases h
  | q :: qs, k, h => by
    simp only [runList]
    rcases List.mem_cons.1 h with rfl | h'
    · exact runList_mono hf qs _ (hp k)
    · exact runList_of_mem hf hp qs _ h'

theorem run_sets {f : Feature} (hf : Stable f) {p : Prog} (h : Sets f p) : ∀ k, f ∈ run p k := by
  induction h with
  | set => intro k; simp [run]
  | when _ ih => intro k; simpa [run] using ih k
  | seq hm _ ih => intro k; simp only [run]; exact runList_of_mem hf ih _ k hm

/-! ### `finalize` only removes SIMPLE_NUMERIC_PLANNING and CONTINUOUS_TIME -/

theorem finalize_mono {f : Feature} (P : KProblem) (h1 : f ≠ SNP) (h2 : f ≠ "CONTINUOUS_TIME") {k : KS}
    (h : f ∈ k) : f ∈ finalize P k := by
  have a : f ∈ finNumeric k := by
    unfold finNumeric
    split
    · exact List.mem_filter.2 ⟨h, by simpa using h1⟩
    · split
      · exact List.mem_cons_of_mem _ h
      · exact h
  have b : f ∈ finDiscrete P (finNumeric k) := by
    unfold finDiscrete
    split
    · exact List.mem_filter.2 ⟨List.mem_cons_of_mem _ a, by simpa using h2⟩
    · exact a
  unfold finalize finOverlap
  split
  · exact List.mem_cons_of_mem _ b
  · exact b

/-! ### sub-expressions versus the model's walkers -/

theorem opsOfList_mem {t : NodeKind} {a : Expr} : ∀ {as : List Expr}, a ∈ as → t ∈ opsOf a → t ∈ opsOfList as
  | [], h, _ => by cases h
  | b :: bs, h, ht => by
    simp only [opsOfList, List.mem_append]
    rcases List.mem_cons.1 h with rfl | h'
    · exact Or.inl ht
    · exact Or.inr (opsOfList_mem h' ht)

theorem opsOf_self (e : Expr) : nodeKind e ∈ opsOf e := by
  cases e <;> simp [opsOf]

theorem sub_ops {s e : Expr} (h : Sub s e) : nodeKind s ∈ opsOf e := by
  induction h with
  | refl => exact opsOf_self _
  | arg hm _ ih => simp only [opsOf]; exact List.mem_cons_of_mem _ (opsOfList_mem hm ih)
  | body _ ih => simp only [opsOf]; exact List.mem_cons_of_mem _ ih

theorem fluentRefsList_mem {f : FluentRef} {a : Expr} :
    ∀ {as : List Expr}, a ∈ as → f ∈ fluentRefs a → f ∈ fluentRefsList as
  | [], h, _ => by cases h
  | b :: bs, h, hf => by
    simp only [fluentRefsList, List.mem_append]
    rcases List.mem_cons.1 h with rfl | h'
    · exact Or.inl hf
    · exact Or.inr (fluentRefsList_mem h' hf)

theorem fluentRefs_app_of_list {f : FluentRef} {op : Op} {as : List Expr} (h : f ∈ fluentRefsList as) :
    f ∈ fluentRefs (.app op as) := by
  cases op <;> simp [fluentRefs, h]

theorem sub_fluentRefs {f : FluentRef} {args : List Expr} {e : Expr} (h : Sub (.app (.fluent f) args) e) :
    f ∈ fluentRefs e := by
  generalize hs : Expr.app (.fluent f) args = s at h
  induction h with
  | refl => subst hs; simp [fluentRefs]
  | arg hm _ ih => exact fluentRefs_app_of_list (fluentRefsList_mem hm ih)
  | body _ ih => simp only [fluentRefs]; exact ih

theorem mentions_fluentRefs {e : Expr} {f : FluentRef} (h : Mentions e f) : f ∈ fluentRefs e := by
  obtain ⟨args, hs⟩ := h
  exact sub_fluentRefs hs

mutual
theorem fluentRefs_mentions {f : FluentRef} : ∀ (e : Expr), f ∈ fluentRefs e → Mentions e f
  | .leaf _, h => by simp [fluentRefs] at h
  | .app op as, h => by
    have key : f ∈ fluentRefsList as → Mentions (.app op as) f := fun h' => by
      obtain ⟨a, ha, args, hs⟩ := fluentRefsList_mentions as h'
      exact ⟨args, .arg ha hs⟩
    cases op with
    | fluent g =>
      simp only [fluentRefs, List.mem_cons] at h
      rcases h with rfl | h'
      · exact ⟨as, .refl _⟩
      · exact key h'
    | _ => exact key (by simpa [fluentRefs] using h)
  | .quant q vs b, h => by
    simp only [fluentRefs] at h
    obtain ⟨args, hs⟩ := fluentRefs_mentions b h
    exact ⟨args, .body hs⟩
theorem fluentRefsList_mentions {f : FluentRef} :
    ∀ (as : List Expr), f ∈ fluentRefsList as → ∃ a, a ∈ as ∧ Mentions a f
  | [], h => by simp [fluentRefsList] at h
  | a :: as, h => by
    simp only [fluentRefsList, List.mem_append] at h
    rcases h with h | h
    · exact ⟨a, List.mem_cons_self, fluentRefs_mentions a h⟩
    · obtain ⟨b, hb, hm⟩ := fluentRefsList_mentions as h
      exact ⟨b, List.mem_cons_of_mem _ hb, hm⟩
end

end UPVerif.KindOf
