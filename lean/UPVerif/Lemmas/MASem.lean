import UPVerif.Spec.MASuccessor
import UPVerif.Lemmas.BoolDen
import UPVerif.Lemmas.DnfLemmas
import UPVerif.Lemmas.SimFold
import UPVerif.Lemmas.SpecPerm
import UPVerif.Core.Compile.MACond
/-!
Helper lemmas for `Props/C37.lean`, semantic side: the Boolean view of the agent's reading of a
state, evaluation of effects with and without their condition, the fired effects as a
filter-map, permutation and DUPLICATION invariance of the documented successor.
-/
namespace UPVerif.MASpec
open UPVerif UPVerif.Expr UPVerif.Sim UPVerif.Spec UPVerif.MA

/-- Boolean value of a condition for agent `V` in `g` (`none` = undefined or not Boolean) -/
def bval (V : View) (g : GState) (e : Expr) : Option Bool := bden (V.interp g) [] e

theorem holds_eq_lval (V : View) (g : GState) (e : Expr) : holds V g e = lval (V.interp g) [] e := by
  unfold holds lval value bden toB
  cases h : den (V.interp g) [] e with
  | none => simp
  | some v =>
    cases v with
    | b x => cases x <;> rfl
    | n q => simp
    | o s => simp

theorem holds_iff {V : View} {g : GState} {e : Expr} : holds V g e = true ↔ bval V g e = some true := by
  rw [holds_eq_lval]; unfold lval bval; simp

theorem holds_of_bval {V : View} {g : GState} {e : Expr} {b : Bool} (h : bval V g e = some b) :
    holds V g e = b := by
  rw [holds_eq_lval]; exact lval_of_bden h

theorem all_holds_eq_cval (V : View) (g : GState) (c : List Expr) :
    c.all (holds V g) = cval (V.interp g) [] c := by
  unfold cval
  congr 1
  funext e
  exact holds_eq_lval V g e

/-- every condition of the list is defined and Boolean -/
def AllDefined (V : View) (g : GState) (c : List Expr) : Prop := ∀ e ∈ c, ∃ b, bval V g e = some b

theorem bval_mkAnd {V : View} {g : GState} {c : List Expr} (h : AllDefined V g c) :
    bval V g (mkAnd c) = some (c.all (holds V g)) := by
  rw [all_holds_eq_cval]
  exact bden_mkAnd_of_allDef h

theorem holds_tt (V : View) (g : GState) : holds V g tt = true := holds_iff.2 bden_tt

theorem holds_mkNot {V : View} {g : GState} {e : Expr} {b : Bool} (h : bval V g e = some b) :
    holds V g (mkNot e) = !b := by
  apply holds_of_bval
  unfold bval
  rw [bden_mkNot]
  unfold bval at h
  rw [h]; rfl

/-! ### `add_precondition` does not change what the precondition list says -/

theorem all_addPre (V : View) (g : GState) (pre : List Expr) (e : Expr) :
    (addPre pre e).all (holds V g) = (pre.all (holds V g) && holds V g e) := by
  unfold addPre
  split
  · rename_i h; subst h; simp [holds_tt]
  · split
    · rename_i _ h
      have hm : e ∈ pre := by simpa using h
      cases hp : pre.all (holds V g) with
      | false => simp
      | true =>
        rw [List.all_eq_true] at hp
        simp [hp e hm]
    · simp [List.all_append]

theorem all_foldl_addPre (V : View) (g : GState) (cs : List Expr) : ∀ (pre : List Expr),
    (cs.foldl addPre pre).all (holds V g) = (pre.all (holds V g) && cs.all (holds V g)) := by
  induction cs with
  | nil => intro pre; simp
  | cons c cs ih =>
    intro pre
    rw [List.foldl_cons, ih, all_addPre, List.all_cons, Bool.and_assoc]

theorem mem_addPre {pre : List Expr} {e x : Expr} (h : x ∈ addPre pre e) : x ∈ pre ∨ x = e := by
  unfold addPre at h
  split at h
  · exact Or.inl h
  · split at h
    · exact Or.inl h
    · rcases List.mem_append.1 h with h | h
      · exact Or.inl h
      · right; simpa using h

theorem mem_foldl_addPre {cs : List Expr} : ∀ {pre : List Expr} {x : Expr},
    x ∈ cs.foldl addPre pre → x ∈ pre ∨ x ∈ cs := by
  induction cs with
  | nil => intro pre x h; exact Or.inl h
  | cons c cs ih =>
    intro pre x h
    rw [List.foldl_cons] at h
    rcases ih h with h | h
    · rcases mem_addPre h with h | h
      · exact Or.inl h
      · right; rw [h]; exact List.mem_cons_self ..
    · right; exact List.mem_cons_of_mem _ h

/-! ### the simplifier on a precondition list -/

/-- C11's theorem as a hypothesis (the same shape C12 uses): a defined Boolean value is kept -/
def SimpSound (V : View) (g : GState) (simp : Expr → Expr) : Prop := Expr.SimpSound (V.interp g) [] simp

/-- the identity is a sound simplifier (used by the witnesses and non-vacuity examples) -/
theorem simpSound_id (V : View) (g : GState) : SimpSound V g id := fun _ _ h => h

/-- C12's theorem as a hypothesis on the DNF walker handed to the compiler -/
def DnfSound (V : View) (g : GState) (dnfOf : Expr → Expr) : Prop :=
  ∀ e v, bval V g e = some v → bval V g (dnfOf e) = some v

/-- … which C12 proves for `Expr.dnf` over a sound simplifier -/
theorem dnfSound_dnf {V : View} {g : GState} {simp : Expr → Expr} (hs : SimpSound V g simp) :
    DnfSound V g (dnf simp) := by
  intro e v h
  have hn : bden (V.interp g) [] (nnf true e) = some v := by
    rw [(bden_nnf_both (V.interp g) []).1 true e]
    unfold bval at h
    rw [h]; rfl
  obtain ⟨hdef, hval⟩ := (dnfWalk_sem hs).1 (nnf true e) v hn
  unfold bval dnf
  rw [bden_dnfExpr hdef, hval]

theorem bval_boolC {V : View} {g : GState} {b v : Bool} (h : bval V g (.leaf (.boolC b)) = some v) : b = v := by
  have : bval V g (.leaf (.boolC b)) = some b := by
    cases b
    · exact bden_ff
    · exact bden_tt
  rw [this] at h; exact Option.some.inj h

theorem bval_and {V : View} {g : GState} {as : List Expr} {v : Bool} (h : bval V g (.app .and as) = some v) :
    as.all (holds V g) = v ∧ AllDefined V g as := by
  have := allDef_of_bden_and h
  rw [all_holds_eq_cval]
  exact ⟨this.2, this.1⟩

theorem readBack_cases {V : View} {g : GState} {s : Expr} {v : Bool} (hb : bval V g s = some v) :
    (readBack s = none ∧ v = false) ∨ ∃ l, readBack s = some l ∧ l.all (holds V g) = v := by
  unfold readBack
  split
  · rename_i b
    have := bval_boolC hb
    cases b with
    | true => right; exact ⟨[], by simp, by simp [← this]⟩
    | false => left; exact ⟨by simp, by simp [← this]⟩
  · rename_i as
    right; exact ⟨as, rfl, (bval_and hb).1⟩
  · right; exact ⟨[s], rfl, by simp [holds_of_bval hb]⟩

theorem simplifyPre_cases {V : View} {g : GState} {simp : Expr → Expr} (hs : SimpSound V g simp)
    {pre : List Expr} (hd : AllDefined V g pre) :
    (MA.simplifyPre simp pre = none ∧ pre.all (holds V g) = false) ∨
    ∃ pre', MA.simplifyPre simp pre = some pre' ∧ pre'.all (holds V g) = pre.all (holds V g) := by
  unfold MA.simplifyPre
  by_cases he : pre.isEmpty = true
  · have : pre = [] := by simpa using he
    subst this
    right; exact ⟨[], by simp, rfl⟩
  · have hb : bval V g (simp (mkAnd pre)) = some (pre.all (holds V g)) := hs _ _ (bval_mkAnd hd)
    simp only [he]
    rcases readBack_cases hb with ⟨h1, h2⟩ | ⟨l, h1, h2⟩
    · left; exact ⟨by simp [h1], h2.symm ▸ rfl⟩
    · right; exact ⟨l, by simp [h1], h2⟩

theorem simplifyPre_some {V : View} {g : GState} {simp : Expr → Expr} (hs : SimpSound V g simp)
    {pre pre' : List Expr} (hd : AllDefined V g pre) (h : MA.simplifyPre simp pre = some pre') :
    pre'.all (holds V g) = pre.all (holds V g) := by
  rcases simplifyPre_cases hs hd with ⟨h1, _⟩ | ⟨p, h1, h2⟩
  · rw [h1] at h; cases h
  · rw [h1] at h; cases h; exact h2

theorem simplifyPre_none {V : View} {g : GState} {simp : Expr → Expr} (hs : SimpSound V g simp)
    {pre : List Expr} (hd : AllDefined V g pre) (h : MA.simplifyPre simp pre = none) :
    pre.all (holds V g) = false := by
  rcases simplifyPre_cases hs hd with ⟨_, h2⟩ | ⟨p, h1, _⟩
  · exact h2
  · rw [h1] at h; cases h

/-! ### evaluation of one effect, with and without its condition -/

/-- the state is total and well-sorted for the effect: ignoring the condition it evaluates to a
    fired effect, and the condition is Boolean -/
def EffDefined (V : View) (g : GState) (e : Effect) : Prop :=
  (∃ f, evalEff V g (uncond e) = some (some f)) ∧ ∃ b, bval V g e.cond = some b

theorem value_of_bval {V : View} {g : GState} {e : Expr} {b : Bool} (h : bval V g e = some b) :
    value V g e = some (.b b) := bden_eq_some.1 h

theorem isConditional_uncond (e : Effect) : (uncond e).isConditional = false := by
  simp [uncond, Effect.isConditional, Expr.isTrue, tt]

theorem not_isConditional {e : Effect} (h : e.isConditional = false) : e.cond = tt := by
  unfold Effect.isConditional Expr.isTrue at h
  split at h
  · rename_i heq; exact heq
  · simp at h

theorem evalEff_uncond (V : View) (g : GState) (e : Effect) :
    evalEff V g (uncond e) = (target V g e).bind (fun k => (firing V g e k).map some) := by
  unfold evalEff
  have h1 : target V g (uncond e) = target V g e := rfl
  have h2 : ∀ k, firing V g (uncond e) k = firing V g e k := fun _ => rfl
  rw [h1]
  cases target V g e with
  | none => rfl
  | some k => simp [isConditional_uncond, h2]

/-- with a Boolean condition, the effect fires exactly when the condition is true, as its
    unconditional copy does -/
theorem evalEff_of_defined {V : View} {g : GState} {e : Effect} {f : Fired} {b : Bool}
    (hu : evalEff V g (uncond e) = some (some f)) (hb : bval V g e.cond = some b) :
    evalEff V g e = some (if b then some f else none) := by
  rw [evalEff_uncond] at hu
  unfold evalEff
  cases ht : target V g e with
  | none => rw [ht] at hu; cases hu
  | some k =>
    rw [ht] at hu
    simp only [Option.bind_some] at hu
    by_cases hc : e.isConditional = true
    · simp only [hc, if_true, value_of_bval hb]
      cases b with
      | false => rfl
      | true => simpa using hu
    · have hc' : e.isConditional = false := by simpa using hc
      have hcond := not_isConditional hc'
      have : b = true := by
        rw [hcond] at hb
        have : bval V g tt = some true := bden_tt
        rw [this] at hb; exact (Option.some.inj hb).symm
      subst this
      simp only [hc', Bool.false_eq_true, if_false]
      simpa using hu

/-- replacing the condition does not change the unconditional copy -/
theorem uncond_withCond (e : Effect) (d : Expr) : uncond { e with cond := d } = uncond e := rfl

/-! ### the fired effects as a filter-map -/

def evOk (V : View) (g : GState) (e : Effect) : Bool := (evalEff V g e).isSome
def evSel (V : View) (g : GState) (e : Effect) : Option Fired := (evalEff V g e).join

theorem fired_eq (V : View) (g : GState) : ∀ (E : List Effect),
    fired V g E = if E.all (evOk V g) then some (E.filterMap (evSel V g)) else none
  | [] => rfl
  | e :: E => by
    have ih := fired_eq V g E
    have e1 : fired V g (e :: E) = (match evalEff V g e, fired V g E with
      | some none, some F => some F
      | some (some f), some F => some (f :: F)
      | _, _ => none) := rfl
    rw [e1, ih]
    have e2 : evOk V g e = (evalEff V g e).isSome := rfl
    have e3 : evSel V g e = (evalEff V g e).join := rfl
    simp only [List.all_cons, List.filterMap_cons, e2, e3]
    cases evalEff V g e with
    | none => simp
    | some o =>
      cases o with
      | none => cases E.all (evOk V g) <;> simp
      | some f => cases E.all (evOk V g) <;> simp

theorem fired_perm (V : View) (g : GState) {E E' : List Effect} (h : E.Perm E') :
    (fired V g E = none ∧ fired V g E' = none) ∨
    ∃ F F', fired V g E = some F ∧ fired V g E' = some F' ∧ F.Perm F' := by
  rw [fired_eq, fired_eq, h.all_eq]
  cases E'.all (evOk V g) with
  | false => left; simp
  | true => right; exact ⟨E.filterMap (evSel V g), E'.filterMap (evSel V g), by simp, by simp, h.filterMap _⟩

theorem fired_append (V : View) (g : GState) (A B : List Effect) :
    fired V g (A ++ B) = (match fired V g A, fired V g B with
      | some a, some b => some (a ++ b)
      | _, _ => none) := by
  rw [fired_eq, fired_eq, fired_eq, List.all_append, List.filterMap_append]
  cases A.all (evOk V g) <;> cases B.all (evOk V g) <;> simp

theorem fired_of_defined {V : View} {g : GState} {E : List Effect} (h : ∀ e ∈ E, EffDefined V g e) :
    fired V g E = some (E.filterMap (evSel V g)) := by
  rw [fired_eq]
  have : E.all (evOk V g) = true := by
    rw [List.all_eq_true]
    intro e he
    obtain ⟨⟨f, hf⟩, ⟨b, hb⟩⟩ := h e he
    unfold evOk
    rw [evalEff_of_defined hf hb]; rfl
  simp [this]

/-! ### the successor does not see duplicated assignments -/

/-- same assigned values (as sets) and same increments (as lists) on every ground fluent -/
def DupEq (F F' : List Fired) : Prop :=
  ∀ k, (∀ b, b ∈ asgB F k ↔ b ∈ asgB F' k) ∧ (∀ v, v ∈ asgV F k ↔ v ∈ asgV F' k) ∧ deltas F k = deltas F' k

theorem DupEq.refl (F : List Fired) : DupEq F F := fun _ => ⟨fun _ => Iff.rfl, fun _ => Iff.rfl, rfl⟩

theorem DupEq.append {F F' G G' : List Fired} (h1 : DupEq F F') (h2 : DupEq G G') : DupEq (F ++ G) (F' ++ G') := by
  intro k
  obtain ⟨a1, b1, c1⟩ := h1 k
  obtain ⟨a2, b2, c2⟩ := h2 k
  refine ⟨?_, ?_, ?_⟩
  · intro b; simp only [asgB, List.filterMap_append, List.mem_append]; rw [← asgB, ← asgB, ← asgB, ← asgB, a1 b, a2 b]
  · intro v; simp only [asgV, List.filterMap_append, List.mem_append]; rw [← asgV, ← asgV, ← asgV, ← asgV, b1 v, b2 v]
  · simp only [deltas, List.filterMap_append]; rw [← deltas, ← deltas, ← deltas, ← deltas, c1, c2]

theorem nil_iff_of_mem_iff {α : Type} {l m : List α} (h : ∀ x, x ∈ l ↔ x ∈ m) : l = [] ↔ m = [] := by
  constructor
  · intro hl; subst hl
    cases m with
    | nil => rfl
    | cons x _ => exact absurd ((h x).2 (List.mem_cons_self ..)) (by simp)
  · intro hm; subst hm
    cases l with
    | nil => rfl
    | cons x _ => exact absurd ((h x).1 (List.mem_cons_self ..)) (by simp)

theorem consK_dup {cur : GKey → Option Val} {F F' : List Fired} (h : DupEq F F') (k : GKey) :
    ConsK cur F k ↔ ConsK cur F' k := by
  obtain ⟨hB, hV, hD⟩ := h k
  have hBn : asgB F k ≠ [] ↔ asgB F' k ≠ [] := not_congr (nil_iff_of_mem_iff hB)
  have hVn : asgV F k ≠ [] ↔ asgV F' k ≠ [] := not_congr (nil_iff_of_mem_iff hV)
  unfold ConsK
  rw [hD, hBn, hVn]
  constructor
  · rintro ⟨h1, h2, h3⟩
    exact ⟨fun v hv w hw => h1 v ((hV v).2 hv) w ((hV w).2 hw), h2, h3⟩
  · rintro ⟨h1, h2, h3⟩
    exact ⟨fun v hv w hw => h1 v ((hV v).1 hv) w ((hV w).1 hw), h2, h3⟩

theorem cons_dup {cur : GKey → Option Val} {F F' : List Fired} (h : DupEq F F') : Cons cur F ↔ Cons cur F' := by
  rw [cons_iff, cons_iff]
  exact forall_congr' (fun k => consK_dup h k)

theorem any_id_of_mem_iff {l m : List Bool} (h : ∀ x, x ∈ l ↔ x ∈ m) : l.any id = m.any id := by
  have : ∀ (l : List Bool), l.any id = true ↔ true ∈ l := by
    intro l; simp
  cases hl : l.any id with
  | true => exact ((this m).2 ((h true).1 ((this l).1 hl))).symm
  | false =>
    cases hm : m.any id with
    | false => rfl
    | true => rw [(this l).2 ((h true).2 ((this m).1 hm))] at hl; cases hl

theorem newVal_dup {cur : GKey → Option Val} {F F' : List Fired} (h : DupEq F F') (k : GKey)
    (hc : ConsK cur F k) : newVal cur F k = newVal cur F' k := by
  obtain ⟨hB, hV, hD⟩ := h k
  unfold newVal
  by_cases hb : asgB F k = []
  · have hb' : asgB F' k = [] := (nil_iff_of_mem_iff hB).1 hb
    simp only [hb, hb', ne_eq, not_true_eq_false, if_false]
    cases hv : asgV F k with
    | nil =>
      have hv' : asgV F' k = [] := (nil_iff_of_mem_iff hV).1 hv
      rw [hv', hD]
    | cons v vs =>
      cases hv' : asgV F' k with
      | nil => exact absurd ((nil_iff_of_mem_iff hV).2 hv') (by rw [hv]; simp)
      | cons w ws =>
        dsimp only
        have hw : w ∈ asgV F k := (hV w).2 (by rw [hv']; simp)
        rw [hc.1 v (by rw [hv]; simp) w hw]
  · have hb' : asgB F' k ≠ [] := fun x => hb ((nil_iff_of_mem_iff hB).2 x)
    simp only [ne_eq, hb, hb', not_false_eq_true, if_true, any_id_of_mem_iff hB]

theorem succGet_dup {cur : GKey → Option Val} {F F' : List Fired} (h : DupEq F F') (hc : Cons cur F) :
    succGet cur F = succGet cur F' := by
  funext k
  unfold succGet
  rw [newVal_dup h k ((cons_iff cur F).1 hc k)]

/-! ### the successor in terms of the fired effects -/

theorem successor_eq_of_perm {V : View} {g : GState} {pre pre' : List Expr} {E E' : List Effect}
    (hp : pre.all (holds V g) = pre'.all (holds V g))
    (hF : (fired V g E = none ∧ fired V g E' = none) ∨
      ∃ F F', fired V g E = some F ∧ fired V g E' = some F' ∧ F.Perm F') :
    successor V g pre E = successor V g pre' E' := by
  unfold successor
  rw [hp]
  split
  · rcases hF with ⟨h1, h2⟩ | ⟨F, F', h1, h2, hperm⟩
    · rw [h1, h2]
    · rw [h1, h2]
      dsimp only
      by_cases hc : Cons g F
      · have hc' : Cons g F' := (cons_perm hperm).1 hc
        rw [← succGet_perm hperm hc]
        simp [hc, hc']
      · have hc' : ¬ Cons g F' := fun x => hc ((cons_perm hperm).2 x)
        simp [hc, hc']
  · rfl

theorem successor_eq_of_dup {V : View} {g : GState} {pre pre' : List Expr} {E E' : List Effect}
    {F F' : List Fired} (hp : pre.all (holds V g) = pre'.all (holds V g))
    (h1 : fired V g E = some F) (h2 : fired V g E' = some F') (hd : DupEq F F') :
    successor V g pre E = successor V g pre' E' := by
  unfold successor
  rw [hp, h1, h2]
  split
  · dsimp only
    by_cases hc : Cons g F
    · have hc' : Cons g F' := (cons_dup hd).1 hc
      rw [← succGet_dup hd hc]
      simp [hc, hc']
    · have hc' : ¬ Cons g F' := fun x => hc ((cons_dup hd).2 x)
      simp [hc, hc']
  · rfl

end UPVerif.MASpec
