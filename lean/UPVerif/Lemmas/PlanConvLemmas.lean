import UPVerif.Core.PlanConv
import UPVerif.Lemmas.STNLemmas
/-!
Helper lemmas for `Props/C26.lean` (model: `Core/PlanConv.lean`).

* dictionaries: `appendAt` / `assign` as used by the constraint generation (`InDict`);
* `DictAll`: a predicate on `(key, bound)` pairs that holds for every stored constraint is preserved by
  `scanCons` / `adjCons` when it holds for what they add;
* events: every event's time is the ORIGINAL time of its generating node plus its skew;
* the original schedule satisfies every insertion (`orig_sol`);
* the event sequence is sorted by time.
-/
namespace UPVerif.PlanConv
open UPVerif.STN

/-! ### dictionaries of constraints -/

/-- the bound `y` is stored under key `k` -/
def InDict (d : ConsDict) (k : Node) (y : Bound) : Prop := ∃ v, (k, v) ∈ d ∧ y ∈ v

theorem appendAt_nil (k : Node) (x : Bound) : appendAt k x [] = [(k, [x])] := by
  simp [appendAt, lookup, assign]

theorem appendAt_cons (k k0 : Node) (x : Bound) (v0 : List Bound) (r : ConsDict) :
    appendAt k x ((k0, v0) :: r) = if k0 = k then (k0, v0 ++ [x]) :: r else (k0, v0) :: appendAt k x r := by
  unfold appendAt
  by_cases h : k0 = k
  · simp [lookup, assign, h]
  · simp [lookup, assign, h]

theorem inDict_appendAt (k : Node) (x : Bound) : ∀ (d : ConsDict) (k' : Node) (y : Bound),
    InDict (appendAt k x d) k' y ↔ (k' = k ∧ y = x) ∨ InDict d k' y := by
  intro d
  induction d with
  | nil =>
    intro k' y
    rw [appendAt_nil]
    simp only [InDict, List.mem_singleton, Prod.mk.injEq, List.not_mem_nil, false_and, exists_false, or_false]
    constructor
    · rintro ⟨v, ⟨h1, h2⟩, hy⟩
      subst h2
      exact ⟨h1, by simpa using hy⟩
    · rintro ⟨h1, h2⟩
      exact ⟨[x], ⟨h1, rfl⟩, by simp [h2]⟩
  | cons p r ih =>
    obtain ⟨k0, v0⟩ := p
    intro k' y
    rw [appendAt_cons]
    by_cases h : k0 = k
    · subst h
      simp only [if_true, InDict, List.mem_cons, Prod.mk.injEq]
      constructor
      · rintro ⟨v, (⟨rfl, rfl⟩ | hv), hy⟩
        · rcases List.mem_append.mp hy with hy | hy
          · exact Or.inr ⟨v0, Or.inl ⟨rfl, rfl⟩, hy⟩
          · simp only [List.mem_singleton] at hy
            exact Or.inl ⟨rfl, hy⟩
        · exact Or.inr ⟨v, Or.inr hv, hy⟩
      · rintro (⟨rfl, rfl⟩ | ⟨v, (⟨rfl, rfl⟩ | hv), hy⟩)
        · exact ⟨v0 ++ [y], Or.inl ⟨rfl, rfl⟩, by simp⟩
        · exact ⟨v ++ [x], Or.inl ⟨rfl, rfl⟩, List.mem_append_left _ hy⟩
        · exact ⟨v, Or.inr hv, hy⟩
    · simp only [h, if_false]
      have := ih k' y
      simp only [InDict, List.mem_cons, Prod.mk.injEq] at this ⊢
      constructor
      · rintro ⟨v, (⟨rfl, rfl⟩ | hv), hy⟩
        · exact Or.inr ⟨v, Or.inl ⟨rfl, rfl⟩, hy⟩
        · rcases this.mp ⟨v, hv, hy⟩ with h1 | ⟨v', hv', hy'⟩
          · exact Or.inl h1
          · exact Or.inr ⟨v', Or.inr hv', hy'⟩
      · rintro (h1 | ⟨v, (⟨rfl, rfl⟩ | hv), hy⟩)
        · obtain ⟨v, hv, hy⟩ := this.mpr (Or.inl h1)
          exact ⟨v, Or.inr hv, hy⟩
        · exact ⟨v, Or.inl ⟨rfl, rfl⟩, hy⟩
        · obtain ⟨v', hv', hy'⟩ := this.mpr (Or.inr ⟨v, hv, hy⟩)
          exact ⟨v', Or.inr hv', hy'⟩

theorem mem_assign_elim {α : Type} (k : Node) (v : α) : ∀ (d : List (Node × α)) (k' : Node) (v' : α),
    (k', v') ∈ assign k v d → (k' = k ∧ v' = v) ∨ (k', v') ∈ d := by
  intro d
  induction d with
  | nil => intro k' v' h; simp [assign] at h; exact Or.inl h
  | cons p r ih =>
    obtain ⟨k0, v0⟩ := p
    intro k' v' h
    simp only [assign] at h
    split at h
    · rename_i hk
      simp only [List.mem_cons, Prod.mk.injEq] at h
      rcases h with ⟨rfl, rfl⟩ | h
      · exact Or.inl ⟨hk, rfl⟩
      · exact Or.inr (List.mem_cons_of_mem _ h)
    · simp only [List.mem_cons, Prod.mk.injEq] at h
      rcases h with ⟨rfl, rfl⟩ | h
      · exact Or.inr (List.mem_cons_self ..)
      · rcases ih _ _ h with h1 | h1
        · exact Or.inl h1
        · exact Or.inr (List.mem_cons_of_mem _ h1)

theorem mem_assign_self {α : Type} (k : Node) (v : α) : ∀ (d : List (Node × α)), (k, v) ∈ assign k v d := by
  intro d
  induction d with
  | nil => simp [assign]
  | cons p r ih =>
    obtain ⟨k0, v0⟩ := p
    simp only [assign]
    split
    · rename_i hk; subst hk; exact List.mem_cons_self ..
    · exact List.mem_cons_of_mem _ ih

theorem mem_assign_other {α : Type} (k : Node) (v : α) : ∀ (d : List (Node × α)) (k' : Node) (v' : α),
    (k', v') ∈ d → k' ≠ k → (k', v') ∈ assign k v d := by
  intro d
  induction d with
  | nil => intro k' v' h; cases h
  | cons p r ih =>
    obtain ⟨k0, v0⟩ := p
    intro k' v' h hne
    simp only [assign]
    simp only [List.mem_cons, Prod.mk.injEq] at h
    split
    · rename_i hk
      rcases h with ⟨rfl, rfl⟩ | h
      · exact (hne hk).elim
      · exact List.mem_cons_of_mem _ h
    · rcases h with ⟨rfl, rfl⟩ | h
      · exact List.mem_cons_self ..
      · exact List.mem_cons_of_mem _ (ih _ _ h hne)

/-- membership in the flattened dictionary -/
theorem mem_flatten (d : ConsDict) (a b : Node) (lb : Rat) (ub : Option Rat) :
    (a, lb, ub, b) ∈ flatten d ↔ InDict d a (lb, ub, b) := by
  unfold flatten InDict
  simp only [List.mem_flatMap, List.mem_map, Prod.exists, Prod.mk.injEq]
  constructor
  · rintro ⟨k, v, hkv, lb', ub', b', hy, rfl, rfl, rfl, rfl⟩
    exact ⟨v, hkv, hy⟩
  · rintro ⟨v, hkv, hy⟩
    exact ⟨a, v, hkv, lb, ub, b, hy, rfl, rfl, rfl, rfl⟩

/-- `P` holds for every stored constraint -/
def DictAll (P : Node → Bound → Prop) (d : ConsDict) : Prop := ∀ k y, InDict d k y → P k y

theorem dictAll_nil (P : Node → Bound → Prop) : DictAll P [] := by
  intro k y h; obtain ⟨v, hv, _⟩ := h; cases hv

theorem dictAll_appendAt (P : Node → Bound → Prop) (d : ConsDict) (k : Node) (x : Bound)
    (hd : DictAll P d) (hx : P k x) : DictAll P (appendAt k x d) := by
  intro k' y h
  rcases (inDict_appendAt k x d k' y).mp h with ⟨rfl, rfl⟩ | h
  · exact hx
  · exact hd _ _ h

theorem dictAll_assign (P : Node → Bound → Prop) (d : ConsDict) (k : Node) (v : List Bound)
    (hd : DictAll P d) (hv : ∀ y ∈ v, P k y) : DictAll P (assign k v d) := by
  intro k' y h
  obtain ⟨v', hv', hy⟩ := h
  rcases mem_assign_elim k v d k' v' hv' with ⟨rfl, rfl⟩ | h1
  · exact hv y hy
  · exact hd _ _ ⟨v', h1, hy⟩

/-! ### what `scanCons` and `adjCons` store -/

theorem scanCons_all (P : Node → Bound → Prop) : ∀ (r : List Entry) (i : Nat) (d : ConsDict),
    DictAll P d →
    (∀ j e, r[j]? = some e → e.dur = none → P .startPlan ((0 : Rat), none, .start (i + j))) →
    (∀ j e du sh, r[j]? = some e → e.dur = some (du, sh) → P (.start (i + j)) (du, some du, .finish (i + j))) →
    DictAll P (scanCons i r d) := by
  intro r
  induction r with
  | nil => intro i d hd _ _; simpa [scanCons] using hd
  | cons e r ih =>
    intro i d hd h1 h2
    simp only [scanCons]
    have h1' : ∀ j e', r[j]? = some e' → e'.dur = none → P .startPlan ((0 : Rat), none, .start (i + 1 + j)) := by
      intro j e' hj hn
      have := h1 (j + 1) e' (by simpa using hj) hn
      rwa [show i + (j + 1) = i + 1 + j by omega] at this
    have h2' : ∀ j e' du sh, r[j]? = some e' → e'.dur = some (du, sh) →
        P (.start (i + 1 + j)) (du, some du, .finish (i + 1 + j)) := by
      intro j e' du sh hj hn
      have := h2 (j + 1) e' du sh (by simpa using hj) hn
      rwa [show i + (j + 1) = i + 1 + j by omega] at this
    split
    · rename_i hn
      refine ih (i + 1) _ (dictAll_appendAt P d _ _ hd ?_) h1' h2'
      simpa using h1 0 e (by simp) hn
    · rename_i du sh hn
      refine ih (i + 1) _ (dictAll_assign P d _ _ hd ?_) h1' h2'
      intro y hy
      simp only [List.mem_singleton] at hy
      subst hy
      simpa using h2 0 e du sh (by simp) hn

theorem edgesFrom_all (P : Node → Bound → Prop) (eps : Rat) (seq : List Event) (cur : Event) :
    ∀ (js : List Nat) (d : ConsDict), DictAll P d →
    (∀ j ∈ js, ∀ nxt b, seq[j]? = some nxt → edgeBound eps cur nxt = some b → P (startNodeOf cur.gen) b) →
    DictAll P (edgesFrom eps seq cur js d) := by
  intro js
  induction js with
  | nil => intro d hd _; simpa [edgesFrom] using hd
  | cons j r ih =>
    intro d hd h
    simp only [edgesFrom]
    have hr : ∀ j' ∈ r, ∀ nxt b, seq[j']? = some nxt → edgeBound eps cur nxt = some b → P (startNodeOf cur.gen) b :=
      fun j' hj' => h j' (List.mem_cons_of_mem _ hj')
    split
    · exact ih d hd hr
    · rename_i nxt hn
      split
      · rename_i b hb
        exact ih _ (dictAll_appendAt P d _ _ hd (h j (List.mem_cons_self ..) nxt b hn hb)) hr
      · exact ih d hd hr

theorem adjCons_all (P : Node → Bound → Prop) (eps : Rat) (seq : List Event) :
    ∀ (adj : List (Nat × List Nat)) (d : ConsDict), DictAll P d →
    (∀ p ∈ adj, ∀ j ∈ p.2, ∀ cur nxt b, seq[p.1]? = some cur → seq[j]? = some nxt →
      edgeBound eps cur nxt = some b → P (startNodeOf cur.gen) b) →
    DictAll P (adjCons eps seq adj d) := by
  intro adj
  induction adj with
  | nil => intro d hd _; simpa [adjCons] using hd
  | cons p r ih =>
    obtain ⟨i, js⟩ := p
    intro d hd h
    simp only [adjCons]
    have hr : ∀ p ∈ r, ∀ j ∈ p.2, ∀ cur nxt b, seq[p.1]? = some cur → seq[j]? = some nxt →
        edgeBound eps cur nxt = some b → P (startNodeOf cur.gen) b :=
      fun p hp => h p (List.mem_cons_of_mem _ hp)
    split
    · exact ih d hd hr
    · rename_i cur hc
      refine ih _ (edgesFrom_all P eps seq cur js d hd ?_) hr
      intro j hj nxt b hn hb
      exact h (i, js) (List.mem_cons_self ..) j hj cur nxt b hc hn hb

/-! ### events -/

theorem mem_insertEvent (e x : Event) : ∀ (l : List Event), x ∈ insertEvent e l ↔ x = e ∨ x ∈ l := by
  intro l
  induction l with
  | nil => simp [insertEvent]
  | cons y r ih =>
    simp only [insertEvent]
    split
    · simp
    · simp only [List.mem_cons, ih]
      constructor
      · rintro (h | h | h)
        · exact Or.inr (Or.inl h)
        · exact Or.inl h
        · exact Or.inr (Or.inr h)
      · rintro (h | h | h)
        · exact Or.inr (Or.inl h)
        · exact Or.inl h
        · exact Or.inr (Or.inr h)

theorem mem_foldl_insertEvent (x : Event) : ∀ (l acc : List Event),
    x ∈ l.foldl (fun acc e => insertEvent e acc) acc ↔ x ∈ l ∨ x ∈ acc := by
  intro l
  induction l with
  | nil => intro acc; simp
  | cons e r ih =>
    intro acc
    simp only [List.foldl_cons, ih, mem_insertEvent, List.mem_cons]
    constructor
    · rintro (h | h | h)
      · exact Or.inl (Or.inr h)
      · exact Or.inl (Or.inl h)
      · exact Or.inr h
    · rintro ((h | h) | h)
      · exact Or.inr (Or.inl h)
      · exact Or.inl h
      · exact Or.inr (Or.inr h)

theorem mem_seqEvents (inp : Input) (x : Event) : x ∈ seqEvents inp ↔ x ∈ allEvents inp := by
  unfold seqEvents
  rw [mem_foldl_insertEvent]
  simp

/-- the events contributed by the plan: generated by entry `i`, at the entry's start plus the skew -/
theorem mem_planEvents (eps : Rat) : ∀ (r : List Entry) (i : Nat) (x : Event), x ∈ planEvents eps i r →
    ∃ j e, r[j]? = some e ∧ x.gen = some (i + j) ∧ x.time = e.start + x.skew := by
  intro r
  induction r with
  | nil => intro i x h; simp [planEvents] at h
  | cons e r ih =>
    intro i x h
    simp only [planEvents, List.mem_append] at h
    rcases h with h | h
    · refine ⟨0, e, by simp, ?_⟩
      unfold entryEvents at h
      split at h
      · simp only [List.mem_singleton] at h
        subst h
        exact ⟨by simp, by simp; grind⟩
      · unfold durativeEvents at h
        simp only [List.mem_map] at h
        obtain ⟨t, _, rfl⟩ := h
        exact ⟨by simp, by simp; grind⟩
    · obtain ⟨j, e', hj, hg, ht⟩ := ih (i + 1) x h
      exact ⟨j + 1, e', by simpa using hj, by rw [hg]; congr 1; omega, ht⟩

/-- every event happens, in the original plan, at the original time of its generating node plus its skew -/
theorem event_time (inp : Input) (H : Rat) (x : Event) (hx : x ∈ allEvents inp) :
    x.time = origTime inp H (startNodeOf x.gen) + x.skew := by
  unfold allEvents at hx
  rcases List.mem_append.mp hx with h | h
  · unfold durativeEvents at h
    simp only [List.mem_map] at h
    obtain ⟨t, _, rfl⟩ := h
    simp only [startNodeOf, origTime]
    grind
  · obtain ⟨j, e, hj, hg, ht⟩ := mem_planEvents _ _ _ _ h
    rw [hg]
    simp only [startNodeOf, origTime, Nat.zero_add, hj, Option.map_some, Option.getD_some]
    exact ht

/-! ### the original schedule -/

/-- the nodes' original times lie between the plan's start (0) and the horizon -/
theorem orig_bounds (inp : Input) (H : Rat) (hnn : NonNegative inp) (h0 : 0 ≤ H)
    (hH : ∀ e ∈ inp.plan, e.start ≤ H ∧ e.start + (e.dur.map fun p => p.1).getD 0 ≤ H) :
    ∀ n, 0 ≤ origTime inp H n ∧ origTime inp H n ≤ H := by
  intro n
  cases n with
  | startPlan => exact ⟨Rat.le_refl, h0⟩
  | endPlan => exact ⟨h0, Rat.le_refl⟩
  | start i =>
    simp only [origTime]
    cases hi : inp.plan[i]? with
    | none => simpa using h0
    | some e =>
      have hm := List.mem_of_getElem? hi
      simp only [Option.map_some, Option.getD_some]
      exact ⟨(hnn e hm).1, (hH e hm).1⟩
  | finish i =>
    simp only [origTime]
    cases hi : inp.plan[i]? with
    | none => simpa using h0
    | some e =>
      have hm := List.mem_of_getElem? hi
      simp only [Option.map_some, Option.getD_some]
      refine ⟨?_, (hH e hm).2⟩
      have h1 := (hnn e hm).1
      cases hd : e.dur with
      | none => simp; grind
      | some p =>
        have h2 := (hnn e hm).2 p hd
        simp
        grind

/-- what it means for a schedule `t` to satisfy one constraint `(lower, upper, b)` stored under `a`,
including the four implied `0 ≤ · ≤ end of plan` constraints `STNPlan.__init__` adds -/
def TupleOK (t : Node → Rat) (a : Node) (y : Bound) : Prop :=
  t .startPlan ≤ t a ∧ t a ≤ t .endPlan ∧ t .startPlan ≤ t y.2.2 ∧ t y.2.2 ≤ t .endPlan ∧
  y.1 ≤ t y.2.2 - t a ∧ ∀ u, y.2.1 = some u → t y.2.2 - t a ≤ u

theorem tupleOK_sol (t : Node → Rat) (a b : Node) (lb : Rat) (ub : Option Rat)
    (h : TupleOK t a (lb, ub, b)) : Sol t (tupleInsertions (a, lb, ub, b)) := by
  obtain ⟨h1, h2, h3, h4, h5, h6⟩ := h
  simp only at h3 h4 h5 h6
  intro c hc
  simp only [tupleInsertions, List.mem_append, List.mem_ite_nil_right, List.mem_singleton] at hc
  rcases hc with ((((⟨_, rfl⟩ | ⟨_, rfl⟩) | ⟨_, rfl⟩) | ⟨_, rfl⟩) | rfl) | hc
  · simp only; grind
  · simp only; grind
  · simp only; grind
  · simp only; grind
  · simp only; grind
  · cases ub with
    | none => simp at hc
    | some u =>
      simp only [List.mem_singleton] at hc
      subst hc
      have := h6 u rfl
      simp only; grind

theorem sol_insertionsOf (t : Node → Rat) (d : ConsDict) (h0 : t .startPlan ≤ t .endPlan)
    (hd : DictAll (TupleOK t) d) : Sol t (insertionsOf d) := by
  intro c hc
  simp only [insertionsOf, List.mem_cons, List.mem_flatMap] at hc
  rcases hc with rfl | ⟨⟨a, lb, ub, b⟩, hm, hc⟩
  · simp only; grind
  · exact tupleOK_sol t a b lb ub (hd a (lb, ub, b) ((mem_flatten d a b lb ub).mp hm)) c hc

/-- **the original start times and durations satisfy every generated constraint** -/
theorem orig_sol (inp : Input) (H : Rat) (hnn : NonNegative inp) (h0 : 0 ≤ H)
    (hH : ∀ e ∈ inp.plan, e.start ≤ H ∧ e.start + (e.dur.map fun p => p.1).getD 0 ≤ H)
    (hedges : EdgesRespectTime inp) (hsep : Separated (epsilonOf inp) (seqEvents inp)) :
    Sol (origTime inp H) (insertions inp) := by
  have hb := orig_bounds inp H hnn h0 hH
  have hsp : origTime inp H .startPlan = 0 := rfl
  have hep : origTime inp H .endPlan = H := rfl
  refine sol_insertionsOf _ _ (by rw [hsp, hep]; exact h0) ?_
  unfold stnConstraints
  refine adjCons_all _ _ _ _ _ (scanCons_all _ _ _ _ (dictAll_nil _) ?_ ?_) ?_
  · -- instantaneous entries: start_plan --[0, +inf]--> START
    intro j e hj _
    refine ⟨?_, ?_, ?_, ?_, ?_, ?_⟩ <;> simp only [hsp, hep]
    · exact Rat.le_refl
    · exact h0
    · exact (hb _).1
    · exact (hb _).2
    · have := (hb (.start (0 + j))).1; grind
    · intro u hu; cases hu
  · -- durative entries: START --[d, d]--> END
    intro j e du sh hj hd
    have hs : origTime inp H (.start (0 + j)) = e.start := by simp [origTime, hj]
    have hf : origTime inp H (.finish (0 + j)) = e.start + du := by simp [origTime, hj, hd]
    refine ⟨?_, ?_, ?_, ?_, ?_, ?_⟩ <;> simp only [hsp, hep]
    · exact (hb _).1
    · exact (hb _).2
    · exact (hb _).1
    · exact (hb _).2
    · rw [hs, hf]; grind
    · intro u hu; cases hu; rw [hs, hf]; grind
  · -- ordering edges
    intro p hp j hj cur nxt b hc hn hbd
    have hcm : cur ∈ seqEvents inp := List.mem_of_getElem? hc
    have hnm : nxt ∈ seqEvents inp := List.mem_of_getElem? hn
    have tc := event_time inp H cur ((mem_seqEvents inp cur).mp hcm)
    have tn := event_time inp H nxt ((mem_seqEvents inp nxt).mp hnm)
    have hle := hedges p hp j hj cur nxt hc hn
    unfold edgeBound at hbd
    split at hbd
    · split at hbd
      · rename_i heq
        cases hbd
        refine ⟨?_, ?_, ?_, ?_, ?_, ?_⟩ <;> simp only [hsp, hep]
        · exact (hb _).1
        · exact (hb _).2
        · exact (hb _).1
        · exact (hb _).2
        · grind
        · intro u hu; cases hu; grind
      · rename_i hne
        cases hbd
        have hlt : cur.time < nxt.time := by
          rcases Rat.le_iff_lt_or_eq.mp hle with h | h
          · exact h
          · exact (hne h).elim
        have := hsep cur hcm nxt hnm hlt
        refine ⟨?_, ?_, ?_, ?_, ?_, ?_⟩ <;> simp only [hsp, hep]
        · exact (hb _).1
        · exact (hb _).2
        · exact (hb _).1
        · exact (hb _).2
        · grind
        · intro u hu; cases hu
    · cases hbd

end UPVerif.PlanConv

namespace UPVerif.PlanConv
open UPVerif.STN

/-! ### the horizon -/

theorem foldl_max_ge (f : Entry → Rat) : ∀ (l : List Entry) (m : Rat),
    m ≤ l.foldl (fun m e => max m (f e)) m ∧ ∀ e ∈ l, f e ≤ l.foldl (fun m e => max m (f e)) m := by
  intro l
  induction l with
  | nil => intro m; exact ⟨Rat.le_refl, fun e he => by cases he⟩
  | cons x r ih =>
    intro m
    obtain ⟨h1, h2⟩ := ih (max m (f x))
    simp only [List.foldl_cons]
    refine ⟨by grind, ?_⟩
    intro e he
    rcases List.mem_cons.mp he with rfl | he
    · grind
    · exact h2 e he

theorem horizon_spec (inp : Input) : 0 ≤ horizonOf inp ∧
    ∀ e ∈ inp.plan, e.start ≤ horizonOf inp ∧ e.start + (e.dur.map fun p => p.1).getD 0 ≤ horizonOf inp := by
  have := foldl_max_ge (fun e => max e.start (e.start + (e.dur.map fun p => p.1).getD 0)) inp.plan 0
  unfold horizonOf
  refine ⟨this.1, fun e he => ?_⟩
  have := this.2 e he
  constructor <;> grind

/-! ### the event sequence is sorted by time -/

theorem pairwise_insertEvent (e : Event) : ∀ (l : List Event), l.Pairwise (fun a b => a.time ≤ b.time) →
    (insertEvent e l).Pairwise (fun a b => a.time ≤ b.time) := by
  intro l
  induction l with
  | nil => intro _; simp [insertEvent]
  | cons x r ih =>
    intro h
    obtain ⟨hx, hr⟩ := List.pairwise_cons.mp h
    simp only [insertEvent]
    split
    · rename_i hlt
      refine List.pairwise_cons.mpr ⟨?_, h⟩
      intro y hy
      rcases List.mem_cons.mp hy with rfl | hy
      · exact Rat.le_of_lt hlt
      · have := hx y hy; grind
    · rename_i hnl
      refine List.pairwise_cons.mpr ⟨?_, ih hr⟩
      intro y hy
      rcases (mem_insertEvent e y r).mp hy with rfl | hy
      · exact Rat.not_lt.mp hnl
      · exact hx y hy

theorem pairwise_foldl_insertEvent : ∀ (l acc : List Event), acc.Pairwise (fun a b => a.time ≤ b.time) →
    (l.foldl (fun acc e => insertEvent e acc) acc).Pairwise (fun a b => a.time ≤ b.time) := by
  intro l
  induction l with
  | nil => intro acc h; simpa using h
  | cons e r ih => intro acc h; exact ih _ (pairwise_insertEvent e acc h)

theorem seqEvents_sorted (inp : Input) : (seqEvents inp).Pairwise (fun a b => a.time ≤ b.time) :=
  pairwise_foldl_insertEvent _ _ List.Pairwise.nil

/-- forward edges (what a deordering produces) respect the time order -/
theorem forward_respects (inp : Input) (h : EdgesForward inp) : EdgesRespectTime inp := by
  intro p hp j hj cur nxt hc hn
  have hlt := h p hp j hj
  have hs := List.pairwise_iff_getElem.mp (seqEvents_sorted inp)
  obtain ⟨hi, hci⟩ := List.getElem?_eq_some_iff.mp hc
  obtain ⟨hj', hnj⟩ := List.getElem?_eq_some_iff.mp hn
  have := hs p.1 j hi hj' hlt
  rw [hci, hnj] at this
  exact this

/-! ### the constraints stored for the plan entries and for the ordering edges -/

theorem edgesFrom_mem (eps : Rat) (seq : List Event) (cur : Event) : ∀ (js : List Nat) (d : ConsDict),
    (∀ k y, InDict d k y → InDict (edgesFrom eps seq cur js d) k y) ∧
    (∀ j ∈ js, ∀ nxt b, seq[j]? = some nxt → edgeBound eps cur nxt = some b →
      InDict (edgesFrom eps seq cur js d) (startNodeOf cur.gen) b) := by
  intro js
  induction js with
  | nil => intro d; exact ⟨fun _ _ h => by simpa [edgesFrom] using h, fun j hj => by cases hj⟩
  | cons j r ih =>
    intro d
    simp only [edgesFrom]
    split
    · rename_i hn
      obtain ⟨h1, h2⟩ := ih d
      refine ⟨h1, ?_⟩
      intro j' hj' nxt b hn' hb
      rcases List.mem_cons.mp hj' with rfl | hj'
      · rw [hn] at hn'; cases hn'
      · exact h2 j' hj' nxt b hn' hb
    · rename_i nxt0 hn
      split
      · rename_i b0 hb0
        obtain ⟨h1, h2⟩ := ih (appendAt (startNodeOf cur.gen) b0 d)
        refine ⟨fun k y h => h1 k y ((inDict_appendAt _ _ d k y).mpr (Or.inr h)), ?_⟩
        intro j' hj' nxt b hn' hb
        rcases List.mem_cons.mp hj' with rfl | hj'
        · rw [hn] at hn'; cases hn'
          rw [hb0] at hb; cases hb
          exact h1 _ _ ((inDict_appendAt _ _ d _ _).mpr (Or.inl ⟨rfl, rfl⟩))
        · exact h2 j' hj' nxt b hn' hb
      · rename_i hb0
        obtain ⟨h1, h2⟩ := ih d
        refine ⟨h1, ?_⟩
        intro j' hj' nxt b hn' hb
        rcases List.mem_cons.mp hj' with rfl | hj'
        · rw [hn] at hn'; cases hn'
          rw [hb0] at hb; cases hb
        · exact h2 j' hj' nxt b hn' hb

theorem adjCons_mem (eps : Rat) (seq : List Event) : ∀ (adj : List (Nat × List Nat)) (d : ConsDict),
    (∀ k y, InDict d k y → InDict (adjCons eps seq adj d) k y) ∧
    (∀ p ∈ adj, ∀ j ∈ p.2, ∀ cur nxt b, seq[p.1]? = some cur → seq[j]? = some nxt →
      edgeBound eps cur nxt = some b → InDict (adjCons eps seq adj d) (startNodeOf cur.gen) b) := by
  intro adj
  induction adj with
  | nil => intro d; exact ⟨fun _ _ h => by simpa [adjCons] using h, fun p hp => by cases hp⟩
  | cons p r ih =>
    obtain ⟨i, js⟩ := p
    intro d
    simp only [adjCons]
    split
    · rename_i hc
      obtain ⟨h1, h2⟩ := ih d
      refine ⟨h1, ?_⟩
      intro p hp j hj cur nxt b hc' hn hb
      rcases List.mem_cons.mp hp with rfl | hp
      · rw [hc] at hc'; cases hc'
      · exact h2 p hp j hj cur nxt b hc' hn hb
    · rename_i cur0 hc
      obtain ⟨h1, h2⟩ := ih (edgesFrom eps seq cur0 js d)
      obtain ⟨e1, e2⟩ := edgesFrom_mem eps seq cur0 js d
      refine ⟨fun k y h => h1 k y (e1 k y h), ?_⟩
      intro p hp j hj cur nxt b hc' hn hb
      rcases List.mem_cons.mp hp with rfl | hp
      · rw [hc] at hc'; cases hc'
        exact h1 _ _ (e2 j hj nxt b hn hb)
      · exact h2 p hp j hj cur nxt b hc' hn hb

theorem inDict_assign_self (d : ConsDict) (k : Node) (v : List Bound) (y : Bound) (hy : y ∈ v) :
    InDict (assign k v d) k y := ⟨v, mem_assign_self k v d, hy⟩

theorem inDict_assign_other (d : ConsDict) (k k' : Node) (v : List Bound) (y : Bound)
    (h : InDict d k' y) (hne : k' ≠ k) : InDict (assign k v d) k' y := by
  obtain ⟨v', hv', hy⟩ := h
  exact ⟨v', mem_assign_other k v d k' v' hv' hne, hy⟩

/-- everything stored under `startPlan` or under a `start` node is kept by the rest of the scan, and
every entry's own constraint is stored -/
theorem scanCons_mem : ∀ (r : List Entry) (i : Nat) (d : ConsDict),
    (∀ k y, InDict d k y → (k = .startPlan ∨ ∃ i', k = .start i' ∧ i' < i) → InDict (scanCons i r d) k y) ∧
    (∀ j e, r[j]? = some e → e.dur = none → InDict (scanCons i r d) .startPlan ((0 : Rat), none, .start (i + j))) ∧
    (∀ j e du sh, r[j]? = some e → e.dur = some (du, sh) →
      InDict (scanCons i r d) (.start (i + j)) (du, some du, .finish (i + j))) := by
  intro r
  induction r with
  | nil =>
    intro i d
    refine ⟨fun _ _ h _ => by simpa [scanCons] using h, fun j e hj => by simp at hj, fun j e du sh hj => by simp at hj⟩
  | cons e r ih =>
    intro i d
    simp only [scanCons]
    split
    · rename_i hn
      obtain ⟨h1, h2, h3⟩ := ih (i + 1) (appendAt .startPlan ((0 : Rat), none, .start i) d)
      refine ⟨?_, ?_, ?_⟩
      · intro k y h hk
        refine h1 k y ((inDict_appendAt _ _ d k y).mpr (Or.inr h)) ?_
        rcases hk with hk | ⟨i', hk, hlt⟩
        · exact Or.inl hk
        · exact Or.inr ⟨i', hk, by omega⟩
      · intro j e' hj hd
        cases j with
        | zero =>
          exact h1 _ _ ((inDict_appendAt _ _ d _ _).mpr (Or.inl ⟨rfl, rfl⟩)) (Or.inl rfl)
        | succ j =>
          have := h2 j e' (by simpa using hj) hd
          rwa [show i + 1 + j = i + (j + 1) by omega] at this
      · intro j e' du sh hj hd
        cases j with
        | zero => simp at hj; subst hj; rw [hn] at hd; cases hd
        | succ j =>
          have := h3 j e' du sh (by simpa using hj) hd
          rwa [show i + 1 + j = i + (j + 1) by omega] at this
    · rename_i du0 sh0 hn
      obtain ⟨h1, h2, h3⟩ := ih (i + 1) (assign (.start i) [(du0, some du0, .finish i)] d)
      refine ⟨?_, ?_, ?_⟩
      · intro k y h hk
        refine h1 k y (inDict_assign_other d _ k _ y h ?_) ?_
        · rcases hk with hk | ⟨i', hk, hlt⟩
          · rw [hk]; intro hc; cases hc
          · rw [hk]; intro hc; cases hc; omega
        · rcases hk with hk | ⟨i', hk, hlt⟩
          · exact Or.inl hk
          · exact Or.inr ⟨i', hk, by omega⟩
      · intro j e' hj hd
        cases j with
        | zero => simp at hj; subst hj; rw [hn] at hd; cases hd
        | succ j =>
          have := h2 j e' (by simpa using hj) hd
          rwa [show i + 1 + j = i + (j + 1) by omega] at this
      · intro j e' du sh hj hd
        cases j with
        | zero =>
          simp at hj; subst hj; rw [hn] at hd; cases hd
          exact h1 _ _ (inDict_assign_self d _ _ _ (by simp)) (Or.inr ⟨i, rfl, by omega⟩)
        | succ j =>
          have := h3 j e' du sh (by simpa using hj) hd
          rwa [show i + 1 + j = i + (j + 1) by omega] at this

/-- the constraint of every plan entry is among the constraints handed to `STNPlan` -/
theorem entry_constraint (inp : Input) (i : Nat) (e : Entry) (hi : inp.plan[i]? = some e) :
    (e.dur = none → InDict (stnConstraints inp) .startPlan ((0 : Rat), none, .start i)) ∧
    (∀ du sh, e.dur = some (du, sh) → InDict (stnConstraints inp) (.start i) (du, some du, .finish i)) := by
  obtain ⟨_, s2, s3⟩ := scanCons_mem inp.plan 0 []
  obtain ⟨a1, _⟩ := adjCons_mem (epsilonOf inp) (seqEvents inp) inp.adj (scanCons 0 inp.plan [])
  unfold stnConstraints
  constructor
  · intro hd
    have := s2 i e hi hd
    rw [Nat.zero_add] at this
    exact a1 _ _ this
  · intro du sh hd
    have := s3 i e du sh hi hd
    rw [Nat.zero_add] at this
    exact a1 _ _ this

/-- the constraint of every ordering edge is among the constraints handed to `STNPlan` -/
theorem edge_constraint (inp : Input) (p : Nat × List Nat) (hp : p ∈ inp.adj) (j : Nat) (hj : j ∈ p.2)
    (cur nxt : Event) (b : Bound) (hc : (seqEvents inp)[p.1]? = some cur) (hn : (seqEvents inp)[j]? = some nxt)
    (hb : edgeBound (epsilonOf inp) cur nxt = some b) :
    InDict (stnConstraints inp) (startNodeOf cur.gen) b := by
  unfold stnConstraints
  exact (adjCons_mem _ _ inp.adj _).2 p hp j hj cur nxt b hc hn hb

/-- a stored constraint `(lower, upper, b)` under `a` makes `STNPlan.__init__` insert `a - b ≤ -lower`
and, when there is an upper bound, `b - a ≤ upper` -/
theorem insertions_of_inDict (d : ConsDict) (a b : Node) (lb : Rat) (ub : Option Rat)
    (h : InDict d a (lb, ub, b)) :
    ({ x := a, y := b, b := -lb } : Con Node) ∈ insertionsOf d ∧
    (∀ u, ub = some u → ({ x := b, y := a, b := u } : Con Node) ∈ insertionsOf d) ∧
    a ∈ events (insertionsOf d) ∧ b ∈ events (insertionsOf d) := by
  have hm := (mem_flatten d a b lb ub).mpr h
  have h1 : ({ x := a, y := b, b := -lb } : Con Node) ∈ insertionsOf d := by
    simp only [insertionsOf, List.mem_cons, List.mem_flatMap]
    refine Or.inr ⟨(a, lb, ub, b), hm, ?_⟩
    simp [tupleInsertions]
  refine ⟨h1, ?_, ?_, ?_⟩
  · intro u hu
    subst hu
    simp only [insertionsOf, List.mem_cons, List.mem_flatMap]
    refine Or.inr ⟨(a, lb, some u, b), hm, ?_⟩
    simp [tupleInsertions]
  · simp only [events, List.mem_flatMap]
    exact ⟨_, h1, by simp⟩
  · simp only [events, List.mem_flatMap]
    exact ⟨_, h1, by simp⟩

end UPVerif.PlanConv

namespace UPVerif.PlanConv
open UPVerif.STN

/-! ### no key of the generated dictionary has an empty list (the branch of `flatten_dict_structure`
for an empty list, which the model leaves out, is never taken) -/

def NoEmpty (d : ConsDict) : Prop := ∀ k v, (k, v) ∈ d → v ≠ []

theorem noEmpty_assign (d : ConsDict) (k : Node) (v : List Bound) (hd : NoEmpty d) (hv : v ≠ []) :
    NoEmpty (assign k v d) := by
  intro k' v' h
  rcases mem_assign_elim k v d k' v' h with ⟨_, rfl⟩ | h
  · exact hv
  · exact hd k' v' h

theorem noEmpty_appendAt (d : ConsDict) (k : Node) (x : Bound) (hd : NoEmpty d) : NoEmpty (appendAt k x d) :=
  noEmpty_assign d k _ hd (by simp)

theorem noEmpty_scanCons : ∀ (r : List Entry) (i : Nat) (d : ConsDict), NoEmpty d → NoEmpty (scanCons i r d) := by
  intro r
  induction r with
  | nil => intro i d hd; simpa [scanCons] using hd
  | cons e r ih =>
    intro i d hd
    simp only [scanCons]
    split
    · exact ih _ _ (noEmpty_appendAt d _ _ hd)
    · exact ih _ _ (noEmpty_assign d _ _ hd (by simp))

theorem noEmpty_edgesFrom (eps : Rat) (seq : List Event) (cur : Event) : ∀ (js : List Nat) (d : ConsDict),
    NoEmpty d → NoEmpty (edgesFrom eps seq cur js d) := by
  intro js
  induction js with
  | nil => intro d hd; simpa [edgesFrom] using hd
  | cons j r ih =>
    intro d hd
    simp only [edgesFrom]
    split
    · exact ih d hd
    · split
      · exact ih _ (noEmpty_appendAt d _ _ hd)
      · exact ih d hd

theorem noEmpty_adjCons (eps : Rat) (seq : List Event) : ∀ (adj : List (Nat × List Nat)) (d : ConsDict),
    NoEmpty d → NoEmpty (adjCons eps seq adj d) := by
  intro adj
  induction adj with
  | nil => intro d hd; simpa [adjCons] using hd
  | cons p r ih =>
    obtain ⟨i, js⟩ := p
    intro d hd
    simp only [adjCons]
    split
    · exact ih d hd
    · exact ih _ (noEmpty_edgesFrom eps seq _ js d hd)

theorem noEmpty_stnConstraints (inp : Input) : NoEmpty (stnConstraints inp) :=
  noEmpty_adjCons _ _ _ _ (noEmpty_scanCons _ _ _ (fun _ _ h => by cases h))

end UPVerif.PlanConv
