import UPVerif.Lemmas.KindOfLeaf
/-! Helper lemmas for `Props/C10.lean`: every rule of `Uses` points at a `set` statement of the kind
    program that is certainly executed. -/
namespace UPVerif.KindOf
open UPVerif UPVerif.Spec

variable {F : Facts} {P : KProblem} {u : List FluentDecl} {f : Feature}

theorem durationMem {a : DAct} {g : FluentRef} (h : Mentions a.durLo g ∨ Mentions a.durHi g) :
    g ∈ fluentRefs a.durLo ++ fluentRefs a.durHi := by
  rcases h with h | h
  · exact List.mem_append_left _ (mentions_fluentRefs h)
  · exact List.mem_append_right _ (mentions_fluentRefs h)

theorem uses_sets (hu : undefFluents P P.fluents = some u) (h : Uses P f) :
    Sets f (kindProg F P (staticUnused P) u) := by
  cases h with
  | flatTyping ht => exact sets_of_typeUse ht updType_flat
  | hierarchicalTyping ht hf => exact sets_of_typeUse ht (updType_hier hf)
  | intFluents hd ht hn => exact kind_fluent hd (updFluent_int ht (fluentType_guard hn))
  | realFluents hd ht hn => exact kind_fluent hd (updFluent_real ht (fluentType_guard hn))
  | objectFluents hd ht => exact kind_fluent hd (updFluent_object ht)
  | boolFluentParameters hd hs => exact kind_fluent hd (updFluent_boolParam hs)
  | boundedIntFluentParameters hd hs => exact kind_fluent hd (updFluent_intParam hs)
  | boolActionParameters hp => exact sets_of_param hp updParam_bool
  | realActionParameters hp => exact sets_of_param hp updParam_real
  | boundedIntActionParameters hp => exact sets_of_param hp updParam_bounded
  | unboundedIntActionParameters hp hb => exact sets_of_param hp (updParam_unbounded hb)
  | boundedIntType hd ht hb => exact kind_fluent hd (updFluent_boundedInt ht hb)
  | boundedRealType hd ht hb => exact kind_fluent hd (updFluent_boundedReal ht hb)
  | negativeConditions hc hs => exact sets_of_cond hc (updExpr_not (sub_ops hs))
  | disjunctiveConditionsOr hc hs => exact sets_of_cond hc (updExpr_disj (Or.inl (sub_ops hs)))
  | disjunctiveConditionsImplies hc hs => exact sets_of_cond hc (updExpr_disj (Or.inr (sub_ops hs)))
  | equalities hc hs => exact sets_of_cond hc (updExpr_eq (sub_ops hs))
  | existentialConditions hc hs => exact sets_of_cond hc (updExpr_ex (sub_ops hs))
  | universalConditions hc hs => exact sets_of_cond hc (updExpr_all (sub_ops hs))
  | conditionalEffects he hc => exact sets_of_effect he (updEffect_conditional hc)
  | forallEffects he hf => exact sets_of_effect he (updEffect_forall hf)
  | increaseEffects he hk => exact sets_of_effect he (updEffect_increase hk)
  | decreaseEffects he hk => exact sets_of_effect he (updEffect_decrease hk)
  | increaseContinuousEffects he hk => exact sets_of_ceffect he (fun _ hm => contLoop_inc hm hk)
  | decreaseContinuousEffects he hk => exact sets_of_ceffect he (fun _ hm => contLoop_dec hm hk)
  | fluentsInNumericAssignments he hn hm hw =>
    have hm' := mentions_fluentRefs hm
    exact sets_of_effect he (updEffect_numeric hn hm' (fluentsIn_dyn hm' (not_static_of_Written hw)))
  | staticFluentsInNumericAssignments he hn hm hs =>
    have hm' := mentions_fluentRefs hm
    exact sets_of_effect he (updEffect_numeric hn hm' (fluentsIn_static hm' (static_of_Static hs)))
  | fluentsInBooleanAssignments he hk ht hm hw =>
    exact sets_of_effect he (updEffect_boolean hk ht (fluentsIn_dyn (mentions_fluentRefs hm) (not_static_of_Written hw)))
  | staticFluentsInBooleanAssignments he hk ht hm hs =>
    exact sets_of_effect he (updEffect_boolean hk ht (fluentsIn_static (mentions_fluentRefs hm) (static_of_Static hs)))
  | fluentsInObjectAssignments he hk ht hm hw =>
    exact sets_of_effect he (updEffect_object hk ht (fluentsIn_dyn (mentions_fluentRefs hm) (not_static_of_Written hw)))
  | staticFluentsInObjectAssignments he hk ht hm hs =>
    exact sets_of_effect he (updEffect_object hk ht (fluentsIn_static (mentions_fluentRefs hm) (static_of_Static hs)))
  | fluentsInDurations hd hw =>
    obtain ⟨a, ha, hm⟩ := hd
    have hm' := durationMem hm
    exact kind_dact ha (dact_duration (updDuration_fluents hm' (fluentsIn_dyn hm' (not_static_of_Written hw))))
  | staticFluentsInDurations hd hs =>
    obtain ⟨a, ha, hm⟩ := hd
    have hm' := durationMem hm
    exact kind_dact ha (dact_duration (updDuration_fluents hm' (fluentsIn_static hm' (static_of_Static hs))))
  | timedEffects h => exact kind_timedEffects h
  | timedGoals h => exact kind_timedGoals h
  | stateInvariants hm => exact kind_traj hm updTraj_always
  | trajectoryConstraints hm hn => exact kind_traj hm (updTraj_other hn)
  | actionsCost hm => exact kind_metric hm updMetric_cost
  | planLength hm => exact kind_metric hm updMetric_length
  | finalValueMin hm => exact kind_metric hm updMetric_minFinal
  | finalValueMax hm => exact kind_metric hm updMetric_maxFinal
  | oversubscription hm => exact kind_metric hm updMetric_oversub
  | makespan hm => exact kind_metric hm updMetric_makespan
  | temporalOversubscription hm => exact kind_metric hm updMetric_toversub
  | undefinedInitialNumeric hd h0 hg hne ht =>
    exact kind_init (updInit_num (undefFluents_mem h0 hg hne _ _ hu hd) ht)
  | undefinedInitialSymbolic hd h0 hg hne ht =>
    exact kind_init (updInit_sym (undefFluents_mem h0 hg hne _ _ hu hd) ht)

theorem uses_statementFeature (h : Uses P f) : f ∈ statementFeatures := by
  cases h <;> simp [statementFeatures]

theorem statementFeatures_stable : ∀ g ∈ statementFeatures, g ≠ SNP ∧ g ≠ "CONTINUOUS_TIME" := by
  decide

end UPVerif.KindOf
