import UPVerif.Core.Ordering
/-! Helper lemmas for `Props/C34.lean` (HTN ordering extraction). -/
namespace UPVerif.Ordering

/-! ### `dedup` (the model of `set(task_ids)`) -/

theorem mem_dedup {l : List String} {t : String} : t ∈ dedup l ↔ t ∈ l := by
  induction l with
  | nil => simp [dedup]
  | cons x xs ih =>
    unfold dedup
    by_cases hx : x ∈ xs
    · simp only [hx, if_true, ih, List.mem_cons]
      constructor
      · exact Or.inr
      · rintro (h | h)
        · exact h ▸ hx
        · exact h
    · simp [hx, ih]

theorem nodup_dedup (l : List String) : (dedup l).Nodup := by
  induction l with
  | nil => simp [dedup]
  | cons x xs ih =>
    unfold dedup
    by_cases hx : x ∈ xs
    · simpa [hx] using ih
    · simp only [hx, if_false, List.nodup_cons]
      exact ⟨fun h => hx (mem_dedup.1 h), ih⟩

/-! ### classification of constraints -/

theorem asPrecedence_precOf (p : String × String) : asPrecedence (precOf p) = some p := by
  simp [asPrecedence, precOf]

theorem asPrecedence_eq_some {c : TExpr} {p : String × String} (h : asPrecedence c = some p) :
    c = precOf p := by
  cases c with
  | lt a b =>
    cases a with
    | timing l =>
      cases b with
      | timing r =>
        obtain ⟨lk, lc, ld⟩ := l
        obtain ⟨rk, rc, rd⟩ := r
        simp only [asPrecedence] at h
        split at h
        · cases h
        · split at h
          · cases h
          · rename_i h1 h2
            simp only [Bool.or_eq_true, bne_iff_ne, ne_eq, not_or, Decidable.not_not] at h1 h2
            cases lc with
            | none => simp at h
            | some a =>
              cases rc with
              | none => simp at h
              | some b =>
                simp only [Option.some.injEq] at h
                subst h
                obtain ⟨hd1, hd2⟩ := h1
                obtain ⟨hk1, hk2⟩ := h2
                subst hd1 hd2 hk1 hk2
                rfl
      | _ => simp [asPrecedence] at h
    | _ => simp [asPrecedence] at h
  | _ => simp [asPrecedence] at h

theorem collect_map_precOf (P : List (String × String)) : collect (P.map precOf) = P := by
  induction P with
  | nil => rfl
  | cons p ps ih => simp [collect, asPrecedence_precOf, ih]

theorem collect_length_le (cs : List TExpr) : (collect cs).length ≤ cs.length := by
  induction cs with
  | nil => simp [collect]
  | cons c cs ih =>
    unfold collect
    cases asPrecedence c with
    | none => simp
    | some p => simp only [List.length_cons]; omega

/-- the loop of `ordering` ran to the end only if every constraint is a precedence -/
theorem collect_length_eq {cs : List TExpr} (h : (collect cs).length = cs.length) :
    ∀ c ∈ cs, ∃ p, c = precOf p := by
  induction cs with
  | nil => intro c hc; cases hc
  | cons c cs ih =>
    unfold collect at h
    cases hc : asPrecedence c with
    | none => simp [hc] at h
    | some p =>
      simp only [hc, List.length_cons, Nat.add_right_cancel_iff] at h
      intro c' hc'
      rcases List.mem_cons.1 hc' with rfl | hm
      · exact ⟨p, asPrecedence_eq_some hc⟩
      · exact ih h c' hm

theorem hasTime_precOf (p : String × String) : hasTime (precOf p) = true := by
  simp [precOf, hasTime]

/-! ### linear extensions -/

theorem mem_firsts {pending : List String} {P : List (String × String)} {t : String} :
    t ∈ firsts pending P ↔ t ∈ pending ∧ ∀ p ∈ P, p.2 ≠ t := by
  simp [firsts, List.mem_filter, List.all_eq_true]

theorem linExt_congr {T T' : List String} {P : List (String × String)} {l : List String}
    (h : ∀ t, t ∈ T ↔ t ∈ T') : LinExt T P l ↔ LinExt T' P l := by
  unfold LinExt
  constructor
  · rintro ⟨h1, h2, h3⟩; exact ⟨h1, fun t => (h2 t).trans (h t), h3⟩
  · rintro ⟨h1, h2, h3⟩; exact ⟨h1, fun t => (h2 t).trans (h t).symm, h3⟩

/-- `[a, b]` is a subsequence of `x :: r` iff it is one of `r`, or `a` is `x` and `b` occurs in `r` -/
theorem pair_sublist_cons {a b x : String} {r : List String} :
    List.Sublist [a, b] (x :: r) ↔ List.Sublist [a, b] r ∨ (a = x ∧ b ∈ r) := by
  rw [List.sublist_cons_iff]
  constructor
  · rintro (h | ⟨r', h1, h2⟩)
    · exact Or.inl h
    · simp only [List.cons.injEq] at h1
      obtain ⟨rfl, rfl⟩ := h1
      exact Or.inr ⟨rfl, List.singleton_sublist.1 h2⟩
  · rintro (h | ⟨rfl, h⟩)
    · exact Or.inl h
    · exact Or.inr ⟨[b], rfl, List.singleton_sublist.2 h⟩

theorem pair_sublist_mem {a b : String} {l : List String} (h : List.Sublist [a, b] l) :
    a ∈ l ∧ b ∈ l :=
  ⟨h.subset (by simp), h.subset (by simp)⟩

/-- the head of a linear extension is a task with no predecessor -/
theorem linExt_head {T : List String} {P : List (String × String)} {x : String} {r : List String}
    (h : LinExt T P (x :: r)) : x ∈ T ∧ ∀ p ∈ P, p.2 ≠ x := by
  obtain ⟨hnd, hmem, hp⟩ := h
  refine ⟨(hmem x).1 (by simp), ?_⟩
  intro p hpP heq
  have hx : x ∉ r := (List.nodup_cons.1 hnd).1
  rcases pair_sublist_cons.1 (hp p hpP) with h | ⟨_, h⟩
  · exact hx (heq ▸ (pair_sublist_mem h).2)
  · exact hx (heq ▸ h)

/-- dropping the head of a linear extension gives one of the remaining tasks / precedences
    (the state of `_build_total_order` after one iteration) -/
theorem linExt_tail {T : List String} {P : List (String × String)} {x : String} {r : List String}
    (hT : T.Nodup) (h : LinExt T P (x :: r)) :
    LinExt (T.erase x) (P.filter (fun p => p.1 != x)) r := by
  obtain ⟨hnd, hmem, hp⟩ := h
  obtain ⟨hx, hr⟩ := List.nodup_cons.1 hnd
  refine ⟨hr, ?_, ?_⟩
  · intro t
    rw [hT.mem_erase_iff, ← hmem t, List.mem_cons]
    constructor
    · intro ht; exact ⟨fun e => hx (e ▸ ht), Or.inr ht⟩
    · rintro ⟨hne, rfl | ht⟩
      · exact absurd rfl hne
      · exact ht
  · intro p hpf
    rw [List.mem_filter] at hpf
    obtain ⟨hpP, hne⟩ := hpf
    rcases pair_sublist_cons.1 (hp p hpP) with h | ⟨h, _⟩
    · exact h
    · simp [h] at hne

/-- conversely, a minimal task in front of a linear extension of the rest is a linear extension -/
theorem linExt_cons {T : List String} {P : List (String × String)} {f : String} {r : List String}
    (hT : T.Nodup) (hf : f ∈ T) (hmin : ∀ p ∈ P, p.2 ≠ f) (htgt : ∀ p ∈ P, p.2 ∈ T)
    (h : LinExt (T.erase f) (P.filter (fun p => p.1 != f)) r) : LinExt T P (f :: r) := by
  obtain ⟨hnd, hmem, hp⟩ := h
  have hfr : f ∉ r := by
    intro hfr
    have := (hmem f).1 hfr
    rw [hT.mem_erase_iff] at this
    exact this.1 rfl
  refine ⟨List.nodup_cons.2 ⟨hfr, hnd⟩, ?_, ?_⟩
  · intro t
    rw [List.mem_cons, hmem t, hT.mem_erase_iff]
    constructor
    · rintro (rfl | ⟨_, h⟩)
      · exact hf
      · exact h
    · intro ht
      by_cases e : t = f
      · exact Or.inl e
      · exact Or.inr ⟨e, ht⟩
  · intro p hpP
    rw [pair_sublist_cons]
    by_cases e : p.1 = f
    · refine Or.inr ⟨e, ?_⟩
      rw [hmem, hT.mem_erase_iff]
      exact ⟨hmin p hpP, htgt p hpP⟩
    · refine Or.inl (hp p ?_)
      rw [List.mem_filter]
      exact ⟨hpP, by simpa using e⟩

/-- a task without predecessor can be moved to the front of any linear extension -/
theorem linExt_move_front {T : List String} {P : List (String × String)} {l : List String} {g : String}
    (h : LinExt T P l) (hg : g ∈ T) (hmin : ∀ p ∈ P, p.2 ≠ g) : LinExt T P (g :: l.erase g) := by
  obtain ⟨hnd, hmem, hp⟩ := h
  have hgl : g ∈ l := (hmem g).2 hg
  refine ⟨List.nodup_cons.2 ⟨fun hh => ((hnd.mem_erase_iff).1 hh).1 rfl, hnd.erase g⟩, ?_, ?_⟩
  · intro t
    rw [List.mem_cons, hnd.mem_erase_iff, ← hmem t]
    constructor
    · rintro (rfl | ⟨_, h⟩)
      · exact hgl
      · exact h
    · intro ht
      by_cases e : t = g
      · exact Or.inl e
      · exact Or.inr ⟨e, ht⟩
  · intro p hpP
    rw [pair_sublist_cons]
    have hsub := hp p hpP
    have h2 : p.2 ≠ g := hmin p hpP
    by_cases e : p.1 = g
    · refine Or.inr ⟨e, ?_⟩
      rw [hnd.mem_erase_iff]
      exact ⟨h2, (pair_sublist_mem hsub).2⟩
    · left
      have := hsub.erase g
      rwa [List.erase_of_not_mem (by simp [Ne.symm e, Ne.symm h2])] at this

/-- if the linear extension is unique, it starts with every task that has no predecessor -/
theorem unique_head {T : List String} {P : List (String × String)} {x g : String} {r : List String}
    (h : UniqueLinExt T P (x :: r)) (hg : g ∈ T) (hmin : ∀ p ∈ P, p.2 ≠ g) : g = x := by
  have := h.2 _ (linExt_move_front h.1 hg hmin)
  simp only [List.cons.injEq] at this
  exact this.1

theorem filter_eq_singleton_mem {α : Type} {q : α → Bool} {l : List α} {f t : α}
    (h : l.filter q = [f]) (ht : t ∈ l) (hq : q t = true) : t = f := by
  have : t ∈ l.filter q := List.mem_filter.2 ⟨ht, hq⟩
  rw [h] at this
  simpa using this

/-- `_build_total_order` returns `l` exactly when `l` is the unique linear extension
    (any number of pending tasks; the fuel is the number of pending tasks) -/
theorem buildLoop_iff : ∀ (n : Nat) (pending : List String) (P : List (String × String)),
    pending.Nodup → pending.length = n → (∀ p ∈ P, p.2 ∈ pending) →
    ∀ l, buildLoop n pending P = some l ↔ UniqueLinExt pending P l := by
  intro n
  induction n with
  | zero =>
    intro pending P _ hlen htgt l
    have hnil : pending = [] := List.length_eq_zero_iff.1 hlen
    subst hnil
    have hP : P = [] := by
      cases P with
      | nil => rfl
      | cons p ps => exact absurd (htgt p (by simp)) (by simp)
    subst hP
    simp only [buildLoop, List.isEmpty_nil, if_true, Option.some.injEq]
    constructor
    · rintro rfl
      refine ⟨⟨List.nodup_nil, fun t => Iff.rfl, fun p hp => by cases hp⟩, ?_⟩
      intro l' h'
      cases l' with
      | nil => rfl
      | cons y ys => exact absurd ((h'.2.1 y).1 (by simp)) (by simp)
    · rintro ⟨⟨_, hm, _⟩, _⟩
      cases l with
      | nil => rfl
      | cons y ys => exact absurd ((hm y).1 (by simp)) (by simp)
  | succ n ih =>
    intro pending P hnd hlen htgt l
    have hne : pending ≠ [] := by intro h; simp [h] at hlen
    have hemp : pending.isEmpty = false := by
      cases pending with
      | nil => exact absurd rfl hne
      | cons _ _ => rfl
    -- every linear extension is non-empty and starts with an element of `firsts`
    have hhead : ∀ l', LinExt pending P l' → ∃ x r, l' = x :: r ∧ x ∈ firsts pending P := by
      intro l' h'
      cases l' with
      | nil =>
        cases pending with
        | nil => exact absurd rfl hne
        | cons y ys => exact absurd ((h'.2.1 y).2 (by simp)) (by simp)
      | cons x r => exact ⟨x, r, rfl, mem_firsts.2 (linExt_head h')⟩
    simp only [buildLoop, hemp, Bool.false_eq_true, if_false]
    -- case analysis on `firsts`
    rcases hfs : firsts pending P with _ | ⟨f, _ | ⟨f2, rest⟩⟩
    · -- no leading element: no linear extension at all
      simp only []
      constructor
      · intro h; cases h
      · rintro ⟨hl, _⟩
        obtain ⟨x, r, _, hx⟩ := hhead l hl
        rw [hfs] at hx; cases hx
    · -- exactly one leading element
      simp only []
      have hf : f ∈ firsts pending P := by rw [hfs]; simp
      obtain ⟨hfp, hfmin⟩ := mem_firsts.1 hf
      have honly : ∀ t, t ∈ firsts pending P → t = f := by
        intro t ht; rw [hfs] at ht; simpa using ht
      have hnd' : (pending.erase f).Nodup := hnd.erase f
      have hlen' : (pending.erase f).length = n := by
        rw [List.length_erase_of_mem hfp, hlen]; rfl
      have htgt' : ∀ p ∈ P.filter (fun p => p.1 != f), p.2 ∈ pending.erase f := by
        intro p hp
        rw [List.mem_filter] at hp
        rw [hnd.mem_erase_iff]
        exact ⟨hfmin p hp.1, htgt p hp.1⟩
      have IH := ih (pending.erase f) (P.filter (fun p => p.1 != f)) hnd' hlen' htgt'
      constructor
      · intro h
        rw [Option.map_eq_some_iff] at h
        obtain ⟨r, hr, rfl⟩ := h
        obtain ⟨hext, huniq⟩ := (IH r).1 hr
        refine ⟨linExt_cons hnd hfp hfmin htgt hext, ?_⟩
        intro l' h'
        obtain ⟨x, r', rfl, hx⟩ := hhead l' h'
        have hxf := honly x hx
        subst hxf
        rw [huniq r' (linExt_tail hnd h')]
      · rintro ⟨hext, huniq⟩
        obtain ⟨x, r, rfl, hx⟩ := hhead l hext
        have hxf := honly x hx
        subst hxf
        rw [Option.map_eq_some_iff]
        refine ⟨r, (IH r).2 ⟨linExt_tail hnd hext, ?_⟩, rfl⟩
        intro r' hr'
        have := huniq _ (linExt_cons hnd hfp hfmin htgt hr')
        simpa using this
    · -- at least two leading elements: two different linear extensions (or none)
      simp only []
      constructor
      · intro h; cases h
      · intro hu
        obtain ⟨x, r, rfl, _⟩ := hhead l hu.1
        have h1 : f ∈ firsts pending P := by rw [hfs]; simp
        have h2 : f2 ∈ firsts pending P := by rw [hfs]; simp
        have e1 := unique_head hu (mem_firsts.1 h1).1 (mem_firsts.1 h1).2
        have e2 := unique_head hu (mem_firsts.1 h2).1 (mem_firsts.1 h2).2
        have hndf : (firsts pending P).Nodup := hnd.filter _
        rw [hfs] at hndf
        have : f ≠ f2 := by
          intro e
          rw [List.nodup_cons] at hndf
          exact hndf.1 (by simp [e])
        exact absurd (e1.trans e2.symm) this

/-- … and so does `_build_total_order` on the set of task identifiers -/
theorem buildTotalOrder_iff (tasks : List String) (P : List (String × String))
    (htgt : ∀ p ∈ P, p.2 ∈ tasks) (l : List String) :
    buildTotalOrder tasks P = some l ↔ UniqueLinExt tasks P l := by
  unfold buildTotalOrder
  rw [buildLoop_iff _ (dedup tasks) P (nodup_dedup tasks) rfl
    (fun p hp => mem_dedup.2 (htgt p hp)) l]
  unfold UniqueLinExt
  have hc : ∀ l, LinExt (dedup tasks) P l ↔ LinExt tasks P l :=
    fun l => linExt_congr (fun t => mem_dedup)
  constructor
  · rintro ⟨h1, h2⟩; exact ⟨(hc l).1 h1, fun l' h' => h2 l' ((hc l').2 h')⟩
  · rintro ⟨h1, h2⟩; exact ⟨(hc l).2 h1, fun l' h' => h2 l' ((hc l').1 h')⟩

/-- "every constraint is a precedence" is the same as "the list is the image of a precedence list" -/
theorem all_precOf_iff (cs : List TExpr) :
    (∀ c ∈ cs, ∃ p, c = precOf p) ↔ ∃ P : List (String × String), cs = P.map precOf := by
  constructor
  · intro h
    induction cs with
    | nil => exact ⟨[], rfl⟩
    | cons c cs ih =>
      obtain ⟨p, hp⟩ := h c (by simp)
      obtain ⟨P, hP⟩ := ih (fun c' hc' => h c' (List.mem_cons_of_mem _ hc'))
      exact ⟨p :: P, by simp [hp, hP]⟩
  · rintro ⟨P, rfl⟩ c hc
    obtain ⟨p, _, hp⟩ := List.mem_map.1 hc
    exact ⟨p, hp.symm⟩

end UPVerif.Ordering
