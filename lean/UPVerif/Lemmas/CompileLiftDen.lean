import UPVerif.Lemmas.CompileLiftSubst
import UPVerif.Lemmas.SubstLemmas
/-!
The bridge between the reference denotation `den` (Core/Den.lean — the semantics C11 / C12 / C13 are stated
against: strict, with a valuation of the action parameters) and the state evaluator `eval` (Core/Eval.lean) on
INSTANTIATED expressions:

  `eval_substE_of_den`:  if `e` is DEFINED under the interpretation "state `c`, parameters ↦ the objects of `σ`"
  (`den (interpOf c par) ρ e = some v`) then the instance `substE σ e` evaluates to that value in the state.

Definedness is what makes the normalisations of the expression manager inside `substitute` harmless (an `And` of
one argument collapses to the argument: fine when the argument denotes a Boolean) and what makes the evaluator's
early exit inside quantifiers invisible.  Side conditions (`bridgeOK`, decidable): every parameter leaf is a key
of `σ` bound to the object the valuation gives it, and no quantifier binds a variable twice.
-/
namespace UPVerif.Compile
open UPVerif UPVerif.Expr UPVerif.Sim UPVerif.Spec

/-- the reference interpretation denoted by an evaluation context and a valuation of the parameters -/
def interpOf (c : EvalCtx) (par : String → Option Val) : Interp where
  fl := fun f vs => c.get (f, vs)
  fn := c.fn
  par := par
  dom := c.domain

/-- a parameter leaf is replaced by the object its valuation names -/
def leafCov (σ : Subst) (par : String → Option Val) : Leaf → Bool
  | .param n t =>
    match par n with
    | none => true
    | some v =>
      match σ.lookup (.leaf (.param n t)) with
      | some (.leaf (.obj o _)) => v == .o o
      | _ => false
  | _ => true

mutual
/-- side conditions of the bridge on an expression -/
def bridgeOK (σ : Subst) (par : String → Option Val) : Expr → Bool
  | .leaf l => leafCov σ par l
  | .app _ args => bridgeOKList σ par args
  | .quant _ vs b => decide vs.Nodup && bridgeOK σ par b
def bridgeOKList (σ : Subst) (par : String → Option Val) : List Expr → Bool
  | [] => true
  | e :: es => bridgeOK σ par e && bridgeOKList σ par es
end

/-! ### operators -/

theorem denOp_div_some {ι : Interp} {vs : List Val} {v : Val} (h : denOp ι .div vs = some v) :
    ∃ x y, vs = [.n x, .n y] ∧ y ≠ 0 ∧ v = .n (x / y) := by
  match vs, h with
  | [], h => simp [denOp] at h
  | [a], h => cases a <;> simp [denOp] at h
  | [a, b], h =>
    cases a <;> cases b <;> simp [denOp] at h
    rename_i x y
    exact ⟨x, y, rfl, h.1, h.2.symm⟩
  | a :: b :: c :: t, h => cases a <;> cases b <;> simp [denOp] at h

theorem evalOp_of_denOp (c : EvalCtx) (par : String → Option Val) (op : Op) (vs : List Val) (v : Val)
    (h : denOp (interpOf c par) op vs = some v) : evalOp c op vs = .ok v := by
  have hgen : (∀ f, op ≠ .fluent f) →
      denOp { fl := fun _ _ => none, fn := c.fn, par := fun _ => none, dom := fun _ => [] } op vs = some v := by
    intro hne
    rw [← h]
    apply denOp_congr
    · intro f hf; exact absurd hf (hne f)
    · rfl
  cases op with
  | fluent f =>
    have : c.get (f, vs) = some v := h
    simp only [evalOp, this]
  | div =>
    obtain ⟨x, y, rfl, hy, rfl⟩ := denOp_div_some h
    simp [evalOp, hy]
  | _ =>
    simp only [evalOp]
    rw [hgen (by intro f hf; cases hf)]

/-! ### nodes -/

theorem eval_app_ok {c : EvalCtx} {ρ : VEnv} {op : Op} {as : List Expr} {vs : List Val}
    (h : evalList c ρ as = .ok vs) : eval c ρ (.app op as) = evalOp c op vs := by
  rw [eval, h]

theorem evalList_nil_eq (c : EvalCtx) (ρ : VEnv) : evalList c ρ [] = .ok [] := by rw [evalList]

theorem evalList_cons_ok {c : EvalCtx} {ρ : VEnv} {e : Expr} {es : List Expr} {v : Val} {vs : List Val}
    (h1 : eval c ρ e = .ok v) (h2 : evalList c ρ es = .ok vs) : evalList c ρ (e :: es) = .ok (v :: vs) := by
  rw [evalList, h2]
  dsimp only
  rw [h1]

theorem evalList_cons_inv {c : EvalCtx} {ρ : VEnv} {e : Expr} {es : List Expr} {ws : List Val}
    (h : evalList c ρ (e :: es) = .ok ws) :
    ∃ v vs, ws = v :: vs ∧ eval c ρ e = .ok v ∧ evalList c ρ es = .ok vs := by
  rw [evalList] at h
  cases hes : evalList c ρ es with
  | error x => rw [hes] at h; cases h
  | ok vs =>
    rw [hes] at h
    dsimp only at h
    cases he : eval c ρ e with
    | error x => rw [he] at h; cases h
    | ok v => rw [he] at h; cases h; exact ⟨v, vs, rfl, rfl, rfl⟩

theorem evalList_singleton {c : EvalCtx} {ρ : VEnv} {x : Expr} {vs : List Val} (h : evalList c ρ [x] = .ok vs) :
    ∃ v1, vs = [v1] ∧ eval c ρ x = .ok v1 := by
  obtain ⟨v, vs', rfl, hx, hnil⟩ := evalList_cons_inv h
  rw [evalList_nil_eq] at hnil
  cases hnil
  exact ⟨v, rfl, hx⟩

theorem eval_app_of {c : EvalCtx} {par : String → Option Val} {ρ : VEnv} {op : Op} {as : List Expr} {vs : List Val}
    {v : Val} (h1 : evalList c ρ as = .ok vs) (h2 : denOp (interpOf c par) op vs = some v) :
    eval c ρ (.app op as) = .ok v := by
  rw [eval_app_ok h1]
  exact evalOp_of_denOp c par op vs v h2

/-- inversion of the evaluation of a negation node -/
theorem eval_not_ok {c : EvalCtx} {ρ : VEnv} {y : Expr} {b : Bool} (h : eval c ρ (.app .not [y]) = .ok (.b b)) :
    eval c ρ y = .ok (.b (!b)) := by
  cases hl : evalList c ρ [y] with
  | error e => rw [eval, hl] at h; cases h
  | ok vs =>
    rw [eval_app_ok hl] at h
    obtain ⟨v1, rfl, hy⟩ := evalList_singleton hl
    cases v1 with
    | b x =>
      have : evalOp c .not [.b x] = .ok (.b (!x)) := rfl
      rw [this] at h
      cases h
      rw [hy]; simp
    | n q => cases h
    | o s => cases h

/-- a node rebuilt by the expression manager from children that evaluate, where the operator is DEFINED on their
    values, evaluates to that value (the collapsing cases are where definedness is used) -/
theorem eval_rebuild {c : EvalCtx} {par : String → Option Val} {ρ : VEnv} {op : Op} {as : List Expr} {vs : List Val}
    {v : Val} (h1 : evalList c ρ as = .ok vs) (h2 : denOp (interpOf c par) op vs = some v) :
    eval c ρ (rebuild op as) = .ok v := by
  have hdef : eval c ρ (.app op as) = .ok v := eval_app_of h1 h2
  cases op with
  | and =>
    match as, h1 with
    | [], h1 =>
      rw [evalList_nil_eq] at h1; cases h1
      simp only [denOp, allBools] at h2
      cases h2; rfl
    | [x], h1 =>
      obtain ⟨v1, rfl, hx⟩ := evalList_singleton h1
      show eval c ρ x = .ok v
      cases v1 with
      | b b => simp [denOp, allBools] at h2; rw [hx, ← h2]
      | n q => simp [denOp, allBools] at h2
      | o s => simp [denOp, allBools] at h2
    | x :: y :: t, _ => exact hdef
  | or =>
    match as, h1 with
    | [], h1 =>
      rw [evalList_nil_eq] at h1; cases h1
      simp only [denOp, allBools] at h2
      cases h2; rfl
    | [x], h1 =>
      obtain ⟨v1, rfl, hx⟩ := evalList_singleton h1
      show eval c ρ x = .ok v
      cases v1 with
      | b b => simp [denOp, allBools] at h2; rw [hx, ← h2]
      | n q => simp [denOp, allBools] at h2
      | o s => simp [denOp, allBools] at h2
    | x :: y :: t, _ => exact hdef
  | plus =>
    match as, h1 with
    | [], h1 =>
      rw [evalList_nil_eq] at h1; cases h1
      simp only [denOp, allNums] at h2
      cases h2
      show eval c ρ (Expr.int 0) = _
      simp [eval, evalLeaf, Expr.int]
    | [x], h1 =>
      obtain ⟨v1, rfl, hx⟩ := evalList_singleton h1
      show eval c ρ x = .ok v
      cases v1 with
      | n q => simp [denOp, allNums, Rat.zero_add] at h2; rw [hx, ← h2]
      | b b => simp [denOp, allNums] at h2
      | o s => simp [denOp, allNums] at h2
    | x :: y :: t, _ => exact hdef
  | times =>
    match as, h1 with
    | [], h1 =>
      rw [evalList_nil_eq] at h1; cases h1
      simp only [denOp, allNums] at h2
      cases h2
      show eval c ρ (Expr.int 1) = _
      simp [eval, evalLeaf, Expr.int]
    | [x], h1 =>
      obtain ⟨v1, rfl, hx⟩ := evalList_singleton h1
      show eval c ρ x = .ok v
      cases v1 with
      | n q => simp [denOp, allNums, Rat.one_mul] at h2; rw [hx, ← h2]
      | b b => simp [denOp, allNums] at h2
      | o s => simp [denOp, allNums] at h2
    | x :: y :: t, _ => exact hdef
  | not =>
    match as, h1 with
    | [x], h1 =>
      obtain ⟨v1, rfl, hx⟩ := evalList_singleton h1
      show eval c ρ (mkNot x) = .ok v
      cases v1 with
      | b b =>
        have hv : v = .b (!b) := by simp [denOp] at h2; exact h2.symm
        subst hv
        by_cases hs : ∃ y, x = .app .not [y]
        · obtain ⟨y, rfl⟩ := hs
          have : mkNot (.app .not [y]) = y := rfl
          rw [this]
          exact eval_not_ok hx
        · have : mkNot x = .app .not [x] := by
            unfold mkNot
            split
            · rename_i y; exact absurd ⟨y, rfl⟩ hs
            · rfl
          rw [this]; exact hdef
      | n q => simp [denOp] at h2
      | o s => simp [denOp] at h2
    | [], _ => exact hdef
    | x :: y :: t, _ => exact hdef
  | _ => exact hdef

/-! ### quantifiers -/

theorem keptUnder_paramSubst {σ : Subst} (hσ : IsParamSubst σ) (vs : List Var) : keptUnder vs σ = σ := by
  unfold keptUnder
  rw [List.filter_eq_self]
  intro kv hkv
  obtain ⟨⟨n, t, hk⟩, _⟩ := hσ kv hkv
  rw [hk]
  simp [freeVars]

theorem substE_quant {σ : Subst} (hσ : IsParamSubst σ) (q : Quant) (vs : List Var) (b : Expr) :
    substE σ (.quant q vs b) = .quant q vs (substE σ b) := by
  cases hs : σ.isEmpty with
  | true => rw [substE_of_empty hs, substE_of_empty hs]
  | false =>
    rw [substE_of_ne hs, substE_of_ne hs, subst_quant_none σ q vs b (hσ.lookup_quant q vs b),
      keptUnder_paramSubst hσ, hs]
    rfl

/-- the evaluator enumerates the assignments of the reference denotation, each one reversed -/
theorem qAssignments_eq (c : EvalCtx) (par : String → Option Val) : ∀ vs : List Var,
    qAssignments c vs = (assignments (interpOf c par) vs).map List.reverse
  | [] => rfl
  | v :: vs => by
    simp only [qAssignments, assignments, qAssignments_eq c par vs, List.map_flatMap, List.map_map]
    show List.flatMap _ (c.domain v.ty) = List.flatMap _ (c.domain v.ty)
    congr 1
    funext x
    apply List.map_congr_left
    intro a _
    simp

theorem get_reverse : ∀ (a : VEnv) (x : Var), (a.map Prod.fst).Nodup → VEnv.get a.reverse x = VEnv.get a x
  | [], _, _ => rfl
  | p :: a, x, h => by
    obtain ⟨y, w⟩ := p
    rw [List.map_cons, List.nodup_cons] at h
    rw [List.reverse_cons, VEnv.get_append, VEnv.get_cons, VEnv.get_cons, VEnv.get_nil, get_reverse a x h.2]
    by_cases hy : y = x
    · subst hy
      rw [VEnv.get_eq_none_of_not_mem a y h.1]
      simp
    · simp [hy]

theorem get_reverse_append (a ρ : VEnv) (x : Var) (h : (a.map Prod.fst).Nodup) :
    VEnv.get (a.reverse ++ ρ) x = VEnv.get (a ++ ρ) x := by
  rw [VEnv.get_append, VEnv.get_append, get_reverse a x h]

/-- the two loops of the evaluator on bodies that all denote Booleans -/
theorem quant_loops (f : VEnv → Except EvalErr Val) (d : VEnv → Option Val) : ∀ (L : List VEnv) (bs : List Bool),
    (∀ a ∈ L, ∀ v, d a = some v → f a.reverse = .ok v) → allBoolsOpt (L.map d) = some bs →
    existsLoop f (L.map List.reverse) = .ok (.b (bs.any id)) ∧
    forallLoop f (L.map List.reverse) = .ok (.b (bs.all id))
  | [], bs, _, hb => by
    simp only [List.map_nil, allBoolsOpt, Option.some.injEq] at hb
    subst hb
    exact ⟨rfl, rfl⟩
  | a :: L, bs, hf, hb => by
    rw [List.map_cons] at hb
    cases hda : d a with
    | none => rw [hda] at hb; simp [allBoolsOpt] at hb
    | some w =>
      rw [hda] at hb
      cases w with
      | b x =>
        simp only [allBoolsOpt] at hb
        cases hrest : allBoolsOpt (L.map d) with
        | none => rw [hrest] at hb; cases hb
        | some bs' =>
          rw [hrest] at hb
          simp only [Option.map_some, Option.some.injEq] at hb
          subst hb
          obtain ⟨ih1, ih2⟩ := quant_loops f d L bs' (fun a' ha' => hf a' (List.mem_cons_of_mem _ ha')) hrest
          have hfa := hf a (List.mem_cons_self ..) _ hda
          rw [List.map_cons]
          cases x with
          | true =>
            refine ⟨by simp only [existsLoop, hfa, List.any_cons, id, Bool.true_or], ?_⟩
            simp only [forallLoop, hfa, ih2, List.all_cons, id, Bool.true_and]
          | false =>
            refine ⟨by simp only [existsLoop, hfa, ih1, List.any_cons, id, Bool.false_or], ?_⟩
            simp only [forallLoop, hfa, List.all_cons, id, Bool.false_and]
      | n q => simp [allBoolsOpt] at hb
      | o s => simp [allBoolsOpt] at hb

theorem eval_quant_ex (c : EvalCtx) (ρ : VEnv) (vs : List Var) (b : Expr) :
    eval c ρ (.quant .ex vs b) = existsLoop (fun a => eval c (a ++ ρ) b) (qAssignments c vs) := by
  rw [eval]

theorem eval_quant_all (c : EvalCtx) (ρ : VEnv) (vs : List Var) (b : Expr) :
    eval c ρ (.quant .all vs b) = forallLoop (fun a => eval c (a ++ ρ) b) (qAssignments c vs) := by
  rw [eval]

/-! ### the bridge -/

mutual
/-- where the expression is DEFINED under "state `c`, parameters valued by `par`", its instance `substE σ e`
    evaluates to that value in the state -/
theorem eval_substE_of_den (c : EvalCtx) (par : String → Option Val) {σ : Subst} (hσ : IsParamSubst σ) :
    ∀ (e : Expr) (ρ : VEnv) (v : Val), bridgeOK σ par e = true → den (interpOf c par) ρ e = some v →
      eval c ρ (substE σ e) = .ok v
  | .leaf l, ρ, v, hok, h => by
    rw [den_leaf] at h
    rw [bridgeOK] at hok
    cases l with
    | param n t =>
      have hp : par n = some v := h
      simp only [leafCov, hp] at hok
      cases hl : σ.lookup (.leaf (.param n t)) with
      | none => rw [hl] at hok; cases hok
      | some r =>
        rw [hl] at hok
        cases r with
        | leaf lr =>
          cases lr with
          | obj o ty =>
            simp only [beq_iff_eq] at hok
            subst hok
            have hne : σ.isEmpty = false := by
              cases σ with
              | nil => cases hl
              | cons _ _ => rfl
            rw [substE_of_ne hne, subst_of_lookup_some σ _ _ hl, eval]
            rfl
          | _ => simp at hok
        | app _ _ => simp at hok
        | quant _ _ _ => simp at hok
    | var x =>
      rw [substE_leaf hσ _ (by intro n t e; cases e), eval]
      have hx : ρ.get x = some v := h
      simp only [evalLeaf, hx]
    | boolC b => rw [substE_leaf hσ _ (by intro n t e; cases e), eval]; cases h; rfl
    | intC z => rw [substE_leaf hσ _ (by intro n t e; cases e), eval]; cases h; rfl
    | realC r => rw [substE_leaf hσ _ (by intro n t e; cases e), eval]; cases h; rfl
    | obj o ty => rw [substE_leaf hσ _ (by intro n t e; cases e), eval]; cases h; rfl
    | timing r => cases h
    | present r => cases h
  | .app op args, ρ, v, hok, h => by
    rw [den_app] at h
    rw [bridgeOK] at hok
    cases hl : denList (interpOf c par) ρ args with
    | none => rw [hl] at h; cases h
    | some vs =>
      rw [hl] at h
      have h2 : denOp (interpOf c par) op vs = some v := h
      have h1 := evalList_substE_of_den c par hσ args ρ vs hok hl
      rw [substE_app hσ]
      split
      · rename_i hs
        have : args.map (substE σ) = args := by
          rw [List.map_congr_left (g := id) (fun x _ => substE_of_empty hs x), List.map_id]
        rw [this] at h1
        exact eval_app_of h1 h2
      · exact eval_rebuild h1 h2
  | .quant q vs b, ρ, v, hok, h => by
    rw [den_quant] at h
    rw [bridgeOK, Bool.and_eq_true, decide_eq_true_eq] at hok
    obtain ⟨hnd, hokb⟩ := hok
    cases hb : allBoolsOpt ((assignments (interpOf c par) vs).map (fun a => den (interpOf c par) (a ++ ρ) b)) with
    | none => rw [hb] at h; cases h
    | some bs =>
      rw [hb] at h
      have hbody : ∀ a ∈ assignments (interpOf c par) vs, ∀ w, den (interpOf c par) (a ++ ρ) b = some w →
          eval c (a.reverse ++ ρ) (substE σ b) = .ok w := by
        intro a ha w hw
        apply eval_substE_of_den c par hσ b (a.reverse ++ ρ) w hokb
        rw [← hw]
        apply den_congr_env
        intro x _
        exact get_reverse_append a ρ x (by rw [assignments_keys _ vs a ha]; exact hnd)
      obtain ⟨l1, l2⟩ := quant_loops (fun a' => eval c (a' ++ ρ) (substE σ b))
        (fun a => den (interpOf c par) (a ++ ρ) b) _ bs hbody hb
      rw [substE_quant hσ]
      cases q with
      | ex =>
        rw [eval_quant_ex, qAssignments_eq c par, l1]
        cases h; rfl
      | all =>
        rw [eval_quant_all, qAssignments_eq c par, l2]
        cases h; rfl
theorem evalList_substE_of_den (c : EvalCtx) (par : String → Option Val) {σ : Subst} (hσ : IsParamSubst σ) :
    ∀ (es : List Expr) (ρ : VEnv) (vs : List Val), bridgeOKList σ par es = true →
      denList (interpOf c par) ρ es = some vs → evalList c ρ (es.map (substE σ)) = .ok vs
  | [], ρ, vs, _, h => by
    rw [denList_nil] at h
    cases h
    exact evalList_nil_eq c ρ
  | e :: es, ρ, vs, hok, h => by
    rw [denList_cons] at h
    rw [bridgeOKList, Bool.and_eq_true] at hok
    cases he : den (interpOf c par) ρ e with
    | none => rw [he] at h; cases h
    | some v =>
      cases hes : denList (interpOf c par) ρ es with
      | none => rw [he, hes] at h; cases h
      | some ws =>
        rw [he, hes] at h
        cases h
        rw [List.map_cons]
        exact evalList_cons_ok (eval_substE_of_den c par hσ e ρ v hok.1 he)
          (evalList_substE_of_den c par hσ es ρ ws hok.2 hes)
end

end UPVerif.Compile
