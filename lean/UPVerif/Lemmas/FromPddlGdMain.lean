import UPVerif.Lemmas.FromPddlGd
/-!
C21, conditions: the agreement theorem `gd_agree` (see Lemmas/FromPddlGd.lean for the statement's ingredients).
-/
namespace UPVerif.FromPddl
open UPVerif UPVerif.Expr UPVerif.Pddl

/-! ### the side condition, branch by branch -/

theorem gdOKL_conn (fl : List FluentRef) (C : PCtx) (h : String) (rest : List Sexp)
    (hc : h = "and" ∨ h = "or" ∨ h = "not" ∨ h = "imply") : gdOKL fl C (.atom h :: rest) = gdOKs fl C rest := by
  rw [gdOKL.eq_def]
  rcases hc with rfl | rfl | rfl | rfl <;> simp

theorem gdOKL_quant (fl : List FluentRef) (C : PCtx) (h : String) (hq : h = "exists" ∨ h = "forall") (vl : List Sexp) (body : Sexp) :
    gdOKL fl C [.atom h, .list vl, body] = (varsNodup vl && gdOK fl C body) := by
  rw [gdOKL.eq_def]
  rcases hq with rfl | rfl <;> simp

theorem gdOKL_cmp (fl : List FluentRef) (C : PCtx) (h : String) (k : OpK) (hk : cmpOp? h = some k) (rest : List Sexp) :
    gdOKL fl C (.atom h :: rest) = fexpOKs C rest := by
  have hne : (h == "and") = false ∧ (h == "or") = false ∧ (h == "not") = false ∧ (h == "imply") = false ∧
      (h == "exists") = false ∧ (h == "forall") = false := by
    rcases cmpOp_cases hk with ⟨rfl, _⟩ | ⟨rfl, _⟩ | ⟨rfl, _⟩ | ⟨rfl, _⟩ | ⟨rfl, _⟩ <;> simp
  rw [gdOKL.eq_def]
  simp [hne.1, hne.2.1, hne.2.2.1, hne.2.2.2.1, hne.2.2.2.2.1, hne.2.2.2.2.2, hk]

theorem gdOKL_plain (fl : List FluentRef) (C : PCtx) (h : String) (hp : isPlainHead h = true) (rest : List Sexp) (f : FluentRef)
    (hf : fl.find? (fun g => g.name == h) = some f) (hok : gdOKL fl C (.atom h :: rest) = true) : f.ty = .bool := by
  unfold isPlainHead at hp
  simp only [Bool.and_eq_true, Bool.not_eq_true', Bool.or_eq_false_iff, Option.isNone_iff_eq_none] at hp
  obtain ⟨⟨⟨⟨⟨⟨h1, h2⟩, h3⟩, h4⟩, h5⟩, h6⟩, h7⟩ := hp
  rw [gdOKL.eq_def] at hok
  simpa [h1, h2, h3, h4, h5, h6, h7, hf] using hok

/-! ### the converter on the remaining nodes -/

theorem mkOp_nonmeta (k : OpK) (hk : k.isMeta = false) (ops : List Form) : mkOp k ops = .op k ops := by
  unfold mkOp; simp [hk]

theorem mkOp_eqF_same (x : Form) (hn : notOp .eqF x = true) : mkOp .eqF [x, x] = .op .eqF [x] := by
  unfold mkOp simplifyOperands
  have hf : flatList .eqF [x, x] = [x, x] := flatList_notOp .eqF [x, x] (by
    intro χ hχ
    simp only [List.mem_cons, List.mem_nil_iff, or_false, or_self] at hχ
    rw [hχ]; exact hn)
  simp only [OpK.isMeta, OpK.idem, if_true, Bool.false_eq_true, if_false, List.length_cons, List.length_nil]
  rw [if_neg (by omega), hf]
  simp [dedup, dedupAcc]

theorem conv_not (CE : CEnv) (ps : List (String × Ty)) (qv : List Var) (f : Form) :
    convExpr CE ps qv (.not f) = (convExpr CE ps qv f).map Expr.mkNot := by rw [convExpr]

theorem conv_two (CE : CEnv) (ps : List (String × Ty)) (qv : List Var) (k : OpK) (hk : k ≠ .minus) (x y : Form) (e' : Expr)
    (h : convExpr CE ps qv (.op k [x, y]) = some e') :
    ∃ x' y', convExpr CE ps qv x = some x' ∧ convExpr CE ps qv y = some y' ∧ convOp k [x', y'] = some e' := by
  rw [conv_op_of CE ps qv k hk, Option.bind_eq_some_iff] at h
  obtain ⟨as, has, hop⟩ := h
  have := (convExprs_some_iff CE ps qv [x, y] as).1 has
  refine ⟨cv CE ps qv x, cv CE ps qv y, conv_of_Dv CE ps qv (this.1 x (by simp)), conv_of_Dv CE ps qv (this.1 y (by simp)), ?_⟩
  rw [this.2] at hop
  exact hop

section
variable {E : REnv} {CE : CEnv} {ps : List (String × Ty)} (ag : EnvAgree E CE ps) (nm : NamesOK E) (C : PCtx)
include ag nm

/-- the two numeric operands of a comparison -/
theorem cmp_operands {sc qv : List Var} (hs : ScopeAgree sc qv) (a b : Sexp) (ea eb : Expr) (x y : Form) (x' y' : Expr)
    (hU : readExprs E sc [a, b] = some [ea, eb]) (hx : astFexp C a = some x) (hy : astFexp C b = some y)
    (hx' : convExpr CE ps qv x = some x') (hy' : convExpr CE ps qv y = some y') (hok : fexpOKs C [a, b] = true) :
    FRel ea x' ∧ FRel eb y' := by
  have hA : astFexps C [a, b] = some [x, y] := by rw [astFexps, astFexps, astFexps, hx, hy]; rfl
  have hQ : convExprs CE ps qv [x, y] = some [x', y'] := by rw [convExprs, convExprs, convExprs, hx', hy']
  have := fexps_agree ag nm C [a, b] sc qv [ea, eb] [x, y] [x', y'] hs hU hA hQ hok
  exact ⟨this.1, this.2.1⟩

mutual
/-- **conditions**: the two readers agree up to `GdRel` -/
theorem gd_agree : ∀ (t : Sexp) (sc qv : List Var) (e : Expr) (φ : Form) (e' : Expr), ScopeAgree sc qv →
    readExpr E sc t = some e → astGd C t = some φ → convExpr CE ps qv φ = some e' → gdOK E.fluents C t = true → GdRel e e'
  | .atom _, _, _, _, φ, _, _, _, hA, _, _ => by rw [astGd] at hA; cases hA
  | .list xs, sc, qv, e, φ, e', hs, hU, hA, hQ, hok => by
    rw [readExpr] at hU
    rw [astGd] at hA
    rw [gdOK] at hok
    exact gdL_agree xs sc qv e φ e' hs hU hA hQ hok
theorem gdL_agree : ∀ (xs : List Sexp) (sc qv : List Var) (e : Expr) (φ : Form) (e' : Expr), ScopeAgree sc qv →
    readList E sc xs = some e → astGdL C xs = some φ → convExpr CE ps qv φ = some e' → gdOKL E.fluents C xs = true → GdRel e e'
  | [], _, _, _, φ, _, _, _, hA, _, _ => by rw [astGdL] at hA; cases hA
  | .list _ :: _, _, _, _, φ, _, _, _, hA, _, _ => by rw [astGdL] at hA; cases hA
  | .atom h :: rest, sc, qv, e, φ, e', hs, hU, hA, hQ, hok => by
    by_cases hand : h = "and"
    · -- conjunction
      subst hand
      rw [astGdL_and, Option.map_eq_some_iff] at hA
      obtain ⟨φs, hφs, rfl⟩ := hA
      rw [readList_op E sc "and" rest (by simp) rfl, Option.bind_eq_some_iff] at hU
      obtain ⟨es, hes, happ⟩ := hU
      have he : e = mkAnd es := (Option.some.inj happ).symm
      rw [gdOKL_conn _ C "and" rest (Or.inl rfl)] at hok
      have hDs := Dv_of_mkOp_idem CE ps qv .and (Or.inl rfl) φs (Dv_of_eq hQ)
      have ih := gds_agree rest sc qv es φs _ hs hes hφs (convExprs_of_Dv CE ps qv φs hDs) hok
      have hW : ∀ φ ∈ φs, boolWF (cv CE ps qv φ) = true := by
        intro φ hφ
        obtain ⟨a, _, hr⟩ := all2_mem_right ih (cv CE ps qv φ) (List.mem_map.2 ⟨φ, hφ, rfl⟩)
        exact hr.wf'
      rw [he, ← cv_eq CE ps qv hQ]
      exact (GdRel.mkAnd ih).trans (gdRel_mkOp_and CE ps qv φs hDs hW)
    · by_cases hor : h = "or"
      · -- disjunction
        subst hor
        rw [astGdL_or] at hA
        split at hA
        · rw [Option.map_eq_some_iff] at hA
          obtain ⟨φs, hφs, rfl⟩ := hA
          rw [readList_op E sc "or" rest (by simp) rfl, Option.bind_eq_some_iff] at hU
          obtain ⟨es, hes, happ⟩ := hU
          have he : e = mkOr es := (Option.some.inj happ).symm
          rw [gdOKL_conn _ C "or" rest (Or.inr (Or.inl rfl))] at hok
          have hDs := Dv_of_mkOp_idem CE ps qv .or (Or.inr rfl) φs (Dv_of_eq hQ)
          have ih := gds_agree rest sc qv es φs _ hs hes hφs (convExprs_of_Dv CE ps qv φs hDs) hok
          have hW : ∀ φ ∈ φs, boolWF (cv CE ps qv φ) = true := by
            intro φ hφ
            obtain ⟨a, _, hr⟩ := all2_mem_right ih (cv CE ps qv φ) (List.mem_map.2 ⟨φ, hφ, rfl⟩)
            exact hr.wf'
          rw [he, ← cv_eq CE ps qv hQ]
          exact (GdRel.mkOr ih).trans (gdRel_mkOp_or CE ps qv φs hDs hW)
        · cases hA
      · by_cases hnot : h = "not"
        · -- negation
          subst hnot
          by_cases hl : rest.length = 1
          · match rest, hl, hU, hA, hok with
            | [x], _, hU, hA, hok =>
              rw [astGdL_not, Option.map_eq_some_iff] at hA
              obtain ⟨a, ha, rfl⟩ := hA
              rw [conv_not, Option.map_eq_some_iff] at hQ
              obtain ⟨a', ha', rfl⟩ := hQ
              rw [readList_op E sc "not" [x] (by simp) rfl, Option.bind_eq_some_iff] at hU
              obtain ⟨es, hes, happ⟩ := hU
              obtain ⟨e1, er, he1, her, rfl⟩ := readExprs_cons_inv hes
              rw [readExprs_nil_inv her] at happ hes
              rw [gdOKL_conn _ C "not" [x] (Or.inr (Or.inr (Or.inl rfl)))] at hok
              have hfa : astGds C [x] = some [a] := by rw [astGds, astGds, ha]; rfl
              have hc : convExprs CE ps qv [a] = some [a'] := by rw [convExprs, convExprs, ha']
              have ih := gds_agree [x] sc qv [e1] [a] [a'] hs hes hfa hc hok
              have he : e = mkNot e1 := (Option.some.inj happ).symm
              rw [he]
              exact GdRel.mkNot ih.1
          · rw [astGdL_not_other C rest hl] at hA; cases hA
        · by_cases himp : h = "imply"
          · -- implication
            subst himp
            by_cases hl : rest.length = 2
            · match rest, hl, hU, hA, hok with
              | [a, b], _, hU, hA, hok =>
                rw [astGdL_imply] at hA
                split at hA
                · rw [Option.bind_eq_some_iff] at hA
                  obtain ⟨x, hx, hA⟩ := hA
                  rw [Option.map_eq_some_iff] at hA
                  obtain ⟨y, hy, rfl⟩ := hA
                  obtain ⟨x', y', hx', hy', hop⟩ := conv_two CE ps qv .imply (by decide) x y e' hQ
                  rw [readList_op E sc "imply" [a, b] (by simp) rfl, Option.bind_eq_some_iff] at hU
                  obtain ⟨es, hes, happ⟩ := hU
                  obtain ⟨e1, er, he1, her, rfl⟩ := readExprs_cons_inv hes
                  obtain ⟨e2, er2, he2, her2, rfl⟩ := readExprs_cons_inv her
                  rw [readExprs_nil_inv her2] at happ hes
                  rw [gdOKL_conn _ C "imply" [a, b] (Or.inr (Or.inr (Or.inr rfl)))] at hok
                  have hfa : astGds C [a, b] = some [x, y] := by rw [astGds, astGds, astGds, hx, hy]; rfl
                  have hc : convExprs CE ps qv [x, y] = some [x', y'] := by rw [convExprs, convExprs, convExprs, hx', hy']
                  have ih := gds_agree [a, b] sc qv [e1, e2] [x, y] [x', y'] hs hes hfa hc hok
                  have he : e = mkImplies e1 e2 := (Option.some.inj happ).symm
                  have he' : e' = mkImplies x' y' := (Option.some.inj hop).symm
                  rw [he, he']
                  exact GdRel.mkImplies ih.1 ih.2.1
                · cases hA
            · rw [astGdL_imply_other C rest hl] at hA; cases hA
          · by_cases hq : h = "exists" ∨ h = "forall"
            · -- quantifier
              match rest, hU, hA, hok with
              | [.list vl, body], hU, hA, hok =>
                rw [astGdL_quant C h hq] at hA
                split at hA
                · rw [Option.bind_eq_some_iff] at hA
                  obtain ⟨tvs, htvs, hA⟩ := hA
                  rw [Option.map_eq_some_iff] at hA
                  obtain ⟨bφ, hbφ, rfl⟩ := hA
                  rw [convExpr] at hQ
                  cases hups : convertVariables CE.types tvs with
                  | none => simp [hups] at hQ
                  | some ups =>
                    simp only [hups] at hQ
                    split at hQ
                    · cases hQ
                    · rw [Option.map_eq_some_iff] at hQ
                      obtain ⟨be', hbe', rfl⟩ := hQ
                      rw [readList_quant E sc h hq, Option.bind_eq_some_iff] at hU
                      obtain ⟨vs, hvs, hU⟩ := hU
                      split at hU
                      · cases hU
                      · rw [Option.map_eq_some_iff] at hU
                        obtain ⟨be, hbe, rfl⟩ := hU
                        rw [gdOKL_quant _ C h hq, Bool.and_eq_true] at hok
                        obtain ⟨hvn, hokb⟩ := hok
                        obtain ⟨heq, hnd⟩ := vars_agree E CE.types ag.types_id vl vs tvs ups hvs htvs hups hvn
                        subst heq
                        have hs' := scope_extend hs hnd
                        exact GdRel.quant (quantOf h) vs (gd_agree body _ _ be bφ be' hs' hbe hbφ hbe' hokb)
                · cases hA
              | [], _, hA, _ => rw [astGdL.eq_def] at hA; rcases hq with rfl | rfl <;> simp at hA
              | [_], _, hA, _ => rw [astGdL.eq_def] at hA; rcases hq with rfl | rfl <;> simp at hA
              | [.atom _, _], _, hA, _ => rw [astGdL.eq_def] at hA; rcases hq with rfl | rfl <;> simp at hA
              | _ :: _ :: _ :: _, _, hA, _ => rw [astGdL.eq_def] at hA; rcases hq with rfl | rfl <;> simp at hA
            · cases hk : cmpOp? h with
              | some k =>
                -- comparison
                by_cases hl : rest.length = 2
                · match rest, hl, hU, hA, hok with
                  | [a, b], _, hU, hA, hok =>
                    have hop : isOperator h = true := by
                      rcases cmpOp_cases hk with ⟨rfl, _⟩ | ⟨rfl, _⟩ | ⟨rfl, _⟩ | ⟨rfl, _⟩ | ⟨rfl, _⟩ <;> rfl
                    have hneg : (h == "-" && [a, b].length == 1) = false := by simp
                    rw [readList_op E sc h [a, b] hneg hop, Option.bind_eq_some_iff] at hU
                    obtain ⟨es, hes, happ⟩ := hU
                    obtain ⟨ea, er, hea, her, rfl⟩ := readExprs_cons_inv hes
                    obtain ⟨eb, er2, heb, her2, rfl⟩ := readExprs_cons_inv her
                    rw [readExprs_nil_inv her2] at happ hes
                    rw [gdOKL_cmp _ C h k hk] at hok
                    rw [astGdL_cmp C h k hk] at hA
                    split at hA
                    · -- equality of two terms
                      rename_i hterm
                      have heq : h = "=" := by
                        simp only [Bool.and_eq_true, beq_iff_eq] at hterm; exact hterm.1
                      subst heq
                      rw [astAtom_eq] at hA
                      split at hA
                      · rw [Option.bind_eq_some_iff] at hA
                        obtain ⟨x, hx, hA⟩ := hA
                        rw [Option.map_eq_some_iff] at hA
                        obtain ⟨y, hy, rfl⟩ := hA
                        rw [convExpr] at hQ
                        cases hx' : convTerm CE ps qv x with
                        | none => simp [hx'] at hQ
                        | some x' =>
                          cases hy' : convTerm CE ps qv y with
                          | none => simp [hx', hy'] at hQ
                          | some y' =>
                            simp only [hx', hy', Option.some.injEq] at hQ
                            have hts : astTerms C [a, b] = some [x, y] := by
                              rw [astTerms, astTerms, astTerms, hx, hy]; rfl
                            have hcs : convTerms CE ps qv [x, y] = some [x', y'] := by
                              rw [convTerms, convTerms, convTerms, hx', hy']; rfl
                            have := terms_agree ag nm C hs [a, b] [ea, eb] [x, y] [x', y'] hes hts hcs
                            have he : e = mkEq ea eb := (Option.some.inj happ).symm
                            cases this
                            rw [he, ← hQ]
                            exact GdRel.refl rfl
                      · cases hA
                    · -- comparison of two numeric expressions
                      rw [Option.bind_eq_some_iff] at hA
                      obtain ⟨x, hx, hA⟩ := hA
                      rw [Option.map_eq_some_iff] at hA
                      obtain ⟨y, hy, rfl⟩ := hA
                      have hA2 : astFexps C [a, b] = some [x, y] := by rw [astFexps, astFexps, astFexps, hx, hy]; rfl
                      have hshape := astFexps_shape C [a, b] [x, y] hA2 hok
                      have hsx := hshape x (by simp)
                      have hsy := hshape y (by simp)
                      -- the node the external parser builds is the binary node
                      have hnode : ∃ x' y', convExpr CE ps qv x = some x' ∧ convExpr CE ps qv y = some y' ∧
                          convOp k [x', y'] = some e' := by
                        rcases cmpOp_cases hk with ⟨_, rfl⟩ | ⟨_, rfl⟩ | ⟨_, rfl⟩ | ⟨_, rfl⟩ | ⟨_, rfl⟩
                        · by_cases hxy : x = y
                          · subst hxy
                            rw [mkOp_eqF_same x hsx.noEq, conv_op_of CE ps qv .eqF (by decide), Option.bind_eq_some_iff] at hQ
                            obtain ⟨as, has, hop'⟩ := hQ
                            have := ((convExprs_some_iff CE ps qv [x] as).1 has).2
                            rw [this] at hop'
                            simp [convOp] at hop'
                          · have hf : flatList .eqF [x, y] = [x, y] := flatList_notOp .eqF [x, y] (by
                              intro χ hχ
                              simp only [List.mem_cons, List.mem_nil_iff, or_false] at hχ
                              rcases hχ with rfl | rfl
                              · exact hsx.noEq
                              · exact hsy.noEq)
                            have hmk := binary_mkOp .eqF rfl rfl x y (by rw [hf]; simp [hxy])
                              (wfK_of_notOp .eqF x hsx.noEq) (wfK_of_notOp .eqF y hsy.noEq) (by rw [hf]; rfl)
                            rw [hmk] at hQ
                            exact conv_two CE ps qv .eqF (by decide) x y e' hQ
                        · rw [mkOp_nonmeta .lt rfl] at hQ; exact conv_two CE ps qv .lt (by decide) x y e' hQ
                        · rw [mkOp_nonmeta .le rfl] at hQ; exact conv_two CE ps qv .le (by decide) x y e' hQ
                        · rw [mkOp_nonmeta .gt rfl] at hQ; exact conv_two CE ps qv .gt (by decide) x y e' hQ
                        · rw [mkOp_nonmeta .ge rfl] at hQ; exact conv_two CE ps qv .ge (by decide) x y e' hQ
                      obtain ⟨x', y', hx', hy', hop'⟩ := hnode
                      obtain ⟨hra, hrb⟩ := cmp_operands ag nm C hs a b ea eb x y x' y' hes hx hy hx' hy' hok
                      rcases cmpOp_cases hk with ⟨rfl, rfl⟩ | ⟨rfl, rfl⟩ | ⟨rfl, rfl⟩ | ⟨rfl, rfl⟩ | ⟨rfl, rfl⟩
                      · have he : e = .app .eq [ea, eb] := (Option.some.inj happ).symm
                        have he' : e' = .app .eq [x', y'] := (Option.some.inj hop').symm
                        rw [he, he']; exact GdRel.cmp .eq (Or.inr (Or.inr rfl)) hra hrb
                      · have he : e = .app .lt [ea, eb] := (Option.some.inj happ).symm
                        have he' : e' = .app .lt [x', y'] := (Option.some.inj hop').symm
                        rw [he, he']; exact GdRel.cmp .lt (Or.inr (Or.inl rfl)) hra hrb
                      · have he : e = .app .le [ea, eb] := (Option.some.inj happ).symm
                        have he' : e' = .app .le [x', y'] := (Option.some.inj hop').symm
                        rw [he, he']; exact GdRel.cmp .le (Or.inl rfl) hra hrb
                      · have he : e = .app .lt [eb, ea] := (Option.some.inj happ).symm
                        have he' : e' = .app .lt [y', x'] := (Option.some.inj hop').symm
                        rw [he, he']; exact GdRel.cmp .lt (Or.inr (Or.inl rfl)) hrb hra
                      · have he : e = .app .le [eb, ea] := (Option.some.inj happ).symm
                        have he' : e' = .app .le [y', x'] := (Option.some.inj hop').symm
                        rw [he, he']; exact GdRel.cmp .le (Or.inl rfl) hrb hra
                · rw [astGdL_cmp_other C h k hk rest hl] at hA; cases hA
              | none =>
                -- an atom: a predicate applied to terms
                have hp : isPlainHead h = true := by
                  unfold isPlainHead
                  simp only [not_or] at hq
                  simp [hand, hor, hnot, himp, hq.1, hq.2, hk]
                rw [astGdL_plain C h hp] at hA
                have hne : (h == "=") = false := by
                  cases hc : (h == "=") with
                  | false => rfl
                  | true =>
                    have : h = "=" := by simpa using hc
                    subst this
                    simp [cmpOp?] at hk
                rw [astAtom_pred C h rest hne] at hA
                split at hA
                · cases hA
                · rename_i hres
                  simp only [Bool.or_eq_true, not_or, Bool.not_eq_true] at hres
                  rw [Option.map_eq_some_iff] at hA
                  obtain ⟨τs, hτs, rfl⟩ := hA
                  rw [convExpr] at hQ
                  have hres' : ¬ isReserved h = true := by simp [hres.1.1]
                  have hop : isOperator h = false := by
                    cases ho : isOperator h with
                    | false => rfl
                    | true => exact absurd (isReserved_of_isOperator ho) hres'
                  have hqq : (h == "exists" || h == "forall") = false := by
                    cases hc : (h == "exists" || h == "forall") with
                    | false => rfl
                    | true => exact absurd (isReserved_quant hc) hres'
                  have hneg : (h == "-" && rest.length == 1) = false := by
                    have : (h == "-") = false := by
                      cases hc : (h == "-") with
                      | false => rfl
                      | true =>
                        have : h = "-" := by simpa using hc
                        subst this
                        revert hres'; decide
                    simp [this]
                  cases hf : E.fluent? h with
                  | none =>
                    obtain ⟨f', hf', _⟩ := convFluent_inv ag hQ
                    rw [hf] at hf'
                    cases hf'
                  | some f =>
                    cases ht : isTrajOp h with
                    | true =>
                      rw [readList.eq_def] at hU
                      simp [hneg, hop, hqq, ht] at hU
                    | false =>
                      rw [readList_fluent E sc h rest f hneg hop hqq ht hf, Option.bind_eq_some_iff] at hU
                      obtain ⟨es, hes, hif⟩ := hU
                      have := fluent_app_agree ag nm C hs h rest τs es e' f hf hes hτs hQ
                      have hb : f.ty = .bool := gdOKL_plain E.fluents C h hp rest f hf hok
                      split at hif
                      · rw [← Option.some.inj hif, this]
                        exact GdRel.refl (by simp [boolWF, hb])
                      · cases hif
theorem gds_agree : ∀ (ts : List Sexp) (sc qv : List Var) (es : List Expr) (φs : List Form) (as : List Expr),
    ScopeAgree sc qv → readExprs E sc ts = some es → astGds C ts = some φs → convExprs CE ps qv φs = some as →
    gdOKs E.fluents C ts = true → All2 GdRel es as
  | [], _, _, es, φs, as, _, hU, hA, hQ, _ => by
    rw [readExprs_nil_inv hU, astGds_nil_inv hA] at *
    rw [convExprs] at hQ
    cases hQ
    trivial
  | t :: ts, sc, qv, es, φs, as, hs, hU, hA, hQ, hok => by
    obtain ⟨e, er, he, her, rfl⟩ := readExprs_cons_inv hU
    obtain ⟨a, ar, ha, har, rfl⟩ := astGds_cons_inv hA
    obtain ⟨hok1, hok2⟩ := gdOKs_cons hok
    rw [convExprs] at hQ
    cases h1 : convExpr CE ps qv a with
    | none => simp [h1] at hQ
    | some a' =>
      cases h2 : convExprs CE ps qv ar with
      | none => simp [h1, h2] at hQ
      | some ar' =>
        simp only [h1, h2, Option.some.injEq] at hQ
        subst hQ
        exact ⟨gd_agree t sc qv e a a' hs he ha h1 hok1, gds_agree ts sc qv er ar ar' hs her har h2 hok2⟩
end

end

end UPVerif.FromPddl
