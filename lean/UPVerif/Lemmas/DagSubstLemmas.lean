import UPVerif.Lemmas.DagWalkerLemmas
/-!
The Substituter instance of the DAG-walker machine against the shared core's `Expr.subst`
(Core/Walkers/Substitute.lean, the function C13's theorems are about): when the manager refuses
nothing, `substE` (what the machine computes, `substSpec_pure`) never raises and IS `subst`.
-/
namespace UPVerif.Dag
open UPVerif UPVerif.Expr

theorem bodySubst_eq_keptUnder (σ : Subst) (vs : List Var) : bodySubst σ vs = keptUnder vs σ := rfl

mutual
theorem substE_eq_subst (σ : Subst) : ∀ e, substE (fun _ => false) σ e = .ok (subst σ e)
  | .leaf l => by
    simp only [substE, subst]
    cases h : σ.lookup (.leaf l) with
    | some v => rfl
    | none => simp [substFn, h, rebuildE, walkReplaceOrIdentity, identityNode]
  | .app op args => by
    simp only [substE, subst]
    cases h : σ.lookup (.app op args) with
    | some v => rfl
    | none =>
      simp only [substListE_eq_substList σ args]
      simp [substFn, h, rebuildE, walkReplaceOrIdentity, identityNode]
  | .quant q vs b => by
    simp only [substE, subst]
    cases h : σ.lookup (.quant q vs b) with
    | some v => rfl
    | none =>
      have hb : (if (bodySubst σ vs).isEmpty then Except.ok b
                 else substE (fun _ => false) (bodySubst σ vs) b)
          = .ok (if (keptUnder vs σ).isEmpty then b else subst (keptUnder vs σ) b) := by
        rw [bodySubst_eq_keptUnder]
        by_cases he : (keptUnder vs σ).isEmpty = true
        · rw [if_pos he, if_pos he]
        · rw [if_neg he, if_neg he]; exact substE_eq_subst (keptUnder vs σ) b
      simp only [hb]
      simp [substFn, h, rebuildE, walkReplaceOrIdentity, identityNode]
theorem substListE_eq_substList (σ : Subst) : ∀ es,
    substListE (fun _ => false) σ es = .ok (substList σ es)
  | [] => rfl
  | e :: es => by
    simp only [substListE, substList]
    rw [substListE_eq_substList σ es, substE_eq_subst σ e]
end

end UPVerif.Dag
