import UPVerif.Core.AnmlSyntax
import UPVerif.Core.Den
import UPVerif.Lemmas.AnmlNum
import Mathlib.Tactic.Ring
/-!
Re-spelling keeps the reference denotation (`Core/Den.lean`): the left-nested binary tree of an n-ary
`and` / `or` / `+` / `*`, `Times(-1, n)` for a negative integer and `Div(n, d)` for a rational constant denote what
the original expression denotes, under every interpretation and variable environment.
-/
namespace UPVerif.Anml
open UPVerif

theorem den_app (ι : Interp) (ρ : VEnv) (op : Op) (args : List Expr) :
    den ι ρ (.app op args) = (denList ι ρ args).bind (denOp ι op) := by
  rw [den]

theorem denList_cons (ι : Interp) (ρ : VEnv) (e : Expr) (es : List Expr) :
    denList ι ρ (e :: es) = (den ι ρ e).bind (fun v => (denList ι ρ es).map (v :: ·)) := by
  rw [denList]
  cases den ι ρ e <;> cases denList ι ρ es <;> rfl

theorem foldl_add_start (qs : List Rat) (a : Rat) : qs.foldl (· + ·) a = a + qs.foldl (· + ·) 0 := by
  induction qs generalizing a with
  | nil => simp
  | cons q qs ih => simp only [List.foldl_cons]; rw [ih (a + q), ih (0 + q)]; ring

theorem foldl_mul_start (qs : List Rat) (a : Rat) : qs.foldl (· * ·) a = a * qs.foldl (· * ·) 1 := by
  induction qs generalizing a with
  | nil => simp
  | cons q qs ih => simp only [List.foldl_cons]; rw [ih (a * q), ih (1 * q)]; ring

theorem foldl_add_pair (a b : Rat) (qs : List Rat) :
    ((a + b) :: qs).foldl (· + ·) 0 = (a :: b :: qs).foldl (· + ·) 0 := by
  simp only [List.foldl_cons]
  rw [foldl_add_start qs (0 + (a + b)), foldl_add_start qs (0 + a + b)]; ring

theorem foldl_mul_pair (a b : Rat) (qs : List Rat) :
    ((a * b) :: qs).foldl (· * ·) 1 = (a :: b :: qs).foldl (· * ·) 1 := by
  simp only [List.foldl_cons]
  rw [foldl_mul_start qs (1 * (a * b)), foldl_mul_start qs (1 * a * b)]; ring

/-- the first two operands of an n-ary operator may be combined first -/
theorem denOp_assoc (ι : Interp) (op : Op) (hop : isNary op = true) (vx vy : Val) (vs : List Val) :
    (denOp ι op [vx, vy]).bind (fun v => denOp ι op (v :: vs)) = denOp ι op (vx :: vy :: vs) := by
  cases op <;> simp [isNary] at hop
  · -- and
    cases vx <;> cases vy <;> simp [denOp, allBools]
    cases allBools vs <;> simp [Bool.and_assoc]
  · -- or
    cases vx <;> cases vy <;> simp [denOp, allBools]
    cases allBools vs <;> simp [Bool.or_assoc]
  · -- plus
    cases vx <;> cases vy <;> simp [denOp, allNums]
    cases allNums vs with
    | none => simp
    | some qs =>
      simp only [Option.map_some, Function.comp_def, Option.some.injEq, Val.n.injEq]
      exact foldl_add_pair _ _ qs
  · -- times
    cases vx <;> cases vy <;> simp [denOp, allNums]
    cases allNums vs with
    | none => simp
    | some qs =>
      simp only [Option.map_some, Function.comp_def, Option.some.injEq, Val.n.injEq]
      exact foldl_mul_pair _ _ qs

theorem den_leftNest (ι : Interp) (ρ : VEnv) (op : Op) (hop : isNary op = true) :
    ∀ (rest : List Expr) (x y : Expr),
    den ι ρ (leftNest op (.app op [x, y]) rest) = (denList ι ρ (x :: y :: rest)).bind (denOp ι op)
  | [], x, y => by rw [leftNest, den_app]
  | e :: rest, x, y => by
    rw [leftNest, den_leftNest ι ρ op hop rest (.app op [x, y]) e]
    have hnil : denList ι ρ [] = some [] := by rw [denList]
    rw [denList_cons ι ρ (.app op [x, y]) (e :: rest), den_app, denList_cons ι ρ x [y], denList_cons ι ρ y [],
      denList_cons ι ρ x (y :: e :: rest), denList_cons ι ρ y (e :: rest), hnil]
    cases den ι ρ x with
    | none => simp
    | some vx =>
      cases den ι ρ y with
      | none => simp
      | some vy =>
        cases denList ι ρ (e :: rest) with
        | none =>
          simp only [Option.map_some, Option.bind_some, Option.map_none, Option.bind_none]
          cases denOp ι op [vx, vy] <;> simp
        | some vs =>
          have := denOp_assoc ι op hop vx vy vs
          simp only [Option.map_some, Option.bind_some]
          rw [← this]
          cases denOp ι op [vx, vy] <;> simp

theorem den_intExpr (ι : Interp) (ρ : VEnv) (z : Int) : den ι ρ (intExpr z) = some (.n (z : Rat)) := by
  unfold intExpr
  split
  · rename_i h
    simp only [den_app, denList, den, denLeaf, Expr.int, Option.bind_some, denOp, allNums, Option.map_some,
      List.foldl_cons, List.foldl_nil, Option.some.injEq, Val.n.injEq]
    have := natAbs_cast_neg z h
    simp only [Int.cast_neg, Int.cast_one, Int.cast_natCast]
    rw [← this]; ring
  · simp [den, denLeaf, Expr.int]

mutual
/-- re-spelling keeps the denotation -/
theorem den_respell (ι : Interp) : ∀ (e : Expr) (ρ : VEnv), den ι ρ (respell e) = den ι ρ e
  | .leaf l, ρ => by
    rw [respell]
    cases l with
    | intC z => simp only [respellLeaf, den_intExpr]; simp [den, denLeaf]
    | realC q =>
      simp only [respellLeaf, den_app, denList, den_intExpr]
      simp only [den, denLeaf, Expr.int, Option.bind_some, denOp]
      have hd : ((q.den : Int) : Rat) ≠ 0 := by
        simp only [Int.cast_natCast, ne_eq, Nat.cast_eq_zero]; exact q.den_nz
      rw [if_neg hd]
      simp only [Int.cast_natCast, Option.some.injEq, Val.n.injEq]
      exact rat_num_div_den q
    | _ => simp [respellLeaf]
  | .app op args, ρ => by
    rw [respell]
    have ih := denList_respell ι args ρ
    unfold respellApp
    split
    · rename_i hn
      split
      · rename_i a b rest heq
        rw [den_leftNest ι ρ op hn rest a b, ← heq, ih, den_app]
      · rw [den_app, ih, den_app]
    · rw [den_app, ih, den_app]
  | .quant q vs b, ρ => by
    rw [respell, den, den]
    have : (fun a => den ι (a ++ ρ) (respell b)) = (fun a => den ι (a ++ ρ) b) := by
      funext a; exact den_respell ι b (a ++ ρ)
    rw [this]
theorem denList_respell (ι : Interp) : ∀ (es : List Expr) (ρ : VEnv), denList ι ρ (respellList es) = denList ι ρ es
  | [], ρ => by rw [respellList]
  | e :: es, ρ => by
    rw [respellList, denList, denList, den_respell ι e ρ, denList_respell ι es ρ]
end

/-- the `And(condition, TRUE)` of a re-read conditional forall effect holds exactly when the condition does -/
theorem den_and_tt (ι : Interp) (ρ : VEnv) (c : Expr) (x : Bool) (h : den ι ρ c = some (.b x)) :
    den ι ρ (.app .and [c, Expr.tt]) = some (.b x) := by
  simp [den_app, denList, h, den, denLeaf, Expr.tt, denOp, allBools]

end UPVerif.Anml
