import UPVerif.Lemmas.D2PLemmas
/-!
Helper lemmas for the general round-trip theorem of `Props/C29.lean` (plans that may contain
variable-duration instances).  Method: the fold of `_back_plan_to_plan` acts on every
`(action, parameters)` group independently, so it is analysed per key on the sub-list of events of
that key (`localFold`); filtering by key commutes with the stable sort; and for strictly separated
instances of one key the sorted events alternate start/end.
-/
namespace UPVerif.D2P

/-! ### keys -/

def CAct.orig : CAct → String
  | .start n => n
  | .fend n => n
  | .other n => n

def keyCA (c : CA) : Key := (c.act.orig, c.ps)
def keyTA (x : TA) : Key := (x.act, x.ps)

/-! ### `backStep` factored through the operation it performs on the group of the event's key -/

inductive Op where
  | app (e : Entry)
  | close (δ : Rat)

def stepKind (P : Problem) (c : CA) : Except Err Op :=
  match c.act with
  | .start n =>
    match P.lookup n with
    | none => .error .value
    | some a =>
      match a.kind with
      | .inst => .ok (.app (c.t, none))
      | .dur lo hi lopen ropen _ =>
        if variableDuration lo hi lopen ropen then .ok (.app (c.t, none))
        else
          match evalD P.sfl c.ps lo with
          | none => .error .assertion
          | some d => .ok (.app (c.t, some d))
  | .fend n =>
    match P.lookup n with
    | none => .error .value
    | some a =>
      match endDelay a with
      | none => .error .value
      | some δ => .ok (.close δ)
  | .other _ => .error .value

theorem backStep_eq (P : Problem) (G : Groups) (c : CA) :
    backStep P G c =
      match stepKind P c with
      | .error e => .error e
      | .ok (.app e) => .ok (appendTo (keyCA c) e G)
      | .ok (.close δ) => closeLast (keyCA c) c.t δ G := by
  obtain ⟨t, act, ps⟩ := c
  cases act with
  | start n =>
    simp only [backStep, stepKind, keyCA, CAct.orig]
    cases P.lookup n with
    | none => rfl
    | some a =>
      obtain ⟨nm, kind⟩ := a
      cases kind with
      | inst => rfl
      | dur lo hi lopen ropen ts =>
        simp only
        cases variableDuration lo hi lopen ropen with
        | true => rfl
        | false =>
          simp only [Bool.false_eq_true, if_false]
          cases evalD P.sfl ps lo <;> rfl
  | fend n =>
    simp only [backStep, stepKind, keyCA, CAct.orig]
    cases P.lookup n with
    | none => rfl
    | some a =>
      dsimp only
      cases endDelay a <;> rfl
  | other n => rfl

/-- l. 1069-1075 on the entry list of one group -/
def closeLocal (te δ : Rat) (es : List Entry) : Except Err (List Entry) :=
  match es.getLast? with
  | none => .error .index
  | some (ts, dur) =>
    if dur.isSome then .error .assertion
    else if ¬ (ts ≤ te) then .error .assertion
    else if ¬ (δ ≤ 0) then .error .assertion
    else .ok (es.dropLast ++ [(ts, some (te - ts - δ))])

def localStep (P : Problem) (es : List Entry) (c : CA) : Except Err (List Entry) :=
  match stepKind P c with
  | .error e => .error e
  | .ok (.app e) => .ok (es ++ [e])
  | .ok (.close δ) => closeLocal c.t δ es

def localFold (P : Problem) (es : List Entry) : List CA → Except Err (List Entry)
  | [] => .ok es
  | c :: cs =>
    match localStep P es c with
    | .error e => .error e
    | .ok es' => localFold P es' cs

/-- entries of the group of key `k` -/
def proj (k : Key) : Groups → List Entry
  | [] => []
  | (k', es) :: g => if k' = k then es else proj k g

def keys (g : Groups) : List Key := g.map Prod.fst

theorem proj_of_not_mem {k : Key} {g : Groups} (h : k ∉ keys g) : proj k g = [] := by
  induction g with
  | nil => rfl
  | cons hd g ih =>
    obtain ⟨k', es⟩ := hd
    simp only [keys, List.map, List.mem_cons, not_or] at h
    have hne : ¬ k' = k := fun e => h.1 e.symm
    simp only [proj, hne, if_false]
    exact ih h.2

theorem proj_appendTo_self (k : Key) (e : Entry) (g : Groups) :
    proj k (appendTo k e g) = proj k g ++ [e] := by
  induction g with
  | nil => simp [appendTo, proj]
  | cons hd g ih =>
    obtain ⟨k', es⟩ := hd
    by_cases hk : k' = k
    · simp [appendTo, proj, hk]
    · simp [appendTo, proj, hk, ih]

theorem proj_appendTo_other {k k1 : Key} (hne : k1 ≠ k) (e : Entry) (g : Groups) :
    proj k1 (appendTo k e g) = proj k1 g := by
  induction g with
  | nil =>
    have : ¬ k = k1 := fun h => hne h.symm
    simp [appendTo, proj, this]
  | cons hd g ih =>
    obtain ⟨k', es⟩ := hd
    by_cases hk : k' = k
    · have hk1 : ¬ k' = k1 := fun h => hne (h.symm.trans hk)
      simp only [appendTo, hk, if_true, proj]
      rw [← hk]
      simp only [hk1, if_false]
    · simp only [appendTo, hk, if_false, proj]
      by_cases hk1 : k' = k1
      · simp only [hk1, if_true]
      · simp only [hk1, if_false]
        exact ih

theorem keys_appendTo (k : Key) (e : Entry) (g : Groups) :
    keys (appendTo k e g) = if k ∈ keys g then keys g else keys g ++ [k] := by
  induction g with
  | nil => simp [appendTo, keys]
  | cons hd g ih =>
    obtain ⟨k', es⟩ := hd
    by_cases hk : k' = k
    · subst hk
      simp [appendTo, keys]
    · have hk' : ¬ k = k' := fun h => hk h.symm
      have e1 : keys (appendTo k e ((k', es) :: g)) = k' :: keys (appendTo k e g) := by
        simp [appendTo, hk, keys]
      have e2 : (k ∈ keys ((k', es) :: g)) ↔ k ∈ keys g := by
        simp [keys, hk']
      rw [e1, ih]
      by_cases hm : k ∈ keys g
      · rw [if_pos hm, if_pos (e2.2 hm)]
        rfl
      · rw [if_neg hm, if_neg (fun h => hm (e2.1 h))]
        rfl

theorem nodup_keys_appendTo {k : Key} {e : Entry} {g : Groups} (h : (keys g).Nodup) :
    (keys (appendTo k e g)).Nodup := by
  rw [keys_appendTo]
  split
  · exact h
  · next hk =>
    rw [List.nodup_append]
    refine ⟨h, by simp, ?_⟩
    intro a ha b hb
    simp only [List.mem_singleton] at hb
    subst hb
    intro hab
    exact hk (hab ▸ ha)

theorem closeLast_of_local {k : Key} {te δ : Rat} {g : Groups} {es1 : List Entry}
    (h : closeLocal te δ (proj k g) = .ok es1) :
    ∃ g1, closeLast k te δ g = .ok g1 ∧ proj k g1 = es1 ∧ (∀ k1, k1 ≠ k → proj k1 g1 = proj k1 g) ∧
      keys g1 = keys g := by
  induction g with
  | nil => simp [proj, closeLocal] at h
  | cons hd g ih =>
    obtain ⟨k', es⟩ := hd
    by_cases hk : k' = k
    · subst hk
      simp only [proj, if_true] at h
      unfold closeLocal at h
      unfold closeLast
      simp only [if_true]
      cases hl : es.getLast? with
      | none => rw [hl] at h; cases h
      | some p =>
        obtain ⟨ts, dur⟩ := p
        rw [hl] at h
        simp only at h ⊢
        split at h
        · cases h
        · next h1 =>
          split at h
          · cases h
          · next h2 =>
            split at h
            · cases h
            · next h3 =>
              cases h
              simp only [h1, h2, h3, if_false]
              refine ⟨_, rfl, by simp [proj], ?_, rfl⟩
              intro k1 hne
              have : ¬ k' = k1 := fun e => hne e.symm
              simp [proj, this]
    · simp only [proj, hk, if_false] at h
      obtain ⟨g1, h1, h2, h3, h4⟩ := ih h
      refine ⟨(k', es) :: g1, ?_, ?_, ?_, ?_⟩
      · simp [closeLast, hk, h1]
      · simp [proj, hk, h2]
      · intro k1 hne
        by_cases hk1 : k' = k1
        · simp [proj, hk1]
        · simp [proj, hk1, h3 k1 hne]
      · simp [keys] at h4 ⊢
        exact h4

/-- one global step, seen from the group of the event's key -/
theorem backStep_of_local {P : Problem} {g : Groups} {c : CA} {es1 : List Entry}
    (hn : (keys g).Nodup) (h : localStep P (proj (keyCA c) g) c = .ok es1) :
    ∃ g1, backStep P g c = .ok g1 ∧ proj (keyCA c) g1 = es1 ∧
      (∀ k1, k1 ≠ keyCA c → proj k1 g1 = proj k1 g) ∧ (keys g1).Nodup := by
  rw [backStep_eq]
  unfold localStep at h
  cases hs : stepKind P c with
  | error e => rw [hs] at h; cases h
  | ok op =>
    rw [hs] at h
    cases op with
    | app e =>
      simp only at h ⊢
      cases h
      exact ⟨_, rfl, proj_appendTo_self _ _ _, fun k1 hne => proj_appendTo_other hne _ _,
        nodup_keys_appendTo hn⟩
    | close δ =>
      simp only at h ⊢
      obtain ⟨g1, h1, h2, h3, h4⟩ := closeLast_of_local h
      exact ⟨g1, h1, h2, h3, h4 ▸ hn⟩

/-- if the fold succeeds on every key's own events it succeeds globally, with the same groups -/
theorem backFold_of_local {P : Problem} (E : List CA) (g : Groups) (hn : (keys g).Nodup)
    (w : Key → List Entry)
    (h : ∀ k, localFold P (proj k g) (E.filter (fun c => keyCA c = k)) = .ok (w k)) :
    ∃ g', backFold P g E = .ok g' ∧ (keys g').Nodup ∧ ∀ k, proj k g' = w k := by
  induction E generalizing g with
  | nil =>
    refine ⟨g, rfl, hn, fun k => ?_⟩
    have := h k
    simp only [List.filter, localFold, Except.ok.injEq] at this
    exact this
  | cons c E ih =>
    have h0 := h (keyCA c)
    simp only [List.filter, decide_true, localFold] at h0
    cases hs : localStep P (proj (keyCA c) g) c with
    | error e => rw [hs] at h0; cases h0
    | ok es1 =>
      rw [hs] at h0
      simp only at h0
      obtain ⟨g1, h1, h2, h3, h4⟩ := backStep_of_local hn hs
      have := ih g1 h4 (fun k => by
        by_cases hk : k = keyCA c
        · subst hk
          rw [h2]; exact h0
        · rw [h3 k hk]
          have hk' : ¬ keyCA c = k := fun e => hk e.symm
          have := h k
          simpa [List.filter, hk'] using this)
      obtain ⟨g', hg1, hg2, hg3⟩ := this
      exact ⟨g', by simp [backFold, h1, hg1], hg2, hg3⟩

/-! ### sortedness and filtering -/

def SortedCA (l : List CA) : Prop := l.Pairwise (fun a b => a.t ≤ b.t)

theorem insertSorted_of_le {c : CA} {l : List CA} (h : ∀ z ∈ l, c.t ≤ z.t) : insertSorted c l = c :: l := by
  cases l with
  | nil => rfl
  | cons y ys => simp [insertSorted, h y (List.mem_cons_self ..)]

theorem mem_insertSorted {c z : CA} {l : List CA} : z ∈ insertSorted c l ↔ z = c ∨ z ∈ l := by
  rw [(insertSorted_perm c l).mem_iff, List.mem_cons]

theorem sorted_insertSorted {c : CA} {l : List CA} (h : SortedCA l) : SortedCA (insertSorted c l) := by
  induction l with
  | nil => simp [insertSorted, SortedCA]
  | cons y ys ih =>
    have hy : ∀ z ∈ ys, y.t ≤ z.t := (List.pairwise_cons.1 h).1
    have hys : SortedCA ys := (List.pairwise_cons.1 h).2
    unfold insertSorted
    split
    · next hle =>
      refine List.pairwise_cons.2 ⟨?_, h⟩
      intro z hz
      rcases List.mem_cons.1 hz with rfl | hz
      · exact hle
      · exact Rat.le_trans hle (hy z hz)
    · next hnle =>
      refine List.pairwise_cons.2 ⟨?_, ih hys⟩
      intro z hz
      rcases mem_insertSorted.1 hz with rfl | hz
      · exact Rat.le_of_lt (Rat.not_le.1 hnle)
      · exact hy z hz

theorem sorted_sortByTime (l : List CA) : SortedCA (sortByTime l) := by
  induction l with
  | nil => simp [sortByTime, SortedCA]
  | cons c cs ih => exact sorted_insertSorted ih

theorem insertSorted_cons_le {c y : CA} {ys : List CA} (h : c.t ≤ y.t) :
    insertSorted c (y :: ys) = c :: y :: ys := by simp [insertSorted, h]

theorem insertSorted_cons_gt {c y : CA} {ys : List CA} (h : ¬ c.t ≤ y.t) :
    insertSorted c (y :: ys) = y :: insertSorted c ys := by simp [insertSorted, h]

theorem filter_insertSorted (p : CA → Bool) {c : CA} {l : List CA} (h : SortedCA l) :
    (insertSorted c l).filter p = if p c then insertSorted c (l.filter p) else l.filter p := by
  induction l with
  | nil => cases hp : p c <;> simp [insertSorted, hp]
  | cons y ys ih =>
    have hy : ∀ z ∈ ys, y.t ≤ z.t := (List.pairwise_cons.1 h).1
    have hys : SortedCA ys := (List.pairwise_cons.1 h).2
    by_cases hle : c.t ≤ y.t
    · have hall : ∀ z ∈ (y :: ys).filter p, c.t ≤ z.t := by
        intro z hz
        have hz' := (List.mem_filter.1 hz).1
        rcases List.mem_cons.1 hz' with rfl | hz'
        · exact hle
        · exact Rat.le_trans hle (hy z hz')
      rw [insertSorted_cons_le hle]
      cases hp : p c
      · simp [List.filter_cons, hp]
      · rw [if_pos rfl, insertSorted_of_le hall]
        simp [List.filter_cons, hp]
    · rw [insertSorted_cons_gt hle, List.filter_cons, ih hys]
      cases hpy : p y <;> cases hp : p c
      · simp [hpy]
      · simp [hpy]
      · simp [hpy]
      · simp only [if_true, List.filter_cons, hpy]
        rw [insertSorted_cons_gt hle]

theorem filter_sortByTime (p : CA → Bool) (l : List CA) :
    (sortByTime l).filter p = sortByTime (l.filter p) := by
  induction l with
  | nil => rfl
  | cons c cs ih =>
    simp only [sortByTime]
    rw [filter_insertSorted p (sorted_sortByTime cs), ih]
    cases hp : p c <;> simp [List.filter, hp, sortByTime]

/-! ### the forward plan as a concatenation of per-instance event lists -/

def evs (P : Problem) (x : TA) : List CA :=
  match forwardStep P x with
  | .ok h => h
  | .error _ => []

theorem forward_eq_flatMap {P : Problem} {π : List TA} {cs : List CA} (h : forward P π = .ok cs) :
    cs = π.flatMap (evs P) := by
  induction π generalizing cs with
  | nil => simp only [forward] at h; cases h; rfl
  | cons x xs ih =>
    obtain ⟨hd, tl, h1, h2, rfl⟩ := forward_cons_ok h
    simp [List.flatMap_cons, evs, h1, ih h2]

theorem key_of_evs {P : Problem} {x : TA} {c : CA} (hc : c ∈ evs P x) : keyCA c = keyTA x := by
  unfold evs at hc
  cases hs : forwardStep P x with
  | error e => rw [hs] at hc; cases hc
  | ok h =>
    rw [hs] at hc
    rcases forwardStep_mem hs c hc with rfl | ⟨a, δ, d, _, _, _, _, _, rfl⟩ <;> rfl

theorem filter_flatMap_evs (P : Problem) (k : Key) (π : List TA) :
    (π.flatMap (evs P)).filter (fun c => keyCA c = k) =
      (π.filter (fun x => keyTA x = k)).flatMap (evs P) := by
  induction π with
  | nil => rfl
  | cons x xs ih =>
    rw [List.flatMap_cons, List.filter_append, ih, List.filter_cons]
    by_cases hk : keyTA x = k
    · have : (evs P x).filter (fun c => decide (keyCA c = k)) = evs P x := by
        apply List.filter_eq_self.2
        intro c hc
        simp [key_of_evs hc, hk]
      simp [hk, this, List.flatMap_cons]
    · have : (evs P x).filter (fun c => decide (keyCA c = k)) = [] := by
        apply List.filter_eq_nil_iff.2
        intro c hc
        simp [key_of_evs hc, hk]
      simp [hk, this]

/-! ### one key, fixed duration: only start events -/

theorem stepKind_start_fixed {P : Problem} {x : TA} {a : ADecl}
    (ha : P.lookup x.act = some a) (he : endDelay a = none) (hd : declDur P a x.ps = some x.dur) :
    stepKind P (toStart x) = .ok (.app (x.t, x.dur)) := by
  have h := backStep_start_fixed (P := P) [] ha he hd
  rw [backStep_eq] at h
  cases hs : stepKind P (toStart x) with
  | error e => rw [hs] at h; cases h
  | ok op =>
    rw [hs] at h
    cases op with
    | app e =>
      simp only [appendTo, Except.ok.injEq, List.cons.injEq, Prod.mk.injEq, and_true] at h
      rw [h.2]
    | close δ => simp [closeLast] at h

theorem localFold_fixed {P : Problem} (L : List TA) (es : List Entry)
    (h : ∀ x ∈ L, ∃ a, P.lookup x.act = some a ∧ endDelay a = none ∧ declDur P a x.ps = some x.dur) :
    localFold P es (L.flatMap (evs P)) = .ok (es ++ L.map (fun x => (x.t, x.dur))) := by
  induction L generalizing es with
  | nil => simp [localFold]
  | cons x xs ih =>
    obtain ⟨a, ha, he, hd⟩ := h x (List.mem_cons_self ..)
    have hev : evs P x = [toStart x] := by simp [evs, forwardStep_fixed ha he]
    rw [List.flatMap_cons, hev]
    simp only [List.singleton_append, localFold, localStep, stepKind_start_fixed ha he hd]
    rw [ih _ (fun y hy => h y (List.mem_cons_of_mem _ hy))]
    simp

/-! ### one key, variable duration: start and end events -/

/-- the two compiled events of a variable-duration instance -/
def ev2 (δ : Rat) (x : TA) : List CA :=
  [toStart x, ⟨x.t + (x.dur.getD 0 + δ), .fend x.act, x.ps⟩]

/-- event-time separation of two instances -/
def Sep (δ : Rat) (x y : TA) : Prop :=
  x.t + (x.dur.getD 0 + δ) < y.t ∨ y.t + (y.dur.getD 0 + δ) < x.t

theorem insert_pair {δ : Rat} (x : TA) (L : List TA) (hx : 0 < x.dur.getD 0 + δ)
    (hL : ∀ y ∈ L, 0 < y.dur.getD 0 + δ) (hsep : ∀ y ∈ L, Sep δ x y) :
    insertSorted (toStart x) (insertSorted ⟨x.t + (x.dur.getD 0 + δ), .fend x.act, x.ps⟩ (L.flatMap (ev2 δ))) =
      (insertTA x L).flatMap (ev2 δ) := by
  induction L with
  | nil =>
    have : (toStart x).t ≤ x.t + (x.dur.getD 0 + δ) := by show x.t ≤ _; linarith
    simp [insertSorted, insertTA, ev2, this]
  | cons y ys ih =>
    have hy := hL y (List.mem_cons_self ..)
    have hs := hsep y (List.mem_cons_self ..)
    have ih' := ih (fun z hz => hL z (List.mem_cons_of_mem _ hz)) (fun z hz => hsep z (List.mem_cons_of_mem _ hz))
    by_cases hle : x.t ≤ y.t
    · -- x entirely before y
      have h1 : x.t + (x.dur.getD 0 + δ) < y.t := by
        rcases hs with h | h
        · exact h
        · exfalso; linarith
      have e1 : (⟨x.t + (x.dur.getD 0 + δ), .fend x.act, x.ps⟩ : CA).t ≤ (toStart y).t := by
        show x.t + (x.dur.getD 0 + δ) ≤ y.t; linarith
      have e2 : (toStart x).t ≤ (⟨x.t + (x.dur.getD 0 + δ), .fend x.act, x.ps⟩ : CA).t := by
        show x.t ≤ x.t + (x.dur.getD 0 + δ); linarith
      simp only [List.flatMap_cons, ev2, List.cons_append, List.nil_append, insertSorted, e1, e2, if_true,
        insertTA, hle]
    · -- y entirely before x
      have hlt : y.t < x.t := Rat.not_le.1 hle
      have h1 : y.t + (y.dur.getD 0 + δ) < x.t := by
        rcases hs with h | h
        · exfalso; linarith
        · exact h
      have n1 : ¬ (⟨x.t + (x.dur.getD 0 + δ), .fend x.act, x.ps⟩ : CA).t ≤ (toStart y).t := by
        show ¬ x.t + (x.dur.getD 0 + δ) ≤ y.t; intro h; linarith
      have n2 : ¬ (⟨x.t + (x.dur.getD 0 + δ), .fend x.act, x.ps⟩ : CA).t ≤
          (⟨y.t + (y.dur.getD 0 + δ), .fend y.act, y.ps⟩ : CA).t := by
        show ¬ x.t + (x.dur.getD 0 + δ) ≤ y.t + (y.dur.getD 0 + δ); intro h; linarith
      have n3 : ¬ (toStart x).t ≤ (toStart y).t := hle
      have n4 : ¬ (toStart x).t ≤ (⟨y.t + (y.dur.getD 0 + δ), .fend y.act, y.ps⟩ : CA).t := by
        show ¬ x.t ≤ y.t + (y.dur.getD 0 + δ); intro h; linarith
      simp only [List.flatMap_cons, ev2, List.cons_append, List.nil_append, insertSorted, n1, n2, n3, n4,
        if_false, insertTA, hle]
      rw [← ih']

theorem sort_pairs {δ : Rat} (L : List TA) (hL : ∀ y ∈ L, 0 < y.dur.getD 0 + δ)
    (hsep : L.Pairwise (Sep δ)) :
    sortByTime (L.flatMap (ev2 δ)) = (sortTA L).flatMap (ev2 δ) := by
  induction L with
  | nil => rfl
  | cons x xs ih =>
    have hp := List.pairwise_cons.1 hsep
    have ih' := ih (fun z hz => hL z (List.mem_cons_of_mem _ hz)) hp.2
    simp only [List.flatMap_cons, ev2, List.cons_append, List.nil_append, sortByTime, sortTA]
    rw [ih']
    exact insert_pair x (sortTA xs) (hL x (List.mem_cons_self ..))
      (fun y hy => hL y (List.mem_cons_of_mem _ ((sortTA_perm xs).mem_iff.1 hy)))
      (fun y hy => hp.1 y ((sortTA_perm xs).mem_iff.1 hy))

theorem stepKind_start_var {P : Problem} {x : TA} {a : ADecl} {δ : Rat}
    (ha : P.lookup x.act = some a) (he : endDelay a = some δ) :
    stepKind P (toStart x) = .ok (.app (x.t, none)) := by
  obtain ⟨nm, kind⟩ := a
  cases kind with
  | inst => simp [endDelay] at he
  | dur lo hi lopen ropen ts =>
    cases hv : variableDuration lo hi lopen ropen with
    | false => simp [endDelay, hv] at he
    | true => simp [stepKind, toStart, ha, hv]

theorem stepKind_end_var {P : Problem} {n : String} {a : ADecl} {δ te : Rat} {ps : List PVal}
    (ha : P.lookup n = some a) (he : endDelay a = some δ) :
    stepKind P ⟨te, .fend n, ps⟩ = .ok (.close δ) := by
  simp [stepKind, ha, he]

theorem localFold_var {P : Problem} {a : ADecl} {δ : Rat} (hδ : δ ≤ 0) (L : List TA) (es : List Entry)
    (h : ∀ x ∈ L, P.lookup x.act = some a ∧ ∃ d, x.dur = some d ∧ 0 < d + δ)
    (he : endDelay a = some δ) :
    localFold P es (L.flatMap (ev2 δ)) = .ok (es ++ L.map (fun x => (x.t, x.dur))) := by
  induction L generalizing es with
  | nil => simp [localFold]
  | cons x xs ih =>
    obtain ⟨ha, d, hd, hpos⟩ := h x (List.mem_cons_self ..)
    rw [List.flatMap_cons]
    simp only [ev2, List.cons_append, List.nil_append, localFold, localStep, stepKind_start_var ha he,
      stepKind_end_var ha he]
    have hclose : closeLocal (x.t + (x.dur.getD 0 + δ)) δ (es ++ [(x.t, none)]) =
        .ok (es ++ [(x.t, x.dur)]) := by
      unfold closeLocal
      have h1 : x.t ≤ x.t + (x.dur.getD 0 + δ) := by rw [hd]; simp only [Option.getD_some]; linarith
      have h2 : x.t + (x.dur.getD 0 + δ) - x.t - δ = d := by rw [hd]; simp only [Option.getD_some]; linarith
      simp [hδ, hd, hpos.le]
    simp only [hclose]
    rw [ih _ (fun y hy => h y (List.mem_cons_of_mem _ hy))]
    simp

theorem evs_var {P : Problem} {x : TA} {a : ADecl} {δ d : Rat}
    (ha : P.lookup x.act = some a) (he : endDelay a = some δ) (hd : x.dur = some d) (hpos : 0 < d + δ)
    (hδ : δ ≤ 0) : evs P x = ev2 δ x := by
  have hc : 0 < d + δ ∧ d + δ ≤ d := ⟨hpos, by linarith⟩
  simp [evs, forwardStep, ha, he, hd, hc, ev2, toStart]

/-! ### counting -/

theorem key_mkTA (k : Key) (e : Entry) : keyTA (mkTA k e) = k := rfl

theorem count_flat {g : Groups} (hn : (keys g).Nodup) (y : TA) :
    (flat g).count y = ((proj (keyTA y) g).map (mkTA (keyTA y))).count y := by
  induction g with
  | nil => rfl
  | cons hd g ih =>
    obtain ⟨k, es⟩ := hd
    simp only [keys, List.map, List.nodup_cons] at hn
    have ih' := ih hn.2
    simp only [flat, List.count_append, proj]
    by_cases hk : k = keyTA y
    · subst hk
      simp only [if_true]
      have : (flat g).count y = 0 := by
        rw [ih', proj_of_not_mem hn.1]
        rfl
      omega
    · simp only [hk, if_false]
      have : (es.map (mkTA k)).count y = 0 := by
        apply List.count_eq_zero.2
        intro hm
        obtain ⟨e, _, he⟩ := List.mem_map.1 hm
        exact hk (by rw [← he]; rfl)
      omega

theorem map_mk_entry (k : Key) (L : List TA) (h : ∀ x ∈ L, keyTA x = k) :
    (L.map (fun x => (x.t, x.dur))).map (mkTA k) = L := by
  induction L with
  | nil => rfl
  | cons x xs ih =>
    have hx := h x (List.mem_cons_self ..)
    simp only [List.map, ih (fun y hy => h y (List.mem_cons_of_mem _ hy))]
    congr 1
    subst hx
    rfl

/-! ### groups are never empty -/

def GroupsNE (g : Groups) : Prop := ∀ p ∈ g, p.2 ≠ []

theorem groupsNE_appendTo {k : Key} {e : Entry} {g : Groups} (h : GroupsNE g) : GroupsNE (appendTo k e g) := by
  induction g with
  | nil =>
    intro p hp
    simp only [appendTo, List.mem_singleton] at hp
    subst hp
    simp
  | cons hd g ih =>
    obtain ⟨k', es⟩ := hd
    have hg : GroupsNE g := fun p hp => h p (List.mem_cons_of_mem _ hp)
    intro p hp
    unfold appendTo at hp
    split at hp
    · rcases List.mem_cons.1 hp with rfl | hp
      · simp
      · exact hg p hp
    · rcases List.mem_cons.1 hp with rfl | hp
      · exact h _ (List.mem_cons_self ..)
      · exact ih hg p hp

theorem groupsNE_closeLast {k : Key} {te δ : Rat} {g g1 : Groups} (h : GroupsNE g)
    (hc : closeLast k te δ g = .ok g1) : GroupsNE g1 := by
  induction g generalizing g1 with
  | nil => simp [closeLast] at hc
  | cons hd g ih =>
    obtain ⟨k', es⟩ := hd
    have hg : GroupsNE g := fun p hp => h p (List.mem_cons_of_mem _ hp)
    unfold closeLast at hc
    split at hc
    · split at hc
      · cases hc
      · split at hc
        · cases hc
        · split at hc
          · cases hc
          · split at hc
            · cases hc
            · cases hc
              intro p hp
              rcases List.mem_cons.1 hp with rfl | hp
              · simp
              · exact hg p hp
    · split at hc
      · cases hc
      · next g' hg' =>
        cases hc
        intro p hp
        rcases List.mem_cons.1 hp with rfl | hp
        · exact h _ (List.mem_cons_self ..)
        · exact ih hg hg' p hp

theorem groupsNE_backStep {P : Problem} {g g1 : Groups} {c : CA} (h : GroupsNE g)
    (hs : backStep P g c = .ok g1) : GroupsNE g1 := by
  rw [backStep_eq] at hs
  split at hs
  · cases hs
  · cases hs; exact groupsNE_appendTo h
  · exact groupsNE_closeLast h hs

theorem groupsNE_backFold {P : Problem} (E : List CA) {g g1 : Groups} (h : GroupsNE g)
    (hs : backFold P g E = .ok g1) : GroupsNE g1 := by
  induction E generalizing g with
  | nil => simp only [backFold] at hs; cases hs; exact h
  | cons c E ih =>
    unfold backFold at hs
    split at hs
    · cases hs
    · next g' hg' => exact ih (groupsNE_backStep h hg') hs

theorem proj_of_mem {k : Key} {es : List Entry} {g : Groups} (hn : (keys g).Nodup) (h : (k, es) ∈ g) :
    proj k g = es := by
  induction g with
  | nil => cases h
  | cons hd g ih =>
    obtain ⟨k', es'⟩ := hd
    simp only [keys, List.map, List.nodup_cons] at hn
    rcases List.mem_cons.1 h with h | h
    · cases h
      simp [proj]
    · have hne : ¬ k' = k := by
        intro e
        subst e
        exact hn.1 (List.mem_map.2 ⟨(k', es), h, rfl⟩)
      simp only [proj, hne, if_false]
      exact ih hn.2 h

/-! ### assembly -/

theorem flatMap_evs_fixed {P : Problem} (L : List TA)
    (h : ∀ x ∈ L, ∃ a, P.lookup x.act = some a ∧ endDelay a = none) :
    L.flatMap (evs P) = L.map toStart := by
  induction L with
  | nil => rfl
  | cons x xs ih =>
    obtain ⟨a, ha, he⟩ := h x (List.mem_cons_self ..)
    have hev : evs P x = [toStart x] := by simp [evs, forwardStep_fixed ha he]
    rw [List.flatMap_cons, hev, ih (fun y hy => h y (List.mem_cons_of_mem _ hy))]
    rfl

theorem flatMap_evs_var {P : Problem} {a : ADecl} {δ : Rat} (hδ : δ ≤ 0) (he : endDelay a = some δ)
    (L : List TA) (h : ∀ x ∈ L, P.lookup x.act = some a ∧ ∃ d, x.dur = some d ∧ 0 < d + δ) :
    L.flatMap (evs P) = L.flatMap (ev2 δ) := by
  induction L with
  | nil => rfl
  | cons x xs ih =>
    obtain ⟨ha, d, hd, hpos⟩ := h x (List.mem_cons_self ..)
    rw [List.flatMap_cons, List.flatMap_cons, evs_var ha he hd hpos hδ,
      ih (fun y hy => h y (List.mem_cons_of_mem _ hy))]

/-- hypotheses of the general round trip, in raw form -/
def GoodRaw (P : Problem) (π : List TA) : Prop :=
  ∀ x ∈ π, ∃ a, P.lookup x.act = some a ∧
    (endDelay a = none → declDur P a x.ps = some x.dur) ∧
    (∀ δ, endDelay a = some δ → δ ≤ 0 ∧ ∃ d, x.dur = some d ∧ 0 < d + δ)

def SepRaw (P : Problem) (π : List TA) : Prop :=
  π.Pairwise (fun x y => keyTA x = keyTA y →
    ∀ a δ, P.lookup x.act = some a → endDelay a = some δ → Sep δ x y)

/-- the fold on the events of one key -/
theorem localFold_key {P : Problem} {π : List TA} (hg : GoodRaw P π) (hs : SepRaw P π) (k : Key) :
    localFold P [] (sortByTime ((π.filter (fun x => keyTA x = k)).flatMap (evs P))) =
      .ok ((sortTA (π.filter (fun x => keyTA x = k))).map (fun x => (x.t, x.dur))) := by
  generalize hL : π.filter (fun x => decide (keyTA x = k)) = L
  have hmem : ∀ x ∈ L, x ∈ π ∧ keyTA x = k := by
    intro x hx
    rw [← hL] at hx
    have := List.mem_filter.1 hx
    exact ⟨this.1, by simpa using this.2⟩
  have hsort : ∀ x, x ∈ sortTA L ↔ x ∈ L := fun x => (sortTA_perm L).mem_iff
  cases L with
  | nil => rfl
  | cons x0 xs =>
    obtain ⟨hx0, hk0⟩ := hmem x0 (List.mem_cons_self ..)
    obtain ⟨a, ha, hfix, hvar⟩ := hg x0 hx0
    have hact : ∀ x ∈ x0 :: xs, P.lookup x.act = some a := by
      intro x hx
      have := (hmem x hx).2
      have e : x.act = x0.act := by
        have h1 : keyTA x = keyTA x0 := this.trans hk0.symm
        exact congrArg Prod.fst h1
      rw [e]; exact ha
    cases he : endDelay a with
    | none =>
      have hall : ∀ x ∈ x0 :: xs, ∃ a, P.lookup x.act = some a ∧ endDelay a = none ∧
          declDur P a x.ps = some x.dur := by
        intro x hx
        obtain ⟨a', ha', hfix', _⟩ := hg x (hmem x hx).1
        have : a' = a := by
          have := hact x hx
          rw [ha'] at this
          exact Option.some.inj this
        subst this
        exact ⟨a', ha', he, hfix' he⟩
      have hall2 : ∀ x ∈ x0 :: xs, ∃ a, P.lookup x.act = some a ∧ endDelay a = none := by
        intro x hx
        obtain ⟨a', h1, h2, _⟩ := hall x hx
        exact ⟨a', h1, h2⟩
      rw [flatMap_evs_fixed _ hall2, sortByTime_map_toStart,
        ← flatMap_evs_fixed _ (fun x hx => hall2 x ((hsort x).1 hx)),
        localFold_fixed _ [] (fun x hx => hall x ((hsort x).1 hx))]
      rfl
    | some δ =>
      obtain ⟨hδ, _⟩ := hvar δ he
      have hall : ∀ x ∈ x0 :: xs, P.lookup x.act = some a ∧ ∃ d, x.dur = some d ∧ 0 < d + δ := by
        intro x hx
        obtain ⟨a', ha', _, hvar'⟩ := hg x (hmem x hx).1
        have : a' = a := by
          have := hact x hx
          rw [ha'] at this
          exact Option.some.inj this
        subst this
        exact ⟨ha', (hvar' δ he).2⟩
      have hpos : ∀ y ∈ x0 :: xs, 0 < y.dur.getD 0 + δ := by
        intro y hy
        obtain ⟨_, d, hd, hp⟩ := hall y hy
        rw [hd]; exact hp
      have hsep : (x0 :: xs).Pairwise (Sep δ) := by
        have h1 := List.Pairwise.filter (fun x => decide (keyTA x = k)) hs
        rw [hL] at h1
        refine List.Pairwise.imp_of_mem ?_ h1
        intro x y hx hy hR
        exact hR (((hmem x hx).2).trans ((hmem y hy).2).symm) a δ (hact x hx) he
      rw [flatMap_evs_var hδ he _ hall, sort_pairs _ hpos hsep,
        localFold_var hδ _ [] (fun x hx => hall x ((hsort x).1 hx)) he]
      rfl

theorem inverse_general_raw {P : Problem} {π : List TA} (hg : GoodRaw P π) (hs : SepRaw P π) :
    ∃ cs π', forward P π = .ok cs ∧ back P cs = .ok π' ∧ π'.Perm π := by
  -- forward succeeds
  obtain ⟨cs, hcs⟩ := forward_total_raw (P := P) (π := π) (fun x hx => by
    obtain ⟨a, ha, _, hvar⟩ := hg x hx
    refine ⟨a, ha, fun δ hδ => ?_⟩
    obtain ⟨h1, d, h2, h3⟩ := hvar δ hδ
    exact ⟨d, h2, h3, h1⟩)
  have hflat := forward_eq_flatMap hcs
  -- the fold, key by key
  let w : Key → List Entry := fun k => (sortTA (π.filter (fun x => keyTA x = k))).map (fun x => (x.t, x.dur))
  have hloc : ∀ k, localFold P (proj k []) ((sortByTime cs).filter (fun c => keyCA c = k)) = .ok (w k) := by
    intro k
    rw [filter_sortByTime, hflat, filter_flatMap_evs]
    exact localFold_key hg hs k
  obtain ⟨g', hfold, hnd, hproj⟩ := backFold_of_local (P := P) (sortByTime cs) [] (by simp [keys]) w hloc
  have hne : GroupsNE g' := groupsNE_backFold _ (by intro p hp; cases hp) hfold
  -- every group is well formed
  have hwk : ∀ k, ∀ e ∈ w k, ∃ x ∈ π, keyTA x = k ∧ e = (x.t, x.dur) := by
    intro k e he
    obtain ⟨x, hx, rfl⟩ := List.mem_map.1 he
    have hx' := (sortTA_perm _).mem_iff.1 hx
    have := List.mem_filter.1 hx'
    exact ⟨x, this.1, by simpa using this.2, rfl⟩
  have hok : GroupsOK P g' := by
    intro k es hmem
    have hes : es = w k := by rw [← hproj k, proj_of_mem hnd hmem]
    have hne' : es ≠ [] := hne _ hmem
    obtain ⟨e0, he0⟩ := List.exists_mem_of_ne_nil es hne'
    obtain ⟨x0, hx0, hk0, _⟩ := hwk k e0 (hes ▸ he0)
    obtain ⟨a, ha, _, _⟩ := hg x0 hx0
    have hk1 : k.1 = x0.act := by rw [← hk0]; rfl
    refine ⟨a, hk1 ▸ ha, ?_⟩
    intro e he
    obtain ⟨x, hx, hk, rfl⟩ := hwk k e (hes ▸ he)
    obtain ⟨a', ha', hfix, hvar⟩ := hg x hx
    have : a' = a := by
      have e1 : x.act = x0.act := congrArg Prod.fst (hk.trans hk0.symm)
      rw [e1, ha] at ha'
      exact (Option.some.inj ha').symm
    subst this
    cases he' : endDelay a' with
    | none => exact isInst_of_declDur (hfix he')
    | some δ =>
      obtain ⟨_, d, hd, _⟩ := hvar δ he'
      obtain ⟨nm, kind⟩ := a'
      cases kind with
      | inst => simp [endDelay] at he'
      | dur lo hi lopen ropen ts => simp [AKind.isInst, hd]
  refine ⟨cs, flat g', hcs, ?_, ?_⟩
  · unfold back
    rw [hfold]
    exact finalize_ok hok
  · rw [List.perm_iff_count]
    intro y
    rw [count_flat hnd, hproj]
    show ((w (keyTA y)).map (mkTA (keyTA y))).count y = π.count y
    have hkeys : ∀ x ∈ sortTA (π.filter (fun x => keyTA x = keyTA y)), keyTA x = keyTA y := by
      intro x hx
      have := List.mem_filter.1 ((sortTA_perm _).mem_iff.1 hx)
      simpa using this.2
    rw [show w (keyTA y) = (sortTA (π.filter (fun x => keyTA x = keyTA y))).map (fun x => (x.t, x.dur)) from rfl,
      map_mk_entry _ _ hkeys, (sortTA_perm _).count_eq, List.count_filter (by simp)]

end UPVerif.D2P
