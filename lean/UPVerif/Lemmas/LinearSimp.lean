import UPVerif.Lemmas.LinearTimes
import UPVerif.Lemmas.SimplifyIdem
import UPVerif.Props.C11
/-!
Helper lemmas for `Props/C17.lean`, part 3: passing through the initial simplification of
`get_fluents`.  The simplifier maps arithmetic expressions (`arith`) to arithmetic expressions and
keeps every leaf within its declared type; values are preserved by `C11.C11_sound_fuel`.
-/
namespace UPVerif.Lin
open Expr Simp

/-! ### `arith` is preserved by the arithmetic node functions of the simplifier -/

theorem arith_of_isConstant {e : Expr} (h : e.isConstant = true) : arith e = true := by
  rcases isConstant_cases h with ⟨b, rfl⟩ | ⟨z, rfl⟩ | ⟨r, rfl⟩ | ⟨n, t, rfl⟩ <;> rfl

theorem arithList_of_forall : ∀ {l : List Expr}, (∀ e, e ∈ l → arith e = true) → arithList l = true
  | [], _ => rfl
  | x :: xs, h => by
    simp only [arithList, Bool.and_eq_true]
    exact ⟨h x (by simp), arithList_of_forall (fun e he => h e (List.mem_cons_of_mem _ he))⟩

theorem arith_toExpr (c : Num) : arith c.toExpr = true := by
  cases c <;> rfl

theorem arith_mkPlus {l : List Expr} (h : ∀ e, e ∈ l → arith e = true) : arith (mkPlus l) = true := by
  match l, h with
  | [], _ => rfl
  | [x], h => exact h x (by simp)
  | x :: y :: t, h => simpa [mkPlus, arith] using arithList_of_forall h

theorem arith_mkTimes {l : List Expr} (h : ∀ e, e ∈ l → arith e = true) : arith (mkTimes l) = true := by
  match l, h with
  | [], _ => rfl
  | [x], h => exact h x (by simp)
  | x :: y :: t, h => simpa [mkTimes, arith] using arithList_of_forall h

theorem arith_walkPlus {args : List Expr} (h : ∀ a, a ∈ args → arith a = true) :
    arith (Simp.walkPlus args) = true := by
  have hl := plusLoop_all (P := fun e => arith e = true)
    (fun ss hp => arithList_mem (by simpa [arith] using hp)) (st := (.i 0, []))
    (fun e he => absurd he (by simp)) h
  unfold Simp.walkPlus
  simp only []
  split
  · refine arith_mkPlus ?_
    intro e he
    rcases List.mem_append.1 he with he | he
    · exact hl e he
    · simp only [List.mem_singleton] at he; subst he; exact arith_toExpr _
  · split
    · rfl
    · exact arith_mkPlus hl

theorem arith_walkMinus {a b : Expr} (ha : arith a = true) (hb : arith b = true) :
    arith (Simp.walkMinus a b) = true := by
  unfold Simp.walkMinus
  split
  · exact arith_toExpr _
  · split
    · refine arith_walkPlus ?_
      intro e he
      simp only [List.mem_cons, List.not_mem_nil, or_false] at he
      rcases he with rfl | rfl
      · exact ha
      · exact arith_toExpr _
    · simp [mkMinus, arith, arithList, ha, hb]
  · simp [mkMinus, arith, arithList, ha, hb]

theorem arith_walkTimes {args : List Expr} (h : ∀ a, a ∈ args → arith a = true) :
    arith (Simp.walkTimes args) = true := by
  unfold Simp.walkTimes
  split
  · rfl
  · rename_i st hst
    have hl := timesLoop_all (P := fun e => arith e = true)
      (fun ss hp => arithList_mem (by simpa [arith] using hp)) (st := (.i 1, []))
      (fun e he => absurd he (by simp)) h hst
    split
    · refine arith_mkTimes ?_
      intro e he
      rcases List.mem_append.1 he with he | he
      · exact hl e he
      · simp only [List.mem_singleton] at he; subst he; exact arith_toExpr _
    · split
      · rfl
      · exact arith_mkTimes hl

theorem arith_walkDiv {a b e' : Expr} (ha : arith a = true) (hb : arith b = true)
    (h : Simp.walkDiv a b = .ok e') : arith e' = true := by
  unfold Simp.walkDiv at h
  split at h
  · split at h
    · cases h
    · split at h <;> simp only [pure, Except.pure, Except.ok.injEq] at h <;> subst h <;> rfl
  · split at h
    · cases h
    · simp only [pure, Except.pure, Except.ok.injEq] at h; subst h; rfl
  · simp only [pure, Except.pure, Except.ok.injEq] at h; subst h
    simp [mkDiv, arith, arithList, ha, hb]

/-- what the induction over `simpF` carries: constants are fixed points, `arith` is preserved -/
def ArithRel (e e' : Expr) : Prop :=
  (e.isConstant = true → e' = e) ∧ (arith e = true → arith e' = true)

theorem All₂_const_eq : ∀ {args as : List Expr}, All₂ ArithRel args as → args.all isConstant = true →
    as = args
  | _, _, .nil, _ => rfl
  | _, _, .cons hab hrest, h => by
    simp only [List.all_cons, Bool.and_eq_true] at h
    rw [hab.1 h.1, All₂_const_eq hrest h.2]

theorem arith_step_app {cfg : SimpCfg} (hct : cfg.constTables = true) {op : Op} {args as : List Expr}
    {e' : Expr} (hall : All₂ ArithRel args as) (hw : walkApp cfg op as = .ok e') :
    ArithRel (.app op args) e' := by
  refine ⟨fun h => by simp [isConstant] at h, fun ha => ?_⟩
  have has : arithList args = true → ∀ a, a ∈ as → arith a = true := fun hl =>
    All₂.forall_right (fun a b hab ha => hab.2 ha) hall (arithList_mem hl)
  cases op with
  | plus =>
    simp only [walkApp, pure, Except.pure, Except.ok.injEq] at hw; subst hw
    exact arith_walkPlus (has (by simpa [arith] using ha))
  | times =>
    simp only [walkApp, pure, Except.pure, Except.ok.injEq] at hw; subst hw
    exact arith_walkTimes (has (by simpa [arith] using ha))
  | minus =>
    have h' := has (by simpa [arith] using ha)
    match as, hw, h' with
    | [a, b], hw, h' =>
      simp only [walkApp, pure, Except.pure, Except.ok.injEq] at hw; subst hw
      exact arith_walkMinus (h' _ (by simp)) (h' _ (by simp))
    | [], hw, _ => simp [walkApp, throw, throwThe, MonadExceptOf.throw] at hw
    | [_], hw, _ => simp [walkApp, throw, throwThe, MonadExceptOf.throw] at hw
    | _ :: _ :: _ :: _, hw, _ => simp [walkApp, throw, throwThe, MonadExceptOf.throw] at hw
  | div =>
    have h' := has (by simpa [arith] using ha)
    match as, hw, h' with
    | [a, b], hw, h' =>
      simp only [walkApp] at hw
      exact arith_walkDiv (h' _ (by simp)) (h' _ (by simp)) hw
    | [], hw, _ => simp [walkApp, throw, throwThe, MonadExceptOf.throw] at hw
    | [_], hw, _ => simp [walkApp, throw, throwThe, MonadExceptOf.throw] at hw
    | _ :: _ :: _ :: _, hw, _ => simp [walkApp, throw, throwThe, MonadExceptOf.throw] at hw
  | fluent f =>
    have hc : args.all isConstant = true := by simpa [arith] using ha
    have heq := All₂_const_eq hall hc
    subst heq
    simp only [walkApp, pure, Except.pure, Except.ok.injEq] at hw; subst hw
    unfold Simp.walkFluent
    simp only [mkFluent]
    split
    · simpa [arith] using hc
    · split
      · simpa [arith] using hc
      · split
        · rename_i v hv; exact arith_of_isConstant (initialValue_const hct hv)
        · simpa [arith] using hc
  | _ => simp [arith] at ha

theorem simpF_arithRel (cfg : SimpCfg) (hct : cfg.constTables = true) :
    ∀ n e e', simpF cfg n e = .ok e' → ArithRel e e' := by
  apply simpF_induct cfg ArithRel
  · intro l; exact ⟨fun _ => rfl, fun h => h⟩
  · intro op args as e' hall hw; exact arith_step_app hct hall hw
  · intro vs b b' _
    exact ⟨fun h => by simp [isConstant] at h, fun h => by simp [arith] at h⟩
  · intro vs b b' e' resimp _ _ _
    exact ⟨fun h => by simp [isConstant] at h, fun h => by simp [arith] at h⟩

/-- the simplifier maps arithmetic expressions to arithmetic expressions -/
theorem simpF_arith (cfg : SimpCfg) (hct : cfg.constTables = true) (n : Nat) (e e' : Expr)
    (h : simpF cfg n e = .ok e') (ha : arith e = true) : arith e' = true :=
  (simpF_arithRel cfg hct n e e' h).2 ha

/-! ### arithmetic expressions have no quantifiers -/

mutual
theorem arith_allB (pv : Var → Bool) : ∀ e, arith e = true → allB (fun _ => true) pv e = true
  | .leaf _, _ => rfl
  | .app op args, h => by
    simp only [allB]
    cases op with
    | plus => exact arithList_allB pv args (by simpa [arith] using h)
    | minus => exact arithList_allB pv args (by simpa [arith] using h)
    | times => exact arithList_allB pv args (by simpa [arith] using h)
    | div => exact arithList_allB pv args (by simpa [arith] using h)
    | fluent f =>
      have hc : args.all isConstant = true := by simpa [arith] using h
      exact arithList_allB pv args
        (arithList_of_forall (fun e he => arith_of_isConstant (List.all_eq_true.1 hc e he)))
    | _ => simp [arith] at h
  | .quant _ _ _, h => by simp [arith] at h
theorem arithList_allB (pv : Var → Bool) : ∀ es, arithList es = true → allBList (fun _ => true) pv es = true
  | [], _ => rfl
  | e :: es, h => by
    simp only [arithList, Bool.and_eq_true] at h
    simp only [allBList, Bool.and_eq_true]
    exact ⟨arith_allB pv e h.1, arithList_allB pv es h.2⟩
end

/-! ### leaves stay within their declared types -/

section
variable {E : TypeEnv} {O : String → Option String} {ι : Interp}

theorem mem_leavesList_iff {l : Leaf} : ∀ {args : List Expr},
    l ∈ Expr.leavesList args ↔ ∃ a, a ∈ args ∧ l ∈ a.leaves
  | [] => by simp [Expr.leavesList]
  | x :: xs => by
    simp only [Expr.leavesList, List.mem_append, mem_leavesList_iff (args := xs), List.mem_cons]
    constructor
    · rintro (h | ⟨a, ha, hl⟩)
      · exact ⟨x, .inl rfl, h⟩
      · exact ⟨a, .inr ha, hl⟩
    · rintro ⟨a, rfl | ha, hl⟩
      · exact .inl hl
      · exact .inr ⟨a, ha, hl⟩

theorem comp_leavesOK : Comp (LeavesOK E O ι) where
  bool b := by intro l hl; simp only [Expr.leaves, List.mem_singleton] at hl; subst hl; trivial
  int z := by intro l hl; simp only [Expr.leaves, List.mem_singleton] at hl; subst hl; trivial
  real r := by intro l hl; simp only [Expr.leaves, List.mem_singleton] at hl; subst hl; trivial
  app op args := by
    constructor
    · intro h e he l hl
      exact h l (by simp only [Expr.leaves]; exact mem_leavesList_iff.2 ⟨e, he, hl⟩)
    · intro h l hl
      simp only [Expr.leaves] at hl
      obtain ⟨a, ha, hla⟩ := mem_leavesList_iff.1 hl
      exact h a ha l hla

theorem tablesOK_leavesOK {cfg : SimpCfg} (htab : ∀ v, v ∈ tableValues cfg → LeavesOK E O ι v) :
    TablesOK cfg (LeavesOK E O ι) where
  init f args v hv := by
    apply htab
    unfold SimpCfg.initialValue at hv
    simp only [tableValues, List.mem_append, List.mem_map]
    split at hv
    · rename_i w hw
      simp only [Option.some.injEq] at hv; subst hv
      obtain ⟨k', hk⟩ := lookup_some_mem hw
      exact .inl (.inl ⟨_, hk, rfl⟩)
    · obtain ⟨k', hk⟩ := lookup_some_mem hv
      exact .inl (.inr ⟨_, hk, rfl⟩)
  funs g vs r e' hr hconv := by
    unfold SimpCfg.funLookup at hr
    rw [Option.map_eq_some_iff] at hr
    obtain ⟨ent, hent, rfl⟩ := hr
    have hr' : LeavesOK E O ι ent.2.2 := htab _ (by
      simp only [tableValues, List.mem_append, List.mem_map]
      exact .inr ⟨ent, List.mem_of_find?_eq_some hent, rfl⟩)
    unfold convResult at hconv
    split at hconv <;> simp only [pure, Except.pure, Except.ok.injEq, reduceCtorEq] at hconv <;>
      subst hconv
    · exact comp_leavesOK.bool _
    · exact comp_leavesOK.int _
    · exact comp_leavesOK.real _
    · exact comp_leavesOK.real _
    · rename_i heq
      rw [heq] at hr'
      exact hr'

/-- the simplifier keeps the leaves of an arithmetic expression within their declared types -/
theorem simpF_leavesOK (cfg : SimpCfg) (htab : ∀ v, v ∈ tableValues cfg → LeavesOK E O ι v) :
    ∀ n e e', simpF cfg n e = .ok e' → arith e = true → LeavesOK E O ι e → LeavesOK E O ι e' := by
  apply simpF_induct cfg (fun e e' => arith e = true → LeavesOK E O ι e → LeavesOK E O ι e')
  · intro l _ h; exact h
  · intro op args as e' hall hw ha hl
    have hargs : arithList args = true := by
      cases op <;> simp [arith] at ha
      all_goals first
        | exact ha
        | exact arithList_of_forall (fun e he => arith_of_isConstant (ha e he))
    refine walkApp_comp comp_leavesOK (tablesOK_leavesOK htab) ?_ hw
    exact All₂.forall_right (Q := fun a => arith a = true ∧ LeavesOK E O ι a)
      (fun a b hab ha => hab ha.1 ha.2) hall
      (fun a ha => ⟨arithList_mem hargs a ha, (comp_leavesOK.app _ _).1 hl a ha⟩)
  · intro vs b b' _ ha; simp [arith] at ha
  · intro vs b b' e' resimp _ _ _ ha; simp [arith] at ha

end

/-! ### the hypotheses of C11 transfer along `ι ≤_k ι'` -/

theorem leafOK_bump {k : GFluent} {ι ι' : Interp} (hB : Bump k ι ι') (oty : String → Option String) :
    leafOK ι' oty = leafOK ι oty := by
  funext l
  cases l with
  | param n t => cases t <;> simp [leafOK, hB.par, hB.dom]
  | _ => rfl

theorem WF_bump {k : GFluent} {ι ι' : Interp} (hB : Bump k ι ι') {oty : String → Option String} {e : Expr}
    (h : WF ι oty e) : WF ι' oty e := by
  unfold WF at *
  rw [leafOK_bump hB]; exact h

theorem EnvOK_bump {k : GFluent} {ι ι' : Interp} (hB : Bump k ι ι') {ρ : VEnv} (h : EnvOK ι ρ) :
    EnvOK ι' ρ := by
  intro x v hx
  rw [hB.dom]; exact h x v hx

theorem quantInhabited_arith (ι : Interp) {e : Expr} (h : arith e = true) : QuantInhabited ι e :=
  arith_allB _ e h

/-! ### `get_fluents` -/

/-- the claim of the answer of `linear` (= `LinearChecker(problem).get_fluents`) about the ground
    fluent `k`, for `ι ≤_k ι'`, on the ORIGINAL expression -/
theorem linear_claim {cfg : SimpCfg} {ι ι' : Interp} {oty O : String → Option String} {ρ : VEnv}
    {k : GFluent} {e : Expr} {r : LinRes}
    (R : Respects cfg ι oty) (R' : Respects cfg ι' oty) (hct : cfg.constTables = true)
    (hwf : WF ι oty e) (hρ1 : EnvOK ι ρ)
    (hI : InterpOK cfg.tenv O ι) (hρ : VEnvOK cfg.tenv O ρ)
    (hl : LeavesOK cfg.tenv O ι e) (htab : ∀ v, v ∈ tableValues cfg → LeavesOK cfg.tenv O ι v)
    (ha : arith e = true) (hB : Bump k ι ι')
    (h : linear cfg e = .ok r) (hlin : r.lin = true) :
    ∀ q q', den ι ρ e = some (.n q) → den ι' ρ e = some (.n q') →
      Claim (hasKey k r.pos) (hasKey k r.neg) q q' := by
  intro q q' h1 h2
  unfold linear at h
  split at h
  · cases h
  · rename_i e' hs
    unfold simplify at hs
    have hqi := quantInhabited_arith ι ha
    have hqi' := quantInhabited_arith ι' ha
    have s1 := C11.C11_sound_fuel cfg ι oty _ e e' R hct hwf hqi hs
    have s2 := C11.C11_sound_fuel cfg ι' oty _ e e' R' hct (WF_bump hB hwf) hqi' hs
    have d1 := s1.2.2 ρ _ hρ1 h1
    have d2 := s2.2.2 ρ _ (EnvOK_bump hB hρ1) h2
    have ha' := simpF_arith cfg hct _ e e' hs ha
    have hl' := simpF_leavesOK cfg htab _ e e' hs ha hl
    exact linWalk_sound hB hI hρ e' r ha' hl' h hlin q q' d1 d2

end UPVerif.Lin
