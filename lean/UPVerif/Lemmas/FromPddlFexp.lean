import UPVerif.Lemmas.FromPddlExpr
/-!
Helper lemmas for C21: the two readers on numeric expressions (`f_exp`), by structural induction on the token tree.

* `astFexp_shape` — what the external parser builds is well formed for the converter (every `+`, `*`, `/` node has at
  least two operands, none of its own class) when no operand is dropped;
* `fexp_agree`    — `readExpr t` and `convExpr (astFexp t)` are related by `FRel`.
-/
namespace UPVerif.FromPddl
open UPVerif UPVerif.Expr UPVerif.Pddl

/-- the shape of a numeric expression of the package -/
structure ArithShape (φ : Form) : Prop where
  plus : wfK .plus φ = true
  times : wfK .times φ = true
  divide : wfK .divide φ = true
  noEq : notOp .eqF φ = true

theorem arithShape_of_head (φ : Form) (h : ∀ k' xs, φ = .op k' xs → k' = .minus) : ArithShape φ := by
  cases φ with
  | op k' xs =>
    have := h k' xs rfl
    subst this
    exact ⟨rfl, rfl, rfl, rfl⟩
  | num _ => exact ⟨rfl, rfl, rfl, rfl⟩
  | not _ => exact ⟨rfl, rfl, rfl, rfl⟩
  | pred _ _ => exact ⟨rfl, rfl, rfl, rfl⟩
  | fn _ _ => exact ⟨rfl, rfl, rfl, rfl⟩
  | eqT _ _ => exact ⟨rfl, rfl, rfl, rfl⟩
  | quant _ _ _ => exact ⟨rfl, rfl, rfl, rfl⟩
  | «when» _ _ => exact ⟨rfl, rfl, rfl, rfl⟩
  | forallE _ _ => exact ⟨rfl, rfl, rfl, rfl⟩

theorem ArithShape.wf {φ : Form} (h : ArithShape φ) {k : OpK} (hk : k = .plus ∨ k = .times ∨ k = .divide) : wfK k φ = true := by
  rcases hk with rfl | rfl | rfl
  · exact h.plus
  · exact h.times
  · exact h.divide

theorem fexpOKL_arith {C : PCtx} {h : String} {rest : List Sexp} {k : OpK} {φs : List Form}
    (hk : arithOp? h = some k) (hφ : astFexps C rest = some φs) (hok : fexpOKL C (.atom h :: rest) = true) :
    fexpOKs C rest = true ∧ (flatList k φs).Nodup := by
  have hm : (h == "-") = false := by
    rcases arithOp_cases hk with ⟨rfl, _⟩ | ⟨rfl, _⟩ | ⟨rfl, _⟩ <;> rfl
  rw [fexpOKL.eq_def] at hok
  simpa [hm, hk, hφ] using hok

theorem fexpOKs_cons {C : PCtx} {x : Sexp} {xs : List Sexp} (h : fexpOKs C (x :: xs) = true) :
    fexpOK C x = true ∧ fexpOKs C xs = true := by
  rw [fexpOKs] at h; simpa using h

/-- the node `mkOp k φs` of an arithmetic class, nothing dropped, operands well formed: well formed -/
theorem arithShape_mkOp {k : OpK} (hk : k = .plus ∨ k = .times ∨ k = .divide) (φs : List Form) (h2 : 2 ≤ φs.length)
    (hnd : (flatList k φs).Nodup) (hwf : ∀ φ ∈ φs, ArithShape φ) : ArithShape (mkOp k φs) := by
  have hm : k.isMeta = true := by rcases hk with rfl | rfl | rfl <;> rfl
  have hi : k.idem = false := by rcases hk with rfl | rfl | rfl <;> rfl
  rw [mkOp_nodrop k hm hi φs h2 hnd]
  have hwk : ∀ φ ∈ φs, wfK k φ = true := fun φ hφ => (hwf φ hφ).wf hk
  have hlen : 2 ≤ (flatList k φs).length := Nat.le_trans h2 (flatList_length_ge k φs hwk)
  have hall : ∀ ψ ∈ flatList k φs, notOp k ψ = true := notOp_flatList k φs hwk
  have hself : wfK k (.op k (flatList k φs)) = true := by
    simp only [wfK, bne_self_eq_false, Bool.false_or, Bool.and_eq_true, decide_eq_true_eq, List.all_eq_true]
    exact ⟨hlen, hall⟩
  rcases hk with rfl | rfl | rfl
  · exact ⟨hself, rfl, rfl, rfl⟩
  · exact ⟨rfl, hself, rfl, rfl⟩
  · exact ⟨rfl, rfl, hself, rfl⟩

mutual
theorem astFexp_shape (C : PCtx) : ∀ (t : Sexp) (φ : Form), astFexp C t = some φ → fexpOK C t = true → ArithShape φ
  | .atom s, φ, hA, _ => by
    rw [astFexp] at hA
    split at hA
    · cases hA; exact ⟨rfl, rfl, rfl, rfl⟩
    · split at hA
      · cases hA
      · cases hA; exact ⟨rfl, rfl, rfl, rfl⟩
  | .list xs, φ, hA, hok => by
    rw [astFexp] at hA
    rw [fexpOK] at hok
    exact astFexpL_shape C xs φ hA hok
theorem astFexpL_shape (C : PCtx) : ∀ (xs : List Sexp) (φ : Form), astFexpL C xs = some φ → fexpOKL C xs = true → ArithShape φ
  | [], φ, hA, _ => by rw [astFexpL] at hA; cases hA
  | .list _ :: _, φ, hA, _ => by rw [astFexpL] at hA; cases hA
  | .atom h :: rest, φ, hA, hok => by
    by_cases hm : h = "-"
    · subst hm
      by_cases hl : rest.length = 1
      · match rest, hl with
        | [x], _ =>
          rw [astFexpL_neg, Option.map_eq_some_iff] at hA
          obtain ⟨a, _, rfl⟩ := hA
          rw [mkOp_minus1]
          exact ⟨rfl, rfl, rfl, rfl⟩
      · rw [astFexpL_neg_other C rest hl] at hA; cases hA
    · have hm' : (h == "-") = false := by simpa using hm
      cases hk : arithOp? h with
      | none =>
        rw [astFexpL_fn C h rest hm' hk] at hA
        split at hA
        · cases hA
        · rw [Option.map_eq_some_iff] at hA
          obtain ⟨τs, _, rfl⟩ := hA
          exact ⟨rfl, rfl, rfl, rfl⟩
      | some k =>
        rw [astFexpL_arith C h rest k hk] at hA
        split at hA
        · cases hA
        · rename_i hlen
          rw [Option.map_eq_some_iff] at hA
          obtain ⟨φs, hφs, rfl⟩ := hA
          obtain ⟨hoks, hnd⟩ := fexpOKL_arith hk hφs hok
          have hk3 : k = .plus ∨ k = .times ∨ k = .divide := by
            rcases arithOp_cases hk with ⟨_, rfl⟩ | ⟨_, rfl⟩ | ⟨_, rfl⟩ <;> simp
          have hl2 : 2 ≤ φs.length := by
            rw [astFexps_length hφs]
            simp only [Bool.or_eq_true, decide_eq_true_eq, not_or, Nat.not_lt] at hlen
            exact hlen.1
          exact arithShape_mkOp hk3 φs hl2 hnd (astFexps_shape C rest φs hφs hoks)
theorem astFexps_shape (C : PCtx) : ∀ (ts : List Sexp) (φs : List Form), astFexps C ts = some φs → fexpOKs C ts = true →
    ∀ φ ∈ φs, ArithShape φ
  | [], φs, hA, _, φ, hm => by rw [astFexps_nil_inv hA] at hm; cases hm
  | t :: ts, φs, hA, hok, φ, hm => by
    obtain ⟨a, as, ha, has, rfl⟩ := astFexps_cons_inv hA
    obtain ⟨hok1, hok2⟩ := fexpOKs_cons hok
    rcases List.mem_cons.1 hm with he | hm
    · rw [he]; exact astFexp_shape C t a ha hok1
    · exact astFexps_shape C ts as has hok2 φ hm
end

/-! ### agreement -/

theorem mkPlus_ge2 : ∀ es : List Expr, 2 ≤ es.length → mkPlus es = .app .plus es
  | _ :: _ :: _, _ => rfl
  | [], h => by simp at h
  | [_], h => by simp at h
theorem mkTimes_ge2 : ∀ es : List Expr, 2 ≤ es.length → mkTimes es = .app .times es
  | _ :: _ :: _, _ => rfl
  | [], h => by simp at h
  | [_], h => by simp at h

theorem convOp_divide_len {as : List Expr} {x : Expr} (h : convOp .divide as = some x) : as.length = 2 := by
  match as, h with
  | [_, _], _ => rfl

theorem Dv_of_eq {CE : CEnv} {ps : List (String × Ty)} {qv : List Var} {φ : Form} {e : Expr}
    (h : convExpr CE ps qv φ = some e) : Dv CE ps qv φ := by unfold Dv; rw [h]; rfl

theorem all2_of_map_cv {CE : CEnv} {ps : List (String × Ty)} {qv : List Var} {R : Expr → Expr → Prop} {es : List Expr}
    {φs : List Form} {as : List Expr} (hc : convExprs CE ps qv φs = some as) (h : All2 R es as) :
    All2 R es (φs.map (cv CE ps qv)) := by
  rw [((convExprs_some_iff CE ps qv φs as).1 hc).2] at h; exact h

section
variable {E : REnv} {CE : CEnv} {ps : List (String × Ty)} (ag : EnvAgree E CE ps) (nm : NamesOK E) (C : PCtx)
include ag nm

mutual
/-- **numeric expressions**: the two readers agree up to `FRel` -/
theorem fexp_agree : ∀ (t : Sexp) (sc qv : List Var) (e : Expr) (φ : Form) (e' : Expr), ScopeAgree sc qv →
    readExpr E sc t = some e → astFexp C t = some φ → convExpr CE ps qv φ = some e' → fexpOK C t = true → FRel e e'
  | .atom s, sc, qv, e, φ, e', _, hU, hA, hQ, _ => by
    rw [astFexp] at hA
    rw [readExpr] at hU
    cases hn : numberTok s with
    | some q =>
      simp only [hn, Option.some.injEq] at hA
      subst hA
      rw [convExpr] at hQ
      simp only [readAtom, stripQ_of_numberTok hn, nm.num_fluent s q hn, nm.num_object s q hn,
        parseNumber_of_numberTok hn, Option.map_some] at hU
      rw [← Option.some.inj hU, ← Option.some.inj hQ]
      exact FRel.refl _
    | none =>
      simp only [hn] at hA
      split at hA
      · cases hA
      · rename_i hres
        cases hA
        have hq : stripQ s = none := by
          cases hs : stripQ s with
          | none => rfl
          | some v => simp [hs] at hres
        rw [convExpr] at hQ
        obtain ⟨f, hf, hQ⟩ := convFluent_inv ag hQ
        · simp only [convTerms, Option.bind_some] at hQ
          split at hQ
          · rename_i hlen
            have hsig : f.sig = [] := by
              have h0 : (0 : Nat) = f.sig.length := by simpa using hlen
              exact List.length_eq_zero_iff.1 h0.symm
            simp only [readAtom, hq, hf, hsig, List.isEmpty_nil, if_true] at hU
            rw [← Option.some.inj hU, ← Option.some.inj hQ]
            exact FRel.refl _
          · cases hQ
  | .list xs, sc, qv, e, φ, e', hs, hU, hA, hQ, hok => by
    rw [readExpr] at hU
    rw [astFexp] at hA
    rw [fexpOK] at hok
    exact fexpL_agree xs sc qv e φ e' hs hU hA hQ hok
theorem fexpL_agree : ∀ (xs : List Sexp) (sc qv : List Var) (e : Expr) (φ : Form) (e' : Expr), ScopeAgree sc qv →
    readList E sc xs = some e → astFexpL C xs = some φ → convExpr CE ps qv φ = some e' → fexpOKL C xs = true → FRel e e'
  | [], _, _, _, φ, _, _, _, hA, _, _ => by rw [astFexpL] at hA; cases hA
  | .list _ :: _, _, _, _, φ, _, _, _, hA, _, _ => by rw [astFexpL] at hA; cases hA
  | .atom h :: rest, sc, qv, e, φ, e', hs, hU, hA, hQ, hok => by
    by_cases hm : h = "-"
    · subst hm
      by_cases hl : rest.length = 1
      · match rest, hl, hU, hA, hok with
        | [x], _, hU, hA, hok =>
          rw [astFexpL_neg, Option.map_eq_some_iff] at hA
          obtain ⟨a, ha, rfl⟩ := hA
          rw [mkOp_minus1, conv_minus1, Option.map_eq_some_iff] at hQ
          obtain ⟨a', ha', rfl⟩ := hQ
          rw [readList_neg, Option.bind_eq_some_iff] at hU
          obtain ⟨es, hes, hneg⟩ := hU
          obtain ⟨e1, er, he1, her, rfl⟩ := readExprs_cons_inv hes
          rw [readExprs_nil_inv her] at hneg hes
          have hoks : fexpOKs C [x] = true := by
            rw [fexpOKL.eq_def] at hok; simpa using hok
          have hc : convExprs CE ps qv [a] = some [a'] := by
            rw [convExprs, convExprs, ha']
          have hfa : astFexps C [x] = some [a] := by
            rw [astFexps, astFexps, ha]; rfl
          have ih := fexps_agree [x] sc qv [e1] [a] [a'] hs hes hfa hc hoks
          have : e = mkTimes [Expr.int (-1), e1] := (Option.some.inj hneg).symm
          rw [this]
          exact fRel_negate ih.1
      · rw [astFexpL_neg_other C rest hl] at hA; cases hA
    · have hm' : (h == "-") = false := by simpa using hm
      have hneg : (h == "-" && rest.length == 1) = false := by simp [hm']
      cases hk : arithOp? h with
      | none =>
        rw [astFexpL_fn C h rest hm' hk] at hA
        split at hA
        · cases hA
        · rename_i hres
          rw [Option.map_eq_some_iff] at hA
          obtain ⟨τs, hτs, rfl⟩ := hA
          rw [convExpr] at hQ
          have hop : isOperator h = false := by
            cases ho : isOperator h with
            | false => rfl
            | true => exact absurd (isReserved_of_isOperator ho) hres
          have hq : (h == "exists" || h == "forall") = false := by
            cases hq : (h == "exists" || h == "forall") with
            | false => rfl
            | true => exact absurd (isReserved_quant hq) hres
          cases hf : E.fluent? h with
          | none =>
            obtain ⟨f', hf', _⟩ := convFluent_inv ag hQ
            rw [hf] at hf'
            cases hf'
          | some f =>
            cases ht : isTrajOp h with
            | true =>
              rw [readList.eq_def] at hU
              simp [hneg, hop, hq, ht] at hU
            | false =>
              rw [readList_fluent E sc h rest f hneg hop hq ht hf, Option.bind_eq_some_iff] at hU
              obtain ⟨es, hes, hif⟩ := hU
              have := fluent_app_agree ag nm C hs h rest τs es e' f hf hes hτs hQ
              split at hif
              · rw [← Option.some.inj hif, this]
                exact FRel.refl _
              · cases hif
      | some k =>
        rw [astFexpL_arith C h rest k hk] at hA
        split at hA
        · cases hA
        · rename_i hlen
          simp only [Bool.or_eq_true, decide_eq_true_eq, not_or, Nat.not_lt, Bool.and_eq_true, bne_iff_ne, ne_eq,
            not_and, Decidable.not_not] at hlen
          rw [Option.map_eq_some_iff] at hA
          obtain ⟨φs, hφs, rfl⟩ := hA
          obtain ⟨hoks, hnd⟩ := fexpOKL_arith hk hφs hok
          have hshape := astFexps_shape C rest φs hφs hoks
          have hl2 : 2 ≤ φs.length := by rw [astFexps_length hφs]; exact hlen.1
          have hop : isOperator h = true := by
            rcases arithOp_cases hk with ⟨rfl, _⟩ | ⟨rfl, _⟩ | ⟨rfl, _⟩ <;> rfl
          rw [readList_op E sc h rest hneg hop, Option.bind_eq_some_iff] at hU
          obtain ⟨es, hes, happ⟩ := hU
          have hel : 2 ≤ es.length := by rw [readExprs_length hes]; exact hlen.1
          have hD := Dv_of_eq hQ
          rcases arithOp_cases hk with ⟨rfl, rfl⟩ | ⟨rfl, rfl⟩ | ⟨rfl, rfl⟩
          · -- plus
            obtain ⟨hiff, hrel⟩ := arith_mkOp CE ps qv arithK_plus φs hl2 hnd (fun φ hφ => (hshape φ hφ).plus)
            have hDs := hiff.1 hD
            have ih := fexps_agree rest sc qv es φs _ hs hes hφs (convExprs_of_Dv CE ps qv φs hDs) hoks
            have he : e = .app .plus es := by
              have : applyOp "+" es = some (mkPlus es) := rfl
              rw [this] at happ
              rw [← Option.some.inj happ, mkPlus_ge2 es hel]
            rw [he, ← cv_eq CE ps qv hQ]
            exact (FRel.app .plus ih).trans (hrel hDs)
          · -- times
            obtain ⟨hiff, hrel⟩ := arith_mkOp CE ps qv arithK_times φs hl2 hnd (fun φ hφ => (hshape φ hφ).times)
            have hDs := hiff.1 hD
            have ih := fexps_agree rest sc qv es φs _ hs hes hφs (convExprs_of_Dv CE ps qv φs hDs) hoks
            have he : e = .app .times es := by
              have : applyOp "*" es = some (mkTimes es) := rfl
              rw [this] at happ
              rw [← Option.some.inj happ, mkTimes_ge2 es hel]
            rw [he, ← cv_eq CE ps qv hQ]
            exact (FRel.app .times ih).trans (hrel hDs)
          · -- divide: exactly two operands
            have hr2 : rest.length = 2 := hlen.2 rfl
            match rest, hr2, hφs, hes, hoks with
            | [x, y], _, hφs, hes, hoks =>
              obtain ⟨a, as1, ha, has1, rfl⟩ := astFexps_cons_inv hφs
              obtain ⟨b, as2, hb, has2, rfl⟩ := astFexps_cons_inv has1
              rw [astFexps_nil_inv has2] at hQ hD hnd hshape hφs
              obtain ⟨e1, er1, he1, her1, rfl⟩ := readExprs_cons_inv hes
              obtain ⟨e2, er2, he2, her2, rfl⟩ := readExprs_cons_inv her1
              rw [readExprs_nil_inv her2] at happ hes
              -- the converter accepts only two operands
              have hflat : (flatList .divide [a, b]).length = 2 := by
                have hD' := hD
                rw [mkOp_nodrop .divide rfl rfl [a, b] (by simp) hnd] at hD'
                have hargs := Dv_op_args CE ps qv .divide _ hD'
                unfold Dv at hD'
                rw [conv_op_of CE ps qv .divide (by decide), convExprs_of_Dv CE ps qv _ hargs] at hD'
                simp only [Option.bind_some] at hD'
                cases hc : convOp .divide ((flatList .divide [a, b]).map (cv CE ps qv)) with
                | none => rw [hc] at hD'; cases hD'
                | some x => simpa using convOp_divide_len hc
              have hmk := binary_mkOp .divide rfl rfl a b hnd (hshape a (by simp)).divide (hshape b (by simp)).divide hflat
              rw [hmk, conv_op_of CE ps qv .divide (by decide), Option.bind_eq_some_iff] at hQ
              obtain ⟨as, hcs, hcv⟩ := hQ
              have ih := fexps_agree [x, y] sc qv [e1, e2] [a, b] as hs hes hφs hcs hoks
              have hAs := ((convExprs_some_iff CE ps qv [a, b] as).1 hcs).2
              subst hAs
              have he' : e' = mkDiv (cv CE ps qv a) (cv CE ps qv b) := (Option.some.inj hcv).symm
              have he : e = mkDiv e1 e2 := (Option.some.inj happ).symm
              rw [he, he']
              exact FRel.app .div ih
theorem fexps_agree : ∀ (ts : List Sexp) (sc qv : List Var) (es : List Expr) (φs : List Form) (as : List Expr),
    ScopeAgree sc qv → readExprs E sc ts = some es → astFexps C ts = some φs → convExprs CE ps qv φs = some as →
    fexpOKs C ts = true → All2 FRel es as
  | [], _, _, es, φs, as, _, hU, hA, hQ, _ => by
    rw [readExprs_nil_inv hU, astFexps_nil_inv hA] at *
    rw [convExprs] at hQ
    cases hQ
    trivial
  | t :: ts, sc, qv, es, φs, as, hs, hU, hA, hQ, hok => by
    obtain ⟨e, er, he, her, rfl⟩ := readExprs_cons_inv hU
    obtain ⟨a, ar, ha, har, rfl⟩ := astFexps_cons_inv hA
    obtain ⟨hok1, hok2⟩ := fexpOKs_cons hok
    rw [convExprs] at hQ
    cases h1 : convExpr CE ps qv a with
    | none => simp [h1] at hQ
    | some a' =>
      cases h2 : convExprs CE ps qv ar with
      | none => simp [h1, h2] at hQ
      | some ar' =>
        simp only [h1, h2, Option.some.injEq] at hQ
        subst hQ
        exact ⟨fexp_agree t sc qv e a a' hs he ha h1 hok1, fexps_agree ts sc qv er ar ar' hs her har h2 hok2⟩
end

end

end UPVerif.FromPddl
