import UPVerif.Lemmas.WellFormedExpr
import UPVerif.Lemmas.WellFormedNames
/-!
Helper lemmas for `Props/C08Models.lean`, part 3: the declaredness test `wfExpr` (an instance of `holds`), effects,
actions, the equivalence of the proposition `WellFormed` with the decidable judgement `wfProblem`, positions in
`enumerate(problem.actions)`, and what the models assume of the simplifier.  No Mathlib.
-/
namespace UPVerif.WF
open UPVerif UPVerif.Expr UPVerif.Declared UPVerif.Sim UPVerif.Compile

/-! ### `wfExpr` -/

theorem wfNode_consts (D : Decls) (ps : List (String × Ty)) : (wfNode D ps).Consts :=
  ⟨fun _ => rfl, fun _ => rfl, fun _ => rfl⟩

theorem wfNode_and (D : Decls) (ps : List (String × Ty)) (n : Nat) : (wfNode D ps).op .and n = true := rfl
theorem wfNode_or (D : Decls) (ps : List (String × Ty)) (n : Nat) : (wfNode D ps).op .or n = true := rfl
theorem wfNode_not (D : Decls) (ps : List (String × Ty)) (n : Nat) : (wfNode D ps).op .not n = true := rfl
theorem wfNode_le (D : Decls) (ps : List (String × Ty)) (n : Nat) : (wfNode D ps).op .le n = true := rfl

/-- `ObjectExp` of an object of a domain of `P` names a declared object -/
theorem wfNode_objs (P : Problem) (ps : List (String × Ty)) : (wfNode (declsOf P) ps).Objs P := by
  intro ty o h
  obtain ⟨t, ht, hm⟩ := objExpr_declared P h
  rw [ht, holds_leaf]
  show (declsOf P).objects.contains (o, t) = true
  exact List.contains_iff_mem.2 hm

theorem wfExpr_tt (D : Decls) (ps : List (String × Ty)) : wfExpr D ps Expr.tt = true := holds_tt (wfNode_consts D ps)
theorem wfExpr_ff (D : Decls) (ps : List (String × Ty)) : wfExpr D ps Expr.ff = true := holds_ff (wfNode_consts D ps)

theorem wfExpr_mkAnd {D : Decls} {ps : List (String × Ty)} {l : List Expr} (h : ∀ e ∈ l, wfExpr D ps e = true) :
    wfExpr D ps (mkAnd l) = true := holds_mkAnd (wfNode_consts D ps) (wfNode_and D ps _) h

theorem wfExpr_mkNot {D : Decls} {ps : List (String × Ty)} {e : Expr} (h : wfExpr D ps e = true) :
    wfExpr D ps (mkNot e) = true := holds_mkNot (wfNode_not D ps 1) h

/-- more parameters in scope -/
theorem wfExpr_params_mono {D : Decls} {ps ps' : List (String × Ty)} (hsub : ∀ p ∈ ps, p ∈ ps') :
    ∀ e, wfExpr D ps e = true → wfExpr D ps' e = true := by
  apply holds_imp
  · intro l h
    cases l with
    | param n ty =>
      have : (n, ty) ∈ ps := List.contains_iff_mem.1 h
      exact List.contains_iff_mem.2 (hsub _ this)
    | _ => exact h
  · intro o n h; exact h
  · intro q vs h; exact h

theorem wfExpr_of_closed {D : Decls} (ps : List (String × Ty)) {e : Expr} (h : wfExpr D [] e = true) :
    wfExpr D ps e = true := wfExpr_params_mono (fun p hp => by cases hp) e h

/-- more declarations -/
theorem wfExpr_decls_mono {D D' : Decls} {ps : List (String × Ty)} (ht : ∀ t ∈ D.types, t ∈ D'.types)
    (ho : ∀ o ∈ D.objects, o ∈ D'.objects) (hf : ∀ f ∈ D.fluents, f ∈ D'.fluents) :
    ∀ e, wfExpr D ps e = true → wfExpr D' ps e = true := by
  have hty : ∀ t, tyDeclared D t = true → tyDeclared D' t = true := by
    intro t h
    cases t with
    | user n => exact List.contains_iff_mem.2 (ht _ (List.contains_iff_mem.1 h))
    | _ => rfl
  apply holds_imp
  · intro l h
    cases l with
    | obj n t => exact List.contains_iff_mem.2 (ho _ (List.contains_iff_mem.1 h))
    | var v => exact hty _ h
    | _ => exact h
  · intro o n h
    cases o with
    | fluent f =>
      simp only [wfNode, wfOp, Bool.and_eq_true] at h ⊢
      exact ⟨List.contains_iff_mem.2 (hf _ (List.contains_iff_mem.1 h.1)), h.2⟩
    | _ => rfl
  · intro q vs h
    simp only [wfNode, List.all_eq_true] at h ⊢
    exact fun v hv => hty _ (h v hv)

theorem tyDeclared_mono {D D' : Decls} (ht : ∀ t ∈ D.types, t ∈ D'.types) (t : Ty) (h : tyDeclared D t = true) :
    tyDeclared D' t = true := by
  cases t with
  | user n => exact List.contains_iff_mem.2 (ht _ (List.contains_iff_mem.1 h))
  | _ => rfl

/-! ### effects and actions -/

theorem wfEffect_iff (D : Decls) (ps : List (String × Ty)) (e : Effect) :
    wfEffect D ps e = true ↔ (∀ v ∈ e.forall_, tyDeclared D v.ty = true) ∧ wfExpr D ps e.fluent = true ∧
      wfExpr D ps e.value = true ∧ wfExpr D ps e.cond = true := by
  simp only [wfEffect, Bool.and_eq_true, List.all_eq_true, and_assoc]

theorem wfAction_iff (D : Decls) (a : Action) :
    wfAction D a = true ↔ (∀ p ∈ a.params, tyDeclared D p.2 = true) ∧ (∀ e ∈ a.pre, wfExpr D a.params e = true) ∧
      (∀ e ∈ a.effs, wfEffect D a.params e = true) := by
  simp only [wfAction, Bool.and_eq_true, List.all_eq_true, and_assoc]

theorem wfAction_sameBody {D : Decls} {a a' : Action} (hs : SameBody a a') (h : wfAction D a = true) :
    wfAction D a' = true := by
  obtain ⟨h1, h2, h3⟩ := hs
  rw [wfAction_iff] at *
  rw [h1, h2, h3]
  exact h

/-- `Effect.expand_effect`: the instances of a forall effect over the objects of the problem -/
theorem wfEffect_expandEffect (P : Problem) (ps : List (String × Ty)) (e : Effect)
    (h : wfEffect (declsOf P) ps e = true) : ∀ x ∈ expandEffect P e, wfEffect (declsOf P) ps x = true := by
  unfold expandEffect
  split
  · intro x hx; simp at hx; subst hx; exact h
  · intro x hx
    obtain ⟨objs, hobjs, rfl⟩ := List.mem_map.1 hx
    rw [wfEffect_iff] at h ⊢
    have hσ : ∀ kv ∈ (e.forall_.zip objs).map (fun vo => ((Expr.leaf (.var vo.1), objExpr P vo.2) : Expr × Expr)),
        holds (wfNode (declsOf P) ps) kv.2 = true := by
      intro kv hkv
      obtain ⟨vo, hvo, rfl⟩ := List.mem_map.1 hkv
      obtain ⟨d, hd, hod⟩ := (mem_cartesian _ _ hobjs).2 vo.2 (List.of_mem_zip hvo).2
      obtain ⟨v, _, rfl⟩ := List.mem_map.1 hd
      exact wfNode_objs P ps v.ty vo.2 hod
    refine ⟨fun v hv => (by cases hv), ?_, ?_, ?_⟩
    · exact holds_substE (wfNode_consts _ _) _ hσ _ h.2.1
    · exact holds_substE (wfNode_consts _ _) _ hσ _ h.2.2.1
    · exact holds_substE (wfNode_consts _ _) _ hσ _ h.2.2.2

/-! ### the proposition and the judgement -/

theorem wellFormed_iff (P : Problem) : WellFormed P ↔ wfProblem P = true := by
  unfold wfProblem
  simp only [Bool.and_eq_true, decide_eq_true_eq, List.all_eq_true]
  constructor
  · intro h
    exact ⟨⟨⟨⟨⟨⟨⟨h.names, fun o ho => List.contains_iff_mem.2 (h.objects o ho)⟩, h.fluents⟩, h.init⟩, h.actions⟩,
      h.goals⟩, h.traj⟩, h.metrics⟩
  · rintro ⟨⟨⟨⟨⟨⟨⟨h1, h2⟩, h3⟩, h4⟩, h5⟩, h6⟩, h7⟩, h8⟩
    exact ⟨h1, fun o ho => List.contains_iff_mem.1 (h2 o ho), h3, h4, h5, h6, h7, h8⟩

instance (P : Problem) : Decidable (WellFormed P) := decidable_of_iff _ (wellFormed_iff P).symm

theorem wfVerdict_none_iff (P : Problem) : wfVerdict P = none ↔ wfProblem P = true := by
  unfold wfVerdict wfProblem
  simp only []
  cases decide (allNames P).Nodup
  · simp
  cases P.objects.all (fun o => (declsOf P).types.contains o.2)
  · simp
  cases P.fluents.all (wfFluentDecl (declsOf P))
  · simp
  cases P.init.all (fun kv => wfExpr (declsOf P) [] kv.1 && wfExpr (declsOf P) [] kv.2)
  · simp
  cases P.actions.all (wfAction (declsOf P))
  · simp
  cases P.goals.all (wfExpr (declsOf P) [])
  · simp
  cases P.traj.all (wfExpr (declsOf P) [])
  · simp
  cases P.metrics.all (wfMetric (declsOf P) P.actions)
  · simp
  simp

/-! ### the back map -/

theorem backOK_iff (n : Nat) (actions : List Action) (back : List (Option Nat)) :
    backOK n actions back = true ↔ back.length = actions.length ∧ ∀ b ∈ back, ∀ i, b = some i → i < n := by
  simp only [backOK, Bool.and_eq_true, beq_iff_eq, List.all_eq_true]
  constructor
  · rintro ⟨h1, h2⟩
    refine ⟨h1, fun b hb i hi => ?_⟩
    have := h2 b hb
    subst hi
    simpa using this
  · rintro ⟨h1, h2⟩
    refine ⟨h1, fun b hb => ?_⟩
    cases b with
    | none => rfl
    | some i => simpa using h2 _ hb i rfl

/-! ### `enumerate(problem.actions)` -/

theorem mem_zip_range {α : Type} {l : List α} {i : Nat} {a : α} (h : (i, a) ∈ (List.range l.length).zip l) :
    l[i]? = some a ∧ i < l.length := by
  obtain ⟨j, hj⟩ := List.mem_iff_getElem?.1 h
  obtain ⟨h1, h2⟩ := List.getElem?_zip_eq_some.1 hj
  have hjl : j < l.length := by
    have := (List.getElem?_eq_some_iff.1 h1).1
    simpa using this
  rw [List.getElem?_range hjl] at h1
  simp only [Option.some.injEq] at h1
  subst h1
  exact ⟨h2, hjl⟩

theorem map_snd_zip_range {α : Type} (l : List α) : ((List.range l.length).zip l).map (·.2) = l :=
  List.map_snd_zip (by simp)

/-! ### what the compiler models assume of the simplifier and of the DNF walker -/

/-- the simplifier introduces no new symbol: whatever is declared stays declared, in every scope -/
def SimpWF (simp : Expr → Expr) : Prop :=
  ∀ (D : Decls) (ps : List (String × Ty)) (e : Expr), wfExpr D ps e = true → wfExpr D ps (simp e) = true

theorem SimpWF_id : SimpWF id := fun _ _ _ h => h

end UPVerif.WF
