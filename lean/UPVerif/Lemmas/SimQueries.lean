import UPVerif.Lemmas.SimApply
/-!
Helper lemmas for `Props/C02.lean`: the query methods against `apply`.
-/
namespace UPVerif.Sim
open UPVerif UPVerif.Spec

theorem unsatPre_early {c : EvalCtx} : ∀ (ps : List Expr) (i : Nat),
    (unsatPre c true ps i).map List.isEmpty = checkPre c ps
  | [], _ => rfl
  | p :: ps, i => by
    simp only [unsatPre, checkPre]
    cases eval c [] p with
    | error x => rfl
    | ok v =>
      cases v with
      | b x =>
        cases x with
        | true => exact unsatPre_early ps (i + 1)
        | false => rfl
      | n q => rfl
      | o n => rfl

theorem unsatInv_early {c : EvalCtx} : ∀ (l : List Expr) (i : Nat),
    (unsatInv c true l i).map List.isEmpty = checkInvariants c l
  | [], _ => rfl
  | si :: sis, i => by
    simp only [unsatInv, checkInvariants]
    cases evalBool c si with
    | error x => rfl
    | ok b =>
      cases b with
      | true => exact unsatInv_early sis (i + 1)
      | false => rfl

theorem map_eq_error {α β : Type} {f : α → β} {x : Except EvalErr α} {e : EvalErr}
    (h : x.map f = .error e) : x = .error e := by
  cases x with
  | error y => simpa [Except.map] using h
  | ok v => simp [Except.map] at h

theorem map_eq_ok {α β : Type} {f : α → β} {x : Except EvalErr α} {b : β}
    (h : x.map f = .ok b) : ∃ v, x = .ok v ∧ f v = b := by
  cases x with
  | error y => simp [Except.map] at h
  | ok v => exact ⟨v, rfl, by simpa [Except.map] using h⟩

/-- `is_applicable` (full check through the shared effect loop) answers exactly "apply succeeds",
    including which exception escapes -/
theorem isApplicable_eq_apply (W : World) (s : SimState) (a : Action) (args : List String) :
    isApplicable W s a args = (Sim.apply W s a args).map Option.isSome := by
  unfold isApplicable Sim.apply applyRaw applyGround unsatisfiedConditions
  cases hg : ground W a args with
  | error x => cases x <;> rfl
  | ok og =>
    cases og with
    | none => rfl
    | some g =>
      dsimp only
      have hpre := unsatPre_early (c := ctx W s) g.pre 0
      cases hp : checkPre (ctx W s) g.pre with
      | error x =>
        rw [hp] at hpre
        rw [map_eq_error hpre]
        cases x <;> rfl
      | ok b =>
        rw [hp] at hpre
        obtain ⟨up, hup, hb⟩ := map_eq_ok hpre
        rw [hup]
        dsimp only
        cases b with
        | false =>
          have : up.isEmpty = false := hb
          simp [this, catchFail, Except.map]
        | true =>
          have : up.isEmpty = true := hb
          simp only [this, Bool.not_true, Bool.and_false, Bool.false_eq_true, if_false]
          unfold applyUnsafe
          cases hf : foldEffects (ctx W s) (expandAll W.P g) Acc.empty with
          | error x =>
            cases x with
            | conflict => rfl
            | invalid => rfl
            | eval e => cases e <;> rfl
          | ok acc =>
            dsimp only
            have hinv := unsatInv_early (c := ctx W (s.child acc.upd)) (invariants W) 0
            cases hi : checkInvariants (ctx W (s.child acc.upd)) (invariants W) with
            | error x =>
              rw [hi] at hinv
              rw [map_eq_error hinv]
              cases x <;> rfl
            | ok b2 =>
              rw [hi] at hinv
              obtain ⟨ui, hui, hb2⟩ := map_eq_ok hinv
              rw [hui]
              cases b2 with
              | false =>
                have : ui.isEmpty = false := hb2
                simp [this, catchFail, Except.map]
              | true =>
                have : ui.isEmpty = true := hb2
                simp [this, catchFail, Except.map]

/-- does `apply` return a successor state? -/
def succeeds (W : World) (s : SimState) (ai : Action × List String) : Bool :=
  match Sim.apply W s ai.1 ai.2 with
  | .ok (some _) => true
  | _ => false

theorem applicableActions_go_ok {W : World} {s : SimState} : ∀ (l : List (Action × List String)) {r : List (Action × List String)},
    applicableActions.go W s l = .ok r → r = l.filter (succeeds W s) ∧ ∀ ai ∈ l, ∃ o, Sim.apply W s ai.1 ai.2 = .ok o
  | [], r, h => by
    simp [applicableActions.go] at h
    subst h; simp
  | ai :: rest, r, h => by
    simp only [applicableActions.go] at h
    rw [isApplicable_eq_apply] at h
    cases ha : Sim.apply W s ai.1 ai.2 with
    | error x => rw [ha] at h; simp [Except.map] at h
    | ok o =>
      rw [ha] at h
      simp only [Except.map] at h
      cases hr : applicableActions.go W s rest with
      | error x => rw [hr] at h; cases h
      | ok r' =>
        rw [hr] at h
        obtain ⟨e1, e2⟩ := applicableActions_go_ok rest hr
        simp only [Except.ok.injEq] at h
        refine ⟨?_, ?_⟩
        · subst h
          simp only [List.filter_cons, succeeds, ha]
          cases o <;> simp [e1]
        · intro x hx
          simp at hx
          rcases hx with rfl | hx
          · exact ⟨o, ha⟩
          · exact e2 x hx

theorem applicableActions_go_err {W : World} {s : SimState} : ∀ (l : List (Action × List String)) {e : EvalErr},
    applicableActions.go W s l = .error e → ∃ ai ∈ l, Sim.apply W s ai.1 ai.2 = .error e
  | [], e, h => by simp [applicableActions.go] at h
  | ai :: rest, e, h => by
    simp only [applicableActions.go] at h
    rw [isApplicable_eq_apply] at h
    cases ha : Sim.apply W s ai.1 ai.2 with
    | error x =>
      rw [ha] at h
      simp [Except.map] at h
      subst h
      exact ⟨ai, by simp, ha⟩
    | ok o =>
      rw [ha] at h
      simp only [Except.map] at h
      cases hr : applicableActions.go W s rest with
      | error x =>
        rw [hr] at h
        simp at h; subst h
        obtain ⟨x', hx', hx''⟩ := applicableActions_go_err rest hr
        exact ⟨x', by simp [hx'], hx''⟩
      | ok r' => rw [hr] at h; cases h

/-- characterisation of "no unsatisfied entry" for both termination modes -/
theorem unsatInv_nil {c : EvalCtx} (early : Bool) : ∀ (l : List Expr) (i : Nat),
    unsatInv c early l i = .ok [] ↔ l.all (fun e => isTrueB (evalBool c e)) = true
  | [], _ => by simp [unsatInv]
  | si :: sis, i => by
    have ih := unsatInv_nil (c := c) early sis (i + 1)
    simp only [unsatInv, List.all_cons, Bool.and_eq_true]
    cases evalBool c si with
    | error x => simp [isTrueB]
    | ok b =>
      cases b with
      | true => simpa [isTrueB] using ih
      | false =>
        cases early with
        | true => simp [isTrueB]
        | false =>
          simp only [isTrueB, Bool.false_eq_true, if_false, false_and, iff_false]
          cases unsatInv c false sis (i + 1) <;> simp


/-! ### histories of queries -/

/-- the five public queries -/
inductive Query where
  | apply (s : SimState) (a : Action) (args : List String)
  | isApplicable (s : SimState) (a : Action) (args : List String)
  | applicableActions (s : SimState)
  | isGoal (s : SimState)
  | unsatisfiedGoals (s : SimState)

inductive Answer where
  | state (r : Except EvalErr (Option SimState))
  | bool (r : Except EvalErr Bool)
  | insts (r : Except EvalErr (List (Action × List String)))
  | idxs (r : Except EvalErr (List Nat))

def answer (W : World) : Query → Answer
  | .apply s a args => .state (Sim.apply W s a args)
  | .isApplicable s a args => .bool (Sim.isApplicable W s a args)
  | .applicableActions s => .insts (Sim.applicableActions W s)
  | .isGoal s => .bool (Sim.isGoal W s)
  | .unsatisfiedGoals s => .idxs (Sim.unsatisfiedGoals W s false)

/-- a simulator instance answering a history of queries one after the other -/
def runHistory (W : World) (qs : List Query) : List Answer := qs.map (answer W)

end UPVerif.Sim
