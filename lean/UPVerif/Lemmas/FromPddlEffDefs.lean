import UPVerif.Lemmas.FromPddlGdMain
/-!
Helper lemmas for C21: effects.  The first reader walks an effect tree breadth first with a queue (`Pddl.effLoop`), the
converter depth first with a stack (`FromPddl.effLoop`).  Both loops are replaced by what they compute up to the order of
the yielded effects: the relations `UYield` / `AYield` ("this item yields these effects"), defined by the step functions
alone.  The successor semantics of C01 does not depend on the order of the effects (`Spec.successorOf_perm`).
-/
namespace UPVerif.FromPddl
open UPVerif UPVerif.Expr

/-! ### first reader -/

mutual
/-- the effects the walk of `_add_effect` yields from one queue item -/
inductive UYield (E : Pddl.REnv) : Pddl.EffItem → List Effect → Prop
  | mk {it : Pddl.EffItem} {es : List Effect} {more : List Pddl.EffItem} {rs : List Effect} :
      Pddl.effStep E it = some (es, more) → UYields E more rs → UYield E it (es ++ rs)
inductive UYields (E : Pddl.REnv) : List Pddl.EffItem → List Effect → Prop
  | nil : UYields E [] []
  | cons {it : Pddl.EffItem} {its : List Pddl.EffItem} {r rs : List Effect} :
      UYield E it r → UYields E its rs → UYields E (it :: its) (r ++ rs)
end

theorem UYields.append_inv {E : Pddl.REnv} : ∀ {q1 q2 : List Pddl.EffItem} {rs : List Effect}, UYields E (q1 ++ q2) rs →
    ∃ r1 r2, UYields E q1 r1 ∧ UYields E q2 r2 ∧ rs = r1 ++ r2
  | [], q2, rs, h => ⟨[], rs, UYields.nil, h, rfl⟩
  | it :: q1, q2, rs, h => by
    cases h with
    | cons h1 h2 =>
      obtain ⟨r1, r2, ha, hb, rfl⟩ := UYields.append_inv h2
      exact ⟨_, r2, UYields.cons h1 ha, hb, by simp⟩

/-- the queue loop yields, up to order, what its items yield -/
theorem uloop_yields (E : Pddl.REnv) : ∀ (fuel : Nat) (q : List Pddl.EffItem) (out : List Effect),
    Pddl.effLoop E fuel q = some out → ∃ rs, UYields E q rs ∧ out.Perm rs
  | _, [], out, h => by
    rw [Pddl.effLoop] at h
    cases h
    exact ⟨[], UYields.nil, List.Perm.refl _⟩
  | 0, _ :: _, out, h => by rw [Pddl.effLoop] at h; cases h
  | fuel + 1, it :: q, out, h => by
    rw [Pddl.effLoop] at h
    simp only [Option.bind_eq_bind, Option.bind_eq_some_iff, Option.some.injEq] at h
    obtain ⟨⟨es, more⟩, hstep, rest, hrest, rfl⟩ := h
    obtain ⟨rs', hy, hp⟩ := uloop_yields E fuel (q ++ more) rest hrest
    obtain ⟨r1, r2, h1, h2, rfl⟩ := UYields.append_inv hy
    refine ⟨(es ++ r2) ++ r1, UYields.cons (UYield.mk hstep h2) h1, ?_⟩
    -- es ++ rest ~ es ++ (r1 ++ r2) ~ (es ++ r2) ++ r1
    have : (es ++ rest).Perm (es ++ (r1 ++ r2)) := List.Perm.append_left es hp
    refine this.trans ?_
    rw [List.append_assoc]
    exact List.Perm.append_left es List.perm_append_comm

/-! ### converter -/

/-- the effect the first reader keeps for a cost: `increase (total-cost) c`, unconditional -/
def costEff (tc : Expr) (c : Expr) : Effect :=
  { fluent := tc, value := c, cond := Expr.tt, kind := .increase, forall_ := [] }

mutual
/-- the effects `_convert_effects` yields from one stack item; a cost is listed as the effect on `total-cost` that the
    first reader would keep -/
inductive AYield (CE : CEnv) (hc : Bool) (ps : List (String × Ty)) (tc : Expr) : EItem → List Effect → Prop
  | effect {it : EItem} {e : Effect} : effStep CE hc ps it = some (.effect e) → AYield CE hc ps tc it [e]
  | cost {it : EItem} {c : Expr} : effStep CE hc ps it = some (.cost c) → AYield CE hc ps tc it [costEff tc c]
  | push {it : EItem} {items : List EItem} {rs : List Effect} :
      effStep CE hc ps it = some (.push items) → AYields CE hc ps tc items rs → AYield CE hc ps tc it rs
inductive AYields (CE : CEnv) (hc : Bool) (ps : List (String × Ty)) (tc : Expr) : List EItem → List Effect → Prop
  | nil : AYields CE hc ps tc [] []
  | cons {it : EItem} {its : List EItem} {r rs : List Effect} :
      AYield CE hc ps tc it r → AYields CE hc ps tc its rs → AYields CE hc ps tc (it :: its) (r ++ rs)
end

theorem AYields.append_inv {CE : CEnv} {hc : Bool} {ps : List (String × Ty)} {tc : Expr} :
    ∀ {q1 q2 : List EItem} {rs : List Effect}, AYields CE hc ps tc (q1 ++ q2) rs →
    ∃ r1 r2, AYields CE hc ps tc q1 r1 ∧ AYields CE hc ps tc q2 r2 ∧ rs = r1 ++ r2
  | [], q2, rs, h => ⟨[], rs, AYields.nil, h, rfl⟩
  | it :: q1, q2, rs, h => by
    cases h with
    | cons h1 h2 =>
      obtain ⟨r1, r2, ha, hb, rfl⟩ := AYields.append_inv h2
      exact ⟨_, r2, AYields.cons h1 ha, hb, by simp⟩

theorem AYields.append {CE : CEnv} {hc : Bool} {ps : List (String × Ty)} {tc : Expr} :
    ∀ {q1 q2 : List EItem} {r1 r2 : List Effect}, AYields CE hc ps tc q1 r1 → AYields CE hc ps tc q2 r2 →
    AYields CE hc ps tc (q1 ++ q2) (r1 ++ r2)
  | [], _, _, _, h1, h2 => by cases h1; exact h2
  | _ :: _, _, _, _, h1, h2 => by
    cases h1 with
    | cons ha hb =>
      rw [List.cons_append, List.append_assoc]
      exact AYields.cons ha (AYields.append hb h2)

/-- the yields of a reversed list of items: the same effects in another order -/
theorem AYields.reverse {CE : CEnv} {hc : Bool} {ps : List (String × Ty)} {tc : Expr} :
    ∀ {q : List EItem} {rs : List Effect}, AYields CE hc ps tc q.reverse rs →
    ∃ rs', AYields CE hc ps tc q rs' ∧ rs.Perm rs'
  | [], rs, h => ⟨rs, h, List.Perm.refl _⟩
  | it :: q, rs, h => by
    rw [List.reverse_cons] at h
    obtain ⟨r1, r2, h1, h2, rfl⟩ := AYields.append_inv h
    obtain ⟨r1', h1', hp⟩ := AYields.reverse h1
    cases h2 with
    | cons ha hb =>
      cases hb
      refine ⟨_, AYields.cons ha h1', ?_⟩
      simp only [List.append_nil]
      exact (List.perm_append_comm).trans (List.Perm.append_left _ hp)

/-- the stack loop yields, up to order, what its items yield; the cost (if any) is the cost effect among them -/
theorem aloop_yields (CE : CEnv) (hc : Bool) (ps : List (String × Ty)) (tc : Expr) :
    ∀ (fuel : Nat) (stack : List EItem) (cost : Option Expr) (out : List Effect) (cost' : Option Expr),
    effLoop CE hc ps fuel stack cost = some (out, cost') →
    ∃ ys, AYields CE hc ps tc stack ys ∧
      (out ++ cost'.toList.map (costEff tc)).Perm (ys ++ cost.toList.map (costEff tc))
  | _, [], cost, out, cost', h => by
    rw [effLoop] at h
    cases h
    exact ⟨[], AYields.nil, List.Perm.refl _⟩
  | 0, _ :: _, _, _, _, h => by rw [effLoop] at h; cases h
  | fuel + 1, it :: stack, cost, out, cost', h => by
    rw [effLoop] at h
    cases hs : effStep CE hc ps it with
    | none => simp [hs] at h
    | some o =>
      cases o with
      | effect e =>
        simp only [hs, Option.map_eq_some_iff, Prod.mk.injEq] at h
        obtain ⟨⟨o1, c1⟩, hl, rfl, rfl⟩ := h
        obtain ⟨ys, hy, hp⟩ := aloop_yields CE hc ps tc fuel stack cost o1 c1 hl
        exact ⟨[e] ++ ys, AYields.cons (AYield.effect hs) hy, by simpa using List.Perm.cons e hp⟩
      | cost c =>
        simp only [hs] at h
        cases hcost : cost with
        | some c0 => simp [hcost] at h
        | none =>
          simp only [hcost, Option.isSome_none, Bool.false_eq_true, if_false] at h
          obtain ⟨ys, hy, hp⟩ := aloop_yields CE hc ps tc fuel stack (some c) out cost' h
          refine ⟨[costEff tc c] ++ ys, AYields.cons (AYield.cost hs) hy, ?_⟩
          simp only [Option.toList_some, List.map_cons, List.map_nil, Option.toList_none, List.append_nil] at hp ⊢
          exact hp.trans (List.perm_append_comm)
      | push items =>
        simp only [hs] at h
        obtain ⟨ys, hy, hp⟩ := aloop_yields CE hc ps tc fuel (items.reverse ++ stack) cost out cost' h
        obtain ⟨r1, r2, h1, h2, rfl⟩ := AYields.append_inv hy
        obtain ⟨r1', h1', hp1⟩ := AYields.reverse h1
        refine ⟨r1' ++ r2, AYields.cons (AYield.push hs h1') h2, ?_⟩
        refine hp.trans ?_
        exact List.Perm.append_right _ (List.Perm.append_right _ hp1)

/-! ### the relation between the yielded effects -/

structure EffRel (r r' : Effect) : Prop where
  fluent : r.fluent = r'.fluent
  value : FRel r.value r'.value
  cond : GdRel r.cond r'.cond
  kind : r.kind = r'.kind
  forall_ : r.forall_ = r'.forall_

/-- the same effects up to order, pairwise related -/
def EffsRel (rs rs' : List Effect) : Prop := ∃ l l', rs.Perm l ∧ rs'.Perm l' ∧ All2 EffRel l l'

theorem EffsRel.nil : EffsRel [] [] := ⟨[], [], List.Perm.refl _, List.Perm.refl _, trivial⟩

theorem EffsRel.single {r r' : Effect} (h : EffRel r r') : EffsRel [r] [r'] :=
  ⟨[r], [r'], List.Perm.refl _, List.Perm.refl _, h, trivial⟩

theorem all2_append {α β : Type} {R : α → β → Prop} : ∀ {a : List α} {a' : List β} {b : List α} {b' : List β},
    All2 R a a' → All2 R b b' → All2 R (a ++ b) (a' ++ b')
  | [], [], _, _, _, h2 => h2
  | _ :: _, _ :: _, _, _, h1, h2 => ⟨h1.1, all2_append h1.2 h2⟩
  | [], _ :: _, _, _, h1, _ => h1.elim
  | _ :: _, [], _, _, h1, _ => h1.elim

theorem EffsRel.append {a a' b b' : List Effect} (h1 : EffsRel a a') (h2 : EffsRel b b') : EffsRel (a ++ b) (a' ++ b') := by
  obtain ⟨l1, l1', p1, p1', r1⟩ := h1
  obtain ⟨l2, l2', p2, p2', r2⟩ := h2
  exact ⟨l1 ++ l2, l1' ++ l2', p1.append p2, p1'.append p2', all2_append r1 r2⟩

theorem EffsRel.perm_left {a b a' : List Effect} (hp : a.Perm b) (h : EffsRel b a') : EffsRel a a' := by
  obtain ⟨l, l', p, p', r⟩ := h
  exact ⟨l, l', hp.trans p, p', r⟩

theorem EffsRel.perm_right {a a' b' : List Effect} (hp : a'.Perm b') (h : EffsRel a b') : EffsRel a a' := by
  obtain ⟨l, l', p, p', r⟩ := h
  exact ⟨l, l', p, hp.trans p', r⟩

end UPVerif.FromPddl
