import UPVerif.Lemmas.ExecEnvState
import UPVerif.Lemmas.SimCorollaries
/-!
Helper lemmas for C35, part 3: evaluation of constraint members in the initial state, `apply`,
the observation read-out, histories.
-/
namespace UPVerif.ExecEnv
open UPVerif UPVerif.Expr UPVerif.Sim UPVerif.Spec

/-! ### evaluating a ground fluent expression / a literal -/

theorem evalList_consts {c : EvalCtx} {ρ : VEnv} : ∀ {args : List Expr} {vs : List Val},
    args.mapM constVal? = some vs → evalList c ρ args = .ok vs
  | [], vs, h => by
    simp at h; subst h
    simp [evalList]
  | e :: es, vs, h => by
    rw [List.mapM_cons] at h
    simp only [Option.bind_eq_bind, Option.bind_eq_some_iff, Option.pure_def, Option.some.injEq] at h
    obtain ⟨v, hv, vs', hvs, rfl⟩ := h
    have he : eval c ρ e = .ok v := by
      cases e with
      | leaf l => cases l <;> simp [constVal?] at hv <;> subst hv <;> simp [eval, evalLeaf]
      | app _ _ => simp [constVal?] at hv
      | quant _ _ _ => simp [constVal?] at hv
    simp [evalList, evalList_consts hvs, he]

theorem keyOf?_some {a : Expr} {k : GKey} (h : keyOf? a = some k) :
    ∃ f args vs, a = .app (.fluent f) args ∧ args.mapM constVal? = some vs ∧ k = (f, vs) := by
  unfold keyOf? at h
  split at h
  · rename_i f args
    simp only [Option.map_eq_some_iff] at h
    obtain ⟨vs, hvs, rfl⟩ := h
    exact ⟨f, args, vs, rfl, hvs, rfl⟩
  · cases h

theorem eval_key {c : EvalCtx} {a : Expr} {k : GKey} {v : Val} (hk : keyOf? a = some k)
    (hv : c.get k = some v) : eval c [] a = .ok v := by
  obtain ⟨f, args, vs, rfl, hvs, rfl⟩ := keyOf?_some hk
  simp [eval, evalList_consts hvs, evalOp, hv]

theorem mapM_some_mem {α β : Type} {f : α → Option β} : ∀ {l : List α} {r : List β},
    l.mapM f = some r → ∀ x ∈ l, ∃ y, f x = some y
  | [], _, _, x, hx => by cases hx
  | a :: l, r, h, x, hx => by
    rw [List.mapM_cons] at h
    simp only [Option.bind_eq_bind, Option.bind_eq_some_iff, Option.pure_def, Option.some.injEq] at h
    obtain ⟨y, hy, r', hr', _⟩ := h
    rcases List.mem_cons.1 hx with rfl | hx
    · exact ⟨y, hy⟩
    · exact mapM_some_mem hr' x hx

theorem lookup_mem {choice : Asg} {a : Expr} {b : Bool} (h : choice.lookup a = some b) : (a, b) ∈ choice := by
  induction choice with
  | nil => simp at h
  | cons q qs ih =>
    simp only [List.lookup] at h
    split at h
    · rename_i heq
      have : a = q.1 := beq_iff_eq.1 heq
      cases h
      rw [this]
      exact List.mem_cons_self
    · exact List.mem_cons_of_mem _ (ih h)

/-- a hidden atom reads, in the initial state, as the chosen value -/
theorem env_get_hidden {C : CProblem} {mc : Option Nat} {simp : Expr → Expr} {fn : FunRef → List Val → Option Val}
    {choice : Asg} {E : Env} (h : mkEnv C mc simp fn choice = .ok E) (hinj : keysInjective C = true)
    {a : Expr} {b : Bool} (hl : choice.lookup a = some b) :
    ∃ k, keyOf? a = some k ∧ E.st.get E.W.P k = some (.b b) := by
  obtain ⟨hm, _, hs, _⟩ := mkEnv_ok h
  have hmem : (a, Expr.bool b) ∈ (fullProblem C choice).init := by
    rw [fullProblem_init hm]
    apply List.mem_append_right
    unfold choiceInit
    exact List.mem_map.2 ⟨(a, b), lookup_mem hl, rfl⟩
  rw [initialState?_eq] at hs
  cases hmm : (fullProblem C choice).init.mapM keyed with
  | none => rw [hmm] at hs; cases hs
  | some l =>
    obtain ⟨y, hy⟩ := mapM_some_mem hmm _ hmem
    unfold keyed at hy
    simp only [Option.bind_eq_bind, Option.bind_eq_some_iff] at hy
    obtain ⟨k, hk, _⟩ := hy
    refine ⟨k, hk, ?_⟩
    rw [env_get h k, explicit_hidden hm hinj hl hk]

theorem evalBool_lit {C : CProblem} {mc : Option Nat} {simp : Expr → Expr} {fn : FunRef → List Val → Option Val}
    {choice : Asg} {E : Env} (h : mkEnv C mc simp fn choice = .ok E) (hinj : keysInjective C = true)
    {x : Expr} {b : Bool} (hl : litVal choice x = some b) : evalBool (ctx E.W E.st) x = .ok b := by
  unfold litVal at hl
  split at hl
  · rename_i y
    simp only [Option.map_eq_some_iff] at hl
    obtain ⟨b', hb', rfl⟩ := hl
    obtain ⟨k, hk, hg⟩ := env_get_hidden h hinj hb'
    have : eval (ctx E.W E.st) [] y = .ok (.b b') := eval_key hk hg
    simp [evalBool, eval, evalList, this, evalOp, denOp]
  · obtain ⟨k, hk, hg⟩ := env_get_hidden h hinj hl
    have : eval (ctx E.W E.st) [] x = .ok (.b b) := eval_key hk hg
    simp [evalBool, this]

theorem holdsIn_of_evalBool {E : Env} {x : Expr} {b : Bool} (h : evalBool (ctx E.W E.st) x = .ok b) :
    holdsIn E x = b := by
  unfold holdsIn
  rw [h]
  cases b <;> decide

theorem count_lits {E : Env} {choice : Asg}
    (hlit : ∀ x b, litVal choice x = some b → evalBool (ctx E.W E.st) x = .ok b) :
    ∀ (c : List Expr) (bs : List Bool), litVals choice c = some bs →
      c.countP (holdsIn E) = countTrue bs ∧ c.any (holdsIn E) = bs.any id
  | [], bs, h => by
    simp [litVals] at h; subst h
    simp [countTrue]
  | x :: c, bs, h => by
    unfold litVals at h
    rw [List.mapM_cons] at h
    simp only [Option.bind_eq_bind, Option.bind_eq_some_iff, Option.pure_def, Option.some.injEq] at h
    obtain ⟨b, hb, bs', hbs, rfl⟩ := h
    obtain ⟨ih1, ih2⟩ := count_lits hlit c bs' hbs
    have hx := holdsIn_of_evalBool (hlit x b hb)
    constructor
    · rw [List.countP_cons, ih1, hx]
      unfold countTrue
      cases b <;> simp
    · rw [List.any_cons, ih2, hx]
      simp

/-- the constraints the solver was given hold, member by member, in the environment's initial state -/
theorem constraints_hold {C : CProblem} {mc : Option Nat} {simp : Expr → Expr} {fn : FunRef → List Val → Option Val}
    {choice : Asg} {E : Env} (h : mkEnv C mc simp fn choice = .ok E) (hinj : keysInjective C = true) :
    (∀ c ∈ C.oneofs, c.countP (holdsIn E) = 1) ∧ (∀ c ∈ usedOrs C mc, ∃ x ∈ c, holdsIn E x = true) := by
  obtain ⟨hm, _, _, _⟩ := mkEnv_ok h
  have hsat := (mem_models hm).2
  unfold satisfies at hsat
  rw [Bool.and_eq_true, List.all_eq_true, List.all_eq_true] at hsat
  have hlit := fun x b => evalBool_lit (x := x) (b := b) h hinj
  constructor
  · intro c hc
    have := hsat.1 c hc
    have h1 : oneofHolds choice c = some true := by simpa using this
    unfold oneofHolds at h1
    simp only [Option.map_eq_some_iff] at h1
    obtain ⟨bs, hbs, hone⟩ := h1
    rw [(count_lits hlit c bs hbs).1]
    simpa using hone
  · intro c hc
    have := hsat.2 c hc
    have h1 : orHolds choice c = some true := by simpa using this
    unfold orHolds at h1
    simp only [Option.map_eq_some_iff] at h1
    obtain ⟨bs, hbs, hany⟩ := h1
    have := (count_lits hlit c bs hbs).2
    rw [hany, List.any_eq_true] at this
    exact this

/-! ### `apply` -/

theorem apply_none {E : Env} {name : String} {args : List String} (h : E.W.P.action? name = none) :
    E.apply name args = none := by
  unfold Env.apply; rw [h]

theorem apply_done {E : Env} {name : String} {args : List String} {a : Action} {s' : SimState}
    (ha : E.W.P.action? name = some a) (h : Sim.apply E.W E.st a args = .ok (some s')) :
    E.apply name args = some (.done (match E.sensing.lookup name with
      | none => .ok []
      | some fs => readObs E.W.P s' (fs.map (substE (obsSubst E.W.P a args))) []), { E with st := s' }) := by
  unfold Env.apply
  rw [ha]
  simp only [h]
  cases E.sensing.lookup name <;> rfl

theorem apply_refused {E : Env} {name : String} {args : List String} {a : Action}
    (ha : E.W.P.action? name = some a) (h : Sim.apply E.W E.st a args = .ok none) :
    E.apply name args = some (.notApplicable, E) := by
  unfold Env.apply
  rw [ha]
  simp only [h]

theorem apply_raised {E : Env} {name : String} {args : List String} {a : Action} {e : EvalErr}
    (ha : E.W.P.action? name = some a) (h : Sim.apply E.W E.st a args = .error e) :
    E.apply name args = some (.raised e, E) := by
  unfold Env.apply
  rw [ha]
  simp only [h]

/-! ### the read-out of the observations -/

theorem readObs_spec {P : Problem} {s : SimState} : ∀ (fes : List Expr) (out r : List (Expr × Val)),
    readObs P s fes out = .ok r →
    (∀ p ∈ out, ∃ k, keyOf? p.1 = some k ∧ s.get P k = some p.2) → (out.map (·.1)).Nodup →
    (∀ p ∈ r, ∃ k, keyOf? p.1 = some k ∧ s.get P k = some p.2) ∧ (r.map (·.1)).Nodup ∧
    (∀ fe, fe ∈ r.map (·.1) ↔ fe ∈ out.map (·.1) ∨ fe ∈ fes)
  | [], out, r, h, hv, hn => by
    simp [readObs] at h; subst h
    exact ⟨hv, hn, fun fe => by simp⟩
  | fe :: fes, out, r, h, hv, hn => by
    unfold readObs at h
    split at h
    · cases h
    · rename_i k hk
      split at h
      · cases h
      · rename_i v hg
        split at h
        · rename_i hany
          obtain ⟨h1, h2, h3⟩ := readObs_spec fes out r h hv hn
          refine ⟨h1, h2, fun x => ?_⟩
          rw [h3 x]
          have hmem : fe ∈ out.map (·.1) := by
            rw [List.any_eq_true] at hany
            obtain ⟨p, hp, hpe⟩ := hany
            exact List.mem_map.2 ⟨p, hp, beq_iff_eq.1 hpe⟩
          constructor
          · rintro (h | h)
            · exact Or.inl h
            · exact Or.inr (List.mem_cons_of_mem _ h)
          · rintro (h | h)
            · exact Or.inl h
            · rcases List.mem_cons.1 h with rfl | h
              · exact Or.inl hmem
              · exact Or.inr h
        · rename_i hany
          have hnot : fe ∉ out.map (·.1) := by
            intro hm
            apply hany
            rw [List.any_eq_true]
            obtain ⟨p, hp, hpe⟩ := List.mem_map.1 hm
            exact ⟨p, hp, by simpa using hpe⟩
          obtain ⟨h1, h2, h3⟩ := readObs_spec fes (out ++ [(fe, v)]) r h
            (by
              intro p hp
              rcases List.mem_append.1 hp with hp | hp
              · exact hv p hp
              · simp at hp; subst hp; exact ⟨k, hk, hg⟩)
            (by
              rw [List.map_append, List.nodup_append]
              refine ⟨hn, by simp, ?_⟩
              intro a ha b hb
              simp at hb; subst hb
              intro heq; subst heq
              exact hnot ha)
          refine ⟨h1, h2, fun x => ?_⟩
          rw [h3 x]
          simp only [List.map_append, List.mem_append, List.map_cons, List.map_nil, List.mem_cons, List.not_mem_nil, or_false]
          constructor
          · rintro ((h | h) | h)
            · exact Or.inl h
            · exact Or.inr (Or.inl h)
            · exact Or.inr (Or.inr h)
          · rintro (h | h | h)
            · exact Or.inl (Or.inl h)
            · exact Or.inl (Or.inr h)
            · exact Or.inr h

/-! ### histories -/

theorem run_spec : ∀ (steps : List (String × List String)) (E : Env),
    (E.run steps).st = simRun E.W E.st steps ∧ (E.run steps).W = E.W ∧ (E.run steps).sensing = E.sensing
  | [], E => ⟨rfl, rfl, rfl⟩
  | (n, args) :: rest, E => by
    unfold Env.run simRun
    cases ha : E.W.P.action? n with
    | none =>
      rw [apply_none ha]
      exact run_spec rest E
    | some a =>
      cases hs : Sim.apply E.W E.st a args with
      | error e =>
        rw [apply_raised ha hs]
        simp only [hs]
        exact run_spec rest E
      | ok r =>
        cases r with
        | none =>
          rw [apply_refused ha hs]
          simp only [hs]
          exact run_spec rest E
        | some s' =>
          rw [apply_done ha hs]
          simp only [hs]
          exact run_spec rest { E with st := s' }

end UPVerif.ExecEnv
