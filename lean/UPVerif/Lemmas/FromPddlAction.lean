import UPVerif.Lemmas.FromPddlEffFinal
/-!
C21: whole actions.  `readAction` (first reader) and `convAction ∘ astAction` (external parser + converter) on one
`(:action …)` form yield actions with the same name and parameters, equivalent preconditions and — up to order — pairwise
equivalent effects; the cost the converter extracts is the `increase` of `total-cost` the first reader keeps as an effect.
-/
namespace UPVerif.FromPddl
open UPVerif UPVerif.Expr UPVerif.Pddl

/-! ### the two loops -/

section
variable {E : REnv} {CE : CEnv} {ps : List (String × Ty)} {hc : Bool} {tc : Expr}
  (ag : EnvAgree E CE ps) (nm : NamesOK E) (C : PCtx) (ca : CostAgree E hc tc)
include ag nm ca

/-- `_add_effect` of the first reader vs `_convert_effects` of the converter on one `:effect` -/
theorem effects_agree (t : Sexp) (φ : Form) (es out : List Effect) (cost : Option Expr)
    (hU : readEffects E t = some es) (hA : astEffect C t = some φ)
    (hQ : convEffects CE hc ps φ = some (out, cost)) (hok : effOK E.fluents C t = true) :
    EffsRel es (out ++ cost.toList.map (costEff tc)) := by
  unfold readEffects at hU
  obtain ⟨rs, hy, hp⟩ := uloop_yields E _ _ es hU
  obtain ⟨r1, r2, hU1, hnil, rfl⟩ := hy.cons_inv
  rw [hnil.nil_inv, List.append_nil] at hp
  unfold convEffects at hQ
  obtain ⟨ys, hys, hpa⟩ := aloop_yields CE hc ps tc _ _ none out cost hQ
  obtain ⟨r1', r2', hQ1, hnil', rfl⟩ := hys.cons_inv
  rw [hnil'.nil_inv] at hpa
  simp only [Option.toList_none, List.map_nil, List.append_nil] at hpa
  have := eff_agree ag nm C ca t Expr.tt [] r1 φ Expr.tt r1' hU1 (Or.inl hA) hQ1 (GdRel.refl rfl) hok
  exact (this.perm_left hp).perm_right hpa

end

/-! ### parameters -/

theorem convParams_append (tab : TypeTab) : ∀ (l1 l2 : List TVar) (r : List (String × Ty)),
    convParams tab (l1 ++ l2) = some r ↔
      ∃ r1 r2, convParams tab l1 = some r1 ∧ convParams tab l2 = some r2 ∧ r = r1 ++ r2
  | [], l2, r => by simp [convParams]
  | v :: l1, l2, r => by
    simp only [List.cons_append, convParams, Option.bind_eq_bind, Option.bind_eq_some_iff, Option.some.injEq]
    constructor
    · rintro ⟨x, hx, xs, hxs, rfl⟩
      obtain ⟨r1, r2, h1, h2, rfl⟩ := (convParams_append tab l1 l2 xs).1 hxs
      exact ⟨(v.name, x) :: r1, r2, ⟨x, hx, r1, h1, rfl⟩, h2, rfl⟩
    · rintro ⟨r1, r2, ⟨x, hx, xs, hxs, rfl⟩, h2, rfl⟩
      exact ⟨x, hx, xs ++ r2, (convParams_append tab l1 l2 _).2 ⟨xs, r2, hxs, h2, rfl⟩, rfl⟩

theorem convParams_group (tab : TypeTab) (hid : ∀ t n, (tab.lookup t).join = some n → n = t) (t : String) :
    ∀ (ns : List String) (r : List (String × Ty)),
    convParams tab (ns.map (fun n => ({ name := n, tags := [t] } : TVar))) = some r →
    r = ns.map (fun n => (n, Ty.user t))
  | [], r, h => by simp [convParams] at h; cases h; rfl
  | n :: ns, r, h => by
    simp only [List.map_cons, convParams, Option.bind_eq_bind, Option.bind_eq_some_iff, Option.some.injEq] at h
    obtain ⟨x, hx, xs, hxs, rfl⟩ := h
    rw [convParams_group tab hid t ns xs hxs]
    unfold variableType at hx
    simp only [Option.map_eq_some_iff] at hx
    obtain ⟨m, hm, rfl⟩ := hx
    rw [hid t m hm]
    rfl

/-- `_get_params` of the first reader vs the converter's `OrderedDict` of parameters -/
theorem params_agree_groups (E : REnv) (tab : TypeTab) (hid : ∀ t n, (tab.lookup t).join = some n → n = t) :
    ∀ (gs : List (List String × Option String)) (P P' : List (String × Ty)), readParams E gs = some P →
    convParams tab (gs.flatMap (fun g => g.1.map (fun n => ({ name := n, tags := g.2.toList } : TVar)))) = some P' →
    P = P'
  | [], P, P', hU, hQ => by
    rw [readParams] at hU
    simp [convParams] at hQ
    rw [← Option.some.inj hU, hQ]
  | (ns, t) :: gs, P, P', hU, hQ => by
    rw [readParams] at hU
    simp only [Option.bind_eq_bind, Option.bind_eq_some_iff, Option.some.injEq] at hU
    obtain ⟨ty, hty, rest, hrest, rfl⟩ := hU
    rw [List.flatMap_cons, convParams_append] at hQ
    obtain ⟨r1, r2, h1, h2, rfl⟩ := hQ
    rw [params_agree_groups E tab hid gs rest r2 hrest h2]
    congr 1
    cases t with
    | some tn =>
      have htyu : ty = .user tn := by
        unfold REnv.tyOf at hty
        simp only [Option.getD_some] at hty
        split at hty
        · exact (Option.some.inj hty).symm
        · cases hty
      rw [htyu]
      exact (convParams_group tab hid tn ns r1 h1).symm
    | none =>
      cases ns with
      | nil =>
        simp [convParams] at h1
        rw [h1]; rfl
      | cons n ns =>
        simp [convParams, variableType] at h1

theorem params_agree (E : REnv) (tab : TypeTab) (hid : ∀ t n, (tab.lookup t).join = some n → n = t) (pl : List Sexp)
    (gs : List (List String × Option String)) (P : List (String × Ty)) (tvs : List TVar) (P' : List (String × Ty))
    (hg : typedList true pl = some gs) (hU : readParams E gs = some P) (hA : astVars pl = some tvs)
    (hQ : convParams tab tvs = some P') : P = P' := by
  unfold astVars at hA
  rw [hg] at hA
  simp only [Option.map_some, Option.some.injEq] at hA
  subst hA
  exact params_agree_groups E tab hid gs P P' hU hQ

/-! ### actions -/

/-- what relates the two readers' versions of one action; `cost` = the cost the converter moved out of the effects -/
structure ActRel (tc : Expr) (a a' : Action) (cost : Option Expr) : Prop where
  name : a.name = a'.name
  params : a.params = a'.params
  pre : GdRel (mkAnd a.pre) (mkAnd a'.pre)
  effs : EffsRel a.effs (a'.effs ++ cost.toList.map (costEff tc))

theorem mkAnd_preList (e : Expr) : mkAnd (preList e) = e := by
  unfold preList
  split
  · rename_i h
    cases e with
    | leaf l =>
      cases l with
      | boolC b => cases b <;> simp [Expr.isTrue] at h ⊢; rfl
      | intC _ => simp [Expr.isTrue] at h
      | realC _ => simp [Expr.isTrue] at h
      | obj _ _ => simp [Expr.isTrue] at h
      | param _ _ => simp [Expr.isTrue] at h
      | var _ => simp [Expr.isTrue] at h
      | timing _ => simp [Expr.isTrue] at h
      | present _ => simp [Expr.isTrue] at h
    | app _ _ => simp [Expr.isTrue] at h
    | quant _ _ _ => simp [Expr.isTrue] at h
  · rfl

/-- side conditions on an action form: the precondition is not `()` (finding D-C21b), `gdOK` / `effOK` below -/
def actionOK (fl : List FluentRef) (C : PCtx) : Sexp → Bool
  | .list [.atom ":action", .atom _, .atom ":parameters", .list _, .atom ":precondition", p, .atom ":effect", e] =>
    (match p with
      | .list [] => false
      | _ => true) && gdOK fl C p && effOK fl C e
  | _ => true

section
variable {E : REnv} {CE : CEnv} {hc : Bool} {tc : Expr} (C : PCtx)

/-- **actions**: `readAction` vs `convAction ∘ astAction` -/
theorem action_agree (nm : NamesOK E) (ca : CostAgree E hc tc)
    (hfl : ∀ n f, CE.fluent? n = some f → E.fluent? n = some f) (hobj : ∀ s, E.objects.lookup s = CE.objects.lookup s ∨ E.objects.lookup s = none)
    (hof : ∀ s t, CE.objects.lookup s = some t → E.fluent? s = none)
    (hid : ∀ t n, (CE.types.lookup t).join = some n → n = t)
    (t : Sexp) (a : Action) (pa : PAction) (a' : Action) (cost : Option Expr)
    (hU : readAction E t = some a) (hA : astAction C t = some pa) (hQ : convAction CE hc pa = some (a', cost))
    (hok : actionOK E.fluents C t = true) : ActRel tc a a' cost := by
  unfold astAction at hA
  split at hA
  · rename_i name pl p e
    simp only [Option.bind_eq_bind, Option.bind_eq_some_iff, Option.some.injEq] at hA
    obtain ⟨tvs, htvs, preF, hpreF, effF, heffF, rfl⟩ := hA
    unfold actionOK at hok
    simp only [Bool.and_eq_true] at hok
    obtain ⟨⟨hnp, hokp⟩, hoke⟩ := hok
    -- the converter
    unfold convAction at hQ
    simp only [Option.bind_eq_bind, Option.bind_eq_some_iff, Option.some.injEq, Prod.mk.injEq] at hQ
    obtain ⟨P', hP', preF', hpf, pre', hpre', effF', hef, ⟨effs', cost'⟩, heffs', rfl, rfl⟩ := hQ
    cases hpf
    cases hef
    -- the first reader
    unfold readAction at hU
    simp only [Option.bind_eq_bind, Option.bind_eq_some_iff, Option.some.injEq] at hU
    obtain ⟨gs, hgs, P, hP, ⟨preS, effS⟩, hbody, preU, hpreU, effsU, heffsU, rfl⟩ := hU
    have hb : preS = some p ∧ effS = some e := by
      unfold actionBody at hbody
      simp only [Option.some.injEq, Prod.mk.injEq] at hbody
      exact ⟨hbody.1.symm, hbody.2.symm⟩
    obtain ⟨rfl, rfl⟩ := hb
    have hPP := params_agree E CE.types hid pl gs P tvs P' hgs hP htvs hP'
    subst hPP
    have ag : EnvAgree { E with params := some P } CE P := ⟨hfl, hobj, hof, rfl, hid⟩
    have nm' : NamesOK { E with params := some P } := ⟨nm.num_fluent, nm.num_object, nm.obj_fluent⟩
    have ca' : CostAgree { E with params := some P } hc tc := ⟨ca.cost⟩
    -- precondition
    cases p with
    | atom s => simp at hpreU
    | list pxs =>
      simp only [Option.map_eq_some_iff] at hpreU
      obtain ⟨pe, hpe, rfl⟩ := hpreU
      have hpne : pxs ≠ [] := by
        intro hnil; subst hnil; simp at hnp
      have hgd : astGd C (.list pxs) = some preF := by
        unfold astPre at hpreF
        split at hpreF
        · rename_i heq
          simp only [Sexp.list.injEq] at heq
          exact absurd heq hpne
        · exact hpreF
      have hrel := gd_agree ag nm' C (.list pxs) [] [] pe preF pre' (scope_refl []) hpe hgd hpre' hokp
      -- effects
      cases e with
      | atom s => simp at heffsU
      | list exs =>
        simp only at heffsU
        have hne : exs ≠ [] := by
          intro hnil
          subst hnil
          unfold astEff at heffF
          simp only [Option.some.injEq] at heffF
          subst heffF
          unfold convEffects effLoop at heffs'
          simp [effStep] at heffs'
        have hae : astEffect C (.list exs) = some effF := by
          unfold astEff at heffF
          split at heffF
          · rename_i heq
            simp only [Sexp.list.injEq] at heq
            exact absurd heq hne
          · exact heffF
        have hE := effects_agree ag nm' C ca' (.list exs) effF effsU effs' cost' heffsU hae heffs' hoke
        exact ⟨rfl, rfl, by simpa [mkAnd_preList] using hrel, hE⟩
  · cases hA

end

end UPVerif.FromPddl
