import UPVerif.Lemmas.ValidateLoop
/-!
Helper lemmas for `Props/C03.lean`, part 3: `validate` as a whole.
-/
namespace UPVerif.Validate
open UPVerif UPVerif.Sim UPVerif.Spec UPVerif.Expr

/-- `validate` once the metric and the initial state are known -/
theorem validate_unfold (v : Variant) {W : World} (π : List Inst) {m : Option Metric} {s₀ : SimState}
    (hm : theMetric W.P = .ok m) (h0 : getInitialState W = .ok (some s₀)) :
    validate v W π = (match loop W m s₀ 0 1 π with
      | .error x => .error x
      | .ok (.failed w i) => .ok (.invalid w i)
      | .ok (.done s acc) => finish v W m s acc π.getLast?) := by
  unfold validate
  rw [hm, h0]
  rfl

theorem stepAmount_none {W : World} {m : Option Metric} {ai : Inst} {s : SimState}
    (h : stepAmount W m ai s = none) : ∃ c d, m = some (.minActionCosts c d) ∧ costOf W c d ai s = none := by
  unfold stepAmount at h
  split at h
  · exact ⟨_, _, rfl, h⟩
  · cases h
  · cases h

/-! ### the final phase, classified -/

theorem reported_perStep {W : World} {mt : Metric} (hp : perStep mt = true) {π : List Inst} {pres : List SimState}
    {r : Rat} (sf : SimState) (hl : pres.length = π.length) (hacc : accSpec W (some mt) π pres = some r) :
    reported W (some mt) π pres sf = some (some r) := by
  simp only [reported, ← accSpec_perStep hp π pres sf hl, hacc, Option.map_some]

/-- every way the final phase of the repaired code can end -/
theorem finish_spec {W : World} {m : Option Metric} {sf : SimState} {acc : Rat} {last : Option Inst} {r : VResult}
    {π : List Inst} {pres : List SimState} (hl : pres.length = π.length) (hacc : accSpec W m π pres = some acc)
    (h : finish .repaired W m sf acc last = .ok r) :
    (∃ mv, r = .valid mv ∧ Spec.isGoal W sf = true ∧ reported W m π pres sf = some mv) ∨
    (∃ w, r = .invalid w 0 ∧ w.reason = .unsatisfiedGoals ∧
      (Spec.isGoal W sf = false ∨ (Spec.isGoal W sf = true ∧ reported W m π pres sf = none))) := by
  unfold finish at h
  cases hg : unsatisfiedGoals W sf false with
  | error x =>
    rw [hg] at h
    have hng : Spec.isGoal W sf = false := by
      cases hb : Spec.isGoal W sf with
      | false => rfl
      | true => rw [← goals_ok_iff, hg] at hb; cases hb
    cases x with
    | missing =>
      simp only [Except.ok.injEq] at h
      exact .inr ⟨.finalMissing, h.symm, rfl, .inl hng⟩
    | zeroDiv => cases h
    | other => cases h
  | ok l =>
    rw [hg] at h
    cases l with
    | cons a l' =>
      have hng : Spec.isGoal W sf = false := by
        cases hb : Spec.isGoal W sf with
        | false => rfl
        | true => rw [← goals_ok_iff, hg] at hb; cases hb
      simp only [Except.ok.injEq] at h
      exact .inr ⟨.goals, h.symm, rfl, .inl hng⟩
    | nil =>
      have hgoal : Spec.isGoal W sf = true := goals_ok_iff.1 hg
      dsimp only at h
      cases m with
      | none =>
        simp only [Except.ok.injEq] at h
        exact .inl ⟨none, h.symm, hgoal, rfl⟩
      | some mt =>
        dsimp only at h
        cases hp : perStep mt with
        | true =>
          simp only [hp, if_true, Except.ok.injEq] at h
          exact .inl ⟨some acc, h.symm, hgoal, reported_perStep hp sf hl hacc⟩
        | false =>
          simp only [hp, Bool.false_eq_true, if_false, reduceCtorEq, false_and] at h
          cases hf : finalMetric W mt sf with
          | ok q =>
            rw [hf] at h
            simp only [Except.ok.injEq] at h
            refine .inl ⟨some q, h.symm, hgoal, ?_⟩
            simp only [reported, finalMetric_ok hp hf π pres, Option.map_some]
          | error x =>
            rw [hf] at h
            cases x with
            | missing =>
              simp only [Except.ok.injEq] at h
              refine .inr ⟨.finalMissing, h.symm, rfl, .inr ⟨hgoal, ?_⟩⟩
              simp only [reported, finalMetric_missing hp hf π pres, Option.map_none]
            | zeroDiv => cases h
            | other => cases h

/-! ### the whole validation, classified -/

/-- every way the repaired validator can return: VALID with the defined value, INVALID at the first
    step that has no documented successor (or whose cost is undefined), INVALID for the goals -/
theorem validate_spec {W : World} {π : List Inst} {m : Option Metric} {s₀ : SimState} {r : VResult}
    (hm : theMetric W.P = .ok m) (h0 : getInitialState W = .ok (some s₀))
    (h : validate .repaired W π = .ok r) :
    (∃ mv pres sf, r = .valid mv ∧ Exec W s₀ π pres sf ∧ Spec.isGoal W sf = true ∧
        reported W m π pres sf = some mv) ∨
    (∃ w π₁ ai π₂ pres sk, r = .invalid w (π₁.length + 1) ∧ w.reason = .inapplicableAction ∧
        π = π₁ ++ ai :: π₂ ∧ Exec W s₀ π₁ pres sk ∧
        (Stuck W sk ai ∨ ((∃ s', StepOK W sk ai s') ∧
          ∃ c d, m = some (.minActionCosts c d) ∧ costOf W c d ai sk = none))) ∨
    (∃ w pres sf, r = .invalid w 0 ∧ w.reason = .unsatisfiedGoals ∧ Exec W s₀ π pres sf ∧
        (Spec.isGoal W sf = false ∨ (Spec.isGoal W sf = true ∧ reported W m π pres sf = none))) := by
  rw [validate_unfold .repaired π hm h0] at h
  cases hl : loop W m s₀ 0 1 π with
  | error x => rw [hl] at h; cases h
  | ok lo =>
    rw [hl] at h
    cases lo with
    | failed w j =>
      simp only [Except.ok.injEq] at h
      obtain ⟨π₁, ai, π₂, pres, sk, e1, e2, hex, hst⟩ := loop_failed hl
      refine .inr (.inl ⟨w, π₁, ai, π₂, pres, sk, ?_, loop_failed_why hl, e1, hex, ?_⟩)
      · rw [← h, e2, Nat.add_comm]
      · rcases hst with hst | ⟨hs1, hs2⟩
        · exact .inl hst
        · exact .inr ⟨hs1, stepAmount_none hs2⟩
    | done sf acc =>
      dsimp only at h
      obtain ⟨pres, racc, hex, hacc, hf⟩ := loop_done hl
      rw [Rat.zero_add] at hf
      subst hf
      rcases finish_spec (exec_length hex) hacc h with ⟨mv, e, hg, hr⟩ | ⟨w, e, hw, hd⟩
      · exact .inl ⟨mv, pres, sf, e, hex, hg, hr⟩
      · exact .inr (.inr ⟨w, pres, sf, e, hw, hex, hd⟩)

/-- completeness: a plan that is executable, reaches the goals and has a defined metric value is
    answered VALID with that value (whenever the validator returns) -/
theorem validate_complete {W : World} {π : List Inst} {m : Option Metric} {s₀ : SimState} {r : VResult}
    (hm : theMetric W.P = .ok m) (h0 : getInitialState W = .ok (some s₀))
    (h : validate .repaired W π = .ok r) {pres : List SimState} {sf : SimState} {mv : Option Rat}
    (hex : Exec W s₀ π pres sf) (hg : Spec.isGoal W sf = true) (hr : reported W m π pres sf = some mv) :
    r = .valid mv := by
  rcases validate_spec hm h0 h with ⟨mv', pres', sf', e, hex', hg', hr'⟩ |
      ⟨w, π₁, ai, π₂, pres₁, sk, e, _, eπ, hex₁, hst⟩ | ⟨w, pres', sf', e, _, hex', hd⟩
  · obtain ⟨hsame, hfin⟩ := exec_det rfl hex hex'
    rw [reported_congr m π hsame hfin, hr'] at hr
    rw [e, Option.some.inj hr]
  · exfalso
    subst eπ
    rcases hst with hst | ⟨_, c, d, em, hc⟩
    · exact exec_prefix_not_stuck rfl hex hex₁ hst
    · obtain ⟨sk', hk, hread⟩ := exec_prefix_state rfl hex hex₁
      rw [← costOf_congr hread] at hc
      have := costSum_none_of_step c d π₁ ai π₂ pres sk' (exec_length hex) hk hc
      subst em
      simp [reported, metricValue, this] at hr
  · exfalso
    obtain ⟨hsame, hfin⟩ := exec_det rfl hex hex'
    rcases hd with hd | ⟨_, hd⟩
    · rw [isGoal_congr hfin, hd] at hg; cases hg
    · rw [reported_congr m π hsame hfin, hd] at hr; cases hr

theorem exec_nil_inv {W : World} {s sf : SimState} {pres : List SimState} (h : Exec W s [] pres sf) :
    pres = [] ∧ sf = s := by
  cases h; exact ⟨rfl, rfl⟩

/-- with the metric and the initial state fixed, the answer is VALID or INVALID -/
theorem validate_shape {W : World} {π : List Inst} {m : Option Metric} {s₀ : SimState} {r : VResult}
    (hm : theMetric W.P = .ok m) (h0 : getInitialState W = .ok (some s₀))
    (h : validate .repaired W π = .ok r) : (∃ mv, r = .valid mv) ∨ (∃ w j, r = .invalid w j ∧ j ≤ π.length ∧
      (w.reason = .inapplicableAction ↔ 1 ≤ j)) := by
  rcases validate_spec hm h0 h with ⟨mv, _, _, e, _⟩ | ⟨w, π₁, ai, π₂, _, _, e, hw, eπ, _⟩ | ⟨w, _, _, e, hw, _⟩
  · exact .inl ⟨mv, e⟩
  · refine .inr ⟨w, _, e, ?_, ?_⟩
    · subst eπ; simp only [List.length_append, List.length_cons]; omega
    · simp [hw]
  · refine .inr ⟨w, 0, e, Nat.zero_le _, ?_⟩
    simp [hw]

/-! ### outcomes that never happen -/

theorem finish_repaired_ne_crash {W : World} {m : Option Metric} {sf : SimState} {acc : Rat} {last : Option Inst} :
    finish .repaired W m sf acc last ≠ .ok .crash := by
  intro h
  unfold finish at h
  split at h
  · cases h
  · cases h
  · cases h
  · split at h
    · cases h
    · split at h
      · cases h
      · split at h
        · rename_i hc; exact absurd hc.1 (by decide)
        · split at h <;> cases h

theorem validate_repaired_ne_crash (W : World) (π : List Inst) : validate .repaired W π ≠ .ok .crash := by
  intro h
  unfold validate at h
  split at h
  · cases h
  · split at h
    · cases h
    · cases h
    · split at h
      · cases h
      · cases h
      · exact finish_repaired_ne_crash h

/-- the two variants differ only through the unbound loop variable -/
theorem finish_asFound_eq {W : World} {m : Option Metric} {sf : SimState} {acc : Rat} {last : Option Inst}
    (hl : last ≠ none) : finish .asFound W m sf acc last = finish .repaired W m sf acc last := by
  unfold finish
  simp [hl]

theorem validate_asFound_eq {W : World} {π : List Inst} (hπ : π ≠ []) :
    validate .asFound W π = validate .repaired W π := by
  unfold validate
  have hl : π.getLast? ≠ none := by
    cases π with
    | nil => exact absurd rfl hπ
    | cons a l => simp [List.getLast?]
  split
  · rfl
  · split
    · rfl
    · rfl
    · split
      · rfl
      · rfl
      · exact finish_asFound_eq hl

/-! ### a fluent without value never escapes as an exception -/

theorem groundEffects_error {W : World} {σ : Subst} : ∀ {es : List Effect} {acc : StaticAcc} {out : List Effect} {x : EvalErr},
    groundEffects W σ es acc out = .error x → x = .other
  | [], _, _, _, h => by simp [groundEffects] at h
  | e :: es, acc, out, x, h => by
    simp only [groundEffects] at h
    cases hc : createEffect W σ e with
    | error y =>
      rw [hc] at h
      simp only [Except.error.injEq] at h
      subst h
      unfold createEffect at hc
      dsimp only at hc
      split at hc
      · cases hc
      · split at hc
        · cases hc
        · simp only [Except.error.injEq] at hc; exact hc.symm
    | ok oe =>
      rw [hc] at h
      cases oe with
      | none => exact groundEffects_error h
      | some e' =>
        dsimp only at h
        cases hs : staticStep acc e' with
        | none => rw [hs] at h; cases h
        | some acc' => rw [hs] at h; exact groundEffects_error h

theorem ground_error {W : World} {a : Action} {args : List String} {x : EvalErr}
    (h : groundT W a args = .error x) : x = .other := by
  unfold groundT at h
  dsimp only at h
  cases hg : groundEffects W (paramSubstT W.P a args) a.effs ⟨[], []⟩ [] with
  | error y =>
    rw [hg] at h
    simp only [Except.error.injEq] at h
    subst h
    exact groundEffects_error hg
  | ok oe =>
    rw [hg] at h
    cases oe with
    | none => cases h
    | some effs =>
      dsimp only at h
      split at h <;> cases h

theorem simStep_ne_missing {W : World} {s : SimState} {ai : Inst} : simStep W s ai ≠ .error .missing := by
  intro h
  unfold simStep at h
  split at h
  · cases h
  · split at h
    · rename_i x hg
      simp only [Except.error.injEq] at h
      subst h
      cases ground_error hg
    · cases h
    · split at h
      · cases h
      · rename_i x hx _
        simp only [Except.error.injEq] at h
        subst h
        exact hx rfl
      · cases h
      · cases ha : applyUnsafe W s _ with
        | ok s' => rw [ha] at h; cases h
        | error f =>
          rw [ha] at h
          cases f with
          | conflict => cases h
          | invalid => cases h
          | eval e => cases e <;> cases h

theorem metricStep_ne_missing {W : World} {m : Option Metric} {s : SimState} {acc : Rat} {ai : Inst} :
    metricStep W m s acc ai ≠ .error .missing := by
  intro h
  unfold metricStep at h
  split at h
  · unfold costStep at h
    split at h
    · cases h
    · split at h
      · cases h
      · cases he : eval (ctx W s) [] (substE (paramSubstT W.P ai.1 ai.2) _) with
        | error e => rw [he] at h; cases e <;> cases h
        | ok v => rw [he] at h; cases v <;> cases h
  · cases h
  · cases h

theorem loop_ne_missing {W : World} {m : Option Metric} : ∀ {π : List Inst} {s : SimState} {acc : Rat} {i : Nat},
    loop W m s acc i π ≠ .error .missing
  | [], _, _, _ => by simp [loop]
  | ai :: π, s, acc, i => by
    intro h
    simp only [loop] at h
    cases hs : step W m s acc ai with
    | error x =>
      rw [hs] at h
      simp only [Except.error.injEq] at h
      subst h
      unfold step at hs
      cases h1 : simStep W s ai with
      | error y =>
        rw [h1] at hs
        simp only [Except.error.injEq] at hs
        subst hs
        exact simStep_ne_missing h1
      | ok o =>
        rw [h1] at hs
        cases o with
        | stop w => cases hs
        | go s' =>
          dsimp only at hs
          cases h2 : metricStep W m s acc ai with
          | error y =>
            rw [h2] at hs
            simp only [Except.error.injEq] at hs
            subst hs
            exact metricStep_ne_missing h2
          | ok o2 => rw [h2] at hs; cases o2 <;> cases hs
    | ok o =>
      rw [hs] at h
      cases o with
      | stop w => cases h
      | go p => exact loop_ne_missing h

theorem finish_ne_missing {v : Variant} {W : World} {m : Option Metric} {sf : SimState} {acc : Rat} {last : Option Inst} :
    finish v W m sf acc last ≠ .error .missing := by
  intro h
  unfold finish at h
  split at h
  · cases h
  · rename_i x hx _
    simp only [Except.error.injEq] at h
    subst h
    exact hx rfl
  · cases h
  · split at h
    · cases h
    · split at h
      · cases h
      · split at h
        · cases h
        · split at h
          · cases h
          · rename_i x hx _
            simp only [Except.error.injEq] at h
            subst h
            exact hx rfl
          · cases h

theorem getInitialState_go_ne_missing {W : World} {s₀ : SimState} : ∀ (l : List Expr),
    getInitialState.go W s₀ l ≠ .error .missing
  | [] => by simp [getInitialState.go]
  | si :: sis => by
    intro h
    simp only [getInitialState.go] at h
    split at h
    · cases h
    · rename_i x hx _
      simp only [Except.error.injEq] at h
      subst h
      exact hx rfl
    · cases h
    · exact getInitialState_go_ne_missing sis h

theorem validate_ne_missing (v : Variant) (W : World) (π : List Inst) : validate v W π ≠ .error .missing := by
  intro h
  unfold validate at h
  split at h
  · cases h
  · split at h
    · rename_i x hx
      simp only [Except.error.injEq] at h
      subst h
      unfold getInitialState at hx
      split at hx
      · cases hx
      · exact getInitialState_go_ne_missing _ hx
    · cases h
    · split at h
      · rename_i x hx
        simp only [Except.error.injEq] at h
        subst h
        exact loop_ne_missing hx
      · cases h
      · exact finish_ne_missing h

end UPVerif.Validate
