import UPVerif.Core.TT
import UPVerif.Spec.Temporal
/-!
Helper lemmas for `Props/C05.lean` and `Props/C04.lean`: `_states_in_interval` yields exactly the
trace states that are in force at some time point of the (possibly open) interval, where the state
in force AT a time point is the one recorded under the greatest key strictly below it (a condition
at an instant reads the state before the effects of that instant).
-/
namespace UPVerif.TT
open UPVerif UPVerif.Sim UPVerif.Spec.Temporal

/-- the times under which the trace records a state -/
def Trace.keys (tr : Trace) : List Rat := tr.map (·.1)

/-- `t` is the greatest recorded time strictly below `p` -/
def IsPred (ks : List Rat) (t p : Rat) : Prop := t ∈ ks ∧ t < p ∧ ∀ x ∈ ks, x < p → x ≤ t

/-- the interval contains a time point: `s < e`, or `s = e` with both ends closed -/
def Proper (s : Rat) (e : Option Rat) (lopen ropen : Bool) : Prop :=
  match e with
  | none => True
  | some e => s < e ∨ (s = e ∧ lopen = false ∧ ropen = false)

theorem scanTimes_spec (s : Rat) : ∀ (ks : List Rat) (b e : Rat),
    (b ≤ (scanTimes s ks (b, e)).1 ∧
      ((scanTimes s ks (b, e)).1 = b ∨ ((scanTimes s ks (b, e)).1 ∈ ks ∧ (scanTimes s ks (b, e)).1 < s)) ∧
      ∀ x ∈ ks, x < s → x ≤ (scanTimes s ks (b, e)).1) ∧
    (e ≤ (scanTimes s ks (b, e)).2 ∧
      ((scanTimes s ks (b, e)).2 = e ∨ ((scanTimes s ks (b, e)).2 ∈ ks ∧ (scanTimes s ks (b, e)).2 ≤ s)) ∧
      ∀ x ∈ ks, x ≤ s → x ≤ (scanTimes s ks (b, e)).2)
  | [], b, e => by simp [scanTimes]
  | x :: xs, b, e => by
    simp only [scanTimes]
    generalize hb' : (if x < s ∧ x > b then x else b) = b'
    generalize he' : (if x ≤ s ∧ x > e then x else e) = e'
    have hb1 : b ≤ b' ∧ (b' = b ∨ (b' = x ∧ x < s)) ∧ (x < s → x ≤ b') := by
      subst hb'; split <;> grind
    have he1 : e ≤ e' ∧ (e' = e ∨ (e' = x ∧ x ≤ s)) ∧ (x ≤ s → x ≤ e') := by
      subst he'; split <;> grind
    obtain ⟨⟨h1, h2, h3⟩, ⟨g1, g2, g3⟩⟩ := scanTimes_spec s xs b' e'
    refine ⟨⟨by grind, ?_, ?_⟩, ⟨by grind, ?_, ?_⟩⟩
    · rcases h2 with h2 | h2
      · rcases hb1.2.1 with hb | hb
        · left; rw [h2, hb]
        · right; rw [h2, hb.1]; exact ⟨by simp, hb.2⟩
      · right; exact ⟨List.mem_cons_of_mem _ h2.1, h2.2⟩
    · intro y hy hys
      simp only [List.mem_cons] at hy
      rcases hy with rfl | hy
      · have := hb1.2.2 hys; grind
      · exact h3 y hy hys
    · rcases g2 with g2 | g2
      · rcases he1.2.1 with hb | hb
        · left; rw [g2, hb]
        · right; rw [g2, hb.1]; exact ⟨by simp, hb.2⟩
      · right; exact ⟨List.mem_cons_of_mem _ g2.1, g2.2⟩
    · intro y hy hys
      simp only [List.mem_cons] at hy
      rcases hy with rfl | hy
      · have := he1.2.2 hys; grind
      · exact g3 y hy hys

/-- with the key `-1` recorded and `-1 < s`, `before_time` is the greatest key below `s` and
    `equal_time` the greatest key not above `s` -/
theorem scanTimes_pred {s : Rat} {ks : List Rat} (h1 : (-1 : Rat) ∈ ks) (hs : (-1 : Rat) < s) :
    IsPred ks (scanTimes s ks (-1, -1)).1 s ∧
    ((scanTimes s ks (-1, -1)).2 ∈ ks ∧ (scanTimes s ks (-1, -1)).2 ≤ s ∧
      ∀ x ∈ ks, x ≤ s → x ≤ (scanTimes s ks (-1, -1)).2) := by
  obtain ⟨⟨a1, a2, a3⟩, ⟨b1, b2, b3⟩⟩ := scanTimes_spec s ks (-1) (-1)
  refine ⟨⟨?_, ?_, a3⟩, ?_, ?_, b3⟩
  · rcases a2 with a2 | a2
    · rw [a2]; exact h1
    · exact a2.1
  · rcases a2 with a2 | a2
    · rw [a2]; exact hs
    · exact a2.2
  · rcases b2 with b2 | b2
    · rw [b2]; exact h1
    · exact b2.1
  · rcases b2 with b2 | b2
    · rw [b2]; grind
    · exact b2.2

/-- `equal_time == before_time` iff nothing is recorded at `start` itself -/
theorem scan_equal_iff {s : Rat} {ks : List Rat} (h1 : (-1 : Rat) ∈ ks) (hs : (-1 : Rat) < s) :
    ((scanTimes s ks (-1, -1)).2 = (scanTimes s ks (-1, -1)).1 ↔ s ∉ ks) ∧
    (s ∈ ks → (scanTimes s ks (-1, -1)).2 = s) := by
  obtain ⟨⟨p1, p2, p3⟩, q1, q2, q3⟩ := scanTimes_pred h1 hs
  constructor
  · constructor
    · intro h hin
      have := q3 s hin (by grind)
      rw [h] at this
      grind
    · intro hn
      have hlt : (scanTimes s ks (-1, -1)).2 < s := by
        by_cases h : (scanTimes s ks (-1, -1)).2 = s
        · exact absurd (h ▸ q1) hn
        · grind
      have a := p3 _ q1 hlt
      have b := q3 _ p1 (by grind)
      grind
  · intro hin
    have := q3 s hin (by grind)
    grind

/-- there is room right after `x`: a time point `p > x`, below every later key and below `e` -/
theorem exists_gap (ks : List Rat) (x : Rat) (e : Option Rat) (he : ∀ y, e = some y → x < y) :
    ∃ p, x < p ∧ (∀ k ∈ ks, x < k → p < k) ∧ (∀ y, e = some y → p < y) := by
  induction ks with
  | nil =>
    cases e with
    | none => exact ⟨x + 1, by grind, by simp, by simp⟩
    | some y =>
      have := he y rfl
      exact ⟨(x + y) / 2, by grind, by simp, by intro z hz; cases hz; grind⟩
  | cons k ks ih =>
    obtain ⟨p, hp1, hp2, hp3⟩ := ih
    by_cases hk : x < k
    · by_cases hpk : p < k
      · refine ⟨p, hp1, ?_, hp3⟩
        intro k' hk' hx
        simp only [List.mem_cons] at hk'
        rcases hk' with rfl | hk'
        · exact hpk
        · exact hp2 k' hk' hx
      · refine ⟨(x + k) / 2, by grind, ?_, ?_⟩
        · intro k' hk' hx
          simp only [List.mem_cons] at hk'
          rcases hk' with rfl | hk'
          · grind
          · have := hp2 k' hk' hx
            grind
        · intro y hy
          have := hp3 y hy
          grind
    · refine ⟨p, hp1, ?_, hp3⟩
      intro k' hk' hx
      simp at hk'
      rcases hk' with rfl | hk'
      · exact absurd hx hk
      · exact hp2 k' hk' hx

/-! ### lookups in a trace with distinct keys -/

theorem lookup_of_mem {tr : Trace} (hnd : tr.keys.Nodup) {t : Rat} {st : SimState} (h : (t, st) ∈ tr) :
    tr.lookup t = some st := by
  induction tr with
  | nil => cases h
  | cons x xs ih =>
    obtain ⟨t', st'⟩ := x
    simp only [Trace.keys, List.map_cons, List.nodup_cons] at hnd
    simp only [List.mem_cons] at h
    rcases h with h | h
    · cases h; simp [List.lookup]
    · have hne : t ≠ t' := by
        intro e; subst e
        exact hnd.1 (List.mem_map.2 ⟨(t, st), h, rfl⟩)
      simp only [List.lookup]
      have : (t == t') = false := by simpa using hne
      rw [this]
      exact ih hnd.2 h

theorem mem_of_lookup {tr : Trace} {t : Rat} {st : SimState} (h : tr.lookup t = some st) : (t, st) ∈ tr := by
  induction tr with
  | nil => simp [List.lookup] at h
  | cons x xs ih =>
    obtain ⟨t', st'⟩ := x
    simp only [List.lookup] at h
    by_cases he : t = t'
    · subst he; simp at h; subst h; simp
    · have : (t == t') = false := by simpa using he
      rw [this] at h
      exact List.mem_cons_of_mem _ (ih h)

theorem lookup_of_mem_keys {tr : Trace} {t : Rat} (h : t ∈ tr.keys) : ∃ st, tr.lookup t = some st := by
  induction tr with
  | nil => cases h
  | cons x xs ih =>
    obtain ⟨t', st'⟩ := x
    simp only [Trace.keys, List.map_cons, List.mem_cons] at h
    by_cases he : t = t'
    · subst he; exact ⟨st', by simp [List.lookup]⟩
    · have : (t == t') = false := by simpa using he
      simp only [List.lookup, this]
      rcases h with h | h
      · exact absurd h he
      · exact ih h

theorem mem_keys_of_mem {tr : Trace} {t : Rat} {st : SimState} (h : (t, st) ∈ tr) : t ∈ tr.keys :=
  List.mem_map.2 ⟨(t, st), h, rfl⟩

/-- `_states_in_interval` yields exactly the states in force at the time points of the interval -/
theorem statesInInterval_spec {tr : Trace} {s : Rat} {e : Option Rat} {lopen ropen : Bool}
    (hnd : tr.keys.Nodup) (h1 : (-1 : Rat) ∈ tr.keys) (hs : (-1 : Rat) < s) (hp : Proper s e lopen ropen) :
    ∃ L, statesInInterval tr s e lopen = some L ∧
      ∀ (φ : SimState → Prop), (∀ x ∈ L, φ x.2) ↔
        (∀ p, InInterval s e lopen ropen p → ∀ t st, IsPred tr.keys t p → tr.lookup t = some st → φ st) := by
  obtain ⟨⟨pb1, pb2, pb3⟩, q1, q2, q3⟩ := scanTimes_pred h1 hs
  obtain ⟨heq, heqs⟩ := scan_equal_iff h1 hs
  obtain ⟨sb, hsb⟩ := lookup_of_mem_keys pb1
  obtain ⟨sq, hsq⟩ := lookup_of_mem_keys q1
  unfold statesInInterval
  simp only [show tr.map (·.1) = tr.keys from rfl]
  generalize hb : (scanTimes s tr.keys (-1, -1)).1 = b at *
  generalize hq : (scanTimes s tr.keys (-1, -1)).2 = q at *
  simp only [hsb, hsq]
  refine ⟨_, rfl, ?_⟩
  intro φ
  constructor
  · intro hall p hin t st hpred hlk
    obtain ⟨hlo, hhi⟩ := hin
    have hsp : s ≤ p := by split at hlo <;> grind
    obtain ⟨ht1, ht2, ht3⟩ := hpred
    by_cases hts : t < s
    · -- the state in force at `start`
      have htb : t = b := by
        have a := pb3 t ht1 hts
        have c := ht3 b pb1 (by grind)
        grind
      subst htb
      rw [hsb] at hlk; cases hlk
      apply hall (t, sb)
      simp only [List.mem_append]
      left; left
      by_cases hl : lopen = true
      · have hsk : s ∉ tr.keys := by
          intro hin
          rw [if_pos hl] at hlo
          have := ht3 s hin hlo
          grind
        have : q = t := heq.2 hsk
        simp [this]
      · simp [hl]
    · by_cases hts2 : t = s
      · subst hts2
        have hqs : q = t := heqs ht1
        subst hqs
        rw [hsq] at hlk; cases hlk
        apply hall (q, sq)
        simp only [List.mem_append]
        left; right
        have hne : q ≠ b := by grind
        have hne2 : some q ≠ e := by
          intro he; subst he
          simp only at hhi
          split at hhi <;> grind
        simp [hne, hne2]
      · have hst : s < t := by grind
        apply hall (t, st)
        simp only [List.mem_append]
        right
        rw [List.mem_filter]
        refine ⟨mem_of_lookup hlk, ?_⟩
        unfold isInside
        cases e with
        | none => simpa using hst
        | some y =>
          simp only at hhi
          have : t < y := by split at hhi <;> grind
          simp [hst, this]
  · intro hall x hx
    simp only [List.mem_append] at hx
    have hgapE : ∀ (z : Rat), s ≤ z → (∀ y, e = some y → z < y) → ∃ p, z < p ∧ (∀ k ∈ tr.keys, z < k → p < k) ∧
        InInterval s e lopen ropen p := by
      intro z hz hze
      obtain ⟨p, g1, g2, g3⟩ := exists_gap tr.keys z e hze
      refine ⟨p, g1, g2, ?_, ?_⟩
      · split <;> grind
      · cases e with
        | none => trivial
        | some y =>
          have := g3 y rfl
          simp only
          split <;> grind
    rcases hx with (hx | hx) | hx
    · -- the state in force at `start`
      by_cases hl : lopen = true
      · have hqb : q = b := by
          by_cases hqb : q = b
          · exact hqb
          · simp [hl, hqb] at hx
        have hsk : s ∉ tr.keys := heq.1 hqb
        simp [hl, hqb] at hx
        subst hx
        have hse : ∀ y, e = some y → s < y := by
          intro y hy; subst hy
          rcases hp with hp | hp
          · exact hp
          · rw [hl] at hp; exact absurd hp.2.1 (by simp)
        obtain ⟨p, g1, g2, g3⟩ := hgapE s (by grind) hse
        refine hall p g3 b sb ⟨pb1, by grind, ?_⟩ hsb
        intro k hk hkp
        by_cases hks : k < s
        · exact pb3 k hk hks
        · have hne : k ≠ s := fun h => hsk (h ▸ hk)
          have : s < k := by grind
          have := g2 k hk this
          grind
      · have hl' : lopen = false := by simpa using hl
        simp [hl'] at hx
        subst hx
        refine hall s ⟨by simp [hl'], ?_⟩ b sb ⟨pb1, pb2, pb3⟩ hsb
        cases e with
        | none => trivial
        | some y =>
          simp only
          rcases hp with hp | hp
          · split <;> grind
          · rw [hp.2.2]; simp [hp.1]
    · -- a state recorded at `start` itself
      by_cases hc : q ≠ b ∧ some q ≠ e
      · simp [hc] at hx
        subst hx
        have hsk : s ∈ tr.keys := by
          by_cases hn : s ∈ tr.keys
          · exact hn
          · exact absurd (heq.2 hn) hc.1
        have hqs : q = s := heqs hsk
        subst hqs
        have hse : ∀ y, e = some y → q < y := by
          intro y hy; subst hy
          rcases hp with hp | hp
          · exact hp
          · exact absurd (by rw [hp.1]) hc.2
        obtain ⟨p, g1, g2, g3⟩ := hgapE q (by grind) hse
        refine hall p g3 q sq ⟨hsk, g1, ?_⟩ hsq
        intro k hk hkp
        by_cases hks : q < k
        · have := g2 k hk hks; grind
        · grind
      · simp [hc] at hx
    · -- states recorded strictly inside
      rw [List.mem_filter] at hx
      obtain ⟨hmem, hin⟩ := hx
      obtain ⟨t, st⟩ := x
      unfold isInside at hin
      have hst : s < t ∧ ∀ y, e = some y → t < y := by
        cases e with
        | none => simp at hin; exact ⟨hin, by simp⟩
        | some y =>
          simp at hin
          exact ⟨hin.1, by intro z hz; cases hz; exact hin.2⟩
      obtain ⟨p, g1, g2, g3⟩ := hgapE t (by grind) hst.2
      refine hall p g3 t st ⟨mem_keys_of_mem hmem, g1, ?_⟩ (lookup_of_mem hnd hmem)
      intro k hk hkp
      by_cases hks : t < k
      · have := g2 k hk hks; grind
      · grind

end UPVerif.TT
