import UPVerif.Lemmas.FromPddlVars
/-!
Helper lemmas for C21: conditions (`gd`).  By structural induction on the token tree, what the first reader builds
(`readExpr`) and what the converter builds from the external parser's object (`convExpr ∘ astGd`) are related by `GdRel`:
both are built like conditions, with the same free variables and the same truth value under every instantiation in
every well-typed state — through nested `and`/`or` (spliced and de-duplicated by the external parser), double negations,
implications, quantifiers (with shadowing), comparisons in either operand order and equalities of terms.
-/
namespace UPVerif.FromPddl
open UPVerif UPVerif.Expr UPVerif.Pddl

/-! ### inversion / branches -/

theorem astGds_cons_inv {C : PCtx} {x : Sexp} {xs : List Sexp} {r : List Form}
    (h : astGds C (x :: xs) = some r) : ∃ a as, astGd C x = some a ∧ astGds C xs = some as ∧ r = a :: as := by
  rw [astGds] at h
  simp only [Option.bind_eq_bind, Option.bind_eq_some_iff, Option.some.injEq] at h
  obtain ⟨e, he, es, hes, rfl⟩ := h
  exact ⟨e, es, he, hes, rfl⟩

theorem astGds_nil_inv {C : PCtx} {r : List Form} (h : astGds C [] = some r) : r = [] := by
  rw [astGds] at h; exact (Option.some.inj h).symm

theorem gdOKs_cons {fl : List FluentRef} {C : PCtx} {x : Sexp} {xs : List Sexp} (h : gdOKs fl C (x :: xs) = true) :
    gdOK fl C x = true ∧ gdOKs fl C xs = true := by
  rw [gdOKs] at h; simpa using h

theorem astGdL_and (C : PCtx) (rest : List Sexp) : astGdL C (.atom "and" :: rest) = (astGds C rest).map (mkOp .and) := by
  rw [astGdL.eq_def]; simp

theorem astGdL_or (C : PCtx) (rest : List Sexp) : astGdL C (.atom "or" :: rest) =
    if C.has "disjunctive-preconditions" || C.has "adl" then (astGds C rest).map (mkOp .or) else none := by
  rw [astGdL.eq_def]; simp

theorem astGdL_not (C : PCtx) (x : Sexp) : astGdL C [.atom "not", x] = (astGd C x).map Form.not := by
  rw [astGdL.eq_def]; simp

theorem astGdL_not_other (C : PCtx) (rest : List Sexp) (h : rest.length ≠ 1) : astGdL C (.atom "not" :: rest) = none := by
  rw [astGdL.eq_def]
  match rest, h with
  | [], _ => simp
  | _ :: _ :: _, _ => simp

theorem astGdL_imply (C : PCtx) (a b : Sexp) : astGdL C [.atom "imply", a, b] =
    if C.has "disjunctive-preconditions" || C.has "adl" then
      (astGd C a).bind (fun x => (astGd C b).map (fun y => .op .imply [x, y])) else none := by
  rw [astGdL.eq_def]
  simp only [String.reduceBEq, Bool.false_eq_true, if_false, if_true, beq_self_eq_true]
  split
  · cases astGd C a <;> cases astGd C b <;> rfl
  · rfl

theorem astGdL_imply_other (C : PCtx) (rest : List Sexp) (h : rest.length ≠ 2) : astGdL C (.atom "imply" :: rest) = none := by
  rw [astGdL.eq_def]
  match rest, h with
  | [], _ => simp
  | [_], _ => simp
  | _ :: _ :: _ :: _, _ => simp

/-- the requirement check of `gd_quantifiers` -/
def quantReq (C : PCtx) (h : String) : Bool :=
  C.has (if h == "exists" then "existential-preconditions" else "universal-preconditions")
    || C.has "quantified-preconditions" || C.has "adl"

theorem astGdL_quant (C : PCtx) (h : String) (hq : h = "exists" ∨ h = "forall") (vl : List Sexp) (body : Sexp) :
    astGdL C [.atom h, .list vl, body] =
      if quantReq C h then
        (astVars vl).bind (fun vs => (astGd C body).map (fun b => .quant (quantOf h) vs b)) else none := by
  rw [astGdL.eq_def]
  unfold quantReq
  rcases hq with rfl | rfl
  · simp only [String.reduceBEq, Bool.false_eq_true, if_false, if_true, Bool.true_or, Bool.or_true]
    split
    · cases astVars vl <;> cases astGd C body <;> rfl
    · rfl
  · simp only [String.reduceBEq, Bool.false_eq_true, if_false, if_true, Bool.true_or, Bool.or_true]
    split
    · cases astVars vl <;> cases astGd C body <;> rfl
    · rfl

theorem readList_quant (E : REnv) (sc : List Var) (h : String) (hq : h = "exists" ∨ h = "forall") (vl : List Sexp) (body : Sexp) :
    readList E sc [.atom h, .list vl, body] =
      ((typedList true vl).bind (declVars E)).bind (fun vs =>
        if vs.isEmpty then none else (readExpr E (extendScope sc vs) body).map (fun b => .quant (quantOf h) vs b)) := by
  rw [readList.eq_def]
  rcases hq with rfl | rfl
  · simp only [String.reduceBEq, Bool.false_and, Bool.false_eq_true, if_false, isOperator, List.contains_cons,
      List.contains_nil, Bool.or_false, Bool.or_self, Bool.true_or, if_true]
    cases (typedList true vl).bind (declVars E) <;> rfl
  · simp only [String.reduceBEq, Bool.false_and, Bool.false_eq_true, if_false, isOperator, List.contains_cons,
      List.contains_nil, Bool.or_false, Bool.or_self, Bool.or_true, if_true]
    cases (typedList true vl).bind (declVars E) <;> rfl

theorem cmpOp_cases {h : String} {k : OpK} (hk : cmpOp? h = some k) :
    (h = "=" ∧ k = .eqF) ∨ (h = "<" ∧ k = .lt) ∨ (h = "<=" ∧ k = .le) ∨ (h = ">" ∧ k = .gt) ∨ (h = ">=" ∧ k = .ge) := by
  unfold cmpOp? at hk
  split at hk
  · rename_i h1; exact Or.inl ⟨by simpa using h1, (Option.some.inj hk).symm⟩
  · split at hk
    · rename_i h1; exact Or.inr (Or.inl ⟨by simpa using h1, (Option.some.inj hk).symm⟩)
    · split at hk
      · rename_i h1; exact Or.inr (Or.inr (Or.inl ⟨by simpa using h1, (Option.some.inj hk).symm⟩))
      · split at hk
        · rename_i h1; exact Or.inr (Or.inr (Or.inr (Or.inl ⟨by simpa using h1, (Option.some.inj hk).symm⟩)))
        · split at hk
          · rename_i h1; exact Or.inr (Or.inr (Or.inr (Or.inr ⟨by simpa using h1, (Option.some.inj hk).symm⟩)))
          · cases hk

/-- the head of a form that is neither a connective, nor a quantifier, nor a comparison -/
def isPlainHead (h : String) : Bool :=
  !(h == "and" || h == "or" || h == "not" || h == "imply" || h == "exists" || h == "forall") && (cmpOp? h).isNone

theorem astGdL_cmp (C : PCtx) (h : String) (k : OpK) (hk : cmpOp? h = some k) (a b : Sexp) :
    astGdL C [.atom h, a, b] =
      if h == "=" && startsTerm a then astAtom C (.list [.atom h, a, b])
      else (astFexp C a).bind (fun x => (astFexp C b).map (fun y => mkOp k [x, y])) := by
  have hne : (h == "and") = false ∧ (h == "or") = false ∧ (h == "not") = false ∧ (h == "imply") = false ∧
      (h == "exists") = false ∧ (h == "forall") = false := by
    rcases cmpOp_cases hk with ⟨rfl, _⟩ | ⟨rfl, _⟩ | ⟨rfl, _⟩ | ⟨rfl, _⟩ | ⟨rfl, _⟩ <;> simp
  rw [astGdL.eq_def]
  simp only [hne.1, hne.2.1, hne.2.2.1, hne.2.2.2.1, hne.2.2.2.2.1, hne.2.2.2.2.2, Bool.false_eq_true, if_false,
    Bool.or_self, hk]
  split
  · rfl
  · cases astFexp C a <;> cases astFexp C b <;> rfl

theorem astGdL_cmp_other (C : PCtx) (h : String) (k : OpK) (hk : cmpOp? h = some k) (rest : List Sexp) (hl : rest.length ≠ 2) :
    astGdL C (.atom h :: rest) = none := by
  have hne : (h == "and") = false ∧ (h == "or") = false ∧ (h == "not") = false ∧ (h == "imply") = false ∧
      (h == "exists") = false ∧ (h == "forall") = false := by
    rcases cmpOp_cases hk with ⟨rfl, _⟩ | ⟨rfl, _⟩ | ⟨rfl, _⟩ | ⟨rfl, _⟩ | ⟨rfl, _⟩ <;> simp
  rw [astGdL.eq_def]
  simp only [hne.1, hne.2.1, hne.2.2.1, hne.2.2.2.1, hne.2.2.2.2.1, hne.2.2.2.2.2, Bool.false_eq_true, if_false,
    Bool.or_self, hk]
  match rest, hl with
  | [], _ => rfl
  | [_], _ => rfl
  | _ :: _ :: _ :: _, _ => rfl

theorem astGdL_plain (C : PCtx) (h : String) (hp : isPlainHead h = true) (rest : List Sexp) :
    astGdL C (.atom h :: rest) = astAtom C (.list (.atom h :: rest)) := by
  unfold isPlainHead at hp
  simp only [Bool.and_eq_true, Bool.not_eq_true', Bool.or_eq_false_iff, Option.isNone_iff_eq_none] at hp
  obtain ⟨⟨⟨⟨⟨⟨h1, h2⟩, h3⟩, h4⟩, h5⟩, h6⟩, h7⟩ := hp
  rw [astGdL.eq_def]
  simp [h1, h2, h3, h4, h5, h6, h7]

theorem astAtom_eq (C : PCtx) (a b : Sexp) : astAtom C (.list [.atom "=", a, b]) =
    if C.has "equality" then (astTerm C a).bind (fun x => (astTerm C b).map (fun y => .eqT x y)) else none := by
  rw [astAtom]
  simp only [beq_self_eq_true, if_true]
  split
  · cases astTerm C a <;> cases astTerm C b <;> rfl
  · rfl

theorem astAtom_pred (C : PCtx) (h : String) (rest : List Sexp) (hne : (h == "=") = false) :
    astAtom C (.list (.atom h :: rest)) =
      if isReserved h || (numberTok h).isSome || (stripQ h).isSome then none else (astTerms C rest).map (.pred h) := by
  unfold astAtom
  simp [hne]

end UPVerif.FromPddl
