import UPVerif.Lemmas.KS0Track
/-!
Helper lemmas for `Props/C30.lean`, part 4: the enumeration of the possible initial states of a
contingent problem from its `oneof` / `or` / `unknown` constraints is exact.
-/
set_option linter.unusedSectionVars false
namespace UPVerif.KS0
open UPVerif.Conformant

variable {α : Type} [DecidableEq α]

/-- the total assignment `v` agrees with the partial assignment on all its keys -/
def Extends (v : α → Bool) (asg : Asg α) : Prop := ∀ x b, asg.get? x = some b → v x = b

def keys (asg : Asg α) : List α := asg.map Prod.fst

/-- "exactly one of them must hold": one position of the group holds, all other positions do not -/
def ExactlyOne (v : α → Bool) (g : List (Lit α)) : Prop :=
  ∃ i, i < g.length ∧ ∀ k l, g[k]? = some l → (holds v l = true ↔ k = i)

theorem get?_append (a b : Asg α) (x : α) :
    Asg.get? (a ++ b) x = match Asg.get? a x with
      | some v => some v
      | none => Asg.get? b x := by
  induction a with
  | nil => simp [Asg.get?]
  | cons e a ih =>
    obtain ⟨y, w⟩ := e
    simp only [List.cons_append, Asg.get?]
    by_cases h : y = x
    · simp [h]
    · simp [h, ih]

theorem get?_eq_none_iff (a : Asg α) (x : α) : Asg.get? a x = none ↔ x ∉ keys a := by
  induction a with
  | nil => simp [Asg.get?, keys]
  | cons e a ih =>
    obtain ⟨y, w⟩ := e
    simp only [Asg.get?, keys, List.map_cons, List.mem_cons, not_or]
    by_cases h : y = x
    · simp [h]
    · simp only [h, if_false]
      rw [ih]
      constructor
      · intro h2; exact ⟨fun e => h e.symm, h2⟩
      · intro h2; exact h2.2

theorem get?_isSome_of_mem {a : Asg α} {x : α} (h : x ∈ keys a) : ∃ b, Asg.get? a x = some b := by
  cases hq : Asg.get? a x with
  | none => exact absurd h ((get?_eq_none_iff a x).1 hq)
  | some b => exact ⟨b, rfl⟩

theorem value_iff (v : α → Bool) (l : Lit α) (idx chosen : Nat) :
    v l.atom = ((decide (idx = chosen)) != (!l.pos)) ↔ (holds v l = true ↔ idx = chosen) := by
  cases l with
  | mk x p =>
    by_cases h : idx = chosen <;> cases p <;> cases hv : v x <;> simp [holds, h, hv]

theorem assignFrom_spec (v : α → Bool) (chosen : Nat) :
    ∀ (ls : List (Lit α)) (idx : Nat) (asg : Asg α),
      (∀ asg', assignFrom chosen idx ls asg = some asg' →
        (∀ x, x ∈ keys asg' ↔ x ∈ keys asg ∨ x ∈ ls.map (fun l => l.atom)) ∧
        (Extends v asg' → Extends v asg ∧
          ∀ k l, ls[k]? = some l → (holds v l = true ↔ idx + k = chosen))) ∧
      (Extends v asg → (∀ k l, ls[k]? = some l → (holds v l = true ↔ idx + k = chosen)) →
        ∃ asg', assignFrom chosen idx ls asg = some asg' ∧ Extends v asg') := by
  intro ls
  induction ls with
  | nil =>
    intro idx asg
    refine ⟨?_, ?_⟩
    · intro asg' h
      simp only [assignFrom, Option.some.injEq] at h
      subst h
      exact ⟨by simp, fun e => ⟨e, by simp⟩⟩
    · intro e _; exact ⟨asg, rfl, e⟩
  | cons l rest ih =>
    intro idx asg
    have shift : ∀ k, idx + 1 + k = idx + (k + 1) := by intro k; omega
    cases hq : Asg.get? asg l.atom with
    | some b =>
      have hk : l.atom ∈ keys asg := by
        apply Classical.byContradiction
        intro hn
        rw [(get?_eq_none_iff asg l.atom).2 hn] at hq; cases hq
      by_cases hb : b = ((decide (idx = chosen)) != (!l.pos))
      · obtain ⟨i1, i2⟩ := ih (idx + 1) asg
        refine ⟨?_, ?_⟩
        · intro asg' h
          simp only [assignFrom, hq, hb, if_true] at h
          obtain ⟨j1, j2⟩ := i1 asg' h
          refine ⟨?_, ?_⟩
          · intro x
            rw [j1 x]
            simp only [List.map_cons, List.mem_cons]
            constructor
            · rintro (h | h)
              · exact Or.inl h
              · exact Or.inr (Or.inr h)
            · rintro (h | h | h)
              · exact Or.inl h
              · exact Or.inl (h ▸ hk)
              · exact Or.inr h
          · intro e
            obtain ⟨e1, e2⟩ := j2 e
            refine ⟨e1, ?_⟩
            intro k l' hl'
            cases k with
            | zero =>
              simp only [List.getElem?_cons_zero, Option.some.injEq] at hl'
              subst hl'
              have : v l.atom = b := e1 l.atom b hq
              rw [hb] at this
              simpa using (value_iff v l idx chosen).1 this
            | succ k =>
              simp only [List.getElem?_cons_succ] at hl'
              rw [← shift k]; exact e2 k l' hl'
        · intro e hs
          have h0 := hs 0 l (by simp)
          have hv : v l.atom = b := e l.atom b hq
          obtain ⟨asg', ha, he⟩ := i2 e (fun k l' hl' => by
            rw [shift k]; exact hs (k + 1) l' (by simpa using hl'))
          exact ⟨asg', by simp only [assignFrom, hq, hb, if_true]; exact ha, he⟩
      · refine ⟨?_, ?_⟩
        · intro asg' h
          simp only [assignFrom, hq, if_neg hb] at h
          cases h
        · intro e hs
          exfalso
          have h0 := hs 0 l (by simp)
          have hv : v l.atom = b := e l.atom b hq
          apply hb
          rw [← hv]
          exact (value_iff v l idx chosen).2 (by simpa using h0)
    | none =>
      have hk : l.atom ∉ keys asg := (get?_eq_none_iff asg l.atom).1 hq
      obtain ⟨i1, i2⟩ := ih (idx + 1) (asg ++ [(l.atom, (decide (idx = chosen)) != (!l.pos))])
      have hget : Asg.get? (asg ++ [(l.atom, (decide (idx = chosen)) != (!l.pos))]) l.atom
          = some ((decide (idx = chosen)) != (!l.pos)) := by
        rw [get?_append, hq]; simp [Asg.get?]
      refine ⟨?_, ?_⟩
      · intro asg' h
        simp only [assignFrom, hq] at h
        obtain ⟨j1, j2⟩ := i1 asg' h
        refine ⟨?_, ?_⟩
        · intro x
          rw [j1 x]
          simp only [keys, List.map_append, List.map_cons, List.map_nil, List.mem_append,
            List.mem_cons, List.not_mem_nil, or_false]
          constructor
          · rintro ((h | h) | h)
            · exact Or.inl h
            · exact Or.inr (Or.inl h)
            · exact Or.inr (Or.inr h)
          · rintro (h | h | h)
            · exact Or.inl (Or.inl h)
            · exact Or.inl (Or.inr h)
            · exact Or.inr h
        · intro e
          obtain ⟨e1, e2⟩ := j2 e
          refine ⟨?_, ?_⟩
          · intro x b hx
            apply e1 x b
            rw [get?_append, hx]
          · intro k l' hl'
            cases k with
            | zero =>
              simp only [List.getElem?_cons_zero, Option.some.injEq] at hl'
              subst hl'
              have := e1 l.atom _ hget
              simpa using (value_iff v l idx chosen).1 this
            | succ k =>
              simp only [List.getElem?_cons_succ] at hl'
              rw [← shift k]; exact e2 k l' hl'
      · intro e hs
        have h0 := hs 0 l (by simp)
        have hv : v l.atom = ((decide (idx = chosen)) != (!l.pos)) :=
          (value_iff v l idx chosen).2 (by simpa using h0)
        have e' : Extends v (asg ++ [(l.atom, (decide (idx = chosen)) != (!l.pos))]) := by
          intro x b hx
          rw [get?_append] at hx
          cases hq2 : Asg.get? asg x with
          | some b' =>
            rw [hq2] at hx
            simp only [Option.some.injEq] at hx
            rw [← hx]; exact e x b' hq2
          | none =>
            rw [hq2] at hx
            simp only [Asg.get?] at hx
            by_cases hx2 : l.atom = x
            · simp only [hx2, if_true, Option.some.injEq] at hx
              rw [← hx, ← hx2]; exact hv
            · simp [hx2] at hx
        obtain ⟨asg', ha, he⟩ := i2 e' (fun k l' hl' => by
          rw [shift k]; exact hs (k + 1) l' (by simpa using hl'))
        exact ⟨asg', by simp only [assignFrom, hq]; exact ha, he⟩

/-- atoms mentioned by a list of constraint groups -/
def groupAtoms (gs : List (List (Lit α))) : List α := (gs.flatMap id).map (fun l => l.atom)

/-- one `oneof` group extends the partial assignments -/
def oneofStep (partials : List (Asg α)) (g : List (Lit α)) : List (Asg α) :=
  partials.flatMap (fun asg => (List.range g.length).filterMap (fun i => assignChoice asg g i))

theorem oneofPhase_eq (groups : List (List (Lit α))) : oneofPhase groups = groups.foldl oneofStep [[]] := rfl

/-- invariant of the `oneof` phase w.r.t. a total assignment `v` -/
structure PhaseInv (v : α → Bool) (done : List (List (Lit α))) (partials : List (Asg α)) : Prop where
  keys : ∀ asg ∈ partials, ∀ x, x ∈ keys asg ↔ x ∈ groupAtoms done
  sound : ∀ asg ∈ partials, Extends v asg → ∀ g ∈ done, ExactlyOne v g
  complete : (∀ g ∈ done, ExactlyOne v g) → ∃ asg ∈ partials, Extends v asg

theorem phaseInv_step {v : α → Bool} {done : List (List (Lit α))} {partials : List (Asg α)}
    (h : PhaseInv v done partials) (g : List (Lit α)) :
    PhaseInv v (done ++ [g]) (oneofStep partials g) := by
  have hmem : ∀ asg', asg' ∈ oneofStep partials g ↔
      ∃ asg ∈ partials, ∃ i, i < g.length ∧ assignFrom i 0 g asg = some asg' := by
    intro asg'
    simp only [oneofStep, List.mem_flatMap, List.mem_filterMap, List.mem_range, assignChoice]
  have hatoms : ∀ x, x ∈ groupAtoms (done ++ [g]) ↔ x ∈ groupAtoms done ∨ x ∈ g.map (fun l => l.atom) := by
    intro x
    simp [groupAtoms, List.flatMap_append]
  refine ⟨?_, ?_, ?_⟩
  · intro asg' ha x
    obtain ⟨asg, hp, i, _, hs⟩ := (hmem asg').1 ha
    have := ((assignFrom_spec v i g 0 asg).1 asg' hs).1 x
    rw [this, hatoms, h.keys asg hp x]
  · intro asg' ha he g' hg'
    obtain ⟨asg, hp, i, hi, hs⟩ := (hmem asg').1 ha
    obtain ⟨e1, e2⟩ := ((assignFrom_spec v i g 0 asg).1 asg' hs).2 he
    rcases List.mem_append.1 hg' with hg' | hg'
    · exact h.sound asg hp e1 g' hg'
    · have : g' = g := by simpa using hg'
      subst this
      exact ⟨i, hi, fun k l hl => by simpa using e2 k l hl⟩
  · intro hall
    obtain ⟨asg, hp, he⟩ := h.complete (fun g' hg' => hall g' (List.mem_append_left _ hg'))
    obtain ⟨i, hi, hx⟩ := hall g (by simp)
    obtain ⟨asg', hs, he'⟩ := (assignFrom_spec v i g 0 asg).2 he (fun k l hl => by simpa using hx k l hl)
    exact ⟨asg', (hmem asg').2 ⟨asg, hp, i, hi, hs⟩, he'⟩

theorem phaseInv_foldl (v : α → Bool) (todo : List (List (Lit α))) :
    ∀ (done : List (List (Lit α))) (partials : List (Asg α)), PhaseInv v done partials →
      PhaseInv v (done ++ todo) (todo.foldl oneofStep partials) := by
  induction todo with
  | nil => intro done partials h; simpa using h
  | cons g todo ih =>
    intro done partials h
    have := ih (done ++ [g]) (oneofStep partials g) (phaseInv_step h g)
    simpa using this

theorem phaseInv_oneofPhase (v : α → Bool) (groups : List (List (Lit α))) :
    PhaseInv v groups (oneofPhase groups) := by
  have h0 : PhaseInv v [] ([[]] : List (Asg α)) := by
    refine ⟨?_, ?_, ?_⟩
    · intro asg ha x
      have : asg = [] := by simpa using ha
      subst this
      simp [keys, groupAtoms]
    · intro _ _ _ g hg; cases hg
    · intro _; exact ⟨[], by simp, fun x b h => by simp [Asg.get?] at h⟩
  have := phaseInv_foldl v groups [] [[]] h0
  simpa [oneofPhase_eq] using this

theorem mem_boolVectors : ∀ (n : Nat) (vs : List Bool), vs.length = n → vs ∈ boolVectors n := by
  intro n
  induction n with
  | zero => intro vs h; simp [boolVectors, List.length_eq_zero_iff.1 h]
  | succ n ih =>
    intro vs h
    cases vs with
    | nil => cases h
    | cons b vs =>
      simp only [List.length_cons, Nat.add_right_cancel_iff] at h
      simp only [boolVectors, List.mem_flatMap, List.mem_cons, List.not_mem_nil, or_false,
        List.mem_map]
      refine ⟨b, by cases b <;> simp, vs, ih vs h, rfl⟩

theorem get?_zip_map (v : α → Bool) (xs : List α) {x : α} (h : x ∈ xs) :
    Asg.get? (xs.zip (xs.map v)) x = some (v x) := by
  induction xs with
  | nil => cases h
  | cons y ys ih =>
    simp only [List.map_cons, List.zip_cons_cons, Asg.get?]
    by_cases e : y = x
    · simp [e]
    · simp only [e, if_false]
      rcases List.mem_cons.1 h with h | h
      · exact absurd h.symm e
      · exact ih h

theorem asgHolds_eq {v : α → Bool} {cand : Asg α} {l : Lit α}
    (h : Asg.get? cand l.atom = some (v l.atom)) : asgHolds cand l = holds v l := by
  simp [asgHolds, h, holds]

theorem mem_enumerateHidden {oneofs ors : List (List (Lit α))} {hidden : List α} {cand : Asg α} :
    cand ∈ enumerateHidden oneofs ors hidden ↔
      ∃ asg ∈ oneofPhase oneofs, ∃ vs ∈ boolVectors (hidden.filter (fun x => !((groupAtoms oneofs).contains x))).length,
        ors.all (fun g => g.any (asgHolds (extend asg (hidden.filter (fun x => !((groupAtoms oneofs).contains x))) vs))) = true ∧
        cand = extend asg (hidden.filter (fun x => !((groupAtoms oneofs).contains x))) vs := by
  simp only [enumerateHidden, groupAtoms, List.mem_flatMap, List.mem_filterMap]
  constructor
  · rintro ⟨asg, ha, vs, hv, h⟩
    split at h
    · rename_i hc
      exact ⟨asg, ha, vs, hv, hc, by simpa using h.symm⟩
    · cases h
  · rintro ⟨asg, ha, vs, hv, hc, rfl⟩
    exact ⟨asg, ha, vs, hv, by rw [if_pos hc]⟩

/-- the enumeration yields exactly the assignments to the hidden atoms that satisfy all constraints -/
theorem enumerate_spec (oneofs ors : List (List (Lit α))) (hidden : List α)
    (hh : ∀ x, x ∈ groupAtoms oneofs ∨ x ∈ groupAtoms ors → x ∈ hidden) (v : α → Bool) :
    (∃ cand ∈ enumerateHidden oneofs ors hidden, ∀ h ∈ hidden, Asg.get? cand h = some (v h)) ↔
      ((∀ g ∈ oneofs, ExactlyOne v g) ∧ ∀ g ∈ ors, ∃ l ∈ g, holds v l = true) := by
  have inv := phaseInv_oneofPhase v oneofs
  have horatom : ∀ g ∈ ors, ∀ l ∈ g, l.atom ∈ hidden := by
    intro g hg l hl
    apply hh; right
    simp only [groupAtoms, List.mem_map, List.mem_flatMap, id]
    exact ⟨l, ⟨g, hg, hl⟩, rfl⟩
  constructor
  · rintro ⟨cand, hc, hv⟩
    obtain ⟨asg, ha, vs, _, hor, rfl⟩ := mem_enumerateHidden.1 hc
    have hext : Extends v asg := by
      intro x b hx
      have hxk : x ∈ keys asg := by
        apply Classical.byContradiction
        intro hn
        rw [(get?_eq_none_iff asg x).2 hn] at hx; cases hx
      have hxh : x ∈ hidden := hh x (Or.inl ((inv.keys asg ha x).1 hxk))
      have := hv x hxh
      simp only [extend, get?_append, hx, Option.some.injEq] at this
      exact this.symm
    refine ⟨inv.sound asg ha hext, ?_⟩
    intro g hg
    have := List.all_eq_true.1 hor g hg
    obtain ⟨l, hl, hl2⟩ := List.any_eq_true.1 this
    exact ⟨l, hl, by rw [← asgHolds_eq (hv l.atom (horatom g hg l hl))]; exact hl2⟩
  · rintro ⟨h1, h2⟩
    obtain ⟨asg, ha, hext⟩ := inv.complete h1
    let free := hidden.filter (fun x => !((groupAtoms oneofs).contains x))
    have hget : ∀ h ∈ hidden, Asg.get? (extend asg free (free.map v)) h = some (v h) := by
      intro h hh'
      simp only [extend, get?_append]
      by_cases hk : h ∈ keys asg
      · obtain ⟨b, hb⟩ := get?_isSome_of_mem hk
        rw [hb]; simp only [Option.some.injEq]
        exact (hext h b hb).symm
      · rw [(get?_eq_none_iff asg h).2 hk]
        apply get?_zip_map
        simp only [free, List.mem_filter, Bool.not_eq_true', hh', true_and]
        cases hc : (groupAtoms oneofs).contains h
        · rfl
        · exact absurd ((inv.keys asg ha h).2 (List.contains_iff_mem.1 hc)) hk
    refine ⟨extend asg free (free.map v), ?_, hget⟩
    apply mem_enumerateHidden.2
    refine ⟨asg, ha, free.map v, mem_boolVectors _ _ (List.length_map _), ?_, rfl⟩
    apply List.all_eq_true.2
    intro g hg
    apply List.any_eq_true.2
    obtain ⟨l, hl, hl2⟩ := h2 g hg
    exact ⟨l, hl, by rw [asgHolds_eq (hget l.atom (horatom g hg l hl))]; exact hl2⟩

end UPVerif.KS0
