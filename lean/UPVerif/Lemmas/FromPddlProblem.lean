import UPVerif.Lemmas.FromPddlTypes
/-!
Helper lemmas for C21, the whole problem: without an action-cost metric no cost is extracted; the action lists.
-/
namespace UPVerif.FromPddl
open UPVerif UPVerif.Expr UPVerif.Pddl

/-! ### without an action-cost metric the converter extracts no cost -/

theorem isActionCost_false (f : Form) : isActionCost false f = false := by
  cases f <;> simp [isActionCost]

theorem effStep_nocost (CE : CEnv) (ps : List (String × Ty)) (it : EItem) (c : Expr) :
    FromPddl.effStep CE false ps it ≠ some (.cost c) := by
  intro h
  unfold FromPddl.effStep at h
  split at h
  · simp only [Option.map_eq_some_iff] at h
    obtain ⟨_, _, h⟩ := h; cases h
  · simp only [Option.bind_eq_some_iff] at h
    obtain ⟨_, _, h⟩ := h
    split at h <;> cases h
  · split at h
    · split at h <;> cases h
    · cases h
  · rw [isActionCost_false] at h
    simp only [Bool.false_eq_true, if_false] at h
    split at h
    · split at h <;> cases h
    · cases h
  · rw [isActionCost_false] at h
    simp only [Bool.false_eq_true, if_false] at h
    split at h
    · split at h <;> cases h
    · cases h
  · split at h
    · cases h
    · simp only [Option.map_eq_some_iff] at h
      obtain ⟨_, _, h⟩ := h; cases h
  · split at h <;> cases h
  · cases h
  · cases h

theorem effLoop_nocost (CE : CEnv) (ps : List (String × Ty)) : ∀ (fuel : Nat) (stack : List EItem) (cost : Option Expr)
    (es : List Effect) (c : Option Expr), FromPddl.effLoop CE false ps fuel stack cost = some (es, c) → c = cost
  | _, [], cost, es, c, h => by
    simp only [FromPddl.effLoop, Option.some.injEq, Prod.mk.injEq] at h
    exact h.2.symm
  | 0, _ :: _, _, _, _, h => by simp [FromPddl.effLoop] at h
  | fuel + 1, it :: stack, cost, es, c, h => by
    rw [FromPddl.effLoop] at h
    split at h
    · cases h
    · simp only [Option.map_eq_some_iff] at h
      obtain ⟨r, hr, he⟩ := h
      obtain ⟨r1, r2⟩ := r
      simp only [Prod.mk.injEq] at he
      rw [← he.2]
      exact effLoop_nocost CE ps fuel stack cost r1 r2 hr
    · rename_i c' hc'
      exact absurd hc' (effStep_nocost CE ps it c')
    · exact effLoop_nocost CE ps fuel _ cost es c h

theorem convAction_nocost {CE : CEnv} {pa : PAction} {a' : Action} {cost : Option Expr}
    (h : convAction CE false pa = some (a', cost)) : cost = none := by
  unfold convAction at h
  simp only [Option.bind_eq_bind, Option.bind_eq_some_iff] at h
  obtain ⟨_, _, _, _, _, _, _, _, ⟨es, c⟩, hce, h⟩ := h
  simp only [Option.some.injEq, Prod.mk.injEq] at h
  rw [← h.2]
  exact effLoop_nocost CE _ _ _ none es c hce

/-! ### the list of actions -/

section
variable {E : REnv} {CE : CEnv} {hc : Bool} {tc : Expr} (C : PCtx)

theorem actions_agree (nm : NamesOK E) (ca : CostAgree E hc tc)
    (hfl : ∀ n f, CE.fluent? n = some f → E.fluent? n = some f)
    (hobj : ∀ s, E.objects.lookup s = CE.objects.lookup s ∨ E.objects.lookup s = none)
    (hof : ∀ s t, CE.objects.lookup s = some t → E.fluent? s = none)
    (hid : ∀ t n, (CE.types.lookup t).join = some n → n = t) :
    ∀ (ts : List Sexp) (as : List Action) (pas : List PAction) (ras : List (Action × Option Expr)),
      readActions E ts = some as → astActions C ts = some pas → convActions CE hc pas = some ras →
      (∀ t ∈ ts, actionOK E.fluents C t = true) → All2 (fun a r => ActRel tc a r.1 r.2) as ras
  | [], as, pas, ras, hU, hA, hQ, _ => by
    simp only [readActions, Option.some.injEq] at hU
    simp only [astActions, Option.some.injEq] at hA
    subst hU hA
    simp only [convActions, Option.some.injEq] at hQ
    subst hQ
    trivial
  | t :: ts, as, pas, ras, hU, hA, hQ, hok => by
    rw [readActions] at hU
    rw [astActions] at hA
    simp only [Option.bind_eq_bind, Option.bind_eq_some_iff, Option.some.injEq] at hU hA
    obtain ⟨a, ha, as', has', rfl⟩ := hU
    obtain ⟨pa, hpa, pas', hpas', rfl⟩ := hA
    rw [convActions] at hQ
    simp only [Option.bind_eq_bind, Option.bind_eq_some_iff, Option.some.injEq] at hQ
    obtain ⟨⟨a', cost⟩, hra, ras', hras', rfl⟩ := hQ
    exact ⟨action_agree C nm ca hfl hobj hof hid t a pa a' cost ha hpa hra (hok t (by simp)),
      actions_agree nm ca hfl hobj hof hid ts as' pas' ras' has' hpas' hras' (fun x hx => hok x (List.mem_cons_of_mem _ hx))⟩

theorem convActions_nocost {CE : CEnv} : ∀ {pas : List PAction} {ras : List (Action × Option Expr)},
    convActions CE false pas = some ras → ∀ r ∈ ras, r.2 = none
  | [], ras, h => by
    simp only [convActions, Option.some.injEq] at h
    subst h; intro r hr; cases hr
  | pa :: pas, ras, h => by
    rw [convActions] at h
    simp only [Option.bind_eq_bind, Option.bind_eq_some_iff, Option.some.injEq] at h
    obtain ⟨⟨a', cost⟩, hra, ras', hras', rfl⟩ := h
    intro r hr
    rcases List.mem_cons.1 hr with rfl | hr
    · exact convAction_nocost hra
    · exact convActions_nocost hras' r hr

end

end UPVerif.FromPddl
