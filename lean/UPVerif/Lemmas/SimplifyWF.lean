import UPVerif.Lemmas.SimplifyBasic
import UPVerif.Lemmas.SimplifySpec
import UPVerif.Lemmas.SubstBasic
/-!
Helper lemmas for `Props/C11.lean`, part 5: the node functions of the simplifier only rearrange
what they are given.  For every predicate `P` on expressions that is *compositional* (`Comp`: true of
numeric/Boolean constants, and true of an operator node iff true of its arguments) and true of the
table values, `walkApp` maps arguments satisfying `P` to a result satisfying `P` (`walkApp_comp`).
Instances: "all leaves / bound variables satisfy …" (`allB`, this file) and "all free variables lie
in a given set" (`SimplifyFV.lean`).  No Mathlib.
-/
namespace UPVerif.Simp
open Expr

structure Comp (P : Expr → Prop) : Prop where
  bool : ∀ b, P (.leaf (.boolC b))
  int : ∀ z, P (.leaf (.intC z))
  real : ∀ r, P (.leaf (.realC r))
  app : ∀ op l, P (.app op l) ↔ ∀ e, e ∈ l → P e

section
variable {P : Expr → Prop}

theorem Comp.toExpr (hc : Comp P) (c : Num) : P c.toExpr := by
  cases c
  · exact hc.int _
  · exact hc.real _

theorem Comp.mkAnd (hc : Comp P) {l : List Expr} (h : ∀ e, e ∈ l → P e) : P (mkAnd l) := by
  match l, h with
  | [], _ => exact hc.bool true
  | [x], h => exact h x (by simp)
  | x :: y :: r, h => exact (hc.app _ _).2 h

theorem Comp.mkOr (hc : Comp P) {l : List Expr} (h : ∀ e, e ∈ l → P e) : P (mkOr l) := by
  match l, h with
  | [], _ => exact hc.bool false
  | [x], h => exact h x (by simp)
  | x :: y :: r, h => exact (hc.app _ _).2 h

theorem Comp.mkPlus (hc : Comp P) {l : List Expr} (h : ∀ e, e ∈ l → P e) : P (mkPlus l) := by
  match l, h with
  | [], _ => exact hc.int 0
  | [x], h => exact h x (by simp)
  | x :: y :: r, h => exact (hc.app _ _).2 h

theorem Comp.mkTimes (hc : Comp P) {l : List Expr} (h : ∀ e, e ∈ l → P e) : P (mkTimes l) := by
  match l, h with
  | [], _ => exact hc.int 1
  | [x], h => exact h x (by simp)
  | x :: y :: r, h => exact (hc.app _ _).2 h

theorem Comp.mkNot (hc : Comp P) {c : Expr} (h : P c) : P (mkNot c) := by
  unfold Expr.mkNot
  split
  · exact (hc.app _ _).1 h _ (by simp)
  · exact (hc.app _ _).2 (by simpa using h)

theorem Comp.app2 (hc : Comp P) {op : Op} {a b : Expr} (ha : P a) (hb : P b) : P (.app op [a, b]) :=
  (hc.app _ _).2 (by intro e he; simp only [List.mem_cons, List.not_mem_nil, or_false] at he
                     rcases he with rfl | rfl <;> assumption)

theorem Comp.app1 (hc : Comp P) {op : Op} {a : Expr} (ha : P a) : P (.app op [a]) :=
  (hc.app _ _).2 (by intro e he; simp only [List.mem_singleton] at he; subst he; exact ha)

theorem Comp.walkNot (hc : Comp P) {c : Expr} (h : P c) : P (walkNot c) := by
  unfold Simp.walkNot
  split
  · exact hc.bool _
  · exact (hc.app _ _).1 h _ (by simp)
  · exact hc.mkNot h

theorem Comp.rebuild (hc : Comp P) {op : Op} {l : List Expr} (h : ∀ e, e ∈ l → P e) :
    P (rebuild op l) := by
  unfold Expr.rebuild
  split
  · exact hc.mkAnd h
  · exact hc.mkOr h
  · exact hc.mkNot (h _ (by simp))
  · exact hc.mkPlus h
  · exact hc.mkTimes h
  · exact (hc.app _ _).2 h

/-! ### and / or -/

theorem addLit_all {acc : List Expr} {s : Expr} {acc' : List Expr}
    (hacc : ∀ e, e ∈ acc → P e) (hs : P s) (h : addLit acc s = some acc') : ∀ e, e ∈ acc' → P e := by
  unfold addLit at h
  split at h
  · cases h
  · split at h <;> simp only [Option.some.injEq] at h <;> subst h
    · exact hacc
    · intro e he
      rcases List.mem_append.1 he with he | he
      · exact hacc e he
      · simp only [List.mem_singleton] at he; subst he; exact hs

theorem addLits_all : ∀ {ss acc acc' : List Expr},
    (∀ e, e ∈ acc → P e) → (∀ e, e ∈ ss → P e) → addLits acc ss = some acc' → ∀ e, e ∈ acc' → P e
  | [], acc, acc', hacc, _, h => by
    simp only [addLits, Option.some.injEq] at h; subst h; exact hacc
  | s :: ss, acc, acc', hacc, hss, h => by
    simp only [addLits] at h
    split at h
    · cases h
    · rename_i acc1 h1
      exact addLits_all (addLit_all hacc (hss s (by simp)) h1)
        (fun e he => hss e (List.mem_cons_of_mem _ he)) h

theorem sameJunc_eq {isAnd : Bool} {a : Expr} {ss : List Expr} (h : sameJunc? isAnd a = some ss) :
    a = .app (if isAnd then .and else .or) ss := by
  unfold sameJunc? at h
  split at h
  · split at h
    · rename_i hi; simp only [Option.some.injEq] at h; subst h; simp [hi]
    · cases h
  · split at h
    · cases h
    · rename_i hi; simp only [Option.some.injEq] at h; subst h; simp [hi]
  · cases h

/-- the loop of `walk_and`/`walk_or` only keeps arguments, or arguments of same-connective arguments -/
theorem juncLoop_all (isAnd : Bool)
    (hsub : ∀ a ss, P a → sameJunc? isAnd a = some ss → ∀ s, s ∈ ss → P s) : ∀ {args acc l : List Expr},
    (∀ e, e ∈ acc → P e) → (∀ a, a ∈ args → P a) →
    juncLoop isAnd acc args = some l → ∀ e, e ∈ l → P e
  | [], acc, l, hacc, _, h => by
    simp only [juncLoop, Option.some.injEq] at h; subst h; exact hacc
  | a :: rest, acc, l, hacc, hargs, h => by
    have hrest : ∀ a', a' ∈ rest → P a' := fun a' ha' => hargs a' (List.mem_cons_of_mem _ ha')
    simp only [juncLoop] at h
    split at h
    · exact juncLoop_all isAnd hsub hacc hrest h
    · split at h
      · cases h
      · split at h
        · rename_i ss hss
          have hpa := hargs a (by simp)
          split at h
          · cases h
          · rename_i acc1 h1
            exact juncLoop_all isAnd hsub (addLits_all hacc (hsub a ss hpa hss) h1) hrest h
        · split at h
          · cases h
          · rename_i acc1 h1
            exact juncLoop_all isAnd hsub (addLit_all hacc (hargs a (by simp)) h1) hrest h

theorem Comp.walkJunc (hc : Comp P) {isAnd : Bool} {args : List Expr}
    (h : ∀ e, e ∈ args → P e) : P (walkJunc isAnd args) := by
  have hg : P (juncGeneral isAnd args) := by
    unfold juncGeneral
    split
    · exact hc.bool _
    · rename_i l hl
      have hl' := juncLoop_all isAnd (fun a ss hpa hss => by
        rw [sameJunc_eq hss] at hpa; exact (hc.app _ _).1 hpa) (acc := [])
        (fun e he => absurd he (by simp)) h hl
      unfold mkJunc; split
      · exact hc.mkAnd hl'
      · exact hc.mkOr hl'
  unfold Simp.walkJunc
  split
  · split
    · exact h _ (by simp)
    · exact hg
  · exact hg

theorem Comp.walkIff (hc : Comp P) {a b : Expr} (ha : P a) (hb : P b) : P (walkIff a b) := by
  unfold Simp.walkIff
  split
  · exact hc.bool _
  · split
    · exact hb
    · exact hc.mkNot hb
  · split
    · exact ha
    · exact hc.mkNot ha
  · split
    · exact hc.bool _
    · exact hc.app2 ha hb

theorem Comp.walkImplies (hc : Comp P) {a b : Expr} (ha : P a) (hb : P b) : P (walkImplies a b) := by
  unfold Simp.walkImplies
  split
  · split
    · exact hb
    · exact hc.bool _
  · split
    · split
      · exact hc.bool _
      · exact hc.mkNot ha
    · split
      · exact hc.bool _
      · exact hc.app2 ha hb

theorem Comp.walkEquals (hc : Comp P) {cfg : SimpCfg} {a b : Expr} (ha : P a) (hb : P b) :
    P (walkEquals cfg a b) := by
  unfold Simp.walkEquals
  split
  · exact hc.bool _
  · split
    · exact hc.bool _
    · split
      · split
        · exact hc.bool _
        · exact hc.app2 ha hb
      · exact hc.app2 ha hb

theorem Comp.walkCmp (hc : Comp P) {strict : Bool} {a b e' : Expr} (ha : P a) (hb : P b)
    (h : walkCmp strict a b = .ok e') : P e' := by
  unfold Simp.walkCmp at h
  split at h
  · split at h
    · simp only [pure, Except.pure, Except.ok.injEq] at h; subst h; exact hc.bool _
    · cases h
  · simp only [pure, Except.pure, Except.ok.injEq] at h; subst h
    split <;> exact hc.app2 ha hb

/-! ### arithmetic -/

theorem plusItem_all {st : Num × List Expr} {s : Expr} (hst : ∀ e, e ∈ st.2 → P e) (hs : P s) :
    ∀ e, e ∈ (plusItem st s).2 → P e := by
  unfold plusItem
  split
  · exact hst
  · intro e he
    rcases List.mem_append.1 he with he | he
    · exact hst e he
    · simp only [List.mem_singleton] at he; subst he; exact hs

theorem foldl_plusItem_all : ∀ {ss : List Expr} {st : Num × List Expr},
    (∀ e, e ∈ st.2 → P e) → (∀ s, s ∈ ss → P s) → ∀ e, e ∈ (ss.foldl plusItem st).2 → P e
  | [], st, hst, _ => by simpa using hst
  | s :: ss, st, hst, hss => by
    simp only [List.foldl_cons]
    exact foldl_plusItem_all (plusItem_all hst (hss s (by simp)))
      (fun s' hs' => hss s' (List.mem_cons_of_mem _ hs'))

theorem plusLoop_all (hsub : ∀ ss, P (.app .plus ss) → ∀ s, s ∈ ss → P s) :
    ∀ {args : List Expr} {st : Num × List Expr},
    (∀ e, e ∈ st.2 → P e) → (∀ a, a ∈ args → P a) → ∀ e, e ∈ (plusLoop st args).2 → P e
  | [], st, hst, _ => by simpa [plusLoop] using hst
  | a :: rest, st, hst, hargs => by
    have hrest : ∀ a', a' ∈ rest → P a' := fun a' ha' => hargs a' (List.mem_cons_of_mem _ ha')
    have hpa := hargs a (by simp)
    unfold plusLoop
    split
    · exact plusLoop_all hsub (st := (st.1.add _, st.2)) hst hrest
    · split
      · exact plusLoop_all hsub (foldl_plusItem_all hst (hsub _ hpa)) hrest
      · refine plusLoop_all hsub (st := (st.1, st.2 ++ [a])) ?_ hrest
        intro e he
        rcases List.mem_append.1 he with he | he
        · exact hst e he
        · simp only [List.mem_singleton] at he; subst he; exact hpa

theorem Comp.walkPlus (hc : Comp P) {args : List Expr} (h : ∀ a, a ∈ args → P a) :
    P (walkPlus args) := by
  have hl := plusLoop_all (fun ss hp => (hc.app _ _).1 hp) (st := (.i 0, []))
    (fun e he => absurd he (by simp)) h
  unfold Simp.walkPlus
  simp only []
  split
  · refine hc.mkPlus ?_
    intro e he
    rcases List.mem_append.1 he with he | he
    · exact hl e he
    · simp only [List.mem_singleton] at he; subst he; exact hc.toExpr _
  · split
    · exact hc.int 0
    · exact hc.mkPlus hl

theorem Comp.walkMinus (hc : Comp P) {a b : Expr} (ha : P a) (hb : P b) : P (walkMinus a b) := by
  unfold Simp.walkMinus
  split
  · exact hc.toExpr _
  · split
    · refine hc.walkPlus ?_
      intro e he
      simp only [List.mem_cons, List.not_mem_nil, or_false] at he
      rcases he with rfl | rfl
      · exact ha
      · exact hc.toExpr _
    · exact hc.app2 ha hb
  · exact hc.app2 ha hb

theorem timesItem_all {o : Option (Num × List Expr)} {s : Expr} {st' : Num × List Expr}
    (ho : ∀ st, o = some st → ∀ e, e ∈ st.2 → P e) (hs : P s) (h : timesItem o s = some st') :
    ∀ e, e ∈ st'.2 → P e := by
  unfold timesItem at h
  split at h
  · cases h
  · rename_i st
    split at h
    · split at h
      · cases h
      · simp only [Option.some.injEq] at h; subst h; exact ho st rfl
    · simp only [Option.some.injEq] at h; subst h
      intro e he
      rcases List.mem_append.1 he with he | he
      · exact ho st rfl e he
      · simp only [List.mem_singleton] at he; subst he; exact hs

theorem foldl_timesItem_all : ∀ {ss : List Expr} {o : Option (Num × List Expr)} {st' : Num × List Expr},
    (∀ st, o = some st → ∀ e, e ∈ st.2 → P e) → (∀ s, s ∈ ss → P s) →
    ss.foldl timesItem o = some st' → ∀ e, e ∈ st'.2 → P e
  | [], o, st', ho, _, h => by
    simp only [List.foldl_nil] at h; exact ho st' h
  | s :: ss, o, st', ho, hss, h => by
    simp only [List.foldl_cons] at h
    refine foldl_timesItem_all (o := timesItem o s) ?_ (fun s' hs' => hss s' (List.mem_cons_of_mem _ hs')) h
    intro st hst
    exact timesItem_all ho (hss s (by simp)) hst

theorem timesLoop_all (hsub : ∀ ss, P (.app .times ss) → ∀ s, s ∈ ss → P s) :
    ∀ {args : List Expr} {st st' : Num × List Expr},
    (∀ e, e ∈ st.2 → P e) → (∀ a, a ∈ args → P a) → timesLoop st args = some st' →
    ∀ e, e ∈ st'.2 → P e
  | [], st, st', hst, _, h => by
    simp only [timesLoop, Option.some.injEq] at h; subst h; exact hst
  | a :: rest, st, st', hst, hargs, h => by
    have hrest : ∀ a', a' ∈ rest → P a' := fun a' ha' => hargs a' (List.mem_cons_of_mem _ ha')
    have hpa := hargs a (by simp)
    unfold timesLoop at h
    split at h
    · split at h
      · cases h
      · exact timesLoop_all hsub (st := (st.1.mul _, st.2)) hst hrest h
    · split at h
      · split at h
        · cases h
        · rename_i st1 h1
          refine timesLoop_all hsub ?_ hrest h
          refine foldl_timesItem_all (o := some st) ?_ (hsub _ hpa) h1
          intro st0 h0; simp only [Option.some.injEq] at h0; subst h0; exact hst
      · refine timesLoop_all hsub (st := (st.1, st.2 ++ [a])) ?_ hrest h
        intro e he
        rcases List.mem_append.1 he with he | he
        · exact hst e he
        · simp only [List.mem_singleton] at he; subst he; exact hpa

theorem Comp.walkTimes (hc : Comp P) {args : List Expr} (h : ∀ a, a ∈ args → P a) :
    P (walkTimes args) := by
  unfold Simp.walkTimes
  split
  · exact hc.int 0
  · rename_i st hst
    have hl := timesLoop_all (fun ss hp => (hc.app _ _).1 hp) (st := (.i 1, []))
      (fun e he => absurd he (by simp)) h hst
    split
    · refine hc.mkTimes ?_
      intro e he
      rcases List.mem_append.1 he with he | he
      · exact hl e he
      · simp only [List.mem_singleton] at he; subst he; exact hc.toExpr _
    · split
      · exact hc.int 1
      · exact hc.mkTimes hl

theorem Comp.walkDiv (hc : Comp P) {a b e' : Expr} (ha : P a) (hb : P b)
    (h : walkDiv a b = .ok e') : P e' := by
  unfold Simp.walkDiv at h
  split at h
  · split at h
    · cases h
    · split at h <;> simp only [pure, Except.pure, Except.ok.injEq] at h <;> subst h
      · exact hc.int _
      · exact hc.real _
  · split at h
    · cases h
    · simp only [pure, Except.pure, Except.ok.injEq] at h; subst h; exact hc.real _
  · simp only [pure, Except.pure, Except.ok.injEq] at h; subst h; exact hc.app2 ha hb

/-! ### the dispatch -/

/-- `P` holds of everything the tables of `cfg` can insert into a result -/
structure TablesOK (cfg : SimpCfg) (P : Expr → Prop) : Prop where
  init : ∀ f args v, cfg.initialValue f args = some v → P v
  funs : ∀ g vs r e', cfg.funLookup g vs = some r → convResult g.ty r = .ok e' → P e'

theorem walkApp_comp (hc : Comp P) {cfg : SimpCfg} (ht : TablesOK cfg P) {op : Op} {as : List Expr}
    {e' : Expr} (has : ∀ a, a ∈ as → P a) (h : walkApp cfg op as = .ok e') : P e' := by
  unfold walkApp at h
  split at h
  all_goals try (simp only [pure, Except.pure, Except.ok.injEq] at h)
  · subst h; exact hc.walkJunc has
  · subst h; exact hc.walkJunc has
  · subst h; exact hc.walkNot (has _ (by simp))
  · subst h; exact hc.walkIff (has _ (by simp)) (has _ (by simp))
  · subst h; exact hc.walkImplies (has _ (by simp)) (has _ (by simp))
  · subst h; exact hc.walkEquals (has _ (by simp)) (has _ (by simp))
  · exact hc.walkCmp (has _ (by simp)) (has _ (by simp)) h
  · exact hc.walkCmp (has _ (by simp)) (has _ (by simp)) h
  · subst h
    unfold walkFluent
    simp only [mkFluent]
    split
    · exact (hc.app _ _).2 has
    · split
      · exact (hc.app _ _).2 has
      · split
        · rename_i v hv; exact ht.init _ _ v hv
        · exact (hc.app _ _).2 has
  · unfold walkIfun at h
    split at h
    · simp only [pure, Except.pure, Except.ok.injEq] at h; subst h; exact (hc.app _ _).2 has
    · split at h
      · cases h
      · rename_i r hr; exact ht.funs _ _ r e' hr h
  · subst h; exact (hc.app _ _).2 has
  · subst h; exact hc.walkPlus has
  · subst h; exact hc.walkMinus (has _ (by simp)) (has _ (by simp))
  · subst h; exact hc.walkTimes has
  · exact hc.walkDiv (has _ (by simp)) (has _ (by simp)) h
  · subst h
    unfold walkAlwaysLike
    split
    · exact hc.bool _
    · split
      · exact hc.bool _
      · exact (hc.app _ _).2 has
  · subst h
    unfold walkAlwaysLike
    split
    · exact hc.bool _
    · split
      · exact hc.bool _
      · exact (hc.app _ _).2 has
  · subst h
    unfold walkAtMostOnce
    split
    · exact hc.bool _
    · exact (hc.app _ _).2 has
  · subst h
    unfold walkSometimeBefore
    split
    · exact hc.bool _
    · split
      · exact hc.bool _
      · exact (hc.app _ _).2 has
  · subst h
    unfold walkSometimeAfter
    split
    · exact hc.bool _
    · split
      · exact hc.bool _
      · split
        · exact hc.bool _
        · exact (hc.app _ _).2 has
  · cases h

end
end UPVerif.Simp
