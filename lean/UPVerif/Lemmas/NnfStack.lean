import UPVerif.Core.Walkers.Nnf
/-! the stack machine of `Nnf.get_nnf_expression` computes the recursion `nnf` (C12) -/
namespace UPVerif.Expr

theorem nnfIter_add (m n : Nat) (s : NnfState) : nnfIter (m + n) s = nnfIter n (nnfIter m s) := by
  induction m generalizing s with
  | zero => simp [nnfIter]
  | succ m ih => rw [Nat.succ_add]; simp only [nnfIter]; exact ih _

theorem nnfIter_succ (n : Nat) (s : NnfState) : nnfIter (1 + n) s = nnfIter n (nnfStep s) := by
  rw [Nat.add_comm]; rfl

theorem nnfCost_atom (e : Expr)
    (h1 : ∀ x, e = .app .not [x] → False) (h2 : ∀ args, e = .app .and args → False)
    (h3 : ∀ args, e = .app .or args → False) (h4 : ∀ a b, e = .app .implies [a, b] → False)
    (h5 : ∀ a b, e = .app .iff [a, b] → False) : nnfCost e = 1 := by
  unfold nnfCost
  split
  · exact absurd rfl (fun h => h1 _ h)
  · exact absurd rfl (fun h => h2 _ h)
  · exact absurd rfl (fun h => h3 _ h)
  · exact absurd rfl (fun h => h4 _ _ h)
  · exact absurd rfl (fun h => h5 _ _ h)
  · rfl

theorem nnfStep_atom (p : Bool) (e : Expr) (stk : List NnfFrame) (S : List Expr)
    (h1 : ∀ x, e = .app .not [x] → False) (h2 : ∀ args, e = .app .and args → False)
    (h3 : ∀ args, e = .app .or args → False) (h4 : ∀ a b, e = .app .implies [a, b] → False)
    (h5 : ∀ a b, e = .app .iff [a, b] → False) :
    nnfStep ⟨.visit p e :: stk, S⟩ = ⟨stk, (if p then e else mkNot e) :: S⟩ := by
  simp only [nnfStep]

theorem nnf_atom' (p : Bool) (e : Expr)
    (h1 : ∀ x, e = .app .not [x] → False) (h2 : ∀ args, e = .app .and args → False)
    (h3 : ∀ args, e = .app .or args → False) (h4 : ∀ a b, e = .app .implies [a, b] → False)
    (h5 : ∀ a b, e = .app .iff [a, b] → False) :
    nnf p e = if p then e else mkNot e := by
  unfold nnf
  split
  · exact absurd rfl (fun h => h1 _ h)
  · exact absurd rfl (fun h => h2 _ h)
  · exact absurd rfl (fun h => h3 _ h)
  · exact absurd rfl (fun h => h4 _ _ h)
  · exact absurd rfl (fun h => h5 _ _ h)
  · rfl

theorem nnfList_length (p : Bool) (es : List Expr) : (nnfList p es).length = es.length := by
  induction es with
  | nil => rfl
  | cons e es ih => simp [nnfList, ih]

theorem machine_both :
    (∀ (p : Bool) (e : Expr), ∀ (stk : List NnfFrame) (S : List Expr),
        nnfIter (nnfCost e) ⟨.visit p e :: stk, S⟩ = ⟨stk, nnf p e :: S⟩) ∧
    (∀ (p : Bool) (es : List Expr), ∀ (stk : List NnfFrame) (S : List Expr),
        nnfIter (nnfCostList es) ⟨es.reverse.map (NnfFrame.visit p) ++ stk, S⟩ = ⟨stk, nnfList p es ++ S⟩) := by
  apply nnf.mutual_induct
  · -- not
    intro p x ih stk S
    rw [nnfCost, nnfIter_succ, nnf]
    simp only [nnfStep]
    exact ih stk S
  · -- and
    intro p args ih stk S
    have e : nnfCost (.app .and args) = 1 + (nnfCostList args + 1) := by rw [nnfCost]; omega
    rw [e, nnfIter_succ, nnf]
    simp only [nnfStep]
    rw [nnfIter_add, ih]
    simp only [nnfIter, nnfStep, ← nnfList_length p args, List.take_left', List.drop_left']
  · -- or
    intro p args ih stk S
    have e : nnfCost (.app .or args) = 1 + (nnfCostList args + 1) := by rw [nnfCost]; omega
    rw [e, nnfIter_succ, nnf]
    simp only [nnfStep]
    rw [nnfIter_add, ih]
    simp only [nnfIter, nnfStep, ← nnfList_length p args, List.take_left', List.drop_left']
  · -- implies
    intro p a b iha ihb stk S
    have e : nnfCost (.app .implies [a, b]) = 1 + (nnfCost b + (nnfCost a + 1)) := by rw [nnfCost]; omega
    rw [e, nnfIter_succ, nnf]
    simp only [nnfStep]
    rw [nnfIter_add, ihb, nnfIter_add, iha]
    simp [nnfIter, nnfStep]
  · -- iff
    intro p a b iha ihb ihna ihnb stk S
    have e : nnfCost (.app .iff [a, b]) =
        1 + (nnfCost b + (nnfCost a + (1 + (nnfCost b + (nnfCost a + (1 + 1)))))) := by rw [nnfCost]; omega
    rw [e, nnfIter_succ, nnf]
    simp only [nnfStep]
    rw [nnfIter_add, ihnb, nnfIter_add, ihna, nnfIter_succ]
    simp only [nnfStep, List.take, List.drop]
    rw [nnfIter_add, ihb, nnfIter_add, iha]
    simp [nnfIter, nnfStep]
  · -- atom, p = true
    intro e h1 h2 h3 h4 h5 stk S
    rw [nnfCost_atom e h1 h2 h3 h4 h5, nnf_atom' true e h1 h2 h3 h4 h5]
    simp only [nnfIter, nnfStep_atom true e stk S h1 h2 h3 h4 h5]
  · -- atom, p = false
    intro p e h1 h2 h3 h4 h5 _ stk S
    rw [nnfCost_atom e h1 h2 h3 h4 h5, nnf_atom' p e h1 h2 h3 h4 h5]
    simp only [nnfIter, nnfStep_atom p e stk S h1 h2 h3 h4 h5]
  · intro p stk S; simp [nnfCostList, nnfIter, nnfList]
  · intro p e es ihe ihes stk S
    have c : nnfCostList (e :: es) = nnfCostList es + nnfCost e := by rw [nnfCostList]; omega
    rw [c, nnfIter_add]
    simp only [List.reverse_cons, List.map_append, List.map_cons, List.map_nil, List.append_assoc,
      List.singleton_append]
    rw [ihes, ihe]
    simp [nnfList]

end UPVerif.Expr
