import UPVerif.Lemmas.KindProgLemmas
/-! Helper lemmas for `Props/C09Versions.lean`: `kindAtLatest` (the model of
`utils._kind_at_latest_version`) never fails, yields a kind equivalent to the given one, and makes
every `resulting_problem_kind` total on kinds of every version. -/
namespace UPVerif.KindProg
open UPVerif.Kind

/-- decidable side condition on the regenerated upgrade tables: a rule adds only declared features
    (otherwise the `ProblemKind` constructor would reject an upgraded feature set) -/
def upgradesInAll (T : Tables) : Bool :=
  T.upgrades.all (fun u => u.rules.all (fun r => r.adds.all (fun a => T.all.contains a)))

theorem apply_inAll {T : Tables} {u : Upgrade}
    (hu : u.rules.all (fun r => r.adds.all (fun a => T.all.contains a)) = true) {fs : List Feature}
    (h : ∀ f ∈ fs, f ∈ T.all) : ∀ f ∈ u.apply fs, f ∈ T.all := by
  intro f hf
  rw [mem_apply] at hf
  rcases hf.1 with hfs | ⟨r, hr, _, hfr⟩
  · exact h f hfs
  · simp only [List.all_eq_true, List.contains_iff_mem] at hu
    exact hu r hr f hfr

theorem upgradeTo_inAll {T : Tables} (hU : upgradesInAll T = true) :
    ∀ (n v : Nat) (fs : List Feature), (∀ f ∈ fs, f ∈ T.all) → ∀ f ∈ upgradeTo T fs v n, f ∈ T.all := by
  intro n
  induction n with
  | zero => intro v fs h; simpa [upgradeTo] using h
  | succ n ih =>
    intro v fs h
    unfold upgradeTo
    split
    · rename_i u hu
      have hmem : u ∈ T.upgrades := List.mem_of_getElem? hu
      unfold upgradesInAll at hU
      rw [List.all_eq_true] at hU
      exact ih (v + 1) _ (apply_inAll (hU u hmem) h)
    · exact ih (v + 1) fs h

/-- the feature set `_kind_at_latest_version` builds for a kind older than the latest version -/
def upgradedFeats (T : Tables) (k : Kind) : List Feature :=
  upgradeTo T k.feats (k.ver T) (T.latest - k.ver T)

/-- the kind `_kind_at_latest_version` returns (when the constructor accepts it) -/
def upgraded (T : Tables) (k : Kind) : Kind :=
  if T.latest ≤ k.ver T then k else { feats := upgradedFeats T k, version := some T.latest }

theorem upgraded_wf {T : Tables} (hT : versionsOK T = true) (hU : upgradesInAll T = true) (k : Kind)
    (hk : ∀ f ∈ k.feats, f ∈ T.all) :
    ({ feats := upgradedFeats T k, version := some T.latest } : Kind).wf T = true := by
  have hall := upgradeTo_inAll hU (T.latest - k.ver T) (k.ver T) k.feats hk
  have h1 : 1 ≤ T.latest := by
    unfold versionsOK at hT
    simp only [Bool.and_eq_true, decide_eq_true_eq] at hT
    exact hT.1
  unfold Kind.wf
  simp only [Bool.and_eq_true, List.all_eq_true, List.contains_iff_mem, decide_eq_true_eq]
  exact ⟨hall, by omega, fun f _ => added_le_latest hT f⟩

/-- `_kind_at_latest_version` never fails an assertion on a kind over declared features, and returns
    `upgraded` -/
theorem kindAtLatest_eq {T : Tables} (hT : versionsOK T = true) (hU : upgradesInAll T = true) (k : Kind)
    (hk : ∀ f ∈ k.feats, f ∈ T.all) : kindAtLatest T k = some (upgraded T k) := by
  unfold kindAtLatest upgraded
  split
  · rfl
  · rename_i h
    have hle : k.ver T ≤ T.latest := by omega
    simp only [equalize, hle, if_true, mkKind]
    have := upgraded_wf hT hU k hk
    unfold upgradedFeats at this
    simp [this, upgradedFeats]

/-- whatever `kindAtLatest` returns is `upgraded` -/
theorem kindAtLatest_some {T : Tables} {k k0 : Kind} (h : kindAtLatest T k = some k0) : k0 = upgraded T k := by
  unfold kindAtLatest at h
  unfold upgraded
  split at h
  · rename_i hl
    simp only [hl, if_true]
    exact (Option.some.inj h).symm
  · rename_i hl
    have hle : k.ver T ≤ T.latest := by omega
    simp only [equalize, hle, if_true, mkKind] at h
    simp only [hl, if_false]
    split at h
    · exact (Option.some.inj h).symm
    · cases h

theorem upgraded_version_cases (T : Tables) (k : Kind) :
    (T.latest ≤ k.ver T ∧ upgraded T k = k) ∨
    (k.ver T < T.latest ∧ upgraded T k = { feats := upgradedFeats T k, version := some T.latest }) := by
  unfold upgraded
  by_cases h : T.latest ≤ k.ver T
  · exact Or.inl ⟨h, by simp [h]⟩
  · exact Or.inr ⟨by omega, by simp [h]⟩

theorem upgraded_ver (T : Tables) (k : Kind) : (upgraded T k).ver T = max (k.ver T) T.latest := by
  rcases upgraded_version_cases T k with ⟨h, e⟩ | ⟨h, e⟩
  · rw [e]; omega
  · rw [e, ver_some]; omega

/-- no `set_*` can fail its version assertion on the kind `_kind_at_latest_version` returns -/
theorem setOK_upgraded {T : Tables} (hT : versionsOK T = true) (k : Kind) (f : Feature) :
    ∀ v, (upgraded T k).version = some v → added T f ≤ v := by
  intro v hv
  have ha := added_le_latest hT f
  rcases upgraded_version_cases T k with ⟨h, e⟩ | ⟨_, e⟩
  · rw [e] at hv
    have := ver_of_version (T := T) hv
    omega
  · rw [e] at hv
    cases hv
    exact ha

theorem le_self (T : Tables) (a : Kind) : a.le T a = true := by
  rw [le_same rfl, subset_iff]; exact fun _ h => h

theorem le_of_ver_le {T : Tables} (a b : Kind) (h : a.ver T ≤ b.ver T) :
    a.le T b = subset (validPart T (b.ver T) (upgradeTo T a.feats (a.ver T) (b.ver T - a.ver T)))
                      (validPart T (b.ver T) b.feats) := by
  simp [Kind.le, equalize, h]

theorem le_of_ver_gt {T : Tables} (a b : Kind) (h : ¬ a.ver T ≤ b.ver T) :
    a.le T b = subset (validPart T (a.ver T) a.feats)
                      (validPart T (a.ver T) (upgradeTo T b.feats (b.ver T) (a.ver T - b.ver T))) := by
  simp [Kind.le, equalize, h]

/-- NOTHING IS LOST OR GAINED BY THE UPGRADE: the kind `_kind_at_latest_version` returns is `<=`-equivalent
    to the given one (`<=` upgrades the older operand the same way) -/
theorem le_upgraded (T : Tables) (k : Kind) : k.le T (upgraded T k) = true ∧ (upgraded T k).le T k = true := by
  rcases upgraded_version_cases T k with ⟨_, e⟩ | ⟨h, e⟩
  · rw [e]; exact ⟨le_self T k, le_self T k⟩
  · rw [e]
    have hv : ({ feats := upgradedFeats T k, version := some T.latest } : Kind).ver T = T.latest := ver_some _ _
    constructor
    · rw [le_of_ver_le _ _ (by rw [hv]; omega), hv, subset_iff]
      exact fun _ h => h
    · rw [le_of_ver_gt _ _ (by rw [hv]; omega), hv, subset_iff]
      exact fun _ h => h

/-- the declared result as a function of the given kind (assertion-free): the body run on
    `upgraded` / on the kind itself, its `problem_kind.has_*()` tests reading the given kind -/
def Decl.resultOf (T : Tables) (d : Decl) (k : Kind) : Kind :=
  let k0 := if d.atLatest then upgraded T k else k
  { feats := d.resulting.exec k.feats k0.feats, version := k0.version }

/-- a class whose `resulting_problem_kind` starts from `problem_kind.clone()` may only set features
    that exist in every version; the others start from `_kind_at_latest_version` -/
def Decl.startOK (T : Tables) (d : Decl) : Bool :=
  d.atLatest || d.resulting.sets.all (fun f => decide (added T f ≤ 1))

/-- TOTALITY ON EVERY VERSION: for a constructible kind, `resulting_problem_kind` fails no assertion
    and returns `resultOf` -/
theorem resultingKind_total {T : Tables} (hT : versionsOK T = true) (hU : upgradesInAll T = true)
    (d : Decl) (hd : d.startOK T = true) (k : Kind) (hk : k.wf T = true) :
    d.resultingKind T k = some (d.resultOf T k) := by
  have hall : ∀ f ∈ k.feats, f ∈ T.all := by
    unfold Kind.wf at hk
    simp only [Bool.and_eq_true, List.all_eq_true, List.contains_iff_mem] at hk
    exact hk.1
  unfold Decl.resultingKind Decl.startKind Decl.resultOf
  cases hat : d.atLatest with
  | true =>
    simp only [if_true, kindAtLatest_eq hT hU k hall, Option.bind_some]
    rw [run_eq_exec T (upgraded T k).version d.resulting k.feats (upgraded T k).feats
      (fun f _ v hv => setOK_upgraded hT k f v hv)]
    rfl
  | false =>
    have hs : ∀ f ∈ d.resulting.sets, added T f ≤ 1 := by
      unfold Decl.startOK at hd
      simp only [hat, Bool.false_or, List.all_eq_true, decide_eq_true_eq] at hd
      exact hd
    have hv : ∀ f ∈ d.resulting.sets, ∀ v, k.version = some v → added T f ≤ v := by
      intro f hf v hv
      unfold Kind.wf at hk
      simp only [hv, Bool.and_eq_true, decide_eq_true_eq] at hk
      have := hs f hf
      omega
    simp only [Bool.false_eq_true, if_false, Option.bind_some]
    rw [run_eq_exec T k.version d.resulting k.feats k.feats hv]
    rfl

/-- on a kind of the latest version `resultOf` is the `execKind` the older theorems speak about -/
theorem resultOf_latest (T : Tables) (d : Decl) (k : Kind) (hk : k.version = some T.latest) :
    d.resultOf T k = execKind d.resulting k := by
  have hu : upgraded T k = k := by
    unfold upgraded
    rw [ver_of_version hk]
    simp
  unfold Decl.resultOf execKind
  cases d.atLatest <;> simp [hu]

/-! ## the upgrade commutes with the declared transformers (kinds of every version) -/

section generic
variable {α : Type} [BEq α] [LawfulBEq α]

/-- the features a condition tests on the `problem_kind` ARGUMENT (`problem_kind.has_*()`) -/
def Cond.inpTests : Cond α → List α
  | .has .inp fs => fs
  | .has .cur _ => []
  | .and a b => a.inpTests ++ b.inpTests
  | .or a b => a.inpTests ++ b.inpTests
  | .not a => a.inpTests

def Prog.inpTests : Prog α → List α
  | .done => []
  | .set _ k => k.inpTests
  | .unset _ k => k.inpTests
  | .ite c t e k => c.inpTests ++ t.inpTests ++ e.inpTests ++ k.inpTests

theorem cond_inp_congr (c : Cond α) {inp inp' : List α} (cur : List α)
    (h : ∀ f ∈ c.inpTests, (f ∈ inp ↔ f ∈ inp')) : c.eval inp cur = c.eval inp' cur := by
  induction c with
  | has s n =>
    cases s
    · simp only [Cond.eval]
      exact hasAny_congr (U := fun f => f ∈ n) (fun f hf => hf) (fun f hf => h f hf)
    · rfl
  | and a b iha ihb =>
    simp only [Cond.inpTests, List.mem_append] at h
    simp only [Cond.eval, iha (fun f hf => h f (Or.inl hf)), ihb (fun f hf => h f (Or.inr hf))]
  | or a b iha ihb =>
    simp only [Cond.inpTests, List.mem_append] at h
    simp only [Cond.eval, iha (fun f hf => h f (Or.inl hf)), ihb (fun f hf => h f (Or.inr hf))]
  | not a iha =>
    simp only [Cond.inpTests] at h
    simp only [Cond.eval, iha h]

/-- the `problem_kind` argument influences a body only through the features tested on it -/
theorem exec_inp_congr (p : Prog α) : ∀ {inp inp' : List α} (cur : List α),
    (∀ f ∈ p.inpTests, (f ∈ inp ↔ f ∈ inp')) → p.exec inp cur = p.exec inp' cur := by
  induction p with
  | done => intro _ _ _ _; rfl
  | set f k ih => intro inp inp' cur h; exact ih _ h
  | unset f k ih => intro inp inp' cur h; exact ih _ h
  | ite c t e k iht ihe ihk =>
    intro inp inp' cur h
    simp only [Prog.inpTests, List.mem_append] at h
    simp only [Prog.exec, cond_inp_congr c cur (fun f hf => h f (Or.inl (Or.inl (Or.inl hf)))),
      iht cur (fun f hf => h f (Or.inl (Or.inl (Or.inr hf)))),
      ihe cur (fun f hf => h f (Or.inl (Or.inr hf)))]
    split
    · exact ihk _ (fun f hf => h f (Or.inr hf))
    · exact ihk _ (fun f hf => h f (Or.inr hf))

end generic

/-- no upgrade function adds or removes `f` -/
def stableB (T : Tables) (f : Feature) : Bool :=
  T.upgrades.all (fun u => !(u.removes.contains f) && u.rules.all (fun r => !(r.adds.contains f)))

theorem mem_apply_stable {u : Upgrade} {f : Feature}
    (h : (!(u.removes.contains f) && u.rules.all (fun r => !(r.adds.contains f))) = true) (fs : List Feature) :
    f ∈ u.apply fs ↔ f ∈ fs := by
  simp only [Bool.and_eq_true, Bool.not_eq_eq_eq_not, Bool.not_true, List.contains_eq_mem,
    decide_eq_false_iff_not, List.all_eq_true] at h
  rw [mem_apply]
  constructor
  · rintro ⟨hf | ⟨r, hr, _, hfr⟩, _⟩
    · exact hf
    · exact absurd hfr (h.2 r hr)
  · intro hf; exact ⟨Or.inl hf, h.1⟩

theorem mem_upgradeTo_stable {T : Tables} {f : Feature} (hs : stableB T f = true) :
    ∀ (n v : Nat) (fs : List Feature), f ∈ upgradeTo T fs v n ↔ f ∈ fs := by
  intro n
  induction n with
  | zero => intro v fs; simp [upgradeTo]
  | succ n ih =>
    intro v fs
    unfold upgradeTo
    split
    · rename_i u hu
      have hmem : u ∈ T.upgrades := List.mem_of_getElem? hu
      unfold stableB at hs
      rw [List.all_eq_true] at hs
      rw [ih (v + 1) _, mem_apply_stable (hs u hmem)]
    · exact ih (v + 1) fs

theorem mem_upgraded_stable {T : Tables} {f : Feature} (hs : stableB T f = true) (k : Kind) :
    f ∈ (upgraded T k).feats ↔ f ∈ k.feats := by
  rcases upgraded_version_cases T k with ⟨_, e⟩ | ⟨_, e⟩
  · rw [e]
  · rw [e]; exact mem_upgradeTo_stable hs _ _ _

/-- the tests a declaration makes on its `problem_kind` argument read only features that no upgrade
    touches (decided on the regenerated declarations) -/
def Decl.inpStable (T : Tables) (d : Decl) : Bool := d.resulting.inpTests.all (stableB T)

/-- for a class that starts from `_kind_at_latest_version`, the declared result for a kind is the
    declared result for the upgraded kind: UPGRADING COMMUTES WITH THE DECLARATION -/
theorem resultOf_upgraded {T : Tables} (d : Decl) (hat : d.atLatest = true) (hst : d.inpStable T = true)
    (k : Kind) : d.resultOf T k = execKind d.resulting (upgraded T k) := by
  unfold Decl.inpStable at hst
  rw [List.all_eq_true] at hst
  unfold Decl.resultOf execKind
  simp only [hat, if_true]
  rw [exec_inp_congr d.resulting (inp := k.feats) (inp' := (upgraded T k).feats) _
    (fun f hf => (mem_upgraded_stable (hst f hf) k).symm)]

theorem upgraded_idem (T : Tables) (k : Kind) : upgraded T (upgraded T k) = upgraded T k := by
  have h := upgraded_ver T k
  rcases upgraded_version_cases T (upgraded T k) with ⟨_, e⟩ | ⟨h', _⟩
  · exact e
  · omega

theorem upgraded_wf_of_wf {T : Tables} (hT : versionsOK T = true) (hU : upgradesInAll T = true) (k : Kind)
    (hk : k.wf T = true) : (upgraded T k).wf T = true := by
  have hall : ∀ f ∈ k.feats, f ∈ T.all := by
    unfold Kind.wf at hk
    simp only [Bool.and_eq_true, List.all_eq_true, List.contains_iff_mem] at hk
    exact hk.1
  rcases upgraded_version_cases T k with ⟨_, e⟩ | ⟨_, e⟩
  · rw [e]; exact hk
  · rw [e]; exact upgraded_wf hT hU k hall

/-- … hence `resulting_problem_kind(k) = resulting_problem_kind(upgraded k)` in the model with assertions -/
theorem resultingKind_upgraded {T : Tables} (hT : versionsOK T = true) (hU : upgradesInAll T = true)
    (d : Decl) (hat : d.atLatest = true) (hst : d.inpStable T = true) (k : Kind) (hk : k.wf T = true) :
    d.resultingKind T k = d.resultingKind T (upgraded T k) := by
  have hd : d.startOK T = true := by simp [Decl.startOK, hat]
  rw [resultingKind_total hT hU d hd k hk,
    resultingKind_total hT hU d hd (upgraded T k) (upgraded_wf_of_wf hT hU k hk),
    resultOf_upgraded d hat hst k, resultOf_upgraded d hat hst (upgraded T k), upgraded_idem]

/-! ### `<=` against a kind of the latest version sees only the upgraded kind -/

theorem upgraded_feats {T : Tables} (k : Kind) (h : k.ver T ≤ T.latest) :
    (upgraded T k).feats = upgradedFeats T k := by
  rcases upgraded_version_cases T k with ⟨h', e⟩ | ⟨_, e⟩
  · have : T.latest - k.ver T = 0 := by omega
    rw [e]; simp [upgradedFeats, this, upgradeTo]
  · rw [e]

theorem le_latest_upgraded {T : Tables} (k s : Kind) (hk : k.ver T ≤ T.latest) (hs : s.ver T = T.latest) :
    k.le T s = (upgraded T k).le T s := by
  have hv : (upgraded T k).ver T = s.ver T := by rw [upgraded_ver, hs]; omega
  rw [le_same hv, le_of_ver_le k s (by omega), hs, upgraded_feats k hk]
  rfl

theorem latest_le_upgraded {T : Tables} (a k : Kind) (hk : k.ver T ≤ T.latest) (ha : a.ver T = T.latest) :
    a.le T k = a.le T (upgraded T k) := by
  have hv : a.ver T = (upgraded T k).ver T := by rw [upgraded_ver, ha]; omega
  rw [le_same hv, upgraded_ver, upgraded_feats k hk]
  by_cases h : k.ver T = T.latest
  · have e : a.ver T = k.ver T := by omega
    have e0 : T.latest - k.ver T = 0 := by omega
    rw [le_same e, h]
    simp [upgradedFeats, e0, upgradeTo]
  · rw [le_of_ver_gt a k (by omega), ha]
    have : max (k.ver T) T.latest = T.latest := by omega
    rw [this]
    rfl

theorem supportsKind_upgraded {T : Tables} (d : Decl) (k : Kind) (hk : k.ver T ≤ T.latest) :
    d.supportsKind T k = d.supportsKind T (upgraded T k) := by
  unfold Decl.supportsKind kindOfProg
  cases d.supports.run T (some T.latest) [] [] with
  | none => rfl
  | some fs =>
    simp only [Option.map_some]
    rw [le_latest_upgraded k _ hk (ver_some _ _)]

theorem selectCompiler_upgraded {T : Tables} (ck : String) (k : Kind) (hk : k.ver T ≤ T.latest) :
    ∀ pref : List (String × Decl), selectCompiler T ck k pref = selectCompiler T ck (upgraded T k) pref := by
  intro pref
  induction pref with
  | nil => rfl
  | cons e rest ih =>
    obtain ⟨n, d⟩ := e
    simp only [selectCompiler, ih, supportsKind_upgraded d k hk]

/-- THE FACTORY'S CHAIN ON AN OLDER KIND IS ITS CHAIN ON THE UPGRADED KIND: same compilers, same declared kinds
    after the first stage (the first stage is recorded with the kind it was selected for) -/
theorem chain_upgraded {T : Tables} (hT : versionsOK T = true) (hU : upgradesInAll T = true)
    (pref : List (String × Decl)) (hpref : ∀ e ∈ pref, e.2.atLatest = true ∧ e.2.inpStable T = true)
    (k : Kind) (hk : k.wf T = true) (hv : k.ver T ≤ T.latest) (cks : List String)
    (stages : List (String × Decl × Kind)) (fin : Kind) (h : chain T pref k cks = .ok stages fin) :
    ∃ stages' fin', chain T pref (upgraded T k) cks = .ok stages' fin' ∧
      stages'.map (fun s => (s.1, s.2.1)) = stages.map (fun s => (s.1, s.2.1)) := by
  cases cks with
  | nil =>
    simp only [chain, Outcome.ok.injEq] at h
    obtain ⟨rfl, _⟩ := h
    exact ⟨[], upgraded T k, rfl, rfl⟩
  | cons ck cks =>
    unfold chain at h ⊢
    rw [← selectCompiler_upgraded ck k hv pref]
    cases hsel : selectCompiler T ck k pref with
    | none => rw [hsel] at h; cases h
    | some o =>
      cases o with
      | none => rw [hsel] at h; cases h
      | some nd =>
        obtain ⟨n, d⟩ := nd
        obtain ⟨hmem, _, _⟩ := selectCompiler_some T ck k pref n d hsel
        obtain ⟨hat, hst⟩ := hpref (n, d) hmem
        rw [hsel] at h
        simp only at h ⊢
        rw [← resultingKind_upgraded hT hU d hat hst k hk]
        cases hres : d.resultingKind T k with
        | none => rw [hres] at h; cases h
        | some k' =>
          rw [hres] at h
          simp only at h ⊢
          cases hchain : chain T pref k' cks with
          | ok st f =>
            rw [hchain] at h
            simp only [Outcome.ok.injEq] at h
            obtain ⟨rfl, rfl⟩ := h
            exact ⟨(n, d, upgraded T k) :: st, f, rfl, by simp⟩
          | noSuitable => rw [hchain] at h; cases h
          | assertion => rw [hchain] at h; cases h

/-! ### `<=` between kinds of different versions is `<=` between the upgraded kinds -/

theorem wf_ver_pos {T : Tables} (a : Kind) (ha : a.wf T = true) : 0 < a.ver T := by
  unfold Kind.ver
  cases hv : a.version with
  | some v =>
    unfold Kind.wf at ha
    simp only [hv, Bool.and_eq_true, decide_eq_true_eq] at ha
    exact ha.2.1
  | none => exact (le_foldl_max (T := T) a.feats 1).1

theorem wf_added' {T : Tables} (a : Kind) (h : a.wf T = true) : ∀ f ∈ a.feats, added T f ≤ a.ver T := by
  intro f hf
  unfold Kind.wf at h
  unfold Kind.ver
  cases hv : a.version with
  | some v =>
    simp only [hv, Bool.and_eq_true, List.all_eq_true, decide_eq_true_eq] at h
    exact h.2.2 f hf
  | none => exact (le_foldl_max a.feats 1).2 f hf

theorem upgradeTo_add (T : Tables) : ∀ (n m v : Nat) (fs : List Feature),
    upgradeTo T (upgradeTo T fs v n) (v + n) m = upgradeTo T fs v (n + m) := by
  intro n
  induction n with
  | zero => intro m v fs; simp [upgradeTo]
  | succ n ih =>
    intro m v fs
    have e1 : v + (n + 1) = v + 1 + n := by omega
    have e2 : n + 1 + m = (n + m) + 1 := by omega
    rw [e1, e2]
    conv => lhs; arg 2; unfold upgradeTo
    conv => rhs; unfold upgradeTo
    split
    · exact ih m (v + 1) _
    · exact ih m (v + 1) fs

theorem upgradeTo_added {T : Tables} (hT : tablesOK T = true) : ∀ (n v : Nat) (fs : List Feature),
    0 < v → v + n ≤ T.upgrades.length + 1 → (∀ f ∈ fs, added T f ≤ v) →
    ∀ f ∈ upgradeTo T fs v n, added T f ≤ v + n := by
  intro n
  induction n with
  | zero => intro v fs _ _ h; simpa [upgradeTo] using h
  | succ n ih =>
    intro v fs hv hlen h
    have hidx : v - 1 < T.upgrades.length := by omega
    obtain ⟨u, hu⟩ : ∃ u, T.upgrades[v - 1]? = some u := ⟨T.upgrades[v - 1], by simp [hidx]⟩
    have hok : upgradeOK T v u = true := by
      have := tablesOK_get hT hu
      have hv' : v - 1 + 1 = v := by omega
      rwa [hv'] at this
    simp only [upgradeTo, hu]
    have := ih (v + 1) (u.apply fs) (by omega) (by omega) (apply_added hok h)
    have e : v + 1 + n = v + (n + 1) := by omega
    rwa [e] at this

/-- the latest version is the one the last upgrade function leads to (decided on the regenerated table) -/
def latestOK (T : Tables) : Bool := decide (T.latest = T.upgrades.length + 1)

/-- `a <= b` for kinds of ANY two versions up to the latest gives `<=` (as sets of valid features) between the
    feature sets `_kind_at_latest_version` builds for them -/
theorem upgradedFeats_mono {T : Tables} (hT : tablesOK T = true) (hL : latestOK T = true) (a b : Kind)
    (ha : a.wf T = true) (hb : b.wf T = true) (hav : a.ver T ≤ T.latest) (hbv : b.ver T ≤ T.latest)
    (hle : a.le T b = true) :
    subset (validPart T T.latest (upgradedFeats T a)) (validPart T T.latest (upgradedFeats T b)) = true := by
  have hlen : T.latest = T.upgrades.length + 1 := by simpa [latestOK] using hL
  have hpa := wf_ver_pos a ha
  have hpb := wf_ver_pos b hb
  unfold upgradedFeats
  by_cases h : a.ver T ≤ b.ver T
  · rw [le_of_ver_le a b h] at hle
    have e : a.ver T + (b.ver T - a.ver T) = b.ver T := by omega
    have hadd := upgradeTo_added hT (b.ver T - a.ver T) (a.ver T) a.feats hpa (by omega) (wf_added' a ha)
    rw [e] at hadd
    have hm := upgradeTo_mono hT (T.latest - b.ver T) (b.ver T) _ b.feats hpb hadd (wf_added' b hb) hle (by omega)
    have hc := upgradeTo_add T (b.ver T - a.ver T) (T.latest - b.ver T) (a.ver T) a.feats
    rw [e] at hc
    have e2 : b.ver T + (T.latest - b.ver T) = T.latest := by omega
    have e3 : b.ver T - a.ver T + (T.latest - b.ver T) = T.latest - a.ver T := by omega
    rw [hc, e2, e3] at hm
    exact hm
  · rw [le_of_ver_gt a b h] at hle
    have e : b.ver T + (a.ver T - b.ver T) = a.ver T := by omega
    have hadd := upgradeTo_added hT (a.ver T - b.ver T) (b.ver T) b.feats hpb (by omega) (wf_added' b hb)
    rw [e] at hadd
    have hm := upgradeTo_mono hT (T.latest - a.ver T) (a.ver T) a.feats _ hpa (wf_added' a ha) hadd hle (by omega)
    have hc := upgradeTo_add T (a.ver T - b.ver T) (T.latest - a.ver T) (b.ver T) b.feats
    rw [e] at hc
    have e2 : a.ver T + (T.latest - a.ver T) = T.latest := by omega
    have e3 : a.ver T - b.ver T + (T.latest - a.ver T) = T.latest - b.ver T := by omega
    rw [hc, e2, e3] at hm
    exact hm

/-- … i.e. `upgraded a <= upgraded b` -/
theorem upgraded_mono {T : Tables} (hT : tablesOK T = true) (hL : latestOK T = true) (a b : Kind)
    (ha : a.wf T = true) (hb : b.wf T = true) (hav : a.ver T ≤ T.latest) (hbv : b.ver T ≤ T.latest)
    (hle : a.le T b = true) : (upgraded T a).le T (upgraded T b) = true := by
  have hv : (upgraded T a).ver T = (upgraded T b).ver T := by rw [upgraded_ver, upgraded_ver]; omega
  have hvb : (upgraded T b).ver T = T.latest := by rw [upgraded_ver]; omega
  rw [le_same hv, hvb, upgraded_feats a hav, upgraded_feats b hbv]
  exact upgradedFeats_mono hT hL a b ha hb hav hbv hle

theorem upgraded_version_some {T : Tables} (k : Kind) (v : Nat) (hk : k.version = some v) (hv : v ≤ T.latest) :
    (upgraded T k).version = some T.latest := by
  have := ver_of_version (T := T) hk
  rcases upgraded_version_cases T k with ⟨h, e⟩ | ⟨_, e⟩
  · rw [e, hk]; congr 1; omega
  · rw [e]

theorem upgraded_version_older {T : Tables} (k : Kind) (hv : k.ver T < T.latest) :
    (upgraded T k).version = some T.latest := by
  rcases upgraded_version_cases T k with ⟨h, _⟩ | ⟨_, e⟩
  · omega
  · rw [e]

/-- MONOTONICITY ACROSS VERSIONS of a declared transformer that starts from `_kind_at_latest_version` -/
theorem resultOf_mono_versions {T : Tables} (hT : tablesOK T = true) (hL : latestOK T = true) (d : Decl)
    (hat : d.atLatest = true) (hst : d.inpStable T = true) (hmono : d.resulting.Monotone)
    (hvalid : ∀ f ∈ d.resulting.tests, isValid T T.latest f = true) (a b : Kind)
    (ha : a.wf T = true) (hb : b.wf T = true) (hav : a.ver T ≤ T.latest) (hbv : b.ver T ≤ T.latest)
    (hau : (upgraded T a).version = some T.latest) (hbu : (upgraded T b).version = some T.latest)
    (hle : a.le T b = true) : (d.resultOf T a).le T (d.resultOf T b) = true := by
  rw [resultOf_upgraded d hat hst a, resultOf_upgraded d hat hst b]
  exact execKind_mono_le T d.resulting T.latest hmono hvalid _ _ hau hbu
    (upgraded_mono hT hL a b ha hb hav hbv hle)

end UPVerif.KindProg
