import UPVerif.Core.Fresh
import Std.Data.String.ToNat
/-! helper lemmas for C08 (fresh names): candidates are pairwise distinct, pigeonhole, the search succeeds -/
namespace UPVerif.Fresh

theorem candidate_succ_ne_base (b : String) (k : Nat) : candidate b (k + 1) ≠ b := by
  intro h
  have hl := congrArg String.length h
  simp only [candidate, String.length_append] at hl
  have : ("_" : String).length = 1 := by decide
  omega

theorem candidate_inj (b : String) : ∀ i j, candidate b i = candidate b j → i = j
  | 0, 0, _ => rfl
  | 0, j + 1, h => absurd h.symm (candidate_succ_ne_base b j)
  | i + 1, 0, h => absurd h (candidate_succ_ne_base b i)
  | i + 1, j + 1, h => by
    simp only [candidate, String.append_assoc] at h
    have h1 := (String.append_right_inj b).1 h
    have h2 := (String.append_right_inj "_").1 h1
    have : Nat.repr i = Nat.repr j := h2
    rw [Nat.repr_inj.1 this]

/-- pigeonhole: a duplicate-free list inside `names` is not longer than `names` -/
theorem length_le_of_nodup_subset : ∀ (l names : List String), l.Nodup → (∀ x ∈ l, x ∈ names) →
    l.length ≤ names.length
  | [], _, _, _ => Nat.zero_le _
  | x :: xs, names, hnd, hsub => by
    have hx : x ∈ names := hsub x (List.mem_cons_self ..)
    rw [List.nodup_cons] at hnd
    have hsub' : ∀ y ∈ xs, y ∈ names.erase x := by
      intro y hy
      have hne : y ≠ x := fun e => hnd.1 (e ▸ hy)
      exact (List.mem_erase_of_ne hne).2 (hsub y (List.mem_cons_of_mem _ hy))
    have ih := length_le_of_nodup_subset xs (names.erase x) hnd.2 hsub'
    rw [List.length_erase_of_mem hx] at ih
    have : 0 < names.length := List.length_pos_of_mem hx
    simp only [List.length_cons]
    omega

theorem candidates_nodup (b : String) (n : Nat) : ((List.range n).map (candidate b)).Nodup := by
  rw [List.Nodup, List.pairwise_map]
  exact List.Pairwise.imp (fun {i j} (h : i ≠ j) e => h (candidate_inj b i j e)) List.nodup_range

/-- the counter search of `get_fresh_name` always finds a name: no fuel is needed -/
theorem firstFree_isSome (names : List String) (b : String) : (firstFree names b).isSome = true := by
  unfold firstFree
  rw [List.find?_isSome]
  by_cases h : ∃ x ∈ (List.range (names.length + 1)).map (candidate b), (!names.contains x) = true
  · exact h
  · exfalso
    have hall : ∀ x ∈ (List.range (names.length + 1)).map (candidate b), x ∈ names := by
      intro x hx
      by_cases hm : x ∈ names
      · exact hm
      · exact absurd ⟨x, hx, by simp [hm]⟩ h
    have := length_le_of_nodup_subset _ names (candidates_nodup b _) hall
    simp only [List.length_map, List.length_range] at this
    omega

theorem firstFree_spec (names : List String) (b : String) :
    ∃ k, firstFree names b = some (candidate b k) ∧ candidate b k ∉ names ∧
      ∀ j, j < k → candidate b j ∈ names := by
  have hs := firstFree_isSome names b
  cases hf : firstFree names b with
  | none => simp [hf] at hs
  | some c =>
    unfold firstFree at hf
    rw [List.find?_map] at hf
    simp at hf
    obtain ⟨k, ⟨h1, _, h3⟩, hc⟩ := hf
    exact ⟨k, by rw [hc], h1, h3⟩

theorem getFreshName_spec (names : List String) (base : String) (params : List String) (t : Option String) :
    ∃ k, getFreshName names base params t = candidate (joinName base params t) k ∧
      candidate (joinName base params t) k ∉ names ∧
      ∀ j, j < k → candidate (joinName base params t) j ∈ names := by
  obtain ⟨k, h1, h2, h3⟩ := firstFree_spec names (joinName base params t)
  exact ⟨k, by simp [getFreshName, h1], h2, h3⟩

theorem getFreshName_not_mem (names : List String) (base : String) (params : List String) (t : Option String) :
    getFreshName names base params t ∉ names := by
  obtain ⟨k, h1, h2, _⟩ := getFreshName_spec names base params t
  rw [h1]; exact h2

/-! ### the disciplines -/

theorem runCurrent_spec : ∀ (rs : List Req) (names : List String), names.Nodup →
    (runCurrent names rs).2.Nodup ∧ (runCurrent names rs).1.Nodup ∧
    (∀ n ∈ (runCurrent names rs).1, n ∉ names) ∧
    (∀ n, n ∈ (runCurrent names rs).2 ↔ n ∈ (runCurrent names rs).1 ∨ n ∈ names)
  | [], names, h => by simp [runCurrent, h]
  | r :: rs, names, h => by
    have hn : r.fresh names ∉ names := getFreshName_not_mem names r.base r.params r.trailing
    have hnd : (r.fresh names :: names).Nodup := List.nodup_cons.2 ⟨hn, h⟩
    obtain ⟨h1, h2, h3, h4⟩ := runCurrent_spec rs (r.fresh names :: names) hnd
    simp only [runCurrent]
    refine ⟨h1, ?_, ?_, ?_⟩
    · rw [List.nodup_cons]
      exact ⟨fun hm => h3 _ hm (List.mem_cons_self ..), h2⟩
    · intro n hm
      rcases List.mem_cons.1 hm with e | hm
      · rw [e]; exact hn
      · exact fun hin => h3 n hm (List.mem_cons_of_mem _ hin)
    · intro n
      rw [h4 n]
      simp only [List.mem_cons]
      constructor
      · rintro (h | h | h)
        · exact Or.inl (Or.inr h)
        · exact Or.inl (Or.inl h)
        · exact Or.inr h
      · rintro ((h | h) | h)
        · exact Or.inr (Or.inl h)
        · exact Or.inl h
        · exact Or.inr (Or.inr h)

/-! ### the grounder -/

/-- the requests that keep the action's own name (actions without parameters) -/
def keptNames (reqs : List (String × Inst)) : List String :=
  (reqs.filter (fun p => p.2.args.isEmpty)).map (·.1)

theorem instName_fresh (N used : List String) (a : String) (i : Inst) (h : i.args.isEmpty = false) :
    instName N used a i ∉ N ∧ instName N used a i ∉ used := by
  have := getFreshName_not_mem (N ++ used) a i.args none
  simp only [instName, h, Bool.false_eq_true, if_false]
  exact ⟨fun hm => this (List.mem_append_left _ hm), fun hm => this (List.mem_append_right _ hm)⟩

theorem groundFlat_spec (N : List String) : ∀ (reqs : List (String × Inst)) (used : List String),
    (keptNames reqs).Nodup → (∀ n ∈ keptNames reqs, n ∈ N ∧ n ∉ used) →
    ((groundFlat N used reqs).map (·.1)).Nodup ∧
    (∀ n ∈ (groundFlat N used reqs).map (·.1), n ∉ used ∧ (n ∈ N → n ∈ keptNames reqs))
  | [], _, _, _ => by simp [groundFlat]
  | (a, i) :: rest, used, hk, hin => by
    cases hargs : i.args.isEmpty with
    | true =>
      -- the action keeps its name
      have hkn : keptNames ((a, i) :: rest) = a :: keptNames rest := by simp [keptNames, hargs]
      rw [hkn] at hk hin
      rw [List.nodup_cons] at hk
      have hname : instName N used a i = a := by simp [instName, hargs]
      have ha := hin a (List.mem_cons_self ..)
      cases hs : i.survived with
      | true =>
        have ih := groundFlat_spec N rest (a :: used) hk.2 (by
          intro n hn
          have := hin n (List.mem_cons_of_mem _ hn)
          refine ⟨this.1, ?_⟩
          intro hm
          rcases List.mem_cons.1 hm with e | hm
          · exact hk.1 (e ▸ hn)
          · exact this.2 hm)
        simp only [groundFlat, hname, hs, if_true, List.map_cons, hkn]
        refine ⟨List.nodup_cons.2 ⟨fun hm => (ih.2 a hm).1 (List.mem_cons_self ..), ih.1⟩, ?_⟩
        intro n hn
        rcases List.mem_cons.1 hn with e | hn
        · rw [e]; exact ⟨ha.2, fun _ => List.mem_cons_self ..⟩
        · have := ih.2 n hn
          exact ⟨fun hm => this.1 (List.mem_cons_of_mem _ hm), fun h => List.mem_cons_of_mem _ (this.2 h)⟩
      | false =>
        have ih := groundFlat_spec N rest used hk.2 (fun n hn => hin n (List.mem_cons_of_mem _ hn))
        simp only [groundFlat, hs, Bool.false_eq_true, if_false, hkn]
        exact ⟨ih.1, fun n hn => ⟨(ih.2 n hn).1, fun h => List.mem_cons_of_mem _ ((ih.2 n hn).2 h)⟩⟩
    | false =>
      have hkn : keptNames ((a, i) :: rest) = keptNames rest := by simp [keptNames, hargs]
      rw [hkn] at hk hin
      have hf := instName_fresh N used a i hargs
      cases hs : i.survived with
      | true =>
        have ih := groundFlat_spec N rest (instName N used a i :: used) hk (by
          intro n hn
          have := hin n hn
          refine ⟨this.1, ?_⟩
          intro hm
          rcases List.mem_cons.1 hm with e | hm
          · exact hf.1 (e ▸ this.1)
          · exact this.2 hm)
        simp only [groundFlat, hs, if_true, List.map_cons, hkn]
        refine ⟨List.nodup_cons.2 ⟨fun hm => (ih.2 _ hm).1 (List.mem_cons_self ..), ih.1⟩, ?_⟩
        intro n hn
        rcases List.mem_cons.1 hn with e | hn
        · rw [e]; exact ⟨hf.2, fun h => absurd h hf.1⟩
        · have := ih.2 n hn
          exact ⟨fun hm => this.1 (List.mem_cons_of_mem _ hm), this.2⟩
      | false =>
        have ih := groundFlat_spec N rest used hk hin
        simp only [groundFlat, hs, Bool.false_eq_true, if_false, hkn]
        exact ih

/-- the declared names of the grounded problem: everything but the actions is cloned (`other`), the actions are
    replaced by the grounded ones -/
theorem groundNames_problem_nodup (other actNames : List String) (acts : List GAct)
    (hN : (other ++ actNames).Nodup)
    (hk : (keptNames (flatten acts)).Nodup) (hin : ∀ n ∈ keptNames (flatten acts), n ∈ actNames) :
    (other ++ (groundNames (other ++ actNames) acts).map (·.1)).Nodup := by
  have hspec := groundFlat_spec (other ++ actNames) (flatten acts) [] hk
    (fun n hn => ⟨List.mem_append_right _ (hin n hn), by simp⟩)
  rw [List.nodup_append] at hN ⊢
  refine ⟨hN.1, hspec.1, ?_⟩
  intro a ha b hb e
  subst e
  have hb' := (hspec.2 a hb).2 (List.mem_append_left _ ha)
  exact hN.2.2 a ha a (hin a hb') rfl

end UPVerif.Fresh
