import UPVerif.Lemmas.CompileBTR
import UPVerif.Lemmas.CompileQRTyped
/-!
The executable clauses of `Core/Compile/Hyps.lean` (what the driver evaluates on every generated problem) imply the
hypotheses of the BoundedTypesRemover / QuantifiersRemover theorems.
-/
namespace UPVerif.Compile
open UPVerif UPVerif.Expr UPVerif.Sim UPVerif.Spec

/-- all clauses of `btrClauses` hold ⇒ `BtrOK` (given the hypotheses on the simplifiers) -/
theorem BtrOK.of_clauses {simp : Expr → Expr} {W : World} {c : Compiled} (hs : SimpTruth simp)
    (hw : SimpTruthOn W.simp (stateInvariants W.P)) (hwc : SimpTruthOn W.simp (stateInvariants c.prob))
    (h : (btrClauses simp W.P c).all (·.2) = true) : BtrOK simp W c := by
  simp only [btrClauses, List.all_cons, List.all_nil, Bool.and_true, Bool.and_eq_true, decide_eq_true_eq] at h
  obtain ⟨h1, h2, h3, h4, h5, h6, h7, h8, h9, h10⟩ := h
  exact ⟨hs, h1, h2, fun a ha e he => ⟨h3 a ha e he, h4 a ha e he, h5 a ha e he⟩, h6, h7, h8, h9, h10, hw, hwc⟩

/-- all clauses of `typedClauses` hold ⇒ the problem is typed -/
theorem TypedProblem.of_clauses {W : World} (h : (typedClauses W.P).all (·.2) = true) : TypedProblem W := by
  simp only [typedClauses, List.all_cons, List.all_nil, Bool.and_true, Bool.and_eq_true, decide_eq_true_eq] at h
  obtain ⟨h1, h2, h3, h4, h5⟩ := h
  exact ⟨h1, h2, h3, h4, h5⟩

/-- all clauses of `qrClauses` and `typedClauses` hold ⇒ `QrOK` (given the hypothesis on the simplifier) -/
theorem QrOK.of_clauses {simp : Expr → Expr} {W : World} {c : Compiled} (hs : SimpDen simp)
    (h : (qrClauses W.P c).all (·.2) = true) (hb : (typedClauses W.P).all (·.2) = true) : QrOK simp W c := by
  simp only [qrClauses, List.all_cons, List.all_nil, Bool.and_true, Bool.and_eq_true, decide_eq_true_eq] at h
  obtain ⟨h1, h2, h3, h4, h5⟩ := h
  exact ⟨hs, h1, h2, h3, h4, h5, typed_defined simp (TypedProblem.of_clauses hb)⟩

end UPVerif.Compile
