import UPVerif.Core.Walkers.Dnf
import UPVerif.Lemmas.NnfLemmas
/-! proofs about `dnf` (C12): meaning (relative to a sound simplifier) -/
namespace UPVerif.Expr
open UPVerif

section sem
variable (ι : Interp) (ρ : VEnv)

/-- truth value of a literal (false when undefined — only used under `AllDefC`) -/
def lval (l : Expr) : Bool := bden ι ρ l == some true
def cval (c : List Expr) : Bool := c.all (lval ι ρ)
def dtrue (d : DnfL) : Bool := d.any (cval ι ρ)
def AllDefC (c : List Expr) : Prop := ∀ l ∈ c, ∃ b, bden ι ρ l = some b
def AllDef (d : DnfL) : Prop := ∀ c ∈ d, AllDefC ι ρ c

/-- a simplifier that never changes a defined Boolean value (C11's theorem, as a hypothesis) -/
def SimpSound (simp : Expr → Expr) : Prop :=
  ∀ e v, bden ι ρ e = some v → bden ι ρ (simp e) = some v

variable {ι ρ}

theorem lval_of_bden {l : Expr} {b : Bool} (h : bden ι ρ l = some b) : lval ι ρ l = b := by
  unfold lval; rw [h]; cases b <;> simp

theorem bdenList_eq_some {c : List Expr} {bs : List Bool} :
    bdenList ι ρ c = some bs ↔ (AllDefC ι ρ c ∧ bs = c.map (lval ι ρ)) := by
  induction c generalizing bs with
  | nil => simp [bdenList, AllDefC]
  | cons l c ih =>
    simp only [bdenList, AllDefC, List.mem_cons, forall_eq_or_imp, List.map_cons]
    cases hl : bden ι ρ l with
    | none => simp
    | some b =>
      cases hc : bdenList ι ρ c with
      | none =>
        constructor
        · intro h; cases h
        · intro ⟨⟨_, hall⟩, _⟩
          have := (ih (bs := c.map (lval ι ρ))).2 ⟨hall, rfl⟩
          rw [hc] at this; cases this
      | some cs =>
        have := (ih (bs := cs)).1 hc
        simp only [Option.some.injEq]
        constructor
        · intro h; subst h
          exact ⟨⟨⟨b, rfl⟩, this.1⟩, by rw [lval_of_bden hl, this.2]⟩
        · intro ⟨_, h⟩; rw [h, lval_of_bden hl, this.2]

theorem bdenList_of_allDef {c : List Expr} (h : AllDefC ι ρ c) :
    bdenList ι ρ c = some (c.map (lval ι ρ)) := bdenList_eq_some.2 ⟨h, rfl⟩

theorem bden_mkAnd_of_allDef {c : List Expr} (h : AllDefC ι ρ c) :
    bden ι ρ (mkAnd c) = some (cval ι ρ c) := by
  rw [bden_mkAnd, bdenList_of_allDef h]
  simp [cval, List.all_map]

/-- converse for an AND node the simplifier returned -/
theorem allDef_of_bden_and {as : List Expr} {v : Bool} (h : bden ι ρ (.app .and as) = some v) :
    AllDefC ι ρ as ∧ cval ι ρ as = v := by
  rw [bden_and] at h
  cases hb : bdenList ι ρ as with
  | none => rw [hb] at h; cases h
  | some bs =>
    rw [hb] at h
    have := bdenList_eq_some.1 hb
    refine ⟨this.1, ?_⟩
    simp only [Option.map_some, Option.some.injEq] at h
    rw [← h, this.2]; simp [cval, List.all_map]

theorem bden_dnfExpr {d : DnfL} (h : AllDef ι ρ d) :
    bden ι ρ (mkOr (d.map mkAnd)) = some (dtrue ι ρ d) := by
  rw [bden_mkOr]
  have : bdenList ι ρ (d.map mkAnd) = some (d.map (cval ι ρ)) := by
    induction d with
    | nil => rfl
    | cons c d ih =>
      have hc : AllDefC ι ρ c := h c (List.mem_cons_self ..)
      have hd : AllDef ι ρ d := fun c' hc' => h c' (List.mem_cons_of_mem _ hc')
      simp only [List.map_cons, bdenList, bden_mkAnd_of_allDef hc, ih hd]
  rw [this]; simp [dtrue, List.any_map]

theorem cval_append (a b : List Expr) : cval ι ρ (a ++ b) = (cval ι ρ a && cval ι ρ b) := by
  simp [cval, List.all_append]

theorem cval_flatten (t : List (List Expr)) : cval ι ρ t.flatten = t.all (cval ι ρ) := by
  induction t with
  | nil => rfl
  | cons c t ih => simp [List.flatten_cons, cval_append, ih]

theorem allDefC_flatten {t : List (List Expr)} (h : ∀ c ∈ t, AllDefC ι ρ c) : AllDefC ι ρ t.flatten := by
  intro l hl
  rw [List.mem_flatten] at hl
  obtain ⟨c, hc, hlc⟩ := hl
  exact h c hc l hlc

theorem mem_product {ds : List DnfL} {t : List (List Expr)} (ht : t ∈ dnfProduct ds) :
    ∀ c ∈ t, ∃ d ∈ ds, c ∈ d := by
  induction ds generalizing t with
  | nil => simp [dnfProduct] at ht; subst ht; intro c hc; cases hc
  | cons d ds ih =>
    simp only [dnfProduct, List.mem_flatMap, List.mem_map] at ht
    obtain ⟨c, hc, t', ht', rfl⟩ := ht
    intro c' hc'
    rcases List.mem_cons.1 hc' with rfl | hc'
    · exact ⟨d, List.mem_cons_self .., hc⟩
    · obtain ⟨d', hd', hcd'⟩ := ih ht' c' hc'
      exact ⟨d', List.mem_cons_of_mem _ hd', hcd'⟩

theorem product_allDef {ds : List DnfL} (h : ∀ d ∈ ds, AllDef ι ρ d) :
    ∀ t ∈ dnfProduct ds, AllDefC ι ρ t.flatten := by
  intro t ht
  apply allDefC_flatten
  intro c hc
  obtain ⟨d, hd, hcd⟩ := mem_product ht c hc
  exact h d hd c hcd

/-- distributivity of AND over OR for the cartesian product -/
theorem any_map_cons_all (c : List Expr) (P : List (List (List Expr))) :
    (P.map (fun t => c :: t)).any (fun t => t.all (cval ι ρ)) =
      (cval ι ρ c && P.any (fun t => t.all (cval ι ρ))) := by
  induction P with
  | nil => simp
  | cons t P ih =>
    simp only [List.map_cons, List.any_cons, List.all_cons, ih]
    cases cval ι ρ c <;> simp

theorem product_sem (ds : List DnfL) :
    (dnfProduct ds).any (fun t => t.all (cval ι ρ)) = ds.all (dtrue ι ρ) := by
  induction ds with
  | nil => simp [dnfProduct]
  | cons d ds ih =>
    simp only [dnfProduct, List.all_cons, ← ih]
    induction d with
    | nil => simp [dtrue]
    | cons c d ihd =>
      simp only [List.flatMap_cons, List.any_append, any_map_cons_all, ihd, dtrue, List.any_cons]
      cases cval ι ρ c <;> simp

theorem isTrue_iff (e : Expr) : e.isTrue = true ↔ e = tt := by
  unfold isTrue tt
  split
  · simp
  · rename_i h; constructor
    · intro h'; cases h'
    · intro h'; exact absurd h' (by intro h''; exact h h'')
theorem isFalse_iff (e : Expr) : e.isFalse = true ↔ e = ff := by
  unfold isFalse ff
  split
  · simp
  · rename_i h; constructor
    · intro h'; cases h'
    · intro h'; exact absurd h' (by intro h''; exact h h'')

variable {simp : Expr → Expr}

theorem andGo_sem (hs : SimpSound ι ρ simp) (ts : List (List (List Expr))) (acc : DnfL)
    (hts : ∀ t ∈ ts, AllDefC ι ρ t.flatten) (hacc : AllDef ι ρ acc) :
    AllDef ι ρ (dnfAndGo simp ts acc) ∧
    dtrue ι ρ (dnfAndGo simp ts acc) = (dtrue ι ρ acc || ts.any (fun t => t.all (cval ι ρ))) := by
  induction ts generalizing acc with
  | nil => simp [dnfAndGo, hacc]
  | cons t ts ih =>
    have ht : AllDefC ι ρ t.flatten := hts t (List.mem_cons_self ..)
    have hts' : ∀ t' ∈ ts, AllDefC ι ρ t'.flatten := fun t' h => hts t' (List.mem_cons_of_mem _ h)
    have hsv : bden ι ρ (simp (mkAnd t.flatten)) = some (t.all (cval ι ρ)) := by
      rw [← cval_flatten]; exact hs _ _ (bden_mkAnd_of_allDef ht)
    simp only [dnfAndGo, List.any_cons]
    split
    · -- simplified to TRUE: the whole formula is TRUE
      rename_i htrue
      have : t.all (cval ι ρ) = true := by
        rw [isTrue_iff] at htrue
        rw [htrue, bden_tt] at hsv
        exact (Option.some.inj hsv).symm
      refine ⟨?_, ?_⟩
      · intro c hc; simp at hc; subst hc; intro l hl; cases hl
      · simp [dtrue, cval, this]
    · split
      · -- simplified to FALSE: dropped
        rename_i _ hfalse
        have : t.all (cval ι ρ) = false := by
          rw [isFalse_iff] at hfalse
          rw [hfalse, bden_ff] at hsv
          exact (Option.some.inj hsv).symm
        have := ih acc hts' hacc
        rw [‹t.all (cval ι ρ) = false›]
        simpa using this
      · split
        · -- an AND of literals
          rename_i as hsimp
          rw [hsimp] at hsv
          obtain ⟨hdef, hval⟩ := allDef_of_bden_and hsv
          have hacc' : AllDef ι ρ (acc ++ [as]) := by
            intro c hc
            rcases List.mem_append.1 hc with h | h
            · exact hacc c h
            · simp at h; subst h; exact hdef
          have := ih (acc ++ [as]) hts' hacc'
          refine ⟨this.1, ?_⟩
          rw [this.2]
          simp only [dtrue, List.any_append, List.any_cons, List.any_nil, Bool.or_false, hval, Bool.or_assoc]
        · -- a single literal
          have hdef : AllDefC ι ρ [simp (mkAnd t.flatten)] := by
            intro l hl; simp at hl; subst hl; exact ⟨_, hsv⟩
          have hval : cval ι ρ [simp (mkAnd t.flatten)] = t.all (cval ι ρ) := by
            simp [cval, lval_of_bden hsv]
          have hacc' : AllDef ι ρ (acc ++ [[simp (mkAnd t.flatten)]]) := by
            intro c hc
            rcases List.mem_append.1 hc with h | h
            · exact hacc c h
            · simp at h; subst h; exact hdef
          have := ih _ hts' hacc'
          refine ⟨this.1, ?_⟩
          rw [this.2]
          simp only [dtrue, List.any_append, List.any_cons, List.any_nil, Bool.or_false, hval, Bool.or_assoc]

theorem dtrue_flatten (ds : List DnfL) : dtrue ι ρ ds.flatten = ds.any (dtrue ι ρ) := by
  induction ds with
  | nil => rfl
  | cons d ds ih => simp [dtrue, List.flatten_cons, List.any_append] at *; rw [ih]

theorem allDef_flatten {ds : List DnfL} (h : ∀ d ∈ ds, AllDef ι ρ d) : AllDef ι ρ ds.flatten := by
  intro c hc
  rw [List.mem_flatten] at hc
  obtain ⟨d, hd, hcd⟩ := hc
  exact h d hd c hcd

/-- the walk preserves every defined Boolean value -/
theorem dnfWalk_sem (hs : SimpSound ι ρ simp) :
    (∀ e v, bden ι ρ e = some v → AllDef ι ρ (dnfWalk simp e) ∧ dtrue ι ρ (dnfWalk simp e) = v) ∧
    (∀ es bs, bdenList ι ρ es = some bs →
        (∀ d ∈ dnfWalkList simp es, AllDef ι ρ d) ∧ (dnfWalkList simp es).map (dtrue ι ρ) = bs) := by
  apply dnfWalk.mutual_induct
  · -- and
    intro args ih v hv
    rw [bden_and] at hv
    cases hb : bdenList ι ρ args with
    | none => rw [hb] at hv; cases hv
    | some bs =>
      rw [hb] at hv
      obtain ⟨hdef, hmap⟩ := ih bs hb
      rw [dnfWalk]
      have := andGo_sem hs (dnfProduct (dnfWalkList simp args)) [] (product_allDef hdef)
        (by intro c hc; cases hc)
      refine ⟨this.1, ?_⟩
      rw [this.2, product_sem]
      simp only [Option.map_some, Option.some.injEq] at hv
      rw [← hv, ← hmap]
      simp [dtrue, List.all_map]
  · -- or
    intro args ih v hv
    rw [bden_or] at hv
    cases hb : bdenList ι ρ args with
    | none => rw [hb] at hv; cases hv
    | some bs =>
      rw [hb] at hv
      obtain ⟨hdef, hmap⟩ := ih bs hb
      rw [dnfWalk]
      refine ⟨allDef_flatten hdef, ?_⟩
      rw [dtrue_flatten]
      simp only [Option.map_some, Option.some.injEq] at hv
      rw [← hv, ← hmap]
      simp [List.any_map]
  · -- literal
    intro e h1 h2 v hv
    have : dnfWalk simp e = [[e]] := by
      unfold dnfWalk
      split
      · exact absurd rfl (fun h => h1 _ h)
      · exact absurd rfl (fun h => h2 _ h)
      · rfl
    rw [this]
    refine ⟨?_, ?_⟩
    · intro c hc; simp at hc; subst hc; intro l hl; simp at hl; subst hl; exact ⟨v, hv⟩
    · simp [dtrue, cval, lval_of_bden hv]
  · intro bs h; simp [bdenList] at h; subst h; simp [dnfWalkList]
  · intro e es ihe ihes bs h
    simp only [bdenList] at h
    cases he : bden ι ρ e with
    | none => rw [he] at h; simp at h
    | some b =>
      cases hes : bdenList ι ρ es with
      | none => rw [he, hes] at h; simp at h
      | some bs' =>
        rw [he, hes] at h
        simp only [Option.some.injEq] at h
        subst h
        obtain ⟨hd1, hv1⟩ := ihe b he
        obtain ⟨hd2, hv2⟩ := ihes bs' hes
        simp only [dnfWalkList, List.mem_cons, forall_eq_or_imp, List.map_cons, hv1, hv2]
        exact ⟨⟨hd1, hd2⟩, trivial⟩

end sem
end UPVerif.Expr
