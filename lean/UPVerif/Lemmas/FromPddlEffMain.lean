import UPVerif.Lemmas.FromPddlEffSteps
/-!
C21, effects: the agreement theorem `eff_agree` — what the first reader's walk yields from an effect tree and what the
converter's walk yields from the external parser's object for that tree are the same effects up to order, pairwise
related by `EffRel` (same target, kind and quantified variables; equivalent value and condition).
-/
namespace UPVerif.FromPddl
open UPVerif UPVerif.Expr UPVerif.Pddl

/-! ### the grammar, head by head -/

theorem astCEffects_cons_inv {C : PCtx} {x : Sexp} {xs : List Sexp} {r : List Form}
    (h : astCEffects C (x :: xs) = some r) : ∃ a as, astCEffect C x = some a ∧ astCEffects C xs = some as ∧ r = a :: as := by
  rw [astCEffects] at h
  simp only [Option.bind_eq_bind, Option.bind_eq_some_iff, Option.some.injEq] at h
  obtain ⟨e, he, es, hes, rfl⟩ := h
  exact ⟨e, es, he, hes, rfl⟩

theorem astPEffects_cons_inv {C : PCtx} {x : Sexp} {xs : List Sexp} {r : List Form}
    (h : astPEffects C (x :: xs) = some r) : ∃ a as, astPEffect C x = some a ∧ astPEffects C xs = some as ∧ r = a :: as := by
  rw [astPEffects] at h
  simp only [Option.bind_eq_bind, Option.bind_eq_some_iff, Option.some.injEq] at h
  obtain ⟨e, he, es, hes, rfl⟩ := h
  exact ⟨e, es, he, hes, rfl⟩

theorem astCEffect_cons (C : PCtx) (h : String) (rest : List Sexp) :
    astCEffect C (.list (.atom h :: rest)) = astCBody C h rest := by
  rw [astCEffect, astCEffectL]

theorem astCBody_nonforall (C : PCtx) (h : String) (rest : List Sexp) (hf : (h == "forall") = false) :
    astCBody C h rest = astCBodyFlat C h rest := by
  rw [astCBody.eq_def]
  split <;> simp [hf]

theorem astCBody_forall (C : PCtx) (vl : List Sexp) (e : Sexp) : astCBody C "forall" [.list vl, e] =
    (astVars vl).bind (fun vs => (astEffect C e).map (fun y => .forallE vs y)) := by
  rw [astCBody.eq_def]
  simp only [beq_self_eq_true, if_true]
  cases astVars vl <;> cases astEffect C e <;> rfl

theorem astEffect_list (C : PCtx) (h : String) (rest : List Sexp) :
    astEffect C (.list (.atom h :: rest)) =
      if h == "and" then (astCEffects C rest).map (mkOp .and) else astCEffect C (.list (.atom h :: rest)) := by
  rw [astEffect, astEffectL, astCEffect_cons]

theorem astCondEffect_and (C : PCtx) (ps : List Sexp) :
    astCondEffect C (.list (.atom "and" :: ps)) = (astPEffects C ps).map (mkOp .and) := by
  unfold astCondEffect; rfl

theorem astCondEffect_other (C : PCtx) (h : String) (rest : List Sexp) (hn : h ≠ "and") :
    astCondEffect C (.list (.atom h :: rest)) = astPEffect C (.list (.atom h :: rest)) := by
  unfold astCondEffect
  split
  · rename_i ps heq
    simp only [Sexp.list.injEq, List.cons.injEq, Sexp.atom.injEq] at heq
    exact absurd heq.1 hn
  · rfl

theorem astAtom_reserved (C : PCtx) (h : String) (rest : List Sexp) (hr : isReserved h = true) (hne : (h == "=") = false) :
    astAtom C (.list (.atom h :: rest)) = none := by
  rw [astAtom_pred C h rest hne]; simp [hr]

theorem astCEffect_plain (C : PCtx) (h : String) (rest : List Sexp)
    (h1 : (h == "forall") = false) (h2 : (h == "when") = false) (h3 : (h == "and") = false) (h4 : (h == "oneof") = false) :
    astCEffect C (.list (.atom h :: rest)) = astPEffect C (.list (.atom h :: rest)) := by
  rw [astCEffect_cons, astCBody_nonforall C h rest h1]
  unfold astCBodyFlat
  simp [h2, h3, h4]

theorem astCEffect_and (C : PCtx) (rest : List Sexp) : astCEffect C (.list (.atom "and" :: rest)) = none := by
  rw [astCEffect_cons, astCBody_nonforall C "and" rest rfl]
  unfold astCBodyFlat
  simp

theorem astCEffect_when (C : PCtx) (c e : Sexp) : astCEffect C (.list [.atom "when", c, e]) =
    (astGd C c).bind (fun x => (astCondEffect C e).map (fun y => .when x y)) := by
  rw [astCEffect_cons, astCBody_nonforall C "when" _ rfl]
  unfold astCBodyFlat
  simp only [beq_self_eq_true, if_true]
  cases astGd C c <;> cases astCondEffect C e <;> rfl

theorem astCEffect_when_other (C : PCtx) (rest : List Sexp) (hl : rest.length ≠ 2) :
    astCEffect C (.list (.atom "when" :: rest)) = none := by
  rw [astCEffect_cons, astCBody_nonforall C "when" _ rfl]
  unfold astCBodyFlat
  match rest, hl with
  | [], _ => simp
  | [_], _ => simp
  | _ :: _ :: _ :: _, _ => simp

theorem astCEffect_forall (C : PCtx) (vl : List Sexp) (e : Sexp) : astCEffect C (.list [.atom "forall", .list vl, e]) =
    (astVars vl).bind (fun vs => (astEffect C e).map (fun y => .forallE vs y)) := by
  rw [astCEffect_cons, astCBody_forall]

/-- a conjunction of effects: its operands, parsed as `c_effect`s or as `p_effect`s -/
theorem astEff_and {C : PCtx} {rest : List Sexp} {φ : Form} (h : AstEff C (.list (.atom "and" :: rest)) φ) :
    ∃ φs, (astCEffects C rest = some φs ∨ astPEffects C rest = some φs) ∧ φ = mkOp .and φs := by
  rcases h with h | h | h | h
  · rw [astEffect_list] at h
    simp only [beq_self_eq_true, if_true, Option.map_eq_some_iff] at h
    obtain ⟨φs, h1, rfl⟩ := h
    exact ⟨φs, Or.inl h1, rfl⟩
  · rw [astCEffect_and] at h; cases h
  · rw [astCondEffect_and, Option.map_eq_some_iff] at h
    obtain ⟨φs, h1, rfl⟩ := h
    exact ⟨φs, Or.inr h1, rfl⟩
  · rw [astPEffect_plain C "and" rest rfl (by decide), astAtom_reserved C "and" rest rfl rfl] at h; cases h

theorem astEff_when {C : PCtx} {c e : Sexp} {φ : Form} (h : AstEff C (.list [.atom "when", c, e]) φ) :
    ∃ cφ eφ, astGd C c = some cφ ∧ astCondEffect C e = some eφ ∧ φ = .when cφ eφ := by
  have key : astCEffect C (.list [.atom "when", c, e]) = some φ →
      ∃ cφ eφ, astGd C c = some cφ ∧ astCondEffect C e = some eφ ∧ φ = .when cφ eφ := by
    intro h
    rw [astCEffect_when, Option.bind_eq_some_iff] at h
    obtain ⟨x, hx, h⟩ := h
    rw [Option.map_eq_some_iff] at h
    obtain ⟨y, hy, rfl⟩ := h
    exact ⟨x, y, hx, hy, rfl⟩
  rcases h with h | h | h | h
  · rw [astEffect_list] at h
    simp only [String.reduceBEq, Bool.false_eq_true, if_false] at h
    exact key h
  · exact key h
  · rw [astCondEffect_other C "when" _ (by decide), astPEffect_plain C "when" _ rfl (by decide),
      astAtom_reserved C "when" _ rfl rfl] at h
    cases h
  · rw [astPEffect_plain C "when" _ rfl (by decide), astAtom_reserved C "when" _ rfl rfl] at h; cases h

theorem astEff_forall {C : PCtx} {vl : List Sexp} {e : Sexp} {φ : Form} (h : AstEff C (.list [.atom "forall", .list vl, e]) φ) :
    ∃ tvs eφ, astVars vl = some tvs ∧ astEffect C e = some eφ ∧ φ = .forallE tvs eφ := by
  have key : astCEffect C (.list [.atom "forall", .list vl, e]) = some φ →
      ∃ tvs eφ, astVars vl = some tvs ∧ astEffect C e = some eφ ∧ φ = .forallE tvs eφ := by
    intro h
    rw [astCEffect_forall, Option.bind_eq_some_iff] at h
    obtain ⟨x, hx, h⟩ := h
    rw [Option.map_eq_some_iff] at h
    obtain ⟨y, hy, rfl⟩ := h
    exact ⟨x, y, hx, hy, rfl⟩
  rcases h with h | h | h | h
  · rw [astEffect_list] at h
    simp only [String.reduceBEq, Bool.false_eq_true, if_false] at h
    exact key h
  · exact key h
  · rw [astCondEffect_other C "forall" _ (by decide), astPEffect_plain C "forall" _ rfl (by decide),
      astAtom_reserved C "forall" _ rfl rfl] at h
    cases h
  · rw [astPEffect_plain C "forall" _ rfl (by decide), astAtom_reserved C "forall" _ rfl rfl] at h; cases h

/-- every other head: a `p_effect` -/
theorem astEff_leaf {C : PCtx} {h : String} {rest : List Sexp} {φ : Form}
    (h1 : (h == "forall") = false) (h2 : (h == "when") = false) (h3 : (h == "and") = false)
    (ha : AstEff C (.list (.atom h :: rest)) φ) : astPEffect C (.list (.atom h :: rest)) = some φ := by
  have key : astCEffect C (.list (.atom h :: rest)) = some φ → astPEffect C (.list (.atom h :: rest)) = some φ := by
    intro hc
    cases h4 : (h == "oneof") with
    | false => rw [astCEffect_plain C h rest h1 h2 h3 h4] at hc; exact hc
    | true =>
      rw [astCEffect_cons, astCBody_nonforall C h rest h1] at hc
      unfold astCBodyFlat at hc
      simp [h2, h4] at hc
  rcases ha with ha | ha | ha | ha
  · rw [astEffect_list] at ha
    simp only [h3, Bool.false_eq_true, if_false] at ha
    exact key ha
  · exact key ha
  · rw [astCondEffect_other C h rest (by simpa using h3)] at ha; exact ha
  · exact ha

/-! ### shapes of the operands of a conjunction -/

theorem astAtom_notAnd {C : PCtx} {t : Sexp} {φ : Form} (h : astAtom C t = some φ) : notOp .and φ = true := by
  unfold astAtom at h
  split at h
  · split at h
    · split at h
      · split at h
        · simp only [Option.bind_eq_bind, Option.bind_eq_some_iff, Option.some.injEq] at h
          obtain ⟨_, _, _, _, rfl⟩ := h
          rfl
        · cases h
      · cases h
    · split at h
      · cases h
      · rw [Option.map_eq_some_iff] at h
        obtain ⟨_, _, rfl⟩ := h
        rfl
  · cases h

theorem astPEffect_notAnd {C : PCtx} {t : Sexp} {φ : Form} (h : astPEffect C t = some φ) : notOp .and φ = true := by
  unfold astPEffect at h
  split at h
  · rw [Option.map_eq_some_iff] at h
    obtain ⟨_, _, rfl⟩ := h
    rfl
  · split at h
    · rename_i k hk
      split at h
      · split at h
        · cases h
          have : k ≠ .and := by
            intro e; subst e
            unfold assignOp? at hk
            repeat (split at hk; · cases hk)
            cases hk
          simp [notOp, this]
        · cases h
      · cases h
    · exact astAtom_notAnd h
  · cases h

theorem astCEffect_notAnd {C : PCtx} {t : Sexp} {φ : Form} (h : astCEffect C t = some φ) : notOp .and φ = true := by
  cases t with
  | atom _ => rw [astCEffect] at h; cases h
  | list xs =>
    match xs, h with
    | [], h => rw [astCEffect, astCEffectL] at h; cases h
    | .list _ :: _, h => rw [astCEffect, astCEffectL] at h; cases h
    | .atom hd :: rest, h =>
      by_cases hf : hd = "forall"
      · subst hf
        rw [astCEffect_cons, astCBody.eq_def] at h
        split at h
        · simp only [beq_self_eq_true, if_true] at h
          split at h
          · cases h; rfl
          · cases h
        · simp at h
      · by_cases hw : hd = "when"
        · subst hw
          rw [astCEffect_cons, astCBody_nonforall C "when" rest rfl] at h
          unfold astCBodyFlat at h
          simp only [beq_self_eq_true, if_true] at h
          split at h
          · split at h
            · cases h; rfl
            · cases h
          · cases h
        · have h1 : (hd == "forall") = false := by simpa using hf
          have h2 : (hd == "when") = false := by simpa using hw
          cases h3 : (hd == "and") with
          | true =>
            rw [astCEffect_cons, astCBody_nonforall C hd rest h1] at h
            unfold astCBodyFlat at h
            simp [h2, h3] at h
          | false =>
            cases h4 : (hd == "oneof") with
            | true =>
              rw [astCEffect_cons, astCBody_nonforall C hd rest h1] at h
              unfold astCBodyFlat at h
              simp [h2, h3, h4] at h
            | false =>
              rw [astCEffect_plain C hd rest h1 h2 h3 h4] at h
              exact astPEffect_notAnd h

/-- `And` of operands that need no simplification -/
def andNode : List Form → Form
  | [x] => x
  | l => .op .and l

/-- `And(*operands)` of pairwise different operands that are not conjunctions: nothing is simplified but a single operand -/
theorem mkOp_and_plain (φs : List Form) (hnd : φs.Nodup) (hno : ∀ φ ∈ φs, notOp .and φ = true) :
    mkOp .and φs = andNode φs := by
  have hs : simplifyOperands .and φs = φs := by
    unfold simplifyOperands
    simp only [OpK.idem, if_true]
    rw [dedup_of_nodup φs hnd]
    split
    · rfl
    · rw [flatList_notOp .and φs hno, dedup_of_nodup φs hnd]
  unfold mkOp
  simp only [OpK.isMeta, if_true, hs, OpK.idem]
  match φs with
  | [] => rfl
  | [x] => rfl
  | _ :: _ :: _ => rfl

end UPVerif.FromPddl
