import UPVerif.Lemmas.BuildLemmas
/-! The two invariants of the model-building state machine and their preservation by every call:
`Inv` (what `clone` and `__eq__` rely on, property C22) and `TC` (every stored value is
type-compatible with its target, property C23). -/
namespace UPVerif.Build

/-! ### actions list -/

theorem findAction_some {as : List ActionSt} {n : String} {a : ActionSt}
    (h : findAction as n = some a) : a ∈ as ∧ a.name = n := by
  induction as with
  | nil => simp [findAction] at h
  | cons b r ih =>
    simp only [findAction] at h
    split at h
    · rename_i hb
      simp only [Option.some.injEq] at h
      subst h
      exact ⟨by simp, hb⟩
    · obtain ⟨h1, h2⟩ := ih h
      exact ⟨by simp [h1], h2⟩

theorem findAction_append {as bs : List ActionSt} {n : String}
    (h : (findAction as n).isSome = true) : (findAction (as ++ bs) n).isSome = true := by
  induction as with
  | nil => simp [findAction] at h
  | cons b r ih =>
    simp only [findAction, List.cons_append] at *
    split
    · simp
    · rename_i hb
      rw [if_neg hb] at h
      exact ih h

theorem findAction_updAction {as : List ActionSt} {n m : String} {a' : ActionSt} (ha : a'.name = n) :
    (findAction (updAction as n a') m).isSome = (findAction as m).isSome := by
  induction as with
  | nil => rfl
  | cons b r ih =>
    simp only [updAction]
    split
    · rename_i hb
      simp only [findAction, ha, hb]
      split <;> rfl
    · simp only [findAction]
      split
      · rfl
      · exact ih

theorem mem_updAction {as : List ActionSt} {n : String} {a' x : ActionSt}
    (h : x ∈ updAction as n a') : x = a' ∨ x ∈ as := by
  induction as with
  | nil => simp [updAction] at h
  | cons b r ih =>
    simp only [updAction] at h
    split at h
    · simp only [List.mem_cons] at h
      rcases h with h | h
      · exact Or.inl h
      · exact Or.inr (by simp [h])
    · simp only [List.mem_cons] at h
      rcases h with h | h
      · exact Or.inr (by simp [h])
      · rcases ih h with h | h
        · exact Or.inl h
        · exact Or.inr (by simp [h])

/-! ### `_add_user_type` only touches `_user_types` and only raises `UPProblemDefinitionError` -/

theorem addUT_err (T : TypeEnv) (eun : Bool) (others : String → Bool) :
    ∀ (n : Nat) (uts : List String) (t : String) (e : Err),
      (addUT T eun others n uts t).1 = some e → e = .problemDef := by
  intro n
  induction n with
  | zero => intro uts t e h; simp [addUT] at h
  | succ n ih =>
    intro uts t e h
    simp only [addUT] at h
    split at h
    · simp at h
    · split at h
      · simp only [Option.some.injEq] at h; exact h.symm
      · split at h
        · rename_i e' he'
          simp only [Option.some.injEq] at h
          subst h
          split at he'
          · exact ih _ _ _ he'
          · simp at he'
        · simp at h

theorem addUserTypes_st (E : Env) : ∀ (ts : List String) (s : State),
    ∃ u, (addUserTypes E s ts).st = { s with userTypes := u } := by
  intro ts
  induction ts with
  | nil => intro s; exact ⟨s.userTypes, rfl⟩
  | cons t ts ih =>
    intro s
    simp only [addUserTypes]
    split
    · exact ⟨_, rfl⟩
    · obtain ⟨u, hu⟩ := ih (addUserType E s t).st
      exact ⟨u, by rw [hu]; rfl⟩

theorem addUserTypes_err (E : Env) : ∀ (ts : List String) (s : State) (e : Err),
    (addUserTypes E s ts).err = some e → e = .problemDef := by
  intro ts
  induction ts with
  | nil => intro s e h; simp [addUserTypes] at h
  | cons t ts ih =>
    intro s e h
    simp only [addUserTypes] at h
    split at h
    · rename_i e' he'
      simp only [Option.some.injEq] at h
      subst h
      exact addUT_err _ _ _ _ _ _ _ he'
    · exact ih _ _ h

/-! ### effects -/

theorem mkEffect_fields {fl v c : Expr} {k : EffKind} {vs : List Var} {e : Effect}
    (h : mkEffect fl v c k vs = .ok e) : e.fluent = fl ∧ e.value = v := by
  unfold mkEffect at h
  split at h
  · split at h
    · cases h
    · split at h
      · cases h
      · dsimp only at h
        split at h
        · simp only [Except.ok.injEq] at h
          subst h
          exact ⟨rfl, rfl⟩
        · cases h
  · cases h

theorem buildEffect_ok {E : Env} {k : EffKind} {f : FluentRef} {fl v c : Expr} {vs : List Var} {e : Effect}
    (h : buildEffect E k f fl v c vs = .ok e) : mkEffect fl v c k vs = .ok e ∧ valueOK E f.ty v = true := by
  unfold buildEffect at h
  split at h
  · cases h
  · split at h
    · cases h
    · split at h
      · cases h
      · rename_i hv
        split at h
        · cases h
        · exact ⟨h, by simpa using hv⟩

/-! ### `Inv`: what clone and `__eq__` rely on -/

/-- a stored metric is well formed w.r.t. the problem's actions -/
def metricWF (acts : List ActionSt) : Metric → Prop
  | .minActionCosts costs _ => NoDupKeys costs ∧ ∀ ac ∈ costs, (findAction acts ac.1).isSome = true
  | .oversub gs => NoDupKeys gs
  | _ => True

theorem metricWF_mono {as bs : List ActionSt}
    (h : ∀ n, (findAction as n).isSome = true → (findAction bs n).isSome = true) {m : Metric}
    (hm : metricWF as m) : metricWF bs m := by
  cases m with
  | minActionCosts costs d => exact ⟨hm.1, fun ac hac => h _ (hm.2 ac hac)⟩
  | minLength => trivial
  | minFinal e => trivial
  | maxFinal e => trivial
  | oversub gs => exact hm

structure Inv (s : State) : Prop where
  initND : NoDupKeys s.init
  teffND : NoDupKeys s.timedEffects
  tgoalND : NoDupKeys s.timedGoals
  actEff : ∀ a ∈ s.actions, ∀ e ∈ a.effs, EffWF e
  tEff : ∀ te ∈ s.timedEffects, ∀ e ∈ te.2, EffWF e
  metrics : ∀ m ∈ s.metrics, metricWF s.actions m

theorem inv_fresh (name : String) : Inv (freshProblem name) :=
  ⟨nodupKeys_nil, nodupKeys_nil, nodupKeys_nil, by simp [freshProblem], by simp [freshProblem],
   by simp [freshProblem]⟩

theorem inv_addUserTypes (E : Env) (ts : List String) {s : State} (h : Inv s) :
    Inv (addUserTypes E s ts).st := by
  obtain ⟨u, hu⟩ := addUserTypes_st E ts s
  rw [hu]
  exact ⟨h.1, h.2, h.3, h.4, h.5, h.6⟩

theorem inv_updAction {s : State} {an : String} {a a' : ActionSt} (h : Inv s)
    (ha : findAction s.actions an = some a) (hn : a'.name = a.name)
    (he : ∀ e ∈ a'.effs, EffWF e) : Inv { s with actions := updAction s.actions an a' } := by
  obtain ⟨_, hname⟩ := findAction_some ha
  refine ⟨h.1, h.2, h.3, ?_, h.5, ?_⟩
  · intro x hx
    rcases mem_updAction hx with hx | hx
    · subst hx; exact he
    · exact h.4 x hx
  · intro m hm
    refine metricWF_mono ?_ (h.6 m hm)
    intro n hn'
    rw [findAction_updAction (hn.trans hname)]
    exact hn'

theorem inv_apply (E : Env) {s : State} (op : Op) (h : Inv s) : Inv (apply E s op).st := by
  cases op with
  | addFluent f d =>
    simp only [apply, addFluent]
    split
    · exact h
    · split
      · exact h
      · exact inv_addUserTypes E _ ⟨h.1, h.2, h.3, h.4, h.5, h.6⟩
  | addObject n t =>
    simp only [apply, addObject]
    split
    · exact h
    · exact inv_addUserTypes E _ ⟨h.1, h.2, h.3, h.4, h.5, h.6⟩
  | setInit fl v =>
    simp only [apply, setInit]
    split
    · exact h
    · split
      · exact h
      · split
        · exact h
        · split
          · exact h
          · split
            · exact h
            · exact ⟨nodup_dictSet _ _ h.1, h.2, h.3, h.4, h.5, h.6⟩
  | addAction n ps =>
    simp only [apply, addAction]
    split
    · exact h
    · apply inv_addUserTypes
      refine ⟨h.1, h.2, h.3, ?_, h.5, ?_⟩
      · intro a ha
        simp only [List.mem_append, List.mem_singleton] at ha
        rcases ha with ha | ha
        · exact h.4 a ha
        · subst ha; simp [ActionSt.fresh]
      · intro m hm
        exact metricWF_mono (fun n hn => findAction_append hn) (h.6 m hm)
  | actAddPre an e =>
    simp only [apply, actAddPre]
    split
    · exact h
    · rename_i a ha
      split
      · exact h
      · split
        · exact h
        · split
          · exact h
          · split
            · exact h
            · split
              · exact h
              · exact inv_updAction h ha rfl (fun e he => h.4 a (findAction_some ha).1 e he)
  | actAddEff an k fl v c vs =>
    simp only [apply, actAddEff]
    split
    · exact h
    · rename_i a ha
      split
      · exact h
      · split
        · exact h
        · split
          · exact h
          · rename_i eff heff
            split
            · exact h
            · refine inv_updAction h ha rfl ?_
              intro e he
              simp only [List.mem_append, List.mem_singleton] at he
              rcases he with he | he
              · exact h.4 a (findAction_some ha).1 e he
              · subst he; exact mkEffect_idem (buildEffect_ok heff).1
  | addGoal e =>
    simp only [apply, addGoal]
    split
    · exact h
    · split
      · exact h
      · split
        · exact h
        · exact ⟨h.1, h.2, h.3, h.4, h.5, h.6⟩
  | addTraj e =>
    simp only [apply, addTraj]
    split
    · exact ⟨h.1, h.2, h.3, h.4, h.5, h.6⟩
    · exact h
  | addTimedEffect t k fl v c vs =>
    simp only [apply, addTimedEffect]
    split
    · split <;> exact h
    · split
      · exact h
      · split
        · exact h
        · split
          · exact h
          · rename_i eff heff
            split
            · exact h
            · refine ⟨h.1, nodup_dictSet _ _ h.2, h.3, h.4, ?_, h.6⟩
              intro te hte e he
              rcases mem_dictSet hte with hte | hte
              · subst hte
                simp only [List.mem_append, List.mem_singleton] at he
                rcases he with he | he
                · cases hg : dictGet s.timedEffects t with
                  | none => rw [hg] at he; simp at he
                  | some l =>
                    rw [hg] at he
                    exact h.5 (t, l) (mem_of_dictGet hg) e he
                · subst he; exact mkEffect_idem (buildEffect_ok heff).1
              · exact h.5 te hte e he
  | addTimedGoal i e =>
    simp only [apply, addTimedGoal]
    split
    · exact h
    · split
      · exact h
      · split
        · exact h
        · exact ⟨h.1, h.2, nodup_dictSet _ _ h.3, h.4, h.5, h.6⟩
  | addMetric m =>
    cases m with
    | minActionCosts costs d =>
      simp only [apply, addMetric]
      split
      · exact h
      · rename_i hfound
        split
        · exact h
        · split
          · exact h
          · refine ⟨h.1, h.2, h.3, h.4, h.5, ?_⟩
            intro m hm
            simp only [List.mem_append, List.mem_singleton] at hm
            rcases hm with hm | hm
            · exact h.6 m hm
            · subst hm
              refine ⟨nodup_foldl_dictSet _ _ nodupKeys_nil, ?_⟩
              intro ac hac
              rcases mem_foldl_dictSet _ _ _ hac with hac | hac
              · simp at hac
              · have hall : costs.all (fun ac => (findAction s.actions ac.1).isSome) = true := by
                  cases hh : costs.all (fun ac => (findAction s.actions ac.1).isSome) with
                  | true => rfl
                  | false => rw [hh] at hfound; exact absurd rfl hfound
                exact List.all_eq_true.1 hall ac hac
    | minLength =>
      simp only [apply, addMetric]
      refine ⟨h.1, h.2, h.3, h.4, h.5, ?_⟩
      intro m hm
      simp only [List.mem_append, List.mem_singleton] at hm
      rcases hm with hm | hm
      · exact h.6 m hm
      · subst hm; trivial
    | minFinal e =>
      simp only [apply, addMetric]
      split
      · refine ⟨h.1, h.2, h.3, h.4, h.5, ?_⟩
        intro m hm
        simp only [List.mem_append, List.mem_singleton] at hm
        rcases hm with hm | hm
        · exact h.6 m hm
        · subst hm; trivial
      · exact h
    | maxFinal e =>
      simp only [apply, addMetric]
      split
      · refine ⟨h.1, h.2, h.3, h.4, h.5, ?_⟩
        intro m hm
        simp only [List.mem_append, List.mem_singleton] at hm
        rcases hm with hm | hm
        · exact h.6 m hm
        · subst hm; trivial
      · exact h
    | oversub gs =>
      simp only [apply, addMetric]
      split
      · refine ⟨h.1, h.2, h.3, h.4, h.5, ?_⟩
        intro m hm
        simp only [List.mem_append, List.mem_singleton] at hm
        rcases hm with hm | hm
        · exact h.6 m hm
        · subst hm; exact nodup_foldl_dictSet _ _ nodupKeys_nil
      · exact h
  | setEpsilon q =>
    simp only [apply, setEpsilon]
    split
    · split
      · exact h
      · exact ⟨h.1, h.2, h.3, h.4, h.5, h.6⟩
    · exact ⟨h.1, h.2, h.3, h.4, h.5, h.6⟩
  | setDiscreteTime b => exact ⟨h.1, h.2, h.3, h.4, h.5, h.6⟩
  | setSelfOverlapping b => exact ⟨h.1, h.2, h.3, h.4, h.5, h.6⟩

theorem inv_runOps (E : Env) : ∀ (ops : List Op) {s : State}, Inv s → Inv (runOps E s ops).1
  | [], _, h => h
  | op :: ops, _, h => inv_runOps E ops (inv_apply E op h)

theorem inv_newProblem {E : Env} {name : String} {d : List (Ty × Expr)} {s : State}
    (h : newProblem E name d = .ok s) : Inv s := by
  unfold newProblem at h
  split at h
  · simp only [Except.ok.injEq] at h
    subst h
    exact ⟨nodupKeys_nil, nodupKeys_nil, nodupKeys_nil, by simp [freshProblem], by simp [freshProblem],
           by simp [freshProblem]⟩
  · cases h

theorem reachable_inv {E : Env} {s : State} (h : Reachable E s) : Inv s := by
  obtain ⟨name, d, s0, ops, h0, rfl⟩ := h
  exact inv_runOps E ops (inv_newProblem h0)

/-- reachability is closed under further calls -/
theorem reachable_runOps {E : Env} {s : State} (h : Reachable E s) (ops : List Op) :
    Reachable E (runOps E s ops).1 := by
  obtain ⟨name, d, s0, ops0, h0, rfl⟩ := h
  refine ⟨name, d, s0, ops0 ++ ops, h0, ?_⟩
  clear h0
  induction ops0 generalizing s0 with
  | nil => rfl
  | cons o os ih => exact ih (apply E s0 o).st

/-! ### clone on a state satisfying `Inv` -/

theorem actionClone_eq {a : ActionSt} (h : ∀ e ∈ a.effs, EffWF e) : actionClone a = a := by
  simp only [actionClone, ActionSt.fresh]
  rw [map_eq_self (fun e he => effectClone_of_WF (h e he))]

theorem metricClone_eq {acts : List ActionSt} {m : Metric} (h : metricWF acts m) :
    metricClone acts m = .ok m := by
  cases m with
  | minActionCosts costs d =>
    simp only [metricClone]
    rw [if_pos (by simpa [List.all_eq_true] using h.2), foldl_dictSet_self h.1]
  | minLength => rfl
  | minFinal e => rfl
  | maxFinal e => rfl
  | oversub gs => rfl

theorem metricsClone_eq {acts : List ActionSt} : ∀ {ms : List Metric},
    (∀ m ∈ ms, metricWF acts m) → metricsClone acts ms = .ok ms
  | [], _ => rfl
  | m :: ms, h => by
    simp only [metricsClone]
    rw [metricClone_eq (h m (by simp)), metricsClone_eq (fun x hx => h x (by simp [hx]))]

theorem clone_eq_self {s : State} (h : Inv s) : clone s = .ok s := by
  have ha : s.actions.map actionClone = s.actions :=
    map_eq_self (fun a ha => actionClone_eq (h.actEff a ha))
  have ht : s.timedEffects.map (fun (te : Timing × List Effect) => (te.1, te.2.map effectClone)) = s.timedEffects :=
    map_eq_self (fun te hte => by
      rw [map_eq_self (fun e he => effectClone_of_WF (h.tEff te hte e he))])
  have hg : s.timedGoals.map (fun (tg : TInterval × List Expr) => (tg.1, tg.2)) = s.timedGoals :=
    map_eq_self (fun _ _ => rfl)
  have hta : s.tAssigned.map (fun (ta : Timing × List (Expr × Expr)) => (ta.1, ta.2)) = s.tAssigned :=
    map_eq_self (fun _ _ => rfl)
  have hti : s.tIncDec.map (fun (ti : Timing × List Expr) => (ti.1, ti.2)) = s.tIncDec :=
    map_eq_self (fun _ _ => rfl)
  simp only [clone, freshProblem]
  rw [ha, ht, hg, hta, hti, metricsClone_eq h.metrics]

/-! ### `TC`: every stored value is type-correct -/

structure TC (E : Env) (s : State) : Prop where
  init : ∀ fv ∈ s.init, initOK E fv = true
  fdef : ∀ fd ∈ s.fluentsDefaults, checkDefault E fd.1.ty fd.2 = true
  idef : ∀ td ∈ s.initialDefaults, checkDefault E td.1 td.2 = true
  aeff : ∀ a ∈ s.actions, ∀ e ∈ a.effs, effOK E e = true
  teff : ∀ te ∈ s.timedEffects, ∀ e ∈ te.2, effOK E e = true

theorem typeCorrect_iff (E : Env) (s : State) : typeCorrect E s = true ↔ TC E s := by
  simp only [typeCorrect, Bool.and_eq_true, List.all_eq_true]
  constructor
  · rintro ⟨⟨⟨⟨h1, h2⟩, h3⟩, h4⟩, h5⟩
    exact ⟨h1, h2, h3, h4, h5⟩
  · intro h
    exact ⟨⟨⟨⟨h.1, h.2⟩, h.3⟩, h.4⟩, h.5⟩

theorem tc_addUserTypes (E : Env) (ts : List String) {s : State} (h : TC E s) :
    TC E (addUserTypes E s ts).st := by
  obtain ⟨u, hu⟩ := addUserTypes_st E ts s
  rw [hu]
  exact ⟨h.1, h.2, h.3, h.4, h.5⟩

theorem tc_updAction {E : Env} {s : State} {an : String} {a' : ActionSt} (h : TC E s)
    (he : ∀ e ∈ a'.effs, effOK E e = true) : TC E { s with actions := updAction s.actions an a' } := by
  refine ⟨h.1, h.2, h.3, ?_, h.5⟩
  intro x hx
  rcases mem_updAction hx with hx | hx
  · subst hx; exact he
  · exact h.4 x hx

theorem effOK_built {E : Env} {k : EffKind} {f : FluentRef} {args : List Expr} {fl v c : Expr}
    {vs : List Var} {e : Effect} (hf : asFluentExp fl = some (f, args))
    (h : buildEffect E k f fl v c vs = .ok e) : effOK E e = true := by
  obtain ⟨hm, hv⟩ := buildEffect_ok h
  obtain ⟨h1, h2⟩ := mkEffect_fields hm
  simp only [effOK, h1, hf, h2]
  exact hv

theorem tc_apply (E : Env) {s : State} (op : Op) (h : TC E s) : TC E (apply E s op).st := by
  cases op with
  | addFluent f d =>
    simp only [apply, addFluent]
    split
    · exact h
    · split
      · exact h
      · rename_i hbad
        apply tc_addUserTypes
        refine ⟨h.1, ?_, h.3, h.4, h.5⟩
        intro fd hfd
        cases d with
        | some v =>
          simp only [newDefaults] at hfd
          have hok : checkDefault E f.ty v = true := by simpa [defaultBad] using hbad
          rcases mem_dictSet hfd with hfd | hfd
          · subst hfd
            exact hok
          · exact h.2 fd hfd
        | none =>
          simp only [newDefaults] at hfd
          split at hfd
          · rename_i v hv
            rcases mem_dictSet hfd with hfd | hfd
            · subst hfd
              exact h.3 (f.ty, v) (mem_of_dictGet hv)
            · exact h.2 fd hfd
          · exact h.2 fd hfd
  | addObject n t =>
    simp only [apply, addObject]
    split
    · exact h
    · exact tc_addUserTypes E _ ⟨h.1, h.2, h.3, h.4, h.5⟩
  | setInit fl v =>
    simp only [apply, setInit]
    split
    · exact h
    · rename_i f args hf
      split
      · exact h
      · split
        · exact h
        · split
          · exact h
          · rename_i hv
            split
            · exact h
            · rename_i hc
              refine ⟨?_, h.2, h.3, h.4, h.5⟩
              intro fv hfv
              rcases mem_dictSet hfv with hfv | hfv
              · subst hfv
                have h1 : valueOK E f.ty v = true := by simpa using hv
                have h2 : v.isConstant = true := by simpa using hc
                simp [initOK, hf, h1, h2]
              · exact h.1 fv hfv
  | addAction n ps =>
    simp only [apply, addAction]
    split
    · exact h
    · apply tc_addUserTypes
      refine ⟨h.1, h.2, h.3, ?_, h.5⟩
      intro a ha
      simp only [List.mem_append, List.mem_singleton] at ha
      rcases ha with ha | ha
      · exact h.4 a ha
      · subst ha; simp [ActionSt.fresh]
  | actAddPre an e =>
    simp only [apply, actAddPre]
    split
    · exact h
    · rename_i a ha
      split
      · exact h
      · split
        · exact h
        · split
          · exact h
          · split
            · exact h
            · split
              · exact h
              · exact tc_updAction h (fun e he => h.4 a (findAction_some ha).1 e he)
  | actAddEff an k fl v c vs =>
    simp only [apply, actAddEff]
    split
    · exact h
    · rename_i a ha
      split
      · exact h
      · rename_i f args hf
        split
        · exact h
        · split
          · exact h
          · rename_i eff heff
            split
            · exact h
            · refine tc_updAction h ?_
              intro e he
              simp only [List.mem_append, List.mem_singleton] at he
              rcases he with he | he
              · exact h.4 a (findAction_some ha).1 e he
              · subst he; exact effOK_built hf heff
  | addGoal e =>
    simp only [apply, addGoal]
    split
    · exact h
    · split
      · exact h
      · split
        · exact h
        · exact ⟨h.1, h.2, h.3, h.4, h.5⟩
  | addTraj e =>
    simp only [apply, addTraj]
    split
    · exact ⟨h.1, h.2, h.3, h.4, h.5⟩
    · exact h
  | addTimedEffect t k fl v c vs =>
    simp only [apply, addTimedEffect]
    split
    · split <;> exact h
    · rename_i f args hf
      split
      · exact h
      · split
        · exact h
        · split
          · exact h
          · rename_i eff heff
            split
            · exact h
            · refine ⟨h.1, h.2, h.3, h.4, ?_⟩
              intro te hte e he
              rcases mem_dictSet hte with hte | hte
              · subst hte
                simp only [List.mem_append, List.mem_singleton] at he
                rcases he with he | he
                · cases hg : dictGet s.timedEffects t with
                  | none => rw [hg] at he; simp at he
                  | some l =>
                    rw [hg] at he
                    exact h.5 (t, l) (mem_of_dictGet hg) e he
                · subst he; exact effOK_built hf heff
              · exact h.5 te hte e he
  | addTimedGoal i e =>
    simp only [apply, addTimedGoal]
    split
    · exact h
    · split
      · exact h
      · split
        · exact h
        · exact ⟨h.1, h.2, h.3, h.4, h.5⟩
  | addMetric m =>
    cases m with
    | minActionCosts costs d =>
      simp only [apply, addMetric]
      split
      · exact h
      · split
        · exact h
        · split
          · exact h
          · exact ⟨h.1, h.2, h.3, h.4, h.5⟩
    | minLength => exact ⟨h.1, h.2, h.3, h.4, h.5⟩
    | minFinal e =>
      simp only [apply, addMetric]
      split
      · exact ⟨h.1, h.2, h.3, h.4, h.5⟩
      · exact h
    | maxFinal e =>
      simp only [apply, addMetric]
      split
      · exact ⟨h.1, h.2, h.3, h.4, h.5⟩
      · exact h
    | oversub gs =>
      simp only [apply, addMetric]
      split
      · exact ⟨h.1, h.2, h.3, h.4, h.5⟩
      · exact h
  | setEpsilon q =>
    simp only [apply, setEpsilon]
    split
    · split
      · exact h
      · exact ⟨h.1, h.2, h.3, h.4, h.5⟩
    · exact ⟨h.1, h.2, h.3, h.4, h.5⟩
  | setDiscreteTime b => exact ⟨h.1, h.2, h.3, h.4, h.5⟩
  | setSelfOverlapping b => exact ⟨h.1, h.2, h.3, h.4, h.5⟩

theorem tc_runOps (E : Env) : ∀ (ops : List Op) {s : State}, TC E s → TC E (runOps E s ops).1
  | [], _, h => h
  | op :: ops, _, h => tc_runOps E ops (tc_apply E op h)

theorem tc_newProblem {E : Env} {name : String} {d : List (Ty × Expr)} {s : State}
    (h : newProblem E name d = .ok s) : TC E s := by
  unfold newProblem at h
  split at h
  · rename_i hall
    simp only [Except.ok.injEq] at h
    subst h
    refine ⟨by simp [freshProblem], by simp [freshProblem], ?_, by simp [freshProblem], by simp [freshProblem]⟩
    intro td htd
    rcases mem_foldl_dictSet _ _ _ htd with htd | htd
    · simp at htd
    · rw [List.all_eq_true] at hall
      exact hall td htd
  · cases h

theorem tc_reachable {E : Env} {s : State} (h : Reachable E s) : TC E s := by
  obtain ⟨name, d, s0, ops, h0, rfl⟩ := h
  exact tc_runOps E ops (tc_newProblem h0)

/-! ### what a raising call leaves behind -/

theorem addUserTypes_err' (E : Env) (ts : List String) (s : State) :
    (addUserTypes E s ts).err = none ∨ (addUserTypes E s ts).err = some .problemDef := by
  cases h : (addUserTypes E s ts).err with
  | none => exact Or.inl rfl
  | some e => rw [addUserTypes_err E ts s e h]; exact Or.inr rfl

/-- a call either leaves the object as it was, or succeeds, or raises `UPProblemDefinitionError` -/
theorem apply_trichotomy (E : Env) (s : State) (op : Op) :
    (apply E s op).st = s ∨ (apply E s op).err = none ∨ (apply E s op).err = some .problemDef := by
  generalize hr : apply E s op = r
  cases op with
  | addFluent f d =>
    simp only [apply, addFluent] at hr
    repeat' (split at hr)
    all_goals subst hr
    all_goals first | exact Or.inl rfl | exact Or.inr (Or.inl rfl) | exact Or.inr (addUserTypes_err' E _ _)
  | addObject n t =>
    simp only [apply, addObject] at hr
    repeat' (split at hr)
    all_goals subst hr
    all_goals first | exact Or.inl rfl | exact Or.inr (Or.inl rfl) | exact Or.inr (addUserTypes_err' E _ _)
  | addAction n ps =>
    simp only [apply, addAction] at hr
    repeat' (split at hr)
    all_goals subst hr
    all_goals first | exact Or.inl rfl | exact Or.inr (Or.inl rfl) | exact Or.inr (addUserTypes_err' E _ _)
  | setInit fl v =>
    simp only [apply, setInit] at hr
    repeat' (split at hr)
    all_goals subst hr
    all_goals first | exact Or.inl rfl | exact Or.inr (Or.inl rfl)
  | actAddPre an x =>
    simp only [apply, actAddPre] at hr
    repeat' (split at hr)
    all_goals subst hr
    all_goals first | exact Or.inl rfl | exact Or.inr (Or.inl rfl)
  | actAddEff an k fl v c vs =>
    simp only [apply, actAddEff] at hr
    repeat' (split at hr)
    all_goals subst hr
    all_goals first | exact Or.inl rfl | exact Or.inr (Or.inl rfl)
  | addGoal x =>
    simp only [apply, addGoal] at hr
    repeat' (split at hr)
    all_goals subst hr
    all_goals first | exact Or.inl rfl | exact Or.inr (Or.inl rfl)
  | addTraj x =>
    simp only [apply, addTraj] at hr
    repeat' (split at hr)
    all_goals subst hr
    all_goals first | exact Or.inl rfl | exact Or.inr (Or.inl rfl)
  | addTimedEffect t k fl v c vs =>
    simp only [apply, addTimedEffect] at hr
    repeat' (split at hr)
    all_goals subst hr
    all_goals first | exact Or.inl rfl | exact Or.inr (Or.inl rfl)
  | addTimedGoal i x =>
    simp only [apply, addTimedGoal] at hr
    repeat' (split at hr)
    all_goals subst hr
    all_goals first | exact Or.inl rfl | exact Or.inr (Or.inl rfl)
  | addMetric m =>
    cases m <;> simp only [apply, addMetric] at hr <;> (repeat' (split at hr)) <;> subst hr <;>
      first | exact Or.inl rfl | exact Or.inr (Or.inl rfl)
  | setEpsilon q =>
    simp only [apply, setEpsilon] at hr
    repeat' (split at hr)
    all_goals subst hr
    all_goals first | exact Or.inl rfl | exact Or.inr (Or.inl rfl)
  | setDiscreteTime b => subst hr; exact Or.inr (Or.inl rfl)
  | setSelfOverlapping b => subst hr; exact Or.inr (Or.inl rfl)

/-- every exception other than the `UPProblemDefinitionError` of `_add_user_type` (raised after
    `add_fluent` / `add_object` / `add_action` have appended) is raised before anything is stored -/
theorem apply_err_unchanged (E : Env) (s : State) (op : Op) (e : Err)
    (h : (apply E s op).err = some e) (hne : e ≠ .problemDef) : (apply E s op).st = s := by
  rcases apply_trichotomy E s op with h1 | h1 | h1
  · exact h1
  · rw [h1] at h; cases h
  · rw [h1] at h
    simp only [Option.some.injEq] at h
    exact absurd h.symm hne

/-! ### `__eq__` is reflexive on states satisfying `Inv` -/

theorem foldl_pres {α β : Type} {P : β → Prop} {f : β → α → β} (hf : ∀ b a, P b → P (f b a)) :
    ∀ (l : List α) (b : β), P b → P (l.foldl f b)
  | [], _, h => h
  | a :: l, b, h => foldl_pres hf l (f b a) (hf b a h)

theorem nodup_initialValues (T : TypeEnv) {s : State} (h : NoDupKeys s.init) :
    NoDupKeys (initialValues T s) := by
  unfold initialValues
  refine foldl_pres (P := fun d => NoDupKeys d) ?_ _ _ h
  intro d f hd
  refine foldl_pres (P := fun d => NoDupKeys d) ?_ _ _ hd
  intro d' fe hd'
  split
  · exact nodup_dictSet _ _ hd'
  · exact hd'

theorem actionRefEq_refl (s : State) (a : String) : actionRefEq s s a a = true := by
  unfold actionRefEq
  cases h : findAction s.actions a with
  | none => simp
  | some x => simp [actionEq_refl]

theorem metricEq_refl {s : State} {m : Metric} (h : metricWF s.actions m) : metricEq s s m m = true := by
  cases m with
  | minActionCosts costs d =>
    simp only [metricEq, beq_self_eq_true, Bool.true_and, List.all_eq_true, List.any_eq_true,
      Bool.and_eq_true]
    intro ac hac
    exact ⟨ac, hac, actionRefEq_refl s ac.1, by simp⟩
  | minLength => rfl
  | minFinal e => simp [metricEq]
  | maxFinal e => simp [metricEq]
  | oversub gs => exact dictEq_refl h

theorem eqBody_refl (T : TypeEnv) {s : State} (h : Inv s) : eqBody T s s = true := by
  unfold eqBody
  rw [setEq_refl, setEq_refl, setEq_refl, setEq_refl, setEq_refl,
    dictEq_refl (nodup_initialValues T h.initND),
    setEqBy_refl (fun m hm => metricEq_refl (h.metrics m hm)),
    setEqBy_refl (fun a _ => actionInSetEq_refl a),
    timedEq_refl h.teffND effectEq_refl,
    timedEq_refl h.tgoalND (fun x => by simp)]
  simp

theorem eq_refl {κ : Type} [DecidableEq κ] (K : State → κ) (T : TypeEnv) {s : State} (h : Inv s) :
    eq K T s s = true := by
  simp [eq, eqBody_refl T h]

end UPVerif.Build
