import UPVerif.Lemmas.ExecEnvInit
/-!
Helper lemmas for C35, part 2: what the environment's initial state reads on non-hidden and on hidden
ground fluents.
-/
namespace UPVerif.ExecEnv
open UPVerif UPVerif.Expr UPVerif.Sim UPVerif.Spec

/-! ### unpacking a successful construction -/

theorem getInitialState_go_ok {W : World} {s0 s : SimState} : ∀ (l : List Expr),
    getInitialState.go W s0 l = .ok (some s) → s = s0
  | [], h => by
    simp [getInitialState.go] at h
    exact h.symm
  | si :: sis, h => by
    unfold getInitialState.go at h
    split at h
    · cases h
    · cases h
    · cases h
    · exact getInitialState_go_ok sis h

theorem getInitialState_ok {W : World} {s : SimState} (h : getInitialState W = .ok (some s)) :
    initialState? W.P = some s := by
  unfold getInitialState at h
  split at h
  · cases h
  · rename_i s0 h0
    rw [h0, getInitialState_go_ok _ h]

theorem mkEnv_ok {C : CProblem} {mc : Option Nat} {simp : Expr → Expr} {fn : FunRef → List Val → Option Val}
    {choice : Asg} {E : Env} (h : mkEnv C mc simp fn choice = .ok E) :
    choice ∈ models C mc ∧ E.W = { P := fullProblem C choice, simp := simp, fn := fn } ∧
    initialState? (fullProblem C choice) = some E.st ∧ E.sensing = C.sensing := by
  unfold mkEnv at h
  split at h
  · cases h
  · split at h
    · cases h
    · split at h
      · cases h
      · rename_i _ _ hc
        simp only at h
        split at h
        · cases h
        · cases h
        · rename_i s hs
          cases h
          refine ⟨?_, rfl, getInitialState_ok hs, rfl⟩
          simpa using hc

/-! ### the full initial-value list -/

def choiceInit (choice : Asg) : List (Expr × Expr) := choice.map (fun p => (p.1, Expr.bool p.2))

def visibleInit (C : CProblem) : List (Expr × Expr) :=
  C.base.init.filter (fun fv => !(hiddenAtoms C).contains fv.1)

theorem fullProblem_init {C : CProblem} {mc : Option Nat} {choice : Asg} (h : choice ∈ models C mc) :
    (fullProblem C choice).init = visibleInit C ++ choiceInit choice := by
  have hk := (mem_models h).1
  show setAll (visibleInit C) choice = _
  apply setAll_fresh
  · intro p hp fv hfv heq
    unfold visibleInit at hfv
    rw [List.mem_filter] at hfv
    have : p.1 ∈ hiddenAtoms C := by rw [← hk, List.mem_map]; exact ⟨p, hp, rfl⟩
    rw [← heq] at this
    simp [this] at hfv
  · rw [hk]; exact nodup_dedup _

theorem find?_filter_of_imp {α : Type} {p q : α → Bool} : ∀ {l : List α},
    (∀ x ∈ l, p x = true → q x = true) → (l.filter q).find? p = l.find? p
  | [], _ => rfl
  | x :: xs, h => by
    have ih := find?_filter_of_imp (l := xs) (fun y hy => h y (List.mem_cons_of_mem _ hy))
    by_cases hq : q x = true
    · simp [hq, List.find?_cons, ih]
    · have hp : p x = false := by
        cases hpx : p x
        · rfl
        · exact absurd (h x List.mem_cons_self hpx) hq
      simp [hq, hp, ih]

theorem find?_congr' {α : Type} {p q : α → Bool} : ∀ {l : List α},
    (∀ x ∈ l, p x = q x) → l.find? p = l.find? q
  | [], _ => rfl
  | x :: xs, h => by
    simp only [List.find?_cons, h x List.mem_cons_self]
    rw [find?_congr' (l := xs) (fun y hy => h y (List.mem_cons_of_mem _ hy))]

/-- non-hidden ground fluents: the explicit value in the full list is the problem's explicit value -/
theorem explicit_nonhidden {C : CProblem} {mc : Option Nat} {choice : Asg} (h : choice ∈ models C mc)
    {k : GKey} (hk : ¬ IsHidden C k) :
    explicitValue (fullProblem C choice).init k = explicitValue C.base.init k := by
  have hkeys := (mem_models h).1
  have hna : ∀ a ∈ hiddenAtoms C, keyOf? a ≠ some k := by
    intro a ha heq
    obtain ⟨x, hx, rfl⟩ := mem_hiddenAtoms.1 ha
    exact hk ⟨x, hx, heq⟩
  rw [fullProblem_init h]
  unfold explicitValue
  rw [List.find?_append]
  have h2 : (choiceInit choice).find? (fun fv => keyOf? fv.1 == some k) = none := by
    rw [List.find?_eq_none]
    intro fv hfv
    unfold choiceInit at hfv
    rw [List.mem_map] at hfv
    obtain ⟨p, hp, rfl⟩ := hfv
    have : p.1 ∈ hiddenAtoms C := by rw [← hkeys, List.mem_map]; exact ⟨p, hp, rfl⟩
    simpa using hna _ this
  rw [h2, Option.or_none]
  unfold visibleInit
  rw [find?_filter_of_imp]
  intro fv _ hp
  have hp' : keyOf? fv.1 = some k := by simpa using hp
  have : fv.1 ∉ hiddenAtoms C := fun hm => hna _ hm hp'
  simpa using this

theorem keysInjective_spec {C : CProblem} (h : keysInjective C = true) :
    ∀ e₁ ∈ keyExprs C, ∀ e₂ ∈ keyExprs C, keyOf? e₁ = keyOf? e₂ → (keyOf? e₁).isSome = true → e₁ = e₂ :=
  of_decide_eq_true h

theorem lookup_choiceInit : ∀ (choice : Asg) (a : Expr),
    (choiceInit choice).find? (fun fv => fv.1 == a) = (choice.lookup a).map (fun b => (a, Expr.bool b))
  | [], a => rfl
  | p :: ps, a => by
    unfold choiceInit
    simp only [List.map_cons, List.find?_cons, List.lookup]
    by_cases h : p.1 = a
    · subst h; simp
    · have h1 : (p.1 == a) = false := by simpa using h
      have h2 : (a == p.1) = false := by simpa using fun e => h e.symm
      rw [h1, h2]
      exact lookup_choiceInit ps a

/-- hidden ground fluents: the explicit value in the full list is the chosen one -/
theorem explicit_hidden {C : CProblem} {mc : Option Nat} {choice : Asg} (h : choice ∈ models C mc)
    (hinj : keysInjective C = true) {a : Expr} {b : Bool} {k : GKey}
    (hl : choice.lookup a = some b) (hka : keyOf? a = some k) :
    explicitValue (fullProblem C choice).init k = some (.b b) := by
  have hkeys := (mem_models h).1
  have inj := keysInjective_spec hinj
  have ha : a ∈ hiddenAtoms C := by
    rw [← hkeys, List.mem_map]
    obtain ⟨p, hp, hpa⟩ : ∃ p ∈ choice, p.1 = a := by
      clear h hkeys
      induction choice with
      | nil => simp at hl
      | cons q qs ih =>
        simp only [List.lookup] at hl
        split at hl
        · rename_i heq
          exact ⟨q, List.mem_cons_self, by simpa using (beq_iff_eq.1 heq).symm⟩
        · obtain ⟨p, hp, hpa⟩ := ih hl
          exact ⟨p, List.mem_cons_of_mem _ hp, hpa⟩
    exact ⟨p, hp, hpa⟩
  have haK : a ∈ keyExprs C := by unfold keyExprs; exact List.mem_append_right _ ha
  rw [fullProblem_init h]
  unfold explicitValue
  rw [List.find?_append]
  have h1 : (visibleInit C).find? (fun fv => keyOf? fv.1 == some k) = none := by
    rw [List.find?_eq_none]
    intro fv hfv hp
    have hp' : keyOf? fv.1 = some k := by simpa using hp
    unfold visibleInit at hfv
    rw [List.mem_filter] at hfv
    have hfK : fv.1 ∈ keyExprs C := by
      unfold keyExprs
      exact List.mem_append_left _ (List.mem_map.2 ⟨fv, hfv.1, rfl⟩)
    have : fv.1 = a := inj _ hfK _ haK (by rw [hp', hka]) (by rw [hp']; rfl)
    rw [this] at hfv
    simp [ha] at hfv
  rw [h1, Option.none_or]
  have h2 : (choiceInit choice).find? (fun fv => keyOf? fv.1 == some k) =
      (choiceInit choice).find? (fun fv => fv.1 == a) := by
    apply find?_congr'
    intro fv hfv
    unfold choiceInit at hfv
    rw [List.mem_map] at hfv
    obtain ⟨p, hp, rfl⟩ := hfv
    have hpH : p.1 ∈ hiddenAtoms C := by rw [← hkeys, List.mem_map]; exact ⟨p, hp, rfl⟩
    have hpK : p.1 ∈ keyExprs C := by unfold keyExprs; exact List.mem_append_right _ hpH
    show (keyOf? p.1 == some k) = (p.1 == a)
    by_cases he : p.1 = a
    · simp [he, hka]
    · have : keyOf? p.1 ≠ some k := by
        intro hpk
        exact he (inj _ hpK _ haK (by rw [hpk, hka]) (by rw [hpk]; rfl))
      have e1 : (keyOf? p.1 == some k) = false := beq_eq_false_iff_ne.2 this
      have e2 : (p.1 == a) = false := beq_eq_false_iff_ne.2 he
      rw [e1, e2]
  rw [h2, lookup_choiceInit, hl]
  rfl

/-! ### reading the state -/

theorem defaultOf_fullProblem (C : CProblem) (choice : Asg) (f : FluentRef) :
    defaultOf (fullProblem C choice) f =
      (C.base.fluents.find? (fun d => d.ref == f)).bind (fun d =>
        match d.default with
        | some e => constVal? e
        | none => (C.typeDefaults.lookup d.ref.ty).bind constVal?) := by
  unfold defaultOf
  show ((resolvedFluents C).find? _).bind _ = _
  unfold resolvedFluents
  rw [List.find?_map]
  cases h : C.base.fluents.find? (fun d => d.ref == f) with
  | none =>
    have : List.find? ((fun d => d.ref == f) ∘ fun d => ({ ref := d.ref, default := resolvedDefault C d } : FluentDecl))
        C.base.fluents = none := h
    rw [this]; rfl
  | some d =>
    have : List.find? ((fun d => d.ref == f) ∘ fun d => ({ ref := d.ref, default := resolvedDefault C d } : FluentDecl))
        C.base.fluents = some d := h
    rw [this]
    simp only [Option.map_some, Option.bind_some]
    unfold resolvedDefault
    cases d.default <;> rfl

theorem env_get {C : CProblem} {mc : Option Nat} {simp : Expr → Expr} {fn : FunRef → List Val → Option Val}
    {choice : Asg} {E : Env} (h : mkEnv C mc simp fn choice = .ok E) (k : GKey) :
    E.st.get E.W.P k = match explicitValue (fullProblem C choice).init k with
      | some v => some v
      | none => defaultOf (fullProblem C choice) k.1 := by
  obtain ⟨_, hW, hs, _⟩ := mkEnv_ok h
  rw [initialState?_eq] at hs
  cases hm : (fullProblem C choice).init.mapM keyed with
  | none => rw [hm] at hs; cases hs
  | some l =>
    rw [hm] at hs
    simp only [Option.map_some, Option.some.injEq] at hs
    unfold SimState.get
    rw [← hs, hW]
    simp only
    rw [lookup_keyed k hm]
    rfl

end UPVerif.ExecEnv
