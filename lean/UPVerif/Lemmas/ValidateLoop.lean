import UPVerif.Lemmas.ValidateStep
/-!
Helper lemmas for `Props/C03.lean`, part 2: the loop of `_validate` as a run of the declarative
semantics (loop invariant by induction on the plan), the goal check and the final-state metrics.
-/
namespace UPVerif.Validate
open UPVerif UPVerif.Sim UPVerif.Spec

/-! ### what one step adds to `metric_value` -/

/-- the amount the loop adds for one step taken in `s`; `none` = the metric cannot be evaluated there -/
def stepAmount (W : World) (m : Option Metric) (ai : Inst) (s : SimState) : Option Rat :=
  match m with
  | some (.minActionCosts c d) => costOf W c d ai s
  | some .minLength => some 1
  | _ => some 0

/-- the amount accumulated along a run -/
def accSpec (W : World) (m : Option Metric) : List Inst → List SimState → Option Rat
  | ai :: π, s :: pres =>
    match stepAmount W m ai s, accSpec W m π pres with
    | some q, some r => some (q + r)
    | _, _ => none
  | _, _ => some 0

theorem metricStep_go {W : World} {m : Option Metric} {s : SimState} {acc acc' : Rat} {ai : Inst}
    (h : metricStep W m s acc ai = .ok (.go acc')) : ∃ q, stepAmount W m ai s = some q ∧ acc' = acc + q := by
  unfold metricStep at h
  unfold stepAmount
  split at h
  · obtain ⟨q, hq, e⟩ := costStep_go h
    exact ⟨q, hq, by rw [e, Rat.add_comm]⟩
  · simp only [Except.ok.injEq, Out.go.injEq] at h
    exact ⟨1, rfl, h.symm⟩
  · simp only [Except.ok.injEq, Out.go.injEq] at h
    rename_i h1 h2
    refine ⟨0, ?_, by rw [← h, Rat.add_zero]⟩
    cases m with
    | none => rfl
    | some mt =>
      cases mt with
      | minActionCosts c d => exact absurd rfl (h1 c d)
      | minLength => exact absurd rfl h2
      | minFinal e => rfl
      | maxFinal e => rfl
      | oversub gs => rfl

theorem metricStep_stop {W : World} {m : Option Metric} {s : SimState} {acc : Rat} {ai : Inst} {w : Why}
    (h : metricStep W m s acc ai = .ok (.stop w)) : stepAmount W m ai s = none := by
  unfold metricStep at h
  unfold stepAmount
  split at h
  · exact costStep_stop h
  · cases h
  · cases h

/-! ### one iteration -/

theorem step_go {W : World} {m : Option Metric} {s s' : SimState} {acc acc' : Rat} {ai : Inst}
    (h : step W m s acc ai = .ok (.go (s', acc'))) :
    StepOK W s ai s' ∧ ∃ q, stepAmount W m ai s = some q ∧ acc' = acc + q := by
  unfold step at h
  cases hs : simStep W s ai with
  | error x => rw [hs] at h; cases h
  | ok o =>
    rw [hs] at h
    cases o with
    | stop w => cases h
    | go s'' =>
      dsimp only at h
      cases hm : metricStep W m s acc ai with
      | error x => rw [hm] at h; cases h
      | ok o2 =>
        rw [hm] at h
        cases o2 with
        | stop w => cases h
        | go a2 =>
          simp only [Except.ok.injEq, Out.go.injEq, Prod.mk.injEq] at h
          obtain ⟨e1, e2⟩ := h
          subst e1; subst e2
          exact ⟨simStep_go hs, metricStep_go hm⟩

theorem step_stop {W : World} {m : Option Metric} {s : SimState} {acc : Rat} {ai : Inst} {w : Why}
    (h : step W m s acc ai = .ok (.stop w)) :
    Stuck W s ai ∨ ((∃ s', StepOK W s ai s') ∧ stepAmount W m ai s = none) := by
  unfold step at h
  cases hs : simStep W s ai with
  | error x => rw [hs] at h; cases h
  | ok o =>
    rw [hs] at h
    cases o with
    | stop w' => left; exact simStep_stop hs
    | go s'' =>
      dsimp only at h
      right
      cases hm : metricStep W m s acc ai with
      | error x => rw [hm] at h; cases h
      | ok o2 =>
        rw [hm] at h
        cases o2 with
        | stop w' => exact ⟨⟨s'', simStep_go hs⟩, metricStep_stop hm⟩
        | go a2 => cases h

/-! ### the loop invariant -/

theorem loop_done {W : World} {m : Option Metric} : ∀ {π : List Inst} {s sf : SimState} {acc accf : Rat} {i : Nat},
    loop W m s acc i π = .ok (.done sf accf) →
    ∃ pres r, Exec W s π pres sf ∧ accSpec W m π pres = some r ∧ accf = acc + r
  | [], s, sf, acc, accf, i, h => by
    simp only [loop, Except.ok.injEq, LoopOut.done.injEq] at h
    obtain ⟨e1, e2⟩ := h
    subst e1; subst e2
    exact ⟨[], 0, .nil _, rfl, by rw [Rat.add_zero]⟩
  | ai :: π, s, sf, acc, accf, i, h => by
    simp only [loop] at h
    cases hs : step W m s acc ai with
    | error x => rw [hs] at h; cases h
    | ok o =>
      rw [hs] at h
      cases o with
      | stop w => cases h
      | go p =>
        obtain ⟨s', acc'⟩ := p
        dsimp only at h
        obtain ⟨hok, q, hq, hacc⟩ := step_go hs
        obtain ⟨pres, r, hex, hr, hf⟩ := loop_done h
        refine ⟨s :: pres, q + r, .cons hok hex, ?_, ?_⟩
        · simp only [accSpec, hq, hr]
        · rw [hf, hacc, Rat.add_assoc]

theorem loop_failed {W : World} {m : Option Metric} : ∀ {π : List Inst} {s : SimState} {acc : Rat} {i j : Nat} {w : Why},
    loop W m s acc i π = .ok (.failed w j) →
    ∃ π₁ ai π₂ pres sk, π = π₁ ++ ai :: π₂ ∧ j = i + π₁.length ∧ Exec W s π₁ pres sk ∧
      (Stuck W sk ai ∨ ((∃ s', StepOK W sk ai s') ∧ stepAmount W m ai sk = none))
  | [], s, acc, i, j, w, h => by simp [loop] at h
  | ai :: π, s, acc, i, j, w, h => by
    simp only [loop] at h
    cases hs : step W m s acc ai with
    | error x => rw [hs] at h; cases h
    | ok o =>
      rw [hs] at h
      cases o with
      | stop w' =>
        simp only [Except.ok.injEq, LoopOut.failed.injEq] at h
        exact ⟨[], ai, π, [], s, rfl, by simp [h.2], .nil _, step_stop hs⟩
      | go p =>
        obtain ⟨s', acc'⟩ := p
        dsimp only at h
        obtain ⟨hok, _⟩ := step_go hs
        obtain ⟨π₁, b, π₂, pres, sk, e1, e2, hex, hst⟩ := loop_failed h
        refine ⟨ai :: π₁, b, π₂, s :: pres, sk, by rw [e1]; rfl, ?_, .cons hok hex, hst⟩
        rw [e2]; simp only [List.length_cons]; omega

/-- the loop never reports a step outside the plan -/
theorem loop_failed_index {W : World} {m : Option Metric} {π : List Inst} {s : SimState} {acc : Rat} {i j : Nat} {w : Why}
    (h : loop W m s acc i π = .ok (.failed w j)) : i ≤ j ∧ j < i + π.length := by
  obtain ⟨π₁, ai, π₂, _, _, e1, e2, _, _⟩ := loop_failed h
  subst e1; subst e2
  simp only [List.length_append, List.length_cons]
  omega

/-- the goal-class messages never come out of the loop -/
theorem loop_failed_why {W : World} {m : Option Metric} : ∀ {π : List Inst} {s : SimState} {acc : Rat} {i j : Nat} {w : Why},
    loop W m s acc i π = .ok (.failed w j) → w.reason = .inapplicableAction
  | [], s, acc, i, j, w, h => by simp [loop] at h
  | ai :: π, s, acc, i, j, w, h => by
    simp only [loop] at h
    cases hs : step W m s acc ai with
    | error x => rw [hs] at h; cases h
    | ok o =>
      rw [hs] at h
      cases o with
      | go p => exact loop_failed_why h
      | stop w' =>
        simp only [Except.ok.injEq, LoopOut.failed.injEq] at h
        obtain ⟨e, _⟩ := h
        subst e
        -- which messages can `step` produce?
        unfold step at hs
        cases h1 : simStep W s ai with
        | error x => rw [h1] at hs; cases hs
        | ok o1 =>
          rw [h1] at hs
          cases o1 with
          | stop w1 =>
            simp only [Except.ok.injEq, Out.stop.injEq] at hs
            subst hs
            unfold simStep at h1
            split at h1
            · simp only [Except.ok.injEq, Out.stop.injEq] at h1; subst h1; rfl
            · split at h1
              · cases h1
              · simp only [Except.ok.injEq, Out.stop.injEq] at h1; subst h1; rfl
              · split at h1
                · simp only [Except.ok.injEq, Out.stop.injEq] at h1; subst h1; rfl
                · cases h1
                · simp only [Except.ok.injEq, Out.stop.injEq] at h1; subst h1; rfl
                · unfold catchStep at h1
                  split at h1
                  · cases h1
                  · simp only [Except.ok.injEq, Out.stop.injEq] at h1; subst h1; rfl
                  · simp only [Except.ok.injEq, Out.stop.injEq] at h1; subst h1; rfl
                  · simp only [Except.ok.injEq, Out.stop.injEq] at h1; subst h1; rfl
                  · cases h1
          | go s1 =>
            dsimp only at hs
            cases h2 : metricStep W m s acc ai with
            | error x => rw [h2] at hs; cases hs
            | ok o2 =>
              rw [h2] at hs
              cases o2 with
              | go _ => cases hs
              | stop w2 =>
                simp only [Except.ok.injEq, Out.stop.injEq] at hs
                subst hs
                unfold metricStep at h2
                split at h2
                · unfold costStep at h2
                  split at h2
                  · simp only [Except.ok.injEq, Out.stop.injEq] at h2; subst h2; rfl
                  · split at h2
                    · simp only [Except.ok.injEq, Out.stop.injEq] at h2; subst h2; rfl
                    · split at h2
                      · simp only [Except.ok.injEq, Out.stop.injEq] at h2; subst h2; rfl
                      · cases h2
                      · cases h2
                      · cases h2
                · cases h2
                · cases h2

/-! ### accumulated amount = the metric's value, for the per-step metrics -/

theorem accSpec_costs {W : World} (c : List (String × Expr)) (d : Option Expr) :
    ∀ (π : List Inst) (pres : List SimState),
      accSpec W (some (.minActionCosts c d)) π pres = costSum W c d π pres
  | [], _ => by simp [accSpec, costSum]
  | _ :: _, [] => by simp [accSpec, costSum]
  | ai :: π, s :: pres => by
    simp only [accSpec, costSum, stepAmount, accSpec_costs c d π pres]
    cases costOf W c d ai s <;> cases costSum W c d π pres <;> rfl

theorem accSpec_length {W : World} : ∀ (π : List Inst) (pres : List SimState), pres.length = π.length →
    accSpec W (some .minLength) π pres = some ((π.length : Nat) : Rat)
  | [], [], _ => by simp [accSpec]
  | [], _ :: _, h => by simp at h
  | _ :: _, [], h => by simp at h
  | ai :: π, s :: pres, h => by
    have ih := accSpec_length (W := W) π pres (by simpa using h)
    simp only [accSpec, stepAmount, ih, List.length_cons, Rat.natCast_add, Option.some.injEq]
    rw [Rat.add_comm]; rfl

theorem accSpec_perStep {W : World} {mt : Metric} (hp : perStep mt = true) (π : List Inst) (pres : List SimState)
    (sf : SimState) (hl : pres.length = π.length) : accSpec W (some mt) π pres = metricValue W mt π pres sf := by
  cases mt with
  | minActionCosts c d => exact accSpec_costs c d π pres
  | minLength => exact accSpec_length π pres hl
  | minFinal e => cases hp
  | maxFinal e => cases hp
  | oversub gs => cases hp

/-! ### the goal check and the final-state metrics -/

theorem goals_ok_iff {W : World} {s : SimState} :
    unsatisfiedGoals W s false = .ok [] ↔ Spec.isGoal W s = true := by
  unfold unsatisfiedGoals Spec.isGoal
  exact unsatInv_nil false W.P.goals 0

theorem oversubGain_ok {W : World} {s : SimState} : ∀ {gs : List (Expr × Rat)} {tot r : Rat},
    oversubGain (ctx W s) gs tot = .ok r → ∃ g, gain W s gs = some g ∧ r = tot + g
  | [], tot, r, h => by
    simp only [oversubGain, Except.ok.injEq] at h
    exact ⟨0, rfl, by rw [← h, Rat.add_zero]⟩
  | (e, w) :: gs, tot, r, h => by
    simp only [oversubGain] at h
    simp only [gain, boolVal]
    cases he : evalBool (ctx W s) e with
    | error x => rw [he] at h; cases h
    | ok b =>
      rw [he] at h
      cases b with
      | true =>
        obtain ⟨g, hg, hr⟩ := oversubGain_ok h
        exact ⟨w + g, by simp [hg], by rw [hr, Rat.add_assoc]⟩
      | false =>
        obtain ⟨g, hg, hr⟩ := oversubGain_ok h
        exact ⟨0 + g, by simp [hg], by rw [hr, Rat.zero_add]⟩

theorem oversubGain_error {W : World} {s : SimState} : ∀ {gs : List (Expr × Rat)} {tot : Rat} {x : EvalErr},
    oversubGain (ctx W s) gs tot = .error x → gain W s gs = none
  | [], tot, x, h => by simp [oversubGain] at h
  | (e, w) :: gs, tot, x, h => by
    simp only [oversubGain] at h
    simp only [gain, boolVal]
    cases he : evalBool (ctx W s) e with
    | error y => rfl
    | ok b =>
      rw [he] at h
      cases b with
      | true => simp [oversubGain_error h]
      | false => simp [oversubGain_error h]

theorem finalMetric_ok {W : World} {mt : Metric} {s : SimState} {q : Rat} (hp : perStep mt = false)
    (h : finalMetric W mt s = .ok q) (π : List Inst) (pres : List SimState) :
    metricValue W mt π pres s = some q := by
  cases mt with
  | minActionCosts c d => cases hp
  | minLength => cases hp
  | minFinal e =>
    simp only [finalMetric] at h
    simp only [metricValue, numVal]
    cases he : eval (ctx W s) [] e with
    | error x => rw [he] at h; cases h
    | ok v => rw [he] at h; cases v <;> simp_all
  | maxFinal e =>
    simp only [finalMetric] at h
    simp only [metricValue, numVal]
    cases he : eval (ctx W s) [] e with
    | error x => rw [he] at h; cases h
    | ok v => rw [he] at h; cases v <;> simp_all
  | oversub gs =>
    simp only [finalMetric] at h
    obtain ⟨g, hg, hr⟩ := oversubGain_ok h
    simp only [metricValue, hg, hr, Rat.zero_add]

theorem finalMetric_missing {W : World} {mt : Metric} {s : SimState} (hp : perStep mt = false)
    (h : finalMetric W mt s = .error .missing) (π : List Inst) (pres : List SimState) :
    metricValue W mt π pres s = none := by
  cases mt with
  | minActionCosts c d => cases hp
  | minLength => cases hp
  | minFinal e =>
    simp only [finalMetric] at h
    simp only [metricValue, numVal]
    cases he : eval (ctx W s) [] e with
    | error x => rfl
    | ok v => rw [he] at h; cases v <;> simp_all
  | maxFinal e =>
    simp only [finalMetric] at h
    simp only [metricValue, numVal]
    cases he : eval (ctx W s) [] e with
    | error x => rfl
    | ok v => rw [he] at h; cases v <;> simp_all
  | oversub gs =>
    simp only [finalMetric] at h
    simp only [metricValue, oversubGain_error h]

end UPVerif.Validate
