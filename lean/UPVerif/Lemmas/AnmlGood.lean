import UPVerif.Core.AnmlFragment
/-! the decidable check `goodRen` implies the hypothesis `Good` of the round-trip theorem -/
namespace UPVerif.Anml

theorem injOn_sound (ρ : Ren) : ∀ (l : List Item), injOn ρ l = true →
    ∀ i j, i ∈ l → j ∈ l → ρ.name i = ρ.name j → i = j
  | [], _, i, _, hi, _, _ => by cases hi
  | a :: as, h, i, j, hi, hj, hn => by
    simp only [injOn, Bool.and_eq_true, List.all_eq_true, Bool.or_eq_true, beq_iff_eq, bne_iff_ne, ne_eq] at h
    rcases List.mem_cons.1 hi with rfl | hi'
    · rcases List.mem_cons.1 hj with rfl | hj'
      · rfl
      · rcases h.1 j hj' with e | e
        · exact e
        · exact absurd hn e
    · rcases List.mem_cons.1 hj with rfl | hj'
      · rcases h.1 i hi' with e | e
        · exact e.symm
        · exact absurd hn.symm e
      · exact injOn_sound ρ as h.2 i j hi' hj' hn

theorem goodRen_sound (ρ : Ren) (P : AProblem) (h : goodRen ρ P = true) : Good ρ P :=
  injOn_sound ρ P.items h

end UPVerif.Anml
