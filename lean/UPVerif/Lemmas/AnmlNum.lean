import UPVerif.Core.AnmlPrint
import UPVerif.Core.AnmlRead
import Mathlib.Algebra.Order.Field.Rat
import Mathlib.Tactic.Linarith
import Mathlib.Tactic.FieldSimp
/-! number literals: what the reader makes of the writer's spelling of integers, rationals and real bounds -/
namespace UPVerif.Anml
open Tok

theorem pIntLit_intToks (z : Int) (r : List Tok) : pIntLit (intToks z ++ r) = some (z, r) := by
  unfold intToks
  split
  · rename_i h
    simp only [List.cons_append, List.nil_append, pIntLit]
    congr 2; omega
  · rename_i h
    simp only [List.cons_append, List.nil_append, pIntLit]
    congr 2; omega

theorem rat_num_div_den (q : Rat) : (q.num : Rat) / (q.den : Rat) = q := Rat.num_div_den q

theorem natAbs_cast_neg (z : Int) (h : z < 0) : -((z.natAbs : Nat) : Rat) = (z : Rat) := by
  have : ((z.natAbs : Nat) : Int) = -z := by omega
  have h2 : ((z.natAbs : Nat) : Rat) = ((-z : Int) : Rat) := by rw [← this]; simp
  rw [h2]; simp

theorem toNat_cast_nonneg (z : Int) (h : ¬ z < 0) : ((z.toNat : Nat) : Rat) = (z : Rat) := by
  have : ((z.toNat : Nat) : Int) = z := by omega
  calc ((z.toNat : Nat) : Rat) = (((z.toNat : Nat) : Int) : Rat) := (Int.cast_natCast _).symm
    _ = (z : Rat) := by rw [this]

theorem decVal_zero (n : Nat) : decVal n 0 1 = (n : Rat) := by
  unfold decVal
  simp only [pow_one, add_zero, Nat.cast_mul, Nat.cast_ofNat]
  field_simp

/-- a bound of a real type is read back exactly -/
theorem pRealLit_realBoundToks (q : Rat) (r : List Tok) : pRealLit (realBoundToks q ++ r) = some (q, r) := by
  unfold realBoundToks
  split
  · rename_i hd
    have hden : q.den = 1 := by simpa using hd
    have hq : (q.num : Rat) = q := by
      have := rat_num_div_den q
      rw [hden] at this; simpa using this
    split
    · rename_i hneg
      simp only [List.cons_append, List.nil_append, pRealLit, pURealLit, Option.map_some, decVal_zero]
      rw [natAbs_cast_neg _ hneg, hq]
    · rename_i hneg
      simp only [List.cons_append, List.nil_append]
      unfold pRealLit
      simp only [pURealLit, decVal_zero]
      rw [toNat_cast_nonneg _ hneg, hq]
  · unfold intToks
    split
    · rename_i hneg
      simp only [List.cons_append, List.nil_append, pRealLit, pURealLit]
      rw [if_neg q.den_nz]
      simp only [Option.map_some]
      congr 2
      rw [← neg_div, natAbs_cast_neg _ hneg, rat_num_div_den]
    · rename_i hneg
      simp only [List.cons_append, List.nil_append, List.append_assoc]
      unfold pRealLit
      simp only [pURealLit]
      rw [if_neg q.den_nz, toNat_cast_nonneg _ hneg, rat_num_div_den]

/-- a positive delay `n` or `n/d` is read back exactly (`r` must not continue the literal) -/
theorem pRatLit_ratToks (q : Rat) (hq : 0 ≤ q) (r : List Tok) (hr : ∀ r', r ≠ sym "/" :: r') :
    pRatLit (ratToks q ++ r) = some (q, r) := by
  have hnum : ¬ q.num < 0 := by
    have := Rat.num_nonneg.2 hq
    omega
  unfold ratToks intToks
  rw [if_neg hnum]
  split
  · rename_i hd
    have hden : q.den = 1 := by simpa using hd
    have hq' : (q.num : Rat) = q := by
      have := rat_num_div_den q
      rw [hden] at this; simpa using this
    simp only [List.cons_append, List.nil_append]
    cases r with
    | nil => simp [pRatLit, toNat_cast_nonneg _ hnum, hq']
    | cons t r' =>
      by_cases ht : t = sym "/"
      · exact absurd (by rw [ht]) (hr r')
      · unfold pRatLit
        split
        · rename_i heq; simp only [List.cons.injEq, Tok.num.injEq] at heq; exact absurd heq.2.1 ht
        · rename_i heq; simp only [List.cons.injEq, Tok.num.injEq] at heq
          rw [← heq.1, toNat_cast_nonneg _ hnum, hq', heq.2]
        · rename_i h1 h2; exact absurd rfl (h2 _ _)
  · simp only [List.cons_append, List.nil_append, List.append_assoc, pRatLit]
    rw [if_neg q.den_nz, toNat_cast_nonneg _ hnum, rat_num_div_den]

end UPVerif.Anml
