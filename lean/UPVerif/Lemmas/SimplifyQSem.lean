import UPVerif.Lemmas.DenLemmas
import UPVerif.Lemmas.SimplifySound
import UPVerif.Lemmas.SubstBasic
/-!
Helper lemmas for `Props/C11.lean`, part 7: semantics of quantifiers.  A transfer principle for the
reference denotation of `Exists`/`Forall` (`quant_transfer`), the shape of `assignments`, dropping
variables that do not occur (non-empty domains!), and the forward substitution lemma for one variable.
No Mathlib.
-/
namespace UPVerif.Simp
open Expr

/-! ### values of a quantifier from the values of its body -/

theorem allBoolsOpt_map_def {α : Type} (F : α → Option Val) :
    ∀ (A : List α) (bs : List Bool), allBoolsOpt (A.map F) = some bs →
      ∀ a, a ∈ A → ∃ x, F a = some (.b x)
  | [], _, _, a, ha => by cases ha
  | a0 :: A, bs, h, a, ha => by
    simp only [List.map_cons] at h
    cases hF : F a0 with
    | none => rw [hF] at h; simp [allBoolsOpt] at h
    | some v =>
      rw [hF] at h
      cases v with
      | b x =>
        simp only [allBoolsOpt, Option.map_eq_some_iff] at h
        obtain ⟨bs', hbs', _⟩ := h
        rcases List.mem_cons.1 ha with rfl | ha
        · exact ⟨x, hF⟩
        · exact allBoolsOpt_map_def F A bs' hbs' a ha
      | n q => simp [allBoolsOpt] at h
      | o nm => simp [allBoolsOpt] at h

theorem allBoolsOpt_map_some {α : Type} (F : α → Option Val) :
    ∀ (A : List α), (∀ a, a ∈ A → ∃ x, F a = some (.b x)) →
      ∃ bs, allBoolsOpt (A.map F) = some bs ∧
        (bs.any id = true ↔ ∃ a, a ∈ A ∧ F a = some (.b true)) ∧
        (bs.all id = true ↔ ∀ a, a ∈ A → F a = some (.b true))
  | [], _ => ⟨[], by simp [allBoolsOpt], by simp, by simp⟩
  | a0 :: A, h => by
    obtain ⟨x, hx⟩ := h a0 (by simp)
    obtain ⟨bs, hbs, hany, hall⟩ := allBoolsOpt_map_some F A (fun a ha => h a (List.mem_cons_of_mem _ ha))
    refine ⟨x :: bs, by simp [allBoolsOpt, hx, hbs], ?_, ?_⟩
    · simp only [List.any_cons, id, Bool.or_eq_true, hany, List.mem_cons, exists_eq_or_imp, hx,
        Option.some.injEq, Val.b.injEq]
    · simp only [List.all_cons, id, Bool.and_eq_true, hall, List.mem_cons, forall_eq_or_imp, hx,
        Option.some.injEq, Val.b.injEq]

/-- the truth condition of a quantifier over the assignments `A` with body values `F` -/
def qtrue {α : Type} (q : Quant) (A : List α) (F : α → Option Val) : Prop :=
  match q with
  | .ex => ∃ a, a ∈ A ∧ F a = some (.b true)
  | .all => ∀ a, a ∈ A → F a = some (.b true)

theorem quantVal_some_iff {α : Type} (q : Quant) (A : List α) (F : α → Option Val) (v : Val) :
    quantVal q (allBoolsOpt (A.map F)) = some v ↔
      (∀ a, a ∈ A → ∃ x, F a = some (.b x)) ∧ ∃ r, v = .b r ∧ (r = true ↔ qtrue q A F) := by
  constructor
  · intro h
    cases hb : allBoolsOpt (A.map F) with
    | none => rw [hb] at h; simp [quantVal] at h
    | some bs =>
      have hdef := allBoolsOpt_map_def F A bs hb
      obtain ⟨bs', hbs', hany, hall⟩ := allBoolsOpt_map_some F A hdef
      rw [hb] at hbs'; simp only [Option.some.injEq] at hbs'; subst hbs'
      rw [hb] at h
      simp only [quantVal, Option.some.injEq] at h
      refine ⟨hdef, _, h.symm, ?_⟩
      cases q
      · exact hany
      · exact hall
  · rintro ⟨hdef, r, rfl, hr⟩
    obtain ⟨bs, hbs, hany, hall⟩ := allBoolsOpt_map_some F A hdef
    rw [hbs]
    simp only [quantVal, Option.some.injEq, Val.b.injEq]
    cases q
    · simp only [qtrue] at hr
      rw [Bool.eq_iff_iff, hany, hr]
    · simp only [qtrue] at hr
      rw [Bool.eq_iff_iff, hall, hr]

/-- transfer of a defined quantifier value along a pair of matchings between the assignments.
    `T1`: every new assignment has an old one whose (defined) body value it inherits;
    `T2`: every old assignment has a new one inheriting its value (for `Exists` only `true` needs to
    be inherited) -/
theorem quantVal_transfer {α β : Type} (q : Quant) (A : List α) (F : α → Option Val) (A' : List β)
    (F' : β → Option Val)
    (T1 : ∀ a', a' ∈ A' → ∃ a, a ∈ A ∧ ∀ y, F a = some (.b y) → F' a' = some (.b y))
    (T2 : ∀ a, a ∈ A → ∀ y, F a = some (.b y) → (q = .ex → y = true) →
      ∃ a', a' ∈ A' ∧ F' a' = some (.b y))
    (v : Val) (h : quantVal q (allBoolsOpt (A.map F)) = some v) :
    quantVal q (allBoolsOpt (A'.map F')) = some v := by
  obtain ⟨hdef, r, rfl, hr⟩ := (quantVal_some_iff q A F _).1 h
  refine (quantVal_some_iff q A' F' _).2 ⟨?_, r, rfl, ?_⟩
  · intro a' ha'
    obtain ⟨a, ha, ht⟩ := T1 a' ha'
    obtain ⟨x, hx⟩ := hdef a ha
    exact ⟨x, ht x hx⟩
  · rw [hr]
    cases q
    · simp only [qtrue]
      constructor
      · rintro ⟨a, ha, hF⟩
        obtain ⟨a', ha', hF'⟩ := T2 a ha true hF (fun _ => rfl)
        exact ⟨a', ha', hF'⟩
      · rintro ⟨a', ha', hF'⟩
        obtain ⟨a, ha, ht⟩ := T1 a' ha'
        obtain ⟨x, hx⟩ := hdef a ha
        have := ht x hx
        rw [hF'] at this
        simp only [Option.some.injEq, Val.b.injEq] at this; subst this
        exact ⟨a, ha, hx⟩
    · simp only [qtrue]
      constructor
      · intro hall a' ha'
        obtain ⟨a, ha, ht⟩ := T1 a' ha'
        exact ht true (hall a ha)
      · intro hall a ha
        obtain ⟨x, hx⟩ := hdef a ha
        obtain ⟨a', ha', hF'⟩ := T2 a ha x hx (fun h => nomatch h)
        rw [hall a' ha'] at hF'
        simp only [Option.some.injEq, Val.b.injEq] at hF'; subst hF'
        exact hx

/-- same binder list, body values inherited pointwise -/
theorem den_quant_congr {ι : Interp} {q : Quant} {vs : List Var} {b b' : Expr} {ρ ρ' : VEnv}
    (hb : ∀ a, a ∈ assignments ι vs → ∀ v, den ι (a ++ ρ) b = some v → den ι (a ++ ρ') b' = some v)
    {v : Val} (h : den ι ρ (.quant q vs b) = some v) : den ι ρ' (.quant q vs b') = some v := by
  rw [den_quant] at h ⊢
  refine quantVal_transfer q _ _ _ _ ?_ ?_ v h
  · intro a ha; exact ⟨a, ha, fun y hy => hb a ha _ hy⟩
  · intro a ha y hy _; exact ⟨a, ha, hb a ha _ hy⟩

theorem den_quant_nil {ι : Interp} {q : Quant} {b : Expr} {ρ : VEnv} {v : Val}
    (h : den ι ρ (.quant q [] b) = some v) : den ι ρ b = some v := by
  rw [den_quant] at h
  obtain ⟨hdef, r, rfl, hr⟩ := (quantVal_some_iff q _ _ _).1 h
  simp only [assignments, List.mem_singleton, forall_eq, List.nil_append] at hdef
  obtain ⟨x, hx⟩ := hdef
  rw [hx]
  have : r = x := by
    cases q <;> simp only [qtrue, assignments, List.mem_singleton, exists_eq_left, forall_eq,
      List.nil_append, hx, Option.some.injEq, Val.b.injEq] at hr <;> cases r <;> cases x <;> simp_all
  rw [this]

/-! ### assignments -/

theorem mem_assignments_cons {ι : Interp} {v : Var} {vs : List Var} {a : VEnv} :
    a ∈ assignments ι (v :: vs) ↔
      ∃ x, x ∈ ι.dom v.ty ∧ ∃ a0, a0 ∈ assignments ι vs ∧ a = (v, x) :: a0 := by
  simp only [assignments, List.mem_flatMap, List.mem_map]
  constructor
  · rintro ⟨x, hx, a0, ha0, rfl⟩; exact ⟨x, hx, a0, ha0, rfl⟩
  · rintro ⟨x, hx, a0, ha0, rfl⟩; exact ⟨x, hx, a0, ha0, rfl⟩

theorem mem_assignments_nil {ι : Interp} {a : VEnv} : a ∈ assignments ι [] ↔ a = [] := by
  simp [assignments]

theorem assignments_get_dom {ι : Interp} : ∀ {vs : List Var} {a : VEnv}, a ∈ assignments ι vs →
    ∀ x w, VEnv.get a x = some w → w ∈ ι.dom x.ty
  | [], a, ha, x, w, h => by
    rw [mem_assignments_nil.1 ha] at h; simp [VEnv.get_nil] at h
  | v :: vs, a, ha, x, w, h => by
    obtain ⟨y, hy, a0, ha0, rfl⟩ := mem_assignments_cons.1 ha
    rw [VEnv.get_cons] at h
    split at h
    · rename_i hvx; subst hvx
      simp only [Option.some.injEq] at h; subst h; exact hy
    · exact assignments_get_dom ha0 x w h

theorem envOK_append {ι : Interp} {ρ : VEnv} (hρ : EnvOK ι ρ) {vs : List Var} {a : VEnv}
    (ha : a ∈ assignments ι vs) : EnvOK ι (a ++ ρ) := by
  intro x w h
  rw [VEnv.get_append] at h
  cases hg : VEnv.get a x with
  | some w' =>
    rw [hg] at h
    have h : w' = w := by simpa [Option.or] using h
    subst h
    exact assignments_get_dom ha x w' hg
  | none =>
    rw [hg] at h
    have h : VEnv.get ρ x = some w := by simpa [Option.or] using h
    exact hρ x w h

/-- the part of an assignment that binds the variables satisfying `p` -/
def keep (p : Var → Bool) (a : VEnv) : VEnv := a.filter (fun e => p e.1)

theorem get_keep (p : Var → Bool) : ∀ (a : VEnv) (x : Var), p x = true →
    VEnv.get (keep p a) x = VEnv.get a x
  | [], _, _ => rfl
  | (y, w) :: a, x, hp => by
    unfold keep
    by_cases hy : p y = true
    · simp only [List.filter, hy]
      rw [VEnv.get_cons, VEnv.get_cons]
      split
      · rfl
      · exact get_keep p a x hp
    · have hy' : p y = false := by simpa using hy
      simp only [List.filter, hy']
      rw [VEnv.get_cons, if_neg (fun h => by subst h; rw [hp] at hy'; cases hy')]
      exact get_keep p a x hp

theorem keep_mem_assignments {ι : Interp} (p : Var → Bool) : ∀ {vs : List Var} {a : VEnv},
    a ∈ assignments ι vs → keep p a ∈ assignments ι (vs.filter p)
  | [], a, ha => by
    rw [mem_assignments_nil.1 ha]; simp [keep, assignments]
  | v :: vs, a, ha => by
    obtain ⟨y, hy, a0, ha0, rfl⟩ := mem_assignments_cons.1 ha
    have ih := keep_mem_assignments p ha0
    unfold keep at ih ⊢
    by_cases hv : p v = true
    · simp only [List.filter, hv]
      exact mem_assignments_cons.2 ⟨y, hy, _, ih, rfl⟩
    · have hv' : p v = false := by simpa using hv
      simp only [List.filter, hv']
      exact ih

/-- every assignment of the kept variables extends to one of all variables, with prescribed values
    `d v` (inside the domain) for the dropped ones -/
theorem lift_assignment {ι : Interp} (p : Var → Bool) (d : Var → Val) :
    ∀ (vs : List Var), (∀ v, v ∈ vs → p v = false → d v ∈ ι.dom v.ty) →
    ∀ a', a' ∈ assignments ι (vs.filter p) →
      ∃ a, a ∈ assignments ι vs ∧ keep p a = a' ∧
        ∀ v, v ∈ vs → p v = false → VEnv.get a v = some (d v)
  | [], _, a', ha' => by
    simp only [List.filter_nil] at ha'
    exact ⟨[], by simp [assignments], by rw [mem_assignments_nil.1 ha']; rfl,
      fun v hv => absurd hv (by simp)⟩
  | v0 :: vs, hd, a', ha' => by
    have hd' : ∀ v, v ∈ vs → p v = false → d v ∈ ι.dom v.ty :=
      fun v hv => hd v (List.mem_cons_of_mem _ hv)
    by_cases hv : p v0 = true
    · simp only [List.filter, hv] at ha'
      obtain ⟨y, hy, a0', ha0', rfl⟩ := mem_assignments_cons.1 ha'
      obtain ⟨a0, ha0, hk, hg⟩ := lift_assignment p d vs hd' a0' ha0'
      refine ⟨(v0, y) :: a0, mem_assignments_cons.2 ⟨y, hy, a0, ha0, rfl⟩, ?_, ?_⟩
      · unfold keep at hk ⊢
        simp only [List.filter, hv, hk]
      · intro v hvm hpv
        rw [VEnv.get_cons, if_neg (fun h => by subst h; rw [hv] at hpv; cases hpv)]
        rcases List.mem_cons.1 hvm with rfl | hvm
        · rw [hv] at hpv; cases hpv
        · exact hg v hvm hpv
    · have hv' : p v0 = false := by simpa using hv
      simp only [List.filter, hv'] at ha'
      obtain ⟨a0, ha0, hk, hg⟩ := lift_assignment p d vs hd' a' ha'
      refine ⟨(v0, d v0) :: a0, mem_assignments_cons.2 ⟨d v0, hd v0 (by simp) hv', a0, ha0, rfl⟩, ?_, ?_⟩
      · unfold keep at hk ⊢
        simp only [List.filter, hv', hk]
      · intro v hvm hpv
        rw [VEnv.get_cons]
        split
        · rename_i h; subst h; rfl
        · rename_i hne
          rcases List.mem_cons.1 hvm with rfl | hvm
          · exact absurd rfl hne
          · exact hg v hvm hpv

/-- lookups in `a ++ ρ` and `keep p a ++ ρ` agree on the variables satisfying `p` -/
theorem get_keep_append (p : Var → Bool) (a ρ : VEnv) (x : Var) (hp : p x = true) :
    VEnv.get (keep p a ++ ρ) x = VEnv.get (a ++ ρ) x := by
  rw [VEnv.get_append, VEnv.get_append, get_keep p a x hp]

/-! ### dropping the variables that do not occur in the body -/

/-- some element of the domain of the type of `v` (if there is one) -/
def someVal (ι : Interp) (v : Var) : Val :=
  match ι.dom v.ty with
  | x :: _ => x
  | [] => default

theorem someVal_mem {ι : Interp} {v : Var} (h : (ι.dom v.ty).isEmpty = false) :
    someVal ι v ∈ ι.dom v.ty := by
  unfold someVal
  cases hd : ι.dom v.ty with
  | nil => rw [hd] at h; cases h
  | cons x xs => simp

theorem den_keep_eq {ι : Interp} {b : Expr} {ρ : VEnv} (a : VEnv) :
    den ι (keep (fun x => (freeVars b).contains x) a ++ ρ) b = den ι (a ++ ρ) b := by
  apply den_congr_env
  intro x hx
  exact get_keep_append _ a ρ x (by simpa using hx)

/-- a quantifier may drop the variables that are not free in its body — provided their domains are
    not empty (this is where D-C11e lives) -/
theorem den_quant_filter {ι : Interp} {q : Quant} {vs : List Var} {b : Expr} {ρ : VEnv} {v : Val}
    (hne : ∀ x, x ∈ vs → (ι.dom x.ty).isEmpty = false)
    (h : den ι ρ (.quant q vs b) = some v) :
    den ι ρ (.quant q (vs.filter (fun x => (freeVars b).contains x)) b) = some v := by
  rw [den_quant] at h ⊢
  refine quantVal_transfer q _ _ _ _ ?_ ?_ v h
  · intro a' ha'
    obtain ⟨a, ha, hk, _⟩ := lift_assignment (ι := ι) (fun x => (freeVars b).contains x) (someVal ι) vs
      (fun x hx _ => someVal_mem (hne x hx)) a' ha'
    refine ⟨a, ha, fun y hy => ?_⟩
    rw [← hk, den_keep_eq]; exact hy
  · intro a ha y hy _
    exact ⟨_, keep_mem_assignments _ ha, by rw [den_keep_eq]; exact hy⟩

/-! ### the manager's constructors preserve defined values -/

theorem rebuild_sound {ι : Interp} {ρ : VEnv} {op : Op} {as : List Expr} {v : Val}
    (h : den ι ρ (.app op as) = some v) : den ι ρ (rebuild op as) = some v := by
  unfold rebuild
  split
  · obtain ⟨xs, hxs, rfl⟩ := den_and_some.1 h; exact den_mkAnd hxs
  · obtain ⟨xs, hxs, rfl⟩ := den_or_some.1 h; exact den_mkOr hxs
  · obtain ⟨x, hx, rfl⟩ := den_not_some.1 h; exact den_mkNot hx
  · obtain ⟨xs, hxs, rfl⟩ := den_plus_some.1 h; exact den_mkPlus hxs
  · obtain ⟨xs, hxs, rfl⟩ := den_times_some.1 h; exact den_mkTimes hxs
  · exact h

/-! ### forward substitution lemma for one variable -/

theorem lookup_single (k t e : Expr) :
    List.lookup e [(k, t)] = if e = k then some t else none := by
  simp only [List.lookup]
  by_cases h : e = k
  · subst h; simp
  · have : (e == k) = false := by simpa using h
    simp [this, h]

theorem keptUnder_single_var (vs : List Var) (x : Var) (t : Expr) :
    keptUnder vs [(.leaf (.var x), t)] = if vs.contains x then [] else [(.leaf (.var x), t)] := by
  unfold keptUnder
  simp only [List.filter, freeVars, List.all_cons, List.all_nil, Bool.and_true]
  cases vs.contains x <;> simp

theorem mem_boundVarsList {y : Var} : ∀ {es : List Expr} {e : Expr}, e ∈ es → y ∈ boundVars e →
    y ∈ boundVarsList es
  | e' :: es, e, he, hy => by
    rw [boundVarsList]
    rcases List.mem_cons.1 he with rfl | he
    · exact List.mem_append_left _ hy
    · exact List.mem_append_right _ (mem_boundVarsList he hy)

mutual
/-- if `t` has the value `w` and no free variable of `t` is bound inside `e`, then replacing the
    variable `x` by `t` in `e` preserves every defined value of `e` under `x ↦ w` -/
theorem subst_var_sound {ι : Interp} {x : Var} {t : Expr} : ∀ (e : Expr) (ρ : VEnv) (w v : Val),
    den ι ρ t = some w → (∀ y, y ∈ freeVars t → y ∉ boundVars e) →
    den ι ((x, w) :: ρ) e = some v → den ι ρ (subst [(.leaf (.var x), t)] e) = some v
  | .leaf l, ρ, w, v, ht, _, h => by
    by_cases hl : Expr.leaf l = .leaf (.var x)
    · rw [subst_of_lookup_some _ _ t (by rw [lookup_single, if_pos hl])]
      rw [hl] at h
      simp only [den, denLeaf, VEnv.get_cons, if_true] at h
      rw [ht, ← h]
    · rw [subst_leaf_none _ _ (by rw [lookup_single, if_neg hl])]
      rw [den_leaf] at h ⊢
      cases l with
      | var y =>
        simp only [denLeaf, VEnv.get_cons] at h ⊢
        rw [if_neg (fun hxy => hl (by rw [hxy]))] at h
        exact h
      | _ => exact h
  | .app op args, ρ, w, v, ht, hcap, h => by
    rw [subst_app_none _ _ _ (by rw [lookup_single, if_neg (by simp)])]
    apply rebuild_sound
    obtain ⟨vs, hvs, hop⟩ := den_app_some.1 h
    exact den_app_some.2 ⟨vs, substList_var_sound args ρ w vs ht
      (fun y hy => by have := hcap y hy; rwa [boundVars] at this) hvs, hop⟩
  | .quant q vs b, ρ, w, v, ht, hcap, h => by
    rw [subst_quant_none _ _ _ _ (by rw [lookup_single, if_neg (by simp)]), keptUnder_single_var]
    have hcapvs : ∀ y, y ∈ freeVars t → y ∉ vs := fun y hy hm => hcap y hy (by
      rw [boundVars]; exact List.mem_append_left _ hm)
    have hcapb : ∀ y, y ∈ freeVars t → y ∉ boundVars b := fun y hy hm => hcap y hy (by
      rw [boundVars]; exact List.mem_append_right _ hm)
    by_cases hx : vs.contains x = true
    · -- `x` is rebound: nothing to substitute, and the outer binding of `x` is invisible
      simp only [hx, if_true, List.isEmpty_nil]
      rw [← h]
      apply den_congr_env
      intro y hy
      have hyx : x ≠ y := by
        intro hxy; subst hxy
        have := (mem_freeVars_quant.1 hy).2
        exact this (by simpa using hx)
      rw [VEnv.get_cons, if_neg hyx]
    · have hx' : vs.contains x = false := by simpa using hx
      simp only [hx', Bool.false_eq_true, if_false, List.isEmpty_cons]
      refine den_quant_congr ?_ h
      intro a ha v' hv'
      have hxa : x ∉ vs := by simpa using hx'
      apply subst_var_sound b (a ++ ρ) w v' ?_ hcapb
      · rw [← hv']
        apply den_congr_env
        intro y _
        rw [VEnv.get_cons, VEnv.get_append, VEnv.get_append, VEnv.get_cons]
        by_cases hxy : x = y
        · subst hxy
          rw [VEnv.get_eq_none_of_not_mem a x (by rw [assignments_keys ι vs a ha]; exact hxa)]
          simp
        · simp [hxy]
      · rw [den_under_irrelevant ι vs a ρ t ha hcapvs]; exact ht
theorem substList_var_sound {ι : Interp} {x : Var} {t : Expr} :
    ∀ (es : List Expr) (ρ : VEnv) (w : Val) (vs : List Val),
    den ι ρ t = some w → (∀ y, y ∈ freeVars t → y ∉ boundVarsList es) →
    denList ι ((x, w) :: ρ) es = some vs → denList ι ρ (substList [(.leaf (.var x), t)] es) = some vs
  | [], ρ, w, vs, _, _, h => by
    rw [substList_nil]; rw [denList_nil] at h ⊢; exact h
  | e :: es, ρ, w, vs, ht, hcap, h => by
    rw [substList_cons]
    obtain ⟨v, vs', hv, hvs', rfl⟩ := denList_cons_some.1 h
    refine denList_cons_some.2 ⟨v, vs', ?_, ?_, rfl⟩
    · exact subst_var_sound e ρ w v ht (fun y hy hm => hcap y hy (by
        rw [boundVarsList]; exact List.mem_append_left _ hm)) hv
    · exact substList_var_sound es ρ w vs' ht (fun y hy hm => hcap y hy (by
        rw [boundVarsList]; exact List.mem_append_right _ hm)) hvs'
end

end UPVerif.Simp
