import UPVerif.Lemmas.SimplifyArith
/-!
Helper lemmas for `Props/C11.lean`, part 4: relations, fluents, interpreted functions, and the
semantic correctness of the dispatch `walkApp` (`walkApp_sound`).  No Mathlib.
-/
namespace UPVerif.Simp
open Expr

/-! ### well-formedness (`allB`) basics -/

theorem allBList_iff {pl : Leaf → Bool} {pv : Var → Bool} {es : List Expr} :
    allBList pl pv es = true ↔ ∀ e, e ∈ es → allB pl pv e = true := by
  induction es with
  | nil => simp [allBList]
  | cons e es ih => simp [allBList, ih]

theorem allB_app {pl : Leaf → Bool} {pv : Var → Bool} {op : Op} {es : List Expr} :
    allB pl pv (.app op es) = true ↔ ∀ e, e ∈ es → allB pl pv e = true := by
  simp only [allB]; exact allBList_iff

theorem isSubtype_refl (E : TypeEnv) (t : String) : E.isSubtype t t = true := by
  unfold TypeEnv.isSubtype
  cases E.fathers.length <;> simp [TypeEnv.isSubtypeFuel]

/-! ### typing of user-typed terms -/

theorem VEnv_get_some {ρ : VEnv} {x : Var} {v : Val} (h : ρ.get x = some v) : (x, v) ∈ ρ := by
  unfold VEnv.get at h
  rw [Option.map_eq_some_iff] at h
  obtain ⟨p, hp, rfl⟩ := h
  have := List.find?_some hp
  have hm := List.mem_of_find?_eq_some hp
  simp only [beq_iff_eq] at this
  rw [← this]; exact hm

/-- a user-typed term (`userTypeOf? e = some t`) that has a value has it inside its type -/
theorem userType_sound {cfg : SimpCfg} {ι : Interp} {oty : String → Option String}
    (R : Respects cfg ι oty) {ρ : VEnv} (hρ : EnvOK ι ρ) {e : Expr} (hwf : WF ι oty e)
    {t : String} (ht : userTypeOf? e = some t) {v : Val} (hv : den ι ρ e = some v) :
    v ∈ ι.dom (.user t) := by
  unfold userTypeOf? at ht
  split at ht
  · -- object
    simp only [Option.some.injEq] at ht; subst ht
    simp only [den, denLeaf, Option.some.injEq] at hv; subst hv
    simp only [WF, allB, leafOK, beq_iff_eq] at hwf
    exact R.objTy _ _ hwf
  · -- parameter
    simp only [Option.some.injEq] at ht; subst ht
    simp only [den, denLeaf] at hv
    simp only [WF, allB, leafOK, hv, List.contains_eq_mem, decide_eq_true_eq] at hwf
    exact hwf
  · -- variable
    simp only [Option.some.injEq] at ht; subst ht
    simp only [den, denLeaf] at hv
    exact hρ _ _ hv
  · -- fluent
    simp only [Option.some.injEq] at ht; subst ht
    obtain ⟨vs, _, hop⟩ := den_app_some.1 hv
    simp only [denOp] at hop
    exact R.flTy _ vs v _ rfl hop
  · -- interpreted function
    simp only [Option.some.injEq] at ht; subst ht
    obtain ⟨vs, _, hop⟩ := den_app_some.1 hv
    simp only [denOp] at hop
    exact R.fnTy _ vs v _ rfl hop
  · -- Dot: no denotation
    obtain ⟨vs, _, hop⟩ := den_app_some.1 hv
    simp [denOp] at hop
  · cases ht

/-! ### `walk_equals`, `walk_le`, `walk_lt` -/

theorem isConstant_cases {e : Expr} (h : e.isConstant = true) :
    (∃ b, e = .leaf (.boolC b)) ∨ (∃ z, e = .leaf (.intC z)) ∨ (∃ r, e = .leaf (.realC r)) ∨
      (∃ n t, e = .leaf (.obj n t)) := by
  unfold isConstant at h
  split at h
  · exact .inl ⟨_, rfl⟩
  · exact .inr (.inl ⟨_, rfl⟩)
  · exact .inr (.inr (.inl ⟨_, rfl⟩))
  · exact .inr (.inr (.inr ⟨_, _, rfl⟩))
  · cases h

theorem walkEquals_sound {cfg : SimpCfg} {ι : Interp} {oty : String → Option String}
    (R : Respects cfg ι oty) {ρ : VEnv} (hρ : EnvOK ι ρ) {a b : Expr}
    (hwa : WF ι oty a) (hwb : WF ι oty b) {v : Val}
    (h : den ι ρ (.app .eq [a, b]) = some v) : den ι ρ (walkEquals cfg a b) = some v := by
  obtain ⟨va, vb, ha, hb, hop⟩ := den_app2_some.1 h
  unfold walkEquals
  split
  · -- two constants
    rename_i hc
    simp only [Bool.and_eq_true] at hc
    rcases isConstant_cases hc.1 with ⟨x, rfl⟩ | ⟨x, rfl⟩ | ⟨x, rfl⟩ | ⟨n, t, rfl⟩ <;>
    rcases isConstant_cases hc.2 with ⟨y, rfl⟩ | ⟨y, rfl⟩ | ⟨y, rfl⟩ | ⟨m, u, rfl⟩ <;>
    simp only [den, denLeaf, Option.some.injEq] at ha hb <;> subst ha hb <;>
    simp only [denOp, Option.some.injEq, reduceCtorEq] at hop
    all_goals subst hop
    all_goals simp only [constEq, Expr.num?, Num.toRat, Expr.bool, den, denLeaf, Option.some.injEq,
      Val.b.injEq]
    -- objects: same name implies same declared type
    all_goals try (first | rfl | (simp; done))
    simp only [WF, allB, leafOK] at hwa hwb
    have h1 := eq_of_beq hwa
    have h2 := eq_of_beq hwb
    grind
  · split
    · -- syntactically equal operands
      rename_i hab; subst hab
      rw [ha] at hb; simp only [Option.some.injEq] at hb; subst hb
      cases va <;> simp [denOp] at hop <;> subst hop <;> simp [tt, den, denLeaf]
    · split
      · rename_i ta tb hta htb
        split
        · -- incomparable user types: the operands cannot have the same value
          rename_i hinc
          simp only [Bool.and_eq_true, Bool.not_eq_eq_eq_not, Bool.not_true] at hinc
          have hma := userType_sound R hρ hwa hta ha
          have hmb := userType_sound R hρ hwb htb hb
          have hne : va ≠ vb := by
            intro heq; subst heq
            rcases R.domTree _ _ _ hma hmb with h1 | h1
            · rw [h1] at hinc; exact absurd hinc.2 (by simp)
            · rw [h1] at hinc; exact absurd hinc.1 (by simp)
          cases va <;> cases vb <;> simp [denOp] at hop <;> subst hop <;>
            simp [ff, den, denLeaf] <;> intro heq <;> exact hne (by rw [heq])
        · exact h
      · exact h

theorem walkCmp_sound {ι : Interp} {ρ : VEnv} {strict : Bool} {a b e' : Expr} {v : Val}
    (hw : walkCmp strict a b = .ok e')
    (h : den ι ρ (.app (if strict then .lt else .le) [a, b]) = some v) : den ι ρ e' = some v := by
  obtain ⟨va, vb, ha, hb, hop⟩ := den_app2_some.1 h
  unfold walkCmp at hw
  split at hw
  · split at hw
    · rename_i ca cb hca hcb
      have h1 := den_num (ι := ι) (ρ := ρ) hca
      have h2 := den_num (ι := ι) (ρ := ρ) hcb
      rw [ha] at h1; rw [hb] at h2
      simp only [Option.some.injEq] at h1 h2; subst h1 h2
      simp only [pure, Except.pure, Except.ok.injEq] at hw; subst hw
      cases strict <;> simp [denOp] at hop <;> subst hop <;> simp [Expr.bool, den, denLeaf]
    · cases hw
  · simp only [pure, Except.pure, Except.ok.injEq] at hw; subst hw
    cases strict <;> exact h

/-! ### fluents and interpreted functions -/

theorem walkFluent_sound {cfg : SimpCfg} {ι : Interp} {oty : String → Option String}
    (R : Respects cfg ι oty) {ρ : VEnv} {f : FluentRef} {args : List Expr} {v : Val}
    (h : den ι ρ (.app (.fluent f) args) = some v) : den ι ρ (walkFluent cfg f args) = some v := by
  unfold walkFluent
  simp only [mkFluent]
  split
  · exact h
  · rename_i hst
    split
    · exact h
    · split
      · rename_i val hval
        have hmem : f ∈ cfg.statics := by simpa using hst
        exact R.static f args val hmem hval ρ v h
      · exact h

theorem denList_constVals {ι : Interp} {ρ : VEnv} :
    ∀ {args : List Expr} {vs : List Val}, constVals? args = some vs → denList ι ρ args = some vs
  | [], vs, h => by simp only [constVals?, Option.some.injEq] at h; subst h; exact denList_nil _ _
  | a :: as, vs, h => by
    simp only [constVals?] at h
    split at h
    · rename_i v vs' hv hvs
      simp only [Option.some.injEq] at h; subst h
      refine denList_cons_some.2 ⟨v, vs', ?_, denList_constVals hvs, rfl⟩
      unfold constVal? at hv
      split at hv <;> simp only [Option.some.injEq, reduceCtorEq] at hv <;> subst hv <;>
        simp [den, denLeaf]
    · cases h

theorem walkIfun_sound {cfg : SimpCfg} {ι : Interp} {oty : String → Option String}
    (R : Respects cfg ι oty) {ρ : VEnv} {g : FunRef} {args : List Expr} {e' : Expr} {v : Val}
    (hw : walkIfun cfg g args = .ok e') (h : den ι ρ (.app (.ifun g) args) = some v) :
    den ι ρ e' = some v := by
  unfold walkIfun at hw
  split at hw
  · simp only [pure, Except.pure, Except.ok.injEq] at hw; subst hw; exact h
  · rename_i vs hvs
    split at hw
    · cases hw
    · rename_i r hr
      obtain ⟨ws, hws, hop⟩ := den_app_some.1 h
      rw [denList_constVals hvs] at hws
      simp only [Option.some.injEq] at hws; subst hws
      simp only [denOp] at hop
      exact R.funs g vs r e' hr hw ρ v hop

/-! ### the dispatch -/

theorem denOp_temporal_none (ι : Interp) (op : Op) (vs : List Val)
    (h : op = .always ∨ op = .sometime ∨ op = .atMostOnce ∨ op = .sometimeBefore ∨
      op = .sometimeAfter ∨ ∃ ag, op = .dot ag) : denOp ι op vs = none := by
  rcases h with rfl | rfl | rfl | rfl | rfl | ⟨ag, rfl⟩ <;> simp [denOp]

/-- every node function preserves a defined value (well-formed arguments, typed environment) -/
theorem walkApp_sound {cfg : SimpCfg} {ι : Interp} {oty : String → Option String}
    (R : Respects cfg ι oty) {ρ : VEnv} (hρ : EnvOK ι ρ) {op : Op} {as : List Expr} {e' : Expr}
    (hwf : ∀ a, a ∈ as → WF ι oty a) (hw : walkApp cfg op as = .ok e') {v : Val}
    (h : den ι ρ (.app op as) = some v) : den ι ρ e' = some v := by
  have temporal : ∀ op', (op' = .always ∨ op' = .sometime ∨ op' = .atMostOnce ∨ op' = .sometimeBefore ∨
      op' = .sometimeAfter ∨ ∃ ag, op' = .dot ag) → op = op' → False := by
    intro op' hop' heq; subst heq
    obtain ⟨vs, _, hv⟩ := den_app_some.1 h
    rw [denOp_temporal_none ι _ vs hop'] at hv; cases hv
  unfold walkApp at hw
  split at hw
  all_goals try (simp only [pure, Except.pure, Except.ok.injEq] at hw)
  · subst hw; exact walkJunc_sound (isAnd := true) h
  · subst hw; exact walkJunc_sound (isAnd := false) h
  · subst hw
    obtain ⟨x, hx, rfl⟩ := den_not_some.1 h
    exact den_walkNot hx
  · subst hw; exact walkIff_sound h
  · subst hw; exact walkImplies_sound h
  · subst hw
    exact walkEquals_sound R hρ (hwf _ (by simp)) (hwf _ (by simp)) h
  · exact walkCmp_sound (strict := false) hw h
  · exact walkCmp_sound (strict := true) hw h
  · subst hw; exact walkFluent_sound R h
  · exact walkIfun_sound R hw h
  · exact (temporal _ (.inr (.inr (.inr (.inr (.inr ⟨_, rfl⟩))))) rfl).elim
  · subst hw; exact walkPlus_sound h
  · subst hw; exact walkMinus_sound h
  · subst hw; exact walkTimes_sound h
  · exact walkDiv_sound hw h
  · exact (temporal _ (.inl rfl) rfl).elim
  · exact (temporal _ (.inr (.inl rfl)) rfl).elim
  · exact (temporal _ (.inr (.inr (.inl rfl))) rfl).elim
  · exact (temporal _ (.inr (.inr (.inr (.inl rfl)))) rfl).elim
  · exact (temporal _ (.inr (.inr (.inr (.inr (.inl rfl))))) rfl).elim
  · cases hw

end UPVerif.Simp
