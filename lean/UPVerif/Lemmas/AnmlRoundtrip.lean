import UPVerif.Lemmas.AnmlBuild
/-! the statement kinds of a printed problem, the reader's environment, and the round trip of whole problems -/
namespace UPVerif.Anml
open Tok

def ssOf (ρ : Ren) (P : AProblem) : List UStmt := (stmtsOf ρ P).map (·.2)

theorem fm_map_some {α β γ} {f : α → β} {g : β → Option γ} {h : α → γ} (H : ∀ a, g (f a) = some (h a)) :
    ∀ (l : List α), (l.map f).filterMap g = l.map h
  | [] => rfl
  | a :: l => by simp [List.filterMap_cons, H a, fm_map_some H l]

theorem fm_map_none {α β γ} {f : α → β} {g : β → Option γ} (H : ∀ a, g (f a) = none) :
    ∀ (l : List α), (l.map f).filterMap g = []
  | [] => rfl
  | a :: l => by simp [List.filterMap_cons, H a, fm_map_none H l]

theorem fm_map_ite {α β γ} {f : α → β} {g : β → Option γ} {h : α → γ} {p : α → Bool}
    (H : ∀ a, g (f a) = if p a then some (h a) else none) :
    ∀ (l : List α), (l.map f).filterMap g = (l.filter p).map h
  | [] => rfl
  | a :: l => by
    have ih := fm_map_ite H l
    by_cases hp : p a = true
    · simp [List.filterMap_cons, H a, hp, ih]
    · have hp' : p a = false := by simpa using hp
      simp [List.filterMap_cons, H a, hp', ih]

/-- the `instance` statements of the text -/
def instU (ρ : Ren) (P : AProblem) (ts : List (String × Option String)) : List (Ty × List String) :=
  ts.flatMap (fun t =>
    let os := (P.objects.filter (fun o => o.2 == t.1)).map (fun o => ρ.obj o.1)
    if os.isEmpty then [] else [(.user (ρ.ty t.1), os)])

theorem instance_sel (ρ : Ren) (P : AProblem) {γ} (g : UStmt → Option γ) (h : Ty × List String → Option γ)
    (H : ∀ t ns, g (.instance_ t ns) = h (t, ns)) :
    ((instanceStmts ρ P).map (·.2)).filterMap g = (instU ρ P P.types).filterMap h := by
  unfold instanceStmts instU
  induction P.types with
  | nil => rfl
  | cons t ts ih =>
    simp only [List.flatMap_cons, List.map_append, List.filterMap_append, ih]
    congr 1
    split
    · simp
    · simp only [List.map_cons, List.map_nil, List.filterMap_cons, List.filterMap_nil, H]

theorem sel_types (ρ : Ren) (P : AProblem) :
    (ssOf ρ P).filterMap selType = P.types.map (fun t => (ρ.ty t.1, t.2.map ρ.ty)) := by
  unfold ssOf stmtsOf
  simp only [List.map_append, List.filterMap_append, List.map_map]
  rw [fm_map_some (h := fun t => (ρ.ty t.1, t.2.map ρ.ty)) (by intro a; rfl),
    fm_map_none (by intro a; rfl), fm_map_none (by intro a; rfl),
    instance_sel ρ P selType (fun _ => none) (by intros; rfl),
    fm_map_none (by intro a; rfl), fm_map_none (by intro a; rfl), fm_map_none (by intro a; rfl),
    fm_map_none (by intro a; rfl), fm_map_none (by intro a; rfl)]
  simp

def fluentU (ρ : Ren) (f : AFluent) : Ty × String × List (String × Ty) :=
  (ρ.renTy f.ref.ty, ρ.fl f.ref.name, renDecls ρ ρ.par (f.pnames.zip f.ref.sig))

theorem sel_fluent (ρ : Ren) (P : AProblem) (c : Bool) :
    (ssOf ρ P).filterMap (selFluent c) = (P.fluents.filter (fun f => P.isStatic f.ref == c)).map (fluentU ρ) := by
  unfold ssOf stmtsOf
  simp only [List.map_append, List.filterMap_append, List.map_map]
  rw [fm_map_none (by intro a; rfl),
    fm_map_ite (h := fluentU ρ) (p := fun f => P.isStatic f.ref == c) (by intro a; rfl),
    fm_map_none (by intro a; rfl),
    instance_sel ρ P (selFluent c) (fun _ => none) (by intros; rfl),
    fm_map_none (by intro a; rfl), fm_map_none (by intro a; rfl), fm_map_none (by intro a; rfl),
    fm_map_none (by intro a; rfl), fm_map_none (by intro a; rfl)]
  simp

theorem sel_instance (ρ : Ren) (P : AProblem) :
    (ssOf ρ P).filterMap selInstance = instU ρ P P.types := by
  unfold ssOf stmtsOf
  simp only [List.map_append, List.filterMap_append, List.map_map]
  rw [fm_map_none (by intro a; rfl), fm_map_none (by intro a; rfl), fm_map_none (by intro a; rfl),
    instance_sel ρ P selInstance some (by intros; rfl),
    fm_map_none (by intro a; rfl), fm_map_none (by intro a; rfl), fm_map_none (by intro a; rfl),
    fm_map_none (by intro a; rfl), fm_map_none (by intro a; rfl)]
  simp

def actionU (ρ : Ren) (a : AAction) : String × List (String × Ty) × Bool × List UBody :=
  (ρ.act a.name, renDecls ρ ρ.par a.params, isInstA a, (actionItems ρ a).map (·.2))

theorem sel_action (ρ : Ren) (P : AProblem) :
    (ssOf ρ P).filterMap selAction = P.actions.map (actionU ρ) := by
  unfold ssOf stmtsOf
  simp only [List.map_append, List.filterMap_append, List.map_map]
  rw [fm_map_none (by intro a; rfl), fm_map_none (by intro a; rfl),
    fm_map_some (h := actionU ρ) (by intro a; rfl),
    instance_sel ρ P selAction (fun _ => none) (by intros; rfl),
    fm_map_none (by intro a; rfl), fm_map_none (by intro a; rfl), fm_map_none (by intro a; rfl),
    fm_map_none (by intro a; rfl), fm_map_none (by intro a; rfl)]
  simp

theorem sel_top (ρ : Ren) (P : AProblem) :
    (ssOf ρ P).filterMap selTop =
      P.init.map (fun i => UBody.eff (if initStatic P i then none else some (.point ⟨true, 0⟩))
          { vars := [], when_ := none, target := toU ρ i.1, kind := .assign, value := toU ρ i.2 })
      ++ P.timedEffects.map (fun e => UBody.eff (some (.point (uTiming e.1))) (uEffect ρ e.2))
      ++ P.goals.map (fun g => UBody.cond (some (.point ⟨false, 0⟩)) (toU ρ g))
      ++ P.timedGoals.map (fun g => UBody.cond (some (uInterval g.1)) (toU ρ g.2))
      ++ P.invariants.map (fun g => UBody.cond (some (.all false false)) (toU ρ g)) := by
  unfold ssOf stmtsOf
  simp only [List.map_append, List.filterMap_append, List.map_map]
  rw [fm_map_none (by intro a; rfl), fm_map_none (by intro a; rfl), fm_map_none (by intro a; rfl),
    instance_sel ρ P selTop (fun _ => none) (by intros; rfl),
    fm_map_some (h := fun i => UBody.eff (if initStatic P i then none else some (.point ⟨true, 0⟩))
          { vars := [], when_ := none, target := toU ρ i.1, kind := .assign, value := toU ρ i.2 }) (by intro a; rfl),
    fm_map_some (h := fun e => UBody.eff (some (.point (uTiming e.1))) (uEffect ρ e.2)) (by intro a; rfl),
    fm_map_some (h := fun g => UBody.cond (some (.point ⟨false, 0⟩)) (toU ρ g)) (by intro a; rfl),
    fm_map_some (h := fun g => UBody.cond (some (uInterval g.1)) (toU ρ g.2)) (by intro a; rfl),
    fm_map_some (h := fun g => UBody.cond (some (.all false false)) (toU ρ g)) (by intro a; rfl)]
  simp

end UPVerif.Anml

namespace UPVerif.Anml
open Tok

/-! ### the declarations -/

theorem optAll_map_some {α β} (g : α → Option β) (f : α → β) : ∀ (l : List α), (∀ x ∈ l, g x = some (f x)) →
    optAll (l.map g) = some (l.map f)
  | [], _ => rfl
  | a :: l, h => by
    simp only [List.map_cons, h a (by simp), optAll, optAll_map_some g f l (fun x hx => h x (by simp [hx])),
      Option.map_some]

/-- the reader's environment for the text of `P` -/
def envOf (ρ : Ren) (P : AProblem) : REnv :=
  { types := P.types.map (fun t => ρ.ty t.1),
    fluents := (P.fluents.filter (fun f => P.isStatic f.ref == true)).map ρ.renFluent
      ++ (P.fluents.filter (fun f => P.isStatic f.ref == false)).map ρ.renFluent,
    objects := (objectsByType P).map (fun o => (ρ.obj o.1, ρ.ty o.2)) }

theorem resolveTy_types (ρ : Ren) (P : AProblem) (env : REnv) (henv : env.types = P.types.map (fun t => ρ.ty t.1))
    (t : Ty) (h : wfTy P t = true) : resolveTy env (ρ.renTy t) = some (ρ.renTy t) := by
  cases t with
  | user n =>
    simp only [wfTy, List.contains_eq_mem, List.mem_map, decide_eq_true_eq] at h
    obtain ⟨d, hd, rfl⟩ := h
    have hm : ρ.ty d.1 ∈ env.types := by rw [henv]; exact List.mem_map.2 ⟨d, hd, rfl⟩
    simp [Ren.renTy, resolveTy, hm]
  | time => simp [wfTy] at h
  | _ => simp [Ren.renTy, resolveTy]

theorem resolveDecls_types (ρ : Ren) (P : AProblem) (env : REnv) (henv : env.types = P.types.map (fun t => ρ.ty t.1))
    (nm : String → Ty → String) : ∀ (ds : List (String × Ty)),
    (∀ d ∈ ds, wfTy P d.2 = true) → resolveDecls env (renDecls ρ nm ds) = some (renDecls ρ nm ds)
  | [], _ => by simp [renDecls, resolveDecls]
  | d :: ds, h => by
    have ih := resolveDecls_types ρ P env henv nm ds (fun x hx => h x (by simp [hx]))
    have h1 := resolveTy_types ρ P env henv d.2 (h d (by simp))
    simp only [renDecls, List.map_cons] at ih ⊢
    rw [resolveDecls, h1, ih]

theorem zip_map_snd {α β} : ∀ (a : List α) (b : List β), a.length = b.length → (a.zip b).map (·.2) = b
  | [], [], _ => rfl
  | [], _ :: _, h => by simp at h
  | _ :: _, [], h => by simp at h
  | x :: a, y :: b, h => by simp [zip_map_snd a b (by simpa using h)]

theorem zip_map_snd' {α β γ} (g : β → γ) (a : List α) (b : List β) (h : a.length = b.length) :
    (a.zip b).map (fun x => g x.2) = b.map g := by
  rw [← zip_map_snd a b h, List.map_map]
  simp [Function.comp_def, zip_map_snd a b h]

theorem mkFluent_fluentU (ρ : Ren) (P : AProblem) (env : REnv) (henv : env.types = P.types.map (fun t => ρ.ty t.1))
    (f : AFluent) (hwf : wfFluent P f = true) :
    mkFluent env (fluentU ρ f).1 (fluentU ρ f).2.1 (fluentU ρ f).2.2 = some (ρ.renFluent f) := by
  simp only [wfFluent, Bool.and_eq_true, List.all_eq_true, beq_iff_eq] at hwf
  obtain ⟨⟨hty, hsig⟩, hlen⟩ := hwf
  have h1 := resolveTy_types ρ P env henv f.ref.ty hty
  have h2 := resolveDecls_types ρ P env henv ρ.par (f.pnames.zip f.ref.sig) (by
    intro d hd; exact hsig d.2 (List.of_mem_zip hd).2)
  simp only [fluentU, mkFluent, h1, h2]
  have hs := zip_map_snd' ρ.renTy f.pnames f.ref.sig hlen
  simp [Ren.renFluent, Ren.renRef, hs, renDecls, List.map_map, Function.comp_def]

/-- the objects of one `instance` statement -/
def instObjs (d : Ty × List String) : List (String × String) :=
  d.2.map (fun n => (n, match d.1 with | .user tn => tn | _ => ""))

theorem mkObjects_instU (ρ : Ren) (P : AProblem) (env : REnv) (henv : env.types = P.types.map (fun t => ρ.ty t.1))
    (hnodup : True) : ∀ (ts : List (String × Option String)), (∀ t ∈ ts, t ∈ P.types) →
    optAll ((instU ρ P ts).map (mkObjects env))
      = some ((instU ρ P ts).map instObjs)
  | ts, hts => by
    apply optAll_map_some
    intro d hd
    simp only [instU, List.mem_flatMap] at hd
    obtain ⟨t, ht, hd⟩ := hd
    split at hd
    · cases hd
    · simp only [List.mem_singleton] at hd
      subst hd
      have hm : ρ.ty t.1 ∈ env.types := by rw [henv]; exact List.mem_map.2 ⟨t, hts t ht, rfl⟩
      simp [mkObjects, resolveTy, hm, instObjs]

theorem instU_flatten (ρ : Ren) (P : AProblem) : ∀ (ts : List (String × Option String)),
    ((instU ρ P ts).map instObjs).flatten
      = (ts.flatMap (fun t => P.objects.filter (fun o => o.2 == t.1))).map (fun o => (ρ.obj o.1, ρ.ty o.2))
  | [] => rfl
  | t :: ts => by
    have ih := instU_flatten ρ P ts
    simp only [instU, instObjs, List.flatMap_cons, List.map_append, List.flatten_append] at ih ⊢
    rw [ih]
    congr 1
    split
    · rename_i h
      have : P.objects.filter (fun o => o.2 == t.1) = [] := by simpa using h
      simp [this]
    · simp only [instObjs, List.map_cons, List.map_nil, List.flatten_cons, List.flatten_nil, List.append_nil, List.map_map]
      apply List.map_congr_left
      intro o ho
      have : o.2 = t.1 := by simpa using (List.mem_filter.1 ho).2
      simp [this]

end UPVerif.Anml

namespace UPVerif.Anml
open Tok

/-! ### the reader's environment is the renamed declarations -/

theorem nodupB_map_inj {α} (k : α → String) : ∀ (l : List α), nodupB (l.map k) = true →
    ∀ a ∈ l, ∀ b ∈ l, k a = k b → a = b
  | [], _, a, ha, _, _, _ => by cases ha
  | x :: l, h, a, ha, b, hb, hk => by
    simp only [List.map_cons, nodupB, Bool.and_eq_true, Bool.not_eq_true', List.contains_eq_mem,
      decide_eq_false_iff_not, List.mem_map, not_exists, not_and] at h
    rcases List.mem_cons.1 ha with rfl | ha'
    · rcases List.mem_cons.1 hb with rfl | hb'
      · rfl
      · exact absurd hk.symm (h.1 b hb')
    · rcases List.mem_cons.1 hb with rfl | hb'
      · exact absurd hk (h.1 a ha')
      · exact nodupB_map_inj k l h.2 a ha' b hb' hk

theorem find_map_ren (ρ : Ren) (f : AFluent) : ∀ (L : List AFluent), f ∈ L →
    (∀ g ∈ L, ρ.fl g.ref.name = ρ.fl f.ref.name → g = f) →
    (L.map ρ.renFluent).find? (fun g => g.ref.name == ρ.fl f.ref.name) = some (ρ.renFluent f)
  | [], h, _ => by cases h
  | g :: L, h, hinj => by
    simp only [List.map_cons, List.find?_cons]
    by_cases hg : ρ.fl g.ref.name = ρ.fl f.ref.name
    · have := hinj g (by simp) hg
      subst this
      simp [Ren.renFluent, Ren.renRef]
    · have hb : ((ρ.renFluent g).ref.name == ρ.fl f.ref.name) = false := by
        simpa [Ren.renFluent, Ren.renRef] using hg
      rw [hb]
      rcases List.mem_cons.1 h with rfl | h'
      · exact absurd rfl hg
      · exact find_map_ren ρ f L h' (fun x hx => hinj x (by simp [hx]))

theorem find_map_none (ρ : Ren) (x : String) : ∀ (L : List AFluent), (∀ g ∈ L, ρ.fl g.ref.name ≠ x) →
    (L.map ρ.renFluent).find? (fun g => g.ref.name == x) = none
  | [], _ => rfl
  | g :: L, h => by
    have hb : ((ρ.renFluent g).ref.name == x) = false := by
      simpa [Ren.renFluent, Ren.renRef] using h g (by simp)
    simp only [List.map_cons, List.find?_cons, hb]
    exact find_map_none ρ x L (fun y hy => h y (by simp [hy]))

theorem mem_objectsByType {P : AProblem} {o : String × String} :
    o ∈ objectsByType P ↔ o ∈ P.objects ∧ o.2 ∈ P.types.map (·.1) := by
  simp only [objectsByType, List.mem_flatMap, List.mem_filter, beq_iff_eq, List.mem_map]
  constructor
  · rintro ⟨t, ht, ho, he⟩; exact ⟨ho, t, ht, he.symm⟩
  · rintro ⟨ho, t, ht, he⟩; exact ⟨t, ht, ho, he.symm⟩

/-- the conjuncts of `inFragment` -/
structure Frag (P : AProblem) : Prop where
  fathers : ∀ t ∈ P.types, ∀ f, t.2 = some f → f ∈ P.types.map (·.1)
  fluents : ∀ f ∈ P.fluents, wfFluent P f = true
  fluentNames : nodupB (P.fluents.map (·.ref.name)) = true
  objTypes : ∀ o ∈ P.objects, o.2 ∈ P.types.map (·.1)
  objNames : nodupB (P.objects.map (·.1)) = true
  init : ∀ i ∈ P.init, (match i.1 with | .app (.fluent _) _ => true | _ => false) = true
    ∧ wfE P [] [] i.1 = true ∧ wfE P [] [] i.2 = true
  actions : ∀ a ∈ P.actions, wfAction P a = true
  teffs : ∀ e ∈ P.timedEffects, wfTiming true e.1 = true ∧ e.1 ≠ ⟨.gstart, 0⟩ ∧ wfEff P [] e.2 = true
  goals : ∀ g ∈ P.goals, wfE P [] [] g = true
  tgoals : ∀ g ∈ P.timedGoals, wfInterval true g.1 = true ∧ g.1.lo ≠ ⟨.gend, 0⟩ ∧ wfE P [] [] g.2 = true
  invs : ∀ g ∈ P.invariants, wfE P [] [] g = true

theorem frag_of_inFragment {P : AProblem} (h : inFragment P = true) : Frag P := by
  simp only [inFragment, Bool.and_eq_true, List.all_eq_true, bne_iff_ne, ne_eq] at h
  obtain ⟨⟨⟨⟨⟨⟨⟨⟨⟨⟨⟨h1, h2⟩, h3⟩, h4⟩, h5⟩, _⟩, h7⟩, h8⟩, h9⟩, h10⟩, h11⟩, h12⟩ := h
  refine ⟨?_, h2, h3, ?_, h5, ?_, h8, ?_, h10, ?_, h12⟩
  · intro t ht f hf
    have := h1 t ht
    rw [hf] at this
    simpa using this
  · intro o ho; simpa using h4 o ho
  · intro i hi; have := h7 i hi; exact ⟨this.1.1, this.1.2, this.2⟩
  · intro e he; have := h9 e he; exact ⟨this.1.1, this.1.2, this.2⟩
  · intro g hg; have := h11 g hg; exact ⟨this.1.1, this.1.2, this.2⟩

theorem rctx_envOf (ρ : Ren) (P : AProblem) (F : Frag P) (G : Good ρ P) : RCtx ρ P (envOf ρ P) := by
  have huniq := nodupB_map_inj (fun f : AFluent => f.ref.name) P.fluents F.fluentNames
  have hfl : (envOf ρ P).fluents = ((P.fluents.filter (fun f => P.isStatic f.ref == true))
      ++ (P.fluents.filter (fun f => P.isStatic f.ref == false))).map ρ.renFluent := by
    simp [envOf]
  have hmemL : ∀ g, g ∈ (P.fluents.filter (fun f => P.isStatic f.ref == true))
      ++ (P.fluents.filter (fun f => P.isStatic f.ref == false)) ↔ g ∈ P.fluents := by
    intro g
    simp only [List.mem_append, List.mem_filter, beq_iff_eq]
    constructor
    · rintro (h | h) <;> exact h.1
    · intro h; cases hs : P.isStatic g.ref <;> simp [h]
  refine ⟨G, ?_, ?_, ?_, ?_, huniq⟩
  · intro f hf
    rw [hfl]
    apply find_map_ren ρ f _ ((hmemL f).2 hf)
    intro g hg he
    have hg' := (hmemL g).1 hg
    have := G (.fl g.ref.name) (.fl f.ref.name) (mem_items_fl hg') (mem_items_fl hf) he
    injection this with hn
    exact huniq g hg' f hf hn
  · intro x hx
    rw [hfl]
    apply find_map_none
    intro g hg
    exact hx g ((hmemL g).1 hg)
  · intro o ho
    have hobj : (envOf ρ P).objects = (objectsByType P).map (fun o => (ρ.obj o.1, ρ.ty o.2)) := rfl
    rw [hobj]
    refine lookup_map_some (fun o : String × String => ρ.obj o.1) (fun o => ρ.ty o.2) (objectsByType P) o
      (mem_objectsByType.2 ⟨ho, F.objTypes o ho⟩) ?_
    intro b hb he
    have hb' := (mem_objectsByType.1 hb).1
    have := G (.obj b.1) (.obj o.1) (mem_items_obj hb') (mem_items_obj ho) he
    injection this with hn
    have := nodupB_map_inj (fun o : String × String => o.1) P.objects F.objNames b hb' o ho hn
    rw [this]
  · intro t ht
    exact resolveTy_types ρ P (envOf ρ P) rfl t ht

end UPVerif.Anml

namespace UPVerif.Anml
open Tok

/-! ### items -/

theorem mem_varsOfEs {v : Var} {e : Expr} : ∀ {es : List Expr}, e ∈ es → v ∈ varsOfE e → v ∈ varsOfEs es
  | [], h, _ => by cases h
  | x :: es, h, hv => by
    simp only [varsOfEs, List.mem_append]
    rcases List.mem_cons.1 h with rfl | h'
    · exact Or.inl hv
    · exact Or.inr (mem_varsOfEs h' hv)

theorem mem_items_var_expr {P : AProblem} {e : Expr} (he : e ∈ P.allExprs) {v : Var} (hv : v ∈ varsOfE e) :
    Item.var v.name v.ty ∈ P.items := by
  simp only [AProblem.items, List.mem_append, List.mem_map]
  refine Or.inr ⟨v, ?_, rfl⟩
  simp only [AProblem.vars, List.mem_append]
  exact Or.inl (mem_varsOfEs he hv)

theorem mem_items_var_eff {P : AProblem} {e : Effect} (he : e ∈ P.allEffects) {v : Var} (hv : v ∈ varsOfEff e) :
    Item.var v.name v.ty ∈ P.items := by
  simp only [AProblem.items, List.mem_append, List.mem_map]
  refine Or.inr ⟨v, ?_, rfl⟩
  simp only [AProblem.vars, List.mem_append, List.mem_flatMap]
  exact Or.inr ⟨e, he, hv⟩

theorem actItems_of_mem {P : AProblem} {a : AAction} (ha : a ∈ P.actions) : ActItems P a := by
  refine ⟨?_, ?_, ?_⟩
  · intro p hp
    simp only [AProblem.items, List.mem_append, List.mem_flatMap, List.mem_map]
    exact Or.inl (Or.inr ⟨a, ha, p, hp, rfl⟩)
  · intro e he v hv
    apply mem_items_var_expr (e := e) _ hv
    simp only [AProblem.allExprs, List.mem_append, List.mem_flatMap]
    exact Or.inl (Or.inl (Or.inl (Or.inr ⟨a, ha, he⟩)))
  · intro e he v hv
    apply mem_items_var_eff (e := e) _ hv
    simp only [AProblem.allEffects, List.mem_append, List.mem_flatMap]
    exact Or.inl ⟨a, ha, he⟩

/-! ### static fluents -/

def effTargetE : Expr → Option FluentRef
  | .app (.fluent f) _ => some f
  | _ => none

theorem effTarget_eq (e : Effect) : effTarget e = effTargetE e.fluent := by
  unfold effTarget effTargetE; rfl

theorem effTargetE_respell (e : Expr) : effTargetE (respell e) = effTargetE e := by
  cases e with
  | leaf l =>
    rw [respell]
    cases l with
    | intC z => simp only [respellLeaf, intExpr]; split <;> simp [effTargetE, Expr.int]
    | realC r => simp [respellLeaf, effTargetE]
    | _ => simp [respellLeaf, effTargetE]
  | app op args =>
    rw [respell]
    obtain ⟨args', h⟩ := respellApp_shape op (respellList args)
    rw [h]
    cases op <;> simp [effTargetE]
  | quant q vs b => rw [respell]; simp [effTargetE]

theorem effTargetE_renE (ρ : Ren) (e : Expr) : effTargetE (ρ.renE e) = (effTargetE e).map ρ.renRef := by
  cases e with
  | leaf l => simp [Ren.renE, effTargetE]
  | app op args => cases op <;> simp [Ren.renE, Ren.renOp, effTargetE]
  | quant q vs b => simp [Ren.renE, effTargetE]

theorem effTarget_respellEff (e : Effect) : effTarget (respellEff e) = effTarget e := by
  simp [effTarget_eq, respellEff, effTargetE_respell]

theorem effTarget_renEff (ρ : Ren) (e : Effect) : effTarget (ρ.renEff e) = (effTarget e).map ρ.renRef := by
  simp [effTarget_eq, Ren.renEff, effTargetE_renE]

theorem allEffects_renAction (ρ : Ren) (a : AAction) : (ρ.renAction a).allEffects = a.allEffects.map ρ.renEff := by
  cases a <;> simp [Ren.renAction, AAction.allEffects, List.map_map, Function.comp_def]

theorem allEffects_respellAction (a : AAction) : (respellAction a).allEffects = a.allEffects.map respellEff := by
  cases a <;> simp [respellAction, AAction.allEffects, List.map_map, Function.comp_def]

theorem filterMap_map_comm {α β} (g : α → α) (t : α → Option β) (r : β → β)
    (H : ∀ a, t (g a) = (t a).map r) : ∀ (l : List α), (l.map g).filterMap t = (l.filterMap t).map r
  | [] => rfl
  | a :: l => by
    simp only [List.map_cons, List.filterMap_cons, H a]
    cases t a <;> simp [filterMap_map_comm g t r H l]

theorem targets_ren (ρ : Ren) (P : AProblem) : (ρ.renProblem P).targets = P.targets.map ρ.renRef := by
  have h1 : (ρ.renProblem P).actions.flatMap (·.allEffects) ++ (ρ.renProblem P).timedEffects.map (·.2)
      = (P.actions.flatMap (·.allEffects) ++ P.timedEffects.map (·.2)).map ρ.renEff := by
    simp [Ren.renProblem, List.flatMap_map, allEffects_renAction, List.map_flatMap, List.map_map, Function.comp_def]
  unfold AProblem.targets
  rw [h1]
  exact filterMap_map_comm ρ.renEff effTarget ρ.renRef (effTarget_renEff ρ) _

theorem targets_reread (R : AProblem) : (reread R).targets = R.targets := by
  have h1 : (reread R).actions.flatMap (·.allEffects) ++ (reread R).timedEffects.map (·.2)
      = (R.actions.flatMap (·.allEffects) ++ R.timedEffects.map (·.2)).map respellEff := by
    simp [reread, List.flatMap_map, allEffects_respellAction, List.map_flatMap, List.map_map, Function.comp_def]
  unfold AProblem.targets
  rw [h1]
  have := filterMap_map_comm respellEff effTarget id (by intro a; simp [effTarget_respellEff]) 
    (R.actions.flatMap (·.allEffects) ++ R.timedEffects.map (·.2))
  simpa using this

theorem targets_declared {P : AProblem} (F : Frag P) {g : FluentRef} (hg : g ∈ P.targets) :
    g ∈ P.fluents.map (·.ref) := by
  simp only [AProblem.targets, List.mem_filterMap, List.mem_append, List.mem_flatMap, List.mem_map] at hg
  obtain ⟨e, he, hge⟩ := hg
  have hwf : ∃ params, wfEff P params e = true := by
    rcases he with ⟨a, ha, hea⟩ | ⟨te, hte, rfl⟩
    · have hw := F.actions a ha
      cases a with
      | inst n ps pre effs =>
        simp only [wfAction, Bool.and_eq_true, List.all_eq_true] at hw
        exact ⟨ps, hw.2 e hea⟩
      | dur n ps d conds effs =>
        simp only [wfAction, Bool.and_eq_true, List.all_eq_true] at hw
        simp only [AAction.allEffects, List.mem_map] at hea
        obtain ⟨x, hx, rfl⟩ := hea
        exact ⟨ps, (hw.2 x hx).2⟩
    · exact ⟨[], (F.teffs te hte).2.2⟩
  obtain ⟨params, hw⟩ := hwf
  simp only [wfEff, Bool.and_eq_true] at hw
  have h1 := hw.1.1.2
  rw [effTarget_eq] at hge
  cases hfe : e.fluent with
  | app op args =>
    cases op with
    | fluent f =>
      rw [hfe] at hge h1
      simp only [effTargetE, Option.some.injEq] at hge
      subst hge
      rw [wfE, Bool.and_eq_true] at h1
      have := h1.1
      simp only [wfApp, Bool.and_eq_true] at this
      simpa using this.1
    | _ => rw [hfe] at hge; simp [effTargetE] at hge
  | leaf l => rw [hfe] at hge; simp [effTargetE] at hge
  | quant q vs b => rw [hfe] at hge; simp [effTargetE] at hge

theorem renRef_inj {ρ : Ren} {P : AProblem} (F : Frag P) (G : Good ρ P) {f g : FluentRef}
    (hf : f ∈ P.fluents.map (·.ref)) (hg : g ∈ P.fluents.map (·.ref)) (h : ρ.renRef f = ρ.renRef g) : f = g := by
  simp only [List.mem_map] at hf hg
  obtain ⟨df, hdf, rfl⟩ := hf
  obtain ⟨dg, hdg, rfl⟩ := hg
  have hn : ρ.fl df.ref.name = ρ.fl dg.ref.name := by
    have := congrArg FluentRef.name h
    simpa [Ren.renRef] using this
  have := G _ _ (mem_items_fl hdf) (mem_items_fl hdg) hn
  injection this with hn'
  rw [nodupB_map_inj (fun f : AFluent => f.ref.name) P.fluents F.fluentNames df hdf dg hdg hn']

theorem static_ren {ρ : Ren} {P : AProblem} (F : Frag P) (G : Good ρ P) {f : FluentRef}
    (hf : f ∈ P.fluents.map (·.ref)) : (ρ.renProblem P).isStatic (ρ.renRef f) = P.isStatic f := by
  unfold AProblem.isStatic
  rw [targets_ren]
  congr 1
  apply Bool.eq_iff_iff.2
  simp only [List.contains_eq_mem, List.mem_map, decide_eq_true_eq]
  constructor
  · rintro ⟨g, hg, he⟩
    have := renRef_inj F G (targets_declared F hg) hf he
    rw [← this]; exact hg
  · intro h; exact ⟨f, h, rfl⟩

end UPVerif.Anml

namespace UPVerif.Anml
open Tok

/-! ### the whole problem -/

theorem mem_items_ty {P : AProblem} {t : String × Option String} (h : t ∈ P.types) : Item.ty t.1 ∈ P.items := by
  simp only [AProblem.items, List.mem_append, List.mem_map]
  exact Or.inl (Or.inl (Or.inl (Or.inl (Or.inl (Or.inl ⟨t, h, rfl⟩)))))

theorem flatMap_congr_mem {α β} (f g : α → List β) : ∀ (l : List α), (∀ a ∈ l, f a = g a) → l.flatMap f = l.flatMap g
  | [], _ => rfl
  | a :: l, h => by
    simp only [List.flatMap_cons, h a (by simp), flatMap_congr_mem f g l (fun x hx => h x (by simp [hx]))]

theorem objectsByType_ren {ρ : Ren} {P : AProblem} (F : Frag P) (G : Good ρ P) :
    objectsByType (ρ.renProblem P) = (objectsByType P).map (fun o => (ρ.obj o.1, ρ.ty o.2)) := by
  unfold objectsByType
  simp only [Ren.renProblem, List.flatMap_map, List.map_flatMap]
  apply flatMap_congr_mem
  intro t ht
  rw [List.filter_map]
  congr 1
  apply List.filter_congr
  intro o ho
  simp only [Function.comp_def]
  have ho2 := F.objTypes o ho
  simp only [List.mem_map] at ho2
  obtain ⟨t', ht', he⟩ := ho2
  apply Bool.eq_iff_iff.2
  simp only [beq_iff_eq]
  constructor
  · intro h
    have := G (.ty t'.1) (.ty t.1) (mem_items_ty ht') (mem_items_ty ht) (by simpa [Ren.name, he] using h)
    injection this with hn
    rw [← he, hn]
  · intro h; rw [h]

theorem all_static_consts {ρ : Ren} {P : AProblem} (F : Frag P) (G : Good ρ P) :
    (((P.fluents.filter (fun f => P.isStatic f.ref == true)).map ρ.renFluent).map (·.ref)).all
      (reread (ρ.renProblem P)).isStatic = true := by
  simp only [List.all_eq_true, List.mem_map, List.mem_filter, beq_iff_eq]
  rintro r ⟨d', ⟨d, ⟨hd, hs⟩, rfl⟩, rfl⟩
  have hm : d.ref ∈ P.fluents.map (·.ref) := List.mem_map.2 ⟨d, hd, rfl⟩
  have h1 : (ρ.renProblem P).isStatic (ρ.renRef d.ref) = true := by rw [static_ren F G hm]; exact hs
  show (reread (ρ.renProblem P)).isStatic (ρ.renRef d.ref) = true
  unfold AProblem.isStatic at h1 ⊢
  rw [targets_reread]
  exact h1

/-- what `build` assembles from the statements of the text of `P` -/
def builtOf (ρ : Ren) (P : AProblem) : AProblem :=
  { types := P.types.map (fun t => (ρ.ty t.1, t.2.map ρ.ty)),
        fluents := (P.fluents.filter (fun f => P.isStatic f.ref == true)).map ρ.renFluent
          ++ (P.fluents.filter (fun f => P.isStatic f.ref == false)).map ρ.renFluent,
        objects := ((instU ρ P P.types).map instObjs).flatten,
        init := (P.init.map (fun i => (respell (ρ.renE i.1), respell (ρ.renE i.2)))).foldl setInit [],
        actions := P.actions.map (fun a => respellAction (ρ.renAction a)),
        timedEffects := P.timedEffects.map (fun e => (e.1, respellEff (ρ.renEff e.2))),
        goals := (P.goals.map (fun g => respell (ρ.renE g))).foldl addGoal [],
        timedGoals := (P.timedGoals.map (fun g => (g.1, respell (ρ.renE g.2)))).foldl addTimed [],
        invariants := P.invariants.map (fun g => respell (ρ.renE g)) }

/-- stage 2 on the statement trees of the text of `P`: the reader builds the re-read renamed problem -/
theorem build_ssOf (ρ : Ren) (P : AProblem) (hP : inFragment P = true) (G : Good ρ P) :
    build (ssOf ρ P) = some (reread (ρ.renProblem P)) := by
  have F := frag_of_inFragment hP
  have C := rctx_envOf ρ P F G
  have htypes : (P.types.map (fun t => (ρ.ty t.1, t.2.map ρ.ty))).map (·.1) = P.types.map (fun t => ρ.ty t.1) := by
    simp [List.map_map, Function.comp_def]
  -- the check of the supertypes
  have hfathers : fathersDeclared (P.types.map (fun t => (ρ.ty t.1, t.2.map ρ.ty))) = true := by
    unfold fathersDeclared
    rw [htypes]
    simp only [List.all_eq_true, List.mem_map]
    rintro d ⟨t, ht, rfl⟩
    cases hf : t.2 with
    | none => simp
    | some f =>
      have := F.fathers t ht f hf
      simp only [List.mem_map] at this
      obtain ⟨t', ht', he⟩ := this
      simp only [Option.map_some, List.contains_eq_mem, List.mem_map, decide_eq_true_eq]
      exact ⟨t', ht', by rw [he]⟩
  let env0 : REnv := { types := (P.types.map (fun t => (ρ.ty t.1, t.2.map ρ.ty))).map (·.1), fluents := [], objects := [] }
  have henv0 : env0.types = P.types.map (fun t => ρ.ty t.1) := htypes
  have hconsts : ∀ c : Bool, optAll (((P.fluents.filter (fun f => P.isStatic f.ref == c)).map (fluentU ρ)).map
      (fun d => mkFluent env0 d.1 d.2.1 d.2.2))
      = some ((P.fluents.filter (fun f => P.isStatic f.ref == c)).map ρ.renFluent) := by
    intro c
    rw [List.map_map]
    apply optAll_map_some
    intro f hf
    exact mkFluent_fluentU ρ P env0 henv0 f (F.fluents f (List.mem_filter.1 hf).1)
  have hobjs := mkObjects_instU ρ P env0 henv0 trivial P.types (fun t h => h)
  have hflat := instU_flatten ρ P P.types
  have henv : ({ env0 with
      fluents := (P.fluents.filter (fun f => P.isStatic f.ref == true)).map ρ.renFluent
        ++ (P.fluents.filter (fun f => P.isStatic f.ref == false)).map ρ.renFluent,
      objects := ((instU ρ P P.types).map instObjs).flatten } : REnv)
      = envOf ρ P := by
    simp only [envOf, hflat, objectsByType, env0, htypes]
  let cref := ((P.fluents.filter (fun f => P.isStatic f.ref == true)).map ρ.renFluent).map (·.ref)
  have hactions : optAll ((P.actions.map (actionU ρ)).map
      (fun d => buildAction (envOf ρ P) cref d.1 d.2.1 d.2.2.1 d.2.2.2))
      = some (P.actions.map (fun a => respellAction (ρ.renAction a))) := by
    rw [List.map_map]
    apply optAll_map_some
    intro a ha
    exact buildAction_uAction C cref a (F.actions a ha) (actItems_of_mem ha)
  have hconst : ∀ f, (P.fluents.map (·.ref)).contains f = true → P.isStatic f = true →
      cref.contains (ρ.renRef f) = true := by
    intro f hf hs
    have hf' : f ∈ P.fluents.map (·.ref) := by simpa using hf
    simp only [List.mem_map] at hf'
    obtain ⟨d, hd, rfl⟩ := hf'
    simp only [cref, List.contains_eq_mem, List.mem_map, List.mem_filter, beq_iff_eq, decide_eq_true_eq]
    exact ⟨ρ.renFluent d, ⟨d, ⟨hd, hs⟩, rfl⟩, rfl⟩
  have htop : foldM? (addTop (envOf ρ P) cref) {} ((ssOf ρ P).filterMap selTop)
      = some { init := (P.init.map (fun i => (respell (ρ.renE i.1), respell (ρ.renE i.2)))).foldl setInit [],
               timedEffects := P.timedEffects.map (fun e => (e.1, respellEff (ρ.renEff e.2))),
               goals := (P.goals.map (fun g => respell (ρ.renE g))).foldl addGoal [],
               timedGoals := (P.timedGoals.map (fun g => (g.1, respell (ρ.renE g.2)))).foldl addTimed [],
               invariants := P.invariants.map (fun g => respell (ρ.renE g)) } := by
    rw [sel_top, foldM?_append, foldM?_append, foldM?_append, foldM?_append,
      foldTop_init C cref hconst P.init F.init (by
        intro i hi v hv
        simp only [List.mem_append] at hv
        rcases hv with hv | hv
        · exact mem_items_var_expr (e := i.1) (by
            simp only [AProblem.allExprs, List.mem_append, List.mem_flatMap]
            exact Or.inl (Or.inl (Or.inl (Or.inl ⟨i, hi, by simp⟩)))) hv
        · exact mem_items_var_expr (e := i.2) (by
            simp only [AProblem.allExprs, List.mem_append, List.mem_flatMap]
            exact Or.inl (Or.inl (Or.inl (Or.inl ⟨i, hi, by simp⟩)))) hv)]
    simp only [Option.bind_some]
    rw [foldTop_teff C cref P.timedEffects F.teffs (by
        intro e he v hv
        exact mem_items_var_eff (e := e.2) (by
          simp only [AProblem.allEffects, List.mem_append, List.mem_map]
          exact Or.inr ⟨e, he, rfl⟩) hv)]
    simp only [Option.bind_some]
    rw [foldTop_goal C cref P.goals F.goals (by
        intro g hg v hv
        exact mem_items_var_expr (e := g) (by
          simp only [AProblem.allExprs, List.mem_append]
          exact Or.inl (Or.inl (Or.inr hg))) hv)]
    simp only [Option.bind_some]
    rw [foldTop_tgoal C cref P.timedGoals F.tgoals (by
        intro g hg v hv
        exact mem_items_var_expr (e := g.2) (by
          simp only [AProblem.allExprs, List.mem_append, List.mem_map]
          exact Or.inl (Or.inr ⟨g, hg, rfl⟩)) hv)]
    simp only [Option.bind_some]
    rw [foldTop_inv C cref P.invariants F.invs (by
        intro g hg v hv
        exact mem_items_var_expr (e := g) (by
          simp only [AProblem.allExprs, List.mem_append]
          exact Or.inr hg) hv)]
    simp
  -- the result is the re-read renamed problem
  have hres : builtOf ρ P
      = reread (ρ.renProblem P) := by
    have hfl : constantsFirst (ρ.renProblem P) (ρ.renProblem P).fluents
        = (P.fluents.filter (fun f => P.isStatic f.ref == true)).map ρ.renFluent
          ++ (P.fluents.filter (fun f => P.isStatic f.ref == false)).map ρ.renFluent := by
      have hR : (ρ.renProblem P).fluents = P.fluents.map ρ.renFluent := rfl
      unfold constantsFirst
      rw [hR, List.filter_map, List.filter_map]
      congr 1 <;>
      · congr 1
        apply List.filter_congr
        intro f hf
        have hs := static_ren F G (List.mem_map.2 ⟨f, hf, rfl⟩)
        have hr : (ρ.renFluent f).ref = ρ.renRef f.ref := rfl
        simp only [Function.comp_def, hr, hs]
        cases P.isStatic f.ref <;> rfl
    simp only [builtOf, reread, hfl, objectsByType_ren F G, hflat]
    simp only [objectsByType]
    simp [Ren.renProblem, List.map_map, Function.comp_def]
  unfold build
  simp only [sel_types, sel_fluent, sel_instance, sel_action]
  rw [hfathers, if_neg (by simp)]
  simp only [env0] at hconsts hobjs henv
  simp only [hconsts true, hconsts false, hobjs, henv]
  simp only [cref] at hactions htop
  simp only [hactions, htop]
  change (if (List.all _ (builtOf ρ P).isStatic) = true then some (builtOf ρ P) else none) = _
  rw [hres, if_pos (all_static_consts F G)]

/-- the round trip of whole problems through the text -/
theorem anmlRead_anmlPrint (ρ : Ren) (P : AProblem) (hP : inFragment P = true) (G : Good ρ P) :
    anmlRead (anmlPrint ρ P) = some (reread (ρ.renProblem P)) := by
  unfold anmlRead
  rw [pStmts_anmlPrint ρ P hP]
  exact build_ssOf ρ P hP G

end UPVerif.Anml
