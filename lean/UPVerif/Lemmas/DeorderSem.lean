import UPVerif.Lemmas.DeorderEval
import UPVerif.Lemmas.SimCorollaries
/-!
Semantic side of C27: the documented successor of a grounded action (`Spec.successor`, proved equal to
the simulator's `apply` by C01) seen as a partial function on states-as-maps; what a footprint that
`covers` a grounded action guarantees (`Sound`); and THE COMMUTATION LEMMA: two grounded actions whose
sound footprints do not overlap can be swapped in every state that satisfies the invariants.
-/
namespace UPVerif.Deorder
open UPVerif UPVerif.Expr UPVerif.Sim UPVerif.Spec

/-- a state as a map from ground fluents to values -/
abbrev FState := GKey → Option Val

/-- the evaluation context of the world over the state `cur` -/
def fctx (W : World) (cur : FState) : EvalCtx := { get := cur, objs := W.P.objectsOf, fn := W.fn }

theorem fctx_eq_setGet (W : World) (cur cur' : FState) : fctx W cur' = setGet (fctx W cur) cur' := rfl
theorem fctx_eq_setGet0 (W : World) (cur : FState) : fctx W cur = setGet (c0 W) cur := rfl
theorem ctx_eq_fctx (W : World) (s : SimState) : ctx W s = fctx W (s.get W.P) := rfl

/-- `Spec.successor` on states-as-maps -/
def succF (W : World) (g : GAction) (cur : FState) : Option FState :=
  if preOK (fctx W cur) g.pre = true then
    match fired (fctx W cur) (expandAll W.P g) with
    | none => none
    | some F =>
      if Cons cur F ∧ invOK W (fctx W (succGet cur F)) = true then some (succGet cur F) else none
  else none

theorem successor_eq_succF (W : World) (s : SimState) (g : GAction) :
    Spec.successor W s g = succF W g (s.get W.P) := rfl

theorem succF_some {W : World} {g : GAction} {cur t : FState} :
    succF W g cur = some t ↔
      preOK (fctx W cur) g.pre = true ∧ ∃ F, fired (fctx W cur) (expandAll W.P g) = some F ∧ Cons cur F ∧
        invOK W (fctx W (succGet cur F)) = true ∧ t = succGet cur F := by
  unfold succF
  constructor
  · intro h
    split at h
    · rename_i hp
      refine ⟨hp, ?_⟩
      cases hF : fired (fctx W cur) (expandAll W.P g) with
      | none => rw [hF] at h; cases h
      | some F =>
        rw [hF] at h
        dsimp only at h
        split at h
        · rename_i hc
          cases h
          exact ⟨F, rfl, hc.1, hc.2, rfl⟩
        · cases h
    · cases h
  · rintro ⟨hp, F, hF, hC, hI, rfl⟩
    rw [if_pos hp, hF]
    dsimp only
    rw [if_pos ⟨hC, hI⟩]

/-! ### dependence of the successor map on the pre-state -/

theorem newVal_congr {cur cur' : FState} (F : List Fired) {k : GKey} (h : cur' k = cur k) :
    newVal cur' F k = newVal cur F k := by
  unfold newVal
  rw [h]

theorem succGet_congr {cur cur' : FState} (F : List Fired) {k : GKey} (h : cur' k = cur k) :
    succGet cur' F k = succGet cur F k := by
  unfold succGet
  rw [newVal_congr F h, h]

theorem consK_congr {cur cur' : FState} (F : List Fired) {k : GKey} (h : cur' k = cur k) :
    ConsK cur' F k ↔ ConsK cur F k := by
  unfold ConsK
  rw [h]

theorem cons_congr {cur cur' : FState} {F : List Fired} (h : ∀ f ∈ F, cur' f.key = cur f.key) :
    Cons cur' F ↔ Cons cur F := by
  unfold Cons
  constructor
  · intro hc f hf; exact (consK_congr F (h f hf)).1 (hc f hf)
  · intro hc f hf; exact (consK_congr F (h f hf)).2 (hc f hf)

/-! ### what a covering footprint guarantees -/

theorem all_congr_mem {α : Type} {p q : α → Bool} : ∀ (l : List α), (∀ x ∈ l, p x = q x) → l.all p = l.all q
  | [], _ => rfl
  | x :: xs, h => by
    simp only [List.all_cons]
    rw [h x (by simp), all_congr_mem xs (fun y hy => h y (by simp [hy]))]

theorem evalArgs_congr {c c' : EvalCtx} : ∀ (args : List Expr),
    (∀ a ∈ args, eval c' [] a = eval c [] a) → evalArgs c' args = evalArgs c args
  | [], _ => rfl
  | a :: as, h => by
    simp only [evalArgs]
    rw [h a (by simp), evalArgs_congr as (fun b hb => h b (by simp [hb]))]

theorem evalEff_congr {c c' : EvalCtx} {e : Effect}
    (ha : ∀ f args, e.fluent = .app (.fluent f) args → evalArgs c' args = evalArgs c args)
    (hc : eval c' [] e.cond = eval c [] e.cond) (hv : eval c' [] e.value = eval c [] e.value) :
    evalEff c' e = evalEff c e := by
  unfold evalEff
  split
  · rename_i f args hfl
    rw [ha f args hfl, hc, hv]
  · rfl

theorem fired_congr {c c' : EvalCtx} : ∀ (E : List Effect),
    (∀ e ∈ E, evalEff c' e = evalEff c e) → fired c' E = fired c E
  | [], _ => rfl
  | e :: es, h => by
    simp only [fired]
    rw [h e (by simp), fired_congr es (fun x hx => h x (by simp [hx]))]

/-- a fired effect comes from an effect whose target evaluates to its key -/
theorem evalEff_key {c : EvalCtx} {e : Effect} {f : Fired} (h : evalEff c e = .ok (some f)) :
    ∃ fl args vs, e.fluent = .app (.fluent fl) args ∧ evalArgs c args = .ok vs ∧ f.key = (fl, vs) := by
  unfold evalEff at h
  split at h
  · rename_i fr args hfl
    refine ⟨fr, args, ?_⟩
    split at h
    · cases h
    · rename_i vs hvs
      refine ⟨vs, hfl, hvs, ?_⟩
      dsimp only at h
      split at h
      · cases h
      · cases h
      · split at h
        · cases h
        · rename_i v hv
          split at h
          · split at h
            · split at h
              · cases h; rfl
              · cases h
            · cases h; rfl
          · split at h
            · cases h; rfl
            · cases h
          · split at h
            · cases h; rfl
            · cases h
  · cases h

theorem fired_mem {c : EvalCtx} : ∀ {E : List Effect} {F : List Fired}, fired c E = some F →
    ∀ f ∈ F, ∃ e ∈ E, evalEff c e = .ok (some f)
  | [], F, h, f, hf => by
    simp [fired] at h; subst h; cases hf
  | e :: E, F, h, f, hf => by
    simp only [fired] at h
    split at h
    · rename_i F' h1 h2
      cases h
      obtain ⟨e', he', h3⟩ := fired_mem h2 f hf
      exact ⟨e', by simp [he'], h3⟩
    · rename_i f' F' h1 h2
      cases h
      simp only [List.mem_cons] at hf
      rcases hf with rfl | hf
      · exact ⟨e, by simp, h1⟩
      · obtain ⟨e', he', h3⟩ := fired_mem h2 f hf
        exact ⟨e', by simp [he'], h3⟩
    · cases h

/-- semantic meaning of a footprint for a grounded action: applicability and the fired effects
    depend only on `reads`, only `writes ⊆ reads` can change -/
structure Sound (W : World) (g : GAction) (kf : Footprint GKey) : Prop where
  preAg : ∀ cur cur' : FState, (∀ k ∈ kf.reads, cur' k = cur k) →
    preOK (fctx W cur') g.pre = preOK (fctx W cur) g.pre
  firedAg : ∀ cur cur' : FState, (∀ k ∈ kf.reads, cur' k = cur k) →
    Spec.fired (fctx W cur') (expandAll W.P g) = Spec.fired (fctx W cur) (expandAll W.P g)
  keys : ∀ (cur : FState) (F : List Fired), Spec.fired (fctx W cur) (expandAll W.P g) = some F →
    ∀ f ∈ F, f.key ∈ kf.writes
  sub : ∀ k ∈ kf.writes, k ∈ kf.reads

/-- an invariant either mentions no written fluent or has all its fluents among the reads -/
def InvCov (W : World) (kf : Footprint GKey) : Prop :=
  ∀ inv ∈ invariants W, (∀ k ∈ rkeys (c0 W) [] inv, k ∉ kf.writes) ∨ (∀ k ∈ rkeys (c0 W) [] inv, k ∈ kf.reads)

/-- evaluation of an expression without nested fluents depends only on its static keys -/
theorem eval_static (W : World) (e : Expr) (hn : noNested e = true) (cur cur' : FState)
    (h : ∀ k ∈ rkeys (c0 W) [] e, cur' k = cur k) : eval (fctx W cur') [] e = eval (fctx W cur) [] e := by
  rw [fctx_eq_setGet W cur cur']
  apply eval_agree
  intro k hk
  rw [fctx_eq_setGet0, rkeys_indep (c0 W) cur e [] hn] at hk
  exact h k hk

theorem evalBool_static (W : World) (e : Expr) (hn : noNested e = true) (cur cur' : FState)
    (h : ∀ k ∈ rkeys (c0 W) [] e, cur' k = cur k) : evalBool (fctx W cur') e = evalBool (fctx W cur) e := by
  unfold evalBool
  rw [eval_static W e hn cur cur' h]

theorem evalArgs_static (W : World) (args : List Expr) (hn : fluentExpsList args = []) (cur : FState) :
    evalArgs (fctx W cur) args = evalArgs (c0 W) args := by
  apply evalArgs_congr
  intro a ha
  rw [fctx_eq_setGet0]
  apply eval_agree
  intro k hk
  have : rkeys (c0 W) [] a = [] := by
    -- `a` has no fluents because the whole argument list has none
    have hmem : ∀ (l : List Expr), fluentExpsList l = [] → ∀ x ∈ l, fluentExps x = [] := by
      intro l
      induction l with
      | nil => intro _ x hx; cases hx
      | cons y ys ih =>
        intro hl x hx
        simp only [fluentExpsList, List.append_eq_nil_iff] at hl
        simp only [List.mem_cons] at hx
        rcases hx with rfl | hx
        · exact hl.1
        · exact ih hl.2 x hx
    exact rkeys_fluentFree (c0 W) a [] (hmem args hn a ha)
  rw [this] at hk; cases hk

theorem argsFluentFree_inv {e : Expr} (h : argsFluentFree e = true) :
    ∃ f args, e = .app (.fluent f) args ∧ fluentExpsList args = [] := by
  unfold argsFluentFree at h
  split at h
  · rename_i f args
    exact ⟨f, args, rfl, by simpa using h⟩
  · cases h

/-- the decidable check `coversG` implies the semantic guarantees -/
theorem sound_of_coversG {W : World} {g : GAction} {kf : Footprint GKey} (h : coversG W g kf = true) :
    Sound W g kf ∧ InvCov W kf := by
  unfold coversG at h
  simp only [Bool.and_eq_true, List.all_eq_true, List.contains_iff_mem] at h
  obtain ⟨⟨⟨⟨hnn, hr⟩, hw⟩, hsub⟩, hinv⟩ := h
  unfold gNoNested at hnn
  simp only [Bool.and_eq_true, List.all_eq_true] at hnn
  obtain ⟨hnp, hne⟩ := hnn
  have hreadsP : ∀ p ∈ g.pre, ∀ k ∈ rkeys (c0 W) [] p, k ∈ kf.reads := by
    intro p hp k hk
    apply hr
    unfold gReads
    simp only [List.mem_append, List.mem_flatMap]
    exact .inl ⟨p, hp, hk⟩
  have hreadsE : ∀ e ∈ expandAll W.P g, ∀ k ∈ effKeys (c0 W) e, k ∈ kf.reads := by
    intro e he k hk
    apply hr
    unfold gReads
    simp only [List.mem_append, List.mem_flatMap]
    exact .inr ⟨e, he, hk⟩
  have heff : ∀ (cur cur' : FState), (∀ k ∈ kf.reads, cur' k = cur k) → ∀ e ∈ expandAll W.P g,
      evalEff (fctx W cur') e = evalEff (fctx W cur) e := by
    intro cur cur' hag e he
    have hn := hne e he
    unfold effNoNested at hn
    simp only [Bool.and_eq_true] at hn
    obtain ⟨⟨hn1, hn2⟩, hn3⟩ := hn
    obtain ⟨f, args, hfl, hargs⟩ := argsFluentFree_inv hn1
    have hk := hreadsE e he
    unfold effKeys at hk
    rw [hfl] at hk
    simp only [List.mem_append] at hk
    apply evalEff_congr
    · intro f' args' hfl'
      rw [hfl] at hfl'
      cases hfl'
      rw [evalArgs_static W args hargs cur', evalArgs_static W args hargs cur]
    · exact eval_static W e.cond hn2 cur cur' (fun k hk' => hag k (hk k (.inl (.inr hk'))))
    · exact eval_static W e.value hn3 cur cur' (fun k hk' => hag k (hk k (.inr hk')))
  refine ⟨⟨?_, ?_, ?_, ?_⟩, ?_⟩
  · intro cur cur' hag
    unfold preOK
    apply all_congr_mem
    intro p hp
    rw [eval_static W p (hnp p hp) cur cur' (fun k hk => hag k (hreadsP p hp k hk))]
  · intro cur cur' hag
    exact fired_congr _ (heff cur cur' hag)
  · intro cur F hF f hf
    obtain ⟨e, he, hev⟩ := fired_mem hF f hf
    obtain ⟨fl, args, vs, hfl, hvs, hkey⟩ := evalEff_key hev
    have hn := hne e he
    unfold effNoNested at hn
    simp only [Bool.and_eq_true] at hn
    obtain ⟨f', args', hfl', hargs⟩ := argsFluentFree_inv hn.1.1
    rw [hfl] at hfl'
    cases hfl'
    rw [evalArgs_static W args hargs cur] at hvs
    apply hw
    unfold gWrites
    simp only [List.mem_filterMap]
    refine ⟨e, he, ?_⟩
    unfold effTarget
    rw [hfl]
    simp only [hvs, hkey]
  · intro k hk
    exact hsub k hk
  · intro inv hi
    have := hinv inv hi
    simp only [Bool.or_eq_true, List.all_eq_true, Bool.not_eq_true'] at this
    rcases this with h1 | h1
    · left
      intro k hk hkw
      have h2 := h1 k hk
      have h3 : kf.writes.contains k = true := List.contains_iff_mem.2 hkw
      rw [h2] at h3
      cases h3
    · right
      intro k hk
      exact List.contains_iff_mem.1 (h1 k hk)

/-! ### THE COMMUTATION LEMMA -/

theorem invOK_iff {W : World} {c : EvalCtx} :
    invOK W c = true ↔ ∀ inv ∈ invariants W, evalBool c inv = .ok true := by
  constructor
  · exact invOK_all
  · intro h
    unfold invOK
    rw [List.all_eq_true]
    intro si hsi
    rw [h si hsi]
    rfl

/-- if `a` then `b` is executable from a state satisfying the invariants, and the footprints of
    `a` and `b` do not overlap, then `b` then `a` is executable and ends in the same state -/
theorem commute_one {W : World} {ga gb : GAction} {ka kb : Footprint GKey}
    (Sa : Sound W ga ka) (Sb : Sound W gb kb) (Ib : InvCov W kb)
    (hnn : ∀ inv ∈ invariants W, noNested inv = true)
    (dab : ∀ k ∈ ka.writes, k ∉ kb.reads) (dba : ∀ k ∈ kb.writes, k ∉ ka.reads)
    {s s1 s2 : FState} (hs : invOK W (fctx W s) = true)
    (h1 : succF W ga s = some s1) (h2 : succF W gb s1 = some s2) :
    ∃ s1', succF W gb s = some s1' ∧ succF W ga s1' = some s2 := by
  obtain ⟨hpa, Fa, hFa, hCa, _hIa, rfl⟩ := succF_some.1 h1
  obtain ⟨hpb, Fb, hFb, hCb, hIb, rfl⟩ := succF_some.1 h2
  have ka_keys := Sa.keys s Fa hFa
  -- keys of Fb are written by b (whatever the state)
  have kb_keys := Sb.keys (succGet s Fa) Fb hFb
  -- a does not touch what b reads
  have untouched_a : ∀ k, k ∉ ka.writes → succGet s Fa k = s k := by
    intro k hk
    exact succGet_untouched (fun f hf e => hk (e ▸ ka_keys f hf))
  have agree_b : ∀ k ∈ kb.reads, s k = succGet s Fa k := by
    intro k hk
    exact (untouched_a k (fun hw => dab k hw hk)).symm
  have hpb' : preOK (fctx W s) gb.pre = true := by rw [Sb.preAg _ _ agree_b]; exact hpb
  have hFb' : fired (fctx W s) (expandAll W.P gb) = some Fb := by rw [Sb.firedAg _ _ agree_b]; exact hFb
  have hCb' : Cons s Fb :=
    (cons_congr (fun f hf => agree_b f.key (Sb.sub _ (kb_keys f hf)))).2 hCb
  have untouched_b : ∀ (cur : FState) k, k ∉ kb.writes → succGet cur Fb k = cur k := by
    intro cur k hk
    exact succGet_untouched (fun f hf e => hk (e ▸ kb_keys f hf))
  -- the invariants hold after b alone
  have hI1 : invOK W (fctx W (succGet s Fb)) = true := by
    rw [invOK_iff]
    intro inv hi
    rcases Ib inv hi with hd | hr
    · -- b writes no fluent of the invariant: it keeps the value it has in `s`
      rw [evalBool_static W inv (hnn inv hi) s (succGet s Fb) (fun k hk => untouched_b s k (hd k hk))]
      exact invOK_all hs inv hi
    · -- all fluents of the invariant are read by b, hence not written by a: same values as in `s2`
      rw [evalBool_static W inv (hnn inv hi) (succGet (succGet s Fa) Fb) (succGet s Fb)]
      · exact invOK_all hIb inv hi
      · intro k hk
        have hka : k ∉ ka.writes := fun hw => dab k hw (hr k hk)
        exact (succGet_congr Fb (untouched_a k hka)).symm
  refine ⟨succGet s Fb, succF_some.2 ⟨hpb', Fb, hFb', hCb', hI1, rfl⟩, ?_⟩
  -- now a after b
  have agree_a : ∀ k ∈ ka.reads, succGet s Fb k = s k := by
    intro k hk
    exact untouched_b s k (fun hw => dba k hw hk)
  have hpa' : preOK (fctx W (succGet s Fb)) ga.pre = true := by rw [Sa.preAg _ _ agree_a]; exact hpa
  have hFa' : fired (fctx W (succGet s Fb)) (expandAll W.P ga) = some Fa := by
    rw [Sa.firedAg _ _ agree_a]; exact hFa
  have hCa' : Cons (succGet s Fb) Fa :=
    (cons_congr (fun f hf => agree_a f.key (Sa.sub _ (ka_keys f hf)))).2 hCa
  have hEq : succGet (succGet s Fb) Fa = succGet (succGet s Fa) Fb := by
    funext k
    by_cases hk : k ∈ ka.writes
    · have hkb : k ∉ kb.writes := fun hw => dba k hw (Sa.sub k hk)
      rw [untouched_b (succGet s Fa) k hkb]
      exact succGet_congr Fa (untouched_b s k hkb)
    · rw [untouched_a k hk |> fun e => succGet_congr Fb e]
      exact succGet_untouched (fun f hf e => hk (e ▸ ka_keys f hf))
  refine succF_some.2 ⟨hpa', Fa, hFa', hCa', ?_, hEq.symm⟩
  rw [hEq]; exact hIb

end UPVerif.Deorder
