import UPVerif.Lemmas.SimplifyDen
/-!
Helper lemmas for `Props/C11.lean`, part 3: arithmetic node functions (`walk_plus`, `walk_minus`,
`walk_times`, `walk_div`) against `den`, over exact unbounded `Int`/`Rat`.  No Mathlib.
-/
namespace UPVerif.Simp
open Expr

def sumQ : List Rat → Rat
  | [] => 0
  | q :: qs => q + sumQ qs

def prodQ : List Rat → Rat
  | [] => 1
  | q :: qs => q * prodQ qs

theorem foldl_add_eq (qs : List Rat) : ∀ a : Rat, qs.foldl (· + ·) a = a + sumQ qs := by
  induction qs with
  | nil => intro a; simp only [List.foldl_nil, sumQ]; grind
  | cons q qs ih => intro a; simp only [List.foldl_cons, ih, sumQ]; grind

theorem foldl_mul_eq (qs : List Rat) : ∀ a : Rat, qs.foldl (· * ·) a = a * prodQ qs := by
  induction qs with
  | nil => intro a; simp only [List.foldl_nil, prodQ]; grind
  | cons q qs ih => intro a; simp only [List.foldl_cons, ih, prodQ]; grind

theorem sumQ_append (as bs : List Rat) : sumQ (as ++ bs) = sumQ as + sumQ bs := by
  induction as with
  | nil => simp only [List.nil_append, sumQ]; grind
  | cons a as ih => simp only [List.cons_append, sumQ, ih]; grind

theorem prodQ_append (as bs : List Rat) : prodQ (as ++ bs) = prodQ as * prodQ bs := by
  induction as with
  | nil => simp only [List.nil_append, prodQ]; grind
  | cons a as ih => simp only [List.cons_append, prodQ, ih]; grind

/-- the numeric values of a list of expressions -/
def denNums (ι : Interp) (ρ : VEnv) (es : List Expr) : Option (List Rat) :=
  (denList ι ρ es).bind allNums

theorem denNums_nil (ι : Interp) (ρ : VEnv) : denNums ι ρ [] = some [] := by
  simp [denNums, denList, allNums]

theorem denNums_cons {ι : Interp} {ρ : VEnv} {e : Expr} {es : List Expr} {qs : List Rat} :
    denNums ι ρ (e :: es) = some qs ↔
      ∃ x xs, den ι ρ e = some (.n x) ∧ denNums ι ρ es = some xs ∧ qs = x :: xs := by
  unfold denNums
  constructor
  · intro h
    rw [Option.bind_eq_some_iff] at h
    obtain ⟨vs, hvs, hb⟩ := h
    obtain ⟨v, vs', hv, hvs', rfl⟩ := denList_cons_some.1 hvs
    cases v with
    | n x =>
      simp only [allNums, Option.map_eq_some_iff] at hb
      obtain ⟨xs, hxs, rfl⟩ := hb
      exact ⟨x, xs, hv, by simp [hvs', hxs], rfl⟩
    | b q => simp [allNums] at hb
    | o nm => simp [allNums] at hb
  · rintro ⟨x, xs, hx, hxs, rfl⟩
    rw [Option.bind_eq_some_iff] at hxs
    obtain ⟨vs', hvs', hb⟩ := hxs
    rw [Option.bind_eq_some_iff]
    exact ⟨.n x :: vs', denList_cons_some.2 ⟨_, _, hx, hvs', rfl⟩, by simp [allNums, hb]⟩

theorem denNums_append {ι : Interp} {ρ : VEnv} :
    ∀ {es fs : List Expr} {bs cs : List Rat}, denNums ι ρ es = some bs → denNums ι ρ fs = some cs →
      denNums ι ρ (es ++ fs) = some (bs ++ cs)
  | [], fs, bs, cs, h1, h2 => by
    rw [denNums_nil] at h1; cases h1; simpa using h2
  | e :: es, fs, bs, cs, h1, h2 => by
    obtain ⟨x, xs, hx, hxs, rfl⟩ := denNums_cons.1 h1
    exact denNums_cons.2 ⟨x, xs ++ cs, hx, denNums_append hxs h2, rfl⟩

theorem denNums_single {ι : Interp} {ρ : VEnv} {e : Expr} {q : Rat} (h : den ι ρ e = some (.n q)) :
    denNums ι ρ [e] = some [q] :=
  denNums_cons.2 ⟨q, [], h, denNums_nil _ _, rfl⟩

theorem den_plus_some {ι : Interp} {ρ : VEnv} {args : List Expr} {v : Val} :
    den ι ρ (.app .plus args) = some v ↔ ∃ qs, denNums ι ρ args = some qs ∧ v = .n (sumQ qs) := by
  rw [den_app, denNums]
  cases denList ι ρ args with
  | none => simp
  | some vs =>
    simp only [Option.bind_some, denOp]
    cases allNums vs <;> simp [eq_comm, foldl_add_eq, Rat.zero_add]

theorem den_times_some {ι : Interp} {ρ : VEnv} {args : List Expr} {v : Val} :
    den ι ρ (.app .times args) = some v ↔ ∃ qs, denNums ι ρ args = some qs ∧ v = .n (prodQ qs) := by
  rw [den_app, denNums]
  cases denList ι ρ args with
  | none => simp
  | some vs =>
    simp only [Option.bind_some, denOp]
    cases allNums vs <;> simp [eq_comm, foldl_mul_eq, Rat.one_mul]

theorem den_int (ι : Interp) (ρ : VEnv) (z : Int) : den ι ρ (Expr.int z) = some (.n (z : Rat)) := by
  simp [Expr.int, den, denLeaf]

theorem den_real (ι : Interp) (ρ : VEnv) (q : Rat) : den ι ρ (Expr.real q) = some (.n q) := by
  simp [Expr.real, den, denLeaf]

theorem den_mkPlus {ι : Interp} {ρ : VEnv} {es : List Expr} {qs : List Rat}
    (h : denNums ι ρ es = some qs) : den ι ρ (mkPlus es) = some (.n (sumQ qs)) := by
  match es, h with
  | [], h => rw [denNums_nil] at h; cases h; simp [mkPlus, den_int, sumQ]
  | [e], h =>
    obtain ⟨x, xs', hx, hxs, rfl⟩ := denNums_cons.1 h
    rw [denNums_nil] at hxs; cases hxs
    simp only [mkPlus, hx, sumQ]; congr 2; grind
  | e1 :: e2 :: es, h => exact den_plus_some.2 ⟨qs, h, rfl⟩

theorem den_mkTimes {ι : Interp} {ρ : VEnv} {es : List Expr} {qs : List Rat}
    (h : denNums ι ρ es = some qs) : den ι ρ (mkTimes es) = some (.n (prodQ qs)) := by
  match es, h with
  | [], h => rw [denNums_nil] at h; cases h; simp [mkTimes, den_int, prodQ]
  | [e], h =>
    obtain ⟨x, xs', hx, hxs, rfl⟩ := denNums_cons.1 h
    rw [denNums_nil] at hxs; cases hxs
    simp only [mkTimes, hx, prodQ]; congr 2; grind
  | e1 :: e2 :: es, h => exact den_times_some.2 ⟨qs, h, rfl⟩

/-! ### `Num` = Python int / Fraction arithmetic -/

theorem Num.add_toRat (a b : Num) : (a.add b).toRat = a.toRat + b.toRat := by
  cases a <;> cases b <;> simp [Num.add, Num.toRat, Rat.intCast_add]

theorem Num.sub_toRat (a b : Num) : (a.sub b).toRat = a.toRat - b.toRat := by
  cases a <;> cases b <;> simp [Num.sub, Num.toRat, Rat.intCast_sub]

theorem Num.mul_toRat (a b : Num) : (a.mul b).toRat = a.toRat * b.toRat := by
  cases a <;> cases b <;> simp [Num.mul, Num.toRat, Rat.intCast_mul]

theorem Num.neg_toRat (a : Num) : a.neg.toRat = -a.toRat := by
  cases a <;> simp [Num.neg, Num.toRat, Rat.intCast_neg]

theorem den_toExpr (ι : Interp) (ρ : VEnv) (c : Num) : den ι ρ c.toExpr = some (.n c.toRat) := by
  cases c <;> simp [Num.toExpr, Num.toRat, den_int, den_real]

theorem den_num {ι : Interp} {ρ : VEnv} {e : Expr} {c : Num} (h : e.num? = some c) :
    den ι ρ e = some (.n c.toRat) := by
  unfold num? at h
  split at h
  · simp only [Option.some.injEq] at h; subst h; simp [den, denLeaf, Num.toRat]
  · simp only [Option.some.injEq] at h; subst h; simp [den, denLeaf, Num.toRat]
  · cases h

/-! ### `walk_plus` -/

theorem plusItem_sem {ι : Interp} {ρ : VEnv} {st : Num × List Expr} {ns : List Rat} {s : Expr} {q : Rat}
    (hst : denNums ι ρ st.2 = some ns) (hs : den ι ρ s = some (.n q)) :
    ∃ ns', denNums ι ρ (plusItem st s).2 = some ns' ∧
      (plusItem st s).1.toRat + sumQ ns' = st.1.toRat + sumQ ns + q := by
  unfold plusItem
  split
  · rename_i c hc
    have := den_num (ι := ι) (ρ := ρ) hc
    rw [hs] at this; simp only [Option.some.injEq, Val.n.injEq] at this; subst this
    exact ⟨ns, hst, by simp only [Num.add_toRat]; grind⟩
  · refine ⟨ns ++ [q], denNums_append hst (denNums_single hs), ?_⟩
    simp only [sumQ_append, sumQ]; grind

theorem foldl_plusItem_sem {ι : Interp} {ρ : VEnv} :
    ∀ {ss : List Expr} {st : Num × List Expr} {ns qs : List Rat},
      denNums ι ρ st.2 = some ns → denNums ι ρ ss = some qs →
      ∃ ns', denNums ι ρ (ss.foldl plusItem st).2 = some ns' ∧
        (ss.foldl plusItem st).1.toRat + sumQ ns' = st.1.toRat + sumQ ns + sumQ qs
  | [], st, ns, qs, hst, hss => by
    rw [denNums_nil] at hss; cases hss
    exact ⟨ns, hst, by simp only [List.foldl_nil, sumQ]; grind⟩
  | s :: ss, st, ns, qs, hst, hss => by
    obtain ⟨q, qs', hq, hqs, rfl⟩ := denNums_cons.1 hss
    obtain ⟨ns1, h1, e1⟩ := plusItem_sem hst hq
    obtain ⟨ns2, h2, e2⟩ := foldl_plusItem_sem (ss := ss) h1 hqs
    refine ⟨ns2, by simpa using h2, ?_⟩
    simp only [List.foldl_cons, sumQ]
    rw [e2, e1]; grind

theorem plusLoop_sem {ι : Interp} {ρ : VEnv} :
    ∀ {args : List Expr} {st : Num × List Expr} {ns qs : List Rat},
      denNums ι ρ st.2 = some ns → denNums ι ρ args = some qs →
      ∃ ns', denNums ι ρ (plusLoop st args).2 = some ns' ∧
        (plusLoop st args).1.toRat + sumQ ns' = st.1.toRat + sumQ ns + sumQ qs
  | [], st, ns, qs, hst, hargs => by
    rw [denNums_nil] at hargs; cases hargs
    exact ⟨ns, by simpa [plusLoop] using hst, by simp only [plusLoop, sumQ]; grind⟩
  | a :: rest, st, ns, qs, hst, hargs => by
    obtain ⟨q, qs', hq, hqs, rfl⟩ := denNums_cons.1 hargs
    unfold plusLoop
    split
    · rename_i c hc
      have := den_num (ι := ι) (ρ := ρ) hc
      rw [hq] at this; simp only [Option.some.injEq, Val.n.injEq] at this; subst this
      obtain ⟨ns', h', e'⟩ := plusLoop_sem (args := rest) (st := (st.1.add c, st.2)) hst hqs
      refine ⟨ns', h', ?_⟩
      rw [e']; simp only [Num.add_toRat, sumQ]; grind
    · split
      · rename_i ss
        obtain ⟨ys, hys, hv⟩ := den_plus_some.1 hq
        simp only [Val.n.injEq] at hv; subst hv
        obtain ⟨ns1, h1, e1⟩ := foldl_plusItem_sem hst hys
        obtain ⟨ns', h', e'⟩ := plusLoop_sem (args := rest) h1 hqs
        refine ⟨ns', h', ?_⟩
        rw [e', e1]; simp only [sumQ]; grind
      · obtain ⟨ns', h', e'⟩ := plusLoop_sem (args := rest) (st := (st.1, st.2 ++ [a]))
          (denNums_append hst (denNums_single hq)) hqs
        refine ⟨ns', h', ?_⟩
        rw [e']; simp only [sumQ_append, sumQ]; grind

theorem walkPlus_sound {ι : Interp} {ρ : VEnv} {args : List Expr} {v : Val}
    (h : den ι ρ (.app .plus args) = some v) : den ι ρ (walkPlus args) = some v := by
  obtain ⟨qs, hqs, rfl⟩ := den_plus_some.1 h
  obtain ⟨ns, hns, e⟩ := plusLoop_sem (args := args) (st := (.i 0, [])) (denNums_nil ι ρ) hqs
  have e' : (plusLoop (.i 0, []) args).1.toRat + sumQ ns = sumQ qs := by
    rw [e]; simp only [Num.toRat, sumQ]; grind
  unfold walkPlus
  simp only []
  split
  · rw [den_mkPlus (denNums_append hns (denNums_single (den_toExpr ι ρ _)))]
    simp only [sumQ_append, sumQ]; congr 2; grind
  · rename_i h0
    have h0 : (plusLoop (.i 0, []) args).1.toRat = 0 := by simpa using h0
    split
    · rename_i hemp
      have : (plusLoop (.i 0, []) args).2 = [] := by simpa using hemp
      rw [this, denNums_nil] at hns; cases hns
      rw [den_int]; congr 2
      simp only [sumQ] at e'; grind
    · rw [den_mkPlus hns]; congr 2; grind

/-! ### `walk_minus` -/

theorem walkMinus_sound {ι : Interp} {ρ : VEnv} {a b : Expr} {v : Val}
    (h : den ι ρ (.app .minus [a, b]) = some v) : den ι ρ (walkMinus a b) = some v := by
  obtain ⟨va, vb, ha, hb, hop⟩ := den_app2_some.1 h
  cases va <;> cases vb <;> simp [denOp] at hop
  rename_i x y; subst hop
  unfold walkMinus
  split
  · rename_i ca cb hca hcb
    have h1 := den_num (ι := ι) (ρ := ρ) hca
    have h2 := den_num (ι := ι) (ρ := ρ) hcb
    rw [ha] at h1; rw [hb] at h2
    simp only [Option.some.injEq, Val.n.injEq] at h1 h2; subst h1 h2
    rw [den_toExpr, Num.sub_toRat]
  · rename_i cb hca hcb
    have h2 := den_num (ι := ι) (ρ := ρ) hcb
    rw [hb] at h2
    simp only [Option.some.injEq, Val.n.injEq] at h2; subst h2
    split
    · apply walkPlus_sound
      apply den_plus_some.2
      refine ⟨[x, cb.neg.toRat], denNums_cons.2 ⟨_, _, ha, denNums_single (den_toExpr ι ρ _), rfl⟩, ?_⟩
      simp only [sumQ, Num.neg_toRat]; congr 1; grind
    · exact den_app2_some.2 ⟨_, _, ha, hb, by simp [denOp]⟩
  · exact den_app2_some.2 ⟨_, _, ha, hb, by simp [denOp]⟩

/-! ### `walk_times` -/

theorem foldl_timesItem_none (ss : List Expr) : ss.foldl timesItem none = none := by
  induction ss with
  | nil => rfl
  | cons s ss ih => simpa [List.foldl_cons, timesItem] using ih

theorem foldl_timesItem_sem {ι : Interp} {ρ : VEnv} :
    ∀ {ss : List Expr} {st : Num × List Expr} {ns qs : List Rat},
      denNums ι ρ st.2 = some ns → denNums ι ρ ss = some qs →
      (ss.foldl timesItem (some st) = none → prodQ qs = 0) ∧
      (∀ st', ss.foldl timesItem (some st) = some st' →
        ∃ ns', denNums ι ρ st'.2 = some ns' ∧
          st'.1.toRat * prodQ ns' = st.1.toRat * prodQ ns * prodQ qs)
  | [], st, ns, qs, hst, hss => by
    rw [denNums_nil] at hss; cases hss
    refine ⟨(fun h => nomatch h), fun st' h => ?_⟩
    simp only [List.foldl_nil, Option.some.injEq] at h; subst h
    exact ⟨ns, hst, by simp only [prodQ]; grind⟩
  | s :: ss, st, ns, qs, hst, hss => by
    obtain ⟨q, qs', hq, hqs, rfl⟩ := denNums_cons.1 hss
    simp only [List.foldl_cons]
    cases hc : s.num? with
    | some c =>
      have := den_num (ι := ι) (ρ := ρ) hc
      rw [hq] at this; simp only [Option.some.injEq, Val.n.injEq] at this; subst this
      by_cases h0 : c.toRat = 0
      · have : timesItem (some st) s = none := by simp [timesItem, hc, h0]
        rw [this, foldl_timesItem_none]
        refine ⟨fun _ => ?_, fun _ h => nomatch h⟩
        simp only [prodQ, h0]; grind
      · have : timesItem (some st) s = some (st.1.mul c, st.2) := by simp [timesItem, hc, h0]
        rw [this]
        obtain ⟨hn, hs⟩ := foldl_timesItem_sem (ss := ss) (st := (st.1.mul c, st.2)) hst hqs
        refine ⟨fun h => ?_, fun st' h => ?_⟩
        · simp only [prodQ, hn h]; grind
        · obtain ⟨ns', h', e'⟩ := hs st' h
          refine ⟨ns', h', ?_⟩
          rw [e']; simp only [Num.mul_toRat, prodQ]; grind
    | none =>
      have : timesItem (some st) s = some (st.1, st.2 ++ [s]) := by simp [timesItem, hc]
      rw [this]
      obtain ⟨hn, hs⟩ := foldl_timesItem_sem (ss := ss) (st := (st.1, st.2 ++ [s]))
        (denNums_append hst (denNums_single hq)) hqs
      refine ⟨fun h => ?_, fun st' h => ?_⟩
      · simp only [prodQ, hn h]; grind
      · obtain ⟨ns', h', e'⟩ := hs st' h
        refine ⟨ns', h', ?_⟩
        rw [e']; simp only [prodQ_append, prodQ]; grind

theorem timesLoop_sem {ι : Interp} {ρ : VEnv} :
    ∀ {args : List Expr} {st : Num × List Expr} {ns qs : List Rat},
      denNums ι ρ st.2 = some ns → denNums ι ρ args = some qs →
      (timesLoop st args = none → prodQ qs = 0) ∧
      (∀ st', timesLoop st args = some st' →
        ∃ ns', denNums ι ρ st'.2 = some ns' ∧
          st'.1.toRat * prodQ ns' = st.1.toRat * prodQ ns * prodQ qs)
  | [], st, ns, qs, hst, hargs => by
    rw [denNums_nil] at hargs; cases hargs
    refine ⟨(fun h => nomatch h), fun st' h => ?_⟩
    simp only [timesLoop, Option.some.injEq] at h; subst h
    exact ⟨ns, hst, by simp only [prodQ]; grind⟩
  | a :: rest, st, ns, qs, hst, hargs => by
    obtain ⟨q, qs', hq, hqs, rfl⟩ := denNums_cons.1 hargs
    unfold timesLoop
    split
    · rename_i c hc
      have := den_num (ι := ι) (ρ := ρ) hc
      rw [hq] at this; simp only [Option.some.injEq, Val.n.injEq] at this; subst this
      split
      · rename_i h0
        refine ⟨fun _ => ?_, fun _ h => nomatch h⟩
        simp only [prodQ, h0]; grind
      · obtain ⟨hn, hs⟩ := timesLoop_sem (args := rest) (st := (st.1.mul c, st.2)) hst hqs
        refine ⟨fun h => ?_, fun st' h => ?_⟩
        · simp only [prodQ, hn h]; grind
        · obtain ⟨ns', h', e'⟩ := hs st' h
          refine ⟨ns', h', ?_⟩
          rw [e']; simp only [Num.mul_toRat, prodQ]; grind
    · split
      · rename_i ss
        obtain ⟨ys, hys, hv⟩ := den_times_some.1 hq
        simp only [Val.n.injEq] at hv; subst hv
        obtain ⟨h1n, h1s⟩ := foldl_timesItem_sem hst hys
        split
        · rename_i hf
          refine ⟨fun _ => ?_, fun _ h => nomatch h⟩
          simp only [prodQ, h1n hf]; grind
        · rename_i st1 hf
          obtain ⟨ns1, h1, e1⟩ := h1s st1 hf
          obtain ⟨hn, hs⟩ := timesLoop_sem (args := rest) h1 hqs
          refine ⟨fun h => ?_, fun st' h => ?_⟩
          · simp only [prodQ, hn h]; grind
          · obtain ⟨ns', h', e'⟩ := hs st' h
            refine ⟨ns', h', ?_⟩
            rw [e', e1]; simp only [prodQ]; grind
      · obtain ⟨hn, hs⟩ := timesLoop_sem (args := rest) (st := (st.1, st.2 ++ [a]))
          (denNums_append hst (denNums_single hq)) hqs
        refine ⟨fun h => ?_, fun st' h => ?_⟩
        · simp only [prodQ, hn h]; grind
        · obtain ⟨ns', h', e'⟩ := hs st' h
          refine ⟨ns', h', ?_⟩
          rw [e']; simp only [prodQ_append, prodQ]; grind

theorem walkTimes_sound {ι : Interp} {ρ : VEnv} {args : List Expr} {v : Val}
    (h : den ι ρ (.app .times args) = some v) : den ι ρ (walkTimes args) = some v := by
  obtain ⟨qs, hqs, rfl⟩ := den_times_some.1 h
  obtain ⟨hn, hs⟩ := timesLoop_sem (args := args) (st := (.i 1, [])) (denNums_nil ι ρ) hqs
  unfold walkTimes
  split
  · rename_i hl
    rw [den_int, hn hl]; rfl
  · rename_i st hl
    obtain ⟨ns, hns, e⟩ := hs st hl
    have e' : st.1.toRat * prodQ ns = prodQ qs := by
      rw [e]; simp only [Num.toRat, prodQ]; grind
    split
    · rw [den_mkTimes (denNums_append hns (denNums_single (den_toExpr ι ρ _)))]
      simp only [prodQ_append, prodQ]; congr 2; grind
    · rename_i h1
      have h1 : st.1.toRat = 1 := by simpa using h1
      split
      · rename_i hemp
        have : st.2 = [] := by simpa using hemp
        rw [this, denNums_nil] at hns; cases hns
        rw [den_int]; congr 2
        simp only [prodQ] at e'; grind
      · rw [den_mkTimes hns]; congr 2; grind

/-! ### `walk_div` -/

theorem intCast_ediv_of_emod_eq_zero {a b : Int} (hb : b ≠ 0) (h : a % b = 0) :
    ((a / b : Int) : Rat) = (a : Rat) / (b : Rat) := by
  obtain ⟨k, rfl⟩ := Int.dvd_of_emod_eq_zero h
  rw [Int.mul_ediv_cancel_left _ hb]
  have : (b : Rat) ≠ 0 := by
    intro h0; apply hb; exact_mod_cast h0
  grind

theorem walkDiv_sound {ι : Interp} {ρ : VEnv} {a b e' : Expr} {v : Val}
    (hw : walkDiv a b = .ok e') (h : den ι ρ (.app .div [a, b]) = some v) :
    den ι ρ e' = some v := by
  obtain ⟨va, vb, ha, hb, hop⟩ := den_app2_some.1 h
  cases va <;> cases vb <;> simp [denOp] at hop
  rename_i x y
  obtain ⟨hy, rfl⟩ := hop
  unfold walkDiv at hw
  split at hw
  · rename_i za zb hca hcb
    have h1 := den_num (ι := ι) (ρ := ρ) hca
    have h2 := den_num (ι := ι) (ρ := ρ) hcb
    rw [ha] at h1; rw [hb] at h2
    simp only [Option.some.injEq, Val.n.injEq, Num.toRat] at h1 h2; subst h1 h2
    split at hw
    · cases hw
    · rename_i hz
      split at hw
      · rename_i hm
        simp only [pure, Except.pure, Except.ok.injEq] at hw; subst hw
        rw [den_int, intCast_ediv_of_emod_eq_zero hz hm]
      · simp only [pure, Except.pure, Except.ok.injEq] at hw; subst hw
        rw [den_real]
  · rename_i ca cb _ hca hcb
    have h1 := den_num (ι := ι) (ρ := ρ) hca
    have h2 := den_num (ι := ι) (ρ := ρ) hcb
    rw [ha] at h1; rw [hb] at h2
    simp only [Option.some.injEq, Val.n.injEq] at h1 h2; subst h1 h2
    split at hw
    · cases hw
    · simp only [pure, Except.pure, Except.ok.injEq] at hw; subst hw
      rw [den_real]
  · simp only [pure, Except.pure, Except.ok.injEq] at hw; subst hw
    exact den_app2_some.2 ⟨_, _, ha, hb, by simp [denOp, hy]⟩

end UPVerif.Simp
