import UPVerif.Lemmas.CompileBTRCond
/-!
BoundedTypesRemover, part 4: the condition the compiler adds (`btrConditions`: `lb <= f(ō)`, `f(ō) <= ub` over the
ground instances of the bounded fluents, now unbounded) is TRUE in a compiled state exactly when the simulator's
bounded-type invariants (`boundInvs`, Lemmas/CompileSIR.lean) hold in every related original state.
-/
namespace UPVerif.Compile
open UPVerif UPVerif.Expr UPVerif.Sim UPVerif.Spec

theorem all_and {α : Type} (p q : α → Bool) : ∀ l : List α, l.all (fun x => p x && q x) = (l.all p && l.all q)
  | [] => rfl
  | x :: xs => by
    rw [List.all_cons, List.all_cons, List.all_cons, all_and p q xs]
    cases p x <;> cases q x <;> cases xs.all p <;> cases xs.all q <;> rfl

theorem rnList_objs (P : Problem) (l : List String) : rnList (l.map (objExpr P)) = l.map (objExpr P) := by
  rw [rnList_eq_map, List.map_map]
  apply List.map_congr_left
  intro o _
  rfl

theorem refsInList_objs (D : List FluentRef) (P : Problem) : ∀ l : List String, refsInList D (l.map (objExpr P)) = true
  | [] => rfl
  | o :: os => by
    rw [List.map_cons, refsInList, refsInList_objs D P os]
    rfl

theorem allFluentExps_ub (P : Problem) (f : FluentRef) :
    allFluentExps P (unboundRef f) = (allFluentExps P f).map rn := by
  unfold allFluentExps
  rw [List.map_map]
  apply List.map_congr_left
  intro objs _
  simp only [Function.comp, mkFluent, rn, rnOp, rnList_objs]

theorem allFluentExps_refsIn {D : List FluentRef} (P : Problem) {f : FluentRef} (hf : f ∈ D) :
    ∀ x ∈ allFluentExps P f, refsIn D x = true := by
  intro x hx
  unfold allFluentExps at hx
  rw [List.mem_map] at hx
  obtain ⟨objs, _, rfl⟩ := hx
  simp only [mkFluent, refsIn, refsInList_objs, Bool.and_true]
  simpa using hf

/-- a bound of the compiled condition against the bound the simulator checks: the same value, written as a constant -/
def BoundRel : Option Expr → Option Expr → Prop
  | none, none => True
  | some x, some y => (∃ l, x = .leaf l) ∧ ∀ (c : EvalCtx) (ρ : VEnv), eval c ρ x = eval c ρ y
  | _, _ => False

theorem eval_ratConst (c : EvalCtx) (ρ : VEnv) (q : Rat) : eval c ρ (ratConst q) = eval c ρ (Expr.real q) := by
  unfold ratConst
  split
  · rename_i h
    have : ((q.num : Int) : Rat) = q := by
      apply Rat.ext
      · simp
      · simp [h]
    simp only [Expr.int, Expr.real, eval, evalLeaf, this]
  · rfl

theorem ratConst_leaf (q : Rat) : ∃ l, ratConst q = .leaf l := by
  unfold ratConst
  split
  · exact ⟨_, rfl⟩
  · exact ⟨_, rfl⟩

theorem boundRel_consts (t : Ty) :
    BoundRel (boundConsts t).1 (boundsOf t).1 ∧ BoundRel (boundConsts t).2 (boundsOf t).2 := by
  cases t with
  | int lb ub =>
    cases lb <;> cases ub <;> simp [boundConsts, boundsOf, BoundRel, Expr.int]
  | real lb ub =>
    cases lb <;> cases ub <;>
      simp only [boundConsts, boundsOf, BoundRel, Option.map_some, Option.map_none, and_self, true_and, and_true] <;>
      first
        | trivial
        | exact ⟨ratConst_leaf _, fun c ρ => eval_ratConst c ρ _⟩
        | exact ⟨⟨ratConst_leaf _, fun c ρ => eval_ratConst c ρ _⟩, ⟨ratConst_leaf _, fun c ρ => eval_ratConst c ρ _⟩⟩
  | _ => simp [boundConsts, boundsOf, BoundRel]

theorem eval_le_congr_left {c : EvalCtx} {a a' b : Expr} (h : ∀ ρ, eval c ρ a = eval c ρ a') (ρ : VEnv) :
    eval c ρ (mkLE a b) = eval c ρ (mkLE a' b) := by
  simp only [mkLE, eval, evalList, h]

theorem eval_le_congr_right {c : EvalCtx} {a b b' : Expr} (h : ∀ ρ, eval c ρ b = eval c ρ b') (ρ : VEnv) :
    eval c ρ (mkLE a b) = eval c ρ (mkLE a b') := by
  simp only [mkLE, eval, evalList, h]

section inst
variable {D : List FluentRef} {cB cA : EvalCtx} (h : RelCtx D cB cA)
include h

theorem lo_inst {lB lA x : Expr} (hl : (∃ l, lB = .leaf l) ∧ ∀ (c : EvalCtx) (ρ : VEnv), eval c ρ lB = eval c ρ lA)
    (hx : refsIn D x = true) :
    Spec.isTrue (eval cB [] (mkLE lB (rn x))) = isTrueB (evalBool cA (mkLE lA x)) := by
  obtain ⟨⟨l, rfl⟩, he⟩ := hl
  have e1 : mkLE (.leaf l) (rn x) = rn (mkLE (.leaf l) x) := by simp [mkLE, rn, rnOp, rnList]
  rw [isTrueB_evalBool, e1, (eval_rn h).1 _ [] (by simp [mkLE, refsIn, refsInList, hx]),
    eval_le_congr_left (fun ρ => he cA ρ)]

theorem hi_inst {uB uA x : Expr} (hu : (∃ l, uB = .leaf l) ∧ ∀ (c : EvalCtx) (ρ : VEnv), eval c ρ uB = eval c ρ uA)
    (hx : refsIn D x = true) :
    Spec.isTrue (eval cB [] (mkLE (rn x) uB)) = isTrueB (evalBool cA (mkLE x uA)) := by
  obtain ⟨⟨l, rfl⟩, he⟩ := hu
  have e1 : mkLE (rn x) (.leaf l) = rn (mkLE x (.leaf l)) := by simp [mkLE, rn, rnOp, rnList]
  rw [isTrueB_evalBool, e1, (eval_rn h).1 _ [] (by simp [mkLE, refsIn, refsInList, hx]),
    eval_le_congr_right (fun ρ => he cA ρ)]

/-- the conditions BoundedTypesRemover writes for one ground fluent -/
def condsOf (lb ub : Option Expr) (fe : Expr) : List Expr :=
  (match lb with | some l => [mkLE l fe] | none => []) ++ (match ub with | some u => [mkLE fe u] | none => [])

/-- the invariants the simulator builds for one fluent -/
def invsOf (lb ub : Option Expr) (FE : List Expr) : List Expr :=
  (match lb with
    | some l => FE.map (fun fe => mkLE l fe)
    | none => []) ++
  (match ub with
    | some u => FE.map (fun fe => mkLE fe u)
    | none => [])

/-- the bound conditions of one fluent -/
theorem bounds_fluent (P : Problem) {f : FluentRef} (hf : f ∈ D) {lbB lbA ubB ubA : Option Expr}
    (hl : BoundRel lbB lbA) (hu : BoundRel ubB ubA) :
    (if lbB.isNone && ubB.isNone then []
      else (allFluentExps P (unboundRef f)).flatMap (condsOf lbB ubB)).all (fun p => Spec.isTrue (eval cB [] p)) =
    (invsOf lbA ubA (allFluentExps P f)).all (fun si => isTrueB (evalBool cA si)) := by
  have hrefs := allFluentExps_refsIn P hf
  rw [allFluentExps_ub]
  unfold condsOf invsOf
  cases lbB with
  | none =>
    cases lbA with
    | some _ => exact absurd hl (by simp [BoundRel])
    | none =>
      cases ubB with
      | none =>
        cases ubA with
        | some _ => exact absurd hu (by simp [BoundRel])
        | none => rfl
      | some uB =>
        cases ubA with
        | none => exact absurd hu (by simp [BoundRel])
        | some uA =>
          simp only [Option.isNone_none, Option.isNone_some, Bool.and_false, Bool.false_eq_true, if_false,
            List.nil_append, List.all_flatMap, List.all_map, List.all_cons, List.all_nil, Bool.and_true]
          exact all_congr_mem (fun x hx => hi_inst h hu (hrefs x hx))
  | some lB =>
    cases lbA with
    | none => exact absurd hl (by simp [BoundRel])
    | some lA =>
      cases ubB with
      | none =>
        cases ubA with
        | some _ => exact absurd hu (by simp [BoundRel])
        | none =>
          simp only [Option.isNone_none, Option.isNone_some, Bool.false_eq_true, if_false,
            List.append_nil, List.all_flatMap, List.all_map, List.all_cons, List.all_nil, Bool.and_true]
          exact all_congr_mem (fun x hx => lo_inst h hl (hrefs x hx))
      | some uB =>
        cases ubA with
        | none => exact absurd hu (by simp [BoundRel])
        | some uA =>
          simp only [Option.isNone_some, Bool.false_and, Bool.false_eq_true, if_false,
            List.all_flatMap, List.all_map, List.all_append, List.all_cons, List.all_nil, Bool.and_true]
          rw [← all_and]
          apply all_congr_mem
          intro x hx
          simp only [Function.comp]
          rw [lo_inst h hl (hrefs x hx), hi_inst h hu (hrefs x hx)]

end inst

/-- THE CONDITION: `And(conditions)` of BoundedTypesRemover is TRUE in the compiled state iff the bounded-type
    invariants of the simulator hold in a related original state -/
theorem btr_cond_true {cB cA : EvalCtx} (P : Problem) (h : RelCtx (declared P) cB cA) :
    Spec.isTrue (eval cB [] (mkAnd (btrConditions P))) =
      (boundInvs P).all (fun si => isTrueB (evalBool cA si)) := by
  rw [isTrue_mkAnd]
  unfold btrConditions boundInvs preOK
  rw [List.all_flatMap, List.all_flatMap]
  apply all_congr_mem
  intro d hd
  have hf : d.ref ∈ declared P := List.mem_map_of_mem hd
  have hrel := boundRel_consts d.ref.ty
  generalize boundConsts d.ref.ty = bc at hrel ⊢
  generalize boundsOf d.ref.ty = bo at hrel ⊢
  obtain ⟨lbB, ubB⟩ := bc
  obtain ⟨lbA, ubA⟩ := bo
  exact bounds_fluent h P hf hrel.1 hrel.2

end UPVerif.Compile
