import UPVerif.Core.Compile.CER
import UPVerif.Lemmas.CompileBasic
/-!
Step lemmas of `ConditionalEffectsRemover` (repaired): in every state exactly the variant selected by the
truth values of the effect conditions has its added preconditions satisfied, and that variant's successor
is the original action's successor.
-/
namespace UPVerif.Compile
open UPVerif UPVerif.Expr UPVerif.Sim UPVerif.Spec

/-- what the lemmas ask of a conditional effect: it is not a forall effect and its target is a fluent on
    constants (so that evaluating the target cannot fail when the condition is false) -/
def simpleCond (e : Effect) : Bool := e.forall_.isEmpty && (keyOf? e.fluent).isSome

/-- the fired conditional effects of the variant `p`, made unconditional, in order -/
def selUncond (p : List Nat) : List Effect → Nat → List Effect
  | [], _ => []
  | e :: es, i =>
    if p.contains i then { e with cond := Expr.tt } :: selUncond p es (i + 1) else selUncond p es (i + 1)

/-- the preconditions of the variant `p` before simplification -/
def condPre (p : List Nat) : List Effect → Nat → List Expr → List Expr
  | [], _, pre => pre
  | e :: es, i, pre => condPre p es (i + 1) (addPre pre (if p.contains i then e.cond else mkNot e.cond))

theorem cerLoop_some {p : List Nat} : ∀ (C : List Effect) (i : Nat) (pre : List Expr) (effs : List Effect)
    (acc : StaticAcc) {pre' : List Expr} {effs' : List Effect},
    cerLoop p C i pre effs acc = some (pre', effs') →
      pre' = condPre p C i pre ∧ effs' = effs ++ selUncond p C i
  | [], i, pre, effs, acc, pre', effs', h => by
    simp only [cerLoop, Option.some.injEq, Prod.mk.injEq] at h
    simp [condPre, selUncond, h.1, h.2]
  | e :: es, i, pre, effs, acc, pre', effs', h => by
    simp only [cerLoop] at h
    by_cases hp : p.contains i = true
    · simp only [hp, if_true] at h
      split at h
      · cases h
      · rename_i acc' _
        obtain ⟨h1, h2⟩ := cerLoop_some es (i + 1) _ _ acc' h
        simp only [condPre, selUncond, hp, if_true]
        exact ⟨h1, by rw [h2, List.append_assoc]; rfl⟩
    · simp only [hp, Bool.false_eq_true, if_false] at h
      obtain ⟨h1, h2⟩ := cerLoop_some es (i + 1) _ _ acc h
      simp only [condPre, selUncond, hp, Bool.false_eq_true, if_false]
      exact ⟨h1, h2⟩

/-- the conditions of the effects `C` (numbered from `i`) have exactly the truth values the variant `p` asks for -/
def CondMatches (c : EvalCtx) (p : List Nat) : List Effect → Nat → Prop
  | [], _ => True
  | e :: es, i =>
    (if p.contains i then eval c [] e.cond = .ok (.b true) else eval c [] e.cond = .ok (.b false)) ∧
    CondMatches c p es (i + 1)

theorem preOK_condPre (c : EvalCtx) (p : List Nat) : ∀ (C : List Effect) (i : Nat) (pre : List Expr),
    preOK c (condPre p C i pre) = true ↔ (preOK c pre = true ∧ CondMatches c p C i)
  | [], i, pre => by simp [condPre, CondMatches]
  | e :: es, i, pre => by
    simp only [condPre, CondMatches]
    rw [preOK_condPre c p es (i + 1), preOK_addPre, Bool.and_eq_true]
    by_cases hp : p.contains i = true
    · simp only [hp, if_true, isTrue_eq_true]
      constructor
      · rintro ⟨⟨h1, h2⟩, h3⟩; exact ⟨h1, h2, h3⟩
      · rintro ⟨h1, h2, h3⟩; exact ⟨⟨h1, h2⟩, h3⟩
    · simp only [hp, Bool.false_eq_true, if_false]
      constructor
      · rintro ⟨⟨h1, h2⟩, h3⟩; exact ⟨h1, isTrue_mkNot h2, h3⟩
      · rintro ⟨h1, h2, h3⟩; exact ⟨⟨h1, isTrue_mkNot_of_false h2⟩, h3⟩

/-! ### evaluation of one conditional effect -/

theorem evalArgs_const (c : EvalCtx) : ∀ (args : List Expr) (vs : List Val),
    args.mapM UPVerif.constVal? = some vs → evalArgs c args = .ok vs
  | [], vs, h => by simp at h; subst h; rfl
  | a :: as, vs, h => by
    rw [List.mapM_cons] at h
    cases ha : UPVerif.constVal? a with
    | none => simp [ha] at h
    | some v =>
      cases has : as.mapM UPVerif.constVal? with
      | none => simp [ha, has] at h
      | some ws =>
        simp [ha, has] at h
        subst h
        have e1 : eval c [] a = .ok v := by
          cases a with
          | leaf l => cases l <;> simp [UPVerif.constVal?] at ha <;> simp [eval, evalLeaf, ha]
          | app op as => simp [UPVerif.constVal?] at ha
          | quant q vs b => simp [UPVerif.constVal?] at ha
        simp [evalArgs, e1, evalArgs_const c as ws has]

/-- a conditional effect whose condition is TRUE behaves as its unconditional copy -/
theorem evalEff_cond_true {c : EvalCtx} {e : Effect} (h : eval c [] e.cond = .ok (.b true)) :
    evalEff c e = evalEff c { e with cond := Expr.tt } := by
  obtain ⟨fl, v, cnd, k, fa⟩ := e
  simp only at h
  unfold evalEff
  cases fl with
  | leaf l => rfl
  | quant q vs b => rfl
  | app op args =>
    cases op <;> try rfl
    rename_i f
    dsimp only
    cases evalArgs c args with
    | error x => rfl
    | ok vs =>
      dsimp only
      have h2 : (⟨.app (.fluent f) args, v, Expr.tt, k, fa⟩ : Effect).isConditional = false := rfl
      rw [h2]
      by_cases hc : (⟨.app (.fluent f) args, v, cnd, k, fa⟩ : Effect).isConditional = true
      · simp only [hc, if_true, h]
        rfl
      · have : (⟨.app (.fluent f) args, v, cnd, k, fa⟩ : Effect).isConditional = false := by simpa using hc
        rw [this]
        rfl

/-- a conditional effect (constant target) whose condition is FALSE does not fire -/
theorem evalEff_cond_false {c : EvalCtx} {e : Effect} (hc : e.isConditional = true) (hs : simpleCond e = true)
    (h : eval c [] e.cond = .ok (.b false)) : evalEff c e = .ok none := by
  obtain ⟨fl, v, cnd, k, fa⟩ := e
  unfold simpleCond at hs
  rw [Bool.and_eq_true] at hs
  have hk := hs.2
  simp only at hk h
  unfold evalEff
  cases fl with
  | leaf l => simp [keyOf?] at hk
  | quant q vs b => simp [keyOf?] at hk
  | app op args =>
    cases op with
    | fluent f =>
      cases hm : args.mapM UPVerif.constVal? with
      | none => simp [keyOf?, hm] at hk
      | some vs =>
        dsimp only
        rw [evalArgs_const c args vs hm]
        simp only [hc, if_true, h]
        have : (Val.b false == Val.b true) = false := by decide
        rw [this]
    | _ => simp [keyOf?] at hk

/-! ### the fired effects of a variant -/

theorem fired_sel (c : EvalCtx) (p : List Nat) : ∀ (C : List Effect) (i : Nat),
    (∀ e ∈ C, e.isConditional = true ∧ simpleCond e = true) → CondMatches c p C i →
      C.all (effOk c) = (selUncond p C i).all (effOk c) ∧
      C.filterMap (effSel c) = (selUncond p C i).filterMap (effSel c)
  | [], i, _, _ => by simp [selUncond]
  | e :: es, i, hS, hm => by
    obtain ⟨hm1, hm2⟩ := hm
    have hSe := hS e (List.mem_cons_self ..)
    obtain ⟨ih1, ih2⟩ := fired_sel c p es (i + 1) (fun x hx => hS x (List.mem_cons_of_mem _ hx)) hm2
    by_cases hp : p.contains i = true
    · simp only [hp, if_true] at hm1
      have he := evalEff_cond_true hm1
      simp only [selUncond, hp, if_true, List.all_cons, List.filterMap_cons]
      have e1 : effOk c e = effOk c { e with cond := Expr.tt } := by unfold effOk; rw [he]
      have e2 : effSel c e = effSel c { e with cond := Expr.tt } := by unfold effSel; rw [he]
      rw [e1, e2, ih1, ih2]
      exact ⟨rfl, rfl⟩
    · simp only [hp, Bool.false_eq_true, if_false] at hm1
      have he := evalEff_cond_false hSe.1 hSe.2 hm1
      simp only [selUncond, hp, Bool.false_eq_true, if_false, List.all_cons, List.filterMap_cons]
      have e1 : effOk c e = true := by unfold effOk; rw [he]
      have e2 : effSel c e = none := by unfold effSel; rw [he]
      rw [e1, e2, ih1, ih2]
      exact ⟨by simp, rfl⟩

theorem expandEffs_simple (P : Problem) : ∀ (C : List Effect), (∀ e ∈ C, e.forall_ = []) → expandEffs P C = C
  | [], _ => rfl
  | e :: es, h => by
    have he := h e (List.mem_cons_self ..)
    have ih := expandEffs_simple P es (fun x hx => h x (List.mem_cons_of_mem _ hx))
    unfold expandEffs at *
    rw [List.flatMap_cons, ih]
    simp [expandEffect, he]

theorem selUncond_forall (p : List Nat) : ∀ (C : List Effect) (i : Nat), (∀ e ∈ C, e.forall_ = []) →
    ∀ e ∈ selUncond p C i, e.forall_ = []
  | [], _, _, e, he => by simp [selUncond] at he
  | x :: xs, i, h, e, he => by
    simp only [selUncond] at he
    have ih := selUncond_forall p xs (i + 1) (fun y hy => h y (List.mem_cons_of_mem _ hy))
    split at he
    · rcases List.mem_cons.1 he with rfl | h2
      · exact h x (List.mem_cons_self ..)
      · exact ih e h2
    · exact ih e he

theorem expandEffs_append (P : Problem) (X Y : List Effect) :
    expandEffs P (X ++ Y) = expandEffs P X ++ expandEffs P Y := by
  unfold expandEffs; rw [List.flatMap_append]

/-- THE STEP LEMMA: when the conditions have the truth values variant `p` asks for, the variant's effects
    (unconditional ones, then the fired conditional ones made unconditional) fire exactly what the
    original effects fire, up to order -/
theorem cer_successor_eq (W : World) (g : St) (a : Action) (p : List Nat) (pre' : List Expr)
    (hS : ∀ e ∈ a.effs, e.isConditional = true → simpleCond e = true)
    (hm : CondMatches (ctxOf W g) p (a.effs.filter (fun e => e.isConditional)) 0)
    (hpre : preOK (ctxOf W g) pre' = preOK (ctxOf W g) a.pre) :
    succOf W g pre' (expandEffs W.P (a.effs.filter (fun e => !e.isConditional) ++
        selUncond p (a.effs.filter (fun e => e.isConditional)) 0)) =
    succOf W g a.pre (expandEffs W.P a.effs) := by
  let U := a.effs.filter (fun e => !e.isConditional)
  let C := a.effs.filter (fun e => e.isConditional)
  have hC : ∀ e ∈ C, e.isConditional = true ∧ simpleCond e = true := by
    intro e he
    have := List.mem_filter.1 he
    exact ⟨this.2, hS e this.1 this.2⟩
  have hCf : ∀ e ∈ C, e.forall_ = [] := by
    intro e he
    have := (hC e he).2
    unfold simpleCond at this
    rw [Bool.and_eq_true] at this
    simpa using this.1
  have hperm : (expandEffs W.P a.effs).Perm (expandEffs W.P (U ++ C)) := by
    unfold expandEffs
    apply List.Perm.flatMap_right
    have := List.filter_append_perm (fun e : Effect => e.isConditional) a.effs
    exact (List.perm_append_comm.trans this).symm
  rw [succOf_perm W g a.pre hperm]
  apply succOf_congr W g hpre
  rw [expandEffs_append, expandEffs_append, expandEffs_simple W.P C hCf,
      expandEffs_simple W.P _ (selUncond_forall p C 0 hCf)]
  obtain ⟨h1, h2⟩ := fired_sel (ctxOf W g) p C 0 hC hm
  rw [fired_eq, fired_eq, List.all_append, List.all_append, List.filterMap_append, List.filterMap_append, h1, h2]

/-! ### expansion of conditional forall effects -/

theorem expandEffect_forall_free (P : Problem) (e : Effect) (h : e.forall_.isEmpty = false) :
    ∀ x ∈ expandEffect P e, x.forall_ = [] := by
  intro x hx
  unfold expandEffect at hx
  simp only [h, Bool.false_eq_true, if_false, List.mem_map] at hx
  obtain ⟨objs, _, rfl⟩ := hx
  rfl

theorem expandEffs_cerInstances (P : Problem) (e : Effect) :
    expandEffs P (cerInstances P e) = expandEffect P e := by
  unfold cerInstances
  split
  · rename_i h
    have hf : e.forall_.isEmpty = false := by
      simp only [Bool.and_eq_true, Bool.not_eq_true'] at h
      exact h.1.2
    exact expandEffs_simple P _ (expandEffect_forall_free P e hf)
  · simp [expandEffs]

/-- the expanded action has the same instances of effects, hence the same steps -/
theorem expandEffs_cerExpand (P : Problem) : ∀ (effs : List Effect),
    expandEffs P (effs.flatMap (cerInstances P)) = expandEffs P effs
  | [] => rfl
  | e :: es => by
    rw [List.flatMap_cons, expandEffs_append, expandEffs_cerInstances, expandEffs_cerExpand P es]
    rfl

end UPVerif.Compile
