import UPVerif.Lemmas.WellFormedBasic
/-!
Helper lemmas for `Props/C08Models.lean`, part 5: the model of `QuantifiersRemover` keeps a well-formed problem
well-formed (names kept, every expression expanded over the declared objects), its map-back is the identity on
positions, and the compiled problem has no quantifier and no forall effect.  No Mathlib.
-/
namespace UPVerif.Compile
open UPVerif UPVerif.Expr UPVerif.Sim UPVerif.WF UPVerif.Declared

/-! ### `mapM` in `Option` -/

theorem mapM_some {α β : Type} (f : α → Option β) : ∀ (l : List α) (l' : List β), l.mapM f = some l' →
    l'.length = l.length ∧ ∀ (i : Nat) (b : β), l'[i]? = some b → ∃ a, l[i]? = some a ∧ f a = some b
  | [], l', h => by
    simp only [List.mapM_nil, pure, Option.some.injEq] at h
    subst h
    exact ⟨rfl, fun i b hb => by simp at hb⟩
  | a :: l, l', h => by
    rw [List.mapM_cons] at h
    cases hfa : f a with
    | none => simp [hfa] at h
    | some b =>
      cases hl : l.mapM f with
      | none => simp [hfa, hl] at h
      | some bs =>
        simp only [hfa, hl, bind, Option.bind, pure, Option.some.injEq] at h
        subst h
        obtain ⟨hlen, hget⟩ := mapM_some f l bs hl
        refine ⟨by simp [hlen], fun i b' hb' => ?_⟩
        cases i with
        | zero =>
          simp only [List.getElem?_cons_zero, Option.some.injEq] at hb'
          subst hb'
          exact ⟨a, rfl, hfa⟩
        | succ i =>
          simp only [List.getElem?_cons_succ] at hb' ⊢
          exact hget i b' hb'

theorem mapM_some_mem {α β : Type} {f : α → Option β} {l : List α} {l' : List β} (h : l.mapM f = some l') {b : β}
    (hb : b ∈ l') : ∃ a ∈ l, f a = some b := by
  obtain ⟨i, hi⟩ := List.mem_iff_getElem?.1 hb
  obtain ⟨a, ha, hf⟩ := (mapM_some f l l' h).2 i b hi
  exact ⟨a, List.mem_of_getElem? ha, hf⟩

theorem mapM_some_map {α β γ : Type} {f : α → Option β} (g : β → γ) (k : α → γ) (hgk : ∀ a b, f a = some b → g b = k a) :
    ∀ (l : List α) (l' : List β), l.mapM f = some l' → l'.map g = l.map k
  | [], l', h => by
    simp only [List.mapM_nil, pure, Option.some.injEq] at h
    subst h; rfl
  | a :: l, l', h => by
    rw [List.mapM_cons] at h
    cases hfa : f a with
    | none => simp [hfa] at h
    | some b =>
      cases hl : l.mapM f with
      | none => simp [hfa, hl] at h
      | some bs =>
        simp only [hfa, hl, bind, Option.bind, pure, Option.some.injEq] at h
        subst h
        simp only [List.map_cons, hgk a b hfa, mapM_some_map g k hgk l bs hl]

/-! ### expressions -/

theorem holds_anyNode : ∀ e, holds anyNode e = true
  | .leaf l => by rw [holds_leaf]; rfl
  | .app op args => by rw [holds_app]; exact ⟨rfl, fun e _ => holds_anyNode e⟩
  | .quant q vs b => by rw [holds_quant]; exact ⟨rfl, holds_anyNode b⟩

theorem anyNode_consts : anyNode.Consts := ⟨fun _ => rfl, fun _ => rfl, fun _ => rfl⟩

/-- the expanded expression has no quantifier -/
theorem quantFree_removeQuantifiers (P : Problem) (e : Expr) : quantFree (removeQuantifiers P e) = true :=
  holds_removeQuantifiers anyNode_consts P (fun _ _ _ => holds_anyNode _) (fun _ => rfl) (fun _ => rfl) e
    (holds_anyNode e)

/-- the expanded expression only mentions what was declared -/
theorem wfExpr_removeQuantifiers (P : Problem) (ps : List (String × Ty)) {e : Expr}
    (h : wfExpr (declsOf P) ps e = true) : wfExpr (declsOf P) ps (removeQuantifiers P e) = true :=
  holds_of_noQuant _ (holds_removeQuantifiers (wfNode_consts _ _) P (wfNode_objs P ps) (wfNode_and _ _)
    (wfNode_or _ _) e h)

theorem isTrue_eq_tt {e : Expr} (h : e.isTrue = true) : e = Expr.tt := by
  unfold Expr.isTrue at h
  split at h
  · rfl
  · cases h

theorem quantFree_tt : quantFree Expr.tt = true := rfl

/-! ### the compiler -/

/-- the simplifier creates no quantifier -/
def SimpQF (simp : Expr → Expr) : Prop := ∀ e, quantFree e = true → quantFree (simp e) = true

theorem SimpQF_id : SimpQF id := fun _ h => h

theorem forall_expandEffect (P : Problem) (e : Effect) : ∀ x ∈ expandEffect P e, x.forall_ = [] := by
  unfold expandEffect
  split
  · rename_i h
    intro x hx
    simp only [List.mem_singleton] at hx
    subst hx
    exact List.isEmpty_iff.1 h
  · intro x hx
    obtain ⟨objs, _, rfl⟩ := List.mem_map.1 hx
    rfl

/-- the condition of an instance: quantifier-expanded and simplified when the effect is conditional -/
def qrCond (simp : Expr → Expr) (P : Problem) (y : Effect) : Expr :=
  if y.isConditional then simp (removeQuantifiers P y.cond) else y.cond

theorem qrCond_wf {simp : Expr → Expr} (hs : SimpWF simp) (P : Problem) (ps : List (String × Ty)) (y : Effect)
    (h : wfExpr (declsOf P) ps y.cond = true) : wfExpr (declsOf P) ps (qrCond simp P y) = true := by
  unfold qrCond
  split
  · exact hs _ _ _ (wfExpr_removeQuantifiers P ps h)
  · exact h

theorem qrCond_quantFree {simp : Expr → Expr} (hq : SimpQF simp) (P : Problem) (y : Effect) :
    quantFree (qrCond simp P y) = true := by
  unfold qrCond
  split
  · exact hq _ (quantFree_removeQuantifiers P _)
  · rename_i hc
    have : y.cond.isTrue = true := by simpa [Effect.isConditional] using hc
    rw [isTrue_eq_tt this]; rfl

theorem qrEffects_spec {simp : Expr → Expr} (P : Problem) (ps : List (String × Ty)) {effs : List Effect} {x : Effect}
    (hx : x ∈ qrEffects simp P effs) :
    (SimpWF simp → (∀ e ∈ effs, wfEffect (declsOf P) ps e = true) → wfEffect (declsOf P) ps x = true) ∧
    (SimpQF simp → x.forall_.isEmpty = true ∧ quantFree x.cond = true ∧ quantFree x.value = true) := by
  unfold qrEffects at hx
  obtain ⟨y, hy, hxy⟩ := List.mem_filterMap.1 hx
  obtain ⟨e, he, hye⟩ := List.mem_flatMap.1 hy
  have hxy' : (if (qrCond simp P y).isFalse then none
      else some ({ y with cond := qrCond simp P y, value := removeQuantifiers P y.value } : Effect)) = some x := hxy
  split at hxy'
  · cases hxy'
  · simp only [Option.some.injEq] at hxy'
    subst hxy'
    constructor
    · intro hs hw
      have hwy := (wfEffect_iff _ _ _).1 (wfEffect_expandEffect P ps e (hw e he) y hye)
      rw [wfEffect_iff]
      exact ⟨hwy.1, hwy.2.1, wfExpr_removeQuantifiers P ps hwy.2.2.1, qrCond_wf hs P ps y hwy.2.2.2⟩
    · intro hq
      refine ⟨?_, qrCond_quantFree hq P y, quantFree_removeQuantifiers P _⟩
      show y.forall_.isEmpty = true
      rw [forall_expandEffect P e y hye]; rfl

theorem qrAction_spec {simp : Expr → Expr} (P : Problem) {a a' : Action} (h : qrAction simp P a = some a') :
    a'.name = a.name ∧
    (SimpWF simp → wfAction (declsOf P) a = true → wfAction (declsOf P) a' = true) ∧
    (SimpQF simp → (∀ p ∈ a'.pre, quantFree p = true) ∧
      ∀ e ∈ a'.effs, e.forall_.isEmpty = true ∧ quantFree e.cond = true ∧ quantFree e.value = true) := by
  unfold qrAction at h
  simp only [] at h
  split at h
  · cases h
  · simp only [Option.some.injEq] at h
    subst h
    refine ⟨rfl, ?_, ?_⟩
    · intro hs ha
      rw [wfAction_iff] at ha ⊢
      refine ⟨ha.1, ?_, fun x hx => (qrEffects_spec P a.params hx).1 hs ha.2.2⟩
      intro x hx
      rcases mem_foldl_addPre _ _ x hx with hx | hx
      · cases hx
      · obtain ⟨p, hp, rfl⟩ := List.mem_map.1 hx
        exact wfExpr_removeQuantifiers P a.params (ha.2.1 p hp)
    · intro hq
      refine ⟨?_, fun x hx => (qrEffects_spec P a.params hx).2 hq⟩
      intro x hx
      rcases mem_foldl_addPre _ _ x hx with hx | hx
      · cases hx
      · obtain ⟨p, _, rfl⟩ := List.mem_map.1 hx
        exact quantFree_removeQuantifiers P p

theorem qrCompile_eq {simp : Expr → Expr} {P : Problem} {c : Compiled} (h : qrCompileN simp P = some c) :
    ∃ acts, P.actions.mapM (qrAction simp P) = some acts ∧
      c = { prob := { P with actions := acts,
                             goals := (P.goals.map (removeQuantifiers P)).foldl addGoal [],
                             traj := (P.traj.flatMap (fun tc => splitAnd (removeQuantifiers P tc))).map simp },
            back := (List.range acts.length).map some } := by
  unfold qrCompileN qrCompile at h
  split at h
  · cases h
  · rename_i acts hacts
    simp only [Option.some.injEq] at h
    exact ⟨acts, hacts, h.symm⟩

theorem qr_wellFormed {simp : Expr → Expr} (hs : SimpWF simp) {P : Problem} {c : Compiled} (hP : WellFormed P)
    (hm : P.metrics = []) (h : qrCompileN simp P = some c) : WellFormed c.prob := by
  obtain ⟨acts, hacts, rfl⟩ := qrCompile_eq h
  refine ⟨?_, hP.objects, hP.fluents, hP.init, ?_, ?_, ?_, ?_⟩
  · show (otherNames P ++ acts.map (·.name)).Nodup
    rw [mapM_some_map (·.name) (·.name) (fun a b hab => (qrAction_spec P hab).1) _ _ hacts]
    exact hP.names
  · intro a' ha'
    obtain ⟨a, ha, hf⟩ := mapM_some_mem hacts ha'
    exact (qrAction_spec P hf).2.1 hs (hP.actions a ha)
  · intro g hg
    rcases mem_foldl_addGoal _ _ g hg with hg | hg
    · cases hg
    · obtain ⟨g0, hg0, rfl⟩ := List.mem_map.1 hg
      exact wfExpr_removeQuantifiers P [] (hP.goals g0 hg0)
  · intro t ht
    obtain ⟨x, hx, rfl⟩ := List.mem_map.1 ht
    obtain ⟨tc, htc, hxt⟩ := List.mem_flatMap.1 hx
    exact hs _ _ _ (holds_splitAnd (wfExpr_removeQuantifiers P [] (hP.traj tc htc)) x hxt)
  · intro m hmm
    have : m ∈ P.metrics := hmm
    rw [hm] at this
    cases this

theorem qr_backOK {simp : Expr → Expr} {P : Problem} {c : Compiled} (h : qrCompileN simp P = some c) :
    backOK P.actions.length c.prob.actions c.back = true := by
  obtain ⟨acts, hacts, rfl⟩ := qrCompile_eq h
  rw [backOK_iff]
  refine ⟨by simp, ?_⟩
  intro b hb i hi
  subst hi
  simp only [List.mem_map, List.mem_range, Option.some.injEq] at hb
  obtain ⟨j, hj, rfl⟩ := hb
  have hlen := (mapM_some _ _ _ hacts).1
  omega

theorem qr_target {simp : Expr → Expr} (hq : SimpQF simp) {P : Problem} {c : Compiled}
    (h : qrCompileN simp P = some c) : noQuantifiers c.prob = true := by
  obtain ⟨acts, hacts, rfl⟩ := qrCompile_eq h
  simp only [noQuantifiers, Bool.and_eq_true, List.all_eq_true]
  refine ⟨⟨?_, ?_⟩, ?_⟩
  · intro a' ha'
    obtain ⟨a, _, hf⟩ := mapM_some_mem hacts ha'
    have := (qrAction_spec P hf).2.2 hq
    exact ⟨this.1, fun e he => ⟨⟨(this.2 e he).1, (this.2 e he).2.1⟩, (this.2 e he).2.2⟩⟩
  · intro g hg
    rcases mem_foldl_addGoal _ _ g hg with hg | hg
    · cases hg
    · obtain ⟨g0, _, rfl⟩ := List.mem_map.1 hg
      exact quantFree_removeQuantifiers P g0
  · intro t ht
    obtain ⟨x, hx, rfl⟩ := List.mem_map.1 ht
    obtain ⟨tc, _, hxt⟩ := List.mem_flatMap.1 hx
    exact hq _ (holds_splitAnd (quantFree_removeQuantifiers P tc) x hxt)

end UPVerif.Compile
