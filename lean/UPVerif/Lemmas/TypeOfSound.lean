import UPVerif.Lemmas.TypeOfLemmas
import Mathlib.Data.Rat.Defs
/-! Soundness of `typeOf` operator by operator, then by induction on expressions (for `Props/C15`). -/
namespace UPVerif
namespace TypeOf
open Ext

/-! ### integral rationals -/
theorem isInt_iff {q : Rat} : q.den = 1 ↔ ∃ z : Int, q = (z : Rat) := by
  constructor
  · intro h; exact ⟨q.num, ((Rat.den_eq_one_iff q).mp h).symm⟩
  · rintro ⟨z, rfl⟩; simp

theorem isInt_add {a b : Rat} (ha : a.den = 1) (hb : b.den = 1) : (a + b).den = 1 := by
  obtain ⟨x, rfl⟩ := isInt_iff.mp ha
  obtain ⟨y, rfl⟩ := isInt_iff.mp hb
  exact isInt_iff.mpr ⟨x + y, by push_cast; rfl⟩
theorem isInt_sub {a b : Rat} (ha : a.den = 1) (hb : b.den = 1) : (a - b).den = 1 := by
  obtain ⟨x, rfl⟩ := isInt_iff.mp ha
  obtain ⟨y, rfl⟩ := isInt_iff.mp hb
  exact isInt_iff.mpr ⟨x - y, by push_cast; rfl⟩
theorem isInt_mul {a b : Rat} (ha : a.den = 1) (hb : b.den = 1) : (a * b).den = 1 := by
  obtain ⟨x, rfl⟩ := isInt_iff.mp ha
  obtain ⟨y, rfl⟩ := isInt_iff.mp hb
  exact isInt_iff.mpr ⟨x * y, by push_cast; rfl⟩

theorem num_cast_of_isInt {q : Rat} (h : q.den = 1) : ((q.num : Int) : Rat) = q :=
  (Rat.den_eq_one_iff q).mp h

/-! ### numeric membership -/
structure NumIn (q : Rat) (t : Ty) : Prop where
  lo : LowerOK t.lb q
  hi : UpperOK t.ub q
  int : t.isReal = false → q.den = 1

variable {E : TypeEnv} {O : String → Option String}

theorem inTy_num {v : Val} {t : Ty} (h : inTy E O v t = true) (ht : t.isNum = true) :
    ∃ q, v = .n q ∧ NumIn q t := by
  cases t with
  | bool => simp [Ty.isNum] at ht
  | time => simp [Ty.isNum] at ht
  | user _ => simp [Ty.isNum] at ht
  | int l u =>
    cases v with
    | b _ => simp [inTy] at h
    | o _ => simp [inTy] at h
    | n q =>
      simp only [inTy, Bool.and_eq_true, beq_iff_eq] at h
      obtain ⟨⟨hd, hl⟩, hu⟩ := h
      refine ⟨q, rfl, ⟨?_, ?_, fun _ => hd⟩⟩
      · intro x hx
        cases l with
        | none => simp [Ty.lb] at hx
        | some z =>
          simp [Ty.lb] at hx; subst hx
          have : z ≤ q.num := by simpa using hl
          rw [← num_cast_of_isInt hd]; exact_mod_cast this
      · intro x hx
        cases u with
        | none => simp [Ty.ub] at hx
        | some z =>
          simp [Ty.ub] at hx; subst hx
          have : q.num ≤ z := by simpa using hu
          rw [← num_cast_of_isInt hd]; exact_mod_cast this
  | real l u =>
    cases v with
    | b _ => simp [inTy] at h
    | o _ => simp [inTy] at h
    | n q =>
      simp only [inTy, Bool.and_eq_true] at h
      obtain ⟨hl, hu⟩ := h
      refine ⟨q, rfl, ⟨?_, ?_, fun h => by simp [Ty.isReal] at h⟩⟩
      · intro x hx
        simp [Ty.lb] at hx; subst hx; simpa using hl
      · intro x hx
        simp [Ty.ub] at hx; subst hx; simpa using hu

theorem inTy_real {q : Rat} {l u : Option Rat} (h1 : LowerOK l q) (h2 : UpperOK u q) :
    inTy E O (.n q) (.real l u) = true := by
  simp only [inTy, Bool.and_eq_true]
  constructor
  · cases l with
    | none => rfl
    | some x => simpa using h1 x rfl
  · cases u with
    | none => rfl
    | some x => simpa using h2 x rfl

theorem toIntBound_eq {l : Option Rat} {li : Option Int} (h : toIntBound l = some li) :
    li.map (fun z => (z : Rat)) = l := by
  cases l with
  | none => simp [toIntBound] at h; subst h; rfl
  | some r =>
    simp only [toIntBound] at h
    split at h
    · rename_i hd
      simp at h; subst h
      simp [num_cast_of_isInt hd]
    · simp at h

theorem inTy_int {q : Rat} {li ui : Option Int} (hd : q.den = 1)
    (h1 : LowerOK (li.map (fun z => (z : Rat))) q) (h2 : UpperOK (ui.map (fun z => (z : Rat))) q) :
    inTy E O (.n q) (.int li ui) = true := by
  simp only [inTy, Bool.and_eq_true, beq_iff_eq]
  refine ⟨⟨hd, ?_⟩, ?_⟩
  · cases li with
    | none => rfl
    | some z =>
      have := h1 z rfl
      rw [← num_cast_of_isInt hd] at this
      simpa using (by exact_mod_cast this : z ≤ q.num)
  · cases ui with
    | none => rfl
    | some z =>
      have := h2 z rfl
      rw [← num_cast_of_isInt hd] at this
      simpa using (by exact_mod_cast this : q.num ≤ z)

/-- the tail shared by walk_plus/minus/times -/
theorem mkNum_sound {hasReal : Bool} {l u : Option Rat} {t : Ty} {q : Rat}
    (h : mkNum hasReal l u = some t) (h1 : LowerOK l q) (h2 : UpperOK u q)
    (hi : hasReal = false → q.den = 1) : inTy E O (.n q) t = true := by
  unfold mkNum at h
  split at h
  · simp at h; subst h; exact inTy_real h1 h2
  · rename_i hr
    split at h
    · rename_i li ui hl hu
      simp at h; subst h
      have hl' := toIntBound_eq hl
      have hu' := toIntBound_eq hu
      exact inTy_int (hi (by simpa using hr)) (hl' ▸ h1) (hu' ▸ h2)
    · simp at h

/-! ### lists of values against lists of types -/
/-- `v` inhabits `t` -/
abbrev VT (E : TypeEnv) (O : String → Option String) (v : Val) (t : Ty) : Prop := inTy E O v t = true

theorem allNums_of {vs : List Val} {ts : List Ty} (h : List.Forall₂ (VT E O) vs ts)
    (hn : ts.all Ty.isNum = true) : ∃ qs, allNums vs = some qs ∧ List.Forall₂ NumIn qs ts := by
  induction h with
  | nil => exact ⟨[], rfl, .nil⟩
  | cons hv _ ih =>
    simp only [List.all_cons, Bool.and_eq_true] at hn
    obtain ⟨q, rfl, hq⟩ := inTy_num hv hn.1
    obtain ⟨qs, e, hqs⟩ := ih hn.2
    exact ⟨q :: qs, by simp [allNums, e], .cons hq hqs⟩

theorem not_inTy_time (v : Val) : inTy E O v .time = false := by
  cases v <;> simp [inTy]

theorem isTime_eq {t : Ty} (h : t.isTime = true) : t = .time := by
  cases t <;> simp [Ty.isTime] at h
  rfl

theorem no_time {vs : List Val} {ts : List Ty} (h : List.Forall₂ (VT E O) vs ts)
    (ht : ts.any Ty.isTime = true) : False := by
  induction h with
  | nil => simp at ht
  | @cons a t l1 l2 hv _ ih =>
    simp only [List.any_cons, Bool.or_eq_true] at ht
    rcases ht with ht | ht
    · have := isTime_eq ht
      subst this
      simp [VT, not_inTy_time] at hv
    · exact ih ht

theorem all_isNum_of {ts : List Ty} (h1 : ts.all Ty.isNumOrTime = true) (h2 : ¬ ts.any Ty.isTime = true) :
    ts.all Ty.isNum = true := by
  induction ts with
  | nil => rfl
  | cons t ts ih =>
    simp only [List.all_cons, List.any_cons, Bool.and_eq_true, Bool.or_eq_true, not_or] at *
    refine ⟨?_, ih h1.2 h2.2⟩
    have := h1.1
    simp only [Ty.isNumOrTime, Bool.or_eq_true] at this
    rcases this with h | h
    · exact h
    · exact absurd h h2.1

theorem lower_of_numIn {qs : List Rat} {ts : List Ty} (h : List.Forall₂ NumIn qs ts) :
    List.Forall₂ LowerOK (ts.map Ty.lb) qs := by
  induction h with
  | nil => exact .nil
  | cons hq _ ih => exact .cons hq.lo ih
theorem upper_of_numIn {qs : List Rat} {ts : List Ty} (h : List.Forall₂ NumIn qs ts) :
    List.Forall₂ UpperOK (ts.map Ty.ub) qs := by
  induction h with
  | nil => exact .nil
  | cons hq _ ih => exact .cons hq.hi ih
theorem within_of_numIn {qs : List Rat} {ts : List Ty} (h : List.Forall₂ NumIn qs ts) :
    List.Forall₂ Within (ts.map extInterval) qs := by
  induction h with
  | nil => exact .nil
  | cons hq _ ih => exact .cons (within_ext hq.lo hq.hi) ih

theorem foldl_add_isInt {qs : List Rat} {ts : List Ty} (h : List.Forall₂ NumIn qs ts)
    (hr : ts.any Ty.isReal = false) : ∀ a : Rat, a.den = 1 → (qs.foldl (· + ·) a).den = 1 := by
  induction h with
  | nil => intro a ha; exact ha
  | cons hq _ ih =>
    simp only [List.any_cons, Bool.or_eq_false_iff] at hr
    intro a ha
    exact ih hr.2 _ (isInt_add ha (hq.int hr.1))
theorem foldl_mul_isInt {qs : List Rat} {ts : List Ty} (h : List.Forall₂ NumIn qs ts)
    (hr : ts.any Ty.isReal = false) : ∀ a : Rat, a.den = 1 → (qs.foldl (· * ·) a).den = 1 := by
  induction h with
  | nil => intro a ha; exact ha
  | cons hq _ ih =>
    simp only [List.any_cons, Bool.or_eq_false_iff] at hr
    intro a ha
    exact ih hr.2 _ (isInt_mul ha (hq.int hr.1))

theorem lowerOK_none (q : Rat) : LowerOK none q := by intro x hx; cases hx
theorem upperOK_none (q : Rat) : UpperOK none q := by intro x hx; cases hx

/-! ### operator by operator -/
variable {ι : Interp}

/-- `walk_plus` -/
theorem typePlus_sound {vs : List Val} {ts : List Ty} {t : Ty} {v : Val}
    (hvt : List.Forall₂ (VT E O) vs ts) (h : typePlus ts = some t)
    (hd : denOp ι .plus vs = some v) : inTy E O v t = true := by
  unfold typePlus at h
  split at h
  · simp at h
  · rename_i hall
    split at h
    · rename_i htime; exact (no_time hvt htime).elim
    · rename_i htime
      have hnum := all_isNum_of (by simpa using hall) htime
      obtain ⟨qs, hq, hqs⟩ := allNums_of hvt hnum
      simp only [denOp, hq, Option.map_some, Option.some.injEq] at hd
      subst hd
      refine mkNum_sound h ?_ ?_ ?_
      · exact foldl_addBound_lower _ _ (lower_of_numIn hqs) (some 0) 0
          (by intro x hx; simp at hx; subst hx; exact le_refl _)
      · exact foldl_addBound_upper _ _ (upper_of_numIn hqs) (some 0) 0
          (by intro x hx; simp at hx; subst hx; exact le_refl _)
      · intro hr; exact foldl_add_isInt hqs hr 0 rfl

theorem subBound_lower {a b : Option Rat} {x y : Rat} (ha : LowerOK a x) (hb : UpperOK b y) :
    LowerOK (subBound a b) (x - y) := by
  intro z hz
  cases a <;> cases b <;> simp [subBound] at hz
  subst hz
  have := ha _ rfl
  have := hb _ rfl
  linarith
theorem subBound_upper {a b : Option Rat} {x y : Rat} (ha : UpperOK a x) (hb : LowerOK b y) :
    UpperOK (subBound a b) (x - y) := by
  intro z hz
  cases a <;> cases b <;> simp [subBound] at hz
  subst hz
  have := ha _ rfl
  have := hb _ rfl
  linarith

/-- two values against two types -/
theorem forall₂_pair {vs : List Val} {l r : Ty} (h : List.Forall₂ (VT E O) vs [l, r]) :
    ∃ a b, vs = [a, b] ∧ VT E O a l ∧ VT E O b r := by
  cases h with
  | cons h1 h' =>
    cases h' with
    | cons h2 h'' =>
      cases h''
      exact ⟨_, _, rfl, h1, h2⟩

/-- `walk_minus` -/
theorem typeMinus_sound {vs : List Val} {ts : List Ty} {t : Ty} {v : Val}
    (hvt : List.Forall₂ (VT E O) vs ts) (h : typeMinus ts = some t)
    (hd : denOp ι .minus vs = some v) : inTy E O v t = true := by
  unfold typeMinus at h
  split at h
  · rename_i l r
    split at h
    · simp at h
    · rename_i hall
      split at h
      · rename_i htime; exact (no_time hvt htime).elim
      · rename_i htime
        have hnum := all_isNum_of (by simpa using hall) htime
        simp only [List.all_cons, List.all_nil, Bool.and_true, Bool.and_eq_true] at hnum
        obtain ⟨a, b, rfl, ha, hb⟩ := forall₂_pair hvt
        obtain ⟨x, rfl, hx⟩ := inTy_num ha hnum.1
        obtain ⟨y, rfl, hy⟩ := inTy_num hb hnum.2
        simp only [denOp, Option.some.injEq] at hd
        subst hd
        refine mkNum_sound h (subBound_lower hx.lo hy.hi) (subBound_upper hx.hi hy.lo) ?_
        intro hr
        simp only [List.any_cons, List.any_nil, Bool.or_false, Bool.or_eq_false_iff] at hr
        exact isInt_sub (hx.int hr.1) (hy.int hr.2)
  · simp at h

/-- `walk_times` -/
theorem typeTimes_sound {vs : List Val} {ts : List Ty} {t : Ty} {v : Val}
    (hvt : List.Forall₂ (VT E O) vs ts) (h : typeTimes ts = some t)
    (hd : denOp ι .times vs = some v) : inTy E O v t = true := by
  unfold typeTimes at h
  split at h
  · simp at h
  · rename_i hall
    have hnum : ts.all Ty.isNum = true := by simpa using hall
    obtain ⟨qs, hq, hqs⟩ := allNums_of hvt hnum
    simp only [denOp, hq, Option.map_some, Option.some.injEq] at hd
    subst hd
    cases hqs with
    | nil =>
      simp only [List.map_nil] at h
      exact mkNum_sound h (lowerOK_none _) (upperOK_none _) (fun _ => rfl)
    | cons hq0 hqs' =>
      rename_i q0 t0 qs' ts'
      simp only [List.map_cons] at h
      have hw := foldl_mulInterval_sound _ _ (within_of_numIn hqs') _ _ (within_ext hq0.lo hq0.hi)
      have hval : List.foldl (· * ·) 1 (q0 :: qs') = List.foldl (· * ·) q0 qs' := by
        simp [List.foldl_cons]
      rw [hval]
      refine mkNum_sound h (lowerOK_toLower hw.1) (upperOK_toUpper hw.2) ?_
      intro hr
      have hr' := hr
      simp only [List.any_cons, Bool.or_eq_false_iff] at hr'
      exact foldl_mul_isInt hqs' hr'.2 _ (hq0.int hr'.1)

/-- `walk_div`: division by a non-zero constant divides the bounds exactly -/
theorem typeDiv_sound {vs : List Val} {ts : List Ty} {t : Ty} {v : Val}
    (hvt : List.Forall₂ (VT E O) vs ts) (h : typeDiv ts = some t)
    (hd : denOp ι .div vs = some v) : inTy E O v t = true := by
  unfold typeDiv at h
  split at h
  · rename_i l r
    split at h
    · simp at h
    · rename_i hnum
      have hnum' : l.isNum = true ∧ r.isNum = true := by simpa using hnum
      obtain ⟨a, b, rfl, ha, hb⟩ := forall₂_pair hvt
      obtain ⟨x, rfl, hx⟩ := inTy_num ha hnum'.1
      obtain ⟨y, rfl, hy⟩ := inTy_num hb hnum'.2
      simp only [denOp] at hd
      split at hd
      · simp at hd
      · rename_i hy0
        simp only [Option.some.injEq] at hd
        subst hd
        split at h
        · rename_i d hlb
          split at h
          · rename_i hub
            have hub' : r.ub = some d := by simpa using hub
            have hyd : y = d := le_antisymm (hy.hi _ hub') (hy.lo _ hlb)
            subst hyd
            split at h
            · rename_i hz; exact absurd (by simpa using hz) hy0
            · split at h
              · rename_i hneg
                simp only [Option.some.injEq] at h; subst h
                have hinv : y⁻¹ ≤ 0 := inv_nonpos.mpr (le_of_lt hneg)
                refine inTy_real ?_ ?_
                · intro z hz
                  cases hu : l.ub with
                  | none => simp [hu] at hz
                  | some u =>
                    simp [hu] at hz; subst hz
                    have := hx.hi _ hu
                    rw [div_eq_mul_inv, div_eq_mul_inv]
                    exact mul_le_mul_of_nonpos_right this hinv
                · intro z hz
                  cases hl : l.lb with
                  | none => simp [hl] at hz
                  | some u =>
                    simp [hl] at hz; subst hz
                    have := hx.lo _ hl
                    rw [div_eq_mul_inv, div_eq_mul_inv]
                    exact mul_le_mul_of_nonpos_right this hinv
              · rename_i hneg
                simp only [Option.some.injEq] at h; subst h
                have hinv : 0 ≤ y⁻¹ := inv_nonneg.mpr (le_of_not_gt hneg)
                refine inTy_real ?_ ?_
                · intro z hz
                  cases hl : l.lb with
                  | none => simp [hl] at hz
                  | some u =>
                    simp [hl] at hz; subst hz
                    have := hx.lo _ hl
                    rw [div_eq_mul_inv, div_eq_mul_inv]
                    exact mul_le_mul_of_nonneg_right this hinv
                · intro z hz
                  cases hu : l.ub with
                  | none => simp [hu] at hz
                  | some u =>
                    simp [hu] at hz; subst hz
                    have := hx.hi _ hu
                    rw [div_eq_mul_inv, div_eq_mul_inv]
                    exact mul_le_mul_of_nonneg_right this hinv
          · simp only [Option.some.injEq] at h; subst h
            exact inTy_real (lowerOK_none _) (upperOK_none _)
        · simp only [Option.some.injEq] at h; subst h
          exact inTy_real (lowerOK_none _) (upperOK_none _)
  · simp at h

/-! ### operators whose result is Boolean, applications, and the operators without denotation -/
theorem bool_cases (x : Bool) : Val.b x = Val.b false ∨ Val.b x = Val.b true := by
  cases x <;> simp

theorem denOp_bool {op : Op} {vs : List Val} {v : Val}
    (hop : op = .and ∨ op = .or ∨ op = .not ∨ op = .implies ∨ op = .iff ∨ op = .le ∨ op = .lt ∨ op = .eq)
    (hd : denOp ι op vs = some v) : ∃ b, v = .b b := by
  unfold denOp at hd
  split at hd <;> simp_all
  all_goals (obtain ⟨a, _, rfl⟩ := hd; exact bool_cases _)

theorem denOp_none {op : Op} {vs : List Val}
    (hop : (∃ a, op = .dot a) ∨ op = .always ∨ op = .sometime ∨ op = .atMostOnce ∨
      op = .sometimeBefore ∨ op = .sometimeAfter) : denOp ι op vs = none := by
  unfold denOp
  split <;> simp_all

theorem inTy_bool (b : Bool) : inTy E O (.b b) .bool = true := rfl

theorem typeBoolToBool_eq {ts : List Ty} {t : Ty} (h : typeBoolToBool ts = some t) : t = .bool := by
  unfold typeBoolToBool at h; split at h <;> simp at h; exact h.symm
theorem typeRel_eq {ts : List Ty} {t : Ty} (h : typeRel ts = some t) : t = .bool := by
  unfold typeRel at h; split at h <;> simp at h; exact h.symm
theorem typeEquals_eq {ts : List Ty} {t : Ty} (h : typeEquals E ts = some t) : t = .bool := by
  unfold typeEquals at h
  split at h
  · split at h
    · simp at h
    · split at h
      · split at h
        · split at h <;> simp at h; exact h.symm
        · simp at h; exact h.symm
      · split at h <;> simp at h; exact h.symm
  · simp at h
theorem typeApply_eq {sig : List Ty} {ret : Ty} {ts : List Ty} {t : Ty}
    (h : typeApply E sig ret ts = some t) : t = ret := by
  unfold typeApply at h
  split at h
  · simp at h
  · split at h <;> simp at h; exact h.symm

/-- `typeOp` is sound: the value of an operator node lies in the type inferred from its children's
    types, as soon as the children's values lie in the children's types -/
theorem typeOp_sound (hI : InterpOK E O ι) {op : Op} {args : List Expr} {vs : List Val}
    {ts : List Ty} {t : Ty} {v : Val}
    (hvt : List.Forall₂ (VT E O) vs ts) (h : typeOp E op args ts = some t)
    (hd : denOp ι op vs = some v) : inTy E O v t = true := by
  cases op with
  | and | or | not | implies | iff =>
    obtain ⟨b, rfl⟩ := denOp_bool (by simp) hd
    rw [typeBoolToBool_eq h]; rfl
  | le | lt =>
    obtain ⟨b, rfl⟩ := denOp_bool (by simp) hd
    rw [typeRel_eq h]; rfl
  | eq =>
    obtain ⟨b, rfl⟩ := denOp_bool (by simp) hd
    rw [typeEquals_eq h]; rfl
  | fluent f =>
    rw [typeApply_eq h]
    exact hI.fl f vs v (by simpa [denOp] using hd)
  | ifun g =>
    rw [typeApply_eq h]
    exact hI.fn g vs v (by simpa [denOp] using hd)
  | dot a => rw [denOp_none (Or.inl ⟨a, rfl⟩)] at hd; cases hd
  | always | sometime | atMostOnce | sometimeBefore | sometimeAfter =>
    rw [denOp_none (by simp)] at hd; cases hd
  | plus => exact typePlus_sound hvt h hd
  | minus => exact typeMinus_sound hvt h hd
  | times => exact typeTimes_sound hvt h hd
  | div => exact typeDiv_sound hvt h hd

/-! ### leaves -/
theorem isSubtype_refl (E : TypeEnv) (t : String) : E.isSubtype t t = true := by
  unfold TypeEnv.isSubtype
  cases E.fathers.length <;> simp [TypeEnv.isSubtypeFuel]

theorem typeLeaf_sound {ρ : VEnv} (hρ : VEnvOK E O ρ) {l : Leaf} {v : Val}
    (hl : LeafOK E O ι l) (hd : denLeaf ι ρ l = some v) : inTy E O v (typeLeaf l) = true := by
  cases l with
  | boolC b => simp [denLeaf] at hd; subst hd; rfl
  | intC z => simp [denLeaf] at hd; subst hd; simp [typeLeaf, inTy]
  | realC r => simp [denLeaf] at hd; subst hd; simp [typeLeaf, inTy]
  | obj n t =>
    simp [denLeaf] at hd; subst hd
    simp only [LeafOK] at hl
    simp [typeLeaf, inTy, hl, isSubtype_refl]
  | param n t => exact hl v (by simpa [denLeaf] using hd)
  | var x => exact hρ x v (by simpa [denLeaf] using hd)
  | timing s => simp [denLeaf] at hd
  | present s => simp [denLeaf] at hd

/-! ### the induction over expressions -/
mutual
theorem sound_aux {ρ : VEnv} (hI : InterpOK E O ι) (hρ : VEnvOK E O ρ) :
    ∀ (e : Expr) (t : Ty) (v : Val), typeOf E e = some t →
      (∀ l, l ∈ e.leaves → LeafOK E O ι l) → den ι ρ e = some v → inTy E O v t = true
  | .leaf l, t, v, ht, hl, hd => by
    simp only [typeOf, Option.some.injEq] at ht
    subst ht
    exact typeLeaf_sound hρ (hl l (by simp [Expr.leaves])) (by simpa [den] using hd)
  | .app op args, t, v, ht, hl, hd => by
    simp only [typeOf] at ht
    split at ht
    · rename_i ts hts
      simp only [den] at hd
      cases hvs : denList ι ρ args with
      | none => simp [hvs] at hd
      | some vs =>
        simp only [hvs, Option.bind_some] at hd
        have hl' : ∀ l, l ∈ Expr.leavesList args → LeafOK E O ι l := by
          intro l hm; exact hl l (by simpa [Expr.leaves] using hm)
        exact typeOp_sound hI (soundList_aux hI hρ args ts vs hts hl' hvs) ht hd
    · simp at ht
  | .quant q xs body, t, v, ht, _, hd => by
    simp only [typeOf] at ht
    split at ht
    · have := typeBoolToBool_eq ht
      subst this
      simp only [den] at hd
      split at hd
      · simp at hd
      · simp only [Option.some.injEq] at hd; subst hd; rfl
    · simp at ht
theorem soundList_aux {ρ : VEnv} (hI : InterpOK E O ι) (hρ : VEnvOK E O ρ) :
    ∀ (es : List Expr) (ts : List Ty) (vs : List Val), typeOfList E es = some ts →
      (∀ l, l ∈ Expr.leavesList es → LeafOK E O ι l) → denList ι ρ es = some vs →
      List.Forall₂ (VT E O) vs ts
  | [], ts, vs, ht, _, hd => by
    simp only [typeOfList, Option.some.injEq] at ht
    simp only [denList, Option.some.injEq] at hd
    subst ht; subst hd; exact .nil
  | e :: es, ts, vs, ht, hl, hd => by
    simp only [typeOfList] at ht
    simp only [denList] at hd
    split at ht
    · rename_i t ts' hte htes
      split at hd
      · rename_i v vs' hve hves
        simp only [Option.some.injEq] at ht hd
        subst ht; subst hd
        refine .cons ?_ ?_
        · exact sound_aux hI hρ e t v hte (fun l hm => hl l (by simp [Expr.leavesList, hm])) hve
        · exact soundList_aux hI hρ es ts' vs' htes (fun l hm => hl l (by simp [Expr.leavesList, hm])) hves
      · simp at hd
    · simp at ht
end

/-! ### symmetry of `walk_equals` -/
theorem commonAncestor_comm (E : TypeEnv) (a b : String) :
    E.commonAncestor a b = E.commonAncestor b a := by
  unfold TypeEnv.commonAncestor
  rw [Bool.eq_iff_iff]
  simp only [List.any_eq_true, List.contains_iff_mem]
  constructor <;> rintro ⟨x, h1, h2⟩ <;> exact ⟨x, h2, h1⟩

theorem typeEquals_symm (E : TypeEnv) (a b : Ty) :
    (typeEquals E [a, b]).isSome = (typeEquals E [b, a]).isSome := by
  cases a <;> cases b <;> simp [typeEquals, Ty.isBool, Ty.isNumOrTime, Ty.isNum, Ty.isTime]
  rename_i x y
  rw [commonAncestor_comm E y x]
  by_cases hxy : x = y
  · subst hxy; simp
  · have hyx : ¬ y = x := fun h => hxy h.symm
    simp only [hxy, hyx, not_false_eq_true, true_and]
    cases isCompatible E (Ty.user x) (Ty.user y) <;> cases isCompatible E (Ty.user y) (Ty.user x) <;> simp

end TypeOf
end UPVerif
