import UPVerif.Core.Compile.Hyps
import UPVerif.Lemmas.CompileTS
import UPVerif.Lemmas.CompileAgree
import UPVerif.Lemmas.SimplifyQSem
/-!
QuantifiersRemover, part 1: the simulator's evaluation (`Core/Eval.lean`: strict, but with early exit inside
quantifiers) extends the reference denotation (`Core/Den.lean`: strict everywhere) — wherever an expression has a
value in the reference semantics, the state evaluator computes that value.
-/
namespace UPVerif.Compile
open UPVerif UPVerif.Expr UPVerif.Sim UPVerif.Spec UPVerif.Simp

/-- the interpretation an evaluation context stands for: fluents read from the state, quantifiers over the
    problem's objects, no action parameters -/
def ctxInterp (c : EvalCtx) : Interp where
  fl := fun f vs => c.get (f, vs)
  fn := c.fn
  par := fun _ => none
  dom := c.domain

theorem qAssignments_eq_rev (c : EvalCtx) : ∀ vs : List Var,
    qAssignments c vs = (assignments (ctxInterp c) vs).map List.reverse
  | [] => rfl
  | v :: vs => by
    simp only [qAssignments, assignments, qAssignments_eq_rev c vs, List.map_flatMap, List.map_map]
    show List.flatMap _ (c.domain v.ty) = List.flatMap _ (c.domain v.ty)
    congr 1
    funext x
    apply List.map_congr_left
    intro a _
    simp [Function.comp]

theorem venv_get_reverse : ∀ (a : VEnv) (x : Var), (a.map Prod.fst).Nodup → VEnv.get a.reverse x = VEnv.get a x
  | [], _, _ => rfl
  | p :: a, x, h => by
    obtain ⟨y, w⟩ := p
    simp only [List.map_cons, List.nodup_cons] at h
    rw [List.reverse_cons, VEnv.get_append, venv_get_reverse a x h.2, VEnv.get_cons, VEnv.get_cons, VEnv.get_nil]
    by_cases hy : y = x
    · subst hy
      rw [VEnv.get_eq_none_of_not_mem a y h.1]
      simp
    · simp [hy]

theorem eval_congr_env (c : EvalCtx) :
    (∀ e ρ₁ ρ₂, (∀ x, VEnv.get ρ₁ x = VEnv.get ρ₂ x) → eval c ρ₁ e = eval c ρ₂ e) ∧
    (∀ es ρ₁ ρ₂, (∀ x, VEnv.get ρ₁ x = VEnv.get ρ₂ x) → evalList c ρ₁ es = evalList c ρ₂ es) := by
  have key : ∀ n, (∀ e, e.size ≤ n → ∀ ρ₁ ρ₂, (∀ x, VEnv.get ρ₁ x = VEnv.get ρ₂ x) → eval c ρ₁ e = eval c ρ₂ e) ∧
      (∀ es, Expr.sizeList es ≤ n → ∀ ρ₁ ρ₂, (∀ x, VEnv.get ρ₁ x = VEnv.get ρ₂ x) →
        evalList c ρ₁ es = evalList c ρ₂ es) := by
    intro n
    induction n with
    | zero =>
      constructor
      · intro e he; cases e <;> simp [Expr.size] at he
      · intro es he ρ₁ ρ₂ _
        cases es with
        | nil => rfl
        | cons x xs =>
          simp [Expr.sizeList] at he
          cases x <;> simp [Expr.size] at he
    | succ n ih =>
      have hexpr : ∀ e, e.size ≤ n + 1 → ∀ ρ₁ ρ₂, (∀ x, VEnv.get ρ₁ x = VEnv.get ρ₂ x) →
          eval c ρ₁ e = eval c ρ₂ e := by
        intro e he ρ₁ ρ₂ hρ
        cases e with
        | leaf l =>
          cases l <;> simp only [eval, evalLeaf]
          rw [hρ]
        | app op args =>
          simp only [Expr.size] at he
          simp only [eval]
          rw [ih.2 args (by omega) ρ₁ ρ₂ hρ]
        | quant q vs b =>
          simp only [Expr.size] at he
          simp only [eval]
          have hb : ∀ a, eval c (a ++ ρ₁) b = eval c (a ++ ρ₂) b := by
            intro a
            apply ih.1 b (by omega)
            intro x
            rw [VEnv.get_append, VEnv.get_append, hρ]
          cases q with
          | ex => exact existsLoop_congr hb _
          | all => exact forallLoop_congr hb _
      refine ⟨hexpr, ?_⟩
      intro es he ρ₁ ρ₂ hρ
      cases es with
      | nil => rfl
      | cons x xs =>
        simp only [Expr.sizeList] at he
        have hx : 1 ≤ x.size := by cases x <;> simp [Expr.size] <;> omega
        simp only [evalList]
        rw [ih.2 xs (by omega) ρ₁ ρ₂ hρ, hexpr x (by omega) ρ₁ ρ₂ hρ]
  exact ⟨fun e ρ₁ ρ₂ h => (key e.size).1 e (Nat.le_refl _) ρ₁ ρ₂ h,
         fun es ρ₁ ρ₂ h => (key (Expr.sizeList es)).2 es (Nat.le_refl _) ρ₁ ρ₂ h⟩

/-! ### the quantifier loops on bodies that always evaluate to a Boolean -/

theorem existsLoop_spec {f : VEnv → Except EvalErr Val} : ∀ (l : List VEnv),
    (∀ a ∈ l, ∃ x, f a = .ok (.b x)) →
    ∃ r, existsLoop f l = .ok (.b r) ∧ (r = true ↔ ∃ a, a ∈ l ∧ f a = .ok (.b true))
  | [], _ => ⟨false, rfl, by simp⟩
  | a :: as, h => by
    obtain ⟨x, hx⟩ := h a (List.mem_cons_self ..)
    obtain ⟨r, hr, hiff⟩ := existsLoop_spec as (fun b hb => h b (List.mem_cons_of_mem _ hb))
    cases x with
    | true =>
      refine ⟨true, by simp [existsLoop, hx], ?_⟩
      simp only [true_iff]
      exact ⟨a, List.mem_cons_self .., hx⟩
    | false =>
      refine ⟨r, by simp [existsLoop, hx, hr], ?_⟩
      rw [hiff]
      constructor
      · rintro ⟨b, hb, hfb⟩; exact ⟨b, List.mem_cons_of_mem _ hb, hfb⟩
      · rintro ⟨b, hb, hfb⟩
        rcases List.mem_cons.1 hb with rfl | hb
        · rw [hx] at hfb; cases hfb
        · exact ⟨b, hb, hfb⟩

theorem forallLoop_spec {f : VEnv → Except EvalErr Val} : ∀ (l : List VEnv),
    (∀ a ∈ l, ∃ x, f a = .ok (.b x)) →
    ∃ r, forallLoop f l = .ok (.b r) ∧ (r = true ↔ ∀ a, a ∈ l → f a = .ok (.b true))
  | [], _ => ⟨true, rfl, by simp⟩
  | a :: as, h => by
    obtain ⟨x, hx⟩ := h a (List.mem_cons_self ..)
    obtain ⟨r, hr, hiff⟩ := forallLoop_spec as (fun b hb => h b (List.mem_cons_of_mem _ hb))
    cases x with
    | false =>
      refine ⟨false, by simp [forallLoop, hx], ?_⟩
      simp only [Bool.false_eq_true, false_iff]
      intro hall
      have := hall a (List.mem_cons_self ..)
      rw [hx] at this; cases this
    | true =>
      refine ⟨r, by simp [forallLoop, hx, hr], ?_⟩
      rw [hiff]
      constructor
      · intro hall b hb
        rcases List.mem_cons.1 hb with rfl | hb
        · exact hx
        · exact hall b hb
      · intro hall b hb; exact hall b (List.mem_cons_of_mem _ hb)

/-! ### operators -/

/-- only fluent applications read the state, only interpreted functions read the tables -/
theorem denOp_indep (ι ι' : Interp) (hfn : ι.fn = ι'.fn) (op : Op) (hop : ∀ f, op ≠ .fluent f) (vs : List Val) :
    denOp ι op vs = denOp ι' op vs := by
  cases op with
  | fluent f => exact absurd rfl (hop f)
  | ifun g => simp only [denOp, hfn]
  | and | or | plus | times => rfl
  | _ =>
    match vs with
    | [] => rfl
    | [a] => cases a <;> rfl
    | [a, b] => cases a <;> cases b <;> rfl
    | a :: b :: d :: t => cases a <;> cases b <;> rfl

theorem evalOp_of_denOp_ctx {c : EvalCtx} {op : Op} {vs : List Val} {v : Val}
    (h : denOp (ctxInterp c) op vs = some v) : evalOp c op vs = .ok v := by
  have hind : ∀ f : (∀ f, op ≠ .fluent f),
      denOp { fl := fun _ _ => none, fn := c.fn, par := fun _ => none, dom := fun _ => [] } op vs =
        denOp (ctxInterp c) op vs :=
    fun f => denOp_indep { fl := fun _ _ => none, fn := c.fn, par := fun _ => none, dom := fun _ => [] } (ctxInterp c) rfl op f vs
  cases op with
  | fluent f =>
    simp only [denOp, ctxInterp] at h
    simp only [evalOp, h]
  | div =>
    match vs, h with
    | [], h => simp [denOp] at h
    | [a], h => cases a <;> simp [denOp] at h
    | [a, b], h =>
      cases a <;> cases b <;> simp only [denOp] at h <;> try (cases h)
      rename_i x y
      split at h
      · cases h
      · rename_i hy
        cases h
        simp only [evalOp, if_neg hy]
    | a :: b :: d :: t, h => cases a <;> cases b <;> simp [denOp] at h
  | _ =>
    simp only [evalOp]
    rw [hind (by intro f; simp), h]

/-! ### the state evaluator extends the reference denotation -/

theorem qNodupList_iff {es : List Expr} : qNodupList es = true ↔ ∀ e ∈ es, qNodup e = true := by
  induction es with
  | nil => simp [qNodupList]
  | cons x xs ih => simp [qNodupList, ih]

/-- wherever the reference denotation is defined, `StateEvaluator.evaluate` returns that value -/
theorem den_eval (c : EvalCtx) :
    (∀ e ρ v, qNodup e = true → den (ctxInterp c) ρ e = some v → eval c ρ e = .ok v) ∧
    (∀ es ρ vs, qNodupList es = true → denList (ctxInterp c) ρ es = some vs → evalList c ρ es = .ok vs) := by
  have key : ∀ n, (∀ e, e.size ≤ n → ∀ ρ v, qNodup e = true → den (ctxInterp c) ρ e = some v → eval c ρ e = .ok v) ∧
      (∀ es, Expr.sizeList es ≤ n → ∀ ρ vs, qNodupList es = true → denList (ctxInterp c) ρ es = some vs →
        evalList c ρ es = .ok vs) := by
    intro n
    induction n with
    | zero =>
      constructor
      · intro e he; cases e <;> simp [Expr.size] at he
      · intro es he ρ vs _ h
        cases es with
        | nil => rw [denList_nil] at h; cases h; rfl
        | cons x xs =>
          simp [Expr.sizeList] at he
          cases x <;> simp [Expr.size] at he
    | succ n ih =>
      have hexpr : ∀ e, e.size ≤ n + 1 → ∀ ρ v, qNodup e = true → den (ctxInterp c) ρ e = some v →
          eval c ρ e = .ok v := by
        intro e he ρ v hq h
        cases e with
        | leaf l =>
          rw [den_leaf] at h
          cases l <;> simp only [denLeaf, ctxInterp] at h <;> simp only [eval, evalLeaf] <;>
            first | (cases h; done) | (cases h; rfl) | (rw [h])
        | app op args =>
          simp only [Expr.size] at he
          simp only [qNodup] at hq
          obtain ⟨vs, hvs, hop⟩ := den_app_some.1 h
          simp only [eval]
          rw [ih.2 args (by omega) ρ vs hq hvs]
          exact evalOp_of_denOp_ctx hop
        | quant q vs b =>
          simp only [Expr.size] at he
          simp only [qNodup, Bool.and_eq_true, decide_eq_true_eq] at hq
          rw [den_quant] at h
          obtain ⟨hdef, r, rfl, hr⟩ := (quantVal_some_iff q _ _ _).1 h
          -- every instance of the body evaluates to its Boolean value, whichever way the bindings are stacked
          have hinst : ∀ a, a ∈ assignments (ctxInterp c) vs → ∀ x, den (ctxInterp c) (a ++ ρ) b = some (.b x) →
              eval c (a.reverse ++ ρ) b = .ok (.b x) := by
            intro a ha x hx
            rw [(eval_congr_env c).1 b (a.reverse ++ ρ) (a ++ ρ)]
            · exact ih.1 b (by omega) (a ++ ρ) _ hq.2 hx
            · intro y
              rw [VEnv.get_append, VEnv.get_append,
                venv_get_reverse a y (by rw [assignments_keys _ vs a ha]; exact hq.1)]
          have hall : ∀ a' ∈ (assignments (ctxInterp c) vs).map List.reverse,
              ∃ x, eval c (a' ++ ρ) b = .ok (.b x) := by
            intro a' ha'
            obtain ⟨a, ha, rfl⟩ := List.mem_map.1 ha'
            obtain ⟨x, hx⟩ := hdef a ha
            exact ⟨x, hinst a ha x hx⟩
          simp only [eval]
          rw [qAssignments_eq_rev]
          cases q with
          | ex =>
            obtain ⟨r', hr', hiff⟩ := existsLoop_spec (f := fun a => eval c (a ++ ρ) b) _ hall
            dsimp only
            rw [hr']
            have : r' = r := by
              rw [Bool.eq_iff_iff, hiff, hr]
              simp only [qtrue]
              constructor
              · rintro ⟨a', ha', he'⟩
                obtain ⟨a, ha, rfl⟩ := List.mem_map.1 ha'
                obtain ⟨x, hx⟩ := hdef a ha
                have := hinst a ha x hx
                rw [he'] at this
                cases this
                exact ⟨a, ha, hx⟩
              · rintro ⟨a, ha, hx⟩
                exact ⟨a.reverse, List.mem_map_of_mem ha, hinst a ha true hx⟩
            rw [this]
          | all =>
            obtain ⟨r', hr', hiff⟩ := forallLoop_spec (f := fun a => eval c (a ++ ρ) b) _ hall
            dsimp only
            rw [hr']
            have : r' = r := by
              rw [Bool.eq_iff_iff, hiff, hr]
              simp only [qtrue]
              constructor
              · intro hall' a ha
                obtain ⟨x, hx⟩ := hdef a ha
                have h1 := hinst a ha x hx
                rw [hall' a.reverse (List.mem_map_of_mem ha)] at h1
                cases h1
                exact hx
              · intro hall' a' ha'
                obtain ⟨a, ha, rfl⟩ := List.mem_map.1 ha'
                exact hinst a ha true (hall' a ha)
            rw [this]
      refine ⟨hexpr, ?_⟩
      intro es he ρ vs hq h
      cases es with
      | nil => rw [denList_nil] at h; cases h; rfl
      | cons x xs =>
        simp only [Expr.sizeList] at he
        simp only [qNodupList, Bool.and_eq_true] at hq
        have hx : 1 ≤ x.size := by cases x <;> simp [Expr.size] <;> omega
        obtain ⟨w, ws, hw, hws, rfl⟩ := denList_cons_some.1 h
        simp only [evalList]
        rw [ih.2 xs (by omega) ρ ws hq.2 hws, hexpr x (by omega) ρ w hq.1 hw]
  exact ⟨fun e ρ v hq h => (key e.size).1 e (Nat.le_refl _) ρ v hq h,
         fun es ρ vs hq h => (key (Expr.sizeList es)).2 es (Nat.le_refl _) ρ vs hq h⟩

end UPVerif.Compile
