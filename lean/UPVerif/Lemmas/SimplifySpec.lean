import UPVerif.Core.Walkers.Simplify
/-!
Definitions used to STATE the theorems of `Props/C11.lean` (hypotheses on expressions, on the tables
of a `SimpCfg` and on interpretations).  Everything here is short and meant to be read.
-/
namespace UPVerif.Simp
open Expr

mutual
/-- every leaf of the expression satisfies `pl` and every quantified variable satisfies `pv` -/
def allB (pl : Leaf → Bool) (pv : Var → Bool) : Expr → Bool
  | .leaf l => pl l
  | .app _ args => allBList pl pv args
  | .quant _ vs b => vs.all pv && allB pl pv b
def allBList (pl : Leaf → Bool) (pv : Var → Bool) : List Expr → Bool
  | [] => true
  | e :: es => allB pl pv e && allBList pl pv es
end

mutual
/-- nesting depth (the fuel an expression in normal form needs is `depth + 1`) -/
def depth : Expr → Nat
  | .leaf _ => 0
  | .app _ args => depthList args + 1
  | .quant _ _ b => depth b + 1
def depthList : List Expr → Nat
  | [] => 0
  | e :: es => max (depth e) (depthList es)
end

end Simp

/-- the initial values and defaults of the problem are constants (`set_initial_value` is meant to
    store constants; C23 is about the cases where it does not) -/
def SimpCfg.constTables (cfg : SimpCfg) : Bool :=
  cfg.init.all (fun kv => kv.2.isConstant) && cfg.defaults.all (fun kv => kv.2.isConstant)

/-- every expression stored in the tables satisfies the leaf predicate -/
def SimpCfg.tablesAll (cfg : SimpCfg) (pl : Leaf → Bool) : Bool :=
  cfg.init.all (fun kv => Simp.allB pl (fun _ => true) kv.2)
  && cfg.defaults.all (fun kv => Simp.allB pl (fun _ => true) kv.2)
  && cfg.funs.all (fun e => Simp.allB pl (fun _ => true) e.2.2)

namespace Simp

/-- typing of the leaves against an interpretation: an object leaf carries the declared type of
    its name, a user-typed parameter has a value inside its type -/
def leafOK (ι : Interp) (oty : String → Option String) : Leaf → Bool
  | .obj n t => oty n == some t
  | .param n (.user t) =>
    match ι.par n with
    | some v => (ι.dom (.user t)).contains v
    | none => true
  | _ => true

/-- well-formed expression: all leaves typed (decidable) -/
def WF (ι : Interp) (oty : String → Option String) (e : Expr) : Prop :=
  allB (leafOK ι oty) (fun _ => true) e = true

/-- every quantifier of the expression ranges over a non-empty domain (excludes D-C11e) -/
def QuantInhabited (ι : Interp) (e : Expr) : Prop :=
  allB (fun _ => true) (fun x => !(ι.dom x.ty).isEmpty) e = true

/-- the variable environment gives every variable a value of its type -/
def EnvOK (ι : Interp) (ρ : VEnv) : Prop := ∀ x v, ρ.get x = some v → v ∈ ι.dom x.ty

/-- the interpretation is within the declared types, fixes the static fluents to their initial
    values and agrees with the tables of the interpreted functions -/
structure Respects (cfg : SimpCfg) (ι : Interp) (oty : String → Option String) : Prop where
  /-- declared objects belong to the domain of their type -/
  objTy : ∀ n t, oty n = some t → Val.o n ∈ ι.dom (.user t)
  /-- the domain of a type contains the domains of its subtypes -/
  domUp : ∀ a b, cfg.tenv.isSubtype a b = true → ∀ v, v ∈ ι.dom (.user a) → v ∈ ι.dom (.user b)
  /-- single inheritance: two types sharing a value are related -/
  domTree : ∀ a b v, v ∈ ι.dom (.user a) → v ∈ ι.dom (.user b) →
    cfg.tenv.isSubtype a b = true ∨ cfg.tenv.isSubtype b a = true
  /-- user-typed fluents and functions take values inside their type -/
  flTy : ∀ (f : FluentRef) args v t, f.ty = .user t → ι.fl f args = some v → v ∈ ι.dom (.user t)
  fnTy : ∀ (g : FunRef) args v t, g.ty = .user t → ι.fn g args = some v → v ∈ ι.dom (.user t)
  /-- static fluents are fixed to their initial values -/
  static : ∀ f args v, f ∈ cfg.statics → cfg.initialValue f args = some v →
    ∀ ρ w, den ι ρ (.app (.fluent f) args) = some w → den ι ρ v = some w
  /-- the function tables are (part of) the interpretation of the functions -/
  funs : ∀ g vs r e', cfg.funLookup g vs = some r → convResult g.ty r = .ok e' →
    ∀ ρ w, ι.fn g vs = some w → den ι ρ e' = some w
  /-- the expressions stored in the tables are well-formed -/
  tables : cfg.tablesAll (leafOK ι oty) = true

end Simp
end UPVerif
