import UPVerif.Lemmas.AnmlStmt
import UPVerif.Lemmas.AnmlResolveE
/-! stage 2 on statements: effects, actions, the timed statements of the problem, the whole problem -/
namespace UPVerif.Anml
open Tok

/-! ### free variables survive renaming and re-spelling -/

theorem mem_freeVars_leftNest (op : Op) (x : Var) : ∀ (rest : List Expr) (acc : Expr),
    (x ∈ acc.freeVars ∨ x ∈ Expr.freeVarsList rest) → x ∈ (leftNest op acc rest).freeVars
  | [], acc, h => by
    rcases h with h | h
    · exact h
    · simp [Expr.freeVarsList] at h
  | e :: rest, acc, h => by
    rw [leftNest]
    apply mem_freeVars_leftNest op x rest
    rcases h with h | h
    · left; simp [Expr.freeVars, Expr.freeVarsList, h]
    · simp only [Expr.freeVarsList, List.mem_append] at h
      rcases h with h | h
      · left; simp [Expr.freeVars, Expr.freeVarsList, h]
      · right; exact h

theorem mem_freeVars_respellApp (op : Op) (x : Var) (args : List Expr) (h : x ∈ Expr.freeVarsList args) :
    x ∈ (respellApp op args).freeVars := by
  unfold respellApp
  split
  · split
    · rename_i a b rest
      apply mem_freeVars_leftNest
      simp only [Expr.freeVarsList, List.mem_append] at h
      rcases h with h | h | h
      · left; simp [Expr.freeVars, Expr.freeVarsList, h]
      · left; simp [Expr.freeVars, Expr.freeVarsList, h]
      · right; exact h
    · simpa [Expr.freeVars] using h
  · simpa [Expr.freeVars] using h

mutual
theorem freeVars_sub_varsOf : ∀ (e : Expr) (v : Var), v ∈ e.freeVars → v ∈ varsOfE e
  | .leaf l, v, h => by
    cases l <;> simp_all [Expr.freeVars, varsOfE, varsOfLeaf]
  | .app op args, v, h => by
    simp only [Expr.freeVars] at h
    simp only [varsOfE]
    exact freeVarsList_sub_varsOf args v h
  | .quant q vs b, v, h => by
    simp only [Expr.freeVars, List.mem_filter] at h
    simp only [varsOfE, List.mem_append]
    exact Or.inr (freeVars_sub_varsOf b v h.1)
theorem freeVarsList_sub_varsOf : ∀ (es : List Expr) (v : Var), v ∈ Expr.freeVarsList es → v ∈ varsOfEs es
  | [], v, h => by simp [Expr.freeVarsList] at h
  | e :: es, v, h => by
    simp only [Expr.freeVarsList, List.mem_append] at h
    simp only [varsOfEs, List.mem_append]
    rcases h with h | h
    · exact Or.inl (freeVars_sub_varsOf e v h)
    · exact Or.inr (freeVarsList_sub_varsOf es v h)
end

section
variable {ρ : Ren} {P : AProblem}

theorem renVar_inj (G : Good ρ P) {v w : Var} (hv : Item.var v.name v.ty ∈ P.items)
    (hw : Item.var w.name w.ty ∈ P.items) (h : ρ.renVar v = ρ.renVar w) : v = w := by
  have h1 : ρ.var v.name v.ty = ρ.var w.name w.ty := by
    have := congrArg Var.name h
    simpa [Ren.renVar] using this
  have := G _ _ hv hw h1
  injection this with hn ht
  cases v; cases w; simp_all

mutual
theorem mem_freeVars_respell_ren (G : Good ρ P) : ∀ (e : Expr),
    (∀ v ∈ varsOfE e, Item.var v.name v.ty ∈ P.items) → ∀ v, v ∈ e.freeVars →
    ρ.renVar v ∈ (respell (ρ.renE e)).freeVars
  | .leaf l, _, v, h => by
    cases l <;> simp_all [Expr.freeVars, Ren.renE, Ren.renLeaf, respell, respellLeaf]
  | .app op args, hv, v, h => by
    simp only [Expr.freeVars] at h
    rw [Ren.renE, respell]
    apply mem_freeVars_respellApp
    exact mem_freeVarsList_respell_ren G args (by simpa [varsOfE] using hv) v h
  | .quant q vs b, hv, v, h => by
    simp only [Expr.freeVars, List.mem_filter, Bool.not_eq_true', List.contains_eq_mem, decide_eq_false_iff_not] at h
    rw [Ren.renE, respell]
    simp only [Expr.freeVars, List.mem_filter, Bool.not_eq_true', List.contains_eq_mem, decide_eq_false_iff_not,
      List.mem_map, not_exists, not_and]
    refine ⟨mem_freeVars_respell_ren G b (fun w hw => hv w (by simp [varsOfE, hw])) v h.1, ?_⟩
    intro w hw he
    have hvi := hv v (by simp only [varsOfE, List.mem_append]; exact Or.inr (freeVars_sub_varsOf b v h.1))
    have hwi := hv w (by simp [varsOfE, hw])
    have := renVar_inj G hwi hvi he
    subst this
    exact h.2 hw
theorem mem_freeVarsList_respell_ren (G : Good ρ P) : ∀ (es : List Expr),
    (∀ v ∈ varsOfEs es, Item.var v.name v.ty ∈ P.items) → ∀ v, v ∈ Expr.freeVarsList es →
    ρ.renVar v ∈ Expr.freeVarsList (respellList (ρ.renEs es))
  | [], _, v, h => by simp [Expr.freeVarsList] at h
  | e :: es, hv, v, h => by
    simp only [Expr.freeVarsList, List.mem_append] at h
    simp only [Ren.renEs, respellList, Expr.freeVarsList, List.mem_append]
    rcases h with h | h
    · exact Or.inl (mem_freeVars_respell_ren G e (fun w hw => hv w (by simp [varsOfEs, hw])) v h)
    · exact Or.inr (mem_freeVarsList_respell_ren G es (fun w hw => hv w (by simp [varsOfEs, hw])) v h)
end

end

end UPVerif.Anml

namespace UPVerif.Anml
open Tok

/-! ### effects -/

theorem isTrue_iff (e : Expr) : e.isTrue = true ↔ e = Expr.tt := by
  constructor
  · intro h
    unfold Expr.isTrue at h
    split at h
    · rfl
    · cases h
  · rintro rfl; rfl

theorem isTrue_renE (ρ : Ren) (e : Expr) : (ρ.renE e).isTrue = e.isTrue := by
  cases e with
  | leaf l => cases l <;> simp [Ren.renE, Ren.renLeaf, Expr.isTrue]
  | app op args => simp [Ren.renE, Expr.isTrue]
  | quant q vs b => simp [Ren.renE, Expr.isTrue]

theorem respell_tt : respell Expr.tt = Expr.tt := by
  simp [Expr.tt, respell, respellLeaf]

theorem renE_tt (ρ : Ren) : ρ.renE Expr.tt = Expr.tt := by
  simp [Expr.tt, Ren.renE, Ren.renLeaf]

theorem respell_ren_fluent_shape (ρ : Ren) (e : Expr)
    (h : (match e with | .app (.fluent _) _ => true | _ => false) = true) :
    ∃ f args args', e = .app (.fluent f) args ∧ respell (ρ.renE e) = .app (.fluent (ρ.renRef f)) args' := by
  cases e with
  | app op args =>
    cases op with
    | fluent f => exact ⟨f, args, respellList (ρ.renEs args), rfl, by simp [Ren.renE, Ren.renOp, respell, respellApp, isNary]⟩
    | _ => simp at h
  | _ => simp at h

section
variable {ρ : Ren} {P : AProblem} {env : REnv}

/-- `_parse_assignment` on the tree of a printed effect -/
theorem resolveEffect_uEffect (C : RCtx ρ P env) (consts : List FluentRef) (params : List (String × Ty))
    (hpar : ∀ p ∈ params, Item.par p.1 p.2 ∈ P.items) (e : Effect) (hwf : wfEff P params e = true)
    (hv : ∀ v ∈ varsOfEff e, Item.var v.name v.ty ∈ P.items) (glob : Bool) (iv : Option UInterval) (T : Timing)
    (hT : ∀ f args, e.fluent = .app (.fluent f) args → effectTiming glob (consts.contains (ρ.renRef f)) iv = some T) :
    resolveEffect env consts (ρ.renParams params) glob iv (uEffect ρ e) = some (T, respellEff (ρ.renEff e)) := by
  simp only [wfEff, Bool.and_eq_true, List.all_eq_true] at hwf
  obtain ⟨⟨⟨⟨⟨htys, hused⟩, hfl⟩, h1⟩, h2⟩, h3⟩ := hwf
  have hvf : ∀ v ∈ e.forall_, Item.var v.name v.ty ∈ P.items := fun v h => hv v (by simp [varsOfEff, h])
  have S : ScopeOK P params e.forall_ := ⟨hpar, hvf⟩
  have S0 : ScopeOK P params [] := ⟨hpar, by simp⟩
  have hv1 : ∀ v ∈ varsOfE e.fluent, Item.var v.name v.ty ∈ P.items := fun v h => hv v (by simp [varsOfEff, h])
  have hv2 : ∀ v ∈ varsOfE e.value, Item.var v.name v.ty ∈ P.items := fun v h => hv v (by simp [varsOfEff, h])
  have hv3 : ∀ v ∈ varsOfE e.cond, Item.var v.name v.ty ∈ P.items := fun v h => hv v (by simp [varsOfEff, h])
  have r1 := resolveE_toU C e.fluent params e.forall_ h1 hv1 S
  have r2 := resolveE_toU C e.value params e.forall_ h2 hv2 S
  have r3 := resolveE_toU C e.cond params e.forall_ h3 hv3 S
  have hd := resolveDecls_ren C ρ.var (varDecls e.forall_) (by
    intro d hd
    simp only [varDecls, List.mem_map] at hd
    obtain ⟨v, hv', rfl⟩ := hd
    exact htys v hv')
  rw [renDecls_varDecls] at hd
  obtain ⟨f, args, args', hfe, hshape⟩ := respell_ren_fluent_shape ρ e.fluent hfl
  have hT' := hT f args hfe
  -- the forall variables all occur free
  have hfilter : ((renScope ρ e.forall_).map (fun p => ({ name := p.1, ty := p.2 } : Var))).filter
      (fun x => ((respell (ρ.renE e.fluent)).freeVars ++ (respell (ρ.renE e.value)).freeVars
        ++ (if e.isConditional && !e.forall_.isEmpty then
              Expr.app .and [respell (ρ.renE e.cond), Expr.tt] else respell (ρ.renE e.cond)).freeVars).contains x)
      = e.forall_.map ρ.renVar := by
    rw [renScope_vars]
    apply List.filter_eq_self.2
    intro x hx
    simp only [List.mem_map] at hx
    obtain ⟨v, hvm, rfl⟩ := hx
    have hu := hused v hvm
    simp only [List.contains_eq_mem, List.mem_append, decide_eq_true_eq] at hu ⊢
    rcases hu with (hu | hu) | hu
    · exact Or.inl (Or.inl (mem_freeVars_respell_ren C.good e.fluent hv1 v hu))
    · exact Or.inl (Or.inr (mem_freeVars_respell_ren C.good e.value hv2 v hu))
    · right
      have := mem_freeVars_respell_ren C.good e.cond hv3 v hu
      split
      · simp [Expr.freeVars, Expr.freeVarsList, this]
      · exact this
  unfold resolveEffect
  simp only [uEffect, renDecls_varDecls, hd]
  by_cases hc : e.isConditional = true
  · simp only [hc, if_true]
    by_cases hfa : e.forall_ = []
    · -- plain `when`
      have hempty : (renScope ρ e.forall_).isEmpty = true := by simp [hfa, renScope]
      have r3' : resolveE env (ρ.renParams params) [] (toU ρ e.cond) = some (respell (ρ.renE e.cond)) := by
        have := resolveE_toU C e.cond params [] (by simpa [hfa] using h3) hv3 S0
        simpa [renScope] using this
      simp only [hempty, if_true, r3', r1, r2, hshape, hT']
      simp only [hfa, List.isEmpty_nil, Bool.not_true, Bool.and_false, Bool.false_eq_true, if_false, hc] at hfilter
      rw [← hshape]
      simp [respellEff, Ren.renEff, hfa, renScope]
    · have hempty : (renScope ρ e.forall_).isEmpty = false := by
        cases hx : e.forall_ with
        | nil => exact absurd hx hfa
        | cons v vs => simp [renScope]
      have hne : e.forall_.isEmpty = false := by
        cases hx : e.forall_ with
        | nil => exact absurd hx hfa
        | cons v vs => rfl
      simp only [hempty, Bool.false_eq_true, if_false, r3, Option.map_some, r1, r2, hshape, hT']
      simp only [hc, hne, Bool.not_false, Bool.and_self, if_true] at hfilter
      rw [← hshape]
      have hct : (ρ.renE e.cond).isTrue = false := by
        rw [isTrue_renE]; simpa [Effect.isConditional] using hc
      rw [hfilter]
      simp [respellEff, Ren.renEff, hne, hct]
  · have hcf : e.isConditional = false := by simpa using hc
    have hct : e.cond = Expr.tt := (isTrue_iff _).1 (by simpa [Effect.isConditional] using hcf)
    simp only [hcf, Bool.false_eq_true, if_false, r1, r2, hshape, hT']
    simp only [hcf, Bool.false_and, Bool.false_eq_true, if_false, hct, renE_tt, respell_tt] at hfilter
    rw [← hshape]
    rw [hfilter]
    have htt : Expr.tt.isTrue = true := rfl
    simp [respellEff, Ren.renEff, hct, renE_tt, respell_tt, htt]

end

end UPVerif.Anml

namespace UPVerif.Anml
open Tok

/-! ### timings back -/

theorem resolveTiming_uTiming (glob : Bool) (t : Timing) (h : wfTiming glob t = true) :
    resolveTiming glob (uTiming t) = t := by
  simp only [wfTiming, Bool.and_eq_true, beq_iff_eq] at h
  obtain ⟨tp, d⟩ := t
  cases tp <;> cases glob <;> simp_all [resolveTiming, uTiming, TP.fromStart, TP.isGlobal]

theorem resolveInterval_uInterval (glob : Bool) (i : Interval) (h : wfInterval glob i = true) :
    resolveInterval glob (uInterval i) = i := by
  simp only [wfInterval, Bool.and_eq_true, Bool.or_eq_true, bne_iff_ne, ne_eq, Bool.not_eq_true'] at h
  obtain ⟨⟨hlo, hhi⟩, hpt⟩ := h
  obtain ⟨lo, hi, lopen, ropen⟩ := i
  unfold uInterval
  by_cases heq : lo = hi
  · subst heq
    rcases hpt with hpt | ⟨h1, h2⟩
    · exact absurd rfl hpt
    · simp only at h1 h2
      simp [resolveInterval, resolveTiming_uTiming glob lo hlo, h1, h2]
  · have : (lo == hi) = false := by simpa using heq
    simp [this, resolveInterval, resolveTiming_uTiming glob lo hlo, resolveTiming_uTiming glob hi hhi]

theorem foldM?_append {α β} (step : α → β → Option α) : ∀ (l1 l2 : List β) (a : α),
    foldM? step a (l1 ++ l2) = (foldM? step a l1).bind (fun a' => foldM? step a' l2)
  | [], l2, a => by simp [foldM?]
  | b :: l1, l2, a => by
    simp only [List.cons_append, foldM?]
    cases step a b with
    | none => simp
    | some a' => simp only; exact foldM?_append step l1 l2 a'

theorem renDecls_par (ρ : Ren) (ps : List (String × Ty)) : renDecls ρ ρ.par ps = ρ.renParams ps := rfl

section
variable {ρ : Ren} {P : AProblem} {env : REnv}

/-- everything an action mentions is an item of the problem -/
structure ActItems (P : AProblem) (a : AAction) : Prop where
  par : ∀ p ∈ a.params, Item.par p.1 p.2 ∈ P.items
  exprs : ∀ e ∈ a.exprs, ∀ v ∈ varsOfE e, Item.var v.name v.ty ∈ P.items
  effs : ∀ e ∈ a.allEffects, ∀ v ∈ varsOfEff e, Item.var v.name v.ty ∈ P.items

theorem foldInst_pre (C : RCtx ρ P env) (consts : List FluentRef) (params : List (String × Ty))
    (hpar : ∀ p ∈ params, Item.par p.1 p.2 ∈ P.items) : ∀ (pre : List Expr),
    (∀ p ∈ pre, wfE P params [] p = true) → (∀ p ∈ pre, ∀ v ∈ varsOfE p, Item.var v.name v.ty ∈ P.items) →
    ∀ (acc : List Expr × List Effect) (iv : Option UInterval),
    foldM? (stepInst env consts (ρ.renParams params)) acc (pre.map (fun p => UBody.cond iv (toU ρ p)))
      = some ((pre.map (fun p => respell (ρ.renE p))).foldl addPre acc.1, acc.2)
  | [], _, _, acc, _ => by simp [foldM?]
  | p :: pre, hwf, hv, acc, iv => by
    have h := resolveE_toU C p params [] (hwf p (by simp)) (hv p (by simp)) ⟨hpar, by simp⟩
    simp only [renScope, List.map_nil] at h
    simp only [List.map_cons, foldM?, stepInst, h, List.foldl_cons]
    exact foldInst_pre C consts params hpar pre (fun x hx => hwf x (by simp [hx])) (fun x hx => hv x (by simp [hx])) _ iv

theorem foldInst_effs (C : RCtx ρ P env) (consts : List FluentRef) (params : List (String × Ty))
    (hpar : ∀ p ∈ params, Item.par p.1 p.2 ∈ P.items) : ∀ (effs : List Effect),
    (∀ e ∈ effs, wfEff P params e = true) → (∀ e ∈ effs, ∀ v ∈ varsOfEff e, Item.var v.name v.ty ∈ P.items) →
    ∀ (acc : List Expr × List Effect),
    foldM? (stepInst env consts (ρ.renParams params)) acc
        (effs.map (fun e => UBody.eff (some (.point ⟨true, 0⟩)) (uEffect ρ e)))
      = some (acc.1, acc.2 ++ effs.map (fun e => respellEff (ρ.renEff e)))
  | [], _, _, acc => by simp [foldM?]
  | e :: effs, hwf, hv, acc => by
    have h := resolveEffect_uEffect C consts params hpar e (hwf e (by simp)) (hv e (by simp)) false
      (some (.point ⟨true, 0⟩)) (resolveTiming false ⟨true, 0⟩) (by intros; rfl)
    simp only [List.map_cons, foldM?, stepInst, h]
    rw [foldInst_effs C consts params hpar effs (fun x hx => hwf x (by simp [hx])) (fun x hx => hv x (by simp [hx]))]
    simp

theorem foldDur_conds (C : RCtx ρ P env) (consts : List FluentRef) (params : List (String × Ty))
    (hpar : ∀ p ∈ params, Item.par p.1 p.2 ∈ P.items) : ∀ (conds : List (Interval × Expr)),
    (∀ c ∈ conds, wfInterval false c.1 = true ∧ wfE P params [] c.2 = true) →
    (∀ c ∈ conds, ∀ v ∈ varsOfE c.2, Item.var v.name v.ty ∈ P.items) → ∀ (acc : DurAcc),
    foldM? (stepDur env consts (ρ.renParams params)) acc
        (conds.map (fun c => UBody.cond (some (uInterval c.1)) (toU ρ c.2)))
      = some { acc with conds := (conds.map (fun c => (c.1, respell (ρ.renE c.2)))).foldl addTimed acc.conds }
  | [], _, _, acc => by simp [foldM?]
  | c :: conds, hwf, hv, acc => by
    have h := resolveE_toU C c.2 params [] (hwf c (by simp)).2 (hv c (by simp)) ⟨hpar, by simp⟩
    simp only [renScope, List.map_nil] at h
    simp only [List.map_cons, foldM?, stepDur, h, List.foldl_cons,
      resolveInterval_uInterval false c.1 (hwf c (by simp)).1]
    rw [foldDur_conds C consts params hpar conds (fun x hx => hwf x (by simp [hx])) (fun x hx => hv x (by simp [hx]))]

theorem foldDur_effs (C : RCtx ρ P env) (consts : List FluentRef) (params : List (String × Ty))
    (hpar : ∀ p ∈ params, Item.par p.1 p.2 ∈ P.items) : ∀ (effs : List (Timing × Effect)),
    (∀ e ∈ effs, wfTiming false e.1 = true ∧ wfEff P params e.2 = true) →
    (∀ e ∈ effs, ∀ v ∈ varsOfEff e.2, Item.var v.name v.ty ∈ P.items) → ∀ (acc : DurAcc),
    foldM? (stepDur env consts (ρ.renParams params)) acc
        (effs.map (fun e => UBody.eff (some (.point (uTiming e.1))) (uEffect ρ e.2)))
      = some { acc with effs := acc.effs ++ effs.map (fun e => (e.1, respellEff (ρ.renEff e.2))) }
  | [], _, _, acc => by simp [foldM?]
  | e :: effs, hwf, hv, acc => by
    have h := resolveEffect_uEffect C consts params hpar e.2 (hwf e (by simp)).2 (hv e (by simp)) false
      (some (.point (uTiming e.1))) e.1 (by
        intros; simp [effectTiming, resolveTiming_uTiming false e.1 (hwf e (by simp)).1])
    simp only [List.map_cons, foldM?, stepDur, h]
    rw [foldDur_effs C consts params hpar effs (fun x hx => hwf x (by simp [hx])) (fun x hx => hv x (by simp [hx]))]
    simp

/-- `_parse_action` on the tree of a printed action -/
theorem buildAction_uAction (C : RCtx ρ P env) (consts : List FluentRef) (a : AAction)
    (hwf : wfAction P a = true) (I : ActItems P a) :
    buildAction env consts (ρ.act a.name) (renDecls ρ ρ.par a.params) (isInstA a) ((actionItems ρ a).map (·.2))
      = some (respellAction (ρ.renAction a)) := by
  have hty : ∀ d ∈ a.params, wfTy P d.2 = true := by
    intro d hd
    cases a <;> simp only [wfAction, Bool.and_eq_true, List.all_eq_true] at hwf
    · exact hwf.1.1 d hd
    · exact hwf.1.1.1.1 d hd
  have hd := resolveDecls_ren C ρ.par a.params hty
  unfold buildAction
  rw [hd, renDecls_par]
  cases a with
  | inst n ps pre effs =>
    simp only [wfAction, Bool.and_eq_true, List.all_eq_true] at hwf
    obtain ⟨⟨_, hpre⟩, heff⟩ := hwf
    have hpar := I.par
    simp only [AAction.params] at hpar
    simp only [actionItems, instItems, List.map_append, List.map_map, Function.comp_def, isInstA, if_true, AAction.params]
    rw [foldM?_append,
      foldInst_pre C consts ps hpar pre hpre (fun p hp => I.exprs p (by simp [AAction.exprs, hp])) _ _]
    simp only [Option.bind_some]
    rw [foldInst_effs C consts ps hpar effs heff (fun e he => I.effs e (by simp [AAction.allEffects, he]))]
    simp [respellAction, Ren.renAction, List.map_map, Function.comp_def, AAction.name]
  | dur n ps d conds effs =>
    simp only [wfAction, Bool.and_eq_true, List.all_eq_true] at hwf
    obtain ⟨⟨⟨⟨_, hlo⟩, hhi⟩, hconds⟩, heffs⟩ := hwf
    have hpar := I.par
    simp only [AAction.params] at hpar
    have r1 := resolveE_toU C d.lo ps [] hlo (I.exprs d.lo (by simp [AAction.exprs])) ⟨hpar, by simp⟩
    have r2 := resolveE_toU C d.hi ps [] hhi (I.exprs d.hi (by simp [AAction.exprs])) ⟨hpar, by simp⟩
    simp only [renScope, List.map_nil] at r1 r2
    simp only [actionItems, durItems, List.map_cons, List.map_append, List.map_map, Function.comp_def,
      isInstA, Bool.false_eq_true, if_false, AAction.params, foldM?, stepDur, r1, r2]
    rw [foldM?_append,
      foldDur_conds C consts ps hpar conds (fun c hc => by simpa using hconds c hc)
        (fun c hc => I.exprs c.2 (by simp only [AAction.exprs, List.mem_cons, List.mem_map]; exact Or.inr (Or.inr ⟨c, hc, rfl⟩))) _]
    simp only [Option.bind_some]
    rw [foldDur_effs C consts ps hpar effs (fun e he => by simpa using heffs e he)
      (fun e he => I.effs e.2 (by simp only [AAction.allEffects, List.mem_map]; exact ⟨e, he, rfl⟩))]
    simp [respellAction, Ren.renAction, Ren.renDuration, List.map_map, Function.comp_def, AAction.name]

end

end UPVerif.Anml

namespace UPVerif.Anml
open Tok

/-! ### the timed statements of the problem -/

section
variable {ρ : Ren} {P : AProblem} {env : REnv}

theorem uEffect_initEff (ρ : Ren) (i : Expr × Expr) :
    uEffect ρ (initEff i) = { vars := [], when_ := none, target := toU ρ i.1, kind := .assign, value := toU ρ i.2 } := by
  have : (initEff i).isConditional = false := by simp [initEff, Effect.isConditional, Expr.tt, Expr.isTrue]
  simp only [uEffect, this]
  simp [initEff, renDecls, varDecls]

theorem foldTop_init (C : RCtx ρ P env) (consts : List FluentRef)
    (hconst : ∀ f, (P.fluents.map (·.ref)).contains f = true → P.isStatic f = true → consts.contains (ρ.renRef f) = true) :
    ∀ (inits : List (Expr × Expr)),
    (∀ i ∈ inits, (match i.1 with | .app (.fluent _) _ => true | _ => false) = true
      ∧ wfE P [] [] i.1 = true ∧ wfE P [] [] i.2 = true) →
    (∀ i ∈ inits, ∀ v ∈ varsOfE i.1 ++ varsOfE i.2, Item.var v.name v.ty ∈ P.items) → ∀ (acc : TopAcc),
    foldM? (addTop env consts) acc (inits.map (fun i =>
        UBody.eff (if initStatic P i then none else some (.point ⟨true, 0⟩))
          { vars := [], when_ := none, target := toU ρ i.1, kind := .assign, value := toU ρ i.2 }))
      = some { acc with init := (inits.map (fun i => (respell (ρ.renE i.1), respell (ρ.renE i.2)))).foldl setInit acc.init }
  | [], _, _, acc => by simp [foldM?]
  | i :: inits, hwf, hv, acc => by
    obtain ⟨hfl, h1, h2⟩ := hwf i (by simp)
    have hwe : wfEff P [] (initEff i) = true := by
      simp only [wfEff, initEff, List.all_nil, Bool.true_and, Bool.and_eq_true]
      have : wfE P [] [] Expr.tt = true := by simp [Expr.tt, wfE, wfLeaf]
      exact ⟨⟨⟨hfl, h1⟩, h2⟩, this⟩
    have hve : ∀ v ∈ varsOfEff (initEff i), Item.var v.name v.ty ∈ P.items := by
      intro v hvm
      apply hv i (by simp) v
      simpa [varsOfEff, initEff, Expr.tt, varsOfE, varsOfLeaf] using hvm
    have h := resolveEffect_uEffect C consts [] (by simp) (initEff i) hwe hve true
      (if initStatic P i then none else some (.point ⟨true, 0⟩)) ⟨.gstart, 0⟩ (by
        intro f args hf
        simp only [initEff] at hf
        by_cases hs : initStatic P i = true
        · have hst : P.isStatic f = true := by simpa [initStatic, effTarget, initEff, hf] using hs
          have hdecl : (P.fluents.map (·.ref)).contains f = true := by
            have := h1
            rw [hf, wfE, Bool.and_eq_true] at this
            have h' := this.1
            simp only [wfApp, Bool.and_eq_true] at h'
            exact h'.1
          have hc := hconst f hdecl hst
          simp only [hs, if_true, effectTiming, hc]
        · simp [hs, effectTiming, resolveTiming])
    rw [uEffect_initEff] at h
    simp only [Ren.renParams, List.map_nil] at h
    have hx : (respellEff (ρ.renEff (initEff i))) =
        { fluent := respell (ρ.renE i.1), value := respell (ρ.renE i.2), cond := Expr.tt, kind := .assign, forall_ := [] } := by
      simp [respellEff, Ren.renEff, initEff, renE_tt, respell_tt]
    rw [hx] at h
    have htt : Expr.tt.isTrue = true := rfl
    have step : addTop env consts acc (UBody.eff (if initStatic P i then none else some (.point ⟨true, 0⟩))
          { vars := [], when_ := none, target := toU ρ i.1, kind := .assign, value := toU ρ i.2 })
        = some { acc with init := setInit acc.init (respell (ρ.renE i.1), respell (ρ.renE i.2)) } := by
      simp only [addTop, h]
      simp [Effect.isConditional, htt]
    simp only [List.map_cons, foldM?, step, List.foldl_cons]
    exact foldTop_init C consts hconst inits (fun x hx => hwf x (by simp [hx])) (fun x hx => hv x (by simp [hx])) _

theorem foldTop_teff (C : RCtx ρ P env) (consts : List FluentRef) : ∀ (effs : List (Timing × Effect)),
    (∀ e ∈ effs, wfTiming true e.1 = true ∧ e.1 ≠ ⟨.gstart, 0⟩ ∧ wfEff P [] e.2 = true) →
    (∀ e ∈ effs, ∀ v ∈ varsOfEff e.2, Item.var v.name v.ty ∈ P.items) → ∀ (acc : TopAcc),
    foldM? (addTop env consts) acc (effs.map (fun e => UBody.eff (some (.point (uTiming e.1))) (uEffect ρ e.2)))
      = some { acc with timedEffects := acc.timedEffects ++ effs.map (fun e => (e.1, respellEff (ρ.renEff e.2))) }
  | [], _, _, acc => by simp [foldM?]
  | e :: effs, hwf, hv, acc => by
    obtain ⟨ht, hne, hwe⟩ := hwf e (by simp)
    have h := resolveEffect_uEffect C consts [] (by simp) e.2 hwe (hv e (by simp)) true
      (some (.point (uTiming e.1))) e.1 (by intros; simp [effectTiming, resolveTiming_uTiming true e.1 ht])
    have hb : (e.1 == (⟨.gstart, 0⟩ : Timing)) = false := by simpa using hne
    simp only [Ren.renParams, List.map_nil] at h
    have step : addTop env consts acc (UBody.eff (some (.point (uTiming e.1))) (uEffect ρ e.2))
        = some { acc with timedEffects := acc.timedEffects ++ [(e.1, respellEff (ρ.renEff e.2))] } := by
      simp only [addTop, h]
      simp [hb]
    simp only [List.map_cons, foldM?, step]
    rw [foldTop_teff C consts effs (fun x hx => hwf x (by simp [hx])) (fun x hx => hv x (by simp [hx]))]
    simp

theorem foldTop_goal (C : RCtx ρ P env) (consts : List FluentRef) : ∀ (goals : List Expr),
    (∀ g ∈ goals, wfE P [] [] g = true) → (∀ g ∈ goals, ∀ v ∈ varsOfE g, Item.var v.name v.ty ∈ P.items) →
    ∀ (acc : TopAcc),
    foldM? (addTop env consts) acc (goals.map (fun g => UBody.cond (some (.point ⟨false, 0⟩)) (toU ρ g)))
      = some { acc with goals := (goals.map (fun g => respell (ρ.renE g))).foldl addGoal acc.goals }
  | [], _, _, acc => by simp [foldM?]
  | g :: goals, hwf, hv, acc => by
    have h := resolveE_toU C g [] [] (hwf g (by simp)) (hv g (by simp)) ⟨by simp, by simp⟩
    simp only [renScope, List.map_nil, Ren.renParams] at h
    simp only [List.map_cons, foldM?, addTop, h, resolveTiming, List.foldl_cons]
    simp only [beq_self_eq_true, if_true]
    exact foldTop_goal C consts goals (fun x hx => hwf x (by simp [hx])) (fun x hx => hv x (by simp [hx])) _

theorem foldTop_tgoal (C : RCtx ρ P env) (consts : List FluentRef) : ∀ (goals : List (Interval × Expr)),
    (∀ g ∈ goals, wfInterval true g.1 = true ∧ g.1.lo ≠ ⟨.gend, 0⟩ ∧ wfE P [] [] g.2 = true) →
    (∀ g ∈ goals, ∀ v ∈ varsOfE g.2, Item.var v.name v.ty ∈ P.items) → ∀ (acc : TopAcc),
    foldM? (addTop env consts) acc (goals.map (fun g => UBody.cond (some (uInterval g.1)) (toU ρ g.2)))
      = some { acc with timedGoals := (goals.map (fun g => (g.1, respell (ρ.renE g.2)))).foldl addTimed acc.timedGoals }
  | [], _, _, acc => by simp [foldM?]
  | g :: goals, hwf, hv, acc => by
    obtain ⟨hi, hne, hg⟩ := hwf g (by simp)
    have h := resolveE_toU C g.2 [] [] hg (hv g (by simp)) ⟨by simp, by simp⟩
    simp only [renScope, List.map_nil, Ren.renParams] at h
    have hri := resolveInterval_uInterval true g.1 hi
    have hlo : wfTiming true g.1.lo = true := by
      simp only [wfInterval, Bool.and_eq_true] at hi; exact hi.1.1
    have step : addTop env consts acc (UBody.cond (some (uInterval g.1)) (toU ρ g.2))
        = some { acc with timedGoals := addTimed acc.timedGoals (g.1, respell (ρ.renE g.2)) } := by
      by_cases heq : g.1.lo = g.1.hi
      · have hb : (g.1.lo == g.1.hi) = true := by simpa using heq
        have hu : uInterval g.1 = .point (uTiming g.1.lo) := by simp [uInterval, hb]
        rw [hu] at hri ⊢
        have hb2 : (g.1.lo == (⟨.gend, 0⟩ : Timing)) = false := by simpa using hne
        simp only [addTop, h, resolveTiming_uTiming true g.1.lo hlo, hb2, Bool.false_eq_true, if_false, hri]
      · have hb : (g.1.lo == g.1.hi) = false := by simpa using heq
        have hu : uInterval g.1 = .range g.1.lopen (uTiming g.1.lo) (uTiming g.1.hi) g.1.ropen := by
          simp [uInterval, hb]
        rw [hu] at hri ⊢
        simp only [addTop, h, hri]
    simp only [List.map_cons, foldM?, step, List.foldl_cons]
    exact foldTop_tgoal C consts goals (fun x hx => hwf x (by simp [hx])) (fun x hx => hv x (by simp [hx])) _

theorem foldTop_inv (C : RCtx ρ P env) (consts : List FluentRef) : ∀ (invs : List Expr),
    (∀ g ∈ invs, wfE P [] [] g = true) → (∀ g ∈ invs, ∀ v ∈ varsOfE g, Item.var v.name v.ty ∈ P.items) →
    ∀ (acc : TopAcc),
    foldM? (addTop env consts) acc (invs.map (fun g => UBody.cond (some (.all false false)) (toU ρ g)))
      = some { acc with invariants := acc.invariants ++ invs.map (fun g => respell (ρ.renE g)) }
  | [], _, _, acc => by simp [foldM?]
  | g :: invs, hwf, hv, acc => by
    have h := resolveE_toU C g [] [] (hwf g (by simp)) (hv g (by simp)) ⟨by simp, by simp⟩
    simp only [renScope, List.map_nil, Ren.renParams] at h
    simp only [List.map_cons, foldM?, addTop, h]
    rw [foldTop_inv C consts invs (fun x hx => hwf x (by simp [hx])) (fun x hx => hv x (by simp [hx]))]
    simp

end

end UPVerif.Anml
