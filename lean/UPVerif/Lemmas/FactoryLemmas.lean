import UPVerif.Core.Factory
/-! Helper lemmas for `Props/C32.lean`: what `_engine_satisfies_conditions` computes, and closed
forms of the two loops over the preference list. -/
namespace UPVerif.Factory
open UPVerif.Kind

theorem unmet_eq_false {o : Option String} {p : String → Bool} :
    unmet o p = false ↔ ∀ x, o = some x → p x = true := by
  cases o <;> simp [unmet]

theorem qualifiesB_iff {e : Engine} {r : Req} : qualifiesB e r = true ↔ Qualifies e r := by
  simp only [qualifiesB, Qualifies, Bool.and_eq_true, Bool.not_eq_true', unmet_eq_false]
  constructor
  · rintro ⟨⟨⟨⟨⟨h1, h2⟩, h3⟩, h4⟩, h5⟩, h6⟩; exact ⟨h1, h2, h3, h4, h5, h6⟩
  · rintro ⟨h1, h2, h3, h4, h5, h6⟩; exact ⟨⟨⟨⟨⟨h1, h2⟩, h3⟩, h4⟩, h5⟩, h6⟩

theorem qualifiesB_false_iff {e : Engine} {r : Req} : qualifiesB e r = false ↔ ¬ Qualifies e r := by
  rw [← qualifiesB_iff]; simp

/-- whenever `_engine_satisfies_conditions` returns (no failed assert), it returns exactly
    "implements the mode, supports the kind and meets every requested requirement" -/
theorem engineSatisfies_some {e : Engine} {r : Req} {b : Bool}
    (h : engineSatisfies e r = some b) : b = qualifiesB e r := by
  rcases r with ⟨mode, kind, opt, comp, plan, any⟩
  cases hm : e.isMode mode <;>
    cases mode <;> cases opt <;> cases comp <;> cases plan <;> cases any <;>
    simp_all [engineSatisfies, qualifiesB, unmet] <;>
    (repeat' split at h) <;> simp_all

/-- the asserts fail exactly on an ill-shaped request met by an engine of the requested mode -/
theorem engineSatisfies_none_iff {e : Engine} {r : Req} :
    engineSatisfies e r = none ↔ (e.isMode r.mode = true ∧ r.wellShaped = false) := by
  rcases r with ⟨mode, kind, opt, comp, plan, any⟩
  cases hm : e.isMode mode <;>
    cases mode <;> cases opt <;> cases comp <;> cases plan <;> cases any <;>
    simp_all [engineSatisfies, Req.wellShaped] <;>
    (repeat' split) <;> simp_all

theorem engineSatisfies_wellShaped {e : Engine} {r : Req} (h : r.wellShaped = true) :
    engineSatisfies e r = some (qualifiesB e r) := by
  cases hs : engineSatisfies e r with
  | none => rw [engineSatisfies_none_iff] at hs; rw [h] at hs; cases hs.2
  | some b => rw [engineSatisfies_some hs]

theorem wellShaped_not_opt_and_comp {r : Req} (h : r.wellShaped = true) :
    (r.opt.isSome && r.comp.isSome) = false := by
  rcases r with ⟨mode, kind, opt, comp, plan, any⟩
  cases mode <;> cases opt <;> cases comp <;> simp_all [Req.wellShaped]

/-- the Boolean the loops effectively test on a registered name -/
def nameQualifies (F : Factory) (r : Req) (n : String) : Bool :=
  match F.lookup n with
  | some e => qualifiesB e r
  | none => false

/-! ### `selectLoop` -/

theorem selectLoop_selected {F : Factory} {r : Req} {n : String} :
    ∀ {l : List String}, selectLoop F r l = .selected n →
      ∃ pre post e, l = pre ++ n :: post ∧ F.lookup n = some e ∧ qualifiesB e r = true ∧
        ∀ m ∈ pre, ∃ e', F.lookup m = some e' ∧ qualifiesB e' r = false
  | [], h => by simp [selectLoop] at h
  | m :: rest, h => by
    unfold selectLoop at h
    cases hl : F.lookup m with
    | none => simp [hl] at h
    | some e =>
      simp only [hl] at h
      cases hs : engineSatisfies e r with
      | none => simp [hs] at h
      | some b =>
        have hb := engineSatisfies_some hs
        cases b with
        | true =>
          simp only [hs] at h
          injection h with h; subst h
          exact ⟨[], rest, e, rfl, hl, hb.symm, by simp⟩
        | false =>
          simp only [hs] at h
          obtain ⟨pre, post, e2, hl2, hlk, hq, hpre⟩ := selectLoop_selected h
          refine ⟨m :: pre, post, e2, by simp [hl2], hlk, hq, ?_⟩
          intro x hx
          rcases List.mem_cons.1 hx with rfl | hx
          · exact ⟨e, hl, hb.symm⟩
          · exact hpre x hx

theorem selectLoop_noSuitable {F : Factory} {r : Req} :
    ∀ {l : List String}, selectLoop F r l = .noSuitable →
      ∀ m ∈ l, ∃ e, F.lookup m = some e ∧ qualifiesB e r = false
  | [], _ => by simp
  | m :: rest, h => by
    unfold selectLoop at h
    cases hl : F.lookup m with
    | none => simp [hl] at h
    | some e =>
      simp only [hl] at h
      cases hs : engineSatisfies e r with
      | none => simp [hs] at h
      | some b =>
        have hb := engineSatisfies_some hs
        cases b with
        | true => simp [hs] at h
        | false =>
          simp only [hs] at h
          intro x hx
          rcases List.mem_cons.1 hx with rfl | hx
          · exact ⟨e, hl, hb.symm⟩
          · exact selectLoop_noSuitable h x hx

/-- closed form for well-shaped requests over registered names: the first qualifying name -/
theorem selectLoop_eq_find {F : Factory} {r : Req} (hs : r.wellShaped = true) :
    ∀ (l : List String), (∀ n ∈ l, ∃ e, F.lookup n = some e) →
      selectLoop F r l = (match l.find? (nameQualifies F r) with
                          | some n => .selected n
                          | none => .noSuitable)
  | [], _ => by simp [selectLoop]
  | m :: rest, hreg => by
    obtain ⟨e, hl⟩ := hreg m (by simp)
    have ih := selectLoop_eq_find hs rest (fun n hn => hreg n (by simp [hn]))
    unfold selectLoop
    simp only [hl, engineSatisfies_wellShaped hs, List.find?_cons, nameQualifies]
    cases hq : qualifiesB e r with
    | true => simp
    | false => simpa [nameQualifies] using ih

theorem getEngineClass_none (F : Factory) (r : Req) :
    getEngineClass F none r =
      if (r.opt.isSome && r.comp.isSome) = true then .assertion else selectLoop F r F.pref := rfl

theorem getEngineClass_selected {F : Factory} {r : Req} {n : String}
    (h : getEngineClass F none r = .selected n) : selectLoop F r F.pref = .selected n := by
  rw [getEngineClass_none] at h
  split at h
  · cases h
  · exact h

theorem getEngineClass_noSuitable {F : Factory} {r : Req}
    (h : getEngineClass F none r = .noSuitable) : selectLoop F r F.pref = .noSuitable := by
  rw [getEngineClass_none] at h
  split at h
  · cases h
  · exact h

theorem getEngineClass_wellShaped {F : Factory} {r : Req} (hs : r.wellShaped = true) :
    getEngineClass F none r = selectLoop F r F.pref := by
  rw [getEngineClass_none, wellShaped_not_opt_and_comp hs]; rfl

/-! ### `applicableLoop` -/

theorem applicableLoop_eq_filter {F : Factory} {r : Req} (hs : r.wellShaped = true) :
    ∀ (l : List String), (∀ n ∈ l, ∃ e, F.lookup n = some e) →
      applicableLoop F r l = .ok (l.filter (nameQualifies F r))
  | [], _ => by simp [applicableLoop]
  | m :: rest, hreg => by
    obtain ⟨e, hl⟩ := hreg m (by simp)
    have ih := applicableLoop_eq_filter hs rest (fun n hn => hreg n (by simp [hn]))
    unfold applicableLoop
    simp only [hl, engineSatisfies_wellShaped hs, ih, List.filter_cons, nameQualifies]

theorem find?_eq_head?_filter {α : Type} (p : α → Bool) :
    ∀ (l : List α), l.find? p = (l.filter p).head? :=
  fun _ => List.head?_filter.symm

/-! ### pipeline -/

theorem stageReq_wellShaped (k : Kind) (ck : String) : (stageReq k ck).wellShaped = true := rfl

theorem getEngineClass_stage {F : Factory} (k : Kind) (ck : String) :
    getEngineClass F none (stageReq k ck) = selectLoop F (stageReq k ck) F.pref := by
  simp [getEngineClass, stageReq]

theorem pipeline_ok {F : Factory} :
    ∀ (cks : List String) (k : Kind) (ns : List String),
      pipeline F k cks = .ok ns → ChainOK F k cks ns
  | [], k, ns, h => by
    simp only [pipeline, Except.ok.injEq] at h
    subst h; trivial
  | ck :: cks, k, ns, h => by
    unfold pipeline at h
    rw [getEngineClass_stage] at h
    cases hsel : selectLoop F (stageReq k ck) F.pref with
    | selected n =>
      obtain ⟨_, _, e, _, hlk, hq, _⟩ := selectLoop_selected hsel
      simp only [hsel, hlk] at h
      cases hrec : pipeline F (e.resultingKind k ck) cks with
      | error o => simp [hrec] at h
      | ok ms =>
        simp only [hrec, Except.ok.injEq] at h
        subst h
        exact ⟨e, hlk, qualifiesB_iff.1 hq, pipeline_ok cks _ ms hrec⟩
    | noSuitable => simp [hsel] at h
    | noRequested => simp [hsel] at h
    | assertion => simp [hsel] at h
    | keyError => simp [hsel] at h

theorem pipeline_error {F : Factory} (hreg : F.prefRegistered) :
    ∀ (cks : List String) (k : Kind) (o : Outcome),
      pipeline F k cks = .error o → o = .noSuitable
  | [], k, o, h => by simp [pipeline] at h
  | ck :: cks, k, o, h => by
    unfold pipeline at h
    rw [getEngineClass_stage] at h
    have hcf := selectLoop_eq_find (F := F) (stageReq_wellShaped k ck) F.pref hreg
    cases hsel : selectLoop F (stageReq k ck) F.pref with
    | selected n =>
      obtain ⟨_, _, e, _, hlk, _, _⟩ := selectLoop_selected hsel
      simp only [hsel, hlk] at h
      cases hrec : pipeline F (e.resultingKind k ck) cks with
      | error o' =>
        simp only [hrec, Except.error.injEq] at h
        subst h
        exact pipeline_error hreg cks _ _ hrec
      | ok ms => simp [hrec] at h
    | noSuitable => simp only [hsel, Except.error.injEq] at h; exact h.symm
    | noRequested => rw [hsel] at hcf; split at hcf <;> cases hcf
    | assertion => rw [hsel] at hcf; split at hcf <;> cases hcf
    | keyError => rw [hsel] at hcf; split at hcf <;> cases hcf

/-! ### decidable form of `prefRegistered` (for concrete examples) -/

def Factory.prefRegisteredB (F : Factory) : Bool := F.pref.all (fun n => (F.lookup n).isSome)

theorem prefRegistered_of_B {F : Factory} (h : F.prefRegisteredB = true) : F.prefRegistered := by
  intro n hn
  have := (List.all_eq_true.1 h) n hn
  cases hl : F.lookup n with
  | none => simp [hl] at this
  | some e => exact ⟨e, rfl⟩

theorem nameQualifies_iff {F : Factory} {r : Req} {n : String} :
    nameQualifies F r n = true ↔ ∃ e, F.lookup n = some e ∧ Qualifies e r := by
  unfold nameQualifies
  cases hl : F.lookup n with
  | none => simp
  | some e => simp [qualifiesB_iff]

end UPVerif.Factory
