import UPVerif.Core.Kind
/-! Helper lemmas for `Props/C33.lean`: list-as-set reasoning and the upgrade step. -/
namespace UPVerif.Kind

theorem subset_iff {a b : List Feature} : subset a b = true ↔ ∀ f, f ∈ a → f ∈ b := by
  simp [subset, List.all_eq_true]

theorem seteq_iff {a b : List Feature} : seteq a b = true ↔ ∀ f, f ∈ a ↔ f ∈ b := by
  simp only [seteq, Bool.and_eq_true, subset_iff]
  constructor
  · rintro ⟨h1, h2⟩ f; exact ⟨h1 f, h2 f⟩
  · intro h; exact ⟨fun f => (h f).1, fun f => (h f).2⟩

theorem mem_inter {a b : List Feature} {f : Feature} : f ∈ setInter a b ↔ f ∈ a ∧ f ∈ b := by
  simp [setInter]

theorem mem_union {a b : List Feature} {f : Feature} : f ∈ setUnion a b ↔ f ∈ a ∨ f ∈ b := by
  simp only [setUnion, List.mem_append, List.mem_filter, Bool.not_eq_eq_eq_not, Bool.not_true,
    List.contains_eq_mem, decide_eq_false_iff_not]
  constructor
  · rintro (h | ⟨h, _⟩); exact Or.inl h; exact Or.inr h
  · rintro (h | h)
    · exact Or.inl h
    · by_cases ha : f ∈ a
      · exact Or.inl ha
      · exact Or.inr ⟨h, ha⟩

theorem mem_diff {a b : List Feature} {f : Feature} : f ∈ setDiff a b ↔ f ∈ a ∧ f ∉ b := by
  simp [setDiff]

theorem mem_validPart {T : Tables} {v : Nat} {a : List Feature} {f : Feature} :
    f ∈ validPart T v a ↔ f ∈ a ∧ isValid T v f = true := by
  simp [validPart]

theorem mem_apply {u : Upgrade} {fs : List Feature} {f : Feature} :
    f ∈ u.apply fs ↔ (f ∈ fs ∨ ∃ r ∈ u.rules, subset r.conds fs = true ∧ f ∈ r.adds) ∧ f ∉ u.removes := by
  simp only [Upgrade.apply, mem_diff, mem_union, List.mem_flatMap, List.mem_filter]
  constructor
  · rintro ⟨h | ⟨r, ⟨hr, hc⟩, hf⟩, hn⟩
    · exact ⟨Or.inl h, hn⟩
    · exact ⟨Or.inr ⟨r, hr, hc, hf⟩, hn⟩
  · rintro ⟨h | ⟨r, hr, hc, hf⟩, hn⟩
    · exact ⟨Or.inl h, hn⟩
    · exact ⟨Or.inr ⟨r, ⟨hr, hc⟩, hf⟩, hn⟩

/-- validity at `v+1` of a feature that already existed at `v` implies validity at `v` -/
theorem isValid_pred {T : Tables} {v : Nat} {f : Feature}
    (hadd : added T f ≤ v) (h : isValid T (v + 1) f = true) : isValid T v f = true := by
  unfold isValid at *
  simp only [Bool.and_eq_true, decide_eq_true_eq] at *
  obtain ⟨⟨hall, _⟩, hdep⟩ := h
  refine ⟨⟨hall, hadd⟩, ?_⟩
  cases hd : (verInfo T f).2 with
  | none => rfl
  | some d =>
    rw [hd] at hdep
    simp only [Bool.not_eq_eq_eq_not, Bool.not_true, decide_eq_false_iff_not, Nat.not_le] at *
    omega

/-- the max-fold that computes the version of a kind with no declared version dominates every
    feature's introduction version -/
theorem le_foldl_max {T : Tables} (fs : List Feature) (m : Nat) :
    m ≤ fs.foldl (fun m f => max m (added T f)) m ∧
    ∀ f ∈ fs, added T f ≤ fs.foldl (fun m f => max m (added T f)) m := by
  induction fs generalizing m with
  | nil => simp
  | cons g gs ih =>
    simp only [List.foldl_cons, List.mem_cons, forall_eq_or_imp]
    have h := ih (max m (added T g))
    refine ⟨by omega, by omega, h.2⟩

/-- side conditions on the generated upgrade tables, decidable, discharged for the regenerated
    table by `decide` in Props/C33 -/
def upgradeOK (T : Tables) (v : Nat) (u : Upgrade) : Bool :=
  u.rules.all (fun r => r.conds.all (fun c => isValid T v c) && r.adds.all (fun a => decide (added T a ≤ v + 1)))

def tablesOK (T : Tables) : Bool :=
  (List.range T.upgrades.length).all (fun i =>
    match T.upgrades[i]? with
    | some u => upgradeOK T (i + 1) u
    | none => true)

theorem apply_mono {T : Tables} {v : Nat} {u : Upgrade} (hu : upgradeOK T v u = true)
    {a b : List Feature} (ha : ∀ f ∈ a, added T f ≤ v)
    (h : subset (validPart T v a) (validPart T v b) = true) :
    subset (validPart T (v + 1) (u.apply a)) (validPart T (v + 1) (u.apply b)) = true := by
  rw [subset_iff] at *
  intro f hf
  rw [mem_validPart, mem_apply] at *
  obtain ⟨⟨hsrc, hrem⟩, hval⟩ := hf
  refine ⟨⟨?_, hrem⟩, hval⟩
  rcases hsrc with hfa | ⟨r, hr, hc, hfr⟩
  · left
    have := h f (mem_validPart.2 ⟨hfa, isValid_pred (ha f hfa) hval⟩)
    exact (mem_validPart.1 this).1
  · right
    refine ⟨r, hr, ?_, hfr⟩
    rw [subset_iff] at *
    intro c hcm
    have hcv : isValid T v c = true := by
      simp only [upgradeOK, List.all_eq_true, Bool.and_eq_true] at hu
      exact (hu r hr).1 c hcm
    exact (mem_validPart.1 (h c (mem_validPart.2 ⟨hc c hcm, hcv⟩))).1

theorem apply_added {T : Tables} {v : Nat} {u : Upgrade} (hu : upgradeOK T v u = true)
    {a : List Feature} (ha : ∀ f ∈ a, added T f ≤ v) : ∀ f ∈ u.apply a, added T f ≤ v + 1 := by
  intro f hf
  rw [mem_apply] at hf
  rcases hf.1 with h | ⟨r, hr, _, hfr⟩
  · have := ha f h; omega
  · simp only [upgradeOK, List.all_eq_true, Bool.and_eq_true, decide_eq_true_eq] at hu
    exact (hu r hr).2 f hfr

theorem tablesOK_get {T : Tables} (h : tablesOK T = true) {i : Nat} {u : Upgrade}
    (hu : T.upgrades[i]? = some u) : upgradeOK T (i + 1) u = true := by
  simp only [tablesOK, List.all_eq_true, List.mem_range] at h
  have hi : i < T.upgrades.length := by
    rcases Nat.lt_or_ge i T.upgrades.length with h' | h'
    · exact h'
    · rw [List.getElem?_eq_none h'] at hu; cases hu
  have := h i hi
  rw [hu] at this
  exact this

theorem upgradeTo_mono {T : Tables} (hT : tablesOK T = true) (n : Nat) :
    ∀ (v : Nat) (a b : List Feature), 0 < v →
      (∀ f ∈ a, added T f ≤ v) → (∀ f ∈ b, added T f ≤ v) →
      subset (validPart T v a) (validPart T v b) = true →
      T.upgrades.length + 1 ≥ v + n →
      subset (validPart T (v + n) (upgradeTo T a v n)) (validPart T (v + n) (upgradeTo T b v n)) = true := by
  induction n with
  | zero => intro v a b _ _ _ h _; simpa [upgradeTo] using h
  | succ n ih =>
    intro v a b hv ha hb h hlen
    have hidx : v - 1 < T.upgrades.length := by omega
    obtain ⟨u, hu⟩ : ∃ u, T.upgrades[v - 1]? = some u := ⟨T.upgrades[v - 1], by simp [hidx]⟩
    have hok : upgradeOK T v u = true := by
      have := tablesOK_get hT hu
      have hv' : v - 1 + 1 = v := by omega
      rwa [hv'] at this
    simp only [upgradeTo, hu]
    have := ih (v + 1) (u.apply a) (u.apply b) (by omega) (apply_added hok ha) (apply_added hok hb)
      (apply_mono hok ha h) (by omega)
    have e : v + 1 + n = v + (n + 1) := by omega
    rwa [e] at this

end UPVerif.Kind

namespace UPVerif.Kind
/-! unfolding lemmas for kinds of one version (no upgrade happens) -/
theorem le_same {T : Tables} {a b : Kind} (h : a.ver T = b.ver T) :
    a.le T b = subset (validPart T (b.ver T) a.feats) (validPart T (b.ver T) b.feats) := by
  simp [Kind.le, equalize, h, upgradeTo]

theorem union_same {T : Tables} {a b : Kind} (h : a.ver T = b.ver T) :
    a.union T b = { feats := setUnion a.feats b.feats, version := some (b.ver T) } := by
  simp [Kind.union, equalize, h, upgradeTo]

theorem inter_same {T : Tables} {a b : Kind} (h : a.ver T = b.ver T) :
    a.inter T b = { feats := setInter a.feats b.feats, version := some (b.ver T) } := by
  simp [Kind.inter, equalize, h, upgradeTo]

theorem eq_same {T : Tables} {a b : Kind} (h : a.ver T = b.ver T) :
    a.eq T b = seteq (validPart T (b.ver T) a.feats) (validPart T (b.ver T) b.feats) := by
  simp [Kind.eq, h]

theorem ver_some {T : Tables} (fs : List Feature) (v : Nat) :
    ({ feats := fs, version := some v } : Kind).ver T = v := rfl
end UPVerif.Kind
