import UPVerif.Core.Build
/-! Helper lemmas for `Props/C22.lean` and `Props/C23.lean`: dict-as-list reasoning, the effect
constructor, clone, the invariants and their preservation by every building call. -/
namespace UPVerif.Build

/-! ### lists and dicts -/

theorem map_eq_self {α : Type} {f : α → α} : ∀ {l : List α}, (∀ x ∈ l, f x = x) → l.map f = l
  | [], _ => rfl
  | a :: l, h => by
    simp only [List.map_cons]
    rw [h a (by simp), map_eq_self (fun x hx => h x (by simp [hx]))]

/-- a dict: no key twice -/
def NoDupKeys {κ ν : Type} (d : List (κ × ν)) : Prop := (d.map Prod.fst).Nodup

section dict
variable {κ ν : Type} [DecidableEq κ]

theorem mem_dictSet {d : List (κ × ν)} {k : κ} {v : ν} {x : κ × ν} :
    x ∈ dictSet d k v → x = (k, v) ∨ x ∈ d := by
  induction d with
  | nil => intro h; simp [dictSet] at h; exact Or.inl h
  | cons a r ih =>
    obtain ⟨k', v'⟩ := a
    intro h
    simp only [dictSet] at h
    split at h
    · simp only [List.mem_cons] at h
      rcases h with h | h
      · exact Or.inl h
      · exact Or.inr (by simp [h])
    · simp only [List.mem_cons] at h
      rcases h with h | h
      · exact Or.inr (by simp [h])
      · rcases ih h with h | h
        · exact Or.inl h
        · exact Or.inr (by simp [h])

theorem mem_keys_dictSet {d : List (κ × ν)} {k : κ} {v : ν} {x : κ} :
    x ∈ (dictSet d k v).map Prod.fst → x = k ∨ x ∈ d.map Prod.fst := by
  intro h
  obtain ⟨p, hp, rfl⟩ := List.mem_map.1 h
  rcases mem_dictSet hp with h | h
  · left; rw [h]
  · right; exact List.mem_map.2 ⟨p, h, rfl⟩

theorem nodup_dictSet {d : List (κ × ν)} (k : κ) (v : ν) (h : NoDupKeys d) : NoDupKeys (dictSet d k v) := by
  induction d with
  | nil => simp [dictSet, NoDupKeys]
  | cons a r ih =>
    obtain ⟨k', v'⟩ := a
    simp only [NoDupKeys, List.map_cons, List.nodup_cons] at h
    simp only [dictSet]
    split
    · rename_i hk
      subst hk
      simp only [NoDupKeys, List.map_cons, List.nodup_cons]
      exact h
    · rename_i hk
      simp only [NoDupKeys, List.map_cons, List.nodup_cons]
      refine ⟨?_, ih h.2⟩
      intro hm
      rcases mem_keys_dictSet hm with h' | h'
      · exact hk h'
      · exact h.1 h'

theorem dictGet_of_mem {d : List (κ × ν)} (h : NoDupKeys d) {k : κ} {v : ν} (hm : (k, v) ∈ d) :
    dictGet d k = some v := by
  induction d with
  | nil => simp at hm
  | cons a r ih =>
    obtain ⟨k', v'⟩ := a
    simp only [NoDupKeys, List.map_cons, List.nodup_cons] at h
    simp only [List.mem_cons] at hm
    simp only [dictGet]
    rcases hm with hm | hm
    · simp only [Prod.mk.injEq] at hm
      simp [hm.1, hm.2]
    · split
      · rename_i hk
        exfalso
        apply h.1
        rw [hk]
        exact List.mem_map.2 ⟨(k, v), hm, rfl⟩
      · exact ih h.2 hm

theorem mem_of_dictGet {d : List (κ × ν)} {k : κ} {v : ν} (h : dictGet d k = some v) : (k, v) ∈ d := by
  induction d with
  | nil => simp [dictGet] at h
  | cons a r ih =>
    obtain ⟨k', v'⟩ := a
    simp only [dictGet] at h
    split at h
    · rename_i hk
      simp only [Option.some.injEq] at h
      simp [hk, h]
    · simp [ih h]

theorem dictSet_of_not_mem {d : List (κ × ν)} {k : κ} {v : ν} (h : k ∉ d.map Prod.fst) :
    dictSet d k v = d ++ [(k, v)] := by
  induction d with
  | nil => rfl
  | cons a r ih =>
    obtain ⟨k', v'⟩ := a
    simp only [List.map_cons, List.mem_cons, not_or] at h
    simp only [dictSet]
    rw [if_neg (fun e => h.1 e.symm), ih h.2]
    rfl

/-- re-inserting the items of a dict in order rebuilds it -/
theorem foldl_dictSet_append (d : List (κ × ν)) : ∀ (acc : List (κ × ν)),
    NoDupKeys d → (∀ kv ∈ d, kv.1 ∉ acc.map Prod.fst) →
    d.foldl (fun (m : List (κ × ν)) kv => dictSet m kv.1 kv.2) acc = acc ++ d := by
  induction d with
  | nil => intro acc _ _; simp
  | cons a r ih =>
    intro acc hnd hdis
    simp only [NoDupKeys, List.map_cons, List.nodup_cons] at hnd
    simp only [List.foldl_cons]
    rw [dictSet_of_not_mem (hdis a (by simp))]
    rw [ih (acc ++ [(a.1, a.2)]) hnd.2]
    · simp
    · intro kv hkv hm
      simp only [List.map_append, List.map_cons, List.map_nil, List.mem_append, List.mem_singleton] at hm
      rcases hm with hm | hm
      · exact hdis kv (by simp [hkv]) hm
      · apply hnd.1
        rw [← hm]
        exact List.mem_map.2 ⟨kv, hkv, rfl⟩

theorem foldl_dictSet_self {d : List (κ × ν)} (h : NoDupKeys d) :
    d.foldl (fun (m : List (κ × ν)) kv => dictSet m kv.1 kv.2) [] = d := by
  have := foldl_dictSet_append d [] h (by simp)
  simpa using this

theorem nodup_foldl_dictSet (l : List (κ × ν)) : ∀ (acc : List (κ × ν)), NoDupKeys acc →
    NoDupKeys (l.foldl (fun (m : List (κ × ν)) kv => dictSet m kv.1 kv.2) acc) := by
  induction l with
  | nil => intro acc h; exact h
  | cons a r ih => intro acc h; exact ih _ (nodup_dictSet _ _ h)

theorem mem_foldl_dictSet (l : List (κ × ν)) : ∀ (acc : List (κ × ν)) (x : κ × ν),
    x ∈ l.foldl (fun (m : List (κ × ν)) kv => dictSet m kv.1 kv.2) acc → x ∈ acc ∨ x ∈ l := by
  induction l with
  | nil => intro acc x h; exact Or.inl h
  | cons a r ih =>
    intro acc x h
    rcases ih _ x h with h | h
    · rcases mem_dictSet h with h | h
      · right; rw [h]; simp
      · exact Or.inl h
    · right; simp [h]

theorem all_dictSet {d : List (κ × ν)} {k : κ} {v : ν} {p : κ × ν → Bool}
    (hd : d.all p = true) (hp : p (k, v) = true) : (dictSet d k v).all p = true := by
  rw [List.all_eq_true] at *
  intro x hx
  rcases mem_dictSet hx with h | h
  · rw [h]; exact hp
  · exact hd x h

end dict

theorem nodupKeys_nil {κ ν : Type} : NoDupKeys ([] : List (κ × ν)) := by simp [NoDupKeys]

/-! ### reflexivity of the equalities -/

theorem setEqBy_refl {α : Type} {r : α → α → Bool} {a : List α} (h : ∀ x ∈ a, r x x = true) :
    setEqBy r a a = true := by
  simp only [setEqBy, Bool.and_eq_true, List.all_eq_true, List.any_eq_true]
  exact ⟨fun x hx => ⟨x, hx, h x hx⟩, fun x hx => ⟨x, hx, h x hx⟩⟩

theorem setEq_refl {α : Type} [DecidableEq α] (a : List α) : setEq a a = true :=
  setEqBy_refl (fun x _ => by simp)

theorem dictEq_refl {κ ν : Type} [DecidableEq κ] [DecidableEq ν] {d : List (κ × ν)} (h : NoDupKeys d) :
    dictEq d d = true := by
  simp only [dictEq, beq_self_eq_true, Bool.true_and, List.all_eq_true]
  intro kv hkv
  rw [dictGet_of_mem h (k := kv.1) (v := kv.2) hkv]
  simp

theorem timedEq_refl {κ ν : Type} [DecidableEq κ] {r : ν → ν → Bool} {d : List (κ × List ν)}
    (h : NoDupKeys d) (hr : ∀ x, r x x = true) : timedEq r d d = true := by
  simp only [timedEq, beq_self_eq_true, Bool.true_and, List.all_eq_true]
  intro kv hkv
  rw [dictGet_of_mem h (k := kv.1) (v := kv.2) hkv]
  exact setEqBy_refl (fun x _ => hr x)

theorem effectEq_refl (e : Effect) : effectEq e e = true := by
  simp [effectEq, setEq_refl]

theorem actionEq_refl (a : ActionSt) : actionEq a a = true := by
  unfold actionEq
  rw [setEq_refl, setEqBy_refl (fun e _ => effectEq_refl e)]
  simp

theorem multisetEqBy_refl {α : Type} (r : α → α → Bool) (a : List α) : multisetEqBy r a a = true := by
  simp [multisetEqBy]

theorem actionInSetEq_refl (a : ActionSt) : actionInSetEq a a = true := by
  simp [actionInSetEq, actionEq_refl, actionSameHash, multisetEqBy_refl]

/-! ### the effect constructor -/

theorem normForall_sub (free : List Var) : ∀ (vs seen : List Var) (v : Var),
    v ∈ normForall free vs seen → free.contains v = true ∧ v ∉ seen ∧ v ∈ vs := by
  intro vs
  induction vs with
  | nil => intro seen v h; simp [normForall] at h
  | cons a r ih =>
    intro seen v h
    simp only [normForall] at h
    split at h
    · rename_i hc
      simp only [Bool.and_eq_true, Bool.not_eq_eq_eq_not, Bool.not_true] at hc
      simp only [List.mem_cons] at h
      rcases h with h | h
      · subst h
        refine ⟨hc.1, ?_, by simp⟩
        intro hm
        have : seen.contains v = true := by simpa using hm
        rw [this] at hc
        exact absurd hc.2 (by simp)
      · obtain ⟨h1, h2, h3⟩ := ih _ _ h
        refine ⟨h1, ?_, by simp [h3]⟩
        intro hm
        exact h2 (by simp [hm])
    · obtain ⟨h1, h2, h3⟩ := ih _ _ h
      exact ⟨h1, h2, by simp [h3]⟩

theorem normForall_nodup (free : List Var) : ∀ (vs seen : List Var), (normForall free vs seen).Nodup := by
  intro vs
  induction vs with
  | nil => intro seen; simp [normForall]
  | cons a r ih =>
    intro seen
    simp only [normForall]
    split
    · rw [List.nodup_cons]
      refine ⟨?_, ih _⟩
      intro hm
      exact (normForall_sub free r (a :: seen) a hm).2.1 (by simp)
    · exact ih _

/-- on an already normalised list the normalisation is the identity -/
theorem normForall_fix (free : List Var) : ∀ (l seen : List Var),
    (∀ v ∈ l, free.contains v = true) → l.Nodup → (∀ v ∈ l, v ∉ seen) → normForall free l seen = l := by
  intro l
  induction l with
  | nil => intro seen _ _ _; rfl
  | cons a r ih =>
    intro seen hf hn hs
    rw [List.nodup_cons] at hn
    simp only [normForall]
    have h1 : free.contains a = true := hf a (by simp)
    have h2 : seen.contains a = false := by
      have := hs a (by simp)
      simpa using this
    simp only [h1, h2, Bool.not_false, Bool.and_self, ↓reduceIte]
    rw [ih (a :: seen) (fun v hv => hf v (by simp [hv])) hn.2]
    intro v hv hm
    simp only [List.mem_cons] at hm
    rcases hm with hm | hm
    · subst hm; exact hn.1 hv
    · exact hs v (by simp [hv]) hm

theorem normForall_idem (free vs : List Var) :
    normForall free (normForall free vs []) [] = normForall free vs [] :=
  normForall_fix free _ [] (fun v hv => (normForall_sub free vs [] v hv).1)
    (normForall_nodup free vs []) (fun v _ => by simp)

/-- an effect stored by the constructor is a fixed point of the constructor (so `Effect.clone`,
    which re-runs it, returns an identical effect) -/
def EffWF (e : Effect) : Prop := mkEffect e.fluent e.value e.cond e.kind e.forall_ = .ok e

theorem mkEffect_idem {f v c : Expr} {k : EffKind} {vs : List Var} {e : Effect}
    (h : mkEffect f v c k vs = .ok e) : EffWF e := by
  unfold mkEffect at h
  split at h
  · rename_i fr args
    split at h
    · cases h
    · split at h
      · cases h
      · dsimp only at h
        split at h
        · rename_i h1 h2 h3
          simp only [Except.ok.injEq] at h
          subst h
          simp only [EffWF, mkEffect]
          rw [if_neg h1, if_neg h2, normForall_idem, if_pos h3]
        · cases h
  · cases h

theorem effectClone_of_WF {e : Effect} (h : EffWF e) : effectClone e = e := by
  simp only [effectClone]
  rw [h]

end UPVerif.Build
