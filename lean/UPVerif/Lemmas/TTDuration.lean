import UPVerif.Lemmas.TTAdmissible
/-!
Helper lemmas for `Props/C05.lean`: what the duration constraint of a durative action instance
(`durationCond`, the grounded `And(lower (<|<=) duration, duration (<|<=) upper)`) says when it
evaluates to TRUE.
-/
namespace UPVerif.TT
open UPVerif UPVerif.Expr UPVerif.Sim UPVerif.Spec UPVerif.Spec.Temporal

/-- keys of a parameter substitution are parameter leaves -/
theorem paramSubst_keys {P : Problem} {params : List (String × Ty)} {args : List String} :
    ∀ kv ∈ paramSubst' P params args, ∃ n t, kv.1 = .leaf (.param n t) := by
  intro kv hkv
  simp only [paramSubst', List.mem_map] at hkv
  obtain ⟨pa, _, rfl⟩ := hkv
  exact ⟨_, _, rfl⟩

theorem lookup_none_of_keys {σ : Subst} {e : Expr} (hk : ∀ kv ∈ σ, ∃ n t, kv.1 = .leaf (.param n t))
    (he : ∀ n t, e ≠ .leaf (.param n t)) : σ.lookup e = none := by
  induction σ with
  | nil => rfl
  | cons kv r ih =>
    obtain ⟨k, v⟩ := kv
    obtain ⟨n, t, hkv⟩ := hk (k, v) (by simp)
    simp only at hkv
    subst hkv
    have : (e == Expr.leaf (.param n t)) = false := by
      simpa using he n t
    simp only [List.lookup, this]
    exact ih (fun kv hkv => hk kv (by simp [hkv]))

theorem subst_le {σ : Subst} (hk : ∀ kv ∈ σ, ∃ n t, kv.1 = .leaf (.param n t)) (a b : Expr) :
    subst σ (.app .le [a, b]) = .app .le [subst σ a, subst σ b] := by
  simp only [subst, lookup_none_of_keys hk (e := .app .le [a, b]) (by intro n t h; cases h),
    walkReplaceOrIdentity, identityNode, rebuild, substList]
theorem subst_lt {σ : Subst} (hk : ∀ kv ∈ σ, ∃ n t, kv.1 = .leaf (.param n t)) (a b : Expr) :
    subst σ (.app .lt [a, b]) = .app .lt [subst σ a, subst σ b] := by
  simp only [subst, lookup_none_of_keys hk (e := .app .lt [a, b]) (by intro n t h; cases h),
    walkReplaceOrIdentity, identityNode, rebuild, substList]
theorem subst_and2 {σ : Subst} (hk : ∀ kv ∈ σ, ∃ n t, kv.1 = .leaf (.param n t)) (a b : Expr) :
    subst σ (.app .and [a, b]) = .app .and [subst σ a, subst σ b] := by
  simp only [subst, lookup_none_of_keys hk (e := .app .and [a, b]) (by intro n t h; cases h),
    walkReplaceOrIdentity, identityNode, rebuild, substList, mkAnd]
theorem subst_real {σ : Subst} (hk : ∀ kv ∈ σ, ∃ n t, kv.1 = .leaf (.param n t)) (q : Rat) :
    subst σ (Expr.real q) = Expr.real q := by
  simp only [Expr.real, subst, lookup_none_of_keys hk (e := .leaf (.realC q)) (by intro n t h; cases h),
    walkReplaceOrIdentity, identityNode]
end UPVerif.TT
namespace UPVerif.TT
open UPVerif UPVerif.Expr UPVerif.Sim UPVerif.Spec UPVerif.Spec.Temporal

theorem eval_le_iff {c : EvalCtx} {a b : Expr} {r : Bool} :
    eval c [] (.app .le [a, b]) = .ok (.b r) ↔
      ∃ x y, eval c [] a = .ok (.n x) ∧ eval c [] b = .ok (.n y) ∧ r = decide (x ≤ y) := by
  simp only [eval, evalList]
  cases hb : eval c [] b with
  | error e => simp
  | ok vb =>
    cases ha : eval c [] a with
    | error e => simp
    | ok va =>
      cases va <;> cases vb <;> simp [evalOp, denOp]
      exact eq_comm

theorem eval_lt_iff {c : EvalCtx} {a b : Expr} {r : Bool} :
    eval c [] (.app .lt [a, b]) = .ok (.b r) ↔
      ∃ x y, eval c [] a = .ok (.n x) ∧ eval c [] b = .ok (.n y) ∧ r = decide (x < y) := by
  simp only [eval, evalList]
  cases hb : eval c [] b with
  | error e => simp
  | ok vb =>
    cases ha : eval c [] a with
    | error e => simp
    | ok va =>
      cases va <;> cases vb <;> simp [evalOp, denOp]
      exact eq_comm

theorem evalBool_and2 {c : EvalCtx} {A B : Expr} :
    evalBool c (.app .and [A, B]) = .ok true ↔ eval c [] A = .ok (.b true) ∧ eval c [] B = .ok (.b true) := by
  simp only [evalBool, eval, evalList]
  cases hb : eval c [] B with
  | error e => simp
  | ok vb =>
    cases ha : eval c [] A with
    | error e => simp
    | ok va =>
      cases va <;> cases vb <;> simp [evalOp, denOp, allBools]
end UPVerif.TT
namespace UPVerif.TT
open UPVerif UPVerif.Expr UPVerif.Sim UPVerif.Spec UPVerif.Spec.Temporal

theorem substE_le {σ : Subst} (hk : ∀ kv ∈ σ, ∃ n t, kv.1 = .leaf (.param n t)) (a b : Expr) :
    substE σ (.app .le [a, b]) = .app .le [substE σ a, substE σ b] := by
  unfold substE; split
  · rfl
  · exact subst_le hk a b
theorem substE_lt {σ : Subst} (hk : ∀ kv ∈ σ, ∃ n t, kv.1 = .leaf (.param n t)) (a b : Expr) :
    substE σ (.app .lt [a, b]) = .app .lt [substE σ a, substE σ b] := by
  unfold substE; split
  · rfl
  · exact subst_lt hk a b
theorem substE_and2 {σ : Subst} (hk : ∀ kv ∈ σ, ∃ n t, kv.1 = .leaf (.param n t)) (a b : Expr) :
    substE σ (.app .and [a, b]) = .app .and [substE σ a, substE σ b] := by
  unfold substE; split
  · rfl
  · exact subst_and2 hk a b
theorem substE_real {σ : Subst} (hk : ∀ kv ∈ σ, ∃ n t, kv.1 = .leaf (.param n t)) (q : Rat) :
    substE σ (Expr.real q) = Expr.real q := by
  unfold substE; split
  · rfl
  · exact subst_real hk q

theorem eval_real (c : EvalCtx) (q : Rat) : eval c [] (Expr.real q) = .ok (.n q) := by
  simp [Expr.real, eval, evalLeaf]

/-- what the duration constraint of a durative action instance says -/
theorem durationCond_holds {P : Problem} {c : EvalCtx} {d : DurAction} {args : List String} {du : Rat} :
    evalBool c (durationCond P d args du) = .ok true ↔
      ∃ lo hi, eval c [] (substE (paramSubst' P d.params args) d.durLo) = .ok (.n lo) ∧
        eval c [] (substE (paramSubst' P d.params args) d.durHi) = .ok (.n hi) ∧
        (if d.durLeftOpen then lo < du else lo ≤ du) ∧ (if d.durRightOpen then du < hi else du ≤ hi) := by
  have hk := paramSubst_keys (P := P) (params := d.params) (args := args)
  unfold durationCond
  simp only [mkAnd, mkGT, mkGE, mkLT, mkLE]
  rw [substE_and2 hk, evalBool_and2]
  cases hl : d.durLeftOpen <;> cases hr : d.durRightOpen <;>
    simp only [Bool.false_eq_true, ↓reduceIte, substE_le hk, substE_lt hk, substE_real hk,
      eval_le_iff, eval_lt_iff, eval_real]
  all_goals
    constructor
    · rintro ⟨⟨x, y, h1, h2, h3⟩, ⟨x', y', h4, h5, h6⟩⟩
      cases h2; cases h4
      exact ⟨x, y', h1, h5, by simpa using h3.symm, by simpa using h6.symm⟩
    · rintro ⟨lo, hi, h1, h2, h3, h4⟩
      exact ⟨⟨lo, du, h1, rfl, by simpa using h3⟩, ⟨du, hi, rfl, h2, by simpa using h4⟩⟩
end UPVerif.TT
