import UPVerif.Lemmas.WellFormedBasic
import UPVerif.Lemmas.WellFormedQR
/-!
Helper lemmas for `Props/C08Models.lean`, part 6: `add_invariant_condition_apply_function_to_problem_expressions` and
the two compilers built on it (`StateInvariantsRemover`, `BoundedTypesRemover`) keep a well-formed problem well-formed
(names kept; dropped actions only shrink the name space), their map-backs are total and land in the original problem,
and the compiled problem has no state invariant / no fluent of a bounded type.  No Mathlib.
-/
namespace UPVerif.Compile
open UPVerif UPVerif.Expr UPVerif.Sim UPVerif.WF UPVerif.Declared

/-! ### lists -/

theorem filterMap_sublist_map {α β : Type} (f : α → Option β) (h : α → β) (hf : ∀ x y, f x = some y → y = h x) :
    ∀ l : List α, (l.filterMap f).Sublist (l.map h)
  | [] => List.Sublist.slnil
  | x :: l => by
    rw [List.filterMap_cons, List.map_cons]
    cases hx : f x with
    | none => exact (filterMap_sublist_map f h hf l).cons _
    | some y =>
      simp only []
      rw [hf x y hx]
      exact (filterMap_sublist_map f h hf l).cons_cons _

theorem mem_foldl_dedup : ∀ (l acc : List Var) (x : Var),
    x ∈ l.foldl (fun acc v => if acc.contains v then acc else acc ++ [v]) acc → x ∈ acc ∨ x ∈ l
  | [], acc, x, h => .inl h
  | v :: l, acc, x, h => by
    rw [List.foldl_cons] at h
    rcases mem_foldl_dedup l _ x h with h | h
    · split at h
      · exact .inl h
      · rcases List.mem_append.1 h with h | h
        · exact .inl h
        · simp at h; subst h; exact .inr (by simp)
    · exact .inr (List.mem_cons_of_mem _ h)

theorem mem_dedupVars {l : List Var} {x : Var} (h : x ∈ dedupVars l) : x ∈ l := by
  rcases mem_foldl_dedup l [] x h with h | h
  · cases h
  · exact h

/-! ### the helper -/

/-- `fn` maps what is declared in `D` to what is declared in `D'` -/
def FnWF (fn : Expr → Expr) (D D' : Decls) : Prop :=
  ∀ (ps : List (String × Ty)) (e : Expr), wfExpr D ps e = true → wfExpr D' ps (fn e) = true

theorem FnWF_id (D : Decls) : FnWF id D D := fun _ _ h => h

theorem applyFnEffect_wf {fn : Expr → Expr} {D D' : Decls} (hfn : FnWF fn D D')
    (hty : ∀ t, tyDeclared D t = true → tyDeclared D' t = true) {ps : List (String × Ty)} {e e' : Effect}
    (h : applyFnEffect fn e = some e') (he : wfEffect D ps e = true) : wfEffect D' ps e' = true := by
  unfold applyFnEffect mkEffect at h
  simp only [] at h
  split at h
  · simp only [Option.some.injEq] at h
    subst h
    rw [wfEffect_iff] at he ⊢
    refine ⟨?_, hfn ps _ he.2.1, hfn ps _ he.2.2.1, hfn ps _ he.2.2.2⟩
    intro v hv
    exact hty _ (he.1 v (List.mem_filter.1 (mem_dedupVars hv)).1)
  · cases h

theorem mapM_applyFnEffect_wf {fn : Expr → Expr} {D D' : Decls} (hfn : FnWF fn D D')
    (hty : ∀ t, tyDeclared D t = true → tyDeclared D' t = true) {ps : List (String × Ty)} {effs effs' : List Effect}
    (h : effs.mapM (applyFnEffect fn) = some effs') (he : ∀ e ∈ effs, wfEffect D ps e = true) :
    ∀ e' ∈ effs', wfEffect D' ps e' = true := by
  intro e' he'
  obtain ⟨e, hm, hf⟩ := mapM_some_mem h he'
  exact applyFnEffect_wf hfn hty hf (he e hm)

/-- the per-action part of the helper -/
theorem invAction_spec {simp fn : Expr → Expr} {D D' : Decls} (hs : SimpWF simp) (hfn : FnWF fn D D')
    (hty : ∀ t, tyDeclared D t = true → tyDeclared D' t = true) {cond : Expr} (hc : wfExpr D' [] cond = true)
    {a a' : Action} (h : invAction simp fn cond a = some (some a')) :
    a'.name = a.name ∧ (wfAction D a = true → wfAction D' a' = true) := by
  unfold invAction at h
  simp only [] at h
  split at h
  · cases h
  · split at h
    · cases h
    · rename_i effs heffs
      simp only [Option.some.injEq] at h
      subst h
      refine ⟨rfl, fun ha => ?_⟩
      rw [wfAction_iff] at ha ⊢
      refine ⟨fun p hp => hty _ (ha.1 p hp), ?_, mapM_applyFnEffect_wf hfn hty heffs ha.2.2⟩
      intro x hx
      rcases mem_foldl_addPre _ _ x hx with hx | hx
      · cases hx
      · refine holds_splitAnd (hs _ _ _ (wfExpr_mkAnd ?_)) x hx
        intro y hy
        rcases List.mem_append.1 hy with hy | hy
        · obtain ⟨p, hp, rfl⟩ := List.mem_map.1 hy
          exact hfn _ _ (ha.2.1 p hp)
        · simp only [List.mem_singleton] at hy
          subst hy
          exact wfExpr_of_closed _ hc

theorem invGoals_wf {simp fn : Expr → Expr} {D D' : Decls} (hs : SimpWF simp) (hfn : FnWF fn D D') {cond : Expr}
    (hc : wfExpr D' [] cond = true) {goals : List Expr} (hg : ∀ g ∈ goals, wfExpr D [] g = true) :
    ∀ g ∈ invGoals simp fn cond goals, wfExpr D' [] g = true := by
  intro x hx
  unfold invGoals at hx
  rcases mem_foldl_addGoal _ _ x hx with hx | hx
  · cases hx
  · refine holds_splitAnd (hs _ _ _ (wfExpr_mkAnd ?_)) x hx
    intro y hy
    rcases List.mem_append.1 hy with hy | hy
    · obtain ⟨g, hg', rfl⟩ := List.mem_map.1 hy
      exact hfn _ _ (hg g hg')
    · simp only [List.mem_singleton] at hy
      subst hy
      exact hc

/-- what the helper returns: the surviving actions in order, each under its own name with the position it came from -/
theorem addInvariantCondition_spec {simp fn : Expr → Expr} {cond : Expr} {P : Problem}
    {acts : List (Action × Option Nat)} {goals traj : List Expr}
    (h : addInvariantCondition simp fn cond P = some (acts, goals, traj)) :
    (acts.map (fun ab => ab.1.name)).Sublist (P.actions.map (·.name)) ∧
    (∀ ab ∈ acts, ∃ i a, ab.2 = some i ∧ P.actions[i]? = some a ∧ i < P.actions.length ∧
      invAction simp fn cond a = some (some ab.1)) ∧
    goals = invGoals simp fn cond P.goals ∧ traj = P.traj.map (fun tc => simp (fn tc)) := by
  unfold addInvariantCondition at h
  simp only [] at h
  split at h
  · cases h
  · simp only [Option.some.injEq, Prod.mk.injEq] at h
    obtain ⟨hacts, hgoals, htraj⟩ := h
    have hmem : ∀ ab ∈ acts, ∃ i a, ab.2 = some i ∧ P.actions[i]? = some a ∧ i < P.actions.length ∧
        invAction simp fn cond a = some (some ab.1) := by
      intro ab hab
      rw [← hacts] at hab
      obtain ⟨r, hr, hrab⟩ := List.mem_filterMap.1 hab
      obtain ⟨ia, hia, hiar⟩ := List.mem_filterMap.1 hr
      obtain ⟨hget, hlt⟩ := mem_zip_range (i := ia.1) (a := ia.2) hia
      cases hinv : invAction simp fn cond ia.2 with
      | none => simp [hinv] at hiar
      | some r1 =>
        simp only [hinv, Option.map_some, Option.some.injEq] at hiar
        subst hiar
        cases r1 with
        | none => simp at hrab
        | some a' =>
          simp only [Option.map_some, Option.some.injEq] at hrab
          subst hrab
          exact ⟨ia.1, ia.2, rfl, hget, hlt, hinv⟩
    refine ⟨?_, hmem, hgoals.symm, htraj.symm⟩
    rw [← hacts, List.filterMap_filterMap, List.map_filterMap]
    have := filterMap_sublist_map
      (fun ia : Nat × Action => (((invAction simp fn cond ia.2).map (fun r => (r, ia.1))).bind
        (fun r => r.1.map (fun a => (a, some r.2)))).map (fun ab => ab.1.name))
      (fun ia => ia.2.name) ?_ ((List.range P.actions.length).zip P.actions)
    · have hmap : ((List.range P.actions.length).zip P.actions).map (fun ia => ia.2.name)
          = P.actions.map (·.name) := by
        conv => rhs; rw [← map_snd_zip_range P.actions]
        rw [List.map_map]; rfl
      rw [hmap] at this
      exact this
    · intro ia y hy
      cases hinv : invAction simp fn cond ia.2 with
      | none => simp [hinv] at hy
      | some r1 =>
        cases r1 with
        | none => simp [hinv] at hy
        | some a' =>
          simp only [hinv, Option.map_some, Option.bind_some, Option.some.injEq] at hy
          rw [← hy]
          unfold invAction at hinv
          simp only [] at hinv
          split at hinv
          · cases hinv
          · split at hinv
            · cases hinv
            · simp only [Option.some.injEq] at hinv
              rw [← hinv]

/-- the part of a compilation through the helper that does not depend on which compiler it is -/
theorem inv_actions_wf {simp fn : Expr → Expr} {D' : Decls} {P : Problem} (hs : SimpWF simp)
    (hfn : FnWF fn (declsOf P) D') (hty : ∀ t, tyDeclared (declsOf P) t = true → tyDeclared D' t = true)
    {cond : Expr} (hc : wfExpr D' [] cond = true) (hP : WellFormed P)
    {acts : List (Action × Option Nat)} {goals traj : List Expr}
    (h : addInvariantCondition simp fn cond P = some (acts, goals, traj)) :
    (∀ a ∈ acts.map (·.1), wfAction D' a = true) ∧ (∀ g ∈ goals, wfExpr D' [] g = true) ∧
    (∀ t ∈ traj, wfExpr D' [] t = true) := by
  obtain ⟨_, hmem, hg, ht⟩ := addInvariantCondition_spec h
  refine ⟨?_, ?_, ?_⟩
  · intro a ha
    obtain ⟨ab, hab, rfl⟩ := List.mem_map.1 ha
    obtain ⟨i, a0, _, hget, _, hinv⟩ := hmem ab hab
    exact (invAction_spec hs hfn hty hc hinv).2 (hP.actions a0 (List.mem_of_getElem? hget))
  · rw [hg]; exact invGoals_wf hs hfn hc hP.goals
  · rw [ht]
    intro t htm
    obtain ⟨tc, htc, rfl⟩ := List.mem_map.1 htm
    exact hs _ _ _ (hfn _ _ (hP.traj tc htc))

theorem inv_backOK {simp fn : Expr → Expr} {cond : Expr} {P : Problem}
    {acts : List (Action × Option Nat)} {goals traj : List Expr}
    (h : addInvariantCondition simp fn cond P = some (acts, goals, traj)) :
    backOK P.actions.length (acts.map (·.1)) (acts.map (·.2)) = true := by
  obtain ⟨_, hmem, _, _⟩ := addInvariantCondition_spec h
  rw [backOK_iff]
  refine ⟨by simp, ?_⟩
  intro b hb i hi
  obtain ⟨ab, hab, rfl⟩ := List.mem_map.1 hb
  obtain ⟨j, a0, hj, _, hlt, _⟩ := hmem ab hab
  rw [hj] at hi
  simp only [Option.some.injEq] at hi
  omega

/-! ### StateInvariantsRemover -/

/-- the bodies of the `Always` constraints only mention what the constraints mention -/
theorem wf_stateInvariants {P : Problem} (hP : WellFormed P) :
    ∀ si ∈ Sim.stateInvariants P, wfExpr (declsOf P) [] si = true := by
  intro si hsi
  unfold Sim.stateInvariants at hsi
  obtain ⟨tc, htc, hx⟩ := List.mem_flatMap.1 hsi
  have hw := hP.traj tc htc
  split at hx
  · rename_i b
    simp only [List.mem_singleton] at hx
    subst hx
    exact ((holds_app _ _ _).1 hw).2 _ (by simp)
  · rename_i as
    obtain ⟨a, ha, hab⟩ := List.mem_filterMap.1 hx
    have hwa := ((holds_app _ _ _).1 hw).2 a ha
    split at hab
    · rename_i b
      simp only [Option.some.injEq] at hab
      subst hab
      exact ((holds_app _ _ _).1 hwa).2 _ (by simp)
    · cases hab
  · rename_i vs b
    simp only [List.mem_singleton] at hx
    subst hx
    have h1 := (holds_quant _ _ _ _).1 hw
    exact (holds_quant _ _ _ _).2 ⟨h1.1, ((holds_app _ _ _).1 h1.2).2 _ (by simp)⟩
  · cases hx

theorem sirTraj_wf {simp : Expr → Expr} (hs : SimpWF simp) {D : Decls} {traj : List Expr}
    (ht : ∀ t ∈ traj, wfExpr D [] t = true) : ∀ t ∈ sirTraj simp traj, wfExpr D [] t = true := by
  intro t htm
  unfold sirTraj at htm
  obtain ⟨x, hx, rfl⟩ := List.mem_map.1 htm
  apply hs
  obtain ⟨tc, htc, hxt⟩ := List.mem_flatMap.1 hx
  have hw := ht tc htc
  split at hxt
  · exact ((holds_app _ _ _).1 hw).2 x (List.mem_filter.1 hxt).1
  · split at hxt
    · cases hxt
    · simp only [List.mem_singleton] at hxt
      subst hxt
      exact hw
  · cases hxt
  · simp only [List.mem_singleton] at hxt
    subst hxt
    exact hw

theorem sirCompile_eq {simp : Expr → Expr} {P : Problem} {c : Compiled} (h : sirCompileN simp P = some c) :
    ∃ acts goals traj, addInvariantCondition simp id (simp (mkAnd (Sim.stateInvariants P))) P = some (acts, goals, traj) ∧
      c = { prob := { P with actions := acts.map (·.1), goals := goals, traj := sirTraj simp traj },
            back := acts.map (·.2) } := by
  unfold sirCompileN sirCompile at h
  simp only [] at h
  split at h
  · cases h
  · rename_i acts goals traj heq
    simp only [Option.some.injEq] at h
    exact ⟨acts, goals, traj, heq, h.symm⟩

theorem sir_wellFormed {simp : Expr → Expr} (hs : SimpWF simp) {P : Problem} {c : Compiled} (hP : WellFormed P)
    (hm : P.metrics = []) (h : sirCompileN simp P = some c) : WellFormed c.prob := by
  obtain ⟨acts, goals, traj, heq, rfl⟩ := sirCompile_eq h
  have hc : wfExpr (declsOf P) [] (simp (mkAnd (Sim.stateInvariants P))) = true :=
    hs _ _ _ (wfExpr_mkAnd (wf_stateInvariants hP))
  obtain ⟨ha, hg, ht⟩ := inv_actions_wf hs (FnWF_id _) (fun _ h => h) hc hP heq
  refine ⟨?_, hP.objects, hP.fluents, hP.init, ha, hg, sirTraj_wf hs ht, ?_⟩
  · show (otherNames P ++ (acts.map (·.1)).map (·.name)).Nodup
    rw [List.map_map]
    exact (((addInvariantCondition_spec heq).1).append_left _).nodup hP.names
  · intro m hmm
    have : m ∈ P.metrics := hmm
    rw [hm] at this
    cases this

theorem sir_backOK {simp : Expr → Expr} {P : Problem} {c : Compiled} (h : sirCompileN simp P = some c) :
    backOK P.actions.length c.prob.actions c.back = true := by
  obtain ⟨acts, goals, traj, heq, rfl⟩ := sirCompile_eq h
  exact inv_backOK heq

/-! #### no state invariant is left -/

/-- the temporal operators of a trajectory constraint -/
def isTemporal : Expr → Bool
  | .app .always _ => true
  | .app .sometime _ => true
  | .app .sometimeBefore _ => true
  | .app .sometimeAfter _ => true
  | .app .atMostOnce _ => true
  | _ => false

/-- the form `Problem.add_trajectory_constraint` (problem.py:678) accepts and what it may be simplified to: a
    temporal operator, a conjunction of them, a universally quantified one, or a Boolean constant -/
def trajShape : Expr → Bool
  | .app .and as => as.all isTemporal
  | .quant .all _ b => isTemporal b
  | .leaf (.boolC _) => true
  | e => isTemporal e

/-- what one trajectory constraint contributes to `Problem.state_invariants` (problem.py:700) -/
def invariantsOf (tc : Expr) : List Expr :=
  match tc with
  | .app .always [b] => [b]
  | .app .and as => as.filterMap (fun a => match a with
    | .app .always [b] => some b
    | _ => none)
  | .quant .all vs (.app .always [b]) => [.quant .all vs b]
  | _ => []

theorem stateInvariants_eq (P : Problem) : Sim.stateInvariants P = P.traj.flatMap invariantsOf := rfl

/-- what `StateInvariantsRemover` needs of the simplifier to reach its target: a constraint of the accepted form keeps
    that form, and one that contributes no state invariant still contributes none -/
def SimpTraj (simp : Expr → Expr) : Prop :=
  ∀ e, trajShape e = true → trajShape (simp e) = true ∧ (invariantsOf e = [] → invariantsOf (simp e) = [])

theorem SimpTraj_id : SimpTraj id := fun _ h => ⟨h, fun h' => h'⟩

theorem isTemporal_shape {e : Expr} (h : isTemporal e = true) : trajShape e = true := by
  unfold isTemporal at h
  split at h <;> first | rfl | cases h

/-- a temporal operator other than `Always` contributes no invariant -/
theorem invariantsOf_temporal {e : Expr} (h : isTemporal e = true) (hna : ∀ as, e ≠ .app .always as) :
    invariantsOf e = [] := by
  unfold isTemporal at h
  split at h
  · exact absurd rfl (hna _)
  · rfl
  · rfl
  · rfl
  · rfl
  · cases h

theorem sirTraj_noInvariants {simp : Expr → Expr} (hs : SimpTraj simp) {traj : List Expr}
    (ht : ∀ t ∈ traj, trajShape t = true) : ∀ t ∈ sirTraj simp traj, invariantsOf t = [] := by
  intro t htm
  unfold sirTraj at htm
  obtain ⟨x, hx, rfl⟩ := List.mem_map.1 htm
  obtain ⟨tc, htc, hxt⟩ := List.mem_flatMap.1 hx
  have hsh := ht tc htc
  suffices hgoal : trajShape x = true ∧ invariantsOf x = [] from (hs x hgoal.1).2 hgoal.2
  split at hxt
  · rename_i as
    obtain ⟨hxa, hnot⟩ := List.mem_filter.1 hxt
    have hxt' : isTemporal x = true := by
      have : as.all isTemporal = true := hsh
      exact List.all_eq_true.1 this x hxa
    refine ⟨isTemporal_shape hxt', invariantsOf_temporal hxt' ?_⟩
    intro bs hbs
    subst hbs
    simp at hnot
  · rename_i vs b
    split at hxt
    · cases hxt
    · rename_i hnb
      simp only [List.mem_singleton] at hxt
      subst hxt
      refine ⟨hsh, ?_⟩
      have hb : isTemporal b = true := hsh
      unfold invariantsOf
      split
      · rename_i heq; cases heq
      · rename_i heq; cases heq
      · rename_i vs' b' heq
        simp only [Expr.quant.injEq] at heq
        exact absurd heq.2.2 (hnb _)
      · rfl
  · cases hxt
  · rename_i h1 h2 h3
    simp only [List.mem_singleton] at hxt
    subst hxt
    refine ⟨hsh, ?_⟩
    unfold invariantsOf
    split
    · exact absurd rfl (h3 _)
    · exact absurd rfl (h1 _)
    · exact absurd rfl (h2 _ _)
    · rfl

theorem sir_target {simp : Expr → Expr} (hs : SimpTraj simp) {P : Problem} {c : Compiled}
    (hsh : ∀ t ∈ P.traj, trajShape t = true) (h : sirCompileN simp P = some c) : noInvariants c.prob = true := by
  obtain ⟨acts, goals, traj, heq, rfl⟩ := sirCompile_eq h
  obtain ⟨_, _, _, htraj⟩ := addInvariantCondition_spec heq
  unfold noInvariants
  rw [stateInvariants_eq]
  rw [List.isEmpty_iff, List.flatMap_eq_nil_iff]
  apply sirTraj_noInvariants hs
  rw [htraj]
  intro t htm
  obtain ⟨tc, htc, rfl⟩ := List.mem_map.1 htm
  exact (hs tc (hsh tc htc)).1

end UPVerif.Compile
