import UPVerif.Lemmas.SimplifyQuant
import UPVerif.Lemmas.DenLemmas
/-!
Helper lemmas for `Props/C11.lean`, part 9: simplification introduces no new free variable
(`simpF_freeVars`).  No Mathlib.
-/
namespace UPVerif.Simp
open Expr

theorem mem_freeVarsList {x : Var} : ∀ {es : List Expr},
    x ∈ freeVarsList es ↔ ∃ e, e ∈ es ∧ x ∈ freeVars e
  | [] => by simp [freeVarsList]
  | e :: es => by
    rw [freeVarsList, List.mem_append, mem_freeVarsList (es := es)]
    constructor
    · rintro (h | ⟨e', he', hx⟩)
      · exact ⟨e, by simp, h⟩
      · exact ⟨e', List.mem_cons_of_mem _ he', hx⟩
    · rintro ⟨e', he', hx⟩
      rcases List.mem_cons.1 he' with rfl | he'
      · exact .inl hx
      · exact .inr ⟨e', he', hx⟩

/-- "all free variables satisfy `Q`" is compositional -/
theorem comp_freeVars (Q : Var → Prop) : Comp (fun e => ∀ x, x ∈ freeVars e → Q x) where
  bool b := by intro x hx; simp [freeVars] at hx
  int z := by intro x hx; simp [freeVars] at hx
  real r := by intro x hx; simp [freeVars] at hx
  app op l := by
    simp only [freeVars]
    constructor
    · intro h e he x hx; exact h x (mem_freeVarsList.2 ⟨e, he, hx⟩)
    · intro h x hx
      obtain ⟨e, he, hx'⟩ := mem_freeVarsList.1 hx
      exact h e he x hx'

theorem freeVars_const {v : Expr} (h : v.isConstant = true) : freeVars v = [] := by
  unfold isConstant at h
  split at h <;> first | rfl | cases h

theorem tablesOK_freeVars {cfg : SimpCfg} (hct : cfg.constTables = true) (Q : Var → Prop) :
    TablesOK cfg (fun e => ∀ x, x ∈ freeVars e → Q x) where
  init f args v hv := by
    simp only [SimpCfg.constTables, Bool.and_eq_true, List.all_eq_true] at hct
    have hcv : v.isConstant = true := by
      unfold SimpCfg.initialValue at hv
      split at hv
      · rename_i w hw
        simp only [Option.some.injEq] at hv; subst hv
        obtain ⟨k', hk⟩ := lookup_some_mem hw
        exact hct.1 _ hk
      · obtain ⟨k', hk⟩ := lookup_some_mem hv
        exact hct.2 _ hk
    intro x hx; rw [freeVars_const hcv] at hx; cases hx
  funs g vs r e' _ hconv := by
    unfold convResult at hconv
    split at hconv <;> simp only [pure, Except.pure, Except.ok.injEq, reduceCtorEq] at hconv <;>
      subst hconv <;> intro x hx <;> simp [Expr.bool, Expr.int, Expr.real, freeVars] at hx

/-! ### free variables of a substitution `[x := t]` -/

theorem lookup_single' (k t e : Expr) :
    List.lookup e [(k, t)] = if e = k then some t else none := by
  simp only [List.lookup]
  by_cases h : e = k
  · subst h; simp
  · have : (e == k) = false := by simpa using h
    simp [this, h]

theorem keptUnder_single_var' (vs : List Var) (x : Var) (t : Expr) :
    keptUnder vs [(.leaf (.var x), t)] = if vs.contains x then [] else [(.leaf (.var x), t)] := by
  unfold keptUnder
  simp only [List.filter, freeVars, List.all_cons, List.all_nil, Bool.and_true]
  cases vs.contains x <;> simp

mutual
theorem freeVars_subst_var {x : Var} {t : Expr} : ∀ (e : Expr) (y : Var),
    y ∈ freeVars (subst [(.leaf (.var x), t)] e) → (y ∈ freeVars e ∧ y ≠ x) ∨ y ∈ freeVars t
  | .leaf l, y, h => by
    by_cases hl : Expr.leaf l = .leaf (.var x)
    · rw [subst_of_lookup_some _ _ t (by rw [lookup_single', if_pos hl])] at h
      exact .inr h
    · rw [subst_leaf_none _ _ (by rw [lookup_single', if_neg hl])] at h
      refine .inl ⟨h, ?_⟩
      intro hyx; subst hyx
      cases l with
      | var z =>
        simp only [freeVars, List.mem_singleton] at h; subst h; exact hl rfl
      | _ => simp [freeVars] at h
  | .app op args, y, h => by
    rw [subst_app_none _ _ _ (by rw [lookup_single', if_neg (by simp)])] at h
    have hcomp := comp_freeVars (fun y => (y ∈ freeVarsList args ∧ y ≠ x) ∨ y ∈ freeVars t)
    have hr := hcomp.rebuild (op := op) (l := substList [(.leaf (.var x), t)] args)
      (fun e he z hz => freeVarsList_subst_var args e he z hz) y h
    rw [freeVars]; exact hr
  | .quant q vs b, y, h => by
    rw [subst_quant_none _ _ _ _ (by rw [lookup_single', if_neg (by simp)]), keptUnder_single_var'] at h
    by_cases hx : vs.contains x = true
    · simp only [hx, if_true, List.isEmpty_nil] at h
      refine .inl ⟨h, ?_⟩
      intro hyx; subst hyx
      exact (mem_freeVars_quant.1 h).2 (by simpa using hx)
    · have hx' : vs.contains x = false := by simpa using hx
      simp only [hx', Bool.false_eq_true, if_false, List.isEmpty_cons] at h
      obtain ⟨hy, hyvs⟩ := mem_freeVars_quant.1 h
      rcases freeVars_subst_var b y hy with ⟨hyb, hne⟩ | ht
      · exact .inl ⟨mem_freeVars_quant.2 ⟨hyb, hyvs⟩, hne⟩
      · exact .inr ht
theorem freeVarsList_subst_var {x : Var} {t : Expr} : ∀ (es : List Expr) (e : Expr),
    e ∈ substList [(.leaf (.var x), t)] es → ∀ y, y ∈ freeVars e →
      (y ∈ freeVarsList es ∧ y ≠ x) ∨ y ∈ freeVars t
  | [], e, he, _, _ => by rw [substList_nil] at he; cases he
  | a :: as, e, he, y, hy => by
    rw [substList_cons] at he
    rw [freeVarsList]
    rcases List.mem_cons.1 he with rfl | he
    · rcases freeVars_subst_var a y hy with ⟨h1, h2⟩ | h
      · exact .inl ⟨List.mem_append_left _ h1, h2⟩
      · exact .inr h
    · rcases freeVarsList_subst_var as e he y hy with ⟨h1, h2⟩ | h
      · exact .inl ⟨List.mem_append_right _ h1, h2⟩
      · exact .inr h
end

/-! ### the main theorem -/

theorem freeVars_mkAnd_sub {l : List Expr} {y : Var} (h : y ∈ freeVars (mkAnd l)) :
    y ∈ freeVarsList l := by
  have hcomp := comp_freeVars (fun y => y ∈ freeVarsList l)
  exact hcomp.mkAnd (fun e he z hz => mem_freeVarsList.2 ⟨e, he, hz⟩) y h

theorem All₂.exists_left {α β : Type} {R : α → β → Prop} :
    ∀ {as : List α} {bs : List β}, All₂ R as bs → ∀ b, b ∈ bs → ∃ a, a ∈ as ∧ R a b
  | _, _, .nil, b, hb => by cases hb
  | _, _, .cons hab hrest, b, hb => by
    rcases List.mem_cons.1 hb with rfl | hb
    · exact ⟨_, by simp, hab⟩
    · obtain ⟨a, ha, hr⟩ := All₂.exists_left hrest b hb
      exact ⟨a, List.mem_cons_of_mem _ ha, hr⟩

/-- simplification introduces no new free variable -/
theorem simpF_freeVars (cfg : SimpCfg) (hct : cfg.constTables = true) :
    ∀ n e e', simpF cfg n e = .ok e' → ∀ x, x ∈ freeVars e' → x ∈ freeVars e := by
  apply simpF_induct cfg (fun e e' => ∀ x, x ∈ freeVars e' → x ∈ freeVars e)
  · intro l x hx; exact hx
  · intro op args as e' hall hw x hx
    have hcomp := comp_freeVars (fun y => y ∈ freeVarsList args)
    have has : ∀ a, a ∈ as → ∀ y, y ∈ freeVars a → y ∈ freeVarsList args := by
      intro b hb y hy
      obtain ⟨a, ha, hab⟩ := All₂.exists_left hall b hb
      exact mem_freeVarsList.2 ⟨a, ha, hab y hy⟩
    rw [freeVars]
    exact walkApp_comp hcomp (tablesOK_freeVars hct _) has hw x hx
  · intro vs b b' hb x hx
    unfold walkForall at hx
    simp only [] at hx
    rw [mem_freeVars_quant]
    split at hx
    · rename_i hemp
      refine ⟨hb x hx, fun hxvs => ?_⟩
      have : x ∈ vs.filter (fun v => (freeVars b').contains v) :=
        List.mem_filter.2 ⟨hxvs, by simpa using hx⟩
      rw [List.isEmpty_iff.1 hemp] at this; cases this
    · obtain ⟨hxb, hxn⟩ := mem_freeVars_quant.1 hx
      exact ⟨hb x hxb, fun hxvs => hxn (List.mem_filter.2 ⟨hxvs, by simpa using hxb⟩)⟩
  · intro vs b b' e' resimp hb hres hw x hx
    obtain ⟨vars', b'', hloop, rfl⟩ := walkExists_ok hw
    have hinv := elimLoop_inv (cfg := cfg) (resimp := resimp)
      (fun vars e => (∀ y, y ∈ freeVars e → y ∈ freeVars b') ∧
        (∀ y, y ∈ vs → y ∈ freeVars e → y ∈ vars)) ?_ _ _ _ _ _
      ⟨fun y hy => hy, fun y hy hyb => List.mem_filter.2 ⟨hy, by simpa using hyb⟩⟩ hloop
    · obtain ⟨h1, h2⟩ := hinv
      rw [mem_freeVars_quant]
      split at hx
      · rename_i hemp
        refine ⟨hb x (h1 x hx), fun hxvs => ?_⟩
        have := h2 x hxvs hx
        rw [List.isEmpty_iff.1 hemp] at this; cases this
      · obtain ⟨hxb, hxn⟩ := mem_freeVars_quant.1 hx
        exact ⟨hb x (h1 x hxb), fun hxvs => hxn (h2 x hxvs hxb)⟩
    · intro vars cs z value rest e1 hI hf hr
      obtain ⟨h1, h2⟩ := hI
      obtain ⟨pre, c, post, hcs, hrest, hcand, hel⟩ := findElim_some hf
      simp only [List.nil_append] at hcs
      obtain ⟨_, hcform⟩ := elimCandidate_some hcand
      simp only [eligible, Bool.and_eq_true, Bool.not_eq_eq_eq_not, Bool.not_true,
        List.contains_eq_mem, decide_eq_false_iff_not] at hel
      have hzt : z ∉ freeVars value := hel.1.1
      -- free variables of the pieces are free variables of the conjunction
      have hval : ∀ y, y ∈ freeVars value → y ∈ freeVars (.app .and cs) := by
        intro y hy
        rw [freeVars]
        refine mem_freeVarsList.2 ⟨c, by rw [hcs]; simp, ?_⟩
        rcases hcform with rfl | rfl <;> simp [freeVars, freeVarsList, hy]
      have hrestv : ∀ y, y ∈ freeVars rest → y ∈ freeVars (.app .and cs) := by
        intro y hy
        rw [hrest] at hy
        obtain ⟨e, he, hye⟩ := mem_freeVarsList.1 (freeVars_mkAnd_sub hy)
        rw [freeVars]
        refine mem_freeVarsList.2 ⟨e, ?_, hye⟩
        rw [hcs]
        rcases List.mem_append.1 he with he | he
        · exact List.mem_append_left _ he
        · exact List.mem_append_right _ (List.mem_cons_of_mem _ he)
      have hsub : ∀ y, y ∈ freeVars e1 → y ∈ freeVars (.app .and cs) ∧ y ≠ z := by
        intro y hy
        rcases freeVars_subst_var rest y (hres _ _ hr y hy) with ⟨hyr, hne⟩ | hyt
        · exact ⟨hrestv y hyr, hne⟩
        · exact ⟨hval y hyt, fun h => hzt (h ▸ hyt)⟩
      refine ⟨fun y hy => h1 y (hsub y hy).1, fun y hyvs hy => ?_⟩
      obtain ⟨hyc, hne⟩ := hsub y hy
      exact List.mem_filter.2 ⟨List.mem_filter.2 ⟨h2 y hyvs hyc, by simpa using hne⟩, by simpa using hy⟩

end UPVerif.Simp
