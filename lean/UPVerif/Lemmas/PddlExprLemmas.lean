import UPVerif.Core.PddlNorm
import UPVerif.Lemmas.PddlNumLemmas
/-! Helper lemmas for the expression clause of `Props/C18.lean`: reading back what `printExpr` prints. -/
namespace UPVerif.Pddl
open UPVerif

/-- the exact-decimal round trip, proved in `Lemmas/PddlNumRat.lean` (kept as a parameter here so that this
    file does not load Mathlib) -/
def DecimalRoundTrip : Prop := ∀ (r : Rat) (s : String), decimalStr r = some s → parseNumber s = some r

/-! ### `?`-names -/

theorem stripQ_eq_some {s x : String} (h : stripQ s = some x) : s.toList = '?' :: x.toList := by
  unfold stripQ at h
  split at h
  · rename_i r heq
    simp only [Option.some.injEq] at h
    subst h
    rw [heq, String.toList_ofList]
  · simp at h

theorem stripQ_inj {s1 s2 x : String} (h1 : stripQ s1 = some x) (h2 : stripQ s2 = some x) : s1 = s2 :=
  String.ext (by rw [stripQ_eq_some h1, stripQ_eq_some h2])

theorem stripQ_ne_dash {s x : String} (h : stripQ s = some x) : (s == "-") = false := by
  have := stripQ_eq_some h
  cases hs : s == "-" with
  | false => rfl
  | true =>
    have : s = "-" := by simpa using hs
    subst this
    simp at *

theorem charDigit_q : charDigit? '?' = none := by decide

/-- a `?`-token is not a number -/
theorem parseNumber_stripQ {s : String} {q : Rat} (h : parseNumber s = some q) : stripQ s = none := by
  cases hq : stripQ s with
  | none => rfl
  | some x =>
    exfalso
    have hl := stripQ_eq_some hq
    unfold parseNumber at h
    rw [hl] at h
    have hu : parseUnsigned ('?' :: x.toList) = none := by
      unfold parseUnsigned
      have hsplit : ∃ a b, splitAtDot ('?' :: x.toList) = ('?' :: a, b) := by
        unfold splitAtDot
        split
        · rename_i heq; cases heq
        · rename_i heq; simp at heq
        · rename_i c r hc heq
          injection heq with h1 h2
          subst h1 h2
          cases splitAtDot x.toList with
          | mk a b => exact ⟨a, b, rfl⟩
      obtain ⟨a, b, hab⟩ := hsplit
      rw [hab]
      have hp : parseNat? ('?' :: a) = none := by
        unfold parseNat?
        simp [digitsVal?, charDigit_q]
      cases b with
      | none => simp [hp]
      | some fp => simp [hp]
    have : parseNumberChars ('?' :: x.toList) = parseUnsigned ('?' :: x.toList) :=
      parseNumberChars_of_head (by decide) (by decide)
    rw [this, hu] at h
    simp at h

/-! ### integers as leaves -/

theorem numLeaf_int (z : Int) : numLeaf (z : Rat) = Expr.int z := by
  unfold numLeaf
  simp [Rat.den_intCast, Rat.num_intCast]

/-! ### typed variable lists -/

theorem typedGroups_var_step (vn x tn : String) (rest : List Sexp) (hx : stripQ vn = some x) :
    typedGroups true (.atom vn :: .atom "-" :: .atom tn :: rest) [] =
      (typedGroups true rest []).map (fun gs => ([x], some tn) :: gs) := by
  rw [typedGroups]
  simp only [stripQ_ne_dash hx, Bool.false_eq_true, ↓reduceIte, hx]
  rw [typedGroups]
  simp

/-! ### declarations, well-formedness, and what the reading environment must know -/

/-- what an expression may mention -/
structure Decls where
  fluents : List FluentRef
  objects : List (String × String)
  params : List (String × Ty)

mutual
/-- every fluent / object / parameter of the expression is declared, every variable is bound (by an enclosing
    quantifier of the expression or by the given scope) -/
def WF (D : Decls) : List Var → Expr → Prop
  | _, .leaf (.obj n t) => (n, t) ∈ D.objects
  | _, .leaf (.param n ty) => (n, ty) ∈ D.params
  | sc, .leaf (.var v) => v ∈ sc
  | _, .leaf _ => True
  | sc, .app (.fluent f) as => f ∈ D.fluents ∧ WFs D sc as
  | sc, .app _ as => WFs D sc as
  | sc, .quant _ vs b => WF D (vs ++ sc) b
def WFs (D : Decls) : List Var → List Expr → Prop
  | _, [] => True
  | sc, e :: es => WF D sc e ∧ WFs D sc es
end

/-- the reading environment inverts the renaming on the declared names, and the new names cannot be confused
    with operators, quantifiers, numbers or one another (facts C38 proves about the writer's renaming) -/
structure EnvOK (ρ : Ren) (D : Decls) (E : REnv) : Prop where
  fluent : ∀ f ∈ D.fluents, ∀ n f', ρ (.fluent f.name) = some n → normRef ρ f = some f' →
      E.fluent? n = some f' ∧ isOperator n = false ∧ (n == "exists" || n == "forall") = false ∧ isTrajOp n = false
  object : ∀ o ∈ D.objects, ∀ n t', ρ (.obj o.1) = some n → ρ (.ty o.2) = some t' →
      stripQ n = none ∧ E.fluent? n = none ∧ E.object? n = some t'
  param : ∀ p ∈ D.params, ∀ t s t', p.2 = .user t → ρ (.param p.1 t) = some s → ρ (.ty t) = some t' →
      ∃ x ps, stripQ s = some x ∧ E.params = some ps ∧ ps.lookup x = some (.user t')
  paramVar : ∀ p ∈ D.params, ∀ t s, p.2 = .user t → ρ (.param p.1 t) = some s → ∀ vn vt, ρ (.var vn vt) ≠ some s
  varInj : ∀ a ta b tb s, ρ (.var a ta) = some s → ρ (.var b tb) = some s → a = b ∧ ta = tb
  ty : ∀ t t', ρ (.ty t) = some t' → E.types.contains t' = true
  numbers : ∀ s q, parseNumber s = some q → E.fluent? s = none ∧ E.object? s = none

/-- every variable in scope is found, under its new name, in the reader's scope -/
def ScopeOK (ρ : Ren) (sc rsc : List Var) : Prop :=
  ∀ v ∈ sc, ∀ v', normVar ρ v = some v' → lookupVar rsc v'.name = some v'

/-- the reader's scope only holds renamed variables -/
def ScopeVars (ρ : Ren) (rsc : List Var) : Prop :=
  ∀ w ∈ rsc, ∃ a ta s, ρ (.var a ta) = some s ∧ stripQ s = some w.name

theorem normVar_spec {ρ : Ren} {v v' : Var} (h : normVar ρ v = some v') :
    ∃ t s tn, v.ty = .user t ∧ ρ (.var v.name t) = some s ∧ stripQ s = some v'.name ∧ ρ (.ty t) = some tn ∧
      v' = { name := v'.name, ty := .user tn } := by
  unfold normVar at h
  cases hty : v.ty with
  | user t =>
    simp only [hty, tyName?, Option.bind_eq_bind, Option.bind_some] at h
    cases hs : ρ (.var v.name t) with
    | none => simp [hs] at h
    | some s =>
      cases hx : stripQ s with
      | none => simp [hs, hx] at h
      | some x =>
        cases htn : ρ (.ty t) with
        | none => simp [hs, hx, htn] at h
        | some tn =>
          simp only [hs, hx, htn, Option.bind_some, Option.some.injEq] at h
          subst h
          exact ⟨t, s, tn, rfl, hs, hx, htn, rfl⟩
  | bool => simp [hty, tyName?] at h
  | int _ _ => simp [hty, tyName?] at h
  | real _ _ => simp [hty, tyName?] at h
  | time => simp [hty, tyName?] at h

/-- two variables whose new names coincide are the same variable -/
theorem normVar_name_inj {ρ : Ren} {D : Decls} {E : REnv} (ok : EnvOK ρ D E) {u v u' v' : Var}
    (hu : normVar ρ u = some u') (hv : normVar ρ v = some v') (hn : u'.name = v'.name) : u' = v' := by
  obtain ⟨t1, s1, tn1, ht1, hs1, hx1, htn1, hu'⟩ := normVar_spec hu
  obtain ⟨t2, s2, tn2, ht2, hs2, hx2, htn2, hv'⟩ := normVar_spec hv
  rw [hn] at hx1
  have hs : s1 = s2 := stripQ_inj hx1 hx2
  subst hs
  obtain ⟨hname, hty⟩ := ok.varInj _ _ _ _ _ hs1 hs2
  subst hty
  rw [htn1] at htn2
  injection htn2 with htn
  subst htn
  rw [hu', hv', hn]

theorem normVars_spec {ρ : Ren} : ∀ {vs vs' : List Var}, normVars ρ vs = some vs' →
    (∀ w ∈ vs', ∃ v ∈ vs, normVar ρ v = some w) ∧ (∀ v ∈ vs, ∃ w ∈ vs', normVar ρ v = some w)
  | [], vs', h => by
    simp [normVars] at h
    subst h
    exact ⟨by simp, by simp⟩
  | v :: vs, vs', h => by
    simp only [normVars, Option.bind_eq_bind] at h
    cases hv : normVar ρ v with
    | none => simp [hv] at h
    | some w =>
      cases hr : normVars ρ vs with
      | none => simp [hv, hr] at h
      | some ws =>
        simp only [hv, hr, Option.bind_some, Option.some.injEq] at h
        subst h
        obtain ⟨h1, h2⟩ := normVars_spec hr
        constructor
        · intro x hx
          cases hx with
          | head => exact ⟨v, List.mem_cons_self, hv⟩
          | tail _ hm =>
            obtain ⟨y, hy, hyn⟩ := h1 x hm
            exact ⟨y, List.mem_cons_of_mem _ hy, hyn⟩
        · intro x hx
          cases hx with
          | head => exact ⟨w, List.mem_cons_self, hv⟩
          | tail _ hm =>
            obtain ⟨y, hy, hyn⟩ := h2 x hm
            exact ⟨y, List.mem_cons_of_mem _ hy, hyn⟩

theorem scopeVars_extend {ρ : Ren} {vs vs' rsc : List Var} (hn : normVars ρ vs = some vs')
    (h : ScopeVars ρ rsc) : ScopeVars ρ (extendScope rsc vs') := by
  intro w hw
  unfold extendScope at hw
  rcases List.mem_append.mp hw with h1 | h1
  · obtain ⟨v, _, hv⟩ := (normVars_spec hn).1 w h1
    obtain ⟨t, s, tn, _, hs, hx, _, _⟩ := normVar_spec hv
    exact ⟨v.name, t, s, hs, hx⟩
  · exact h w h1

theorem scopeOK_extend {ρ : Ren} {D : Decls} {E : REnv} (ok : EnvOK ρ D E) {vs vs' sc rsc : List Var}
    (hn : normVars ρ vs = some vs') (h : ScopeOK ρ sc rsc) : ScopeOK ρ (vs ++ sc) (extendScope rsc vs') := by
  intro v hv v' hv'
  unfold extendScope lookupVar
  rw [List.find?_append]
  cases hf : List.find? (fun w => w.name == v'.name) vs' with
  | some w =>
    -- a renamed variable of this quantifier with the same new name: it is the same variable
    show some w = some v'
    have hw : w ∈ vs' := List.mem_of_find?_eq_some hf
    have hwn : w.name = v'.name := by simpa using List.find?_some hf
    obtain ⟨u, _, hu⟩ := (normVars_spec hn).1 w hw
    rw [normVar_name_inj ok hu hv' hwn]
  | none =>
    show List.find? (fun w => w.name == v'.name) rsc = some v'
    rcases List.mem_append.mp hv with h1 | h1
    · exfalso
      obtain ⟨w, hw, hwv⟩ := (normVars_spec hn).2 v h1
      rw [hv'] at hwv
      injection hwv with hwv
      subst hwv
      have := List.find?_eq_none.mp hf v' hw
      simp at this
    · exact h v h1 v' hv'

/-- the typed variable list printed for a quantifier / universal effect is read back as the renamed variables -/
theorem declVars_printVars {ρ : Ren} {D : Decls} {E : REnv} (ok : EnvOK ρ D E) :
    ∀ {vs vs' : List Var} {vl : List Sexp}, printVars ρ vs = some vl → normVars ρ vs = some vs' →
      (typedList true vl).bind (declVars E) = some vs'
  | [], vs', vl, hp, hn => by
    simp [printVars] at hp
    simp [normVars] at hn
    subst hp hn
    simp [typedList, typedGroups, declVars]
  | v :: vs, vs', vl, hp, hn => by
    simp only [normVars, Option.bind_eq_bind] at hn
    cases hv : normVar ρ v with
    | none => simp [hv] at hn
    | some w =>
      cases hr : normVars ρ vs with
      | none => simp [hv, hr] at hn
      | some ws =>
        simp only [hv, hr, Option.bind_some, Option.some.injEq] at hn
        subst hn
        obtain ⟨t, s, tn, hty, hs, hx, htn, hw⟩ := normVar_spec hv
        simp only [printVars, hty, tyName?, Option.bind_eq_bind, Option.bind_some, hs, htn] at hp
        cases hrest : printVars ρ vs with
        | none => simp [hrest] at hp
        | some rl =>
          simp only [hrest, Option.bind_some, Option.some.injEq] at hp
          subst hp
          have ih := declVars_printVars ok hrest hr
          unfold typedList at ih ⊢
          simp only [A]
          rw [typedGroups_var_step _ _ _ _ hx]
          cases hg : typedGroups true rl [] with
          | none => simp [hg] at ih
          | some gs =>
            simp only [hg, Option.bind_some] at ih
            simp only [Option.map_some, Option.bind_some, declVars, REnv.tyOf, Option.getD_some, ok.ty _ _ htn,
              ↓reduceIte, Option.bind_eq_bind, ih, List.map_cons, List.map_nil, List.cons_append, List.nil_append,
              Option.some.injEq, List.cons.injEq, and_true]
            exact hw.symm

/-! ### the dispatch of `readList` on the tokens the writer produces -/

theorem readList_op (E : REnv) (rsc : List Var) (h : String) (rest : List Sexp) (hop : isOperator h = true)
    (hun : (h == "-" && rest.length == 1) = false) :
    readList E rsc (.atom h :: rest) = (readExprs E rsc rest).bind (applyOp h) := by
  rw [readList.eq_def]
  simp [hun, hop]

theorem not_dash_of_not_operator {n : String} (h : isOperator n = false) : (n == "-") = false := by
  cases hn : n == "-" with
  | false => rfl
  | true =>
    have : n = "-" := by simpa using hn
    subst this
    exact absurd h (by decide)

theorem readList_fluent (E : REnv) (rsc : List Var) (n : String) (rest : List Sexp) (f' : FluentRef)
    (hfl : E.fluent? n = some f') (hop : isOperator n = false)
    (hq : (n == "exists" || n == "forall") = false) (ht : isTrajOp n = false) :
    readList E rsc (.atom n :: rest) =
      (readExprs E rsc rest).bind (fun as => if as.length == f'.sig.length then some (.app (.fluent f') as) else none) := by
  rw [readList.eq_def]
  simp only [not_dash_of_not_operator hop, Bool.false_and, Bool.false_eq_true, ↓reduceIte, hop, hq, ht, hfl]

theorem readList_exists (E : REnv) (rsc : List Var) (vl : List Sexp) (body : Sexp) (vs : List Var)
    (hv : (typedList true vl).bind (declVars E) = some vs) (hne : vs.isEmpty = false) :
    readList E rsc (.atom "exists" :: [.list vl, body]) =
      (readExpr E (extendScope rsc vs) body).map (fun b => .quant .ex vs b) := by
  rw [readList.eq_def]
  simp [isOperator, hv, hne, quantOf]

theorem readList_forall (E : REnv) (rsc : List Var) (vl : List Sexp) (body : Sexp) (vs : List Var)
    (hv : (typedList true vl).bind (declVars E) = some vs) (hne : vs.isEmpty = false) :
    readList E rsc (.atom "forall" :: [.list vl, body]) =
      (readExpr E (extendScope rsc vs) body).map (fun b => .quant .all vs b) := by
  rw [readList.eq_def]
  simp [isOperator, hv, hne, quantOf]

theorem readExprs_cons (E : REnv) (rsc : List Var) (x : Sexp) (xs : List Sexp) (e : Expr) (es : List Expr)
    (h1 : readExpr E rsc x = some e) (h2 : readExprs E rsc xs = some es) :
    readExprs E rsc (x :: xs) = some (e :: es) := by
  rw [readExprs]
  simp [h1, h2]

/-- the right-nested tree written for an n-ary `+` / `*` is read back as the right-nested binary expression -/
theorem read_nest (E : REnv) (rsc : List Var) (tok : String) (op : Op)
    (hop : isOperator tok = true) (hnd : (tok == "-") = false)
    (happ : ∀ a b, applyOp tok [a, b] = some (.app op [a, b])) :
    ∀ (ys : List Sexp) (es : List Expr) (acc : Sexp) (acce : Expr),
      readExpr E rsc acc = some acce → readExprs E rsc ys = some es →
      readExpr E rsc (ys.foldl (fun a y => L [A tok, y, a]) acc) = some (es.foldl (fun a y => .app op [y, a]) acce)
  | [], es, acc, acce, hacc, hys => by
    simp [readExprs] at hys
    subst hys
    simpa using hacc
  | y :: ys, es, acc, acce, hacc, hys => by
    rw [readExprs] at hys
    cases hy : readExpr E rsc y with
    | none => simp [hy] at hys
    | some ye =>
      cases hr : readExprs E rsc ys with
      | none => simp [hy, hr] at hys
      | some res =>
        simp only [hy, hr, Option.bind_eq_bind, Option.bind_some, Option.some.injEq] at hys
        subst hys
        simp only [List.foldl_cons]
        apply read_nest E rsc tok op hop hnd happ ys res _ _ _ hr
        simp only [L, A, readExpr]
        rw [readList_op E rsc tok _ hop (by simp [hnd])]
        rw [readExprs_cons E rsc y [acc] ye [acce] hy (readExprs_cons E rsc acc [] acce [] hacc (by simp [readExprs]))]
        simp [happ]

theorem read_binary (E : REnv) (rsc : List Var) (tok : String) (x y : Sexp) (a b r : Expr)
    (hop : isOperator tok = true) (hx : readExpr E rsc x = some a) (hy : readExpr E rsc y = some b)
    (happ : applyOp tok [a, b] = some r) : readExpr E rsc (L [A tok, x, y]) = some r := by
  simp only [L, A, readExpr]
  rw [readList_op E rsc tok _ hop (by simp)]
  rw [readExprs_cons E rsc x [y] a [b] hx (readExprs_cons E rsc y [] b [] hy (by simp [readExprs]))]
  simp [happ]

theorem printExprs_length {ρ : Ren} : ∀ {as : List Expr} {xs : List Sexp}, printExprs ρ as = some xs → xs.length = as.length
  | [], xs, h => by
    simp [printExprs] at h
    subst h
    rfl
  | a :: as, xs, h => by
    simp only [printExprs, Option.bind_eq_bind, Option.bind_eq_some_iff, Option.some.injEq] at h
    obtain ⟨x, _, ys, hys, rfl⟩ := h
    simp [printExprs_length hys]

theorem normExprs_length {ρ : Ren} : ∀ {as as' : List Expr}, normExprs ρ as = some as' → as'.length = as.length
  | [], xs, h => by
    simp [normExprs] at h
    subst h
    rfl
  | a :: as, xs, h => by
    simp only [normExprs, Option.bind_eq_bind, Option.bind_eq_some_iff, Option.some.injEq] at h
    obtain ⟨x, _, ys, hys, rfl⟩ := h
    simp [normExprs_length hys]

/-! ### the expression round trip -/

mutual
theorem readExpr_printExpr {ρ : Ren} {D : Decls} {E : REnv} (hdec : DecimalRoundTrip) (ok : EnvOK ρ D E) :
    ∀ (e : Expr) (sc rsc : List Var) (t : Sexp) (e' : Expr), WF D sc e → ScopeOK ρ sc rsc → ScopeVars ρ rsc →
      printExpr ρ e = some t → normExpr ρ e = some e' → readExpr E rsc t = some e'
  | .leaf (.boolC _), _, _, _, _, _, _, _, hp, _ => by simp [printExpr] at hp
  | .leaf (.timing _), _, _, _, _, _, _, _, hp, _ => by simp [printExpr] at hp
  | .leaf (.present _), _, _, _, _, _, _, _, hp, _ => by simp [printExpr] at hp
  | .leaf (.intC z), sc, rsc, t, e', hwf, hs, hv, hp, hn => by
    simp only [printExpr, Option.some.injEq] at hp
    simp only [normExpr, Option.some.injEq] at hn
    subst hp hn
    have hnum := parseNumber_intStr z
    have hq := parseNumber_stripQ hnum
    obtain ⟨hf, ho⟩ := ok.numbers _ _ hnum
    simp only [A, readExpr, readAtom, hq, hf, ho, hnum, Option.map_some, numLeaf_int]
  | .leaf (.realC r), sc, rsc, t, e', hwf, hs, hv, hp, hn => by
    simp only [printExpr, Option.map_eq_some_iff] at hp
    obtain ⟨s, hs', rfl⟩ := hp
    simp only [normExpr, hs', Option.isSome_some, ↓reduceIte, Option.some.injEq] at hn
    subst hn
    have hnum := hdec r s hs'
    have hq := parseNumber_stripQ hnum
    obtain ⟨hf, ho⟩ := ok.numbers _ _ hnum
    simp only [A, readExpr, readAtom, hq, hf, ho, hnum, Option.map_some]
  | .leaf (.obj n ty), sc, rsc, t, e', hwf, hs, hv, hp, hn => by
    simp only [printExpr, Option.map_eq_some_iff] at hp
    obtain ⟨n', hn', rfl⟩ := hp
    simp only [normExpr, Option.bind_eq_bind, Option.bind_eq_some_iff, Option.some.injEq] at hn
    obtain ⟨n'', hn'', t', ht', rfl⟩ := hn
    rw [hn'] at hn''
    injection hn'' with hn''
    subst hn''
    simp only [WF] at hwf
    obtain ⟨hq, hf, ho⟩ := ok.object (n, ty) hwf n' t' hn' ht'
    simp only [A, readExpr, readAtom, hq, hf, ho]
  | .leaf (.param n ty), sc, rsc, t, e', hwf, hs, hv, hp, hn => by
    simp only [printExpr, Option.bind_eq_some_iff, Option.map_eq_some_iff] at hp
    obtain ⟨tn, htn, s, hs', rfl⟩ := hp
    simp only [normExpr, Option.bind_eq_bind, Option.bind_eq_some_iff, Option.some.injEq] at hn
    obtain ⟨tn2, htn2, x, ⟨s2, hs2, hx⟩, t', ht', rfl⟩ := hn
    rw [htn] at htn2
    injection htn2 with htn2
    subst htn2
    rw [hs'] at hs2
    injection hs2 with hs2
    subst hs2
    have hty : ty = .user tn := by
      cases ty <;> simp [tyName?] at htn
      subst htn
      rfl
    simp only [WF] at hwf
    obtain ⟨x2, ps, hx2, hps, hlk⟩ := ok.param (n, ty) hwf tn s t' hty hs' ht'
    rw [hx] at hx2
    injection hx2 with hx2
    subst hx2
    -- the new parameter name is not the new name of any variable in scope
    have hnone : lookupVar rsc x = none := by
      unfold lookupVar
      rw [List.find?_eq_none]
      intro w hw hwn
      obtain ⟨a, ta, sv, hsv, hxv⟩ := hv w hw
      have hwn' : w.name = x := by simpa using hwn
      rw [hwn'] at hxv
      have : sv = s := stripQ_inj hxv hx
      subst this
      exact ok.paramVar (n, ty) hwf tn sv hty hs' a ta hsv
    simp only [A, readExpr, readAtom, hx, hnone, hps, hlk, Option.map_some]
  | .leaf (.var v), sc, rsc, t, e', hwf, hs, hv, hp, hn => by
    simp only [printExpr, Option.bind_eq_some_iff, Option.map_eq_some_iff] at hp
    obtain ⟨tn, htn, s, hs', rfl⟩ := hp
    simp only [normExpr, Option.map_eq_some_iff] at hn
    obtain ⟨v', hv', rfl⟩ := hn
    obtain ⟨t2, s2, tn2, hty, hs2, hx, _, _⟩ := normVar_spec hv'
    have : t2 = tn := by
      rw [hty] at htn
      simpa [tyName?] using htn
    subst this
    rw [hs'] at hs2
    injection hs2 with hs2
    subst hs2
    simp only [WF] at hwf
    have hl := hs v hwf v' hv'
    simp only [A, readExpr, readAtom, hx, hl]
  | .app .and as, sc, rsc, t, e', hwf, hs, hv, hp, hn => by
    simp only [printExpr] at hp
    simp only [normExpr] at hn
    split at hp
    · rename_i hlen
      simp only [hlen, ↓reduceIte, Option.map_eq_some_iff] at hn hp
      obtain ⟨xs, hxs, rfl⟩ := hp
      obtain ⟨as', has, rfl⟩ := hn
      simp only [WF] at hwf
      simp only [L, A, readExpr]
      rw [readList_op E rsc "and" _ (by decide) (by simp),
        readExprs_printExprs hdec ok as sc rsc xs as' hwf hs hv hxs has]
      rfl
    · simp at hp
  | .app .or as, sc, rsc, t, e', hwf, hs, hv, hp, hn => by
    simp only [printExpr] at hp
    simp only [normExpr] at hn
    split at hp
    · rename_i hlen
      simp only [hlen, ↓reduceIte, Option.map_eq_some_iff] at hn hp
      obtain ⟨xs, hxs, rfl⟩ := hp
      obtain ⟨as', has, rfl⟩ := hn
      simp only [WF] at hwf
      simp only [L, A, readExpr]
      rw [readList_op E rsc "or" _ (by decide) (by simp),
        readExprs_printExprs hdec ok as sc rsc xs as' hwf hs hv hxs has]
      rfl
    · simp at hp
  | .app .not [a], sc, rsc, t, e', hwf, hs, hv, hp, hn => by
    simp only [printExpr, Option.map_eq_some_iff] at hp
    simp only [normExpr, Option.map_eq_some_iff] at hn
    simp only [WF, WFs, and_true] at hwf
    obtain ⟨x, hx, rfl⟩ := hp
    obtain ⟨a', ha, rfl⟩ := hn
    simp only [L, A, readExpr]
    rw [readList_op E rsc "not" _ (by decide) (by simp),
      readExprs_cons E rsc x [] a' [] (readExpr_printExpr hdec ok a sc rsc x a' hwf hs hv hx ha) (by simp [readExprs])]
    rfl
  | .app .not [], _, _, _, _, _, _, _, hp, _ => by simp [printExpr] at hp
  | .app .not (_ :: _ :: _), _, _, _, _, _, _, _, hp, _ => by simp [printExpr] at hp
  | .app .iff [a, b], sc, rsc, t, e', hwf, hs, hv, hp, hn => by
    simp only [printExpr, Option.bind_eq_bind, Option.bind_eq_some_iff, Option.some.injEq] at hp
    simp only [normExpr, Option.bind_eq_bind, Option.bind_eq_some_iff, Option.some.injEq] at hn
    simp only [WF, WFs, and_true] at hwf
    obtain ⟨x, hx, y, hy, rfl⟩ := hp
    obtain ⟨a', ha, b', hb, rfl⟩ := hn
    have ra := readExpr_printExpr hdec ok a sc rsc x a' hwf.1 hs hv hx ha
    have rb := readExpr_printExpr hdec ok b sc rsc y b' hwf.2 hs hv hy hb
    have h1 := read_binary E rsc "imply" x y a' b' _ (by decide) ra rb rfl
    have h2 := read_binary E rsc "imply" y x b' a' _ (by decide) rb ra rfl
    simp only [L, A, readExpr] at h1 h2 ⊢
    rw [readList_op E rsc "and" _ (by decide) (by simp)]
    rw [readExprs_cons E rsc _ _ _ _ (by simpa [readExpr] using h1)
      (readExprs_cons E rsc _ [] _ [] (by simpa [readExpr] using h2) (by simp [readExprs]))]
    rfl
  | .app .iff [], _, _, _, _, _, _, _, hp, _ => by simp [printExpr] at hp
  | .app .iff [_], _, _, _, _, _, _, _, hp, _ => by simp [printExpr] at hp
  | .app .iff (_ :: _ :: _ :: _), _, _, _, _, _, _, _, hp, _ => by simp [printExpr] at hp
  | .app .implies [a, b], sc, rsc, t, e', hwf, hs, hv, hp, hn => by
    simp only [printExpr, Option.bind_eq_bind, Option.bind_eq_some_iff, Option.some.injEq] at hp
    simp only [normExpr, Option.bind_eq_bind, Option.bind_eq_some_iff, Option.some.injEq] at hn
    simp only [WF, WFs, and_true] at hwf
    obtain ⟨x, hx, y, hy, rfl⟩ := hp
    obtain ⟨a', ha, b', hb, rfl⟩ := hn
    exact read_binary E rsc "imply" x y a' b' _ (by decide)
      (readExpr_printExpr hdec ok a sc rsc x a' hwf.1 hs hv hx ha)
      (readExpr_printExpr hdec ok b sc rsc y b' hwf.2 hs hv hy hb) rfl
  | .app .implies [], _, _, _, _, _, _, _, hp, _ => by simp [printExpr] at hp
  | .app .implies [_], _, _, _, _, _, _, _, hp, _ => by simp [printExpr] at hp
  | .app .implies (_ :: _ :: _ :: _), _, _, _, _, _, _, _, hp, _ => by simp [printExpr] at hp
  | .app .minus [a, b], sc, rsc, t, e', hwf, hs, hv, hp, hn => by
    simp only [printExpr, Option.bind_eq_bind, Option.bind_eq_some_iff, Option.some.injEq] at hp
    simp only [normExpr, Option.bind_eq_bind, Option.bind_eq_some_iff, Option.some.injEq] at hn
    simp only [WF, WFs, and_true] at hwf
    obtain ⟨x, hx, y, hy, rfl⟩ := hp
    obtain ⟨a', ha, b', hb, rfl⟩ := hn
    exact read_binary E rsc "-" x y a' b' _ (by decide)
      (readExpr_printExpr hdec ok a sc rsc x a' hwf.1 hs hv hx ha)
      (readExpr_printExpr hdec ok b sc rsc y b' hwf.2 hs hv hy hb) rfl
  | .app .minus [], _, _, _, _, _, _, _, hp, _ => by simp [printExpr] at hp
  | .app .minus [_], _, _, _, _, _, _, _, hp, _ => by simp [printExpr] at hp
  | .app .minus (_ :: _ :: _ :: _), _, _, _, _, _, _, _, hp, _ => by simp [printExpr] at hp
  | .app .div [a, b], sc, rsc, t, e', hwf, hs, hv, hp, hn => by
    simp only [printExpr, Option.bind_eq_bind, Option.bind_eq_some_iff, Option.some.injEq] at hp
    simp only [normExpr, Option.bind_eq_bind, Option.bind_eq_some_iff, Option.some.injEq] at hn
    simp only [WF, WFs, and_true] at hwf
    obtain ⟨x, hx, y, hy, rfl⟩ := hp
    obtain ⟨a', ha, b', hb, rfl⟩ := hn
    exact read_binary E rsc "/" x y a' b' _ (by decide)
      (readExpr_printExpr hdec ok a sc rsc x a' hwf.1 hs hv hx ha)
      (readExpr_printExpr hdec ok b sc rsc y b' hwf.2 hs hv hy hb) rfl
  | .app .div [], _, _, _, _, _, _, _, hp, _ => by simp [printExpr] at hp
  | .app .div [_], _, _, _, _, _, _, _, hp, _ => by simp [printExpr] at hp
  | .app .div (_ :: _ :: _ :: _), _, _, _, _, _, _, _, hp, _ => by simp [printExpr] at hp
  | .app .le [a, b], sc, rsc, t, e', hwf, hs, hv, hp, hn => by
    simp only [printExpr, Option.bind_eq_bind, Option.bind_eq_some_iff, Option.some.injEq] at hp
    simp only [normExpr, Option.bind_eq_bind, Option.bind_eq_some_iff, Option.some.injEq] at hn
    simp only [WF, WFs, and_true] at hwf
    obtain ⟨x, hx, y, hy, rfl⟩ := hp
    obtain ⟨a', ha, b', hb, rfl⟩ := hn
    exact read_binary E rsc "<=" x y a' b' _ (by decide)
      (readExpr_printExpr hdec ok a sc rsc x a' hwf.1 hs hv hx ha)
      (readExpr_printExpr hdec ok b sc rsc y b' hwf.2 hs hv hy hb) rfl
  | .app .le [], _, _, _, _, _, _, _, hp, _ => by simp [printExpr] at hp
  | .app .le [_], _, _, _, _, _, _, _, hp, _ => by simp [printExpr] at hp
  | .app .le (_ :: _ :: _ :: _), _, _, _, _, _, _, _, hp, _ => by simp [printExpr] at hp
  | .app .lt [a, b], sc, rsc, t, e', hwf, hs, hv, hp, hn => by
    simp only [printExpr, Option.bind_eq_bind, Option.bind_eq_some_iff, Option.some.injEq] at hp
    simp only [normExpr, Option.bind_eq_bind, Option.bind_eq_some_iff, Option.some.injEq] at hn
    simp only [WF, WFs, and_true] at hwf
    obtain ⟨x, hx, y, hy, rfl⟩ := hp
    obtain ⟨a', ha, b', hb, rfl⟩ := hn
    exact read_binary E rsc "<" x y a' b' _ (by decide)
      (readExpr_printExpr hdec ok a sc rsc x a' hwf.1 hs hv hx ha)
      (readExpr_printExpr hdec ok b sc rsc y b' hwf.2 hs hv hy hb) rfl
  | .app .lt [], _, _, _, _, _, _, _, hp, _ => by simp [printExpr] at hp
  | .app .lt [_], _, _, _, _, _, _, _, hp, _ => by simp [printExpr] at hp
  | .app .lt (_ :: _ :: _ :: _), _, _, _, _, _, _, _, hp, _ => by simp [printExpr] at hp
  | .app .eq [a, b], sc, rsc, t, e', hwf, hs, hv, hp, hn => by
    simp only [printExpr, Option.bind_eq_bind, Option.bind_eq_some_iff, Option.some.injEq] at hp
    simp only [normExpr, Option.bind_eq_bind, Option.bind_eq_some_iff, Option.some.injEq] at hn
    simp only [WF, WFs, and_true] at hwf
    obtain ⟨x, hx, y, hy, rfl⟩ := hp
    obtain ⟨a', ha, b', hb, rfl⟩ := hn
    exact read_binary E rsc "=" x y a' b' _ (by decide)
      (readExpr_printExpr hdec ok a sc rsc x a' hwf.1 hs hv hx ha)
      (readExpr_printExpr hdec ok b sc rsc y b' hwf.2 hs hv hy hb) rfl
  | .app .eq [], _, _, _, _, _, _, _, hp, _ => by simp [printExpr] at hp
  | .app .eq [_], _, _, _, _, _, _, _, hp, _ => by simp [printExpr] at hp
  | .app .eq (_ :: _ :: _ :: _), _, _, _, _, _, _, _, hp, _ => by simp [printExpr] at hp
  | .app (.fluent f) as, sc, rsc, t, e', hwf, hs, hv, hp, hn => by
    simp only [printExpr, Option.bind_eq_bind, Option.bind_eq_some_iff, Option.some.injEq] at hp
    simp only [normExpr, Option.bind_eq_bind, Option.bind_eq_some_iff] at hn
    obtain ⟨n, hn', xs, hxs, rfl⟩ := hp
    obtain ⟨f', hf', as', has, hn⟩ := hn
    simp only [WF] at hwf
    obtain ⟨hfl, hop, hq, ht⟩ := ok.fluent f hwf.1 n f' hn' hf'
    simp only [L, A, readExpr]
    rw [readList_fluent E rsc n xs f' hfl hop hq ht,
      readExprs_printExprs hdec ok as sc rsc xs as' hwf.2 hs hv hxs has]
    exact hn
  | .app .plus as, sc, rsc, t, e', hwf, hs, hv, hp, hn => by
    simp only [printExpr] at hp
    simp only [normExpr] at hn
    split at hp
    · rename_i hlen
      simp only [hlen, ↓reduceIte, Option.bind_eq_some_iff] at hn hp
      obtain ⟨xs, hxs, hp⟩ := hp
      obtain ⟨as', has, hn⟩ := hn
      simp only [WF] at hwf
      have hr := readExprs_printExprs hdec ok as sc rsc xs as' hwf hs hv hxs has
      cases xs with
      | nil => simp [nestRev] at hp
      | cons x xr =>
        cases as' with
        | nil => simp [nestOp] at hn
        | cons a0 ar =>
          simp only [nestRev, Option.some.injEq] at hp
          simp only [nestOp, Option.some.injEq] at hn
          subst hp hn
          rw [readExprs] at hr
          cases hx : readExpr E rsc x with
          | none => simp [hx] at hr
          | some xe =>
            cases hxr : readExprs E rsc xr with
            | none => simp [hx, hxr] at hr
            | some xre =>
              simp only [hx, hxr, Option.bind_eq_bind, Option.bind_some, Option.some.injEq, List.cons.injEq] at hr
              obtain ⟨rfl, rfl⟩ := hr
              exact read_nest E rsc "+" .plus (by decide) (by decide) (fun a b => rfl) xr xre x xe hx hxr
    · simp at hp
  | .app .times as, sc, rsc, t, e', hwf, hs, hv, hp, hn => by
    simp only [printExpr] at hp
    simp only [normExpr] at hn
    split at hp
    · rename_i hlen
      simp only [hlen, ↓reduceIte, Option.bind_eq_some_iff] at hn hp
      obtain ⟨xs, hxs, hp⟩ := hp
      obtain ⟨as', has, hn⟩ := hn
      simp only [WF] at hwf
      have hr := readExprs_printExprs hdec ok as sc rsc xs as' hwf hs hv hxs has
      cases xs with
      | nil => simp [nestRev] at hp
      | cons x xr =>
        cases as' with
        | nil => simp [nestOp] at hn
        | cons a0 ar =>
          simp only [nestRev, Option.some.injEq] at hp
          simp only [nestOp, Option.some.injEq] at hn
          subst hp hn
          rw [readExprs] at hr
          cases hx : readExpr E rsc x with
          | none => simp [hx] at hr
          | some xe =>
            cases hxr : readExprs E rsc xr with
            | none => simp [hx, hxr] at hr
            | some xre =>
              simp only [hx, hxr, Option.bind_eq_bind, Option.bind_some, Option.some.injEq, List.cons.injEq] at hr
              obtain ⟨rfl, rfl⟩ := hr
              exact read_nest E rsc "*" .times (by decide) (by decide) (fun a b => rfl) xr xre x xe hx hxr
    · simp at hp
  | .app (.ifun _) _, _, _, _, _, _, _, _, hp, _ => by simp [printExpr] at hp
  | .app (.dot _) _, _, _, _, _, _, _, _, hp, _ => by simp [printExpr] at hp
  | .app .always _, _, _, _, _, _, _, _, hp, _ => by simp [printExpr] at hp
  | .app .sometime _, _, _, _, _, _, _, _, hp, _ => by simp [printExpr] at hp
  | .app .sometimeBefore _, _, _, _, _, _, _, _, hp, _ => by simp [printExpr] at hp
  | .app .sometimeAfter _, _, _, _, _, _, _, _, hp, _ => by simp [printExpr] at hp
  | .app .atMostOnce _, _, _, _, _, _, _, _, hp, _ => by simp [printExpr] at hp
  | .quant q vs b, sc, rsc, t, e', hwf, hs, hv, hp, hn => by
    simp only [printExpr, Option.bind_eq_bind, Option.bind_eq_some_iff, Option.some.injEq] at hp
    simp only [normExpr, Option.bind_eq_bind, Option.bind_eq_some_iff] at hn
    obtain ⟨vl, hvl, x, hx, rfl⟩ := hp
    obtain ⟨vs', hvs', b', hb', hn⟩ := hn
    simp only [WF] at hwf
    split at hn
    · simp at hn
    · rename_i hne
      simp only [Option.some.injEq] at hn
      subst hn
      have hd := declVars_printVars ok hvl hvs'
      have hb := readExpr_printExpr hdec ok b (vs ++ sc) (extendScope rsc vs') x b' hwf
        (scopeOK_extend ok hvs' hs) (scopeVars_extend hvs' hv) hx hb'
      cases q with
      | ex =>
        simp only [L, A, readExpr]
        rw [readList_exists E rsc vl x vs' hd (by simpa using hne), hb]
        rfl
      | all =>
        simp only [L, A, readExpr]
        rw [readList_forall E rsc vl x vs' hd (by simpa using hne), hb]
        rfl
theorem readExprs_printExprs {ρ : Ren} {D : Decls} {E : REnv} (hdec : DecimalRoundTrip) (ok : EnvOK ρ D E) :
    ∀ (es : List Expr) (sc rsc : List Var) (ts : List Sexp) (es' : List Expr), WFs D sc es → ScopeOK ρ sc rsc →
      ScopeVars ρ rsc → printExprs ρ es = some ts → normExprs ρ es = some es' → readExprs E rsc ts = some es'
  | [], sc, rsc, ts, es', hwf, hs, hv, hp, hn => by
    simp [printExprs] at hp
    simp [normExprs] at hn
    subst hp hn
    simp [readExprs]
  | e :: es, sc, rsc, ts, es', hwf, hs, hv, hp, hn => by
    simp only [printExprs, Option.bind_eq_bind, Option.bind_eq_some_iff, Option.some.injEq] at hp
    simp only [normExprs, Option.bind_eq_bind, Option.bind_eq_some_iff, Option.some.injEq] at hn
    simp only [WFs] at hwf
    obtain ⟨x, hx, xs, hxs, rfl⟩ := hp
    obtain ⟨e1, he1, er, her, rfl⟩ := hn
    exact readExprs_cons E rsc x xs e1 er (readExpr_printExpr hdec ok e sc rsc x e1 hwf.1 hs hv hx he1)
      (readExprs_printExprs hdec ok es sc rsc xs er hwf.2 hs hv hxs her)
end

end UPVerif.Pddl
