import UPVerif.Lemmas.CompileLiftSubst
import UPVerif.Lemmas.CompileDCRGoal
/-!
The transition system of ALL instances of the (lifted) actions of a problem, `tsLifted W` (Lemmas/CompileTS.lean):
action `(i, args)` is the instance of the `i`-th action for the argument tuple `args`, which must be one of
`instancesOf` (objects of the parameter types); its step is the documented successor of the instantiated action
`instAct` (parameters substituted by the objects, nothing simplified).

This file: the unfolding of such a step (`stepI`, the successor under an explicit substitution), what it reads of
the problem (types, objects — so that the compiled problem, which has the same signature, instantiates alike), and
executable validity for the kernel-checked examples.
-/
namespace UPVerif.Compile
open UPVerif UPVerif.Expr UPVerif.Sim UPVerif.Spec UPVerif.Simulation

/-- the action `a` with the substitution `σ` applied (`instAct` = `instOf (paramSubst …)`) -/
def instOf (σ : Subst) (a : Action) : Action :=
  { name := a.name, params := [], pre := a.pre.map (substE σ), effs := a.effs.map (substEff σ) }

theorem instAct_eq_instOf (P : Problem) (a : Action) (args : List String) :
    instAct P a args = instOf (paramSubst P a args) a := rfl

/-- the successor of the instance `σ` of `a` -/
def stepI (W : World) (g : St) (a : Action) (σ : Subst) : Option St :=
  succOf W g (a.pre.map (substE σ)) (expandEffs W.P (a.effs.map (substEff σ)))

theorem stepAct_instOf (W : World) (g : St) (a : Action) (σ : Subst) :
    stepAct W g (instOf σ a) = stepI W g a σ := rfl

theorem stepI_nil (W : World) (g : St) (a : Action) :
    stepI W g a [] = succOf W g a.pre (expandEffs W.P a.effs) := by
  unfold stepI
  have e1 : a.pre.map (substE []) = a.pre := by
    rw [List.map_congr_left (g := id) (fun x _ => substE_nil x), List.map_id]
  have e2 : a.effs.map (substEff []) = a.effs := by
    rw [List.map_congr_left (g := id) (fun x _ => by cases x; rfl), List.map_id]
  rw [e1, e2]

theorem stepInst_some {W : World} {g g' : St} {a : Action} {args : List String}
    (h : stepInst W g a args = some g') :
    (instancesOf W.P a).contains args = true ∧ stepI W g a (paramSubst W.P a args) = some g' := by
  unfold stepInst at h
  split at h
  · rename_i hin; exact ⟨hin, h⟩
  · cases h

theorem stepInst_intro {W : World} {g : St} {a : Action} {args : List String}
    (hin : (instancesOf W.P a).contains args = true) :
    stepInst W g a args = stepI W g a (paramSubst W.P a args) := by
  unfold stepInst
  rw [if_pos hin]
  rfl

theorem tsLifted_step {W : World} {g g' : St} {ia : Nat × List String} (h : (tsLifted W).step g ia = some g') :
    ∃ a, W.P.actions[ia.1]? = some a ∧ (instancesOf W.P a).contains ia.2 = true ∧
      stepI W g a (paramSubst W.P a ia.2) = some g' := by
  unfold tsLifted at h
  dsimp only at h
  split at h
  · rename_i a ha
    obtain ⟨h1, h2⟩ := stepInst_some h
    exact ⟨a, ha, h1, h2⟩
  · cases h

theorem tsLifted_step_intro {W : World} {g : St} {i : Nat} {args : List String} {a : Action}
    (ha : W.P.actions[i]? = some a) (hin : (instancesOf W.P a).contains args = true) :
    (tsLifted W).step g (i, args) = stepI W g a (paramSubst W.P a args) := by
  unfold tsLifted
  dsimp only
  rw [ha]
  exact stepInst_intro hin

/-! ### what instantiation reads of the problem: the objects and their types -/

theorem instancesOf_congr {Q P : Problem} (h1 : tyDomain Q = tyDomain P) {a' a : Action}
    (hp : a'.params = a.params) : instancesOf Q a' = instancesOf P a := by
  unfold instancesOf; rw [h1, hp]

theorem paramSubst_congr {Q P : Problem} (h2 : objExpr Q = objExpr P) {a' a : Action} (hp : a'.params = a.params)
    (args : List String) : paramSubst Q a' args = paramSubst P a args := by
  unfold paramSubst; rw [h2, hp]

theorem SameSig.stepI {Q P : Problem} (h : SameSig Q P) (W : World) (hW : W.P = P) (ht : Q.traj = P.traj)
    (g : St) (a : Action) (σ : Subst) : stepI (withProblem W Q) g a σ = stepI W g a σ := by
  unfold Compile.stepI
  rw [h.succOf W hW ht]
  have : (withProblem W Q).P = Q := rfl
  rw [this, h.expandEffs, ← hW]

/-- membership in the argument tuples of an action (the `contains` of `stepInst`) -/
theorem mem_instancesOf {P : Problem} {a : Action} {args : List String} :
    (instancesOf P a).contains args = true ↔ args ∈ instancesOf P a := by simp

theorem traceRel_mono {SA SB : Type} {R R' : SB → SA → Prop} (h : ∀ x y, R x y → R' x y) :
    ∀ {tb : List SB} {ta : List SA}, TraceRel R tb ta → TraceRel R' tb ta
  | _, _, .nil => .nil
  | _, _, .cons hr ht => .cons (h _ _ hr) (traceRel_mono h ht)

/-! ### executable validity on all instances (for the kernel-checked examples) -/

def validLB (W : World) (π : List (Nat × List String)) : Bool :=
  match initOf W with
  | none => false
  | some g =>
    match (tsLifted W).run g π with
    | none => false
    | some gf => goalOK W gf

theorem validLB_sound {W : World} {π : List (Nat × List String)} (h : validLB W π = true) : (tsLifted W).Valid π := by
  unfold validLB at h
  cases hi : initOf W with
  | none => rw [hi] at h; cases h
  | some g =>
    rw [hi] at h
    dsimp only at h
    cases hr : (tsLifted W).run g π with
    | none => rw [hr] at h; cases h
    | some gf =>
      rw [hr] at h
      exact ⟨g, gf, hi, hr, h⟩

theorem validLB_complete {W : World} {π : List (Nat × List String)} (h : (tsLifted W).Valid π) : validLB W π = true := by
  obtain ⟨g, gf, hi, hr, hg⟩ := h
  unfold validLB
  have : initOf W = some g := hi
  rw [this]
  dsimp only
  rw [hr]
  exact hg

/-- the parameterless fragment is the part of the lifted system with empty argument tuples -/
theorem tsLifted_step_nil (W : World) (g : St) (i : Nat) (a : Action) (ha : W.P.actions[i]? = some a)
    (hp : a.params = []) : (tsLifted W).step g (i, []) = (tsOf W).step g i := by
  have hin : (instancesOf W.P a).contains [] = true := by
    unfold instancesOf; rw [hp]; rfl
  rw [tsLifted_step_intro ha hin, tsOf_step_intro ha]
  have hσ : paramSubst W.P a [] = [] := by unfold paramSubst; rw [hp]; rfl
  rw [hσ, stepI_nil]
  unfold stepAct
  rw [hp]
  rfl

end UPVerif.Compile
