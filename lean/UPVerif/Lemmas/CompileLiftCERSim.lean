import UPVerif.Lemmas.CompileLiftCER
/-!
`ConditionalEffectsRemover` (repaired) as a forward and a backward simulation between the transition systems of
ALL instances (`tsLifted`) of the original and of the compiled problem.
-/
namespace UPVerif.Compile
open UPVerif UPVerif.Expr UPVerif.Sim UPVerif.Spec UPVerif.Simulation

theorem backLifted_some {c : Compiled} {b : Nat} {args : List String} {x : Nat × List String}
    (h : backLifted c (b, args) = some x) : ∃ j, backOf c b = some j ∧ x = (j, args) := by
  unfold backLifted at h
  dsimp only at h
  cases hb : backOf c b with
  | none => rw [hb] at h; cases h
  | some j => rw [hb] at h; simp at h; exact ⟨j, rfl, h.symm⟩

theorem backLifted_none {c : Compiled} {b : Nat} {args : List String}
    (h : backLifted c (b, args) = none) : backOf c b = none := by
  unfold backLifted at h
  dsimp only at h
  cases hb : backOf c b with
  | none => rfl
  | some j => rw [hb] at h; cases h

theorem backLifted_intro {c : Compiled} {b j : Nat} (args : List String) (h : backOf c b = some j) :
    backLifted c (b, args) = some (j, args) := by
  unfold backLifted; dsimp only; rw [h]; rfl

theorem cerVariants_params {simp : Expr → Expr} {a a' : Action} (h : a' ∈ cerVariants simp a) :
    a'.params = a.params := by
  unfold cerVariants at h
  rw [List.mem_filterMap] at h
  obtain ⟨p, _, hp⟩ := h
  obtain ⟨pre', _, rfl⟩ := cerVariant_some hp
  rfl

/-- hypotheses of the lifted ConditionalEffectsRemover theorems on one action and one instance (all decidable):
    instantiation does not turn an effect condition into TRUE, the conditional effects of the INSTANCE are not forall
    effects and have constant targets, instantiation commutes with the expansion of conditional forall effects -/
def cerInstOK (P : Problem) (a : Action) (σ : Subst) : Bool :=
  (cerExpand P a).effs.all (condStable σ) && cerOK (instOf σ (cerExpand P a)) && decide (expandStable P σ a)

/-- … on every action and every argument tuple of the problem -/
def cerLiftOK (P : Problem) : Bool :=
  P.actions.all (fun a => (instancesOf P a).all (fun args => cerInstOK P a (paramSubst P a args)))

theorem cerLiftOK_at {P : Problem} (h : cerLiftOK P = true) {a : Action} (ha : a ∈ P.actions) {args : List String}
    (hin : args ∈ instancesOf P a) :
    (∀ e ∈ (cerExpand P a).effs, condStable (paramSubst P a args) e = true) ∧
    cerOK (instOf (paramSubst P a args) (cerExpand P a)) = true ∧ expandStable P (paramSubst P a args) a := by
  unfold cerLiftOK at h
  have h1 := List.all_eq_true.1 (List.all_eq_true.1 h a ha) args hin
  unfold cerInstOK at h1
  simp only [Bool.and_eq_true, decide_eq_true_eq] at h1
  exact ⟨fun e he => List.all_eq_true.1 h1.1.1 e he, h1.1.2, h1.2⟩

/-- the simplifier is exact on every instance of every action of the problem -/
def SimpExactInst (simp : Expr → Expr) (P : Problem) : Prop :=
  ∀ a ∈ P.actions, ∀ args ∈ instancesOf P a, SimpExactOn simp (paramSubst P a args)

theorem simpExactInst_id (P : Problem) : SimpExactInst id P := fun _ _ _ _ => simpExactOn_id _

/-- what the lifted ConditionalEffectsRemover theorems ask of the simplifier: exactness, in the states of `T`, on the
    instances of the conjunctions it is applied to (the preconditions of the variants) -/
def CerSimpAt (simp : Expr → Expr) (W : World) (T : St → Prop) : Prop :=
  ∀ g, T g → ∀ a ∈ W.P.actions, ∀ args ∈ instancesOf W.P a, ∀ p,
    SimpExactAt simp (ctxOf W g) (paramSubst W.P a args) (cerPreExpr (cerExpand W.P a) p)

theorem cerSimpAt_of_exact {simp : Expr → Expr} {W : World} (hs : SimpExactInst simp W.P) (T : St → Prop) :
    CerSimpAt simp W T := fun g _ a ha args hin _ => hs a ha args hin (ctxOf W g) _

/-- ConditionalEffectsRemover (repaired) is a FORWARD simulation on all instances: soundness.  `T` is any invariant
    of the runs of the compiled problem (e.g. a typing of the states) under which the simplifier is exact. -/
theorem cer_fwd_lifted_gen {simp : Expr → Expr} (W : World) {c : Compiled} (hc : cerCompile simp W.P = some c)
    (hok : cerLiftOK W.P = true) (T : St → Prop)
    (hT0 : ∀ g, (tsLifted (withProblem W c.prob)).init = some g → T g)
    (hTs : ∀ g ia g', T g → (tsLifted (withProblem W c.prob)).step g ia = some g' → T g')
    (hs : CerSimpAt simp W T) :
    Fwd (tsLifted W) (tsLifted (withProblem W c.prob)) (backLifted c) (fun gB gA => gB = gA ∧ T gA)
      (fun _ => True) := by
  obtain ⟨⟨acts, hacts⟩, hfw, _⟩ := cerCompile_some hc
  have hsig : SameSig c.prob W.P := by rw [hacts]; exact sameSig_actions _ _
  have htr : c.prob.traj = W.P.traj := by rw [hacts]
  have hQ : (withProblem W c.prob).P = c.prob := rfl
  refine ⟨?_, fun _ _ => trivial, fun _ _ _ _ => trivial, ?_, ?_, ?_⟩
  · intro sB hB _
    refine ⟨sB, ?_, rfl, hT0 sB hB⟩
    have : (tsLifted (withProblem W c.prob)).init = initOf (withProblem W c.prob) := rfl
    rw [this, hsig.initOf W rfl htr (by rw [hacts])] at hB
    exact hB
  · rintro sB sA ⟨b, args⟩ sB' x hR hstep _ hb
    obtain ⟨rfl, hT⟩ := hR
    have hT' := hTs sB (b, args) sB' hT hstep
    obtain ⟨a', ha', hin, hst⟩ := tsLifted_step hstep
    rw [hQ] at ha' hin hst
    dsimp only at ha' hin hst
    obtain ⟨j', ao, hbj, hao, hcase⟩ := hfw b a' ha'
    obtain ⟨j'', hbj', hx⟩ := backLifted_some hb
    rw [hbj] at hbj'
    cases hbj'
    cases hx
    have hmem := List.mem_of_getElem? hao
    have hpar : a'.params = ao.params := by
      rcases hcase with ⟨_, rfl⟩ | ⟨_, hv⟩
      · rfl
      · exact (cerVariants_params hv : a'.params = (cerExpand W.P ao).params)
    rw [hsig.stepI W rfl htr, paramSubst_congr hsig.objExpr hpar] at hst
    rw [instancesOf_congr hsig.tyDomain hpar] at hin
    refine ⟨sB', ?_, rfl, hT'⟩
    rw [tsLifted_step_intro hao hin]
    rcases hcase with ⟨_, rfl⟩ | ⟨_, hv⟩
    · exact hst
    · unfold cerVariants at hv
      rw [List.mem_filterMap] at hv
      obtain ⟨p, _, hp⟩ := hv
      have hin' := mem_instancesOf.1 hin
      obtain ⟨h1, h2, h3⟩ := cerLiftOK_at hok hmem hin'
      rw [← stepI_cerExpand W sB ao _ h3]
      refine cer_sound_stepI W (isParamSubst_paramSubst _ _ _) h1 h2 hp ?_ hst
      intro ht
      have := hs sB hT ao hmem args hin' p
      unfold SimpExactAt at this
      rw [this] at ht
      exact ht
  · rintro sB sA ⟨b, args⟩ sB' hR hstep _ hb
    obtain ⟨a', ha', _, _⟩ := tsLifted_step hstep
    obtain ⟨j, ao, hbj, _⟩ := hfw b a' ha'
    rw [backLifted_none hb] at hbj; cases hbj
  · intro sB sA hR hg
    obtain ⟨rfl, _⟩ := hR
    have : (tsLifted (withProblem W c.prob)).goal sB = (goalOK (withProblem W c.prob) sB = true) := rfl
    rw [this, hsig.goalOK W rfl (by rw [hacts])] at hg
    exact hg

/-- … with a simplifier exact on every instance in every state -/
theorem cer_fwd_lifted {simp : Expr → Expr} (W : World) {c : Compiled} (hc : cerCompile simp W.P = some c)
    (hs : SimpExactInst simp W.P) (hok : cerLiftOK W.P = true) :
    Fwd (tsLifted W) (tsLifted (withProblem W c.prob)) (backLifted c) (fun gB gA => gB = gA ∧ True)
      (fun _ => True) :=
  cer_fwd_lifted_gen W hc hok (fun _ => True) (fun _ _ => trivial) (fun _ _ _ _ _ => trivial)
    (cerSimpAt_of_exact hs _)

/-- ConditionalEffectsRemover is a BACKWARD simulation on all instances (completeness, same plan length) on problems
    where no variant is pruned (findings D-C07 / D-C07b excluded).  `T`: a typing invariant of the original runs. -/
theorem cer_bwd_lifted {simp : Expr → Expr} (W : World) {c : Compiled} (hc : cerCompile simp W.P = some c)
    (hok : cerLiftOK W.P = true)
    (hnc : ∀ a ∈ W.P.actions, Action.isConditional a = true →
      cerNoConflict (cerExpand W.P a) = true ∧ cerHasUncond (cerExpand W.P a) = true)
    (T : St → Prop) (hT0 : ∀ g, (tsLifted W).init = some g → T g)
    (hTs : ∀ g ia g', T g → (tsLifted W).step g ia = some g' → T g')
    (hb : ∀ g, T g → ∀ a ∈ W.P.actions, ∀ args ∈ instancesOf W.P a,
      BoolConds (instOf (paramSubst W.P a args) (cerExpand W.P a)) (ctxOf W g))
    (hs : CerSimpAt simp W T) :
    Bwd (tsLifted W) (tsLifted (withProblem W c.prob)) (backLifted c) (fun gB gA => gB = gA ∧ T gA) 0 := by
  obtain ⟨⟨acts, hacts⟩, _, hbw⟩ := cerCompile_some hc
  have hsig : SameSig c.prob W.P := by rw [hacts]; exact sameSig_actions _ _
  have htr : c.prob.traj = W.P.traj := by rw [hacts]
  have hQ : (withProblem W c.prob).P = c.prob := rfl
  refine ⟨?_, ?_, ?_⟩
  · intro sA hA
    refine ⟨sA, ?_, rfl, hT0 sA hA⟩
    have : (tsLifted (withProblem W c.prob)).init = initOf (withProblem W c.prob) := rfl
    rw [this, hsig.initOf W rfl htr (by rw [hacts])]
    exact hA
  · rintro sB sA ⟨j, args⟩ sA' hR hstep
    obtain ⟨rfl, hT⟩ := hR
    have hT' := hTs sB (j, args) sA' hT hstep
    obtain ⟨a, ha, hin, hst⟩ := tsLifted_step hstep
    dsimp only at ha hin hst
    have hmem := List.mem_of_getElem? ha
    have hin' := mem_instancesOf.1 hin
    obtain ⟨h1, h2⟩ := hbw j a ha
    -- a compiled action `a'` at position `i` with the parameters of `a` whose instance steps alike
    have fin : ∀ (i : Nat) (a' : Action), c.prob.actions[i]? = some a' → backOf c i = some j → a'.params = a.params →
        stepI W sB a' (paramSubst W.P a args) = some sA' →
        ∃ b sB', backLifted c b = some (j, args) ∧ (tsLifted (withProblem W c.prob)).step sB b = some sB' ∧
          sB' = sA' ∧ T sA' := by
      intro i a' hi hbi hpar hst'
      refine ⟨(i, args), sA', backLifted_intro args hbi, ?_, rfl, hT'⟩
      have hin2 : (instancesOf (withProblem W c.prob).P a').contains args = true := by
        rw [hQ, instancesOf_congr hsig.tyDomain hpar]; exact hin
      rw [tsLifted_step_intro (W := withProblem W c.prob) hi hin2, hQ, hsig.stepI W rfl htr,
        paramSubst_congr hsig.objExpr hpar]
      exact hst'
    cases hcond : Action.isConditional a with
    | false =>
      obtain ⟨i, hi, hbi⟩ := h1 hcond
      exact fin i a hi hbi rfl hst
    | true =>
      obtain ⟨hn1, hn2⟩ := hnc a hmem hcond
      obtain ⟨k1, k2, k3⟩ := cerLiftOK_at hok hmem hin'
      rw [← stepI_cerExpand W sB a _ k3] at hst
      obtain ⟨a', hv, hst'⟩ := cer_complete_stepI W (isParamSubst_paramSubst _ _ _) k1 k2 hn1 hn2
        (hb sB hT a hmem args hin') (by intro p ht; have := hs sB hT a hmem args hin' p; unfold SimpExactAt at this; rw [this]; exact ht) hst
      obtain ⟨i, hi, hbi⟩ := h2 hcond a' hv
      exact fin i a' hi hbi (cerVariants_params hv : a'.params = (cerExpand W.P a).params) hst'
  · intro sB sA hR hg
    obtain ⟨rfl, _⟩ := hR
    refine ⟨[], sB, Nat.le_refl _, rfl, rfl, ?_⟩
    have : (tsLifted (withProblem W c.prob)).goal sB = (goalOK (withProblem W c.prob) sB = true) := rfl
    rw [this, hsig.goalOK W rfl (by rw [hacts])]
    exact hg

/-- the instantiated conditions are rooted in a connective / comparison: no typing invariant is needed -/
def cerLiftRooted (P : Problem) : Bool :=
  P.actions.all (fun a => (instancesOf P a).all (fun args => cerRooted (instOf (paramSubst P a args) (cerExpand P a))))

theorem cerLiftRooted_at {P : Problem} (h : cerLiftRooted P = true) {a : Action} (ha : a ∈ P.actions)
    {args : List String} (hin : args ∈ instancesOf P a) :
    cerRooted (instOf (paramSubst P a args) (cerExpand P a)) = true :=
  List.all_eq_true.1 (List.all_eq_true.1 h a ha) args hin

end UPVerif.Compile
