import UPVerif.Lemmas.FromPddlSemAct
/-!
Concrete symbol tables, trees and contexts for the non-vacuity examples and the kernel-checked refutations of
`Props/C21.lean`.
-/
namespace UPVerif.FromPddl.Example
open UPVerif UPVerif.Expr UPVerif.Pddl UPVerif.FromPddl

def a (s : String) : Sexp := .atom s
def l (xs : List Sexp) : Sexp := .list xs

def tT : Ty := .user "t"
def fp : FluentRef := ⟨"p", .bool, [tT]⟩
def fq : FluentRef := ⟨"q", .bool, []⟩
def fdone : FluentRef := ⟨"done", .bool, []⟩
def fx : FluentRef := ⟨"x", .real none none, []⟩
def fy : FluentRef := ⟨"y", .real none none, []⟩
def ff : FluentRef := ⟨"f", .real none none, [tT]⟩

/-- the first reader's tables while it reads the actions (no parameters yet) -/
def E1 : REnv := { types := ["t"], fluents := [fp, fq, fdone, fx, fy, ff], objects := [("a", "t"), ("b", "t")], params := none }
def ps0 : List (String × Ty) := [("u", tT)]
/-- … and inside an action with the parameter `?u - t` -/
def E0 : REnv := { E1 with params := some ps0 }
/-- the converter's tables -/
def CE0 : CEnv := { types := [("object", none), ("t", some "t")], fluents := E1.fluents, objects := E1.objects }
/-- the external parser's state in the domain file -/
def C0 : PCtx :=
  { reqs := ["strips", "typing", "negative-preconditions", "disjunctive-preconditions", "equality",
             "existential-preconditions", "universal-preconditions", "conditional-effects", "numeric-fluents"],
    consts := some ["a", "b"] }

theorem find_name_none {fl : List FluentRef} {s : String} (h : ∀ f ∈ fl, f.name ≠ s) :
    fl.find? (fun f => f.name == s) = none := by
  rw [List.find?_eq_none]
  intro f hf
  simpa using h f hf

theorem lookup_none {ol : List (String × String)} {s : String} (h : ∀ o ∈ ol, o.1 ≠ s) : ol.lookup s = none := by
  induction ol with
  | nil => rfl
  | cons o r ih =>
    have h1 : o.1 ≠ s := h o (List.mem_cons_self ..)
    have h1' : (s == o.1) = false := by simpa using fun e : s = o.1 => h1 e.symm
    simp only [List.lookup, h1']
    exact ih (fun o' ho' => h o' (List.mem_cons_of_mem _ ho'))

theorem namesOK (E : REnv) (hf : ∀ f ∈ E.fluents, numberTok f.name = none) (ho : ∀ o ∈ E.objects, numberTok o.1 = none)
    (hd : ∀ o ∈ E.objects, ∀ f ∈ E.fluents, f.name ≠ o.1) : NamesOK E where
  num_fluent := by
    intro s q hq
    apply find_name_none
    intro f hfm he
    rw [← he, hf f hfm] at hq
    cases hq
  num_object := by
    intro s q hq
    apply lookup_none
    intro o hom he
    rw [← he, ho o hom] at hq
    cases hq
  obj_fluent := by
    intro s t hs
    apply find_name_none
    intro f hfm he
    have : ∃ o ∈ E.objects, o.1 = s := by
      unfold REnv.object? at hs
      generalize E.objects = ol at hs
      induction ol with
      | nil => cases hs
      | cons o r ih =>
        by_cases h1 : s = o.1
        · exact ⟨o, List.mem_cons_self .., h1.symm⟩
        · have h1' : (s == o.1) = false := by simpa using h1
          simp only [List.lookup, h1'] at hs
          obtain ⟨o', ho', he'⟩ := ih hs
          exact ⟨o', List.mem_cons_of_mem _ ho', he'⟩
    obtain ⟨o, hom, hoe⟩ := this
    exact hd o hom f hfm (by rw [he, hoe])

theorem namesOK1 : NamesOK E1 := namesOK E1 (by decide) (by decide) (by decide)
theorem namesOK0 : NamesOK E0 := namesOK E0 (by decide) (by decide) (by decide)

theorem types_id0 : ∀ t n, (CE0.types.lookup t).join = some n → n = t := by
  intro t n h
  unfold CE0 at h
  simp only [List.lookup] at h
  by_cases h1 : t = "object"
  · subst h1; simp at h
  · by_cases h2 : t = "t"
    · subst h2; simp at h; exact h.symm
    · have h1' : (t == "object") = false := by simpa using h1
      have h2' : (t == "t") = false := by simpa using h2
      simp [h1', h2'] at h

theorem objFluent0 (s t : String) (h : CE0.objects.lookup s = some t) : E1.fluent? s = none := by
  by_cases h1 : s = "a"
  · subst h1; decide
  · by_cases h2 : s = "b"
    · subst h2; decide
    · have h1' : (s == "a") = false := by simpa using h1
      have h2' : (s == "b") = false := by simpa using h2
      simp [CE0, E1, List.lookup, h1', h2'] at h

theorem envAgree0 : EnvAgree E0 CE0 ps0 where
  fluents := fun _ _ h => h
  objects := fun _ => Or.inl rfl
  obj_fluent := objFluent0
  params := rfl
  types_id := types_id0

/-- a condition with nested and repeated conjuncts, a double negation, quantifiers (one re-using the name of the
    parameter `?u`), `>=`, a nested sum, a unary minus, an equality of terms and one of numbers -/
def cond0 : Sexp :=
  l [a "and", l [a "p", a "?u"],
    l [a "or", l [a "q"], l [a "and", l [a "q"], l [a "q"]], l [a "and"]],
    l [a "not", l [a "not", l [a "q"]]],
    l [a "exists", l [a "?w", a "-", a "t"], l [a "p", a "?w"]],
    l [a "forall", l [a "?u", a "-", a "t"],
      l [a "imply", l [a "p", a "?u"], l [a ">=", l [a "+", l [a "x"], l [a "+", a "1", l [a "y"]]], l [a "-", l [a "f", a "?u"]]]]],
    l [a "=", a "?u", a "a"],
    l [a "=", l [a "x"], a "3.5"]]

/-- an effect: conditional, universal (shadowing the parameter), numeric -/
def eff0 : Sexp :=
  l [a "and", l [a "done"], l [a "not", l [a "p", a "?u"]],
    l [a "forall", l [a "?u", a "-", a "t"], l [a "when", l [a "and", l [a "p", a "?u"], l [a "q"]], l [a "and", l [a "not", l [a "p", a "?u"]], l [a "increase", l [a "f", a "?u"], a "2"]]]],
    l [a "when", l [a "q"], l [a "assign", l [a "x"], l [a "*", l [a "y"], l [a "*", a "2", l [a "x"]]]]],
    l [a "decrease", l [a "y"], l [a "-", a "1"]]]

def act0 : Sexp :=
  l [a ":action", a "a1", a ":parameters", l [a "?u", a "-", a "t"], a ":precondition", cond0, a ":effect", eff0]

/-- a state in which `x = 1`, `y = 0`, every other numeric fluent is 0 and Boolean fluents have no value -/
def c0 : EvalCtx :=
  { get := fun k => if k.1.ty == .bool then none else if k.1.name == "x" then some (.n 1) else some (.n 0),
    objs := fun _ => ["a", "b"], fn := fun _ _ => none }

theorem wt_c0 : WTCtx c0 := by
  intro f vs v h hb
  unfold c0 at h
  simp [hb] at h

/-! a whole domain (the action above) and a problem for it -/
def dom0 : Sexp :=
  l [a "define", l [a "domain", a "d"],
    l [a ":requirements", a ":strips", a ":typing", a ":negative-preconditions", a ":disjunctive-preconditions",
       a ":equality", a ":existential-preconditions", a ":universal-preconditions", a ":conditional-effects",
       a ":numeric-fluents"],
    l [a ":types", a "t"],
    l [a ":constants", a "a", a "b", a "-", a "t"],
    l [a ":predicates", l [a "p", a "?v", a "-", a "t"], l [a "q"], l [a "done"]],
    l [a ":functions", l [a "x"], l [a "y"], l [a "f", a "?v", a "-", a "t"]],
    act0]

def prob0 : Sexp :=
  l [a "define", l [a "problem", a "pb"], l [a ":domain", a "d"],
    l [a ":init", l [a "q"], l [a "p", a "a"], l [a "=", l [a "x"], a "1"], l [a "=", l [a "f", a "a"], a "2"]],
    l [a ":goal", l [a "and", l [a "done"], l [a "p", a "b"]]],
    l [a ":metric", a "minimize", l [a "+", l [a "x"], l [a "y"]]]]

/-! finding D-C21a: repeated operands -/
def sum0 : Sexp := l [a "+", l [a "x"], l [a "x"], l [a "y"]]

/-! finding D-C21b: the empty precondition -/
def actB : Sexp :=
  l [a ":action", a "a1", a ":parameters", l [a "?u", a "-", a "t"], a ":precondition", l [], a ":effect", l [a "done"]]

/-! finding D-C21c: repeated numeric effects -/
def effC : Sexp := l [a "and", l [a "increase", l [a "y"], a "1"], l [a "increase", l [a "y"], a "1"]]

end UPVerif.FromPddl.Example
