import UPVerif.Lemmas.CompileBTRBounds
/-!
BoundedTypesRemover, part 5: what `btrCompile` returns, the evaluation contexts of related states, the invariants
left in the compiled problem (none), and the initial states (the compiled initial state is the renamed original one).
-/
namespace UPVerif.Compile
open UPVerif UPVerif.Expr UPVerif.Sim UPVerif.Spec UPVerif.Simulation

/-- what `btrCompile` returns -/
theorem btrCompile_some {simp : Expr → Expr} {P : Problem} {c : Compiled} (h : btrCompile simp P = some c) :
    c.prob.types = P.types ∧ c.prob.objects = P.objects ∧
    c.prob.fluents = P.fluents.map (fun d => { d with ref := unboundRef d.ref }) ∧
    c.prob.init = P.init.map (fun kv => (retype kv.1, retype kv.2)) ∧
    c.prob.goals = invGoals simp retype (mkAnd (btrConditions P)) P.goals ∧
    (∀ (i : Nat) (a' : Action), c.prob.actions[i]? = some a' → ∃ (j : Nat) (a : Action), backOf c i = some j ∧
        P.actions[j]? = some a ∧ invAction simp retype (mkAnd (btrConditions P)) a = some (some a')) ∧
    (∀ (j : Nat) (a a' : Action), P.actions[j]? = some a →
        invAction simp retype (mkAnd (btrConditions P)) a = some (some a') →
        ∃ i : Nat, c.prob.actions[i]? = some a' ∧ backOf c i = some j) := by
  unfold btrCompile at h
  dsimp only at h
  split at h
  · cases h
  rename_i acts goals traj hadd
  cases h
  obtain ⟨hg, hfw, hbw⟩ := addInv_some hadd
  exact ⟨rfl, rfl, rfl, rfl, hg, hfw, hbw⟩

theorem objectsOf_congr {Q P : Problem} (ht : Q.types = P.types) (ho : Q.objects = P.objects) :
    Q.objectsOf = P.objectsOf := by
  funext t; simp [Problem.objectsOf, ht, ho]

/-- related states give related evaluation contexts -/
theorem relCtx_of {W : World} {Q : Problem} (ht : Q.types = W.P.types) (ho : Q.objects = W.P.objects)
    {D : List FluentRef} {gB gA : St} (hR : Rel D gB gA) :
    RelCtx D (ctxOf (withProblem W Q) gB) (ctxOf W gA) :=
  ⟨by show Q.objectsOf = W.P.objectsOf; exact objectsOf_congr ht ho, rfl, hR⟩

theorem boundsOf_unbound (t : Ty) : boundsOf (unboundTy t) = (none, none) := by
  cases t <;> rfl

/-- no invariant is left in the compiled problem: its fluents are unbounded and it has no `Always` constraint -/
theorem invOK_btr {W : World} {Q : Problem} {fl : List FluentDecl}
    (hf : Q.fluents = fl.map (fun d => { d with ref := unboundRef d.ref })) (hna : stateInvariants Q = [])
    (c : EvalCtx) : invOK (withProblem W Q) c = true := by
  unfold invOK
  rw [List.all_eq_true]
  intro si hsi
  exfalso
  unfold invariants at hsi
  have hQ : (withProblem W Q).P = Q := rfl
  rw [hQ, hna, hf] at hsi
  simp only [List.map_nil, List.nil_append, List.mem_flatMap, List.mem_map] at hsi
  obtain ⟨d', ⟨d, _, rfl⟩, hmem⟩ := hsi
  have hb : boundsOf (unboundRef d.ref).ty = (none, none) := boundsOf_unbound d.ref.ty
  dsimp only at hmem
  rw [hb] at hmem
  simp at hmem

/-- without `Always` constraints the simulator's invariants are the bounded-type ones -/
theorem invOK_bounds {W : World} (hna : stateInvariants W.P = []) (c : EvalCtx) : invOK W c = invB W c := by
  unfold invOK invariants invB boundInvs
  rw [hna]
  rfl

/-! ### `Always` constraints that stay in the compiled problem -/

/-- the simulator's simplifier keeps the truth of the listed expressions (vacuous for the empty list) -/
def SimpTruthOn (simp : Expr → Expr) (l : List Expr) : Prop :=
  ∀ e ∈ l, ∀ c : EvalCtx, Spec.isTrue (eval c [] (simp e)) = Spec.isTrue (eval c [] e)

theorem SimpTruthOn_id (l : List Expr) : SimpTruthOn id l := fun _ _ _ => rfl

/-- the simulator's invariants: the `Always` bodies (quantifier-free here) and the bounded types -/
theorem invOK_split' {W : World} (hw : SimpTruthOn W.simp (stateInvariants W.P))
    (hrq : ∀ si ∈ stateInvariants W.P, removeQuantifiers W.P si = si) (c : EvalCtx) :
    invOK W c = (preOK c (stateInvariants W.P) && invB W c) := by
  unfold invOK invariants invB boundInvs preOK
  rw [List.all_append, List.all_map]
  congr 1
  apply all_congr_mem
  intro si hsi
  simp only [Function.comp]
  rw [isTrueB_evalBool, hrq si hsi, hw si hsi]

theorem boundInvs_unbounded {Q : Problem} {fl : List FluentDecl}
    (hf : Q.fluents = fl.map (fun d => { d with ref := unboundRef d.ref })) : boundInvs Q = [] := by
  unfold boundInvs
  rw [hf]
  rw [List.flatMap_eq_nil_iff]
  intro d' hd'
  obtain ⟨d, _, rfl⟩ := List.mem_map.1 hd'
  have hb : boundsOf (unboundRef d.ref).ty = (none, none) := boundsOf_unbound d.ref.ty
  dsimp only
  rw [hb]
  rfl

/-- in the compiled problem only the `Always` bodies are left as invariants -/
theorem invOK_btr' {W : World} {Q : Problem} {fl : List FluentDecl}
    (hf : Q.fluents = fl.map (fun d => { d with ref := unboundRef d.ref }))
    (hw : SimpTruthOn W.simp (stateInvariants Q))
    (hrq : ∀ si ∈ stateInvariants Q, removeQuantifiers Q si = si) (c : EvalCtx) :
    invOK (withProblem W Q) c = preOK c (stateInvariants Q) := by
  have := invOK_split' (W := withProblem W Q) hw hrq c
  rw [this]
  unfold invB
  have hQ : (withProblem W Q).P = Q := rfl
  rw [hQ, boundInvs_unbounded hf]
  simp

theorem preOK_map_simp {simp : Expr → Expr} (hs : ∀ (c : EvalCtx) (e : Expr),
    Spec.isTrue (eval c [] (simp e)) = Spec.isTrue (eval c [] e)) (c : EvalCtx) (f : Expr → Expr) :
    ∀ l : List Expr, preOK c (l.map (fun e => simp (f e))) = preOK c (l.map f)
  | [] => rfl
  | x :: xs => by
    rw [List.map_cons, List.map_cons, preOK_cons, preOK_cons, hs, preOK_map_simp hs c f xs]

/-! ### initial states -/

def initPair (fv : Expr × Expr) : Option (GKey × Val) := do
  let k ← keyOf? fv.1
  let v ← constVal? fv.2
  some (k, v)

theorem initialState_eq (P : Problem) : initialState? P = (P.init.mapM initPair).map (fun l => ⟨l⟩) := rfl

theorem keyOf_rn (e : Expr) : keyOf? (rn e) = (keyOf? e).map rnKey := by
  cases e with
  | leaf l => rfl
  | quant q vs b => rfl
  | app op args =>
    cases op <;> try rfl
    rename_i f
    simp only [rn, rnOp, keyOf?, mapM_constVal_rn]
    cases args.mapM constVal? <;> rfl

theorem initPair_rn (fv : Expr × Expr) :
    initPair (rn fv.1, rn fv.2) = (initPair fv).map (fun kv => (rnKey kv.1, kv.2)) := by
  unfold initPair
  simp only [keyOf_rn, constVal_rn]
  cases keyOf? fv.1 with
  | none => rfl
  | some k => cases constVal? fv.2 <;> rfl

theorem mapM_map_comm {α β γ δ : Type} {f : α → Option β} {f' : γ → Option δ} {g : α → γ} {hh : β → δ}
    (h : ∀ x, f' (g x) = (f x).map hh) : ∀ l : List α, (l.map g).mapM f' = (l.mapM f).map (List.map hh)
  | [] => rfl
  | x :: xs => by
    rw [List.map_cons, List.mapM_cons, List.mapM_cons, h x, mapM_map_comm h xs]
    cases f x with
    | none => rfl
    | some y => cases xs.mapM f <;> rfl

/-- the renamed bindings of a state -/
def rnState (s : SimState) : SimState := ⟨s.vals.map (fun kv => (rnKey kv.1, kv.2))⟩

/-- the compiled explicit initial values are the renamed original ones -/
theorem initialState_btr {Q P : Problem} (hi : Q.init = P.init.map (fun kv => (retype kv.1, retype kv.2)))
    (hn : ∀ fv ∈ P.init, normal fv.1 = true ∧ normal fv.2 = true) :
    initialState? Q = (initialState? P).map rnState := by
  rw [initialState_eq, initialState_eq, hi]
  have e1 : P.init.map (fun kv => (retype kv.1, retype kv.2)) = P.init.map (fun kv => (rn kv.1, rn kv.2)) := by
    apply List.map_congr_left
    intro fv hfv
    rw [retype_eq_rn.1 _ (hn fv hfv).1, retype_eq_rn.1 _ (hn fv hfv).2]
  rw [e1, mapM_map_comm (f := initPair) (f' := initPair) (g := fun kv => (rn kv.1, rn kv.2)) initPair_rn]
  cases P.init.mapM initPair <;> rfl

theorem mapM_mem {α β : Type} {f : α → Option β} : ∀ {l : List α} {r : List β}, l.mapM f = some r →
    ∀ y ∈ r, ∃ x ∈ l, f x = some y
  | [], r, h, y, hy => by
    simp at h; subst h; cases hy
  | x :: xs, r, h, y, hy => by
    rw [List.mapM_cons] at h
    cases hx : f x with
    | none => rw [hx] at h; cases h
    | some b =>
      cases hxs : xs.mapM f with
      | none => rw [hx, hxs] at h; cases h
      | some bs =>
        rw [hx, hxs] at h
        have : r = b :: bs := by cases h; rfl
        subst this
        rcases List.mem_cons.1 hy with rfl | hy'
        · exact ⟨x, List.mem_cons_self .., hx⟩
        · obtain ⟨x', hx', hfx'⟩ := mapM_mem hxs y hy'
          exact ⟨x', List.mem_cons_of_mem _ hx', hfx'⟩

/-- the explicit initial values are given to declared fluents -/
theorem initKeys_declared {P : Problem} {D : List FluentRef} (hd : ∀ fv ∈ P.init, refsIn D fv.1 = true)
    {s0 : SimState} (h : initialState? P = some s0) : ∀ kv ∈ s0.vals, kv.1.1 ∈ D := by
  rw [initialState_eq] at h
  cases hm : P.init.mapM initPair with
  | none => rw [hm] at h; cases h
  | some l =>
    rw [hm] at h
    cases h
    intro kv hkv
    obtain ⟨fv, hfv, hp⟩ := mapM_mem hm kv hkv
    have hr := hd fv hfv
    unfold initPair at hp
    cases hk : keyOf? fv.1 with
    | none => rw [hk] at hp; cases hp
    | some k =>
      cases hv : constVal? fv.2 with
      | none => rw [hk, hv] at hp; cases hp
      | some v =>
        rw [hk, hv] at hp
        cases hp
        -- `keyOf?` succeeds on fluent applications only
        cases hfe : fv.1 with
        | leaf l => rw [hfe] at hk; cases hk
        | quant q vs b => rw [hfe] at hk; cases hk
        | app op args =>
          rw [hfe] at hk hr
          cases op <;> try (cases hk)
          rename_i f
          simp only [keyOf?] at hk
          cases hargs : args.mapM constVal? with
          | none => rw [hargs] at hk; cases hk
          | some vs =>
            rw [hargs] at hk
            cases hk
            simp only [refsIn, Bool.and_eq_true] at hr
            simpa using hr.1

theorem lookup_rn {D : List FluentRef} (hI : Inj D) {k : GKey} (hk : k.1 ∈ D) :
    ∀ (l : List (GKey × Val)), (∀ kv ∈ l, kv.1.1 ∈ D) →
      (l.map (fun kv => (rnKey kv.1, kv.2))).lookup (rnKey k) = l.lookup k
  | [], _ => rfl
  | kv :: rest, h => by
    obtain ⟨k', v⟩ := kv
    have hk' : k'.1 ∈ D := h (k', v) (List.mem_cons_self ..)
    have ih := lookup_rn hI hk rest (fun x hx => h x (List.mem_cons_of_mem _ hx))
    simp only [List.map_cons, List.lookup_cons]
    by_cases he : k = k'
    · subst he
      simp
    · have h1 : (k == k') = false := by simpa using he
      have h2 : (rnKey k == rnKey k') = false := by
        have : ¬ rnKey k = rnKey k' := fun x => he ((rnKey_eq_iff hI hk' hk).1 x)
        simpa using this
      rw [h1, h2]
      exact ih

theorem defaultOf_btr {Q P : Problem} (hf : Q.fluents = P.fluents.map (fun d => { d with ref := unboundRef d.ref }))
    (hI : Inj (declared P)) {f : FluentRef} (hfD : f ∈ declared P) :
    defaultOf Q (unboundRef f) = defaultOf P f := by
  unfold defaultOf
  rw [hf]
  have : ∀ l : List FluentDecl, (∀ d ∈ l, d.ref ∈ declared P) →
      ((l.map (fun d => ({ d with ref := unboundRef d.ref } : FluentDecl))).find? (fun d => d.ref == unboundRef f)).bind
        (fun d => d.default.bind constVal?) =
      (l.find? (fun d => d.ref == f)).bind (fun d => d.default.bind constVal?) := by
    intro l
    induction l with
    | nil => intro _; rfl
    | cons d ds ih =>
      intro hl
      have hd : d.ref ∈ declared P := hl d (List.mem_cons_self ..)
      have ih' := ih (fun x hx => hl x (List.mem_cons_of_mem _ hx))
      simp only [List.map_cons, List.find?_cons]
      by_cases he : d.ref = f
      · have h1 : (d.ref == f) = true := by simpa using he
        have h2 : (unboundRef d.ref == unboundRef f) = true := by rw [he]; simp
        rw [h1, h2]
        rfl
      · have h1 : (d.ref == f) = false := by simpa using he
        have h2 : (unboundRef d.ref == unboundRef f) = false := by
          have : ¬ unboundRef d.ref = unboundRef f := fun x => he (hI _ hd _ hfD x)
          simpa using this
        rw [h1, h2]
        exact ih'
  exact this P.fluents (fun d hd => List.mem_map_of_mem hd)

/-- the compiled initial state is related to the original one -/
theorem rel_init {Q P : Problem} (hf : Q.fluents = P.fluents.map (fun d => { d with ref := unboundRef d.ref }))
    (hI : Inj (declared P)) {s0 : SimState} (hk : ∀ kv ∈ s0.vals, kv.1.1 ∈ declared P) :
    Rel (declared P) ((rnState s0).get Q) (s0.get P) := by
  intro f hfD vs
  unfold SimState.get rnState
  have e : (unboundRef f, vs) = rnKey (f, vs) := rfl
  dsimp only
  rw [e, lookup_rn hI (k := (f, vs)) hfD s0.vals hk]
  cases s0.vals.lookup (f, vs) with
  | some v => rfl
  | none =>
    dsimp only
    show defaultOf P f = defaultOf Q (unboundRef f)
    rw [defaultOf_btr hf hI hfD]

end UPVerif.Compile
