import UPVerif.Lemmas.MASem
/-!
Helper lemmas for `Props/C37.lean`, conditional-effects side: `powerset` enumerates exactly the
sublists, the loop over the conditional effects in closed form, the unique subset whose added
preconditions hold in a state, and the successor of that variant.
-/
namespace UPVerif.MA
open UPVerif UPVerif.Expr UPVerif.Sim UPVerif.MASpec

/-! ### `combinations` / `powerset` -/

theorem mem_combinations {α : Type} : ∀ (l : List α) (r : Nat) (p : List α),
    p ∈ combinations l r ↔ p.Sublist l ∧ p.length = r
  | l, 0, p => by
    have : combinations l 0 = [[]] := by cases l <;> rfl
    rw [this]
    constructor
    · intro h
      have : p = [] := by simpa using h
      subst this; exact ⟨List.nil_sublist _, rfl⟩
    · rintro ⟨_, h2⟩
      have : p = [] := List.eq_nil_of_length_eq_zero h2
      subst this; simp
  | [], r + 1, p => by
    simp only [combinations, List.not_mem_nil, false_iff]
    rintro ⟨h1, h2⟩
    have : p = [] := by simpa using h1
    subst this; cases h2
  | x :: xs, r + 1, p => by
    simp only [combinations, List.mem_append, List.mem_map]
    rw [mem_combinations xs (r + 1) p, List.sublist_cons_iff]
    constructor
    · rintro (⟨q, hq, rfl⟩ | ⟨h1, h2⟩)
      · have := (mem_combinations xs r q).1 hq
        exact ⟨Or.inr ⟨q, rfl, this.1⟩, by simp [this.2]⟩
      · exact ⟨Or.inl h1, h2⟩
    · rintro ⟨h1 | ⟨q, rfl, hq⟩, h2⟩
      · exact Or.inr ⟨h1, h2⟩
      · left
        exact ⟨q, (mem_combinations xs r q).2 ⟨hq, by simpa using h2⟩, rfl⟩

theorem mem_powerset {α : Type} (l p : List α) : p ∈ powerset l ↔ p.Sublist l := by
  unfold powerset
  simp only [List.mem_flatMap, List.mem_range]
  constructor
  · rintro ⟨r, _, h⟩
    exact ((mem_combinations l r p).1 h).1
  · intro h
    exact ⟨p.length, Nat.lt_succ_of_le h.length_le, (mem_combinations l _ p).2 ⟨h, rfl⟩⟩

theorem nodup_map_cons {α : Type} (x : α) : ∀ {l : List (List α)}, l.Nodup → (l.map (x :: ·)).Nodup
  | [], _ => List.nodup_nil
  | q :: l, h => by
    rw [List.nodup_cons] at h
    rw [List.map_cons, List.nodup_cons]
    refine ⟨?_, nodup_map_cons x h.2⟩
    intro hm
    obtain ⟨q', hq', he⟩ := List.mem_map.1 hm
    have : q' = q := by simpa using he
    exact h.1 (this ▸ hq')

theorem combinations_nodup {α : Type} : ∀ (l : List α) (r : Nat), l.Nodup → (combinations l r).Nodup
  | l, 0, _ => by
    have : combinations l 0 = [[]] := by cases l <;> rfl
    rw [this]; simp
  | [], r + 1, _ => by simp [combinations]
  | x :: xs, r + 1, h => by
    rw [List.nodup_cons] at h
    simp only [combinations]
    rw [List.nodup_append]
    refine ⟨nodup_map_cons x (combinations_nodup xs r h.2), combinations_nodup xs (r + 1) h.2, ?_⟩
    intro a ha b hb hab
    obtain ⟨q, _, rfl⟩ := List.mem_map.1 ha
    have hsub := ((mem_combinations xs (r + 1) b).1 hb).1
    exact h.1 (hsub.subset (hab ▸ List.mem_cons_self ..))

/-- `powerset` lists every sublist exactly once -/
theorem powerset_nodup {α : Type} (l : List α) (h : l.Nodup) : (powerset l).Nodup := by
  unfold powerset
  have key : ∀ (rs : List Nat), rs.Nodup → (rs.flatMap (combinations l)).Nodup := by
    intro rs
    induction rs with
    | nil => intro _; simp
    | cons r rs ih =>
      intro hr
      rw [List.nodup_cons] at hr
      rw [List.flatMap_cons, List.nodup_append]
      refine ⟨combinations_nodup l r h, ih hr.2, ?_⟩
      intro a ha b hb hab
      obtain ⟨r', hr', hb'⟩ := List.mem_flatMap.1 hb
      have h1 := ((mem_combinations l r a).1 ha).2
      have h2 := ((mem_combinations l r' b).1 hb').2
      have : r = r' := by rw [← h1, ← h2, hab]
      exact hr.1 (this ▸ hr')
  exact key _ List.nodup_range

/-- two sublists of a duplicate-free list with the same elements are equal -/
theorem sublist_eq_of_mem_iff {α : Type} : ∀ (l p q : List α), l.Nodup → p.Sublist l → q.Sublist l →
    (∀ x ∈ l, x ∈ p ↔ x ∈ q) → p = q
  | [], p, q, _, hp, hq, _ => by
    have h1 : p = [] := by simpa using hp
    have h2 : q = [] := by simpa using hq
    rw [h1, h2]
  | x :: l, p, q, hn, hp, hq, h => by
    have hx : x ∉ l := (List.nodup_cons.1 hn).1
    have hl : l.Nodup := (List.nodup_cons.1 hn).2
    rw [List.sublist_cons_iff] at hp hq
    rcases hp with hp | ⟨p', rfl, hp'⟩
    · rcases hq with hq | ⟨q', rfl, hq'⟩
      · exact sublist_eq_of_mem_iff l p q hl hp hq (fun y hy => h y (List.mem_cons_of_mem _ hy))
      · have : x ∈ p := (h x (List.mem_cons_self ..)).2 (List.mem_cons_self ..)
        exact absurd (hp.subset this) hx
    · rcases hq with hq | ⟨q', rfl, hq'⟩
      · have : x ∈ q := (h x (List.mem_cons_self ..)).1 (List.mem_cons_self ..)
        exact absurd (hq.subset this) hx
      · congr 1
        apply sublist_eq_of_mem_iff l p' q' hl hp' hq'
        intro y hy
        have hne : y ≠ x := fun e => hx (e ▸ hy)
        have := h y (List.mem_cons_of_mem _ hy)
        simpa [hne] using this

/-! ### `enumerate` -/

theorem enumFrom_map_snd {α : Type} : ∀ (n : Nat) (l : List α), (enumFrom n l).map (·.2) = l
  | _, [] => rfl
  | n, x :: xs => by simp [enumFrom, enumFrom_map_snd (n + 1) xs]

theorem enumFrom_map_fst {α : Type} : ∀ (n : Nat) (l : List α), (enumFrom n l).map (·.1) = List.range' n l.length
  | _, [] => rfl
  | n, x :: xs => by simp [enumFrom, enumFrom_map_fst (n + 1) xs, List.range'_succ]

/-! ### the loop of `_create_unconditional_actions` in closed form -/

/-- the precondition added for every conditional effect: its condition when selected, else the
    negation -/
def marks (p : List Nat) (ies : List (Nat × Effect)) : List Expr :=
  ies.map (fun ie => if p.contains ie.1 then ie.2.cond else mkNot ie.2.cond)

/-- the unconditional copies of the selected conditional effects -/
def selected (p : List Nat) (ies : List (Nat × Effect)) : List Effect :=
  (ies.filter (fun ie => p.contains ie.1)).map (fun ie => uncond ie.2)

/-- the preconditions of a surviving variant are the marks -/
theorem variantLoop_pre (p : List Nat) : ∀ (ies : List (Nat × Effect)) (pre : List Expr)
    (acc : StaticAcc) (effs : List Effect) (pre' : List Expr) (effs' : List Effect),
    variantLoop p ies pre acc effs = some (pre', effs') → pre' = (marks p ies).foldl addPre pre
  | [], pre, _, effs, pre', effs', h => by
    simp only [variantLoop, Option.some.injEq, Prod.mk.injEq] at h
    simp [marks, h.1]
  | (i, e) :: rest, pre, acc, effs, pre', effs', h => by
    unfold variantLoop at h
    simp only [marks, List.map_cons, List.foldl_cons]
    by_cases hi : p.contains i = true
    · simp only [hi, if_true] at h ⊢
      cases hs : staticStep acc (uncond e) with
      | some acc' =>
        rw [hs] at h
        exact variantLoop_pre p rest _ _ _ _ _ h
      | none => rw [hs] at h; cases h
    · simp only [hi, Bool.false_eq_true, if_false] at h ⊢
      exact variantLoop_pre p rest _ _ _ _ _ h

/-- THE LOOP IN CLOSED FORM: the variant survives iff re-adding the unconditional copies of the selected
    effects raises no `UPConflictingEffectsException`, and then it carries the marks and exactly the
    selected effects -/
theorem variantLoop_eq (p : List Nat) : ∀ (ies : List (Nat × Effect)) (pre : List Expr)
    (acc : StaticAcc) (effs : List Effect),
    variantLoop p ies pre acc effs =
      if (staticAdd (selected p ies) acc).isSome then some ((marks p ies).foldl addPre pre, effs ++ selected p ies)
      else none
  | [], pre, _, effs => by simp [variantLoop, marks, selected, staticAdd]
  | (i, e) :: rest, pre, acc, effs => by
    unfold variantLoop
    simp only [marks, List.map_cons, List.foldl_cons]
    by_cases hi : p.contains i = true
    · have hi2 : i ∈ p := by simpa using hi
      have hsel : selected p ((i, e) :: rest) = uncond e :: selected p rest := by
        simp [selected, hi2]
      rw [hsel]
      simp only [hi, if_true]
      unfold staticAdd
      cases hs : staticStep acc (uncond e) with
      | none => simp
      | some acc' =>
        simp only
        rw [variantLoop_eq p rest _ acc' _]
        simp [marks, List.append_assoc]
    · have hi2 : i ∉ p := by simpa using hi
      have hsel : selected p ((i, e) :: rest) = selected p rest := by
        simp [selected, hi2]
      rw [hsel]
      simp only [hi, Bool.false_eq_true, if_false]
      rw [variantLoop_eq p rest _ acc _]
      simp [marks]

/-- when every selected effect is accepted by the static conflict check the variant carries exactly the
    selected effects -/
theorem variantLoop_ok (p : List Nat) (ies : List (Nat × Effect)) (pre : List Expr)
    (acc : StaticAcc) (effs : List Effect) (h : (staticAdd (selected p ies) acc).isSome = true) :
    variantLoop p ies pre acc effs = some ((marks p ies).foldl addPre pre, effs ++ selected p ies) := by
  rw [variantLoop_eq, if_pos h]

/-! ### which subset a state selects -/

/-- indices of the conditional effects whose condition is true in `g` -/
def selIdx (V : View) (g : GState) (ies : List (Nat × Effect)) : List Nat :=
  (ies.filter (fun ie => holds V g ie.2.cond)).map (·.1)

theorem all_marks {V : View} {g : GState} (p : List Nat) : ∀ (ies : List (Nat × Effect)),
    (∀ ie ∈ ies, ∃ b, bval V g ie.2.cond = some b) →
    ((marks p ies).all (holds V g) = true ↔ ∀ ie ∈ ies, p.contains ie.1 = holds V g ie.2.cond)
  | [], _ => by simp [marks]
  | ie :: rest, hd => by
    obtain ⟨b, hb⟩ := hd ie (List.mem_cons_self ..)
    have ih := all_marks p rest (fun x hx => hd x (List.mem_cons_of_mem _ hx))
    have hm : marks p (ie :: rest) = (if p.contains ie.1 then ie.2.cond else mkNot ie.2.cond) :: marks p rest := rfl
    rw [hm, List.all_cons, Bool.and_eq_true, ih]
    simp only [List.forall_mem_cons]
    apply and_congr_left'
    by_cases hi : p.contains ie.1 = true
    · simp only [hi, if_true]
      rw [holds_of_bval hb]
      cases b <;> simp
    · have hi' : p.contains ie.1 = false := by simpa using hi
      simp only [hi', Bool.false_eq_true, if_false]
      rw [holds_mkNot hb, holds_of_bval hb]
      cases b <;> simp

theorem selIdx_sublist (V : View) (g : GState) (n : Nat) (C : List Effect) :
    (selIdx V g (enumFrom n C)).Sublist (List.range' n C.length) := by
  rw [← enumFrom_map_fst n C]
  exact (List.filter_sublist (l := enumFrom n C)).map _

/-- EXACTLY ONE subset: a subset whose added preconditions all hold is the one the state selects -/
theorem marks_unique {V : View} {g : GState} {C : List Effect} {p : List Nat}
    (hd : ∀ e ∈ C, ∃ b, bval V g e.cond = some b)
    (hp : p ∈ powerset (List.range C.length))
    (hm : (marks p (enumFrom 0 C)).all (holds V g) = true) : p = selIdx V g (enumFrom 0 C) := by
  have hd' : ∀ ie ∈ enumFrom 0 C, ∃ b, bval V g ie.2.cond = some b := by
    intro ie hie
    apply hd
    rw [← enumFrom_map_snd 0 C]
    exact List.mem_map.2 ⟨ie, hie, rfl⟩
  have hall := (all_marks p _ hd').1 hm
  have hps : p.Sublist (List.range C.length) := (mem_powerset _ _).1 hp
  have hss := selIdx_sublist V g 0 C
  rw [← List.range_eq_range'] at hss
  apply sublist_eq_of_mem_iff _ _ _ List.nodup_range hps hss
  intro i hi
  have hmem : i ∈ (enumFrom 0 C).map (·.1) := by
    rw [enumFrom_map_fst, ← List.range_eq_range']; exact hi
  constructor
  · intro hip
    obtain ⟨ie, hie, rfl⟩ := List.mem_map.1 hmem
    have := hall ie hie
    have hc : p.contains ie.1 = true := by simpa using hip
    rw [hc] at this
    unfold selIdx
    exact List.mem_map.2 ⟨ie, List.mem_filter.2 ⟨hie, this.symm⟩, rfl⟩
  · intro his
    unfold selIdx at his
    obtain ⟨ie, hf, rfl⟩ := List.mem_map.1 his
    have ⟨hie, hh⟩ := List.mem_filter.1 hf
    have := hall ie hie
    rw [hh] at this
    simpa using this

theorem selIdx_mem_powerset (V : View) (g : GState) (C : List Effect) :
    selIdx V g (enumFrom 0 C) ∈ powerset (List.range C.length) := by
  rw [mem_powerset, List.range_eq_range']
  exact selIdx_sublist V g 0 C

theorem eq_of_nodup_map {α β : Type} (f : α → β) : ∀ (l : List α), (l.map f).Nodup →
    ∀ a ∈ l, ∀ b ∈ l, f a = f b → a = b
  | [], _, a, ha, _, _, _ => by cases ha
  | x :: l, hn, a, ha, b, hb, h => by
    rw [List.map_cons, List.nodup_cons] at hn
    rcases List.mem_cons.1 ha with rfl | ha'
    · rcases List.mem_cons.1 hb with rfl | hb'
      · rfl
      · exact absurd (List.mem_map.2 ⟨b, hb', h.symm⟩) hn.1
    · rcases List.mem_cons.1 hb with rfl | hb'
      · exact absurd (List.mem_map.2 ⟨a, ha', h⟩) hn.1
      · exact eq_of_nodup_map f l hn.2 a ha' b hb' h

theorem selIdx_marks {V : View} {g : GState} (ies : List (Nat × Effect))
    (hnd : (ies.map (·.1)).Nodup)
    (hd : ∀ ie ∈ ies, ∃ b, bval V g ie.2.cond = some b) :
    (marks (selIdx V g ies) ies).all (holds V g) = true := by
  rw [all_marks _ _ hd]
  intro ie hie
  cases hh : holds V g ie.2.cond with
  | true =>
    have : ie.1 ∈ selIdx V g ies := List.mem_map.2 ⟨ie, List.mem_filter.2 ⟨hie, hh⟩, rfl⟩
    simpa using this
  | false =>
    have : ie.1 ∉ selIdx V g ies := by
      intro hin
      obtain ⟨ie', hf, he⟩ := List.mem_map.1 hin
      have ⟨hie', hh'⟩ := List.mem_filter.1 hf
      have : ie' = ie := eq_of_nodup_map _ ies hnd ie' hie' ie hie he
      rw [this, hh] at hh'; cases hh'
    simpa using this

/-! ### the fired effects of the selected variant -/

theorem evSel_uncond {V : View} {g : GState} {e : Effect} {f : Fired}
    (hf : evalEff V g (uncond e) = some (some f)) : evSel V g (uncond e) = some f := by
  unfold evSel; rw [hf]; rfl

theorem evOk_uncond {V : View} {g : GState} {e : Effect} (h : EffDefined V g e) : evOk V g (uncond e) = true := by
  obtain ⟨⟨f, hf⟩, _⟩ := h
  unfold evOk; rw [hf]; rfl

theorem evOk_of_defined {V : View} {g : GState} {e : Effect} (h : EffDefined V g e) : evOk V g e = true := by
  obtain ⟨⟨f, hf⟩, ⟨b, hb⟩⟩ := h
  unfold evOk; rw [evalEff_of_defined hf hb]; rfl

theorem filterMap_selected {V : View} {g : GState} {p : List Nat} : ∀ (ies : List (Nat × Effect)),
    (∀ ie ∈ ies, p.contains ie.1 = holds V g ie.2.cond) → (∀ ie ∈ ies, EffDefined V g ie.2) →
    (selected p ies).filterMap (evSel V g) = (ies.map (·.2)).filterMap (evSel V g)
  | [], _, _ => rfl
  | ie :: rest, hsel, hD => by
    have ih := filterMap_selected rest (fun x hx => hsel x (List.mem_cons_of_mem _ hx))
      (fun x hx => hD x (List.mem_cons_of_mem _ hx))
    obtain ⟨⟨f, hf⟩, ⟨b, hb⟩⟩ := hD ie (List.mem_cons_self ..)
    have hs := hsel ie (List.mem_cons_self ..)
    rw [holds_of_bval hb] at hs
    have he : evSel V g ie.2 = if b then some f else none := by
      unfold evSel; rw [evalEff_of_defined hf hb]; rfl
    cases b with
    | true =>
      have hi2 : ie.1 ∈ p := by simpa using hs
      have : selected p (ie :: rest) = uncond ie.2 :: selected p rest := by
        simp [selected, hi2]
      rw [this, List.map_cons, List.filterMap_cons, List.filterMap_cons, evSel_uncond hf, he, ih]
      rfl
    | false =>
      have hi2 : ie.1 ∉ p := by simpa using hs
      have : selected p (ie :: rest) = selected p rest := by
        simp [selected, hi2]
      rw [this, List.map_cons, List.filterMap_cons, he, ih]
      rfl

theorem all_evOk_selected {V : View} {g : GState} {p : List Nat} {ies : List (Nat × Effect)}
    (hD : ∀ ie ∈ ies, EffDefined V g ie.2) : (selected p ies).all (evOk V g) = true := by
  rw [List.all_eq_true]
  intro e he
  unfold selected at he
  obtain ⟨ie, hie, rfl⟩ := List.mem_map.1 he
  exact evOk_uncond (hD ie (List.mem_filter.1 hie).1)

theorem uncond_cond_perm (a : Action) : (uncondEffects a ++ condEffects a).Perm a.effs := by
  unfold uncondEffects condEffects
  exact (List.perm_append_comm).trans (List.filter_append_perm _ _)

theorem mem_condEffects {a : Action} {e : Effect} (h : e ∈ condEffects a) : e ∈ a.effs :=
  (List.mem_filter.1 h).1
theorem mem_uncondEffects {a : Action} {e : Effect} (h : e ∈ uncondEffects a) : e ∈ a.effs :=
  (List.mem_filter.1 h).1

/-- the fired effects of the variant the state selects are a permutation of the original's -/
theorem fired_selected {V : View} {g : GState} {a : Action} (hD : ∀ e ∈ a.effs, EffDefined V g e) :
    ∃ F F', fired V g (uncondEffects a ++ selected (selIdx V g (enumFrom 0 (condEffects a))) (enumFrom 0 (condEffects a))) = some F ∧
      fired V g a.effs = some F' ∧ F.Perm F' := by
  have hDc : ∀ ie ∈ enumFrom 0 (condEffects a), EffDefined V g ie.2 := by
    intro ie hie
    apply hD; apply mem_condEffects
    rw [← enumFrom_map_snd 0 (condEffects a)]
    exact List.mem_map.2 ⟨ie, hie, rfl⟩
  have hnd : ((enumFrom 0 (condEffects a)).map (·.1)).Nodup := by
    rw [enumFrom_map_fst]; exact List.nodup_range'
  have hd' : ∀ ie ∈ enumFrom 0 (condEffects a), ∃ b, bval V g ie.2.cond = some b := fun ie hie => (hDc ie hie).2
  have hsel := (all_marks _ _ hd').1 (selIdx_marks _ hnd hd')
  refine ⟨(uncondEffects a ++ selected (selIdx V g (enumFrom 0 (condEffects a))) (enumFrom 0 (condEffects a))).filterMap (evSel V g),
    a.effs.filterMap (evSel V g), ?_, fired_of_defined hD, ?_⟩
  · rw [fired_eq, List.all_append, all_evOk_selected hDc]
    have : (uncondEffects a).all (evOk V g) = true := by
      rw [List.all_eq_true]
      intro e he
      exact evOk_of_defined (hD e (mem_uncondEffects he))
    rw [this]
    rfl
  · rw [List.filterMap_append, filterMap_selected _ hsel hDc, enumFrom_map_snd, ← List.filterMap_append]
    exact (uncond_cond_perm a).filterMap _

/-- THE STEP LEMMA of conditional-effect removal: the variant the state selects has the original's
    successor (before its preconditions are simplified) -/
theorem cond_successor {V : View} {g : GState} {a : Action} (hD : ∀ e ∈ a.effs, EffDefined V g e) :
    successor V g ((marks (selIdx V g (enumFrom 0 (condEffects a))) (enumFrom 0 (condEffects a))).foldl addPre a.pre)
      (uncondEffects a ++ selected (selIdx V g (enumFrom 0 (condEffects a))) (enumFrom 0 (condEffects a))) =
    successor V g a.pre a.effs := by
  have hnd : ((enumFrom 0 (condEffects a)).map (·.1)).Nodup := by
    rw [enumFrom_map_fst]; exact List.nodup_range'
  have hd' : ∀ ie ∈ enumFrom 0 (condEffects a), ∃ b, bval V g ie.2.cond = some b := by
    intro ie hie
    refine (hD ie.2 (mem_condEffects ?_)).2
    rw [← enumFrom_map_snd 0 (condEffects a)]
    exact List.mem_map.2 ⟨ie, hie, rfl⟩
  apply successor_eq_of_perm
  · rw [all_foldl_addPre, selIdx_marks _ hnd hd', Bool.and_true]
  · right
    exact fired_selected hD

theorem staticAdd_append : ∀ (A B : List Effect) (acc : StaticAcc),
    staticAdd (A ++ B) acc = (staticAdd A acc).bind (staticAdd B)
  | [], B, acc => rfl
  | e :: A, B, acc => by
    simp only [List.cons_append, staticAdd]
    cases staticStep acc e with
    | none => rfl
    | some acc' => exact staticAdd_append A B acc'

theorem successor_nil_effects (V : View) (g : GState) (pre : List Expr) :
    successor V g pre [] = if pre.all (holds V g) then some g else none := by
  unfold successor
  split
  · have : Spec.Cons g [] := by intro f hf; cases hf
    simp only [fired, this, if_true]
    congr 1
  · rfl

theorem allDefined_marks {V : View} {g : GState} (p : List Nat) {ies : List (Nat × Effect)}
    (hd : ∀ ie ∈ ies, ∃ b, bval V g ie.2.cond = some b) : AllDefined V g (marks p ies) := by
  intro e he
  unfold marks at he
  obtain ⟨ie, hie, rfl⟩ := List.mem_map.1 he
  obtain ⟨b, hb⟩ := hd ie hie
  split
  · exact ⟨b, hb⟩
  · refine ⟨!b, ?_⟩
    unfold bval at hb ⊢
    rw [bden_mkNot, hb]; rfl

theorem allDefined_foldl_addPre {V : View} {g : GState} {pre cs : List Expr}
    (h1 : AllDefined V g pre) (h2 : AllDefined V g cs) : AllDefined V g (cs.foldl addPre pre) := by
  intro e he
  rcases mem_foldl_addPre he with h | h
  · exact h1 e h
  · exact h2 e h

theorem successor_congr_pre {V : View} {g : GState} {pre pre' : List Expr} (E : List Effect)
    (h : pre.all (holds V g) = pre'.all (holds V g)) : successor V g pre E = successor V g pre' E := by
  unfold successor; rw [h]

theorem successor_none_of_pre {V : View} {g : GState} {pre : List Expr} (E : List Effect)
    (h : pre.all (holds V g) = false) : successor V g pre E = none := by
  unfold successor; simp [h]

theorem pre_of_successor {V : View} {g : GState} {pre : List Expr} {E : List Effect} {s : GState}
    (h : successor V g pre E = some s) : pre.all (holds V g) = true := by
  cases hp : pre.all (holds V g) with
  | true => rfl
  | false => rw [successor_none_of_pre E hp] at h; cases h

/-- re-adding the unconditional effects followed by the unconditional copies of the effects selected by `p`
    raises no `UPConflictingEffectsException`: the variant of `p` is not dropped for a static conflict
    (before d88a7f6: the hypothesis that excluded the former finding D-C37-conflicting-variant) -/
def NoStaticConflict (a : Action) (p : List Nat) : Prop :=
  (staticAdd (uncondEffects a ++ selected p (enumFrom 0 (condEffects a))) ⟨[], []⟩).isSome = true

instance (a : Action) (p : List Nat) : Decidable (NoStaticConflict a p) := by
  unfold NoStaticConflict; infer_instance

end UPVerif.MA
