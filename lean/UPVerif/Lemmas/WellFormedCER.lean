import UPVerif.Lemmas.WellFormedBasic
/-!
Helper lemmas for `Props/C08Models.lean`, part 4: the (named) model of `ConditionalEffectsRemover` keeps a
well-formed problem well-formed, its map-back is total and lands in the original problem, and no compiled action has
a conditional effect.  No Mathlib.
-/
namespace UPVerif.Compile
open UPVerif UPVerif.Expr UPVerif.Sim UPVerif.WF UPVerif.Declared

/-! ### one variant -/

theorem isConditional_tt (e : Effect) : Effect.isConditional { e with cond := Expr.tt } = false := rfl

/-- the loop over the conditional effects only adds (negated) conditions of the effects to the preconditions and
    unconditional copies of the effects to the effects -/
theorem cerLoop_spec {D : Decls} {ps : List (String × Ty)} (p : List Nat) :
    ∀ (C : List Effect) (i : Nat) (pre : List Expr) (effs : List Effect) (acc : StaticAcc) (pre' : List Expr)
      (effs' : List Effect), cerLoop p C i pre effs acc = some (pre', effs') →
      (∀ e ∈ C, wfEffect D ps e = true) → (∀ x ∈ pre, wfExpr D ps x = true) →
      (∀ e ∈ effs, wfEffect D ps e = true ∧ e.isConditional = false) →
      (∀ x ∈ pre', wfExpr D ps x = true) ∧ (∀ e ∈ effs', wfEffect D ps e = true ∧ e.isConditional = false)
  | [], i, pre, effs, acc, pre', effs', h, _, hp, he => by
    simp only [cerLoop, Option.some.injEq, Prod.mk.injEq] at h
    obtain ⟨rfl, rfl⟩ := h
    exact ⟨hp, he⟩
  | e :: es, i, pre, effs, acc, pre', effs', h, hC, hp, he => by
    have hwe := hC e (by simp)
    have hwe' := (wfEffect_iff D ps e).1 hwe
    have hC' : ∀ x ∈ es, wfEffect D ps x = true := fun x hx => hC x (List.mem_cons_of_mem _ hx)
    simp only [cerLoop] at h
    split at h
    · split at h
      · cases h
      · refine cerLoop_spec p es _ _ _ _ _ _ h hC' ?_ ?_
        · intro x hx
          rcases mem_addPre hx with hx | rfl
          · exact hp x hx
          · exact hwe'.2.2.2
        · intro x hx
          rcases List.mem_append.1 hx with hx | hx
          · exact he x hx
          · simp only [List.mem_singleton] at hx
            subst hx
            refine ⟨?_, isConditional_tt e⟩
            rw [wfEffect_iff]
            exact ⟨hwe'.1, hwe'.2.1, hwe'.2.2.1, wfExpr_tt D ps⟩
    · refine cerLoop_spec p es _ _ _ _ _ _ h hC' ?_ he
      intro x hx
      rcases mem_addPre hx with hx | rfl
      · exact hp x hx
      · exact wfExpr_mkNot hwe'.2.2.2

/-- one variant of `_create_unconditional_actions` -/
theorem cerVariant_spec {D : Decls} {simp : Expr → Expr} (hs : SimpWF simp) {a v : Action} {p : List Nat}
    (h : cerVariant simp a p = some v) (ha : wfAction D a = true) :
    wfAction D v = true ∧ (∀ e ∈ v.effs, e.isConditional = false) ∧ v.name = a.name := by
  rw [wfAction_iff] at ha
  unfold cerVariant at h
  simp only [] at h
  split at h
  · cases h
  · split at h
    · cases h
    · rename_i pre effs hloop
      split at h
      · cases h
      · split at h
        · cases h
        · rename_i pre' hpre
          simp only [Option.some.injEq] at h
          subst h
          have hU : ∀ e ∈ a.effs.filter (fun e => !e.isConditional),
              wfEffect D a.params e = true ∧ e.isConditional = false := by
            intro e he
            obtain ⟨hm, hc⟩ := List.mem_filter.1 he
            exact ⟨ha.2.2 e hm, by simpa using hc⟩
          have hC : ∀ e ∈ a.effs.filter (fun e => e.isConditional), wfEffect D a.params e = true :=
            fun e he => ha.2.2 e (List.mem_filter.1 he).1
          obtain ⟨hp, he⟩ := cerLoop_spec p _ _ _ _ _ _ _ hloop hC ha.2.1 hU
          refine ⟨?_, fun e hm => (he e hm).2, rfl⟩
          rw [wfAction_iff]
          refine ⟨ha.1, ?_, fun e hm => (he e hm).1⟩
          exact holds_simplifyPreWith (wfNode_consts _ _) (wfNode_and _ _) (hs D a.params) hpre hp

theorem cerVariants_spec {D : Decls} {simp : Expr → Expr} (hs : SimpWF simp) {a v : Action}
    (h : v ∈ cerVariants simp a) (ha : wfAction D a = true) :
    wfAction D v = true ∧ (∀ e ∈ v.effs, e.isConditional = false) ∧ v.name = a.name := by
  unfold cerVariants at h
  obtain ⟨p, _, hp⟩ := List.mem_filterMap.1 h
  exact cerVariant_spec hs hp ha

/-- `_instances_of_conditional_effect` on every effect -/
theorem wfAction_cerExpand (P : Problem) {a : Action} (ha : wfAction (declsOf P) a = true) :
    wfAction (declsOf P) (cerExpand P a) = true ∧ (cerExpand P a).name = a.name := by
  rw [wfAction_iff] at ha
  refine ⟨?_, rfl⟩
  rw [wfAction_iff]
  refine ⟨ha.1, ha.2.1, ?_⟩
  intro x hx
  simp only [cerExpand, List.mem_flatMap] at hx
  obtain ⟨e, he, hxe⟩ := hx
  have hcase : cerInstances P e = expandEffect P e ∨ cerInstances P e = [e] := by
    unfold cerInstances; split
    · exact .inl rfl
    · exact .inr rfl
  rcases hcase with hc | hc
  · rw [hc] at hxe
    exact wfEffect_expandEffect P a.params e (ha.2.2 e he) x hxe
  · rw [hc, List.mem_singleton] at hxe
    rw [hxe]
    exact ha.2.2 e he

/-! ### the compiled problem -/

def cerUnc (P : Problem) : List (Nat × Action) :=
  ((List.range P.actions.length).zip P.actions).filter (fun ia => !Action.isConditional ia.2)
def cerCnd (P : Problem) : List (Nat × Action) :=
  ((List.range P.actions.length).zip P.actions).filter (fun ia => Action.isConditional ia.2)
/-- the variants of the conditional actions with their origins, in the order they are added -/
def cerVar (simp : Expr → Expr) (P : Problem) : List (Action × Option Nat) :=
  (cerCnd P).flatMap (fun ia => (cerVariants simp (cerExpand P ia.2)).map (fun v => (v, some ia.1)))
def cerOut (simp : Expr → Expr) (P : Problem) : List (Action × Option Nat) :=
  (cerUnc P).map (fun ia => (ia.2, some ia.1)) ++ cerVar simp P

theorem cerCompile_eq (simp : Expr → Expr) (P : Problem) :
    cerCompile simp P = some { prob := { P with actions := (cerOut simp P).map (·.1) },
                               back := (cerOut simp P).map (·.2) } := rfl

/-- which compiled actions are named afresh: exactly the variants -/
theorem cer_flags (simp : Expr → Expr) (P : Problem) :
    ((cerOut simp P).map (·.1)).zip (((cerOut simp P).map (·.2)).map (cerFresh P))
      = ((cerUnc P).map (·.2)).map (fun a => (a, false)) ++ ((cerVar simp P).map (·.1)).map (fun a => (a, true)) := by
  rw [List.map_map, List.zip_map', cerOut, List.map_append, List.map_map, List.map_map, List.map_map]
  congr 1
  · apply List.map_congr_left
    intro ia hia
    obtain ⟨hm, hc⟩ := List.mem_filter.1 hia
    have hget := (mem_zip_range (a := ia.2) (i := ia.1) hm).1
    simp only [Function.comp, cerFresh, hget]
    simpa using hc
  · apply List.map_congr_left
    intro x hx
    simp only [cerVar, List.mem_flatMap, List.mem_map] at hx
    obtain ⟨ia, hia, v, _, rfl⟩ := hx
    obtain ⟨hm, hc⟩ := List.mem_filter.1 hia
    have hget := (mem_zip_range (a := ia.2) (i := ia.1) hm).1
    simp only [Function.comp, cerFresh, hget]
    simpa using hc

theorem cerUnc_actions (P : Problem) :
    (cerUnc P).map (·.2) = P.actions.filter (fun a => !Action.isConditional a) := by
  have h := (List.filter_map (f := fun ia : Nat × Action => ia.2) (p := fun a => !Action.isConditional a)
    (l := (List.range P.actions.length).zip P.actions)).symm
  rw [map_snd_zip_range] at h
  exact h

/-- the compiled actions with their names -/
def cerNamed (simp : Expr → Expr) (P : Problem) : List Action :=
  assignNames (otherNames P)
    (((cerUnc P).map (·.2)).map (fun a => (a, false)) ++ ((cerVar simp P).map (·.1)).map (fun a => (a, true)))

theorem cerCompileN_eq {simp : Expr → Expr} {P : Problem} {c : Compiled} (h : cerCompileN simp P = some c) :
    c = { prob := { P with actions := cerNamed simp P }, back := (cerOut simp P).map (·.2) } := by
  unfold cerCompileN at h
  rw [cerCompile_eq] at h
  simp only [Option.some.injEq] at h
  rw [← h, cer_flags]
  rfl

/-- every compiled action is a clone of an unconditional action or a variant of a conditional one -/
theorem cer_action_origin {simp : Expr → Expr} (hs : SimpWF simp) {P : Problem} (hP : WellFormed P) {a : Action}
    (ha : a ∈ (cerUnc P).map (·.2) ∨ a ∈ (cerVar simp P).map (·.1)) :
    wfAction (declsOf P) a = true ∧ (∀ e ∈ a.effs, e.isConditional = false) := by
  rcases ha with ha | ha
  · rw [cerUnc_actions] at ha
    obtain ⟨hm, hc⟩ := List.mem_filter.1 ha
    refine ⟨hP.actions a hm, ?_⟩
    intro e he
    have : a.effs.any (fun e => e.isConditional) = false := by simpa [Action.isConditional] using hc
    rw [List.any_eq_false] at this
    simpa using this e he
  · simp only [cerVar, List.map_flatMap, List.map_map, List.mem_flatMap, List.mem_map] at ha
    obtain ⟨ia, hia, v, hv, rfl⟩ := ha
    have hm : ia.2 ∈ P.actions := List.mem_of_getElem? (mem_zip_range (i := ia.1) (List.mem_filter.1 hia).1).1
    have h := cerVariants_spec hs hv (wfAction_cerExpand P (hP.actions _ hm)).1
    exact ⟨h.1, h.2.1⟩

theorem cer_wellFormed {simp : Expr → Expr} (hs : SimpWF simp) {P : Problem} {c : Compiled} (hP : WellFormed P)
    (hm : P.metrics = []) (h : cerCompileN simp P = some c) : WellFormed c.prob := by
  rw [cerCompileN_eq h]
  refine ⟨?_, hP.objects, hP.fluents, hP.init, ?_, hP.goals, hP.traj, ?_⟩
  · -- names
    show (otherNames P ++ (cerNamed simp P).map (·.name)).Nodup
    unfold cerNamed
    apply assignNames_kept_then_fresh_nodup
    rw [cerUnc_actions]
    exact ((List.filter_sublist.map _).append_left _).nodup hP.names
  · -- actions
    intro a' ha'
    obtain ⟨a, f, hmem, hsb⟩ := assignNames_mem ha'
    refine wfAction_sameBody hsb (cer_action_origin hs hP ?_).1
    rcases List.mem_append.1 hmem with hmem | hmem
    · obtain ⟨b, hb, heq⟩ := List.mem_map.1 hmem
      simp only [Prod.mk.injEq] at heq
      exact .inl (heq.1 ▸ hb)
    · obtain ⟨b, hb, heq⟩ := List.mem_map.1 hmem
      simp only [Prod.mk.injEq] at heq
      exact .inr (heq.1 ▸ hb)
  · intro m hmm
    have : m ∈ P.metrics := hmm
    rw [hm] at this
    cases this

theorem cer_backOK {simp : Expr → Expr} {P : Problem} {c : Compiled} (h : cerCompileN simp P = some c) :
    backOK P.actions.length c.prob.actions c.back = true := by
  rw [cerCompileN_eq h, backOK_iff]
  refine ⟨?_, ?_⟩
  · simp only [cerNamed, assignNames_length, List.length_map, List.length_append, cerOut]
  · intro b hb i hi
    subst hi
    simp only [cerOut, List.map_append, List.map_map, List.mem_append, List.mem_map] at hb
    rcases hb with ⟨ia, hia, heq⟩ | ⟨x, hx, heq⟩
    · simp only [Function.comp, Option.some.injEq] at heq
      subst heq
      exact (mem_zip_range (a := ia.2) (List.mem_filter.1 hia).1).2
    · simp only [cerVar, List.mem_flatMap, List.mem_map] at hx
      obtain ⟨ia, hia, v, _, rfl⟩ := hx
      simp only [Option.some.injEq] at heq
      subst heq
      exact (mem_zip_range (a := ia.2) (List.mem_filter.1 hia).1).2

/-- the loop only ever adds unconditional copies -/
theorem cerLoop_uncond (p : List Nat) :
    ∀ (C : List Effect) (i : Nat) (pre : List Expr) (effs : List Effect) (acc : StaticAcc) (pre' : List Expr)
      (effs' : List Effect), cerLoop p C i pre effs acc = some (pre', effs') →
      (∀ e ∈ effs, e.isConditional = false) → ∀ e ∈ effs', e.isConditional = false
  | [], i, pre, effs, acc, pre', effs', h, he => by
    simp only [cerLoop, Option.some.injEq, Prod.mk.injEq] at h
    obtain ⟨_, rfl⟩ := h
    exact he
  | e :: es, i, pre, effs, acc, pre', effs', h, he => by
    simp only [cerLoop] at h
    split at h
    · split at h
      · cases h
      · refine cerLoop_uncond p es _ _ _ _ _ _ h ?_
        intro x hx
        rcases List.mem_append.1 hx with hx | hx
        · exact he x hx
        · simp only [List.mem_singleton] at hx
          subst hx
          exact isConditional_tt e
    · exact cerLoop_uncond p es _ _ _ _ _ _ h he

theorem cerVariant_uncond {simp : Expr → Expr} {a v : Action} {p : List Nat} (h : cerVariant simp a p = some v) :
    ∀ e ∈ v.effs, e.isConditional = false := by
  unfold cerVariant at h
  simp only [] at h
  split at h
  · cases h
  · split at h
    · cases h
    · rename_i pre effs hloop
      split at h
      · cases h
      · split at h
        · cases h
        · simp only [Option.some.injEq] at h
          subst h
          refine cerLoop_uncond p _ _ _ _ _ _ _ hloop ?_
          intro e he
          simpa using (List.mem_filter.1 he).2

/-- no conditional effect is left (no hypothesis on the problem or on the simplifier) -/
theorem cer_target {simp : Expr → Expr} {P : Problem} {c : Compiled}
    (h : cerCompileN simp P = some c) : noCondEffects c.prob = true := by
  rw [cerCompileN_eq h]
  simp only [noCondEffects, List.all_eq_true]
  intro a' ha' e he
  obtain ⟨a, f, hmem, hsb⟩ := assignNames_mem ha'
  rw [hsb.2.2] at he
  suffices hs : e.isConditional = false by simp [hs]
  rcases List.mem_append.1 hmem with hmem | hmem
  · obtain ⟨b, hb, heq⟩ := List.mem_map.1 hmem
    simp only [Prod.mk.injEq] at heq
    have hb' : b ∈ (cerUnc P).map (·.2) := hb
    rw [cerUnc_actions] at hb'
    have hc := (List.mem_filter.1 hb').2
    have : b.effs.any (fun e => e.isConditional) = false := by simpa [Action.isConditional] using hc
    rw [List.any_eq_false] at this
    rw [← heq.1] at he
    simpa using this e he
  · obtain ⟨b, hb, heq⟩ := List.mem_map.1 hmem
    simp only [Prod.mk.injEq] at heq
    simp only [cerVar, List.map_flatMap, List.map_map, List.mem_flatMap, List.mem_map] at hb
    obtain ⟨ia, _, v, hv, rfl⟩ := hb
    unfold cerVariants at hv
    obtain ⟨p, _, hp⟩ := List.mem_filterMap.1 hv
    rw [← heq.1] at he
    exact cerVariant_uncond hp e he

end UPVerif.Compile
