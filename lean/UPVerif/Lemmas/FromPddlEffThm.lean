import UPVerif.Lemmas.FromPddlEffAgree
/-!
C21, effects: `eff_agree`.
-/
namespace UPVerif.FromPddl
open UPVerif UPVerif.Expr UPVerif.Pddl

theorem assign_kinds {h : String} {kU : EffKind} (hk : assignKind? h = some kU) :
    (h = "assign" ∧ kU = .assign) ∨ (h = "increase" ∧ kU = .increase) ∨ (h = "decrease" ∧ kU = .decrease) := by
  unfold assignKind? at hk
  split at hk
  · rename_i h1; exact Or.inl ⟨by simpa using h1, (Option.some.inj hk).symm⟩
  · split at hk
    · rename_i h1; exact Or.inr (Or.inl ⟨by simpa using h1, (Option.some.inj hk).symm⟩)
    · split at hk
      · rename_i h1; exact Or.inr (Or.inr ⟨by simpa using h1, (Option.some.inj hk).symm⟩)
      · cases hk

theorem leafEffect_inv {it : Pddl.EffItem} {f v : Expr} {k : EffKind} {es : List Effect} {more : List Pddl.EffItem}
    (h : leafEffect it f v k = some (es, more)) :
    isFluentExp f = true ∧ es = [Pddl.mkEffect f v it.cond k it.vars] ∧ more = [] := by
  unfold leafEffect at h
  split at h
  · rename_i hf
    cases h
    exact ⟨hf, rfl, rfl⟩
  · cases h

/-- the converter's step on an ordinary numeric effect -/
def ordStep (CE : CEnv) (ps : List (String × Ty)) (fx vy : Form) (qv : List Var) (c : Expr) (kE : EffKind) : Option EOut :=
  (convExpr CE ps qv fx).bind (fun f' => (convExpr CE ps qv vy).bind (fun v' =>
    if isFluentExp f' then some (.effect (Pddl.mkEffect f' v' c kE qv)) else none))

theorem astep_assign (CE : CEnv) (hc : Bool) (ps : List (String × Ty)) (fx vy : Form) (qv : List Var) (c : Expr) :
    effStep CE hc ps ⟨.op .assign [fx, vy], qv, c⟩ = ordStep CE ps fx vy qv c .assign := by
  unfold effStep ordStep
  simp only
  cases convExpr CE ps qv fx <;> cases convExpr CE ps qv vy <;> rfl

theorem astep_increase (CE : CEnv) (hc : Bool) (ps : List (String × Ty)) (fx vy : Form) (qv : List Var) (c : Expr) :
    effStep CE hc ps ⟨.op .increase [fx, vy], qv, c⟩ =
      if isActionCost hc fx then (if !qv.isEmpty || c != Expr.tt then none else (convExpr CE ps qv vy).map .cost)
      else ordStep CE ps fx vy qv c .increase := by
  unfold effStep ordStep
  simp only
  split
  · rfl
  · cases convExpr CE ps qv fx <;> cases convExpr CE ps qv vy <;> rfl

theorem astep_decrease (CE : CEnv) (hc : Bool) (ps : List (String × Ty)) (fx vy : Form) (qv : List Var) (c : Expr) :
    effStep CE hc ps ⟨.op .decrease [fx, vy], qv, c⟩ =
      if isActionCost hc fx then none else ordStep CE ps fx vy qv c .decrease := by
  unfold effStep ordStep
  simp only
  split
  · rfl
  · cases convExpr CE ps qv fx <;> cases convExpr CE ps qv vy <;> rfl

theorem isActionCost_inv {hc : Bool} {fx : Form} (h : isActionCost hc fx = true) : hc = true ∧ fx = .fn "total-cost" [] := by
  cases fx with
  | fn n ts =>
    simp only [isActionCost, Bool.and_eq_true, beq_iff_eq, List.isEmpty_iff] at h
    obtain ⟨⟨h1, h2⟩, h3⟩ := h
    exact ⟨h1, by rw [h2, h3]⟩
  | num _ => simp [isActionCost] at h
  | op _ _ => simp [isActionCost] at h
  | not _ => simp [isActionCost] at h
  | pred _ _ => simp [isActionCost] at h
  | eqT _ _ => simp [isActionCost] at h
  | quant _ _ _ => simp [isActionCost] at h
  | «when» _ _ => simp [isActionCost] at h
  | forallE _ _ => simp [isActionCost] at h

section
variable {E : REnv} {CE : CEnv} {ps : List (String × Ty)} {hc : Bool} {tc : Expr}
  (ag : EnvAgree E CE ps) (nm : NamesOK E) (C : PCtx) (ca : CostAgree E hc tc)
include ag nm

/-- an ordinary numeric effect: same target, related value -/
theorem ord_effect (x y : Sexp) (fx vy : Form) (f v : Expr) (kE : EffKind) (cond cond' : Expr) (vars : List Var)
    (rs' : List Effect) (it : EItem) (hit : it = ⟨it.eff, vars, cond'⟩) (hcnd : GdRel cond cond')
    (hf : readExpr E vars x = some f) (hv : readExpr E vars y = some v)
    (hfx : astFhead C x = some fx) (hvy : astFexp C y = some vy) (hoky : fexpOK C y = true)
    (hstep : effStep CE hc ps it = ordStep CE ps fx vy vars cond' kE)
    (hQ : AYield CE hc ps tc it rs') : EffsRel [Pddl.mkEffect f v cond kE vars] rs' := by
  obtain ⟨o, ho⟩ := hQ.defined
  rw [hstep] at ho
  unfold ordStep at ho hstep
  cases hf' : convExpr CE ps vars fx with
  | none => simp [hf'] at ho
  | some f' =>
    cases hv' : convExpr CE ps vars vy with
    | none => simp [hf', hv'] at ho
    | some v' =>
      simp only [hf', hv', Option.bind_some] at ho hstep
      split at ho
      · rename_i hfl'
        simp only [hfl', if_true] at hstep
        rw [hQ.inv_effect hstep]
        have hfeq := fhead_agree ag nm C (scope_refl vars) x fx f f' hf hfx hf'
        subst hfeq
        exact EffsRel.single (mkEffect_rel kE vars
          (fexp_agree ag nm C y vars vars v vy v' (scope_refl vars) hv hvy hv' hoky) hcnd)
      · cases ho

include ca in
/-- `(assign|increase|decrease target value)` -/
theorem leaf_assign (h : String) (kU : EffKind) (hk : assignKind? h = some kU) (rest : List Sexp) (φ : Form)
    (cond cond' : Expr) (vars : List Var) (rs rs' : List Effect) (hcnd : GdRel cond cond')
    (hU : UYield E ⟨.list (.atom h :: rest), cond, vars⟩ rs)
    (hA : astPEffect C (.list (.atom h :: rest)) = some φ)
    (hQ : AYield CE hc ps tc ⟨φ, vars, cond'⟩ rs') (hok : fexpOKs C rest = true) : EffsRel rs rs' := by
  have hkA : ∃ kA, assignOp? h = some kA := by
    rcases assign_kinds hk with ⟨rfl, _⟩ | ⟨rfl, _⟩ | ⟨rfl, _⟩ <;> exact ⟨_, rfl⟩
  obtain ⟨kA, hkA⟩ := hkA
  by_cases hl : rest.length = 2
  · match rest, hl, hU, hA, hok with
    | [x, y], _, hU, hA, hok =>
      rw [astPEffect_assign C h kA hkA, Option.bind_eq_some_iff] at hA
      obtain ⟨fx, hfx, hA⟩ := hA
      rw [Option.map_eq_some_iff] at hA
      obtain ⟨vy, hvy, rfl⟩ := hA
      -- first reader
      obtain ⟨es, more, r, hstep, hmore, rfl⟩ := hU.inv
      rw [ustep_assign E h kU hk] at hstep
      unfold binEffect at hstep
      simp only [Option.bind_eq_bind, Option.bind_eq_some_iff] at hstep
      obtain ⟨f, hf, v, hv, hleaf⟩ := hstep
      obtain ⟨hfl, rfl, rfl⟩ := leafEffect_inv hleaf
      rw [hmore.nil_inv, List.append_nil]
      have hoky : fexpOK C y = true := (fexpOKs_cons (fexpOKs_cons hok).2).1
      rcases assign_kinds hk with ⟨rfl, rfl⟩ | ⟨rfl, rfl⟩ | ⟨rfl, rfl⟩
      · cases hkA
        exact ord_effect ag nm C x y fx vy f v .assign cond cond' vars rs' _ rfl hcnd hf hv hfx hvy hoky
          (astep_assign CE hc ps fx vy vars cond') hQ
      · cases hkA
        by_cases hac : isActionCost hc fx = true
        · -- the cost of the action
          obtain ⟨hct, rfl⟩ := isActionCost_inv hac
          obtain ⟨tcRef, htc, hsig, rfl⟩ := ca.cost hct
          have hstepA := astep_increase CE hc ps (.fn "total-cost" []) vy vars cond'
          rw [if_pos hac] at hstepA
          obtain ⟨o, ho⟩ := hQ.defined
          rw [hstepA] at ho
          split at ho
          · cases ho
          · rename_i hcc
            simp only [Bool.or_eq_true, Bool.not_eq_true', not_or, Bool.not_eq_false, bne_iff_ne, ne_eq,
              Decidable.not_not, List.isEmpty_iff] at hcc
            obtain ⟨hvars, hcond⟩ := hcc
            subst hvars hcond
            simp only [List.isEmpty_nil, Bool.not_true, bne_self_eq_false, Bool.or_self, Bool.false_eq_true,
              if_false] at hstepA
            cases hv' : convExpr CE ps [] vy with
            | none => simp [hv'] at ho
            | some v' =>
              rw [hv', Option.map_some] at hstepA
              rw [hQ.inv_cost hstepA]
              have hft := tc_target hfx htc hsig hf
              subst hft
              refine EffsRel.single ⟨rfl, fexp_agree ag nm C y [] [] v vy v' (scope_refl []) hv hvy hv' hoky, hcnd, rfl, ?_⟩
              exact mkEffect_nil_vars _ _ _ _
        · have hac' : isActionCost hc fx = false := by simpa using hac
          have hstepA := astep_increase CE hc ps fx vy vars cond'
          rw [hac'] at hstepA
          exact ord_effect ag nm C x y fx vy f v .increase cond cond' vars rs' _ rfl hcnd hf hv hfx hvy hoky hstepA hQ
      · cases hkA
        by_cases hac : isActionCost hc fx = true
        · have hstepA := astep_decrease CE hc ps fx vy vars cond'
          rw [if_pos hac] at hstepA
          obtain ⟨o, ho⟩ := hQ.defined
          rw [hstepA] at ho; cases ho
        · have hac' : isActionCost hc fx = false := by simpa using hac
          have hstepA := astep_decrease CE hc ps fx vy vars cond'
          rw [hac'] at hstepA
          exact ord_effect ag nm C x y fx vy f v .decrease cond cond' vars rs' _ rfl hcnd hf hv hfx hvy hoky hstepA hQ
  · rw [astPEffect_assign_other C h kA hkA rest hl] at hA; cases hA

/-- `(p t…)` as an effect -/
theorem leaf_pred (h : String) (hh : isEffHead h = false) (rest : List Sexp) (φ : Form)
    (cond cond' : Expr) (vars : List Var) (rs rs' : List Effect) (hcnd : GdRel cond cond')
    (hU : UYield E ⟨.list (.atom h :: rest), cond, vars⟩ rs)
    (hA : astPEffect C (.list (.atom h :: rest)) = some φ)
    (hQ : AYield CE hc ps tc ⟨φ, vars, cond'⟩ rs') : EffsRel rs rs' := by
  have hnot : h ≠ "not" := by
    intro e; subst e; simp [isEffHead] at hh
  obtain ⟨o, ho⟩ := hQ.defined
  cases hk : assignOp? h with
  | some kA =>
    -- `scale-up` / `scale-down`: refused by the converter
    by_cases hl : rest.length = 2
    · match rest, hl, hA with
      | [x, y], _, hA =>
        rw [astPEffect_assign C h kA hk, Option.bind_eq_some_iff] at hA
        obtain ⟨fx, _, hA⟩ := hA
        rw [Option.map_eq_some_iff] at hA
        obtain ⟨vy, _, rfl⟩ := hA
        have hkk : kA = .scaleUp ∨ kA = .scaleDown := by
          unfold assignOp? at hk
          unfold isEffHead at hh
          simp only [Bool.or_eq_false_iff] at hh
          obtain ⟨⟨⟨⟨⟨⟨_, _⟩, _⟩, h4⟩, h5⟩, h6⟩, _⟩ := hh
          simp only [h4, h5, h6, Bool.false_eq_true, if_false] at hk
          split at hk
          · exact Or.inl (Option.some.inj hk).symm
          · split at hk
            · exact Or.inr (Option.some.inj hk).symm
            · cases hk
        rcases hkk with rfl | rfl
        · have : effStep CE hc ps ⟨.op .scaleUp [fx, vy], vars, cond'⟩ = none := rfl
          rw [this] at ho; cases ho
        · have : effStep CE hc ps ⟨.op .scaleDown [fx, vy], vars, cond'⟩ = none := rfl
          rw [this] at ho; cases ho
    · rw [astPEffect_assign_other C h kA hk rest hl] at hA; cases hA
  | none =>
    rw [astPEffect_plain C h rest hk hnot] at hA
    by_cases he : h = "="
    · -- an equality is not an effect
      subst he
      match rest, hA with
      | [a, b], hA =>
        rw [astAtom_eq] at hA
        split at hA
        · rw [Option.bind_eq_some_iff] at hA
          obtain ⟨x, _, hA⟩ := hA
          rw [Option.map_eq_some_iff] at hA
          obtain ⟨y, _, rfl⟩ := hA
          rw [astep_eqT] at ho; cases ho
        · cases hA
      | [], hA => simp [astAtom] at hA
      | [_], hA => simp [astAtom] at hA
      | _ :: _ :: _ :: _, hA => simp [astAtom] at hA
    · have hne : (h == "=") = false := by simpa using he
      rw [astAtom_pred C h rest hne] at hA
      split at hA
      · cases hA
      · rename_i hres
        simp only [Bool.or_eq_true, not_or, Bool.not_eq_true] at hres
        rw [Option.map_eq_some_iff] at hA
        obtain ⟨τs, hτs, rfl⟩ := hA
        have hstepA := astep_pred CE hc ps h τs vars cond'
        rw [hstepA] at ho
        cases hf' : convFluent CE ps vars h τs with
        | none => simp [hf'] at ho
        | some f' =>
          rw [hf', Option.map_some] at hstepA
          rw [hQ.inv_effect hstepA]
          obtain ⟨es, more, r, hstep, hmore, rfl⟩ := hU.inv
          rw [ustep_atom E h hh, Option.bind_eq_some_iff] at hstep
          obtain ⟨f, hf, hleaf⟩ := hstep
          obtain ⟨_, rfl, rfl⟩ := leafEffect_inv hleaf
          rw [hmore.nil_inv, List.append_nil]
          have := app_agree ag nm C (scope_refl vars) h rest τs f f' hres.1.1 hτs hf hf'
          subst this
          exact EffsRel.single (mkEffect_rel .assign vars (FRel.refl _) hcnd)

/-- `(not (p t…))` as an effect -/
theorem leaf_not (x : Sexp) (φ : Form) (cond cond' : Expr) (vars : List Var) (rs rs' : List Effect) (hcnd : GdRel cond cond')
    (hU : UYield E ⟨.list [.atom "not", x], cond, vars⟩ rs)
    (hA : astPEffect C (.list [.atom "not", x]) = some φ)
    (hQ : AYield CE hc ps tc ⟨φ, vars, cond'⟩ rs') : EffsRel rs rs' := by
  rw [astPEffect_not, Option.map_eq_some_iff] at hA
  obtain ⟨a, ha, rfl⟩ := hA
  obtain ⟨o, ho⟩ := hQ.defined
  have hstepA := astep_not CE hc ps a vars cond'
  rw [hstepA] at ho
  obtain ⟨hd, rest, rfl, _⟩ := astAtom_head ha
  by_cases he : hd = "="
  · subst he
    match rest, ha with
    | [p, q], ha =>
      rw [astAtom_eq] at ha
      split at ha
      · rw [Option.bind_eq_some_iff] at ha
        obtain ⟨l, _, ha⟩ := ha
        rw [Option.map_eq_some_iff] at ha
        obtain ⟨r, _, rfl⟩ := ha
        rw [convExpr] at ho
        cases hl : convTerm CE ps vars l <;> cases hr : convTerm CE ps vars r <;>
          simp [hl, hr, isFluentExp, Expr.mkEq] at ho
      · cases ha
    | [], ha => simp [astAtom] at ha
    | [_], ha => simp [astAtom] at ha
    | _ :: _ :: _ :: _, ha => simp [astAtom] at ha
  · have hne : (hd == "=") = false := by simpa using he
    rw [astAtom_pred C hd rest hne] at ha
    split at ha
    · cases ha
    · rename_i hres
      simp only [Bool.or_eq_true, not_or, Bool.not_eq_true] at hres
      rw [Option.map_eq_some_iff] at ha
      obtain ⟨τs, hτs, rfl⟩ := ha
      rw [convExpr] at ho hstepA
      cases hf' : convFluent CE ps vars hd τs with
      | none => simp [hf'] at ho
      | some f' =>
        simp only [hf', Option.bind_some] at ho hstepA
        split at ho
        · rename_i hfl'
          simp only [hfl', if_true] at hstepA
          rw [hQ.inv_effect hstepA]
          obtain ⟨es, more, r, hstep, hmore, rfl⟩ := hU.inv
          rw [ustep_not, Option.bind_eq_some_iff] at hstep
          obtain ⟨f, hf, hleaf⟩ := hstep
          obtain ⟨_, rfl, rfl⟩ := leafEffect_inv hleaf
          rw [hmore.nil_inv, List.append_nil]
          rw [readExpr] at hf
          have := app_agree ag nm C (scope_refl vars) hd rest τs f f' hres.1.1 hτs hf hf'
          subst this
          exact EffsRel.single (mkEffect_rel .assign vars (FRel.refl _) hcnd)
        · cases ho

end

end UPVerif.FromPddl
